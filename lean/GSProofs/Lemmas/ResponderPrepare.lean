import GSProofs.Lemmas.ResponderRun
import GSProofs.Lemmas.ResponderMsg
import GSProofs.Lemmas.ResponderDedup
/-!
Lemmas for C03, part 4: `prepareQuery` of an accepted request with well-formed extensions on a
tracker in which the request id is fresh; the operations of a thread are `Good`; final status.
-/
namespace GS.C03L
open GS.LinkTrack GS.Responder

/-- the request id has no record in the peer's tracker (request ids are fresh UUIDs, and
`FinishTracking` erases every record of a finished request). -/
def Fresh (p : PeerTracker) (r : Req) : Prop :=
  aget p.sentCount r = none ∧ aget p.skipFirst r = none ∧ aget p.dedupKeys r = none ∧
  aget p.main.missing r = none ∧ (∀ k t, aget p.alts k = some t → aget t.missing r = none) ∧
  aget p.main.linksByReq r = none

/-- some request in progress in the dedup scope `key` has traversed `c` with its block. -/
def inUse (p : PeerTracker) (key : Option Key) (c : Cid) : Bool :=
  (p.scopeTracker key).blockRefCount c != 0

/-- the request's view: sent count, skip count and the tracker of its scope. -/
def V (p : PeerTracker) (r : Req) (n : Nat) (sk : Int) (T : LinkTracker) : Prop :=
  cnt p r = n ∧ skipOf p r = sk ∧ p.trackerOf r = T

theorem V_none {p : PeerTracker} {r : Req} (hf : Fresh p r) : V p r 0 0 (p.scopeTracker none) := by
  obtain ⟨h1, h2, h3, _, _, _⟩ := hf
  refine ⟨by simp [cnt, h1], by simp [skipOf, h2], ?_⟩
  simp [PeerTracker.trackerOf, h3]

theorem V_dedup {p : PeerTracker} {r : Req} (hf : Fresh p r) (k : Key) :
    V (p.setDedupKey r k) r 0 0 (p.scopeTracker (some k)) := by
  obtain ⟨h1, h2, h3, h4, _, h6⟩ := hf
  exact ⟨by simp [cnt, setDedupKey_sentCount, h1], by simp [skipOf, setDedupKey_skipFirst, h2],
    setDedupKey_fresh_trackerOf p r k h3 h6 h4⟩

theorem V_ignore {p : PeerTracker} {r : Req} {n : Nat} {sk : Int} {T : LinkTracker}
    (h : V p r n sk T) (ls : List Cid) :
    V (p.ignoreBlocks r ls) r n sk (ls.foldl (fun t l => t.record r l true) T) := by
  obtain ⟨h1, h2, h3⟩ := h
  refine ⟨?_, ?_, ?_⟩
  · simpa [cnt, PeerTracker.ignoreBlocks, setTracker_sentCount] using h1
  · simpa [skipOf, PeerTracker.ignoreBlocks, setTracker_skipFirst] using h2
  · simp only [PeerTracker.ignoreBlocks, trackerOf_setTracker, h3]

theorem V_skip {p : PeerTracker} {r : Req} {n : Nat} {sk : Int} {T : LinkTracker}
    (h : V p r n sk T) (k : Int) : V (p.skipFirstBlocks r k) r n k T := by
  obtain ⟨h1, h2, h3⟩ := h
  refine ⟨?_, ?_, ?_⟩
  · simpa [cnt, PeerTracker.skipFirstBlocks] using h1
  · simp [skipOf, PeerTracker.skipFirstBlocks, aget_aset]
  · simpa [PeerTracker.trackerOf, PeerTracker.skipFirstBlocks, PeerTracker.scopeTracker] using h3

theorem foldl_record_refcount (r : Req) (ls : List Cid) (c : Cid) : ∀ T : LinkTracker,
    ((ls.foldl (fun t l => t.record r l true) T).blockRefCount c != 0)
      = (T.blockRefCount c != 0 || ls.contains c) := by
  induction ls with
  | nil => intro T; simp
  | cons l ls ih =>
    intro T
    simp only [List.foldl, ih, record_refcount, Bool.true_and, List.contains_cons]
    by_cases h : c = l
    · subst h; simp
    · have : (c == l) = false := by simp [h]
      simp [this]

theorem foldl_record_missing (r : Req) (ls : List Cid) : ∀ T : LinkTracker,
    (ls.foldl (fun t l => t.record r l true) T).missing = T.missing := by
  induction ls with
  | nil => intro T; rfl
  | cons l ls ih =>
    intro T
    show (ls.foldl _ (T.record r l true)).missing = _
    rw [ih]
    simp [LinkTracker.record]

theorem scope_missing {p : PeerTracker} {r : Req} (hf : Fresh p r) (key : Option Key) :
    aget (p.scopeTracker key).missing r = none := by
  obtain ⟨_, _, _, h4, h5, _⟩ := hf
  cases key with
  | none => simpa [PeerTracker.scopeTracker] using h4
  | some k =>
    simp only [PeerTracker.scopeTracker]
    cases h : aget p.alts k with
    | none => simp [aget]
    | some t => simpa using h5 k t h

/-- `prepareQuery` of an accepted request (hooks validated it, did not pause it, no error) whose
extensions decode to `w`: no response yet, and the tracker is set up as `w` says. -/
theorem prepare_ok' (p : PeerTracker) (r : Req) (e : Ext) (w : Want) (hw : e.want? = some w)
    (hf : Fresh p r) (hp : Bool) :
    ∃ p1, prepareQuery p r { paused := hp } e
        = (p1, [if hp then [.status .paused] else []], if hp then .paused else .queued) ∧
      aget p1.dedupKeys r = w.key ∧ (∀ x, x ≠ r → aget p1.dedupKeys x = aget p.dedupKeys x) ∧
      cnt p1 r = 0 ∧ skipOf p1 r = w.skip ∧ missOf p1 r = false ∧
      ∀ c, (rcOf p1 r c != 0) = (w.ignore.contains c || inUse p w.key c) := by
  -- the state after the three stages, whatever their presence
  have fin : ∀ p1, V p1 r 0 w.skip (w.ignore.foldl (fun t l => t.record r l true) (p.scopeTracker w.key)) →
      cnt p1 r = 0 ∧ skipOf p1 r = w.skip ∧ missOf p1 r = false ∧
      ∀ c, (rcOf p1 r c != 0) = (w.ignore.contains c || inUse p w.key c) := by
    intro p1 ⟨h1, h2, h3⟩
    refine ⟨h1, h2, ?_, ?_⟩
    · simp [missOf, h3, foldl_record_missing, scope_missing hf]
    · intro c
      simp only [rcOf, h3, foldl_record_refcount, inUse, Bool.or_comm]
  have hdk0 := hf.2.2.1
  obtain ⟨ek, ei, es⟩ := e
  cases ek with
  | bad => simp [Ext.want?] at hw
  | absent =>
    cases ei with
    | bad => simp [Ext.want?] at hw
    | absent =>
      cases es with
      | bad => simp [Ext.want?] at hw
      | absent =>
        simp only [Ext.want?, Option.some.injEq] at hw; subst hw
        exact ⟨p, by cases hp <;> simp [prepareQuery, runStages, runStage, stages, GS.Generated.PrepareQuery.stages], by simp [setDedupKey_dedupKeys, PeerTracker.ignoreBlocks, PeerTracker.skipFirstBlocks, setTracker_dedupKeys, aget_aset, hdk0], by intro x hx; simp [setDedupKey_dedupKeys, PeerTracker.ignoreBlocks, PeerTracker.skipFirstBlocks, setTracker_dedupKeys, aget_aset, Ne.symm hx], fin p (V_none hf)⟩
      | ok n =>
        simp only [Ext.want?, Option.some.injEq] at hw; subst hw
        exact ⟨_, by cases hp <;> simp [prepareQuery, runStages, runStage, stages, GS.Generated.PrepareQuery.stages], by simp [setDedupKey_dedupKeys, PeerTracker.ignoreBlocks, PeerTracker.skipFirstBlocks, setTracker_dedupKeys, aget_aset, hdk0], by intro x hx; simp [setDedupKey_dedupKeys, PeerTracker.ignoreBlocks, PeerTracker.skipFirstBlocks, setTracker_dedupKeys, aget_aset, Ne.symm hx], fin _ (V_skip (V_none hf) n)⟩
    | ok ls =>
      cases es with
      | bad => simp [Ext.want?] at hw
      | absent =>
        simp only [Ext.want?, Option.some.injEq] at hw; subst hw
        exact ⟨_, by cases hp <;> simp [prepareQuery, runStages, runStage, stages, GS.Generated.PrepareQuery.stages], by simp [setDedupKey_dedupKeys, PeerTracker.ignoreBlocks, PeerTracker.skipFirstBlocks, setTracker_dedupKeys, aget_aset, hdk0], by intro x hx; simp [setDedupKey_dedupKeys, PeerTracker.ignoreBlocks, PeerTracker.skipFirstBlocks, setTracker_dedupKeys, aget_aset, Ne.symm hx], fin _ (V_ignore (V_none hf) ls)⟩
      | ok n =>
        simp only [Ext.want?, Option.some.injEq] at hw; subst hw
        exact ⟨_, by cases hp <;> simp [prepareQuery, runStages, runStage, stages, GS.Generated.PrepareQuery.stages], by simp [setDedupKey_dedupKeys, PeerTracker.ignoreBlocks, PeerTracker.skipFirstBlocks, setTracker_dedupKeys, aget_aset, hdk0], by intro x hx; simp [setDedupKey_dedupKeys, PeerTracker.ignoreBlocks, PeerTracker.skipFirstBlocks, setTracker_dedupKeys, aget_aset, Ne.symm hx],
          fin _ (V_skip (V_ignore (V_none hf) ls) n)⟩
  | ok k =>
    cases ei with
    | bad => simp [Ext.want?] at hw
    | absent =>
      cases es with
      | bad => simp [Ext.want?] at hw
      | absent =>
        simp only [Ext.want?, Option.some.injEq] at hw; subst hw
        exact ⟨_, by cases hp <;> simp [prepareQuery, runStages, runStage, stages, GS.Generated.PrepareQuery.stages], by simp [setDedupKey_dedupKeys, PeerTracker.ignoreBlocks, PeerTracker.skipFirstBlocks, setTracker_dedupKeys, aget_aset, hdk0], by intro x hx; simp [setDedupKey_dedupKeys, PeerTracker.ignoreBlocks, PeerTracker.skipFirstBlocks, setTracker_dedupKeys, aget_aset, Ne.symm hx], fin _ (V_dedup hf k)⟩
      | ok n =>
        simp only [Ext.want?, Option.some.injEq] at hw; subst hw
        exact ⟨_, by cases hp <;> simp [prepareQuery, runStages, runStage, stages, GS.Generated.PrepareQuery.stages], by simp [setDedupKey_dedupKeys, PeerTracker.ignoreBlocks, PeerTracker.skipFirstBlocks, setTracker_dedupKeys, aget_aset, hdk0], by intro x hx; simp [setDedupKey_dedupKeys, PeerTracker.ignoreBlocks, PeerTracker.skipFirstBlocks, setTracker_dedupKeys, aget_aset, Ne.symm hx], fin _ (V_skip (V_dedup hf k) n)⟩
    | ok ls =>
      cases es with
      | bad => simp [Ext.want?] at hw
      | absent =>
        simp only [Ext.want?, Option.some.injEq] at hw; subst hw
        exact ⟨_, by cases hp <;> simp [prepareQuery, runStages, runStage, stages, GS.Generated.PrepareQuery.stages], by simp [setDedupKey_dedupKeys, PeerTracker.ignoreBlocks, PeerTracker.skipFirstBlocks, setTracker_dedupKeys, aget_aset, hdk0], by intro x hx; simp [setDedupKey_dedupKeys, PeerTracker.ignoreBlocks, PeerTracker.skipFirstBlocks, setTracker_dedupKeys, aget_aset, Ne.symm hx], fin _ (V_ignore (V_dedup hf k) ls)⟩
      | ok n =>
        simp only [Ext.want?, Option.some.injEq] at hw; subst hw
        exact ⟨_, by cases hp <;> simp [prepareQuery, runStages, runStage, stages, GS.Generated.PrepareQuery.stages], by simp [setDedupKey_dedupKeys, PeerTracker.ignoreBlocks, PeerTracker.skipFirstBlocks, setTracker_dedupKeys, aget_aset, hdk0], by intro x hx; simp [setDedupKey_dedupKeys, PeerTracker.ignoreBlocks, PeerTracker.skipFirstBlocks, setTracker_dedupKeys, aget_aset, Ne.symm hx],
          fin _ (V_skip (V_ignore (V_dedup hf k) ls) n)⟩

theorem prepare_ok (p : PeerTracker) (r : Req) (e : Ext) (w : Want) (hw : e.want? = some w)
    (hf : Fresh p r) :
    ∃ p1, prepareQuery p r {} e = (p1, [[]], .queued) ∧
      cnt p1 r = 0 ∧ skipOf p1 r = w.skip ∧ missOf p1 r = false ∧
      ∀ c, (rcOf p1 r c != 0) = (w.ignore.contains c || inUse p w.key c) := by
  obtain ⟨p1, h1, _, _, h2⟩ := prepare_ok' p r e w hw hf false
  exact ⟨p1, by simpa using h1, h2⟩

/-! ### the operations of a thread are `Good` -/

theorem attach_present_of_block (skip : Int) (ex : Cid → Bool) (es : List (Cid × Bool)) :
    ∀ (i : Nat) (seen : List Cid), ∀ it ∈ attach skip ex i seen es, it.block = true → it.present = true := by
  induction es with
  | nil => intro i seen it h; cases h
  | cons e es ih =>
    intro i seen it h hb
    obtain ⟨c, pres⟩ := e
    simp only [attach, List.mem_cons] at h
    rcases h with rfl | h
    · simp only [Bool.and_eq_true] at hb
      exact hb.1.1.1
    · exact ih _ _ it h hb

theorem attach_block_false_of_seen (skip : Int) (ex : Cid → Bool) (es : List (Cid × Bool)) :
    ∀ (i : Nat) (seen : List Cid), ∀ it ∈ attach skip ex i seen es, it.cid ∈ seen → it.block = false := by
  induction es with
  | nil => intro i seen it h; cases h
  | cons e es ih =>
    intro i seen it h hs
    obtain ⟨c, pres⟩ := e
    simp only [attach, List.mem_cons] at h
    rcases h with rfl | h
    · have : seen.contains c = true := by simpa using hs
      simp only [this, Bool.not_true, Bool.and_false]
    · apply ih _ _ it h
      cases pres with
      | false => simpa using hs
      | true => simpa using Or.inr hs

theorem mem_mkTxns_flatten (items : List Item) : ∀ (i : Nat) (op : ROp), op ∈ (mkTxns i items).flatten →
    ∃ it ∈ items, ∃ k, op = .block it.cid it.present it.block k := by
  induction items with
  | nil => intro i op h; simp [mkTxns] at h
  | cons it its ih =>
    intro i op h
    simp only [mkTxns, List.flatten_cons, List.cons_append, List.nil_append, List.mem_cons] at h
    rcases h with rfl | h
    · exact ⟨it, List.mem_cons_self, _, rfl⟩
    · obtain ⟨it', hm, k, hk⟩ := ih _ _ h
      exact ⟨it', List.mem_cons_of_mem _ hm, k, hk⟩

theorem itemsOf_mkTxns (items : List Item) : ∀ i : Nat, itemsOf (mkTxns i items).flatten = items := by
  induction items with
  | nil => intro i; rfl
  | cons it its ih => intro i; simp [mkTxns, itemsOf, ih]

theorem Good_attach (skip : Int) (ex : Cid → Bool) (es : List (Cid × Bool)) :
    ∀ (i j : Nat) (seen : List Cid), Good (mkTxns j (attach skip ex i seen es)).flatten := by
  induction es with
  | nil => intro i j seen; simp [attach, mkTxns, Good]
  | cons e es ih =>
    intro i j seen
    obtain ⟨c, pres⟩ := e
    simp only [attach, mkTxns, List.flatten_cons, List.cons_append, List.nil_append, Good]
    refine ⟨?_, ?_, ih _ _ _⟩
    · intro hb
      simp only [Bool.and_eq_true] at hb
      exact hb.1.1.1
    · intro hp op hop
      subst hp
      obtain ⟨it, hm, k, rfl⟩ := mem_mkTxns_flatten _ _ _ hop
      simp only [sends]
      by_cases hc : it.cid = c
      · have := attach_block_false_of_seen skip ex es _ _ it hm (by simp [hc])
        simp [this]
      · have : (it.cid == c) = false := by simp [hc]
        simp [this]

theorem Good_snoc_status (ops : List ROp) (st : Status) (h : Good ops) : Good (ops ++ [.status st]) := by
  induction ops with
  | nil => simp [Good]
  | cons op ops ih =>
    cases op with
    | status s => exact ih h
    | block c b s i =>
      obtain ⟨h1, h2, h3⟩ := h
      refine ⟨h1, ?_, ih h3⟩
      intro hb op hop
      rcases List.mem_append.mp hop with hop | hop
      · exact h2 hb op hop
      · simp only [List.mem_singleton] at hop
        subst hop
        rfl

/-! ### final status -/

/-- the last status operation of a list of operations. -/
def lastStatusOp : List ROp → Option Status
  | [] => none
  | .status s :: ops => (lastStatusOp ops).or (some s)
  | .block _ _ _ _ :: ops => lastStatusOp ops

/-- the last status code a sequence of messages carries for the request (absent = only
PartialResponse so far). -/
def finalStatus (msgs : List Msg) : Option Status := (msgs.filterMap (·.status)).getLast?

theorem lastStatusOp_append (a b : List ROp) :
    lastStatusOp (a ++ b) = (lastStatusOp b).or (lastStatusOp a) := by
  induction a with
  | nil => simp [lastStatusOp]
  | cons op ops ih =>
    cases op with
    | status s => simp [lastStatusOp, ih]
    | block c b s i => simp [lastStatusOp, ih]

theorem foldl_status (ops : List ROp) : ∀ m : Msg,
    (ops.foldl applyOp m).status = (lastStatusOp ops).or m.status := by
  induction ops with
  | nil => intro m; simp [lastStatusOp]
  | cons op ops ih =>
    intro m
    cases op with
    | status s => simp [List.foldl, ih, applyOp, lastStatusOp]
    | block c b s i => simp [List.foldl, ih, applyOp, lastStatusOp]

theorem finalStatus_cons (m : Msg) (ms : List Msg) :
    finalStatus (m :: ms) = (finalStatus ms).or m.status := by
  unfold finalStatus
  cases h : m.status with
  | none => simp [h]
  | some s =>
    simp only [List.filterMap_cons, h, List.getLast?_cons]
    cases (List.filterMap (fun x => x.status) ms).getLast? <;> simp

/-- any batching: the last status on the wire is the last status operation. -/
theorem finalStatus_groups (groups : List (List Txn)) :
    finalStatus (groups.map buildMsg) = lastStatusOp groups.flatten.flatten := by
  induction groups with
  | nil => rfl
  | cons g gs ih =>
    simp only [List.map_cons, finalStatus_cons, ih, List.flatten_cons, List.flatten_append,
      lastStatusOp_append]
    congr 1
    simp [buildMsg, foldl_status]

end GS.C03L
