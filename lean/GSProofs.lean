import GSProofs.C13
