import GSProofs.Lemmas.RespLifeReserve
/-! `WI` through the executor segments (`wstep`): a worker that runs has no waiting reservation; it either finishes
its transaction or appends exactly one reservation and enters `blockedTx … false`. -/
namespace GS.RespLife

theorem wi_sendFinishNow {s : State} {w : Nat} (h : WI s) (hk : WOK s w) (e : Option WErr) :
    WI (sendFinishNow s w e) :=
  h.wr ((WR.of_eq (s' := sendMsg s (.finishTask w e)) rfl rfl).trans (wr_setPhase _ w _ hk.2))

theorem wi_sendFinish {s : State} {w : Nat} (h : WI s) (hk : WOK s w) (e : Option WErr) : WI (sendFinish s w e) := by
  unfold sendFinish
  split
  · exact h.wr (wr_setWorker s w _ hk.2)
  · exact wi_sendFinishNow h hk e

theorem wi_executeQuery {s : State} {w : Nat} (h : WI s) (hk : WOK s w) (wk : Worker) (e : Option WErr) :
    WI (executeQuery s w wk e) := by
  unfold executeQuery
  split
  · exact wi_sendFinish h hk _
  · exact wi_sendFinish h hk _
  · exact wi_sendFinish h hk _
  · simp only
    have hc := execTx_cases s (.worker w) wk.peer wk.id [TxOp.status (finalStatus (lookup s wk.id) e)] h.1
    generalize execTx s (.worker w) wk.peer wk.id [TxOp.status (finalStatus (lookup s wk.id) e)] = pr at hc
    obtain ⟨s1, ok⟩ := pr
    simp only at hc ⊢
    rcases hc with ⟨hok, hwr⟩ | ⟨hok, n, he⟩
    · subst hok
      simp only [if_true]
      exact wi_sendFinish (h.wr hwr) (hk.wr hwr) _
    · subst hok
      simp only [Bool.false_eq_true, if_false]
      rw [he]
      exact wi_block h hk _ n _ _

theorem wi_loopTop {s : State} {w : Nat} (h : WI s) (hk : WOK s w) (wk : Worker) : WI (loopTop s w wk) := by
  unfold loopTop
  split
  · exact wi_sendFinish h hk _
  · split
    · exact wi_executeQuery h hk wk _
    · exact h.wr (wr_setPhase s w _ hk.2)

theorem wi_afterBlock {s : State} {w : Nat} (h : WI s) (hk : WOK s w) (wk : Worker) (e : Option WErr) :
    WI (afterBlock s w wk e) := by
  unfold afterBlock
  split
  · exact wi_executeQuery h hk wk _
  · exact wi_loopTop h hk wk

theorem wi_runTx {s : State} {w : Nat} (h : WI s) (hk : WOK s w) (wk : Worker) (ops : List TxOp) (k : AfterTx) :
    WI (runTx s w wk ops k) := by
  unfold runTx
  have hc := execTx_cases s (.worker w) wk.peer wk.id ops h.1
  generalize execTx s (.worker w) wk.peer wk.id ops = pr at hc
  obtain ⟨s1, ok⟩ := pr
  simp only at hc ⊢
  rcases hc with ⟨hok, hwr⟩ | ⟨hok, n, he⟩
  · subst hok
    simp only [if_true]
    split
    · exact wi_afterBlock (h.wr hwr) (hk.wr hwr) wk _
    · exact wi_sendFinish (h.wr hwr) (hk.wr hwr) _
  · subst hok
    simp only [Bool.false_eq_true, if_false]
    rw [he]
    exact wi_block h hk _ n _ _

theorem wi_modAux {s : State} (h : WI s) (id : Id) (f : Aux → Aux) : WI (modAux s id f) := h.wr (WR.of_eq rfl rfl)
theorem wok_modAux {s : State} {w : Nat} (h : WOK s w) (id : Id) (f : Aux → Aux) : WOK (modAux s id f) w := h

theorem wi_blockPart {s : State} {w : Nat} (h : WI s) (hk : WOK s w) (wk : Worker) (ops : List TxOp)
    (cfu : Option WErr) (present : Bool) : WI (blockPart s w wk ops cfu present) := by
  unfold blockPart
  split
  · exact wi_sendFinish h hk _
  · rename_i r _
    simp only
    split
    · exact wi_runTx (wi_modAux h _ _) (wok_modAux hk _ _) wk _ _
    · have h2 := wi_modAux h r.id fun a => { a with hooked := a.hooked + 1 }
      have hk2 := wok_modAux hk r.id fun a => { a with hooked := a.hooked + 1 }
      split
      · exact wi_runTx h2 hk2 wk _ _
      · exact wi_runTx h2 hk2 wk _ _
      · exact wi_runTx h2 hk2 wk _ _
      · exact wi_runTx h2 hk2 wk _ _
      · exact h2.wr (wr_setPhase _ w _ hk2.2)

theorem wi_checkForUpdates {s : State} {w : Nat} (h : WI s) (hk : WOK s w) (wk : Worker) (ops : List TxOp)
    (present : Bool) (pick : Nat) : WI (checkForUpdates s w wk ops present pick) := by
  unfold checkForUpdates
  split
  · exact wi_sendFinish h hk _
  · simp only
    split
    · exact wi_blockPart h hk wk _ _ _
    · exact wi_blockPart (wi_modAux h _ _) (wok_modAux hk _ _) wk _ _ _
    · exact wi_runTx (wi_modAux h _ _) (wok_modAux hk _ _) wk _ _
    · refine WI.wr (s := sendMsg (modAux s _ _) (.getUpdates w)) (h.wr (WR.of_eq rfl rfl)) (wr_setPhase _ w _ hk.2)

theorem wi_applyUpdates {s : State} {w : Nat} (h : WI s) (hk : WOK s w) (wk : Worker) (ups : List UP)
    (ops : List TxOp) (present : Bool) (pick : Nat) : WI (applyUpdates s w wk ups ops present pick) := by
  induction ups generalizing ops with
  | nil => exact wi_checkForUpdates h hk wk ops present pick
  | cons u us ih =>
    unfold applyUpdates
    simp only
    split
    · exact wi_runTx h hk wk _ _
    · exact ih _

theorem wi_wstep {s s' : State} {w pick : Nat} (h : WI s) (hs : wstep s w pick = some s') : WI s' := by
  unfold wstep at hs
  split at hs
  · cases hs
  · rename_i wk hw
    have hlen : w < s.workers.length := by
      unfold workerOf at hw
      exact (List.getElem?_eq_some_iff.1 hw).1
    -- a worker that can step is not in `blockedTx … false`, so it has no waiting reservation
    have hne : ∀ ops k, wk.phase ≠ .blockedTx ops k false → True := fun _ _ _ => trivial
    have hno : (∀ ops k, wk.phase ≠ .blockedTx ops k false) → WOK s w := by
      intro hph
      refine ⟨hlen, fun x hx hp => ?_⟩
      obtain ⟨wk', o, kk, h1, h2⟩ := h.2 x hx w hp
      unfold workerOf at hw
      rw [hw] at h1
      cases h1
      exact hph o kk h2
    split at hs
    · rename_i hph; cases hs
      exact wi_loopTop h (hno (by intro o k e; rw [hph] at e; cases e)) wk
    · rename_i hph
      have hk := hno (by intro o k e; rw [hph] at e; cases e)
      split at hs
      · cases hs; exact wi_sendFinish h hk _
      · cases hs; exact wi_checkForUpdates (wi_modAux h _ _) (wok_modAux hk _ _) wk _ _ _
    · rename_i hph; cases hs
      exact wi_applyUpdates h (hno (by intro o k e; rw [hph] at e; cases e)) wk _ _ _ _
    · rename_i hph; cases hs
      exact wi_runTx h (hno (by intro o k e; rw [hph] at e; cases e)) wk _ _
    · rename_i hph; cases hs
      exact wi_sendFinishNow h (hno (by intro o k e; rw [hph] at e; cases e)) _
    · rename_i ops0 k0 hph
      have hk := hno (by intro o k e; rw [hph] at e; cases e)
      simp only at hs
      have hb := wr_buildNow s (.worker w) wk.peer wk.id ops0 h.1
      split at hs
      · cases hs; exact wi_afterBlock (h.wr hb) (hk.wr hb) wk _
      · cases hs; exact wi_sendFinish (h.wr hb) (hk.wr hb) _
    · cases hs

end GS.RespLife
