import GSProofs.Lemmas.MsgQueueTied1
/-!
# Message queue: every step keeps `WT` (the analogue of MsgQueueAtt4–6 for the tied escape `ErrFor`)

`AI f` is kept by every step by `step_stepOK` (MsgQueueAtt6.lean); here only the progress predicate.
-/
namespace GS.MQ
open GS.Alloc

/-- `u` is still attached to queued message `t` through request `r`, or has been told something about
    message `t`, or -- after the moment at which it had received `n0` Errors -- the `publishError` of a
    message carrying request `r` has closed `r`'s stream and told `u` -/
def WT (u : Sub) (t : Nat) (r : Req) (n0 : Nat) (s : State) : Prop :=
  (AttQ u t r s ∧ n0 ≤ errCount u s.log) ∨ seqOf u t s.log ≠ [] ∨ ErrFor r u n0 s

theorem WT.of_out {f : Req → Sub} {u : Sub} {t : Nat} {r : Req} {n0 : Nat} {s s' : State} (o : OutT f s s')
    (hb : ∀ b ∈ s.builders, BFun f b) (h : WT u t r n0 s) : WT u t r n0 s' := by
  rcases h with ⟨h, hn⟩ | h | h
  · rcases o.att hb u t r h with h' | h'
    · exact Or.inl ⟨h', Nat.le_trans hn (errCount_mono o.out.log u)⟩
    · exact Or.inr (Or.inr ⟨h'.1, h'.2.anti hn⟩)
  · exact Or.inr (Or.inl ((seq_mono o.out.log u t).1 h))
  · exact Or.inr (Or.inr (h.mono o.out.closed o.out.log))

/-- what a chain of queue-goroutine functions keeps -/
structure OutWT (f : Req → Sub) (s s' : State) : Prop where
  bfun : (∀ b ∈ s.builders, BFun f b) → ∀ b ∈ s'.builders, BFun f b
  w : (∀ b ∈ s.builders, BFun f b) → ∀ u t r n0, WT u t r n0 s → WT u t r n0 s'

theorem OutT.toW {f : Req → Sub} {s s' : State} (o : OutT f s s') : OutWT f s s' :=
  ⟨fun h => (o.out.att h).1, fun h _ _ _ _ hw => WT.of_out o h hw⟩

theorem OutWT.trans {f : Req → Sub} {a b c : State} (h1 : OutWT f a b) (h2 : OutWT f b c) : OutWT f a c :=
  ⟨fun h => h2.bfun (h1.bfun h), fun h u t r n0 hw => h2.w (h1.bfun h) u t r n0 (h1.w h u t r n0 hw)⟩

/-- extraction followed by a publication to the message's subscribers -/
theorem extract_publish_WT (f : Req → Sub) {s : State} (hi : Idle s) {s1 : State} {m : InFlight}
    (he : s.extract = (s1, some m)) (k : Kind) :
    ∃ U, Mid (s1.publish m.topic k) m U [k] true ∧ (∀ r ∈ m.streams, f r ∈ U) ∧ OutWT f s (s1.publish m.topic k) ∨
      ¬ (∀ b ∈ s.builders, BFun f b) := by
  by_cases hb : ∀ b ∈ s.builders, BFun f b
  · obtain ⟨U, hmid, hb1, hU, hatt, hc, hw, hl⟩ := extract_W f hi hb he
    have hp := hmid.publish k
    simp only [List.nil_append] at hp
    have fr := publish_frame s1 m.topic k
    have hlog : ∃ X, (s1.publish m.topic k).log = s.log ++ X := by
      obtain ⟨X, hx⟩ := (publish_ext pickMin s1 m.topic k).mono
      exact ⟨X, by rw [hx, hl]⟩
    refine ⟨U, Or.inl ⟨hp, hU, ?_, ?_⟩⟩
    · intro _; rw [fr.builders]; exact hb1
    · intro _ u t r n0 hw'
      rcases hw' with ⟨h, hn0⟩ | h | h
      · rcases hatt u t r h with h' | ⟨ht, hu⟩
        · obtain ⟨x, hx, ha⟩ := h'
          exact Or.inl ⟨⟨x, by rw [fr.builders]; exact hx, ha⟩, Nat.le_trans hn0 (errCount_mono hlog u)⟩
        · right; left
          rw [ht, hp.seqM u, if_pos hu]; simp
      · exact Or.inr (Or.inl ((seq_mono hlog u t).1 h))
      · exact Or.inr (Or.inr (h.mono (fun r hr => by rw [fr.closedStreams, hc]; exact hr) hlog))
  · exact ⟨[], Or.inr hb⟩

/-- the shutdown drain -/
theorem drain_WT (pick : Pick) (f : Req → Sub) : ∀ (fuel : Nat) (s : State), Idle s → OutWT f s (State.drain pick fuel s)
  | 0, s, _ => (OutT.refl f s).toW
  | fuel + 1, s, hi => by
    unfold State.drain
    cases he : s.extract with
    | mk s1 om =>
      cases om with
      | none =>
        simp only
        obtain ⟨a1, a2, _⟩ := (extract_shape s).1 s1 he
        have hrest : s1.closedStreams = s.closedStreams ∧ s1.waiters = s.waiters ∧ s1.log = s.log := by
          unfold State.extract at he
          split at he
          · cases he; exact ⟨rfl, rfl, rfl⟩
          · cases he
        refine ⟨fun _ b hb => (by rw [a1] at hb; cases hb), ?_⟩
        intro _ u t r n0 hw
        rcases hw with ⟨⟨x, hx, ha⟩, _⟩ | h | h
        · have := ha.nonempty; rw [a2 x hx] at this; cases this
        · exact Or.inr (Or.inl (by rw [hrest.2.2]; exact h))
        · exact Or.inr (Or.inr (h.mono (fun r hr => by rw [hrest.1]; exact hr) ⟨[], by rw [hrest.2.2]; simp⟩))
      | some m =>
        simp only
        by_cases hb : ∀ b ∈ s.builders, BFun f b
        · obtain ⟨U, hmid, hb1, hU, hatt, hc, hw, hl⟩ := extract_W f hi hb he
          have o1 : OutWT f s1 ((s1.publishError pick m).closeTopic m.topic) :=
            ((publishError_outT pick f hmid hU).trans (closeTopic_outT f _ m.topic)).toW
          have hmid2 := hmid.publishError pick
          have hidle : Idle ((s1.publishError pick m).closeTopic m.topic) := hmid2.close done_EC
          have o2 := drain_WT pick f fuel _ hidle
          have o01 : OutWT f s ((s1.publishError pick m).closeTopic m.topic) := by
            refine ⟨fun _ => o1.bfun hb1, ?_⟩
            intro _ u t r n0 hw'
            rcases hw' with ⟨h, hn0⟩ | h | h
            · rcases hatt u t r h with h' | ⟨ht, hu⟩
              · exact o1.w hb1 u t r n0 (Or.inl ⟨h', by rw [hl]; exact hn0⟩)
              · right; left
                have hs : seqOf u t (s1.publishError pick m).log ≠ [] := by
                  rw [ht, hmid2.seqM u, if_pos hu]; simp
                exact (seq_mono (closeTopic_ext pick _ m.topic).mono u t).1 hs
            · have : seqOf u t s1.log ≠ [] := by rw [hl]; exact h
              exact o1.w hb1 u t r n0 (Or.inr (Or.inl this))
            · have : ErrFor r u n0 s1 := h.mono (fun r hr => by rw [hc]; exact hr) ⟨[], by rw [hl]; simp⟩
              exact o1.w hb1 u t r n0 (Or.inr (Or.inr this))
          exact o01.trans o2
        · exact ⟨fun h => absurd h hb, fun h => absurd h hb⟩

/-- result of a step: `WT` is kept -/
def StepT (s s' : State) : Prop := ∀ u t r n0, WT u t r n0 s → WT u t r n0 s'

theorem stepT_of_outWT {f : Req → Sub} {s s' : State} (hai : AI f s) (o : OutWT f s s') : StepT s s' :=
  o.w hai.bfun

theorem attempt_stepT (pick : Pick) (f : Req → Sub) {s0 s : State} {m : InFlight} {U : List Sub} {σ : List Kind} {b : Bool}
    (i : Nat) (hai : AI f s0) (o0 : OutWT f s0 s) (hm : Mid s m U σ b) (hU : ∀ r ∈ m.streams, f r ∈ U) :
    StepT s0 (s.attempt pick m i) :=
  stepT_of_outWT hai (o0.trans (attempt_outT pick f i hm hU).toW)

theorem errfin_stepT (pick : Pick) (f : Req → Sub) {s0 s : State} {m : InFlight} {U : List Sub} {σ : List Kind} {b : Bool}
    (hai : AI f s0) (o0 : OutWT f s0 s) (hm : Mid s m U σ b) (hU : ∀ r ∈ m.streams, f r ∈ U) :
    StepT s0 ((s.publishError pick m).finish m) :=
  stepT_of_outWT hai (o0.trans ((publishError_outT pick f hm hU).trans (finish_outT f _ m)).toW)

theorem fields_stepT (f : Req → Sub) {s s' : State} (hai : AI f s) (hb : s'.builders = s.builders)
    (hc : s'.closedStreams = s.closedStreams) (hw : s'.waiters = s.waiters) (hl : s'.log = s.log) : StepT s s' :=
  stepT_of_outWT hai (OutT.same f hb hc (WCore.of_eq hw) ⟨[], by rw [hl]; simp⟩).toW

/-- the blocked call returns -/
theorem ack_stepT (pick : Pick) (f : Req → Sub) {s : State} (hn : NInv s) (hai : AI f s) (ok : Bool) :
    StepT s (s.ack pick ok) := by
  obtain ⟨peer, maxRetries, builders, nextTopic, token, done, sender, pc, closedStreams, waiters,
    nextTicket, topics, pubClosed, alloc, log⟩ := s
  cases pc with
  | idle => exact fun _ _ _ _ h => h
  | exited => exact fun _ _ _ _ h => h
  | exiting =>
    unfold State.ack
    simp only
    have o1 := allocStep_outT pick f (⟨peer, maxRetries, builders, nextTopic, token, done, sender, .exiting, closedStreams, waiters,
      nextTicket, topics, pubClosed, alloc, log⟩ : State) (.releasePeer peer)
    generalize (State.allocStep pick (⟨peer, maxRetries, builders, nextTopic, token, done, sender, .exiting, closedStreams, waiters,
      nextTicket, topics, pubClosed, alloc, log⟩ : State) (.releasePeer peer)).1 = s1 at o1
    have o3 : OutT f s1 ({ s1.emit [Event.exitCallback] with pc := .exited } : State) :=
      OutT.same f rfl rfl (WCore.of_eq rfl) ⟨_, rfl⟩
    exact stepT_of_outWT hai (o1.trans o3).toW
  | opening m r =>
    have hmid : ∃ U b, Mid (⟨peer, maxRetries, builders, nextTopic, token, done, sender, .opening m r, closedStreams, waiters,
        nextTicket, topics, pubClosed, alloc, log⟩ : State) m U [Kind.queued] b := by
      cases r with
      | none => obtain ⟨U, h⟩ := hn; exact ⟨U, _, h⟩
      | some i => obtain ⟨U, h⟩ := hn; exact ⟨U, _, h⟩
    obtain ⟨U, b, hm⟩ := hmid
    have hU : ∀ x ∈ m.streams, f x ∈ U := by
      intro x hx
      have := hai.infl m rfl x hx
      rw [getD_topics hm.topics] at this; exact this
    cases r with
    | none =>
      unfold State.ack
      simp only
      split
      · have hm' : Mid (⟨peer, maxRetries, builders, nextTopic, token, done, true, .opening m none, closedStreams, waiters,
            nextTicket, topics, pubClosed, alloc, log⟩ : State) m U [Kind.queued] b := hm.frame ⟨rfl, rfl, rfl, rfl, rfl⟩
        have oS : OutT f (⟨peer, maxRetries, builders, nextTopic, token, done, sender, .opening m none, closedStreams, waiters,
            nextTicket, topics, pubClosed, alloc, log⟩ : State)
            (⟨peer, maxRetries, builders, nextTopic, token, done, true, .opening m none, closedStreams, waiters,
            nextTicket, topics, pubClosed, alloc, log⟩ : State) := OutT.same f rfl rfl (WCore.of_eq rfl) ⟨[], by simp⟩
        exact attempt_stepT pick f 0 hai oS.toW hm' hU
      · have o1 := publishError_outT pick f hm hU
        generalize State.publishError pick _ m = s1 at o1
        have o2 : OutT f s1 ({ s1 with done := true } : State) := OutT.same f rfl rfl (WCore.of_eq rfl) ⟨[], by simp⟩
        exact stepT_of_outWT hai ((o1.trans o2).trans (finish_outT f _ m)).toW
    | some i =>
      unfold State.ack
      simp only
      split
      · have hm' : Mid (⟨peer, maxRetries, builders, nextTopic, token, done, true, .opening m (some i), closedStreams, waiters,
            nextTicket, topics, pubClosed, alloc, log⟩ : State) m U [Kind.queued] b := hm.frame ⟨rfl, rfl, rfl, rfl, rfl⟩
        have oS : OutT f (⟨peer, maxRetries, builders, nextTopic, token, done, sender, .opening m (some i), closedStreams, waiters,
            nextTicket, topics, pubClosed, alloc, log⟩ : State)
            (⟨peer, maxRetries, builders, nextTopic, token, done, true, .opening m (some i), closedStreams, waiters,
            nextTicket, topics, pubClosed, alloc, log⟩ : State) := OutT.same f rfl rfl (WCore.of_eq rfl) ⟨[], by simp⟩
        exact attempt_stepT pick f (i + 1) hai oS.toW hm' hU
      · exact errfin_stepT pick f hai (OutT.refl f _).toW hm hU
  | sending m i =>
    obtain ⟨U, hm⟩ : ∃ U, Mid (⟨peer, maxRetries, builders, nextTopic, token, done, sender, .sending m i, closedStreams, waiters,
        nextTicket, topics, pubClosed, alloc, log⟩ : State) m U [Kind.queued] false := hn
    unfold State.ack
    simp only
    split
    · exact stepT_of_outWT hai ((publishSent_outT pick f (⟨peer, maxRetries, builders, nextTopic, token, done, sender, .sending m i, closedStreams, waiters,
        nextTicket, topics, pubClosed, alloc, log⟩ : State) m).trans (finish_outT f _ m)).toW
    · exact fields_stepT f hai rfl rfl rfl rfl
  | resetting m i =>
    obtain ⟨U, hm⟩ : ∃ U, Mid (⟨peer, maxRetries, builders, nextTopic, token, done, sender, .resetting m i, closedStreams, waiters,
        nextTicket, topics, pubClosed, alloc, log⟩ : State) m U [Kind.queued] false := hn
    have hU : ∀ x ∈ m.streams, f x ∈ U := by
      intro x hx
      have := hai.infl m rfl x hx
      rw [getD_topics hm.topics] at this; exact this
    unfold State.ack
    simp only
    split
    · exact errfin_stepT pick f hai (OutT.refl f _).toW hm hU
    · exact fields_stepT f hai rfl rfl rfl rfl

/-- one iteration of the select loop -/
theorem run_stepT (pick : Pick) (f : Req → Sub) {s : State} (hn : NInv s) (hai : AI f s) (pw : Bool) :
    StepT s (s.run pick pw) := by
  obtain ⟨peer, maxRetries, builders, nextTopic, token, done, sender, pc, closedStreams, waiters,
    nextTicket, topics, pubClosed, alloc, log⟩ := s
  cases pc with
  | idle =>
    have hi : Idle (⟨peer, maxRetries, builders, nextTopic, token, done, sender, .idle, closedStreams, waiters,
        nextTicket, topics, pubClosed, alloc, log⟩ : State) := hn
    unfold State.run
    simp only
    split
    · have hi0 : Idle (⟨peer, maxRetries, builders, nextTopic, false, done, sender, .idle, closedStreams, waiters,
          nextTicket, topics, pubClosed, alloc, log⟩ : State) := hi.frame ⟨rfl, rfl, rfl, rfl, rfl⟩
      have o0 : OutWT f (⟨peer, maxRetries, builders, nextTopic, token, done, sender, .idle, closedStreams, waiters,
          nextTicket, topics, pubClosed, alloc, log⟩ : State)
          (⟨peer, maxRetries, builders, nextTopic, false, done, sender, .idle, closedStreams, waiters,
          nextTicket, topics, pubClosed, alloc, log⟩ : State) := by
        have oS : OutT f (⟨peer, maxRetries, builders, nextTopic, token, done, sender, .idle, closedStreams, waiters,
            nextTicket, topics, pubClosed, alloc, log⟩ : State)
            (⟨peer, maxRetries, builders, nextTopic, false, done, sender, .idle, closedStreams, waiters,
            nextTicket, topics, pubClosed, alloc, log⟩ : State) := OutT.same f rfl rfl (WCore.of_eq rfl) ⟨[], by simp⟩
        exact oS.toW
      cases he : (⟨peer, maxRetries, builders, nextTopic, false, done, sender, .idle, closedStreams, waiters,
          nextTicket, topics, pubClosed, alloc, log⟩ : State).extract with
      | mk s1 om =>
        cases om with
        | none =>
          obtain ⟨a1, a2, _, a4, _⟩ := (extract_shape _).1 s1 he
          have hrest : s1.closedStreams = closedStreams ∧ s1.waiters = waiters ∧ s1.log = log := by
            unfold State.extract at he
            split at he
            · cases he; exact ⟨rfl, rfl, rfl⟩
            · cases he
          show StepT _ s1
          intro u t r n0 hw
          rcases hw with ⟨⟨x, hx, ha⟩, _⟩ | h | h
          · have := ha.nonempty; rw [a2 x hx] at this; cases this
          · exact Or.inr (Or.inl (by rw [hrest.2.2]; exact h))
          · exact Or.inr (Or.inr (h.mono (fun r hr => by rw [hrest.1]; exact hr) ⟨[], by rw [hrest.2.2]; simp⟩))
        | some m =>
          rcases extract_publish_WT f hi0 he Kind.queued with ⟨U, h⟩
          rcases h with ⟨hmid, hU, ow⟩ | hnb
          · have o1 := o0.trans ow
            show StepT _ (if (s1.publish m.topic Kind.queued).sender = true then _ else _)
            split
            · exact attempt_stepT pick f 0 hai o1 hmid hU
            · have o2 : OutT f (s1.publish m.topic Kind.queued) ({ s1.publish m.topic Kind.queued with pc := .opening m none } : State) :=
                OutT.same f rfl rfl (WCore.of_eq rfl) ⟨[], by simp⟩
              exact stepT_of_outWT hai (o1.trans o2.toW)
          · exact absurd hai.bfun hnb
    · split
      · have key : ∀ s1 : State, OutWT f (⟨peer, maxRetries, builders, nextTopic, token, done, sender, .idle, closedStreams, waiters,
            nextTicket, topics, pubClosed, alloc, log⟩ : State) s1 →
            StepT (⟨peer, maxRetries, builders, nextTopic, token, done, sender, .idle, closedStreams, waiters,
            nextTicket, topics, pubClosed, alloc, log⟩ : State)
              ({ (if s1.sender = true then s1.emit [Event.senderClosed] else s1) with pc := .exiting } : State) := by
          intro s1 o1
          have o2 : OutT f s1 ({ (if s1.sender = true then s1.emit [Event.senderClosed] else s1) with pc := .exiting } : State) := by
            have e : OutT f s1 (if s1.sender = true then s1.emit [Event.senderClosed] else s1) := by
              split
              · exact OutT.same f rfl rfl (WCore.of_eq rfl) ⟨_, rfl⟩
              · exact OutT.refl f s1
            exact e.trans (OutT.same f rfl rfl (WCore.of_eq rfl) ⟨[], by simp⟩)
          exact stepT_of_outWT hai (o1.trans o2.toW)
        exact key _ (drain_WT pick f _ _ hi)
      · exact fun _ _ _ _ h => h
  | opening m r => exact fun _ _ _ _ h => h
  | sending m i => exact fun _ _ _ _ h => h
  | resetting m i => exact fun _ _ _ _ h => h
  | exiting => exact fun _ _ _ _ h => h
  | exited => exact fun _ _ _ _ h => h

/-- `buildMessage` as seen by callers, with a transaction whose subscriber is its request's: on a closed
    queue the attached subscriber is told `Error` at once -/
theorem buildMsg_outWT (pick : Pick) (f : Req → Sub) {s : State} (hn : NInv s) (ticket : Nat) (tx : Tx) (size : Nat)
    (hf : tx.sub = f tx.req) : OutWT f s (s.buildMsg pick ticket tx size) := by
  have o := buildMessage_outT pick f s ticket tx size hf
  unfold State.buildMsg
  split
  · next hc =>
    have hi := (closed_idle hn hc).quiet (buildMessage_quiet pick s ticket tx size)
    exact o.toW.trans (drain_WT pick f 1 _ hi)
  · exact o.toW

theorem buildWith_stepT (pick : Pick) (f : Req → Sub) {s : State} (hn : NInv s) (hai : AI f s) (tx : Tx) (size : Nat)
    (hf : tx.sub = f tx.req) : StepT s (buildWith pick s tx size) := by
  unfold buildWith
  simp only
  have o0 : OutT f s ({ s with nextTicket := s.nextTicket + 1 } : State) := OutT.same f rfl rfl (WCore.of_eq rfl) ⟨[], by simp⟩
  have h0 : NInv ({ s with nextTicket := s.nextTicket + 1 } : State) :=
    hn.quiet (Quiet.ofLog [] (by simp) (by simp) (by simp) rfl rfl rfl rfl) rfl
  split
  · exact stepT_of_outWT hai (o0.toW.trans (buildMsg_outWT pick f h0 s.nextTicket tx 0 hf))
  · have o1 := o0.trans (allocStep_outT pick f ({ s with nextTicket := s.nextTicket + 1 } : State) (.alloc s.peer size s.nextTicket))
    have h1 := h0.quiet (allocStep_quiet pick ({ s with nextTicket := s.nextTicket + 1 } : State)
      (.alloc s.peer size s.nextTicket)) rfl
    split
    · exact stepT_of_outWT hai (o1.toW.trans (buildMsg_outWT pick f h1 s.nextTicket tx size hf))
    · intro u t r n0 hw
      have h2 : WT u t r n0 (State.allocStep pick ({ s with nextTicket := s.nextTicket + 1 } : State)
          (.alloc s.peer size s.nextTicket)).1 := WT.of_out o1 hai.bfun hw
      exact h2

/-- every step, with transactions carrying their request's own subscriber, keeps `WT` -/
theorem step_stepT (pick : Pick) (f : Req → Sub) {s : State} (hj : J s) (hai : AI f s) (a : Act)
    (hfa : ∀ tx, a = .build tx → tx.sub = f tx.req) : StepT s (step pick s a) := by
  have hn : NInv s := hj
  cases a with
  | run pw => exact run_stepT pick f hn hai pw
  | ack ok => exact ack_stepT pick f hn hai ok
  | shutdown => exact fields_stepT f hai rfl rfl rfl rfl
  | env op => exact stepT_of_outWT hai (allocStep_outT pick f s op).toW
  | build tx =>
    have hf := hfa tx rfl
    show StepT s (s.build pick tx)
    rw [build_eq]
    split
    · exact fun _ _ _ _ h => h
    · exact buildWith_stepT pick f hn hai tx _ hf
  | wake t0 =>
    show StepT s (s.wake pick t0)
    unfold State.wake
    cases hfd : s.waiters.find? (fun w => w.ticket == t0 && w.answer.isSome) with
    | none => exact fun _ _ _ _ h => h
    | some w =>
      simp only
      have hwm : w ∈ s.waiters := List.mem_of_find?_eq_some hfd
      have hai1 : AI f ({ s with waiters := s.waiters.filter (·.ticket != w.ticket) } : State) :=
        ⟨hai.bfun, fun x hx => hai.wfun x (List.mem_filter.mp hx).1, hai.infl⟩
      have h0 : NInv ({ s with waiters := s.waiters.filter (·.ticket != w.ticket) } : State) :=
        hn.quiet (Quiet.ofLog [] (by simp) (by simp) (by simp) rfl rfl rfl rfl) rfl
      have hW0 : ∀ u t r n0, WT u t r n0 s → WT u t r n0 ({ s with waiters := s.waiters.filter (·.ticket != w.ticket) } : State) :=
        fun _ _ _ _ h => h
      split
      · have ow := buildMsg_outWT pick f h0 w.ticket w.tx w.size (hai.wfun w hwm)
        exact fun u t r n0 hw => ow.w hai1.bfun u t r n0 (hW0 u t r n0 hw)
      · have o : OutT f ({ s with waiters := s.waiters.filter (·.ticket != w.ticket) } : State)
            (({ s with waiters := s.waiters.filter (·.ticket != w.ticket) } : State).emit [Event.dropped w.ticket]) :=
          OutT.same f rfl rfl (WCore.of_eq rfl) ⟨_, rfl⟩
        exact fun u t r n0 hw => WT.of_out o hai1.bfun (hW0 u t r n0 hw)

end GS.MQ
