import GSProofs.Lemmas.MsgQueueLedger4
/-!
# Message queue: reachable states satisfy the ledger invariant until the queue goroutine exits
-/
namespace GS.MQ
open GS.Alloc

theorem buildMessage_pc (pick : Pick) (s : State) (ticket : Nat) (tx : Tx) (size : Nat) :
    (s.buildMessage pick ticket tx size).pc = s.pc := by
  unfold State.buildMessage
  simp only
  split
  · split <;> rfl
  · split
    · split <;> split <;> rfl
    · split <;> split <;> rfl

theorem buildWith_pc (pick : Pick) (s : State) (tx : Tx) (size : Nat) : (buildWith pick s tx size).pc = s.pc := by
  unfold buildWith
  simp only
  split
  · exact buildMessage_pc _ _ _ _ _
  · split
    · rw [buildMessage_pc]; rfl
    · rfl

theorem build_pc (pick : Pick) (s : State) (tx : Tx) : (s.build pick tx).pc = s.pc := by
  rw [build_eq]; split
  · rfl
  · exact buildWith_pc _ _ _ _

theorem wake_pc (pick : Pick) (s : State) (t : Nat) : (s.wake pick t).pc = s.pc := by
  unfold State.wake
  split
  · rfl
  · simp only; split
    · rw [buildMessage_pc]
    · rfl

theorem run_exited (pick : Pick) (s : State) (pw : Bool) (h : s.pc = .exited) : s.run pick pw = s := by
  unfold State.run; rw [h]

theorem ack_exited (pick : Pick) (s : State) (ok : Bool) (h : s.pc = .exited) : s.ack pick ok = s := by
  unfold State.ack; rw [h]

/-- the inductive invariant: the ledger holds until the queue goroutine has exited -/
def I (s : State) : Prop := s.pc = .exited ∨ LInv s

/-- the act is not an allocator call on this queue's own peer by somebody else (no second queue of
    the same peer is alive) -/
def soloAct (p : Nat) : Act → Bool
  | .env op => opPeer op != p
  | _ => true

/-- no act of the schedule is an allocator call on this queue's own peer by somebody else -/
def soloFrom (pick : Pick) : State → List Act → Bool
  | _, [] => true
  | s, a :: r => soloAct s.peer a && soloFrom pick (step pick s a) r

theorem step_I {pick : Pick} (hp : Admissible pick) {s : State} (h : I s) (a : Act) (hs : soloAct s.peer a = true) :
    I (step pick s a) := by
  cases a with
  | build tx =>
    rcases h with h | h
    · left; show (s.build pick tx).pc = _; rw [build_pc]; exact h
    · right; exact (build_linv hp h tx).1
  | wake t =>
    rcases h with h | h
    · left; show (s.wake pick t).pc = _; rw [wake_pc]; exact h
    · right; exact (wake_linv hp h t).1
  | run pw =>
    rcases h with h | h
    · left; show (s.run pick pw).pc = _; rw [run_exited _ _ _ h]; exact h
    · right; exact run_linv hp h pw
  | ack ok =>
    rcases h with h | h
    · left; show (s.ack pick ok).pc = _; rw [ack_exited _ _ _ h]; exact h
    · rcases ack_linv hp h ok with h' | h'
      · exact Or.inr h'
      · exact Or.inl h'
  | shutdown =>
    rcases h with h | h
    · exact Or.inl h
    · right
      exact ⟨⟨⟨h.led.1.ainv, h.led.1.pend, h.led.1.nodupW, h.led.1.fresh, h.led.1.nofail, h.led.1.wsize⟩, h.led.2⟩, h.binv⟩
  | env op =>
    have hq' : opPeer op ≠ s.peer := by simpa [soloAct] using hs
    rcases h with h | h
    · exact Or.inl h
    · exact Or.inr (env_linv hp h op hq').1

theorem init_LInv {peer mr mt mp : Nat} (ht : mt < W) (hm : mp < W) : LInv (init peer mr mt mp) := by
  refine ⟨⟨⟨Alloc.Inv.init ht hm, rfl, by simp [init], by simp [init], by simp [init], by simp [init]⟩, rfl⟩, by simp [init]⟩

theorem runActs_I {pick : Pick} (hp : Admissible pick) {s : State} (h : I s) (acts : List Act)
    (hs : soloFrom pick s acts = true) : I (runActs pick s acts) := by
  unfold runActs
  induction acts generalizing s with
  | nil => exact h
  | cons a r ih =>
    simp only [soloFrom, Bool.and_eq_true] at hs
    exact ih (step_I hp h a hs.1) hs.2

end GS.MQ
