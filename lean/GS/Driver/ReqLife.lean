import GS.Model.ReqLifecycle
import GS.Driver.Proto
/-!
Line-protocol driver for the request life-cycle model (component `reqlife`, property C04).

Every script op is one stimulus followed by `settle`: internal actions of `GS.ReqLife.step` are taken
(in a fixed priority order) until none is enabled that is not held back by a gate.  The driver never
changes the model state except through `GS.ReqLife.step`; what it adds is (a) the gates / tokens of the
harness, (b) the resolution of the action parameters for block chains (`n` blocks, the first `k` of them
in the local store, `v` visits per block): which queued remote items the reconciled loader consumes and
with what verdict, storage hit / miss, visits per block.
-/
namespace GS.Driver.ReqLife
open GS.Proto GS.ReqLife GS.Generated.StatusCodes

structure D where
  s : State := {}
  created : Bool := false
  n : Nat := 0
  k : Nat := 0
  v : Nat := 0
  i : Nat := 0                       -- next block of the chain to load (= blocks traversed)
  rqL : List Nat := []               -- block indices of the queued remote items (length = s.rq)
  verif : Option (Nat × Nat) := none -- reconciledLoader.verifier: next index to verify, end
  spos : Nat := 0                    -- responder: next item of the current response stream
  respItems : List (List Nat) := []  -- contents of the `responses` messages in the mailbox, FIFO
  -- gates: true = holding
  gWork : Bool := true
  gRead : Bool := true
  gHook : Bool := true
  gSend : Bool := true
  gRhook : Bool := false
  gRp : Bool := false
  gRe : Bool := false
  -- one-shot passes granted by step / adv / end
  tWork : Bool := false
  tRead : Bool := false
  tHook : Bool := false
  tSend : Bool := false
  tRhook : Bool := false
  hookVal : HookRes := .ok
  cancelIssued : Bool := false
  pauseSeen : Bool := false          -- the script issued a pause (API or block hook)
  dummy : Bool := false              -- a dummy task of another request occupies the only worker (parked at `work`)
  cancelFam : Bool := false          -- the script issued a cancelling stimulus (cancel, failure status, response-hook error)
  -- print cursors
  nP : Nat := 0
  nE : Nat := 0
  nO : Nat := 0
  nA : Nat := 0
  neterr : Nat := 0

/-- the manager is about to call the response hook (the harness' gate `rhook` sits inside it) -/
def headIsResp (s : State) : Bool :=
  match s.mphase, s.mbox with
  | .idle, .responses p _ _ _ :: _ => hookRunsFor s p
  | _, _ => false

def parkedWork (d : D) : Bool := (d.dummy || d.s.w == .popped) && d.gWork && !d.tWork
def parkedRead (d : D) : Bool := d.s.w == .read && d.gRead && !d.tRead
def parkedHook (d : D) : Bool := d.s.w == .hook && d.gHook && !d.tHook
def isSendPhase (w : WPhase) : Bool :=
  match w with
  | .sendReq => true
  | .fin1 _ => true
  | _ => false
def parkedSend (d : D) : Bool := isSendPhase d.s.w && d.gSend && !d.tSend
def parkedRhook (d : D) : Bool := headIsResp d.s && d.gRhook && !d.tRhook

/-- apply a model action; `none` if not enabled -/
def act (d : D) (a : Action) : Option D := (step d.s a).map fun s' => { d with s := s' }

/-- the manager step plus the bookkeeping of the queued remote items -/
def actMgr (d : D) : Option D :=
  if parkedRhook d then none else
  match d.s.mphase, d.s.mbox with
  | .idle, m :: _ =>
    match step d.s .mgr with
    | none => none
    | some s' =>
      let d' := { d with s := s' }
      match m with
      | .responses _ _ items _ =>
        let its := d.respItems.headD []
        let d' := { d' with respItems := d.respItems.tail, tRhook := false }
        if s'.rq == 0 then some { d' with rqL := [] }
        else if s'.rq == d.s.rq + items && items > 0 then some { d' with rqL := d.rqL ++ its }
        else some d'
      | _ => if s'.rq == 0 then some { d' with rqL := [] } else some d'
  | _, _ => none

/-- a block arrives: `v` visits, another load iff it was not the last block -/
def blockParams (d : D) : Nat × Bool := (d.v, decide (d.i + 1 < d.n))

/-- waitRemote's verifier loop: returns (remaining queue, verifier, items consumed, VerifyNext failed) -/
def verify : Nat → List Nat → Option (Nat × Nat) → Nat → List Nat × Option (Nat × Nat) × Nat × Bool
  | 0, q, vf, c => (q, vf, c, false)
  | fuel + 1, q, vf, c =>
    match vf, q with
    | some (pos, e), h :: rest =>
      if pos ≥ e then (q, none, c, false)
      else if h == pos then verify fuel rest (some (pos + 1, e)) (c + 1)
      else (rest, vf, c + 1, true)          -- VerifyNext fails: the item is consumed, error returned
    | _, _ => (q, vf, c, false)

/-- BlockReadOpener -> waitRemote for the chain: catch the verifier up, then remote load / local load / wait -/
def actWait (d : D) : Option D :=
  if d.s.w != .wait then none else
  let (q, vf, c, bad) := verify (d.rqL.length + 1) d.rqL d.verif 0
  let vf := match vf with
    | some (pos, e) => if pos ≥ e then none else some (pos, e)
    | none => none
  if bad then
    -- c ≥ 1 items consumed, the last one by the failing VerifyNext
    let d1 := if c > 1 then act d (.xConsume (c - 1)) else some d
    d1.bind fun d1 => (act d1 (.xWaitRemote false 0 false)).map fun d2 => { d2 with rqL := q, verif := vf }
  else
    let d1 := if c > 0 then act d (.xConsume c) else some d
    d1.bind fun d1 =>
      let d1 := { d1 with rqL := q, verif := vf }
      match q with
      | h :: rest =>
        if vf.isSome then (if c > 0 then some d1 else none)   -- (not reachable: verifier stops only on empty queue)
        else if h == d.i then
          let (v, more) := blockParams d
          (act d1 (.xWaitRemote true v more)).map fun d2 => { d2 with rqL := rest, i := d.i + 1 }
        else
          (act d1 (.xWaitRemote false 0 false)).map fun d2 => { d2 with rqL := rest }
      | [] =>
        if !d1.s.online then act d1 .xWaitLocal
        else if c > 0 then some d1 else none

def actRead (d : D) : Option D :=
  if d.s.w != .read || parkedRead d then none else
  let hit := decide (d.i < d.k)
  let (v, more) := blockParams d
  match step d.s (.xRead hit v more) with
  | none => none
  | some s' =>
    let d' := { d with s := s', tRead := false }
    if hit then some { d' with i := d.i + 1 }
    else if !d.s.reqSent then
      -- SetRemoteOnline(true): re-verify everything traversed so far against the new remote stream
      -- (and an honest responder's stream for the re-issued request starts over)
      some { d' with verif := (if d.i > 0 then some (0, d.i) else none), spos := 0 }
    else some d'

def actHook (d : D) : Option D :=
  if d.s.w != .hook || parkedHook d then none else
  let r := if d.tHook then d.hookVal else .ok
  (act d (.xHook r)).map fun d' => { d' with tHook := false, hookVal := .ok }

def actSend (d : D) : Option D :=
  if !isSendPhase d.s.w || parkedSend d then none else
  match d.s.w with
  | .sendReq => (act d .xSendReq).map fun d' => { d' with tSend := false }
  | _ => (act d .xFin1).map fun d' => { d' with tSend := false }

def actGet (d : D) : Option D :=
  if parkedWork d then none else (act d .wGet).map fun d' => { d' with tWork := false }

/-- one internal step, in a fixed priority order -/
def oneStep (d : D) : Option D :=
  let tries : List (D → Option D) := [
    fun d => act d .ceSeeCtx, fun d => act d .cpSeeCtx, fun d => act d .cpSendCancel,
    fun d => act d .ceSeeClose, fun d => act d .cpSeeClose, fun d => act d .cpSeeCloseP, fun d => act d .cpSeeCloseE,
    fun d => act d .ceRecv, fun d => act d .cpDrainE, fun d => act d .cpRecv, fun d => act d .cpDrainP,
    fun d => if d.gRe then none else act d .ceDeliver,
    fun d => if d.gRe then none else act d .ceDeliverCC,
    fun d => if d.gRp then none else act d .cpDeliver,
    fun d => act d .ceExit, fun d => act d .cpExit, fun d => act d .cpCancelExit,
    actMgr,
    -- the dummy task is finished as soon as the `work` gate lets the worker go; until then the worker is taken
    fun d => if d.dummy && !(d.gWork && !d.tWork) then some { d with dummy := false, tWork := false } else none,
    fun d => if d.dummy then none else act d .wPop, actGet, fun d => act d .xTop, actWait, actRead, actHook,
    fun d => act d (.xAfterErr (if d.i == 0 then .rootErr else .cont 0 false)), actSend,
    fun d => act d .xErrCtx, fun d => act d .xFinCtx ]
  tries.findSome? (fun f => f d)

def settle : Nat → D → D
  | 0, d => d
  | fuel + 1, d =>
    match oneStep d with
    | some d' => settle fuel d'
    | none => d

def settleD (d : D) : D := settle 100000 d

/-! ### rendering -/

def errName : Err → String
  | .cc => "cc"
  | .missing => "missing"
  | .fatal => "incorrect"
  | .hook => "hook"
  | .other => "other"
  | .status k =>
    match k with
    | .RequestFailedBusyErr => "busy"
    | .RequestFailedContentNotFoundErr => "notfound"
    | .RequestFailedLegalErr => "legal"
    | .RequestFailedUnknownErr => "unknown"
    | .RequestCancelledErr => "rcancelled"
    | .generic c => s!"generic{c}"

def apiName : ApiRes → String
  | .cancelOk => "cancelapi=ok" | .cancelNotFound => "cancelapi=notfound"
  | .pauseOk => "pause=ok" | .pauseNotFound => "pause=notfound" | .pauseAlready => "pause=alreadypaused"
  | .unpauseOk => "unpause=ok" | .unpauseNotFound => "unpause=notfound" | .unpauseNotPaused => "unpause=notpaused"

def sortStr (xs : List String) : List String :=
  xs.foldl (fun acc x =>
    let (a, b) := acc.span (fun y => decide (y ≤ x))
    a ++ x :: b) []

def outName (o : Out) : String :=
  (match o.kind with | .req => "req" | .cancel => "cancel") ++ ">" ++ toString o.peer

def gatesStr (d : D) : String :=
  joinWith "," ((if parkedWork d then ["work"] else []) ++ (if parkedRead d then ["read"] else []) ++
    (if parkedHook d then ["hook"] else []) ++ (if parkedSend d then ["send"] else []) ++
    (if parkedRhook d then ["rhook"] else []))

/-- observation line since the previous one -/
def obs (d : D) (extra : String) : D × String :=
  -- what the caller has not read it cannot see: while a reader is held, neither items nor the close
  let newP := if d.gRp then [] else d.s.retP.drop d.nP
  let cnt := (newP.filter fun e => match e with | .send _ => true | .close => false).length
  let pcl := newP.any fun e => match e with | .close => true | _ => false
  let newE := if d.gRe then [] else d.s.retE.drop d.nE
  -- (the executor's final traversal error races with a cancelled request context: see harness obs)
  let es := (newE.filterMap fun e => match e with | .send x => some (errName x) | .close => none).filter
    fun k => !(d.cancelFam && k == "other")
  let ecl := newE.any fun e => match e with | .close => true | _ => false
  let os := (d.s.outbox.drop d.nO).map outName
  let as := sortStr ((d.s.apiLog.drop d.nA).map apiName)
  let line := s!"P:{cnt}{if pcl then "c" else ""} E:{joinWith "," es}{if ecl then "c" else ""} O:{joinWith "," os} A:{joinWith "," as} N:{d.neterr} G:{gatesStr d}"
  let line := if extra == "" then line else line ++ " " ++ extra
  ({ d with nP := if d.gRp then d.nP else d.s.retP.length, nE := if d.gRe then d.nE else d.s.retE.length, nO := d.s.outbox.length, nA := d.s.apiLog.length, neterr := 0 }, line)

def psStr (d : D) : String :=
  if parkedRhook d then "ps:-" else
  let st := if d.s.reg != .live then "none" else
    match d.s.rstate with | .queued => "queued" | .running => "running" | .paused => "paused"
  s!"ps:{st} a={d.s.tqActive} p={d.s.tqPending}"

/-! ### stimuli -/

def stim (d : D) (a : Action) : D :=
  match step d.s a with
  | some s' => { d with s := s' }
  | none => d

/-- release one goroutine parked at a gate (as the harness' `release`): true if somebody was parked -/
def grant (d : D) (g : String) (val : HookRes) : Option D :=
  match g with
  | "work" => if parkedWork d then some { d with tWork := true } else none
  | "read" => if parkedRead d then some { d with tRead := true } else none
  | "hook" => if parkedHook d then some { d with tHook := true, hookVal := val } else none
  | "send" => if parkedSend d then some { d with tSend := true } else none
  | "rhook" => if parkedRhook d then some { d with tRhook := true } else none
  | _ => none

def hookOf (s : String) : HookRes :=
  if s == "err" then .err else if s == "hp" then .pause else .ok

def sendResp (d : D) (p st items : Nat) (hk : Bool) (skip : Nat := 0) : D :=
  -- blocks travel only for a request that reached the network, and not while the manager is held once a
  -- pause made a re-request possible (see harness sendResp)
  let reqOut := d.s.outbox.any fun o => o.kind == .req
  let items := if !reqOut || (d.gRhook && d.pauseSeen) then 0 else items
  let lo := min (d.spos + skip) d.n
  let hi := min (lo + items) d.n
  let its := (List.range (hi - lo)).map (· + lo)
  let d := if p == 0 then { d with spos := hi } else d
  let d := { d with respItems := d.respItems ++ [its] }
  stim d (.envResp p st (hi - lo) hk)

def isClosed (d : D) : Bool := bothClosed d.s

/-- the `end` op: see harness/reqlife.end -/
def endLoop : Nat → D → D
  | 0, d => d
  | fuel + 1, d =>
    let d := settleD d
    let tryRelease := ["rhook", "work", "read", "hook", "send"].findSome? fun g => grant d g .ok
    match tryRelease with
    | some d' => endLoop fuel d'
    | none =>
      if isClosed d then d
      else if d.s.reg == .live && d.s.rstate == .paused && !d.cancelIssued then
        endLoop fuel (stim d .envUnpause)
      else if d.s.termSent && d.s.owed then
        endLoop fuel (sendResp d 0 d.s.lastTerm 0 false)
      else d

def stepLine (d : D) (t : Toks) : D × String :=
  match t with
  | "new" :: n :: k :: v :: rest =>
    match n.toNat?, k.toNat?, v.toNat? with
    | some n, some k, some v =>
      if d.created || n < 1 || n > 8 || k > n || v < 1 || v > 6 then (d, "bad-op") else
      let d := { d with created := true, n, k, v, s := init 0 1000000000 (n * (v + 1) + 2),
                        dummy := rest.headD "0" == "1" }
      obs (settleD (stim d .envNew)) ""
    | _, _, _ => (d, "bad-op")
  | ["gate", g, x] =>
    let on := x == "1"
    match g with
    | "work" => obs (settleD { d with gWork := on }) ""
    | "read" => obs (settleD { d with gRead := on }) ""
    | "hook" => obs (settleD { d with gHook := on }) ""
    | "send" => obs (settleD { d with gSend := on }) ""
    | "rhook" => obs (settleD { d with gRhook := on }) ""
    | "rp" => obs (settleD { d with gRp := on }) ""
    | "re" => obs (settleD { d with gRe := on }) ""
    | _ => (d, "bad-op")
  | "step" :: g :: rest =>
    let val := hookOf (rest.headD "ok")
    let d := if val == .pause then { d with pauseSeen := true } else d
    match grant d g val with
    | some d' => obs (settleD d') ""
    | none => obs (settleD d) "none"
  | "adv" :: rest =>
    let val := hookOf (rest.headD "ok")
    let d := if val == .pause then { d with pauseSeen := true } else d
    match ["work", "read", "hook", "send"].findSome? fun g => grant d g val with
    | some d' => obs (settleD d') ""
    | none => obs (settleD d) "none"
  | ["resp", p, st, items, hk] =>
    if !d.created then (d, "bad-op") else
    match p.toNat?, st.toNat?, items.toNat? with
    | some p, some st, some items =>
      let d := if (30 ≤ st && st ≤ 35) || hk == "err" then { d with cancelFam := true } else d
      obs (settleD (sendResp d p st items (hk == "err"))) ""
    | _, _, _ => (d, "bad-op")
  | ["respx", p, st, items, hk] =>
    -- a response stream that leaves out one item: the loader must reject it
    if !d.created then (d, "bad-op") else
    match p.toNat?, st.toNat?, items.toNat? with
    | some p, some st, some items =>
      let d := if (30 ≤ st && st ≤ 35) || hk == "err" then { d with cancelFam := true } else d
      obs (settleD (sendResp d p st items (hk == "err") 1)) ""
    | _, _, _ => (d, "bad-op")
  | ["cancelctx"] =>
    if !d.created then (d, "bad-op") else
    obs (settleD (stim { d with cancelIssued := true, cancelFam := true } .envCtxCancel)) ""
  | ["cancelapi"] =>
    if !d.created then (d, "bad-op") else
    obs (settleD (stim { d with cancelIssued := true, cancelFam := true } .envCancelApi)) ""
  | ["pause"] => if !d.created then (d, "bad-op") else obs (settleD (stim { d with pauseSeen := true } .envPause)) ""
  | ["unpause"] => if !d.created then (d, "bad-op") else obs (settleD (stim d .envUnpause)) ""
  | ["disc"] =>
    if !d.created then (d, "bad-op") else
    -- listenForDisconnect is unsubscribed when the progress collector goroutine ends
    let live := match d.s.cp with | .none => false | .done => false | _ => true
    obs (settleD { d with neterr := if live then 1 else 0 }) ""
  | ["sendfail"] =>
    if !d.created then (d, "bad-op") else
    obs (settleD { d with neterr := if d.s.outbox.isEmpty then 0 else 1 }) ""
  | ["ps"] => if !d.created then (d, "bad-op") else
    let d := settleD d
    obs d (psStr d)
  | ["end"] =>
    if !d.created then (d, "bad-op") else
    let d := settleD { d with gRp := false }
    let d := settleD { d with gRe := false }
    let d := endLoop 200 d
    let b := fun (x : Bool) => if x then "1" else "0"
    let prot := if d.s.reg == .live then 1 else 0
    obs d s!"closed={b (d.s.cp == .done)}{b (d.s.ce == .done)} {psStr d} prot={prot}"
  | _ => (d, "bad-op")

def handler (ops : List Toks) : List String :=
  let (_, outs) := ops.foldl (fun (acc : D × List String) t =>
    let (d', o) := stepLine acc.1 t
    (d', o :: acc.2)) ({}, [])
  outs.reverse

end GS.Driver.ReqLife

def main : IO Unit := GS.Proto.runModel GS.Driver.ReqLife.handler
