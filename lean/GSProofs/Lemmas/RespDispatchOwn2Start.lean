import GSProofs.Lemmas.RespDispatchOwn2Def
/-!
Frames for GSProofs/C10Own2.lean: `start` (StartTask and the immediate completion), the local API
calls `pauseResp` / `updateResp`, and what the peer guard does to the sender of a foreign request.
-/
namespace GS.C10
open GS.RespMgr GS.Generated

/-! ### `start` -/

theorem startTask_frame {s : State} (hi : Inv none s) (t : Peer × ReqId) :
    FrameW t.1 s (startTask s t).1 ∧ AllPeer t.1 (startTask s t).2.1 := by
  unfold startTask
  split
  · exact ⟨FrameW.refl _ s, allPeer_nil _⟩
  · rename_i hc
    have hmem : t ∈ s.pending := by simpa using hc
    have f0 : FrameW t.1 s { s with pending := eraseFirst s.pending t } := (frame_erasePending t.1 s t.2).toW
    have hdone : AllPeer t.1 [Ev.taskDone t.1 t.2] := allPeer_cons rfl (allPeer_nil _)
    simp only
    split
    · exact ⟨f0, hdone⟩
    · rename_i k o hl
      have hl0 : s.lookup t.2 = some (k, o) := hl
      obtain ⟨k', o', hl', hp', _⟩ := hi.pend t hmem
      rw [hl0] at hl'
      have hko : k = k' ∧ o = o' := by simpa using hl'
      have hp : o.peer = t.1 := by rw [hko.2]; exact hp'
      split
      · exact ⟨f0, hdone⟩
      · refine ⟨?_, ?_⟩
        · have hk1 : ({ s with pending := eraseFirst s.pending t } : State).obj k = some o := (lookup_some hl).2
          have f1 := (frame_setObj t.1 _ k o { o with started := true, state := .running, task := some s.nextTid } hk1 hp).toW
          refine FrameW.trans f0 (FrameW.trans f1 ⟨fun _ _ h _ => h, fun _ _ _ h _ _ => h, rfl⟩)
        · split
          · exact allPeer_nil _
          · exact allPeer_cons hp (allPeer_nil _)

/-- `start`, including the immediate completion of a traversal that had already delivered its last
    block: in a state satisfying the invariant it stays within the task's peer -/
theorem startExec_frame {s : State} (hi : Inv none s) (t : Peer × ReqId) :
    FrameW t.1 s (startExec s t).1 ∧ AllPeer t.1 (startExec s t).2.1 := by
  obtain ⟨f0, e0⟩ := startTask_frame hi t
  have hi1 := startTask_inv hi t
  unfold startExec
  simp only
  split
  · exact ⟨f0, e0⟩
  · split
    · exact ⟨f0, e0⟩
    · rename_i e hf
      split
      · exact ⟨f0, e0⟩
      · rename_i o ho
        split
        · have het := findExec_task hf
          obtain ⟨o1, hl1, hp1, _, _⟩ := hi1.exec e (findExec_mem hf)
          have ho1 : o1 = o := by
            have := (lookup_some hl1).2
            rw [ho] at this; cases this; rfl
          subst ho1
          have hp : o1.peer = t.1 := by rw [hp1, het]
          have hl1' : (startTask s t).1.lookup t.2 = some (e.k, o1) := by
            have h2 : e.task.2 = t.2 := by rw [het]
            rw [← h2]; exact hl1
          have f1 := (frame_setObj t.1 _ e.k o1 { o1 with finCode := some StatusCodes.RequestCompletedFull } ho hp).toW
          have hl3 := lookup_setObj_same { o1 with finCode := some StatusCodes.RequestCompletedFull } hl1'
          obtain ⟨f2, e2⟩ := finishTask_frame t.1 _ t none false rfl
            (by intro k' o' h; rw [hl3] at h; cases h; exact hp)
          exact ⟨FrameW.trans f0 (FrameW.trans f1 f2),
            allPeer_append (allPeer_append e0 (allPeer_cons hp (allPeer_nil _))) e2⟩
        · exact ⟨f0, e0⟩

/-! ### local API -/

theorem pauseResp_frame (q : Peer) (s : State) (id : ReqId)
    (hown : ∀ k o, s.lookup id = some (k, o) → o.peer = q) :
    Frame q s (pauseResp s id).1 ∧ AllPeer q (pauseResp s id).2.1 := by
  unfold pauseResp
  split
  · exact ⟨Frame.refl q s, allPeer_nil q⟩
  · rename_i k o hl
    split
    · exact ⟨Frame.refl q s, allPeer_nil q⟩
    · split
      · exact ⟨Frame.refl q s, allPeer_nil q⟩
      · exact ⟨frame_setObj q s k o _ (lookup_some hl).2 (hown k o hl), allPeer_nil q⟩

theorem updateResp_frame (q : Peer) (s : State) (id : ReqId)
    (hown : ∀ k o, s.lookup id = some (k, o) → o.peer = q) :
    Frame q s (updateResp s id).1 ∧ AllPeer q (updateResp s id).2.1 := by
  unfold updateResp
  split
  · exact ⟨Frame.refl q s, allPeer_nil q⟩
  · rename_i k o hl
    exact ⟨Frame.refl q s, allPeer_cons (hown k o hl) (allPeer_nil q)⟩

/-- a local API call addresses a response by ID; if that response is not served to `p`, there is a
    peer `q ≠ p` owning whatever the table holds under the ID -/
theorem localApi_pick (s : State) (p : Peer) (id : ReqId) (ha : ∀ k o, s.lookup id = some (k, o) → o.peer ≠ p) :
    ∃ q, q ≠ p ∧ ∀ k o, s.lookup id = some (k, o) → o.peer = q := by
  cases hl : s.lookup id with
  | none => exact ⟨p + 1, Nat.succ_ne_self p, fun _ _ h => by cases h⟩
  | some r =>
    obtain ⟨k, o⟩ := r
    exact ⟨o.peer, ha k o hl, fun k' o' h => by cases h; rfl⟩

/-! ### the sender of a foreign request -/

/-- in a state satisfying the invariant, an ID that is live for `p` (table entry served to `p`, or
    an executor of `p`) is in the table for `p`: any request of another peer with that ID is foreign -/
theorem foreign_of_live {s : State} (hi : Inv none s) {p q : Peer} (hq : q ≠ p) (x : Request)
    (hl : liveFor s p x.id = true) : foreign s q x = true := by
  have hpq : p ≠ q := fun h => hq h.symm
  unfold liveFor at hl
  unfold foreign
  rcases Bool.or_eq_true _ _ |>.mp hl with h | h
  · split at h
    · rename_i k o hlk
      have : o.peer = p := by simpa using h
      simp [hlk, this, hpq]
    · cases h
  · cases hf : findExec s.execs (p, x.id) with
    | none => rw [hf] at h; cases h
    | some e =>
      have het := findExec_task hf
      obtain ⟨o, hlk, hp, _, _⟩ := hi.exec e (findExec_mem hf)
      rw [het] at hlk hp
      simp at hlk hp
      simp [hlk, hp, hpq]

end GS.C10
