import GSProofs.Lemmas.ConcurrentCleanRoot
import GSProofs.Lemmas.LoaderComplete
/-!
Property C20, completeness clause of `CleanAt` — requestor side, one response item per message.

The executor is parked in `waitRemote` on the node `n` at its cursor, nothing queued, the verifier's
replay over.  One item for `n` arrives (`wake_item`): the parked load consumes it and is answered with
data (block attached, or block already in the local store) or with a missing-block error; the executor
handles the answer and parks on the next node (`drive_park`) or ends the request.
-/
namespace GS.C20
open GS.Loader GS.Requestor GS.LinkTrack GS.Concurrent

/-- a load on an open loader with an empty queue parks -/
theorem park_load (L : Loader.State) (p : Path) (c : Cid) (hq : L.rq.q = []) (ho : L.isOpen = true) :
    (Loader.load L p c).2 = .blocked ∧ obs (Loader.load L p c).1 = { obs L with pending := some (p, c) } := by
  obtain ⟨store, record, mra, unfollowed, isOpen, ver, rq, pending⟩ := L
  obtain ⟨q, last, lastLinked, tailOn⟩ := rq
  simp only at hq ho
  subst hq ho
  cases mra <;> simp [Loader.load, Loader.run, waitRemote, obs]

theorem stillOn_reset (s : Loader.State) (p : Path) (h : s.unfollowed = [] ∨ below s.unfollowed p = false) :
    stillOnUnfollowed s p = ({ s with unfollowed := [] }, false) := by
  obtain ⟨store, record, mra, unfollowed, isOpen, ver, rq, pending⟩ := s
  simp only at h
  unfold stillOnUnfollowed
  by_cases hu : unfollowed = []
  · subst hu; rfl
  · rcases h with h | h
    · exact absurd h hu
    · have hlen : (unfollowed.length == 0) = false := by
        cases unfollowed with
        | nil => exact absurd rfl hu
        | cons a t => rfl
      have hb : (p.length ≤ unfollowed.length || !(unfollowed.isPrefixOf p)) = true := by
        unfold below at h
        cases hp : unfollowed.isPrefixOf p with
        | false => simp
        | true =>
          rw [hp] at h
          simp at h
          simp; omega
      simp only [hlen, hb, Bool.false_eq_true, if_false, if_true]

/-- the parked load is woken by the item for its link -/
theorem wake_item (L : Loader.State) (p : Path) (c : Cid) (it : Item) (md : List (Cid × Action)) (bl : List (Cid × Blk))
    (hbi : buildItems md bl = [it]) (hpend : L.pending = some (p, c)) (hq : L.rq.q = []) (ho : L.isOpen = true)
    (hv : L.verifierDone = true) (hstale : L.unfollowed = [] ∨ below L.unfollowed p = false) (hl : it.link = c) :
    ∃ L' res, Loader.wake (Loader.ingest L md bl) = (L', some res) ∧
      obs L' = ⟨(match it.block with | some b => (c, b) :: L.store | none => L.store),
                 (if it.action.didFollow then [] else p), [], true, none, none⟩ ∧
      (match it.block with
       | some b => res.err = none ∧ res.write = some (c, b)
       | none => res = loadLocal L p c) := by
  have hmd : md.isEmpty = false := by
    cases md with
    | nil => simp [buildItems, buildItems.go] at hbi
    | cons a t => rfl
  obtain ⟨store, record, mra, unfollowed, isOpen, ver, rq, pending⟩ := L
  obtain ⟨q, last, lastLinked, tailOn⟩ := rq
  obtain ⟨link, action, block⟩ := it
  simp only at hpend hq ho hv hstale hl
  subst hpend hq ho hl
  have hvd : ∀ (a : List (Cid × Blk)) (b : Option Attempt) (d : Path) (e : Bool) (f : RQ) (g : Option (Path × Cid)),
      State.verifierDone ⟨a, record, b, d, e, ver, f, g⟩ = true := fun _ _ _ _ _ _ => hv
  cases block with
  | none =>
    cases hdf : action.didFollow <;>
    simp [Loader.ingest, hmd, hbi, RQ.queue, RQ.push, Loader.wake, Loader.run, waitRemote, hvd, stillOn_reset, hstale,
        RQ.consume, recordRemoteAttempt, loadLocal, obs, hdf]
  | some b =>
    cases hdf : action.didFollow <;>
    simp [Loader.ingest, hmd, hbi, RQ.queue, RQ.push, Loader.wake, Loader.run, waitRemote, hvd, stillOn_reset, hstale,
        RQ.consume, recordRemoteAttempt, loadLocal, obs, hdf] <;>
    exact ⟨_, _, ⟨rfl, rfl⟩, ⟨rfl, rfl, rfl, rfl, rfl, rfl⟩, rfl, rfl⟩

/-- the executor after a load was answered: nothing queued, loader open — it ends the request if the
    cursor is empty and parks on the next node otherwise -/
theorem drive_park (f : Nat) (s : Requestor.State) (hrun : s.phase = .running) (hsent : s.requestSent = true)
    (hq : s.L.rq.q = []) (ho : s.L.isOpen = true) :
    (s.todo = [] → drive (f + 1) s = finish s) ∧
    (∀ m rest, s.todo = m :: rest → drive (f + 1) s = ({ s with L := (Loader.load s.L m.path m.cid).1 }, [])) := by
  rw [drive_succ]
  have hp : ¬ ((s.phase != Phase.running) = true) := by simp [hrun]
  rw [if_neg hp]
  constructor
  · intro ht; rw [ht]
  · intro m rest ht
    rw [ht]
    simp only
    rw [loadNode_sent s m hsent]
    have := (park_load s.L m.path m.cid hq ho).1
    generalize Loader.load s.L m.path m.cid = ld at this ⊢
    obtain ⟨l1, out⟩ := ld
    simp only at this
    subst this
    simp only [ht]

/-- the executor is parked in `waitRemote` on `n`, the node at its cursor; nothing is queued and the
    verifier's replay is over -/
structure PK (r : Requestor.State) (n : LNode) (post : LT) : Prop where
  ph : r.phase = .running
  ctx : r.ctxCancelled = false
  sent : r.requestSent = true
  todo : r.todo = n :: post
  pend : r.L.pending = some (n.path, n.cid)
  opn : r.L.isOpen = true
  q : r.L.rq.q = []
  ver : r.L.verifierDone = true

theorem missingOf_append (a b : List Ev) : missingOf (a ++ b) = missingOf a ++ missingOf b := by
  unfold missingOf; rw [List.filterMap_append]

theorem missingOf_writeEvs (r : Result) : missingOf (writeEvs r) = [] := by
  unfold writeEvs missingOf
  cases r.write with
  | none => rfl
  | some x => rfl

theorem missingOf_finish (s : Requestor.State) : missingOf (finish s).2 = [] := by
  unfold finish missingOf
  cases s.terminalErr <;> rfl

/-- what the executor does after the state `s2` it is in once a load was answered and handled -/
theorem after_handle (s2 : Requestor.State) (hrun : s2.phase = .running) (hsent : s2.requestSent = true)
    (hctx : s2.ctxCancelled = false) (hq : s2.L.rq.q = []) (ho : s2.L.isOpen = true) (hv : s2.L.ver = none) :
    missingOf (drive (fuelFor s2) s2).2 = [] ∧ (drive (fuelFor s2) s2).1.ctxCancelled = false ∧
    (drive (fuelFor s2) s2).1.L.store = s2.L.store ∧
    (s2.todo = [] → (drive (fuelFor s2) s2).1.phase = .finished) ∧
    (∀ m post', s2.todo = m :: post' → PK (drive (fuelFor s2) s2).1 m post' ∧
      (drive (fuelFor s2) s2).1.L.unfollowed = s2.L.unfollowed) := by
  have hf : fuelFor s2 = (s2.todo.length + 1) + 1 := rfl
  rw [hf]
  obtain ⟨d1, d2⟩ := drive_park (s2.todo.length + 1) s2 hrun hsent hq ho
  cases ht : s2.todo with
  | nil =>
    rw [ht] at d1 d2
    rw [d1 rfl]
    exact ⟨missingOf_finish s2, hctx, finish_store s2, fun _ => rfl, fun m post' h => (by cases h)⟩
  | cons m post' =>
    rw [ht] at d1 d2
    rw [d2 m post' rfl]
    obtain ⟨_, hobs⟩ := park_load s2.L m.path m.cid hq ho
    simp only [obs, Obs.mk.injEq] at hobs
    obtain ⟨o1, o2, o3, o4, o5, o6⟩ := hobs
    refine ⟨rfl, hctx, o1, fun h => (by cases h), fun m' post'' h => ?_⟩
    cases h
    refine ⟨⟨hrun, hctx, hsent, rfl, o6, o4.trans ho, o3.trans hq, ?_⟩, o2⟩
    show State.verifierDone (Loader.load s2.L m.path m.cid).1 = true
    unfold State.verifierDone
    rw [o5, hv]

/-- the message of an item wire (status 14) is: ingest, then wake the parked load -/
theorem message_eq_resume (L : Loader.State) (todo : LT) (nb us : Nat) (te : Option Nat) (S : List (Cid × Blk))
    (md : List (Cid × Action)) (bl : List (Cid × Blk)) :
    message (rws ⟨L, todo, .running, true, nb, us, false, te⟩ S) true true 14 md bl =
      resume ⟨Loader.ingest (withStore L S) md bl, todo, .running, true, nb, us, false, te⟩ := by
  unfold message
  simp [rws, applyStatus, isTerminal, isSuccess, isFailure]

theorem message_item (r : Requestor.State) (n : LNode) (post : LT) (S : List (Cid × Blk)) (it : Item)
    (md : List (Cid × Action)) (bl : List (Cid × Blk)) (hbi : buildItems md bl = [it]) (hp : PK r n post)
    (hstale : r.L.unfollowed = [] ∨ below r.L.unfollowed n.path = false) (hl : it.link = n.cid)
    (o : Requestor.State × List Ev) (ho : o = message (rws r S) true true 14 md bl) :
    (∀ b, (it.block = some b ∨ (it.block = none ∧ storeGet S n.cid = some b)) →
       missingOf o.2 = [] ∧ o.1.ctxCancelled = false ∧
       o.1.L.store = (match it.block with | some b' => (n.cid, b') :: S | none => S) ∧
       (post = [] → o.1.phase = .finished) ∧
       (∀ m post', post = m :: post' → PK o.1 m post' ∧
          o.1.L.unfollowed = if it.action.didFollow then [] else n.path)) ∧
    (it.block = none → storeGet S n.cid = none → n.depth ≠ 0 →
       missingOf o.2 = [(n.cid, n.path)] ∧ o.1.ctxCancelled = false ∧ o.1.L.store = S ∧
       (skipSub n post = [] → o.1.phase = .finished) ∧
       (∀ m post', skipSub n post = m :: post' → PK o.1 m post' ∧
          o.1.L.unfollowed = if it.action.didFollow then [] else n.path)) := by
  obtain ⟨L, todo, ph, sent, nb, us, cc, te⟩ := r
  obtain ⟨h1, h2, h3, h4, h5, h6, h7, h8⟩ := hp
  simp only at h1 h2 h3 h4 h5 h6 h7 h8 hstale
  subst h1 h2 h3 h4
  obtain ⟨L', res, hw, hobs, hres⟩ := wake_item (withStore L S) n.path n.cid it md bl hbi h5 h7 h6 h8 hstale hl
  simp only [obs, Obs.mk.injEq] at hobs
  obtain ⟨o1, o2, o3, o4, o5, o6⟩ := hobs
  rw [message_eq_resume] at ho
  unfold resume at ho
  simp only [hw] at ho
  constructor
  · intro b hb
    have herr : res.err = none := by
      rcases hb with hb | ⟨hb1, hb2⟩
      · rw [hb] at hres; exact hres.1
      · rw [hb1] at hres
        simp only at hres
        rw [hres]
        simp [loadLocal, withStore, hb2]
    have hh : handle ⟨L', n :: post, .running, true, nb, us, false, te⟩ n post res =
        (⟨L', post, .running, true, nb + 1, us, false, te⟩,
          writeEvs res ++ [Ev.block n.cid n.path res.loc (nb + 1), Ev.prog n.vData], true) := by
      unfold handle; rw [herr]
    rw [hh] at ho
    simp only at ho
    obtain ⟨a1, a2, a3, a4, a5⟩ := after_handle ⟨L', post, .running, true, nb + 1, us, false, te⟩ rfl rfl rfl o3 o4 o5
    generalize drive (fuelFor ⟨L', post, .running, true, nb + 1, us, false, te⟩)
      ⟨L', post, .running, true, nb + 1, us, false, te⟩ = d at ho a1 a2 a3 a4 a5
    subst ho
    refine ⟨?_, a2, a3.trans o1, a4, fun m post' h => ?_⟩
    · simp only [missingOf_append, missingOf_writeEvs, a1, List.append_nil, List.nil_append]
      rfl
    · obtain ⟨k1, k2⟩ := a5 m post' h
      exact ⟨k1, k2.trans o2⟩
  · intro hb hs hd
    rw [hb] at hres o1
    simp only at hres o1
    have hres' : res = { data := none, err := some (.missing n.cid n.path), loc := true } := by
      rw [hres]; simp [loadLocal, withStore, hs]
    have hd' : (n.depth == 0) = false := by simpa using hd
    have hh : handle ⟨L', n :: post, .running, true, nb, us, false, te⟩ n post res =
        (⟨L', skipSub n post, .running, true, nb, us, false, te⟩,
          writeEvs res ++ [Ev.err (.load (.missing n.cid n.path)), Ev.prog n.vSkip], true) := by
      unfold handle; rw [hres']; simp [hd', skipSub]
    rw [hh] at ho
    simp only at ho
    obtain ⟨a1, a2, a3, a4, a5⟩ := after_handle ⟨L', skipSub n post, .running, true, nb, us, false, te⟩ rfl rfl rfl o3 o4 o5
    generalize drive (fuelFor ⟨L', skipSub n post, .running, true, nb, us, false, te⟩)
      ⟨L', skipSub n post, .running, true, nb, us, false, te⟩ = d at ho a1 a2 a3 a4 a5
    subst ho
    refine ⟨?_, a2, a3.trans o1, a4, fun m post' h => ?_⟩
    · simp only [missingOf_append, missingOf_writeEvs, a1, List.append_nil, List.nil_append]
      rfl
    · obtain ⟨k1, k2⟩ := a5 m post' h
      exact ⟨k1, k2.trans o2⟩

end GS.C20
