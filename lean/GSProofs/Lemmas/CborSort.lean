import GS.Model.Cbor
import GSProofs.Lemmas.CborRoundtrip
/-! Fuel bound, and: sorting of map entries (`sortKVs`, `sortVal`) preserves everything the decoder
looks at. -/
namespace GS.Cbor

/-! ### fuel bound: `need v ≤ 2 * |encodeRaw v| - 1` -/

mutual
theorem need_le : ∀ (v : Val), need v + 1 ≤ 2 * (encodeRaw v).length
  | .uint n => by have := encodeHead_length_pos 0 n; simp [need, encodeRaw]; omega
  | .nint n => by have := encodeHead_length_pos 1 n; simp [need, encodeRaw]; omega
  | .bytes b => by have := encodeHead_length_pos 2 b.length; simp [need, encodeRaw]; omega
  | .text b => by have := encodeHead_length_pos 3 b.length; simp [need, encodeRaw]; omega
  | .array xs => by
    have := encodeHead_length_pos 4 xs.length
    have := needList_le xs
    simp [need, encodeRaw]; omega
  | .map kvs => by
    have := encodeHead_length_pos 5 kvs.length
    have := needKVs_le kvs
    simp [need, encodeRaw]; omega
  | .link c => by simp [need, encodeRaw]; omega
  | .bool true => by simp [need, encodeRaw]
  | .bool false => by simp [need, encodeRaw]
  | .null => by simp [need, encodeRaw]
  | .float _ => by simp [need, encodeRaw]; omega
theorem needList_le : ∀ (xs : List Val), needList xs ≤ 2 * (encodeRawList xs).length
  | [] => by simp [needList, encodeRawList]
  | x :: xs => by
    have := need_le x
    have := needList_le xs
    simp [needList, encodeRawList]; omega
theorem needKVs_le : ∀ (kvs : List (Bytes × Val)), needKVs kvs ≤ 2 * (encodeRawKVs kvs).length
  | [] => by simp [needKVs, encodeRawKVs]
  | (k, v) :: kvs => by
    have := need_le v
    have := needKVs_le kvs
    have := encodeHead_length_pos 3 k.length
    simp [needKVs, encodeRawKVs]; omega
end

/-- the raw round trip with the decoder's own fuel -/
theorem decodeVal_encodeRaw (v : Val) (rest : Bytes) (hw : wfVal v = true) (hd : depthVal v ≤ maxDepth) :
    decodeVal (encodeRaw v ++ rest) = some (v, rest) := by
  unfold decodeVal
  apply decVal_enc v _ 0 rest hw (by omega)
  have := need_le v
  simp; omega

/-! ### insertion sort is a permutation -/

theorem insertKV_perm (kv : Bytes × Val) : ∀ (l : List (Bytes × Val)), (insertKV kv l).Perm (kv :: l)
  | [] => by simp [insertKV]
  | x :: xs => by
    unfold insertKV
    split
    · exact List.Perm.refl _
    · exact ((insertKV_perm kv xs).cons x).trans (List.Perm.swap kv x xs)

theorem sortKVs_perm : ∀ (l : List (Bytes × Val)), (sortKVs l).Perm l
  | [] => by simp [sortKVs]
  | x :: xs => by
    have : sortKVs (x :: xs) = insertKV x (sortKVs xs) := by simp [sortKVs]
    rw [this]
    exact (insertKV_perm x _).trans ((sortKVs_perm xs).cons x)

theorem sortKVs_length (l : List (Bytes × Val)) : (sortKVs l).length = l.length :=
  (sortKVs_perm l).length_eq

/-! ### duplicate keys -/

theorem hasDupKey_false_iff : ∀ (l : List (Bytes × Val)),
    hasDupKey l = false ↔ (l.map (·.1)).Nodup
  | [] => by simp [hasDupKey]
  | (k, v) :: rest => by
    simp only [hasDupKey, Bool.or_eq_false_iff, List.map_cons, List.nodup_cons]
    rw [hasDupKey_false_iff rest]
    constructor
    · intro ⟨h1, h2⟩
      refine ⟨?_, h2⟩
      intro hm
      obtain ⟨kv, hkv, hk⟩ := List.mem_map.1 hm
      have : rest.any (fun kv => kv.1 == k) = true :=
        List.any_eq_true.2 ⟨kv, hkv, by simp [hk]⟩
      rw [h1] at this; cases this
    · intro ⟨h1, h2⟩
      refine ⟨?_, h2⟩
      cases h : rest.any (fun kv => kv.1 == k) with
      | false => rfl
      | true =>
        obtain ⟨kv, hkv, hk⟩ := List.any_eq_true.1 h
        exact absurd (List.mem_map.2 ⟨kv, hkv, by simpa using hk⟩) h1

theorem hasDupKey_perm {l₁ l₂ : List (Bytes × Val)} (p : l₁.Perm l₂) (h : hasDupKey l₁ = false) :
    hasDupKey l₂ = false :=
  (hasDupKey_false_iff l₂).2 ((p.map (·.1)).nodup ((hasDupKey_false_iff l₁).1 h))

/-! ### `sortVal` keeps values well-formed, equally deep, equally expensive -/

theorem sortValKVs_keys : ∀ (l : List (Bytes × Val)), (sortValKVs l).map (·.1) = l.map (·.1)
  | [] => rfl
  | (k, v) :: rest => by simp [sortValKVs, sortValKVs_keys rest]

theorem sortValKVs_length (l : List (Bytes × Val)) : (sortValKVs l).length = l.length := by
  have := congrArg List.length (sortValKVs_keys l)
  simpa using this

theorem sortValList_length : ∀ (l : List Val), (sortValList l).length = l.length
  | [] => rfl
  | x :: xs => by simp [sortValList, sortValList_length xs]

theorem hasDupKey_sortValKVs (l : List (Bytes × Val)) (h : hasDupKey l = false) :
    hasDupKey (sortValKVs l) = false := by
  rw [hasDupKey_false_iff] at h ⊢
  rwa [sortValKVs_keys]

theorem wfValKVs_insert (kv : Bytes × Val) : ∀ (l : List (Bytes × Val)),
    wfValKVs (insertKV kv l) = wfValKVs (kv :: l)
  | [] => by simp [insertKV]
  | x :: xs => by
    unfold insertKV
    split
    · rfl
    · obtain ⟨k, v⟩ := kv
      obtain ⟨k', v'⟩ := x
      simp only [wfValKVs, wfValKVs_insert (k, v) xs]
      cases decide (k.length ≤ maxStrLen) <;> cases wfVal v <;> cases decide (k'.length ≤ maxStrLen) <;>
        cases wfVal v' <;> simp

theorem wfValKVs_sort : ∀ (l : List (Bytes × Val)), wfValKVs (sortKVs l) = wfValKVs l
  | [] => by simp [sortKVs]
  | x :: xs => by
    have : sortKVs (x :: xs) = insertKV x (sortKVs xs) := by simp [sortKVs]
    obtain ⟨k, v⟩ := x
    rw [this, wfValKVs_insert]
    simp only [wfValKVs, wfValKVs_sort xs]

theorem depthKVs_insert (kv : Bytes × Val) : ∀ (l : List (Bytes × Val)),
    depthKVs (insertKV kv l) = depthKVs (kv :: l)
  | [] => by simp [insertKV]
  | x :: xs => by
    unfold insertKV
    split
    · rfl
    · obtain ⟨k, v⟩ := kv
      obtain ⟨k', v'⟩ := x
      simp only [depthKVs, depthKVs_insert (k, v) xs]
      omega

theorem depthKVs_sort : ∀ (l : List (Bytes × Val)), depthKVs (sortKVs l) = depthKVs l
  | [] => by simp [sortKVs]
  | x :: xs => by
    have : sortKVs (x :: xs) = insertKV x (sortKVs xs) := by simp [sortKVs]
    obtain ⟨k, v⟩ := x
    rw [this, depthKVs_insert]
    simp only [depthKVs, depthKVs_sort xs]

theorem costKVs_insert (kv : Bytes × Val) : ∀ (l : List (Bytes × Val)),
    costKVs (insertKV kv l) = costKVs (kv :: l)
  | [] => by simp [insertKV]
  | x :: xs => by
    unfold insertKV
    split
    · rfl
    · obtain ⟨k, v⟩ := kv
      obtain ⟨k', v'⟩ := x
      simp only [costKVs, costKVs_insert (k, v) xs]
      omega

theorem costKVs_sort : ∀ (l : List (Bytes × Val)), costKVs (sortKVs l) = costKVs l
  | [] => by simp [sortKVs]
  | x :: xs => by
    have : sortKVs (x :: xs) = insertKV x (sortKVs xs) := by simp [sortKVs]
    obtain ⟨k, v⟩ := x
    rw [this, costKVs_insert]
    simp only [costKVs, costKVs_sort xs]

mutual
theorem wfVal_sortVal : ∀ (v : Val), wfVal v = true → wfVal (sortVal v) = true
  | .array xs, h => by
    simp only [wfVal, Bool.and_eq_true, decide_eq_true_eq] at h
    simp only [sortVal, wfVal, Bool.and_eq_true, decide_eq_true_eq, sortValList_length]
    exact ⟨h.1, wfValList_sort xs h.2⟩
  | .map kvs, h => by
    simp only [wfVal, Bool.and_eq_true, decide_eq_true_eq, Bool.not_eq_true'] at h
    simp only [sortVal, wfVal, Bool.and_eq_true, decide_eq_true_eq, Bool.not_eq_true', sortKVs_length,
      sortValKVs_length, wfValKVs_sort]
    exact ⟨⟨h.1.1, hasDupKey_perm (sortKVs_perm _).symm (hasDupKey_sortValKVs kvs h.1.2)⟩,
      wfValKVs_sortVal kvs h.2⟩
  | .uint _, h => h
  | .nint _, h => h
  | .bytes _, h => h
  | .text _, h => h
  | .link _, h => h
  | .bool _, h => h
  | .null, h => h
  | .float _, h => h
theorem wfValList_sort : ∀ (xs : List Val), wfValList xs = true → wfValList (sortValList xs) = true
  | [], _ => rfl
  | x :: xs, h => by
    simp only [wfValList, Bool.and_eq_true] at h
    simp only [sortValList, wfValList, Bool.and_eq_true]
    exact ⟨wfVal_sortVal x h.1, wfValList_sort xs h.2⟩
theorem wfValKVs_sortVal : ∀ (kvs : List (Bytes × Val)), wfValKVs kvs = true → wfValKVs (sortValKVs kvs) = true
  | [], _ => rfl
  | (k, v) :: kvs, h => by
    simp only [wfValKVs, Bool.and_eq_true] at h
    simp only [sortValKVs, wfValKVs, Bool.and_eq_true]
    exact ⟨⟨h.1.1, wfVal_sortVal v h.1.2⟩, wfValKVs_sortVal kvs h.2⟩
end

mutual
theorem depthVal_sortVal : ∀ (v : Val), depthVal (sortVal v) = depthVal v
  | .array xs => by simp only [sortVal, depthVal, depthList_sort xs]
  | .map kvs => by simp only [sortVal, depthVal, depthKVs_sort, depthKVs_sortVal kvs]
  | .uint _ => rfl
  | .nint _ => rfl
  | .bytes _ => rfl
  | .text _ => rfl
  | .link _ => rfl
  | .bool _ => rfl
  | .null => rfl
  | .float _ => rfl
theorem depthList_sort : ∀ (xs : List Val), depthList (sortValList xs) = depthList xs
  | [] => rfl
  | x :: xs => by simp only [sortValList, depthList, depthVal_sortVal x, depthList_sort xs]
theorem depthKVs_sortVal : ∀ (kvs : List (Bytes × Val)), depthKVs (sortValKVs kvs) = depthKVs kvs
  | [] => rfl
  | (k, v) :: kvs => by simp only [sortValKVs, depthKVs, depthVal_sortVal v, depthKVs_sortVal kvs]
end

mutual
theorem cost_sortVal : ∀ (v : Val), cost (sortVal v) = cost v
  | .array xs => by simp only [sortVal, cost, sortValList_length, costList_sort xs]
  | .map kvs => by
    simp only [sortVal, cost, sortKVs_length, sortValKVs_length, costKVs_sort, costKVs_sortVal kvs]
  | .uint _ => rfl
  | .nint _ => rfl
  | .bytes _ => rfl
  | .text _ => rfl
  | .link _ => rfl
  | .bool _ => rfl
  | .null => rfl
  | .float _ => rfl
theorem costList_sort : ∀ (xs : List Val), costList (sortValList xs) = costList xs
  | [] => rfl
  | x :: xs => by simp only [sortValList, costList, cost_sortVal x, costList_sort xs]
theorem costKVs_sortVal : ∀ (kvs : List (Bytes × Val)), costKVs (sortValKVs kvs) = costKVs kvs
  | [] => rfl
  | (k, v) :: kvs => by simp only [sortValKVs, costKVs, cost_sortVal v, costKVs_sortVal kvs]
end

/-- **CBOR round trip** (any key order in, sorted out) -/
theorem decodeVal_encodeVal (v : Val) (rest : Bytes) (hw : wfVal v = true) (hd : depthVal v ≤ maxDepth) :
    decodeVal (encodeVal v ++ rest) = some (sortVal v, rest) := by
  unfold encodeVal
  exact decodeVal_encodeRaw (sortVal v) rest (wfVal_sortVal v hw) (by rw [depthVal_sortVal]; exact hd)

/-- the block-level decoder (`dagcbor.Decode` of a whole payload) -/
theorem decodeBlock_encodeVal (v : Val) (hw : wfVal v = true) (hd : depthVal v ≤ maxDepth)
    (hc : cost v ≤ defaultBudget) : decodeBlock (encodeVal v) = some (sortVal v) := by
  unfold decodeBlock
  have := decodeVal_encodeVal v [] hw hd
  simp only [List.append_nil] at this
  rw [this]
  simp [cost_sortVal, hc]

end GS.Cbor
