import GS.Model.Responder
/-! C03 — responder output mirrors its own selector traversal (theorems follow). -/
namespace GS.C03
end GS.C03
