import GSProofs.Lemmas.MsgQueueLog
/-!
# Message queue: every step extends the allocator history faithfully and keeps "reserved before built"
-/
namespace GS.MQ
open GS.Alloc

/-- `buildMessage`: the history part, and the invariant given that the reservation was granted -/
theorem buildMessage_ext (pick : Pick) (s : State) (ticket : Nat) (tx : Tx) (size : Nat) :
    Hist pick s (s.buildMessage pick ticket tx size) ∧
    (RFW s → (size > 0 → ∃ a, Event.mem (.granted s.peer ticket a) ∈ s.log) →
      RFW (s.buildMessage pick ticket tx size)) := by
  unfold State.buildMessage
  generalize hs0 : (if shouldBegin s.builders size = true
      then { s with builders := s.builders ++ [{ topic := s.nextTopic }], nextTopic := s.nextTopic + 1 }
      else s) = s0
  have e0 : Ext pick s s0 ∧ s0.log = s.log ∧ s0.peer = s.peer := by
    subst hs0; split
    · exact ⟨Ext.fields pick rfl rfl rfl rfl, rfl, rfl⟩
    · exact ⟨Ext.refl pick s, rfl, rfl⟩
  obtain ⟨e0, hlog0, hpeer0⟩ := e0
  simp only
  cases hlast : s0.builders.getLast? with
  | none => exact ⟨e0.toHist, fun r _ => e0.rfw r⟩
  | some b =>
    simp only
    generalize runFn s0.closedStreams b tx = b'
    generalize hs1 : ({ s0 with builders := setLast s0.builders b' } : State).emit
        [Event.built ticket b.topic size (b'.accounted - b.accounted)] = s1
    have h1 : Hist pick s0 s1 := by
      subst hs1
      refine ⟨rfl, ⟨[], rfl, ?_⟩, ⟨_, rfl⟩⟩
      show memOf (s0.log ++ [Event.built ticket b.topic size (b'.accounted - b.accounted)]) = _
      rw [memOf_append]; simp [memOf, Alloc.run]
    have r1 : RFW s0 → (size > 0 → ∃ a, Event.mem (.granted s.peer ticket a) ∈ s.log) → RFW s1 := by
      subst hs1
      intro r hg
      refine ⟨?_, ?_⟩
      · intro t topic sz used hm hs
        have hm' : Event.built t topic sz used ∈ s0.log ++ [Event.built ticket b.topic size (b'.accounted - b.accounted)] := hm
        rcases List.mem_append.mp hm' with hm' | hm'
        · obtain ⟨a, ha⟩ := r.built t topic sz used hm' hs
          exact ⟨a, List.mem_append_left _ ha⟩
        · simp only [List.mem_singleton, Event.built.injEq] at hm'
          obtain ⟨rfl, _, rfl, _⟩ := hm'
          obtain ⟨a, ha⟩ := hg hs
          exact ⟨a, List.mem_append_left _ (by rw [hlog0, hpeer0]; exact ha)⟩
      · intro w hw hans
        obtain ⟨a, ha⟩ := r.answered w hw hans
        exact ⟨a, List.mem_append_left _ ha⟩
    have e2 : Ext pick s1 (if b'.accounted ≥ b.accounted ∧ b'.accounted - b.accounted < size
          then s1.release pick (size - (b'.accounted - b.accounted)) else s1) := by
      split
      · exact release_ext _ _ _
      · exact Ext.refl _ _
    generalize (if b'.accounted ≥ b.accounted ∧ b'.accounted - b.accounted < size
          then s1.release pick (size - (b'.accounted - b.accounted)) else s1) = s2 at e2
    have h3 : Hist pick s s2 := (e0.toHist.trans h1).trans e2.toHist
    have r3 : RFW s → (size > 0 → ∃ a, Event.mem (.granted s.peer ticket a) ∈ s.log) → RFW s2 :=
      fun r hg => e2.rfw (r1 (e0.rfw r) hg)
    split
    · have e4 : Ext pick s2 ({ s2 with token := true } : State) := Ext.fields pick rfl rfl rfl rfl
      exact ⟨h3.trans e4.toHist, fun r hg => e4.rfw (r3 r hg)⟩
    · exact ⟨h3, r3⟩

/-! ## the queue goroutine -/

theorem extract_ext (pick : Pick) (s : State) : Ext pick s s.extract.1 := by
  unfold State.extract
  cases dropEmpty s.builders with
  | nil => exact Ext.fields pick rfl rfl rfl rfl
  | cons b rest =>
    show Ext pick s (({ s with builders := rest, token := s.token || !rest.isEmpty } : State).subscribe b.topic (dedupSubs b.subs))
    have e0 : Ext pick s ({ s with builders := rest, token := s.token || !rest.isEmpty } : State) := Ext.fields pick rfl rfl rfl rfl
    exact e0.trans (subscribe_ext pick _ _ _)

theorem publishError_ext (pick : Pick) (s : State) (m : InFlight) : Ext pick s (s.publishError pick m) := by
  unfold State.publishError
  have e1 : Ext pick s ({ s with closedStreams := m.streams.foldl (fun acc r => if acc.contains r then acc else acc ++ [r]) s.closedStreams } : State) :=
    Ext.fields pick rfl rfl rfl rfl
  generalize ({ s with closedStreams := m.streams.foldl (fun acc r => if acc.contains r then acc else acc ++ [r]) s.closedStreams } : State) = s1 at e1
  simp only
  have e2 : Ext pick s1 (s1.emit (m.streams.map Event.streamClosed)) :=
    emit_ext pick _ _ (by intro e he; obtain ⟨x, _, rfl⟩ := List.mem_map.mp he; rfl)
      (by intro e he; obtain ⟨x, _, rfl⟩ := List.mem_map.mp he; rfl)
  generalize s1.emit (m.streams.map Event.streamClosed) = s2 at e2
  generalize scrubAll m.streams s2.builders = sc
  obtain ⟨bs, freed⟩ := sc
  simp only
  have e3 : Ext pick s2 ({ s2 with builders := bs } : State) := Ext.fields pick rfl rfl rfl rfl
  generalize ({ s2 with builders := bs } : State) = s3 at e3
  have e4 : Ext pick s3 (if freed > 0 then s3.release pick freed else s3) := by
    split
    · exact release_ext _ _ _
    · exact Ext.refl _ _
  generalize (if freed > 0 then s3.release pick freed else s3) = s4 at e4
  exact ((((e1.trans e2).trans e3).trans e4).trans (publish_ext pick s4 m.topic Kind.error)).trans (release_ext pick _ _)

theorem publishSent_ext (pick : Pick) (s : State) (m : InFlight) : Ext pick s (s.publishSent pick m) := by
  unfold State.publishSent
  exact (publish_ext pick s m.topic Kind.sent).trans (release_ext pick _ _)

theorem finish_ext (pick : Pick) (s : State) (m : InFlight) : Ext pick s (s.finish m) := by
  unfold State.finish
  exact (closeTopic_ext pick s m.topic).trans (Ext.fields pick rfl rfl rfl rfl)

theorem attempt_ext (pick : Pick) (s : State) (m : InFlight) (i : Nat) : Ext pick s (s.attempt pick m i) := by
  unfold State.attempt
  split
  · exact (emit_ext pick s [Event.wire m.topic i] (by intro e he; simp at he; subst he; rfl)
      (by intro e he; simp at he; subst he; rfl)).trans (Ext.fields pick rfl rfl rfl rfl)
  · exact (publishError_ext pick s m).trans (finish_ext pick _ m)

theorem drain_ext (pick : Pick) : ∀ (fuel : Nat) (s : State), Ext pick s (State.drain pick fuel s)
  | 0, s => Ext.refl pick s
  | fuel + 1, s => by
    unfold State.drain
    have e0 := extract_ext pick s
    cases he : s.extract with
    | mk s' om =>
      rw [he] at e0
      cases om with
      | none => exact e0
      | some m =>
        simp only
        exact ((e0.trans (publishError_ext pick s' m)).trans (closeTopic_ext pick _ _)).trans (drain_ext pick fuel _)

/-- `buildMessage` as seen by callers -/
theorem buildMsg_ext (pick : Pick) (s : State) (ticket : Nat) (tx : Tx) (size : Nat) :
    Hist pick s (s.buildMsg pick ticket tx size) ∧
    (RFW s → (size > 0 → ∃ a, Event.mem (.granted s.peer ticket a) ∈ s.log) →
      RFW (s.buildMsg pick ticket tx size)) := by
  obtain ⟨h, r⟩ := buildMessage_ext pick s ticket tx size
  unfold State.buildMsg
  split
  · have e := drain_ext pick 1 (s.buildMessage pick ticket tx size)
    exact ⟨h.trans e.toHist, fun x hg => e.rfw (r x hg)⟩
  · exact ⟨h, r⟩

theorem buildWith_ext (pick : Pick) (s : State) (tx : Tx) (size : Nat) : Ext pick s (buildWith pick s tx size) := by
  unfold buildWith
  simp only
  have e0 : Ext pick s ({ s with nextTicket := s.nextTicket + 1 } : State) := Ext.fields pick rfl rfl rfl rfl
  split
  · obtain ⟨h, r⟩ := buildMsg_ext pick ({ s with nextTicket := s.nextTicket + 1 } : State) s.nextTicket tx 0
    exact ⟨e0.toHist.trans h, fun x => r (e0.rfw x) (by intro h'; exact absurd h' (Nat.lt_irrefl 0))⟩
  · have e1 := allocStep_ext pick ({ s with nextTicket := s.nextTicket + 1 } : State) (.alloc s.peer size s.nextTicket)
    split
    · next hc =>
      obtain ⟨h, r⟩ := buildMsg_ext pick
        (State.allocStep pick ({ s with nextTicket := s.nextTicket + 1 } : State) (.alloc s.peer size s.nextTicket)).1 s.nextTicket tx size
      refine ⟨(e0.toHist.trans e1.toHist).trans h, fun x => r (e1.rfw (e0.rfw x)) ?_⟩
      intro _
      refine ⟨size, ?_⟩
      have hc' : (Alloc.step pick s.alloc (.alloc s.peer size s.nextTicket)).2.contains
          (Alloc.Event.granted s.peer s.nextTicket size) = true := hc
      have hmem : Alloc.Event.granted s.peer s.nextTicket size ∈ (Alloc.step pick s.alloc (.alloc s.peer size s.nextTicket)).2 := by
        simpa using hc'
      show Event.mem (.granted s.peer s.nextTicket size) ∈ s.log ++ (Alloc.step pick s.alloc (.alloc s.peer size s.nextTicket)).2.map Event.mem
      exact List.mem_append_right _ (List.mem_map.mpr ⟨_, hmem, rfl⟩)
    · refine (e0.trans e1).trans ?_
      refine ⟨⟨rfl, ⟨[], rfl, by simp [Alloc.run]⟩, ⟨[], by simp⟩⟩, ?_⟩
      intro r
      refine ⟨r.built, ?_⟩
      intro w hw hans
      rcases List.mem_append.mp hw with hw | hw
      · exact r.answered w hw hans
      · simp at hw; subst hw; cases hans

theorem build_ext (pick : Pick) (s : State) (tx : Tx) : Ext pick s (s.build pick tx) := by
  rw [build_eq]; split
  · exact Ext.refl pick s
  · exact buildWith_ext _ _ _ _

theorem wake_ext (pick : Pick) (s : State) (t : Nat) : Ext pick s (s.wake pick t) := by
  unfold State.wake
  cases hf : s.waiters.find? (fun w => w.ticket == t && w.answer.isSome) with
  | none => exact Ext.refl pick s
  | some w =>
    simp only
    have hwm : w ∈ s.waiters := List.mem_of_find?_eq_some hf
    have e0 : Ext pick s ({ s with waiters := s.waiters.filter (·.ticket != w.ticket) } : State) := by
      refine ⟨⟨rfl, ⟨[], rfl, by simp [Alloc.run]⟩, ⟨[], by simp⟩⟩, ?_⟩
      intro r
      exact ⟨r.built, fun x hx hans => r.answered x (List.mem_filter.mp hx).1 hans⟩
    split
    · next hans =>
      have hans' : w.answer = some true := by simpa using hans
      obtain ⟨h, r⟩ := buildMsg_ext pick ({ s with waiters := s.waiters.filter (·.ticket != w.ticket) } : State) w.ticket w.tx w.size
      exact ⟨e0.toHist.trans h, fun x => r (e0.rfw x) (fun _ => x.answered w hwm hans')⟩
    · exact e0.trans (emit_ext pick _ _ (by intro e he; simp at he; subst he; rfl) (by intro e he; simp at he; subst he; rfl))

theorem run_ext (pick : Pick) (s : State) (pw : Bool) : Ext pick s (s.run pick pw) := by
  obtain ⟨peer, maxRetries, builders, nextTopic, token, done, sender, pc, closedStreams, waiters,
    nextTicket, topics, pubClosed, alloc, log⟩ := s
  cases pc with
  | idle =>
    unfold State.run
    simp only
    split
    · have e0 : Ext pick (⟨peer, maxRetries, builders, nextTopic, token, done, sender, .idle, closedStreams, waiters,
          nextTicket, topics, pubClosed, alloc, log⟩ : State)
          (⟨peer, maxRetries, builders, nextTopic, false, done, sender, .idle, closedStreams, waiters,
          nextTicket, topics, pubClosed, alloc, log⟩ : State) := Ext.fields pick rfl rfl rfl rfl
      have e1 := extract_ext pick (⟨peer, maxRetries, builders, nextTopic, false, done, sender, .idle, closedStreams, waiters,
          nextTicket, topics, pubClosed, alloc, log⟩ : State)
      cases he : (⟨peer, maxRetries, builders, nextTopic, false, done, sender, .idle, closedStreams, waiters,
          nextTicket, topics, pubClosed, alloc, log⟩ : State).extract with
      | mk s' om =>
        rw [he] at e1
        cases om with
        | none => exact e0.trans e1
        | some m =>
          have e2 := (e0.trans e1).trans (publish_ext pick s' m.topic Kind.queued)
          show Ext pick _ (if (s'.publish m.topic Kind.queued).sender = true then _ else _)
          split
          · exact e2.trans (attempt_ext pick _ m 0)
          · have e3 : Ext pick (s'.publish m.topic Kind.queued) ({ s'.publish m.topic Kind.queued with pc := .opening m none } : State) :=
              Ext.fields pick rfl rfl rfl rfl
            exact e2.trans e3
    · split
      · have key : ∀ s0 s1 : State, Ext pick s0 s1 → Ext pick s0 ({ (if s1.sender = true then s1.emit [Event.senderClosed] else s1) with pc := .exiting }) := by
          intro s0 s1 h1
          have e : Ext pick s1 (if s1.sender = true then s1.emit [Event.senderClosed] else s1) := by
            split
            · exact emit_ext pick _ _ (by intro e he; simp at he; subst he; rfl) (by intro e he; simp at he; subst he; rfl)
            · exact Ext.refl _ _
          have e' : Ext pick (if s1.sender = true then s1.emit [Event.senderClosed] else s1)
              ({ (if s1.sender = true then s1.emit [Event.senderClosed] else s1) with pc := .exiting } : State) :=
            Ext.fields pick rfl rfl rfl rfl
          exact (h1.trans e).trans e'
        exact key _ _ (drain_ext pick _ _)
      · exact Ext.refl pick _
  | opening m r => exact Ext.refl pick _
  | sending m i => exact Ext.refl pick _
  | resetting m i => exact Ext.refl pick _
  | exiting => exact Ext.refl pick _
  | exited => exact Ext.refl pick _

theorem pubShutdown_ext (pick : Pick) (s : State) : Ext pick s s.pubShutdown := by
  unfold State.pubShutdown; split
  · exact Ext.refl pick s
  · refine Ext.plain pick _ rfl ?_ ?_ rfl rfl rfl
    · intro e he
      obtain ⟨x, _, hx⟩ := List.mem_flatMap.mp he
      obtain ⟨y, _, rfl⟩ := List.mem_map.mp hx; rfl
    · intro e he
      obtain ⟨x, _, hx⟩ := List.mem_flatMap.mp he
      obtain ⟨y, _, rfl⟩ := List.mem_map.mp hx; rfl

theorem ack_ext (pick : Pick) (s : State) (ok : Bool) : Ext pick s (s.ack pick ok) := by
  obtain ⟨peer, maxRetries, builders, nextTopic, token, done, sender, pc, closedStreams, waiters,
    nextTicket, topics, pubClosed, alloc, log⟩ := s
  cases pc with
  | idle => exact Ext.refl pick _
  | exited => exact Ext.refl pick _
  | exiting =>
    unfold State.ack
    simp only
    have e1 := allocStep_ext pick (⟨peer, maxRetries, builders, nextTopic, token, done, sender, .exiting, closedStreams, waiters,
      nextTicket, topics, pubClosed, alloc, log⟩ : State) (.releasePeer peer)
    generalize (State.allocStep pick (⟨peer, maxRetries, builders, nextTopic, token, done, sender, .exiting, closedStreams, waiters,
      nextTicket, topics, pubClosed, alloc, log⟩ : State) (.releasePeer peer)).1 = s1 at e1
    have e3 : Ext pick s1 (s1.emit [Event.exitCallback]) :=
      emit_ext pick _ [Event.exitCallback] (by intro e he; simp at he; subst he; rfl) (by intro e he; simp at he; subst he; rfl)
    have e4 : Ext pick (s1.emit [Event.exitCallback]) ({ s1.emit [Event.exitCallback] with pc := .exited } : State) :=
      Ext.fields pick rfl rfl rfl rfl
    exact (e1.trans e3).trans e4
  | opening m r =>
    cases r with
    | none =>
      unfold State.ack
      simp only
      split
      · have e0 : Ext pick (⟨peer, maxRetries, builders, nextTopic, token, done, sender, .opening m none, closedStreams, waiters,
            nextTicket, topics, pubClosed, alloc, log⟩ : State)
            (⟨peer, maxRetries, builders, nextTopic, token, done, true, .opening m none, closedStreams, waiters,
            nextTicket, topics, pubClosed, alloc, log⟩ : State) := Ext.fields pick rfl rfl rfl rfl
        exact e0.trans (attempt_ext pick _ m 0)
      · have e1 := publishError_ext pick (⟨peer, maxRetries, builders, nextTopic, token, done, sender, .opening m none, closedStreams, waiters,
            nextTicket, topics, pubClosed, alloc, log⟩ : State) m
        generalize State.publishError pick _ m = s1 at e1
        have e2 : Ext pick s1 ({ s1 with done := true } : State) := Ext.fields pick rfl rfl rfl rfl
        exact (e1.trans e2).trans (finish_ext pick _ m)
    | some i =>
      unfold State.ack
      simp only
      split
      · have e0 : Ext pick (⟨peer, maxRetries, builders, nextTopic, token, done, sender, .opening m (some i), closedStreams, waiters,
            nextTicket, topics, pubClosed, alloc, log⟩ : State)
            (⟨peer, maxRetries, builders, nextTopic, token, done, true, .opening m (some i), closedStreams, waiters,
            nextTicket, topics, pubClosed, alloc, log⟩ : State) := Ext.fields pick rfl rfl rfl rfl
        exact e0.trans (attempt_ext pick _ m (i + 1))
      · exact (publishError_ext pick _ m).trans (finish_ext pick _ m)
  | sending m i =>
    unfold State.ack
    simp only
    split
    · exact (publishSent_ext pick _ m).trans (finish_ext pick _ m)
    · exact Ext.fields pick rfl rfl rfl rfl
  | resetting m i =>
    unfold State.ack
    simp only
    split
    · exact (publishError_ext pick _ m).trans (finish_ext pick _ m)
    · exact Ext.fields pick rfl rfl rfl rfl

theorem step_ext (pick : Pick) (s : State) (a : Act) : Ext pick s (step pick s a) := by
  cases a with
  | build tx => exact build_ext pick s tx
  | wake t => exact wake_ext pick s t
  | run pw => exact run_ext pick s pw
  | ack ok => exact ack_ext pick s ok
  | shutdown => exact Ext.fields pick rfl rfl rfl rfl
  | env op =>
    exact allocStep_ext pick s op

theorem runActs_ext (pick : Pick) (s : State) (acts : List Act) : Ext pick s (runActs pick s acts) := by
  unfold runActs
  induction acts generalizing s with
  | nil => exact Ext.refl pick s
  | cons a r ih => exact (step_ext pick s a).trans (ih _)

theorem init_RFW (peer mr mt mp : Nat) : RFW (init peer mr mt mp) :=
  ⟨by intro t topic size used h; simp [init] at h, by intro w h; simp [init] at h⟩

end GS.MQ
