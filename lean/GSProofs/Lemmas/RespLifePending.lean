import GSProofs.Lemmas.RespLifeAccMgr
/-!
No orphan pending topic: `NO s` — every pending task-queue topic has a response in the table.
One lemma per model function on the two projections `entOf` (is there an entry) and `pendOf`.
`Le s s'`: entries survive, pending topics only shrink — preserved by everything except `pushTask`
(only ever called with the entry present, or followed by `insertResp` in `newReqFinish`) and
`terminate` (needs: the id is pending nowhere).
-/
namespace GS.RespLife

def NO (s : State) : Prop := ∀ p id, id ∈ pendOf s p → (entOf s id).isSome = true

def Le (s s' : State) : Prop :=
  (∀ id, (entOf s id).isSome = true → (entOf s' id).isSome = true) ∧ (∀ p id, id ∈ pendOf s' p → id ∈ pendOf s p)

theorem Le.refl (s : State) : Le s s := ⟨fun _ h => h, fun _ _ h => h⟩
theorem Le.trans {a b c : State} (h1 : Le a b) (h2 : Le b c) : Le a c :=
  ⟨fun id h => h2.1 id (h1.1 id h), fun p id h => h1.2 p id (h2.2 p id h)⟩
theorem NO.le {s s' : State} (h : NO s) (hl : Le s s') : NO s' := fun p id hp => hl.1 id (h p id (hl.2 p id hp))

theorem le_of_eq {s s' : State} (he : entOf s' = entOf s) (hp : pendOf s' = pendOf s) : Le s s' :=
  ⟨fun id h => by rw [he]; exact h, fun p id h => by rw [hp] at h; exact h⟩

theorem le_of_acc {s s' : State} (h : acc s' = acc s) : Le s s' :=
  le_of_eq (congrArg Acc.ent h) (congrArg Acc.pend h)

theorem le_of_tq {s s' : State} (h1 : tcore s' = tcore s) (h2 : qcore s' = qcore s) : Le s s' := by
  apply le_of_eq
  · funext id; rw [entOf_tcore, entOf_tcore, h1]
  · funext p
    have a := getQ_qcore s' p
    have b := getQ_qcore s p
    rw [h2] at a
    exact congrArg Prod.fst (a.trans b.symm)

theorem le_setState (s : State) (id : Id) (st : RState) : Le s (setState s id st) := by
  refine ⟨fun id' h => ?_, fun _ _ h => h⟩
  rw [entOf_setState]
  split
  · cases hx : entOf s id' with
    | none => rw [hx] at h; cases h
    | some e => rfl
  · exact h

theorem le_modAux (s : State) (id : Id) (f : Aux → Aux) : Le s (modAux s id f) := by
  refine ⟨fun id' h => ?_, fun _ _ h => h⟩
  rw [entOf_modAux]
  split
  · cases hx : entOf s id' with
    | none => rw [hx] at h; cases h
    | some e => rfl
  · exact h

theorem ent_removeTask (s : State) (p : Peer) (id : Id) : entOf (removeTask s p id) = entOf s :=
  congrArg Acc.ent (acc_removeTask s p id)

theorem le_removeTask (s : State) (p : Peer) (id : Id) : Le s (removeTask s p id) := by
  refine ⟨fun id' h => by rw [ent_removeTask]; exact h, fun p' id' h => ?_⟩
  rw [pend_removeTask] at h
  split at h
  · rename_i hp; subst hp; exact (List.mem_filter.1 h).1
  · exact h

theorem notpend_removeTask (s : State) (p : Peer) (id : Id) : id ∉ pendOf (removeTask s p id) p := by
  intro h
  rw [pend_removeTask, if_pos rfl] at h
  have := (List.mem_filter.1 h).2
  simp at this

theorem le_taskDone (s : State) (p : Peer) (id : Id) : Le s (taskDone s p id) :=
  le_of_eq (congrArg Acc.ent (acc_taskDone s p id)) (by funext p'; exact pend_taskDone s p id p')

theorem le_insertResp (s : State) (r : Resp) : Le s (insertResp s r) := by
  refine ⟨fun id' h => ?_, fun _ _ h => h⟩
  rw [entOf_insertResp]
  split
  · rfl
  · exact h

theorem ent_pushTask (s : State) (p : Peer) (id : Id) (pri : Nat) : entOf (pushTask s p id pri) = entOf s := by
  have := congrArg Acc.ent (acc_pushTask s p id pri)
  split at this <;> exact this

theorem mem_pend_pushTask {s : State} {p : Peer} {id : Id} {pri : Nat} {p' : Peer} {id' : Id}
    (h : id' ∈ pendOf (pushTask s p id pri) p') : id' ∈ pendOf s p' ∨ id' = id := by
  rw [pend_pushTask] at h
  split at h
  · rename_i hc
    rcases List.mem_append.1 h with h | h
    · left; rw [hc.1]; exact h
    · right; simpa using h
  · left; exact h

theorem no_pushTask {s : State} (h : NO s) {id : Id} (he : (entOf s id).isSome = true) (p : Peer) (pri : Nat) :
    NO (pushTask s p id pri) := by
  intro p' id' hp
  rw [ent_pushTask]
  rcases mem_pend_pushTask hp with h1 | h1
  · exact h p' id' h1
  · rw [h1]; exact he

theorem no_terminate {s : State} (h : NO s) {id : Id} (hn : ∀ p, id ∉ pendOf s p) : NO (terminate s id) := by
  cases he : entOf s id with
  | none => exact h.le (le_of_acc (acc_terminate_none he))
  | some e =>
    have ha := acc_terminate_some he
    intro p id' hp
    have hp' : id' ∈ pendOf s p := by
      have := congrArg Acc.pend ha
      have : pendOf (terminate s id) = pendOf s := this
      rw [this] at hp; exact hp
    have hne : id' ≠ id := fun e => hn p (e ▸ hp')
    have : entOf (terminate s id) id' = entOf s id' := by
      have := congrFun (congrArg Acc.ent ha) id'
      exact this.trans (fupd_other _ _ _ hne)
    rw [this]; exact h p id' hp'

theorem le_execTx {s s1 : State} {party : Party} {p : Peer} {id : Id} {ops : List TxOp} {ok : Bool}
    (h : execTx s party p id ops = (s1, ok)) : Le s s1 := le_of_acc (acc_execTx h)

theorem le_execTx1 (s : State) (party : Party) (p : Peer) (id : Id) (ops : List TxOp) :
    Le s (execTx s party p id ops).1 := le_execTx (s1 := (execTx s party p id ops).1) (ok := (execTx s party p id ops).2) rfl

-- ------------------------------------------------------------------ manager handlers
theorem no_abortRequest {s : State} (h : NO s) (id : Id) (err : Sig)
    (hown : ∀ r, lookup s id = some r → ∀ p, p ≠ r.peer → id ∉ pendOf s p) : NO (abortRequest s id err).1 := by
  unfold abortRequest
  split
  · exact h
  · rename_i r hl
    have hle := le_removeTask s r.peer id
    have h1 : NO (removeTask s r.peer id) := h.le hle
    have hn : ∀ p, id ∉ pendOf (removeTask s r.peer id) p := by
      intro p
      by_cases hp : p = r.peer
      · subst hp; exact notpend_removeTask s _ id
      · exact fun hx => hown r hl p hp (hle.2 p id hx)
    simp only
    split
    · exact h1
    · split
      · cases err with
        | ctxCancel => exact no_terminate h1 hn
        | network => exact no_terminate h1 hn
        | cancelCmd => exact h1.le ((le_setState _ id .completing).trans (le_execTx1 _ _ _ _ _))
      · exact h1.le (le_modAux _ _ _)

theorem no_unpauseFinish {s : State} (h : NO s) (id : Id) : NO (unpauseFinish s id) := by
  unfold unpauseFinish
  split
  · exact h
  · rename_i r hl
    have he : (entOf s id).isSome = true := by
      have := entOf_lookup hl
      show ((acc s).ent id).isSome = true
      rw [this]; rfl
    exact no_pushTask h he _ _

theorem no_unpauseRequest {s : State} (h : NO s) (id : Id) (ext : Bool) : NO (unpauseRequest s id ext).1 := by
  unfold unpauseRequest
  split
  · exact h
  · split
    · exact h
    · have h1 : NO (setState (modAux s id fun a => { a with sigPause := false }) id .queued) :=
        h.le ((le_modAux _ _ _).trans (le_setState _ _ _))
      split
      · simp only
        generalize hx : execTx _ Party.mgr _ id [TxOp.ext] = pr
        obtain ⟨s2, ok⟩ := pr
        have h2 : NO s2 := h1.le (le_execTx hx)
        simp only
        split
        · exact no_unpauseFinish h2 id
        · exact h2
      · exact no_unpauseFinish h1 id

theorem no_procUpdateFinish {s : State} (h : NO s) (id : Id) (plan : UP) : NO (procUpdateFinish s id plan) := by
  unfold procUpdateFinish
  split
  · exact h
  · split
    · exact h.le (le_setState _ _ _)
    · split
      · exact no_unpauseRequest h id false
      · exact h

theorem no_processUpdate {s : State} (h : NO s) (id : Id) (plan : UP) : NO (processUpdate s id plan) := by
  unfold processUpdate
  split
  · exact h
  · split
    · exact h
    · split
      · exact h.le (le_modAux _ _ _)
      · simp only
        generalize hx : execTx s Party.mgr _ id _ = pr
        obtain ⟨s1, ok⟩ := pr
        have h1 : NO s1 := h.le (le_execTx hx)
        simp only
        split
        · exact no_procUpdateFinish h1 id plan
        · exact h1

theorem no_updateRequest {s : State} (h : NO s) (id : Id) (ext : Bool) : NO (updateRequest s id ext).1 := by
  unfold updateRequest
  split
  · exact h
  · simp only
    generalize hx : execTx s Party.mgr _ id _ = pr
    obtain ⟨s1, ok⟩ := pr
    have h1 : NO s1 := h.le (le_execTx hx)
    simp only
    split
    · exact h1
    · exact h1

theorem no_newReqFinish {s : State} (h : NO s) (p : Peer) (id : Id) (cfg : ReqCfg) : NO (newReqFinish s p id cfg) := by
  unfold newReqFinish
  split
  · exact h.le (le_insertResp _ _)
  · exact h.le (le_insertResp _ _)
  · exact h.le (le_insertResp _ _)
  · intro p' id' hp
    have hp' : id' ∈ pendOf (pushTask s p id cfg.pri) p' := hp
    rw [entOf_insertResp]
    split
    · rfl
    · rename_i hne
      rcases mem_pend_pushTask hp' with h1 | h1
      · rw [ent_pushTask]; exact h p' id' h1
      · exact absurd h1 hne

theorem no_newRequest {s : State} (h : NO s) (p : Peer) (id : Id) (cfg : ReqCfg) : NO (newRequest s p id cfg) := by
  unfold newRequest
  simp only
  have h0 : NO (openStream (protect s p id) id) := h
  generalize openStream (protect s p id) id = s2 at h0
  generalize hx : execTx s2 Party.mgr p id (prepareOps cfg.hook) = pr
  obtain ⟨s3, ok⟩ := pr
  have h3 : NO s3 := h0.le (le_execTx hx)
  simp only
  split
  · exact no_newReqFinish h3 p id cfg
  · exact h3

theorem no_startTask {s : State} (h : NO s) (w : Nat) : NO (startTask s w) := by
  unfold startTask
  split
  · exact h
  · rename_i wk _
    split
    · exact h.le (le_taskDone s wk.peer wk.id)
    · rename_i r _
      split
      · exact h.le (le_taskDone s wk.peer wk.id)
      · simp only
        split
        · exact h.le ((le_modAux _ _ _).trans (le_setState _ _ _))
        · have h1 : NO (emit s (.proc r.id)) := h
          exact h1.le ((le_modAux _ _ _).trans (le_setState _ _ _))

theorem no_getUpdates {s : State} (h : NO s) (w : Nat) : NO (getUpdates s w) := by
  unfold getUpdates
  split
  · exact h
  · split
    · split
      · exact h
      · rename_i r _
        have h2 : NO (modAux s r.id fun a => { a with updates := [] }) := h.le (le_modAux _ _ _)
        exact h2
    · exact h

theorem lookup_taskDone (s : State) (p : Peer) (id id' : Id) : lookup (taskDone s p id) id' = lookup s id' := by
  unfold taskDone; split <;> rfl

theorem no_finishTask {s : State} (h : NO s) (w : Nat) (err : Option WErr)
    (hnp : ∀ wk r, workerOf s w = some wk → lookup s wk.id = some r → ∀ p, wk.id ∉ pendOf s p) :
    NO (finishTask s w err) := by
  unfold finishTask
  split
  · exact h
  · rename_i wk hw
    have hle : Le s (setPhase (taskDone s wk.peer wk.id) w .done) := le_taskDone s wk.peer wk.id
    have h1 : NO (setPhase (taskDone s wk.peer wk.id) w .done) := h.le hle
    simp only
    split
    · exact h1
    · rename_i r hl
      have hl0 : lookup s wk.id = some r := by
        have : lookup (setPhase (taskDone s wk.peer wk.id) w .done) wk.id = lookup s wk.id := lookup_taskDone s _ _ _
        rw [← this]; exact hl
      have hid : r.id = wk.id := by
        have := List.find?_some hl0
        simpa using this
      have hn : ∀ p, r.id ∉ pendOf (setPhase (taskDone s wk.peer wk.id) w .done) p := by
        intro p hx
        rw [hid] at hx
        exact hnp wk r hw hl0 p (hle.2 p _ hx)
      have he : (entOf (setPhase (taskDone s wk.peer wk.id) w .done) r.id).isSome = true := by
        have := entOf_lookup hl
        rw [hid]
        show ((acc _).ent wk.id).isSome = true
        rw [this]; rfl
      split
      · split
        · exact no_pushTask h1 he _ _
        · exact h1
      · split
        · exact no_terminate h1 hn
        · split
          · exact h1.le (le_setState _ _ _)
          · split
            · have h2 : NO (emit (setPhase (taskDone s wk.peer wk.id) w .done) (.canc r.id)) := h1
              exact no_terminate h2 hn
            · split
              · exact no_terminate h1 hn
              · exact h1.le (le_setState _ _ _)

-- ------------------------------------------------------------------ one mailbox message
theorem no_handle {s : State} (h : NO s) (m : Msg)
    (hown : ∀ id r, lookup s id = some r → ∀ p, p ≠ r.peer → id ∉ pendOf s p)
    (hfin : ∀ w err, m = .finishTask w err → ∀ wk r, workerOf s w = some wk → lookup s wk.id = some r →
      ∀ p, wk.id ∉ pendOf s p)
    (hterm : ∀ id inc pub, m = .terminate id inc pub → isInc s id inc = true → ∀ p, id ∉ pendOf s p) :
    NO (handle s m) := by
  cases m with
  | processRequests p r =>
    show NO (if foreign s p r.id = true then s else processRequest s p r)
    split
    · exact h
    · cases r with
      | new id cfg => exact no_newRequest h p id cfg
      | cancel id => exact no_abortRequest h id .ctxCancel (hown id)
      | update id plan => exact no_processUpdate h id plan
  | api c =>
    cases c with
    | pause id =>
      show NO (emit (pauseRequest s id).1 _)
      exact h.le (le_of_acc (acc_pauseRequest s id))
    | unpause id ext =>
      show NO (if (unpauseRequest s id ext).2.2 = true then (unpauseRequest s id ext).1
        else emit (unpauseRequest s id ext).1 _)
      split
      · exact no_unpauseRequest h id ext
      · exact no_unpauseRequest h id ext
    | cancel id =>
      show NO (emit (abortRequest s id .cancelCmd).1 _)
      exact no_abortRequest h id .cancelCmd (hown id)
    | update id ext =>
      show NO (if (updateRequest s id ext).2.2 = true then (updateRequest s id ext).1
        else emit (updateRequest s id ext).1 _)
      split
      · exact no_updateRequest h id ext
      · exact no_updateRequest h id ext
  | startTask w => exact no_startTask h w
  | getUpdates w => exact no_getUpdates h w
  | finishTask w err => exact no_finishTask h w err (hfin w err rfl)
  | closeNetErr id inc pub =>
    have h1 : NO (abortRequest s id .network).1 := no_abortRequest h id .network (hown id)
    rw [handle_closeNetErr]
    split
    · split
      · exact h1
      · exact h1
    · exact h
  | terminate id inc pub =>
    rw [handle_terminate]
    show NO (if isInc s id inc = true then terminate s id else s)
    split
    · rename_i hi; exact no_terminate h (hterm id inc pub rfl hi)
    · exact h

theorem no_resumeMgr {s : State} (h : NO s) (pk : MgrPark) : NO (resumeMgr s pk) := by
  have h1 : NO (buildNow { s with park := none } .mgr pk.peer pk.id pk.ops) :=
    h.le (le_of_eq (congrArg Acc.ent (acc_unpark_buildNow s pk.peer pk.id pk.ops))
      (congrArg Acc.pend (acc_unpark_buildNow s pk.peer pk.id pk.ops)))
  unfold resumeMgr
  simp only
  split
  · exact no_newReqFinish h1 _ _ _
  · exact no_procUpdateFinish h1 _ _
  · exact no_unpauseFinish h1 _
  · exact h1

/-- a Terminate message (publisher → manager, after a terminal status went out) never meets a response whose task
    is still PENDING in a task queue.  (The response it meets is Running — executor parked before FinishTask — or
    CompletingSend; this needs the coupling between terminal statuses in builders / publisher queues and the
    response state, which is not an invariant proved so far.) -/
def TermStep (s : State) : Action → Prop
  | .mgr => s.park = none → ∀ id inc pub rest, s.mailbox = .terminate id inc pub :: rest → isInc s id inc = true →
      ∀ p, id ∉ pendOf s p
  | _ => True

theorem wk_acc {s : State} {w : Nat} {wk : Worker} (hw : workerOf s w = some wk) :
    (acc s).wk[w]? = some (wk.peer, wk.id, wkind wk.phase) := by
  unfold workerOf at hw
  simp [acc, wcore, List.getElem?_map, hw]

theorem no_mgrStep {s s' : State} (h : NO s) (hi : LInv (acc s)) (ht : TermStep s .mgr) (hs : mgrStep s = some s') :
    NO s' := by
  unfold mgrStep at hs
  split at hs
  · rename_i pk hpk
    split at hs
    · cases hs; exact no_resumeMgr h pk
    · cases hs
  · rename_i hpk
    split at hs
    · cases hs
    · rename_i m rest hm
      cases hs
      have hown : ∀ id r, lookup s id = some r → ∀ p, p ≠ r.peer → id ∉ pendOf s p := by
        intro id r hl p hp hx
        exact hp (hi.ownP p id hx _ (entOf_lookup hl)).symm
      apply no_handle (s := { s with mailbox := rest, handled := s.handled + 1 }) h m hown
      · intro w err hmw wk r hw hl p hx
        subst hmw
        have hw' : workerOf s w = some wk := hw
        have hwf : w ∈ (acc s).fins := by
          show w ∈ fins s.mailbox
          rw [hm]; simp [fins]
        have hk := (hi.finsIff w).1 hwf
        have hwa := wk_acc hw'
        have hkk : wkind wk.phase = .waitFinish := by simpa [Acc.kindAt, hwa] using hk
        have hlive : (acc s).liveW w wk.peer wk.id := ⟨_, hwa, by rw [hkk]; simp⟩
        have hact : wk.id ∈ (acc s).act wk.peer := (hi.actLive wk.peer wk.id).2 ⟨w, hlive⟩
        have hl' : lookup s wk.id = some r := hl
        have hpeer : r.peer = wk.peer := hi.own w wk.peer wk.id hlive _ (entOf_lookup hl')
        by_cases hp : p = r.peer
        · rw [hp, hpeer] at hx
          exact hi.disj wk.peer wk.id hx hact
        · exact hown wk.id r hl' p hp hx
      · intro id inc pub hmt hinc
        subst hmt
        exact ht hpk id inc pub rest hm hinc

theorem no_step {s s' : State} {a : Action} (h : NO s) (hi : LInv (acc s)) (ht : TermStep s a)
    (hs : step s a = some s') : NO s' := by
  cases a with
  | recv p r => simp only [step, Option.some.injEq] at hs; subst hs; exact h
  | api c => simp only [step, Option.some.injEq] at hs; subst hs; exact h
  | mgr => exact no_mgrStep h hi ht hs
  | pop p id =>
    have h' : popTask s p id = some s' := hs
    obtain ⟨h1, _⟩ := acc_popTask h'
    refine h.le ⟨fun id' he => ?_, fun p' id' hx => ?_⟩
    · have : entOf s' = entOf s := congrArg Acc.ent h1
      rw [this]; exact he
    · have : pendOf s' p' = fupd (pendOf s) p ((pendOf s p).filter (· != id)) p' := congrFun (congrArg Acc.pend h1) p'
      rw [this] at hx
      unfold fupd at hx
      split at hx
      · rename_i hp; subst hp; exact (List.mem_filter.1 hx).1
      · exact hx
  | reap p => exact h.le (le_of_acc (acc_reap hs))
  | wstep w pick =>
    have h' : wstep s w pick = some s' := hs
    refine h.le (le_of_tq ?_ ?_)
    · rcases (wl_wstep h').1 with e | e | e <;> exact congrArg Li.tbl e
    · rcases (wl_wstep h').1 with e | e | e <;> exact congrArg Li.qs e
  | extract p =>
    have h' : extract s p = some s' := hs
    exact h.le (le_of_acc (acc_of_li_pi (li_extract h') (pi_extract h')))
  | net p ok =>
    have h' : netResolve s p ok = some s' := hs
    exact h.le (le_of_acc (acc_of_li_pi (li_netResolve h') (pi_netResolve h')))
  | pub p =>
    have h' : pubStep s p = some s' := hs
    exact h.le (le_of_acc (acc_of_li_pi (li_pubStep h') (pi_pubStep h')))
  | primer p =>
    simp only [step, Option.some.injEq] at hs; subst hs
    exact h.le (le_of_acc (acc_of_li_pi (li_primer s p) (pi_primer s p)))
  | thaw =>
    simp only [step, Option.some.injEq] at hs; subst hs
    exact h.le (le_of_acc (acc_of_li_pi (li_thawAll s) (pi_thawAll s)))

/-- drained ids, and no Terminate message meets a response with a pending task -/
inductive ReachableDT (c : Cfg) : State → Prop
  | init : ReachableDT c (init c)
  | step {s s' a} : ReachableDT c s → DrainStep s a → TermStep s a → step s a = some s' → ReachableDT c s'

theorem drained_of_dt {c : Cfg} {s : State} (h : ReachableDT c s) : ReachableDrained c s := by
  induction h with
  | init => exact ReachableDrained.init
  | step _ hd _ hs ih => exact ReachableDrained.step ih hd hs

/-- **no orphan pending topic** -/
theorem no_reachable {c : Cfg} {s : State} (h : ReachableDT c s) : NO s := by
  induction h with
  | init => intro p id hp; simp [pendOf, getQ, init] at hp
  | step hr _ ht hs ih => exact no_step ih (linv_reachable (drained_of_dt hr)).1 ht hs

end GS.RespLife
