import GSProofs.Lemmas.LinkTrackSpec
/-!
Refinement: on every history the model of `peerLinkTracker` and the naive specification
produce the same outputs, and the relation `R` between their states is an invariant.
-/
set_option linter.unusedSimpArgs false
namespace GS.LinkTrack
open PeerTracker

structure R (p : PeerTracker) (σ : Spec) : Prop where
  dk : ∀ r, aget p.dedupKeys r = σ.scope r
  nd : NodupKeys p.dedupKeys
  sc : ∀ r, aget p.sentCount r = σ.cnt r
  sk : ∀ r, aget p.skipFirst r = σ.skp r
  tr : ∀ s, Sim (p.scopeTracker s) (proj σ.wb s) (proj σ.ms s)
  al : ∀ k, (aget p.alts k).isSome = true ↔ ∃ r, σ.scope r = some k
  jw : ∀ e ∈ σ.wb, e.1 = σ.scope e.2.1
  jm : ∀ e ∈ σ.ms, e.1 = σ.scope e.2.1

theorem R_init : R init {} := by
  refine ⟨fun _ => rfl, nodupKeys_nil, fun _ => rfl, fun _ => rfl, ?_, ?_, ?_, ?_⟩
  · intro s; cases s <;> exact sim_empty
  · intro k; simp [init]
  · intro e he; simp at he
  · intro e he; simp at he

/-! ### frame lemmas for `setScopeTracker` -/

theorem scopeTracker_set (p : PeerTracker) (s : Option Key) (T : LinkTracker) (s' : Option Key) :
    (p.setScopeTracker s T).scopeTracker s' = if s = s' then T else p.scopeTracker s' := by
  cases s with
  | none => cases s' <;> simp [setScopeTracker, scopeTracker]
  | some k =>
    cases s' with
    | none => simp [setScopeTracker, scopeTracker]
    | some k' =>
      simp only [setScopeTracker, scopeTracker, aget_aset]
      by_cases h : k = k' <;> simp [h]

theorem alts_set_isSome (p : PeerTracker) (s : Option Key) (T : LinkTracker) (k : Key) :
    (aget (p.setScopeTracker s T).alts k).isSome = (decide (s = some k) || (aget p.alts k).isSome) := by
  cases s with
  | none => simp [setScopeTracker]
  | some k' =>
    simp only [setScopeTracker, aget_aset]
    by_cases h : k' = k <;> simp [h]

@[simp] theorem set_dedupKeys (p : PeerTracker) (s : Option Key) (T : LinkTracker) :
    (p.setScopeTracker s T).dedupKeys = p.dedupKeys := by cases s <;> rfl
@[simp] theorem set_sentCount (p : PeerTracker) (s : Option Key) (T : LinkTracker) :
    (p.setScopeTracker s T).sentCount = p.sentCount := by cases s <;> rfl
@[simp] theorem set_skipFirst (p : PeerTracker) (s : Option Key) (T : LinkTracker) :
    (p.setScopeTracker s T).skipFirst = p.skipFirst := by cases s <;> rfl

/-- writing a tracker of a scope that some request refers to does not change which alt trackers exist. -/
theorem R.alts_set_isSome {p : PeerTracker} {σ : Spec} (h : R p σ) (r : Req) (T : LinkTracker) (k : Key) :
    (aget (p.setScopeTracker (σ.scope r) T).alts k).isSome = (aget p.alts k).isSome := by
  rw [GS.LinkTrack.alts_set_isSome]
  by_cases hs : σ.scope r = some k
  · have := (h.al k).2 ⟨r, hs⟩
    simp [hs, this]
  · simp [hs]

/-! ### field projections of the specification step -/

section proj
variable (σ : Spec) (r : Req)
@[simp] theorem ignore_scope (ls : List Link) : (σ.step (.ignore r ls)).1.scope = σ.scope := rfl
@[simp] theorem ignore_cnt (ls : List Link) : (σ.step (.ignore r ls)).1.cnt = σ.cnt := rfl
@[simp] theorem ignore_skp (ls : List Link) : (σ.step (.ignore r ls)).1.skp = σ.skp := rfl
@[simp] theorem ignore_wb (ls : List Link) :
    (σ.step (.ignore r ls)).1.wb = σ.wb ++ ls.map (fun l => (σ.scope r, r, l)) := rfl
@[simp] theorem ignore_ms (ls : List Link) : (σ.step (.ignore r ls)).1.ms = σ.ms := rfl
@[simp] theorem trav_scope (l : Link) (b : Bool) : (σ.step (.trav r l b)).1.scope = σ.scope := by
  cases b <;> rfl
@[simp] theorem trav_cnt (l : Link) (b : Bool) :
    (σ.step (.trav r l b)).1.cnt = upd σ.cnt r (some ((σ.cnt r).getD 0 + 1)) := by cases b <;> rfl
@[simp] theorem trav_skp (l : Link) (b : Bool) : (σ.step (.trav r l b)).1.skp = σ.skp := by
  cases b <;> rfl
@[simp] theorem trav_wb (l : Link) (b : Bool) :
    (σ.step (.trav r l b)).1.wb = if b then σ.wb ++ [(σ.scope r, r, l)] else σ.wb := by cases b <;> rfl
@[simp] theorem trav_ms (l : Link) (b : Bool) :
    (σ.step (.trav r l b)).1.ms = if b then σ.ms else σ.ms ++ [(σ.scope r, r, l)] := by cases b <;> rfl
theorem traverse_fst (p : PeerTracker) (l : Link) (b : Bool) :
    (p.traverse r l b).1 =
      { p.setScopeTracker (aget p.dedupKeys r) ((p.scopeTracker (aget p.dedupKeys r)).record r l b) with
        sentCount := aset p.sentCount r ((aget p.sentCount r).getD 0 + 1) } := by
  unfold traverse setTracker trackerOf
  simp only
  generalize aget p.dedupKeys r = s
  cases s <;> rfl
end proj

/-! ### one lemma per operation -/

theorem dedupKey_scopeTracker (p : PeerTracker) (r : Req) (k : Key) (s : Option Key) :
    (p.dedupKey r k).scopeTracker s = p.scopeTracker s := by
  cases s with
  | none => rfl
  | some k' =>
    simp only [dedupKey, scopeTracker]
    cases hk : aget p.alts k with
    | some T => simp
    | none =>
      simp only [Option.isSome_none, Bool.false_eq_true, if_false, aget_aset]
      by_cases hkk : k = k'
      · subst hkk; simp [hk]
      · simp [hkk]

theorem dedupKey_alts_isSome (p : PeerTracker) (r : Req) (k k' : Key) :
    (aget (p.dedupKey r k).alts k').isSome = (decide (k = k') || (aget p.alts k').isSome) := by
  simp only [dedupKey]
  cases hk : aget p.alts k with
  | some T =>
    by_cases hkk : k = k'
    · subst hkk; simp [hk]
    · simp [hkk]
  | none =>
    simp only [Option.isSome_none, Bool.false_eq_true, if_false, aget_aset]
    by_cases hkk : k = k' <;> simp [hkk]

theorem R_ignore {p : PeerTracker} {σ : Spec} (h : R p σ) (r : Req) (ls : List Link) :
    R (p.ignoreBlocks r ls) (σ.step (.ignore r ls)).1 := by
  unfold ignoreBlocks setTracker trackerOf
  rw [h.dk r]
  refine ⟨?_, ?_, ?_, ?_, ?_, ?_, ?_, ?_⟩
  · simpa using h.dk
  · simpa using h.nd
  · simpa using h.sc
  · simpa using h.sk
  · intro s
    rw [scopeTracker_set]
    simp only [ignore_wb, ignore_ms, proj_append, proj_map]
    by_cases hs : σ.scope r = s
    · subst hs; simp only [if_true]; exact sim_foldl_record_true (h.tr _) r ls
    · simp only [hs, if_false, List.append_nil]; exact h.tr s
  · intro k
    rw [h.alts_set_isSome]; exact h.al k
  · intro e he
    simp only [ignore_wb, ignore_scope, List.mem_append, List.mem_map] at he ⊢
    rcases he with he | ⟨l, _, rfl⟩
    · exact h.jw e he
    · rfl
  · simpa using h.jm

theorem R_skip {p : PeerTracker} {σ : Spec} (h : R p σ) (r : Req) (n : Int) :
    R (p.skipFirstBlocks r n) (σ.step (.skip r n)).1 := by
  refine ⟨h.dk, h.nd, h.sc, ?_, h.tr, h.al, h.jw, h.jm⟩
  intro r'
  simp only [skipFirstBlocks, aget_aset, Spec.step, upd]
  by_cases hr : r = r'
  · subst hr; simp
  · have : ¬ r' = r := fun h2 => hr h2.symm
    simp [hr, this, h.sk r']

theorem R_trav {p : PeerTracker} {σ : Spec} (h : R p σ) (r : Req) (l : Link) (b : Bool) :
    R (p.traverse r l b).1 (σ.step (.trav r l b)).1 ∧
    (step p (.trav r l b)).2 = (σ.step (.trav r l b)).2 := by
  have hc : (aget p.sentCount r).getD 0 = (σ.cnt r).getD 0 := by rw [h.sc r]
  have hu : ((p.scopeTracker (σ.scope r)).blockRefCount l == 0) = !σ.inUse (σ.scope r) l := by
    rw [(h.tr (σ.scope r)).blockRefCount l]
    unfold Spec.inUse
    cases hany : σ.wb.any (fun e => e.1 == σ.scope r && e.2.2 == l)
    · simp [(cntOf_proj_eq_zero_iff σ.wb (σ.scope r) l).2 hany]
    · have : ¬ cntOf (proj σ.wb (σ.scope r)) l = 0 := by
        intro h0; rw [(cntOf_proj_eq_zero_iff σ.wb (σ.scope r) l).1 h0] at hany; simp at hany
      simp [this]
  constructor
  · rw [traverse_fst, h.dk r]
    refine ⟨?_, ?_, ?_, ?_, ?_, ?_, ?_, ?_⟩
    · simpa using h.dk
    · simpa using h.nd
    · intro r'
      simp only [aget_aset, trav_cnt, upd, hc]
      by_cases hr : r = r'
      · subst hr; simp
      · have : ¬ r' = r := fun h2 => hr h2.symm
        simp [hr, this, h.sc r']
    · simpa using h.sk
    · intro s
      have : ∀ q : PeerTracker, ∀ x, ({ q with sentCount := x } : PeerTracker).scopeTracker s = q.scopeTracker s := by
        intro q x; cases s <;> rfl
      rw [this, scopeTracker_set]
      simp only [trav_wb, trav_ms]
      cases b with
      | true =>
        simp only [if_true, proj_append, proj_single]
        by_cases hs : σ.scope r = s
        · subst hs; simp only [if_true]; exact sim_record_true (h.tr _) r l
        · simp only [hs, if_false, List.append_nil]; exact h.tr s
      | false =>
        simp only [Bool.false_eq_true, if_false, proj_append, proj_single]
        by_cases hs : σ.scope r = s
        · subst hs; simp only [if_true]; exact sim_record_false (h.tr _) r l
        · simp only [hs, if_false, List.append_nil]; exact h.tr s
    · intro k
      simp only [trav_scope]
      rw [h.alts_set_isSome]; exact h.al k
    · intro e he
      simp only [trav_wb, trav_scope] at he ⊢
      cases b with
      | true =>
        simp only [if_true, List.mem_append, List.mem_singleton] at he
        rcases he with he | rfl
        · exact h.jw e he
        · rfl
      | false => exact h.jw e (by simpa using he)
    · intro e he
      simp only [trav_ms, trav_scope] at he ⊢
      cases b with
      | true => exact h.jm e (by simpa using he)
      | false =>
        simp only [Bool.false_eq_true, if_false, List.mem_append, List.mem_singleton] at he
        rcases he with he | rfl
        · exact h.jm e he
        · rfl
  · simp only [step, traverse, trackerOf, Spec.step]
    rw [h.dk r, h.sk r, hc]
    have : ∀ x, ({ p with sentCount := x } : PeerTracker).scopeTracker (σ.scope r) = p.scopeTracker (σ.scope r) := by
      intro x; cases σ.scope r <;> rfl
    rw [this, hu]

end GS.LinkTrack
