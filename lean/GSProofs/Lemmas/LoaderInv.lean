import GS.Model.Loader
/-!
Invariants of the reconciled-loader model used by C01 (and C02/C24):

* `Inv` : every queued remote item that carries a block carries the block of its own link (the
  block maps handed to `ingest` are keyed by the true hash — `WellKeyed`, the guarantee of the wire
  decoder, C12), `lastConsumed` carries no block, and the local store is honest.
* `run_spec` : what one (re-)run of `blockReadOpener` can do to the store and what it may return.
-/
namespace GS.Loader

/-- a block map keyed by the true hash of its contents (content `b` hashes to CID `b`) -/
def WellKeyed (bl : List (Cid × Blk)) : Prop := ∀ k b, (k, b) ∈ bl → b = k

structure Inv (s : State) : Prop where
  items : ∀ it ∈ s.rq.q, ∀ b, it.block = some b → b = it.link
  last  : ∀ x, s.rq.last = some x → x.block = none
  store : ∀ c b, (c, b) ∈ s.store → b = c

theorem storeGet_mem {st : List (Cid × Blk)} {c : Cid} {b : Blk} (h : storeGet st c = some b) :
    (c, b) ∈ st := by
  unfold storeGet at h
  split at h
  · rename_i k b' hf
    have hm := List.mem_of_find?_eq_some hf
    have hk := List.find?_some hf
    simp at hk h
    subst h; subst hk; exact hm
  · simp at h

theorem Inv.init : Inv {} := by
  constructor <;> simp

/-! ### queue operations -/

theorem consume_q (rq : RQ) : ∃ k, rq.consume.q = rq.q.drop k := by
  unfold RQ.consume
  split
  · exact ⟨0, by simp [*]⟩
  · rename_i x rest h; exact ⟨1, by simp [h]⟩

theorem Inv.consume {s : State} (h : Inv s) : Inv { s with rq := s.rq.consume } := by
  constructor
  · intro it hit b hb
    simp only at hit
    unfold RQ.consume at hit
    split at hit
    · exact h.items it hit b hb
    · rename_i x rest hq
      simp only at hit
      exact h.items it (by rw [hq]; exact List.mem_cons_of_mem _ hit) b hb
  · intro x hx
    simp only at hx
    unfold RQ.consume at hx
    split at hx
    · exact h.last x hx
    · simp only [Option.some.injEq] at hx; subst hx; rfl
  · exact h.store

theorem Inv.retryLast {s : State} (h : Inv s) : Inv { s with rq := s.rq.retryLast } := by
  have hl := h.last
  constructor
  · intro it hit b hb
    simp only at hit
    unfold RQ.retryLast at hit
    split at hit
    · exact h.items it hit b hb
    · rename_i x hx
      have hxn := hl x hx
      split at hit
      · simp only [List.mem_cons] at hit
        rcases hit with rfl | hit
        · rw [hxn] at hb; cases hb
        · exact h.items it hit b hb
      · split at hit <;>
        · simp only [List.mem_singleton] at hit
          subst hit; rw [hxn] at hb; cases hb
  · intro x hx
    simp only at hx
    unfold RQ.retryLast at hx
    split at hx
    · exact hl x hx
    · split at hx
      · simp at hx
      · split at hx <;> simp at hx
  · exact h.store

theorem push_items (rq : RQ) (it : Item) (P : Item → Prop) (hq : ∀ x ∈ rq.q, P x) (hi : P it) :
    ∀ x ∈ (rq.push it).q, P x := by
  unfold RQ.push
  split
  · intro x hx; simp at hx; subst hx; exact hi
  · split
    · intro x hx
      simp only [List.mem_append, List.mem_singleton] at hx
      rcases hx with hx | rfl
      · exact hq x hx
      · exact hi
    · exact hq

theorem push_last (rq : RQ) (it : Item) : (rq.push it).last = rq.last := by
  unfold RQ.push; split <;> (try split) <;> rfl

theorem queue_items (items : List Item) (rq : RQ) (P : Item → Prop) (hq : ∀ x ∈ rq.q, P x)
    (hi : ∀ x ∈ items, P x) : ∀ x ∈ (rq.queue items).q, P x := by
  unfold RQ.queue
  induction items generalizing rq with
  | nil => simpa using hq
  | cons it rest ih =>
    simp only [List.foldl_cons]
    apply ih
    · exact push_items rq it P hq (hi it (List.mem_cons_self ..))
    · intro x hx; exact hi x (List.mem_cons_of_mem _ hx)

theorem queue_last (items : List Item) (rq : RQ) : (rq.queue items).last = rq.last := by
  unfold RQ.queue
  induction items generalizing rq with
  | nil => rfl
  | cons it rest ih => simp only [List.foldl_cons]; rw [ih, push_last]

theorem buildItems_go_ok (blocks : List (Cid × Blk)) (hwk : WellKeyed blocks)
    (md : List (Cid × Action)) (dups : List Cid) :
    ∀ it ∈ buildItems.go blocks md dups, ∀ b, it.block = some b → b = it.link := by
  induction md generalizing dups with
  | nil => intro it hit; simp [buildItems.go] at hit
  | cons m rest ih =>
    obtain ⟨l, a⟩ := m
    intro it hit b hb
    unfold buildItems.go at hit
    split at hit
    · simp only [List.mem_cons] at hit
      rcases hit with rfl | hit
      · simp only at hb
        exact hwk _ _ (storeGet_mem hb)
      · exact ih _ it hit b hb
    · simp only [List.mem_cons] at hit
      rcases hit with rfl | hit
      · simp at hb
      · exact ih _ it hit b hb

theorem Inv.ingest {s : State} (h : Inv s) (md : List (Cid × Action)) (blocks : List (Cid × Blk))
    (hwk : WellKeyed blocks) : Inv (ingest s md blocks) := by
  unfold Loader.ingest
  split
  · exact h
  · split
    · exact h
    · constructor
      · exact queue_items _ _ (fun it => ∀ b, it.block = some b → b = it.link) h.items
          (buildItems_go_ok blocks hwk md [])
      · intro x hx; simp only at hx; rw [queue_last] at hx; exact h.last x hx
      · exact h.store

theorem Inv.setOnline {s : State} (h : Inv s) (b : Bool) : Inv (setOnline s b) := by
  unfold Loader.setOnline
  dsimp only
  split
  · exact ⟨by simp [RQ.clear], by simp [RQ.clear], h.store⟩
  · exact ⟨h.items, h.last, h.store⟩

theorem Inv.cleanup {s : State} (h : Inv s) : Inv (cleanup s) := by
  unfold Loader.cleanup RQ.clear
  exact ⟨by simp, by simp, h.store⟩

theorem Inv.recordRemoteAttempt {s : State} (h : Inv s) (p : Path) (a : Action) :
    Inv (recordRemoteAttempt s p a) := by
  unfold Loader.recordRemoteAttempt
  split <;> exact ⟨h.items, h.last, h.store⟩

theorem recordRemoteAttempt_store (s : State) (p : Path) (a : Action) :
    (recordRemoteAttempt s p a).store = s.store := by
  unfold Loader.recordRemoteAttempt; split <;> rfl

theorem recordRemoteAttempt_rq (s : State) (p : Path) (a : Action) :
    (recordRemoteAttempt s p a).rq = s.rq := by
  unfold Loader.recordRemoteAttempt; split <;> rfl

/-! ### waitRemote -/

theorem waitRemote_spec (fuel : Nat) (s : State) (h : Inv s) :
    Inv (waitRemote fuel s).1 ∧ (waitRemote fuel s).1.store = s.store ∧
    ((waitRemote fuel s).2 = .remote → (waitRemote fuel s).1.rq.q ≠ []) := by
  induction fuel generalizing s with
  | zero => simp [waitRemote, h]
  | succ n ih =>
    unfold waitRemote
    dsimp only
    split
    · rename_i head tl hq
      split
      · refine ⟨⟨h.items, h.last, h.store⟩, rfl, ?_⟩
        intro _; simp [hq]
      · split
        · refine ⟨h.consume, rfl, ?_⟩
          intro hc; cases hc
        · rename_i v' _
          have hinv : Inv (Loader.recordRemoteAttempt
              { s with rq := s.rq.consume, ver := some v' }
              (verPath s.record (s.ver.getD none)) head.action) := by
            apply Inv.recordRemoteAttempt
            exact ⟨h.consume.items, h.consume.last, h.store⟩
          have := ih _ hinv
          refine ⟨this.1, ?_, this.2.2⟩
          rw [this.2.1, recordRemoteAttempt_store]
    · split
      · exact ⟨h, rfl, by intro hc; cases hc⟩
      · exact ⟨h, rfl, by intro hc; cases hc⟩


/-! ### run / load / retry / wake -/

theorem stillOnUnfollowed_spec (s : State) (p : Path) :
    (stillOnUnfollowed s p).1.store = s.store ∧ (stillOnUnfollowed s p).1.rq = s.rq := by
  unfold stillOnUnfollowed
  split
  · exact ⟨rfl, rfl⟩
  · split <;> exact ⟨rfl, rfl⟩

theorem Inv.stillOnUnfollowed {s : State} (h : Inv s) (p : Path) : Inv (stillOnUnfollowed s p).1 := by
  have := stillOnUnfollowed_spec s p
  exact ⟨by rw [this.2]; exact h.items, by rw [this.2]; exact h.last, by rw [this.1]; exact h.store⟩

/-- the two shapes of a completed load: answered from the local store / with an error (nothing is
    written), or answered with the block of the head item of the remote queue (which is written) -/
inductive RunShape (st : List (Cid × Blk)) (c : Cid) (st' : List (Cid × Blk)) (r : Result) : Prop where
  | noWrite (hw : r.write = none) (hs : st' = st)
      (hd : ∀ b, r.data = some b → r.loc = true ∧ r.err = none ∧ storeGet st c = some b)
  | remote (b : Blk) (hw : r.write = some (c, b)) (hb : b = c) (hs : st' = (c, b) :: st)
      (hd : r.data = some b) (he : r.err = none) (hl : r.loc = false)

theorem loadLocal_shape (s : State) (p : Path) (c : Cid) :
    RunShape s.store c s.store (loadLocal s p c) := by
  apply RunShape.noWrite
  · unfold loadLocal; split <;> rfl
  · rfl
  · intro b hb
    unfold loadLocal at hb ⊢
    split at hb
    · rename_i b' hg
      simp only [Option.some.injEq] at hb; subst hb
      simp [hg]
    · simp at hb

theorem loadLocal_shape' (s : State) (p : Path) (c : Cid) (st st' : List (Cid × Blk))
    (h1 : s.store = st) (h2 : st' = st) : RunShape st c st' (loadLocal s p c) := by
  subst h1; subst h2; exact loadLocal_shape s p c

theorem run_spec (s : State) (p : Path) (c : Cid) (h : Inv s) :
    Inv (run s p c).1 ∧
    (match (run s p c).2 with
     | .blocked => (run s p c).1.store = s.store
     | .done r => RunShape s.store c (run s p c).1.store r) := by
  unfold run
  dsimp only
  have hw := waitRemote_spec (s.rq.q.length + 1) s h
  generalize waitRemote (s.rq.q.length + 1) s = w at hw
  obtain ⟨s1, wt⟩ := w
  obtain ⟨hi1, hst1, hne⟩ := hw
  simp only at hi1 hst1 hne
  cases wt with
  | blocked =>
    simp only
    exact ⟨⟨hi1.items, hi1.last, hi1.store⟩, hst1⟩
  | err e =>
    simp only
    refine ⟨⟨hi1.items, hi1.last, hi1.store⟩, ?_⟩
    apply RunShape.noWrite <;> simp [hst1]
  | offline =>
    simp only
    exact ⟨⟨hi1.items, hi1.last, hi1.store⟩, loadLocal_shape' s1 p c _ _ hst1 hst1⟩
  | remote =>
    simp only
    have hsu := stillOnUnfollowed_spec s1 p
    have hi2 := hi1.stillOnUnfollowed p
    generalize stillOnUnfollowed s1 p = su at hsu hi2
    obtain ⟨s2, still⟩ := su
    simp only at hsu hi2
    obtain ⟨hst2, hrq2⟩ := hsu
    have hst2' : s2.store = s.store := by rw [hst2, hst1]
    simp only
    split
    · exact ⟨⟨hi2.items, hi2.last, hi2.store⟩, loadLocal_shape' s2 p c _ _ hst2' hst2'⟩
    · split
      · exact ⟨⟨hi2.items, hi2.last, hi2.store⟩, loadLocal_shape' s2 p c _ _ hst2' hst2'⟩
      · rename_i head tl hq
        have hc := hi2.consume
        split
        · refine ⟨⟨hc.items, hc.last, hc.store⟩, ?_⟩
          apply RunShape.noWrite <;> simp [hst2']
        · rename_i hlink
          have hlink' : head.link = c := by simpa using hlink
          have h4 := hc.recordRemoteAttempt p head.action
          have h4s : (Loader.recordRemoteAttempt { s2 with rq := s2.rq.consume } p head.action).store = s.store := by
            rw [recordRemoteAttempt_store]; exact hst2'
          split
          · exact ⟨⟨h4.items, h4.last, h4.store⟩, loadLocal_shape' _ p c _ _ h4s h4s⟩
          · rename_i b hb
            have hbc : b = c := by
              have := hi2.items head (by rw [hq]; exact List.mem_cons_self ..) b hb
              rw [this, hlink']
            refine ⟨⟨h4.items, h4.last, ?_⟩, ?_⟩
            · intro c' b' hm
              simp only [List.mem_cons, Prod.mk.injEq] at hm
              rcases hm with ⟨rfl, rfl⟩ | hm
              · exact hbc
              · exact h4.store c' b' hm
            · exact RunShape.remote b rfl hbc (by simp only; rw [h4s]) rfl rfl rfl


theorem load_spec (s : State) (p : Path) (c : Cid) (h : Inv s) :
    Inv (load s p c).1 ∧
    (match (load s p c).2 with
     | .blocked => (load s p c).1.store = s.store
     | .done r => RunShape s.store c (load s p c).1.store r) := by
  unfold load
  dsimp only
  split
  · rename_i a _
    exact run_spec { s with record := s.record.record a.path a.link a.successful, mra := none } p c
      ⟨h.items, h.last, h.store⟩
  · exact run_spec s p c h

theorem wake_spec (s : State) (h : Inv s) :
    Inv (wake s).1 ∧
    (match (wake s).2 with
     | none => (wake s).1.store = s.store
     | some r => ∃ p c, s.pending = some (p, c) ∧ RunShape s.store c (wake s).1.store r) := by
  unfold wake
  split
  · exact ⟨h, rfl⟩
  · rename_i p c hp
    have := run_spec s p c h
    generalize run s p c = rr at this
    obtain ⟨s', out⟩ := rr
    cases out with
    | blocked => exact ⟨this.1, this.2⟩
    | done r => exact ⟨this.1, p, c, hp, this.2⟩

theorem retry_spec (s : State) (h : Inv s) :
    Inv (retry s).1 ∧
    (match (retry s).2 with
     | .blocked => (retry s).1.store = s.store
     | .done r => (s.mra = none ∧ r.write = none ∧ r.data = none ∧ (retry s).1.store = s.store) ∨
                  (∃ a, s.mra = some a ∧ RunShape s.store a.link (retry s).1.store r)) := by
  unfold retry
  split
  · exact ⟨h, Or.inl ⟨by assumption, rfl, rfl, rfl⟩⟩
  · rename_i a ha
    dsimp only
    have hs2 : Inv (if a.usedRemote then { { s with mra := none } with rq := ({ s with mra := none } : State).rq.retryLast }
        else { s with mra := none }) := by
      split
      · exact Inv.retryLast (s := { s with mra := none }) ⟨h.items, h.last, h.store⟩
      · exact ⟨h.items, h.last, h.store⟩
    have hst : (if a.usedRemote then { { s with mra := none } with rq := ({ s with mra := none } : State).rq.retryLast }
        else { s with mra := none }).store = s.store := by
      split <;> rfl
    have := load_spec _ a.path a.link hs2
    rw [hst] at this
    generalize load _ a.path a.link = rr at this
    obtain ⟨s', out⟩ := rr
    cases out with
    | blocked => exact ⟨this.1, this.2⟩
    | done r => exact ⟨this.1, Or.inr ⟨a, ha, this.2⟩⟩

end GS.Loader
