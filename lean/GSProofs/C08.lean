/-
C08 — Default validation rejects unbounded or too-deep recursive selectors.

  "With default settings, a responder rejects every request whose well-formed selector contains,
   at any nesting depth and under any kind of explore clause including interpret-as, a recursive
   exploration that is unbounded or limited to a depth above 100.  Requests whose recursive
   explorations are all limited to depth 100 or less pass this validation."

Everything here is proved about the *generated* definitions in GS/Generated/ValidatorSpec.lean
(the builder expression of `maxDepthSelector`, the visit callback's decision table, the default
wiring), which the translator rewrites from the Go source on every check: `covers` below is a
record of `rfl`s over the generated selector, one per clause kind of the selector language.
-/
import GS.Model.Validator
import GSProofs.Lemmas.SelectorWalk
namespace GS.C08
open GS.Sel GS.Validator GS.Generated.ValidatorSpec

/-- the field table of the compiled generated selector (`maxDepthSelector`) -/
def genFields : List (String × RSel) :=
  match compile maxDepthSelectorSpec with
  | some (.recursive (.fields fs) _ _) => fs
  | _ => []

/-- `maxDepthSelector` parses, and is an unlimited recursion over a fields clause -/
theorem validatorSel_eq : validatorSel = .ok (Vof genFields) := by rfl

/-- the generated selector has a branch for every clause kind that can hold a nested selector:
    recursive (limit matched, sequence followed), fields, union, all, index, range, interpret-as;
    matcher and recursive-edge are leaves.  On a tree where a branch is missing (as `"~"` was
    before the fix fb1fbba) the corresponding `rfl` fails. -/
theorem covers : Covers genFields :=
  { nodup := rfl, recursive_ := rfl, fields_ := rfl, union_ := rfl, all_ := rfl, index_ := rfl,
    range_ := rfl, interpretAs_ := rfl, matcher_ := rfl, edge_ := rfl }

/-- every recursion limit occurring anywhere in `s` is a depth limit of at most `max` -/
def AllBounded (max : Int) (s : Sel) : Prop := ∀ l ∈ limits s, ∃ d, l = Limit.depth d ∧ d ≤ max

/-! ### the visit callback on limit nodes (from the generated decision table) -/

theorem callback_none (max : Int) : callback max (encLimit .none) = .reject := by
  have h : (lookupAction "none" callbackCases).getD callbackDefault = Action.reject := rfl
  simp [callback, encLimit, h, runAction]

theorem callback_depth (max d : Int) :
    callback max (encLimit (.depth d)) = if d > max then .reject else .ok := by
  have h : (lookupAction "depth" callbackCases).getD callbackDefault = Action.intCheck Cmp.gt := rfl
  simp [callback, encLimit, h, runAction, Cmp.eval]

/-- executable form of the right-hand side -/
def limitOk (max : Int) : Limit → Bool
  | .none => false
  | .depth d => decide (d ≤ max)

theorem all_limitOk_iff (max : Int) (ls : List Limit) :
    ls.all (limitOk max) = true ↔ ∀ l ∈ ls, ∃ d, l = Limit.depth d ∧ d ≤ max := by
  simp only [List.all_eq_true]
  constructor
  · intro h l hl
    have := h l hl
    cases l with
    | none => simp [limitOk] at this
    | depth d => exact ⟨d, rfl, by simpa [limitOk] using this⟩
  · intro h l hl
    obtain ⟨d, rfl, hd⟩ := h l hl
    simpa [limitOk] using hd

theorem verdictOf_limits (max : Int) :
    ∀ ls : List Limit, verdictOf max false (ls.map encLimit) =
      if ls.all (limitOk max) then Verdict.ok else Verdict.invalidLimit
  | [] => by simp [verdictOf]
  | .none :: rest => by simp [verdictOf, callback_none, limitOk]
  | .depth d :: rest => by
    simp only [List.map_cons, verdictOf, callback_depth, List.all_cons, limitOk]
    by_cases h : d > max
    · have : ¬ d ≤ max := by omega
      simp [h, this]
    · have hle : d ≤ max := by omega
      simp [h, hle, verdictOf_limits max rest]

/-- `ValidateMaxRecursionDepth(enc s, max)` for every selector specification `s` (well-formed or
    not) and every `max`: nil iff all recursions are depth-limited to at most `max`, otherwise
    exactly ErrInvalidLimit (never a panic or another error). -/
theorem validate_eq (max : Int) (s : Sel) :
    validate max (enc s) = if (limits s).all (limitOk max) then Verdict.ok else Verdict.invalidLimit := by
  unfold validate
  rw [validatorSel_eq]
  simp only [walk_enc genFields covers s, verdictOf_limits]

theorem iff_all (max : Int) (s : Sel) : validate max (enc s) = Verdict.ok ↔ AllBounded max s := by
  rw [validate_eq max s, AllBounded, ← all_limitOk_iff]
  cases (limits s).all (limitOk max) <;> simp

/-- **C08, validation part.**  For every well-formed selector specification `s`:
    `ValidateMaxRecursionDepth(s, 100)` accepts iff every `ExploreRecursive` clause occurring
    anywhere in `s` — under all / fields / index / range / union / interpret-as clauses and inside
    other recursions' sequences — has a depth limit `d ≤ 100` (`limits s` collects the limit of
    every such clause; see `mem_limits_iff` for the occurrence reading).
    (The hypothesis `wf s` is what the property quantifies over; `iff_all` shows it is not needed.) -/
theorem iff (s : Sel) (_ : wf s = true) :
    validate 100 (enc s) = Verdict.ok ↔ ∀ l ∈ limits s, ∃ d, l = Limit.depth d ∧ d ≤ 100 :=
  iff_all 100 s

/-- the same statement with the right-hand side spelled out over clause occurrences: every
    `ExploreRecursive` clause occurring anywhere in `s` (`Occurs`, GSProofs/Lemmas/SelectorWalk.lean:
    under all, fields, index, range, recursive sequences, union members, interpret-as) -/
theorem iff_occurs (s : Sel) (h : wf s = true) :
    validate 100 (enc s) = Verdict.ok ↔
      ∀ l seq st, Occurs (.recursive l seq st) s → ∃ d, l = Limit.depth d ∧ d ≤ 100 := by
  rw [iff s h]
  constructor
  · intro hh l seq st o; exact hh l ((mem_limits_iff s l).2 ⟨seq, st, o⟩)
  · intro hh l hl
    obtain ⟨seq, st, o⟩ := (mem_limits_iff s l).1 hl
    exact hh l seq st o

/-- the rejecting direction, with the precise error: an unbounded or too deep recursion anywhere
    makes the validator return ErrInvalidLimit -/
theorem reject_iff (max : Int) (s : Sel) :
    validate max (enc s) = Verdict.invalidLimit ↔ ¬ AllBounded max s := by
  rw [validate_eq max s, AllBounded, ← all_limitOk_iff]
  cases (limits s).all (limitOk max) <;> simp

/-! ### every encoding the parser accepts, not only the builder's

A remote peer chooses the selector *node*.  `Parses n s` (GS/Model/Selector.lean, `parsesB`) says
go-ipld-prime's ParseSelector reads `n` as the specification `s`: clause bodies with their entries
in any order and with unknown extra entries, `{"none": <anything>}` limits, arbitrary content in
matcher / recursive-edge bodies …  The relation is executable and is compared with the real
ParseSelector on every `alt` op of the correspondence stream. -/

/-- the visit callback cannot tell a limit node the parser accepts from the canonical one -/
theorem callback_parsesLimit (max : Int) (l : Limit) (ln : Node) (h : parsesLimitB l ln = true) :
    callback max ln = callback max (encLimit l) := by
  cases hc : clause ln with
  | none => cases l <;> simp [parsesLimitB, hc] at h
  | some kv =>
    obtain ⟨k, v⟩ := kv
    cases l with
    | none =>
      simp only [parsesLimitB, hc, beq_iff_eq] at h
      have hn : (lookupAction "none" callbackCases).getD callbackDefault = Action.reject := rfl
      rw [clause_eq hc, h]
      simp [callback, encLimit, hn, runAction]
    | depth d =>
      cases v <;> simp [parsesLimitB, hc] at h
      rw [clause_eq hc, h.1, h.2]; rfl

theorem verdictOf_congr (max : Int) (ab : Bool) :
    ∀ (ns ms : List Node), ns.map (callback max) = ms.map (callback max) →
      verdictOf max ab ns = verdictOf max ab ms
  | [], [], _ => rfl
  | [], _ :: _, h => by simp at h
  | _ :: _, [], h => by simp at h
  | n :: ns, m :: ms, h => by
    simp only [List.map_cons, List.cons.injEq] at h
    simp only [verdictOf, h.1, verdictOf_congr max ab ns ms h.2]

/-- **C08 for every node the parser accepts.**  If ParseSelector reads `n` as `s`, the validator
    treats `n` exactly as it treats the builder's encoding of `s` … -/
theorem validate_parses (max : Int) (n : Node) (s : Sel) (h : Parses n s) :
    validate max n = validate max (enc s) := by
  have hn := walk_parses genFields covers (callback max) (callback_parsesLimit max) s n h
  have he := walk_parses genFields covers (callback max) (callback_parsesLimit max) s (enc s) (parsesB_enc s)
  unfold validate
  rw [validatorSel_eq]
  simp only [hn.1, he.1]
  exact verdictOf_congr max false _ _ (hn.2.trans he.2.symm)

/-- … hence accepts it iff every recursion of `s` is limited to depth ≤ max, and otherwise
    returns ErrInvalidLimit.  (`wf s`, with `Parses n s`, is "ParseSelector(n) succeeds".) -/
theorem iff_parses (max : Int) (n : Node) (s : Sel) (h : Parses n s) :
    validate max n = Verdict.ok ↔ AllBounded max s := by
  rw [validate_parses max n s h]; exact iff_all max s

theorem reject_parses (max : Int) (n : Node) (s : Sel) (h : Parses n s) :
    validate max n = Verdict.invalidLimit ↔ ¬ AllBounded max s := by
  rw [validate_parses max n s h]; exact reject_iff max s

/-- the builder's node is one of the accepted encodings (non-vacuity of `Parses`) -/
theorem parses_enc (s : Sel) : Parses (enc s) s := parsesB_enc s

/-! ### default wiring (facts extracted from impl/graphsync.go and preparequery.go) -/

/-- **C08, wiring part.**  impl.New registers the validator by default with
    `maxRecursionDepth = 100`, the hook set it is registered in is the one handed to the
    response manager, and prepareQuery answers a request that no hook validated (and no hook
    failed) with RequestRejected, while a validated, unpaused request gets no terminal status
    there. -/
theorem default_wired :
    maxRecursionDepth = 100 ∧ registeredDepth = maxRecursionDepth ∧
    registerDefaultValidator = true ∧ hooksReachResponder = true ∧ hookValidatesIffNil = true ∧
    (∀ r : HookResult, r.err = false → r.validated = false →
        firstAction r prepareQueryChain = some (.finishWithError "RequestRejected")) ∧
    (∀ r : HookResult, r.err = false → r.validated = true → r.paused = false →
        firstAction r prepareQueryChain = none) := by
  refine ⟨rfl, rfl, rfl, rfl, rfl, ?_, ?_⟩
  · intro r h1 h2; simp [prepareQueryChain, firstAction, condHolds, h1, h2]
  · intro r h1 h2 h3; simp [prepareQueryChain, firstAction, condHolds, h1, h2, h3]

/-- with default settings the responder's prepareQuery rejects exactly the requests whose
    selector has an unbounded or deeper-than-100 recursion … -/
theorem default_rejects (s : Sel) :
    defaultResponse (enc s) = some (.finishWithError "RequestRejected") ↔ ¬ AllBounded 100 s := by
  have hv : validate registeredDepth (enc s) = validate 100 (enc s) := rfl
  have hw : (registerDefaultValidator && hooksReachResponder && hookValidatesIffNil) = true := rfl
  unfold defaultResponse defaultHookResult
  rw [hw, hv]
  by_cases h : AllBounded 100 s
  · have := (iff_all 100 s).2 h
    simp [this, prepareQueryChain, firstAction, condHolds, h]
  · have := (reject_iff 100 s).2 h
    simp [this, prepareQueryChain, firstAction, condHolds, h]

/-- … and lets all others through (no terminal status at this stage). -/
theorem default_passes (s : Sel) : defaultResponse (enc s) = none ↔ AllBounded 100 s := by
  have hv : validate registeredDepth (enc s) = validate 100 (enc s) := rfl
  have hw : (registerDefaultValidator && hooksReachResponder && hookValidatesIffNil) = true := rfl
  unfold defaultResponse defaultHookResult
  rw [hw, hv]
  by_cases h : AllBounded 100 s
  · have := (iff_all 100 s).2 h
    simp [this, prepareQueryChain, firstAction, condHolds, h]
  · have := (reject_iff 100 s).2 h
    simp [this, prepareQueryChain, firstAction, condHolds, h]

/-- the responder decision for every node the parser reads as `s` -/
theorem default_rejects_parses (n : Node) (s : Sel) (h : Parses n s) :
    defaultResponse n = some (.finishWithError "RequestRejected") ↔ ¬ AllBounded 100 s := by
  have : defaultResponse n = defaultResponse (enc s) := by
    unfold defaultResponse defaultHookResult
    rw [validate_parses registeredDepth n s h]
  rw [this]; exact default_rejects s

theorem default_passes_parses (n : Node) (s : Sel) (h : Parses n s) :
    defaultResponse n = none ↔ AllBounded 100 s := by
  have : defaultResponse n = defaultResponse (enc s) := by
    unfold defaultResponse defaultHookResult
    rw [validate_parses registeredDepth n s h]
  rw [this]; exact default_passes s

/-! ### non-vacuity and boundary (tests of the statements on concrete selectors) -/

/-- a well-formed selector nesting a recursion under interpret-as inside a union inside another
    recursion's sequence: hypotheses of `iff` are satisfiable, both sides true -/
def exDeep (d : Int) : Sel :=
  .recursive (.depth 5) (.union [.all .edge,
    .fields [("Links", .index 0 (.interpretAs "unixfs" (.recursive (.depth d) (.all .edge) (some 7))))]]) none

example : wf (exDeep 100) = true := by decide
example : validate 100 (enc (exDeep 100)) = Verdict.ok := (iff _ (by decide)).2 (by simp [exDeep, limits, limitsFields, limitsList])
example : validate 100 (enc (exDeep 101)) = Verdict.invalidLimit :=
  (reject_iff 100 _).2 (by simp [AllBounded, exDeep, limits, limitsFields, limitsList])
example : validate 100 (enc (.interpretAs "unixfs" (.recursive .none (.all .edge) none))) = Verdict.invalidLimit :=
  (reject_iff 100 _).2 (by simp [AllBounded, limits])

/-- a non-canonical encoding: entries shuffled, unknown entries (one of them an unbounded recursion
    where no selector is expected), `{"none": 7}` as limit — parsed as interpret-as over an
    unbounded recursion, and rejected -/
def exAlt : Node :=
  .map [("~", .map [("zz", .map [("R", .map [("l", .map [("none", .map [])]), (":>", .map [("@", .map [])])])]),
                    (">", .map [("R", .map [(":>", .map [("a", .map [("x", .null), (">", .map [("@", .map [("q", .int 1)])])])]),
                                           ("l", .map [("none", .int 7)])])]),
                    ("as", .str "unixfs")])]

def exAltSel : Sel := .interpretAs "unixfs" (.recursive .none (.all .edge) none)
example : Parses exAlt exAltSel := by unfold Parses; decide
example : validate 100 exAlt = Verdict.invalidLimit :=
  (reject_parses 100 exAlt exAltSel (by unfold Parses; decide)).2 (by simp [AllBounded, exAltSel, limits])

end GS.C08

