/-
Model of /repo/linktracker/linktracker.go and
/repo/responsemanager/responseassembler/peerlinktracker.go (core Lean only).

Mirrors the Go code function by function:

  linktracker.LinkTracker                      -> LinkTracker
    missingBlocks                              ->   .missing      (request -> set of links, as a list)
    linksWithBlocksTraversedByRequest          ->   .linksByReq   (request -> list of links)
    traversalsWithBlocksInProgress             ->   .refcount     (link -> count)
    New / BlockRefCount / IsKnownMissingLink   -> {} / blockRefCount / isKnownMissing
    RecordLinkTraversal / FinishRequest / Empty-> record / finishRequest / isEmpty
    MoveRequest                                -> moveRequest

  responseassembler.peerLinkTracker            -> PeerTracker
    linkTracker / altTrackers / dedupKeys / blockSentCount / skipFirstBlocks
                                               ->   .main / .alts / .dedupKeys / .sentCount / .skipFirst
    getLinkTracker                             -> trackerOf (+ setTracker: Go mutates through the pointer)
    DedupKey                                   -> setDedupKey  (`dedupKey` = its middle part: assign the
                                                  key, create the bucket; `dropTrackerIfUnused` = helper)
    IgnoreBlocks / SkipFirstBlocks             -> ignoreBlocks / skipFirstBlocks
    FinishTracking                             -> finishTracking   (FinishRequest, FinishWithError and
                                                  ClearRequest of the builder / stream all end here)
    RecordLinkTraversal                        -> traverse  (returns (sendBlock, blockIndex))

Go maps are association lists `List (Nat × β)`: `aget` = lookup, `aset` = assignment (the new
binding is put in front and every older binding of the key is dropped), `aerase` = `delete`.
Requests, links and dedup keys are natural numbers.

Integer types: the Go reference counts are `int`; a decrement of an absent key would give -1 and the
entry is deleted because it is `<= 0`.  The model uses `Nat` with truncated subtraction and deletes
when the result is `0`, which is the same observable behaviour (`BlockRefCount` of an absent key is
0).  `blockSentCount` is `int64`, modelled as `Nat` (no wrap-around: 2^63 traversals of one
request); `skipFirstBlocks` is `int64` and may be negative, modelled as `Int`.

`getLinkTracker` returns `altTrackers[key]`, a nil pointer if the key were absent; the model
substitutes a fresh tracker there.  `GSProofs/C19.lean` (`alt_present`) proves this never happens.
-/
namespace GS.LinkTrack

abbrev Req  := Nat
abbrev Link := Nat
abbrev Key  := Nat

/-! ### association lists (Go maps) -/

/-- `m[k]` with the `ok` flag. -/
def aget {β : Type} : List (Nat × β) → Nat → Option β
  | [], _ => none
  | (k', v) :: t, k => if k' = k then some v else aget t k

/-- `delete(m, k)` -/
def aerase {β : Type} (m : List (Nat × β)) (k : Nat) : List (Nat × β) :=
  m.filter (fun e => e.1 != k)

/-- `m[k] = v` -/
def aset {β : Type} (m : List (Nat × β)) (k : Nat) (v : β) : List (Nat × β) :=
  (k, v) :: aerase m k

/-! ### linktracker.LinkTracker -/

structure LinkTracker where
  missing    : List (Req × List Link) := []
  linksByReq : List (Req × List Link) := []
  refcount   : List (Link × Nat) := []
deriving Repr, DecidableEq

namespace LinkTracker

/-- `BlockRefCount` -/
def blockRefCount (t : LinkTracker) (l : Link) : Nat := (aget t.refcount l).getD 0

/-- `IsKnownMissingLink` -/
def isKnownMissing (t : LinkTracker) (r : Req) (l : Link) : Bool :=
  match aget t.missing r with
  | none => false
  | some ls => ls.contains l

/-- `RecordLinkTraversal` -/
def record (t : LinkTracker) (r : Req) (l : Link) (hasBlock : Bool) : LinkTracker :=
  if hasBlock then
    { t with
      linksByReq := aset t.linksByReq r ((aget t.linksByReq r).getD [] ++ [l])
      refcount   := aset t.refcount l (t.blockRefCount l + 1) }
  else
    let old := (aget t.missing r).getD []
    { t with missing := aset t.missing r (if old.contains l then old else old ++ [l]) }

/-- one iteration of the loop in `FinishRequest`: decrement, delete when `<= 0`. -/
def decRef (m : List (Link × Nat)) (l : Link) : List (Link × Nat) :=
  let v := (aget m l).getD 0 - 1
  if v = 0 then aerase m l else aset m l v

/-- `FinishRequest`: returns the new tracker and `hasAllBlocks`. -/
def finishRequest (t : LinkTracker) (r : Req) : LinkTracker × Bool :=
  let hasAll := (aget t.missing r).isNone
  let t1 := { t with missing := aerase t.missing r }
  match aget t1.linksByReq r with
  | none => (t1, hasAll)
  | some links =>
    ({ t1 with refcount := links.foldl decRef t1.refcount, linksByReq := aerase t1.linksByReq r }, hasAll)

/-- `MoveRequest`: everything recorded for `r` is recorded again in `to` (with-block links in order,
    then the missing links; Go iterates the missing set in map order, the model in list order — only
    membership is observable) and `r` is finished here.  Returns (this tracker, `to`) afterwards. -/
def moveRequest (t : LinkTracker) (r : Req) (to : LinkTracker) : LinkTracker × LinkTracker :=
  let to1 := ((aget t.linksByReq r).getD []).foldl (fun a l => a.record r l true) to
  let to2 := ((aget t.missing r).getD []).foldl (fun a l => a.record r l false) to1
  ((t.finishRequest r).1, to2)

/-- `Empty` -/
def isEmpty (t : LinkTracker) : Bool := t.missing.isEmpty && t.refcount.isEmpty

end LinkTracker

/-! ### responseassembler.peerLinkTracker -/

structure PeerTracker where
  main      : LinkTracker := {}
  alts      : List (Key × LinkTracker) := []
  dedupKeys : List (Req × Key) := []
  sentCount : List (Req × Nat) := []
  skipFirst : List (Req × Int) := []
deriving Repr, DecidableEq

namespace PeerTracker

/-- the tracker of a dedup scope (`none` = the peer's default tracker). -/
def scopeTracker (p : PeerTracker) (s : Option Key) : LinkTracker :=
  match s with
  | none => p.main
  | some k => (aget p.alts k).getD {}

/-- write a tracker back (Go mutates it in place through the pointer). -/
def setScopeTracker (p : PeerTracker) (s : Option Key) (t : LinkTracker) : PeerTracker :=
  match s with
  | none => { p with main := t }
  | some k => { p with alts := aset p.alts k t }

/-- `getLinkTracker` -/
def trackerOf (p : PeerTracker) (r : Req) : LinkTracker := p.scopeTracker (aget p.dedupKeys r)

def setTracker (p : PeerTracker) (r : Req) (t : LinkTracker) : PeerTracker :=
  p.setScopeTracker (aget p.dedupKeys r) t

/-- the part of `DedupKey` that assigns the key and creates the bucket if it does not exist -/
def dedupKey (p : PeerTracker) (r : Req) (k : Key) : PeerTracker :=
  { p with
    dedupKeys := aset p.dedupKeys r k
    alts := if (aget p.alts k).isSome then p.alts else aset p.alts k {} }

/-- `dropTrackerIfUnused` -/
def dropTrackerIfUnused (p : PeerTracker) (k : Key) : PeerTracker :=
  if p.dedupKeys.any (fun e => e.2 == k) then p else { p with alts := aerase p.alts k }

/-- `DedupKey`: no-op when the request already has this key; otherwise assign the key, move what the
    request recorded so far from its old tracker into the bucket, drop the old bucket if unused. -/
def setDedupKey (p : PeerTracker) (r : Req) (k : Key) : PeerTracker :=
  let old := aget p.dedupKeys r
  if old = some k then p else
  let oldT := p.scopeTracker old
  let p1 := p.dedupKey r k
  let (oldT', newT') := oldT.moveRequest r (p1.scopeTracker (some k))
  let p2 := (p1.setScopeTracker old oldT').setScopeTracker (some k) newT'
  match old with
  | some k0 => p2.dropTrackerIfUnused k0
  | none => p2

/-- `IgnoreBlocks` -/
def ignoreBlocks (p : PeerTracker) (r : Req) (ls : List Link) : PeerTracker :=
  p.setTracker r (ls.foldl (fun t l => t.record r l true) (p.trackerOf r))

/-- `SkipFirstBlocks` -/
def skipFirstBlocks (p : PeerTracker) (r : Req) (n : Int) : PeerTracker :=
  { p with skipFirst := aset p.skipFirst r n }

/-- `FinishTracking`: returns the new state and `allBlocks`. -/
def finishTracking (p : PeerTracker) (r : Req) : PeerTracker × Bool :=
  let (t', allBlocks) := (p.trackerOf r).finishRequest r
  let p1 := p.setTracker r t'
  let p2 :=
    match aget p1.dedupKeys r with
    | some k =>
      let dk := aerase p1.dedupKeys r
      { p1 with
        dedupKeys := dk
        alts := if dk.any (fun e => e.2 == k) then p1.alts else aerase p1.alts k }
    | none => p1
  ({ p2 with sentCount := aerase p2.sentCount r, skipFirst := aerase p2.skipFirst r }, allBlocks)

/-- `RecordLinkTraversal`: returns the new state, the send decision and the block index. -/
def traverse (p : PeerTracker) (r : Req) (l : Link) (hasBlock : Bool) : PeerTracker × Bool × Nat :=
  let c := (aget p.sentCount r).getD 0 + 1
  let p0 := { p with sentCount := aset p.sentCount r c }
  let notSkipped := decide ((aget p0.skipFirst r).getD 0 < (c : Int))
  let t := p0.trackerOf r
  let isUnique := t.blockRefCount l == 0
  (p0.setTracker r (t.record r l hasBlock), hasBlock && notSkipped && isUnique, c)

end PeerTracker

/-! ### operations of the response assembler on one peer's tracker -/

inductive Op where
  | dedup (r : Req) (k : Key)                 -- ResponseStream.DedupKey
  | ignore (r : Req) (ls : List Link)         -- ResponseStream.IgnoreBlocks
  | skip (r : Req) (n : Int)                  -- ResponseStream.SkipFirstBlocks
  | trav (r : Req) (l : Link) (present : Bool)-- ResponseBuilder.SendResponse (data != nil)
  | finish (r : Req)                          -- ResponseBuilder.FinishRequest
  | finishErr (r : Req)                       -- ResponseBuilder.FinishWithError
  | clear (r : Req)                           -- ResponseStream.ClearRequest
deriving Repr, DecidableEq

inductive Out where
  | ok
  | sent (send : Bool) (idx : Nat)            -- (sendBlock, index) of RecordLinkTraversal
  | done (complete : Bool)                    -- result of FinishTracking
deriving Repr, DecidableEq

def step (p : PeerTracker) : Op → PeerTracker × Out
  | .dedup r k => (p.setDedupKey r k, .ok)
  | .ignore r ls => (p.ignoreBlocks r ls, .ok)
  | .skip r n => (p.skipFirstBlocks r n, .ok)
  | .trav r l b => let (p', s, i) := p.traverse r l b; (p', .sent s i)
  | .finish r => let (p', c) := p.finishTracking r; (p', .done c)
  | .finishErr r => let (p', c) := p.finishTracking r; (p', .done c)
  | .clear r => let (p', c) := p.finishTracking r; (p', .done c)

/-- run a history from a state; outputs in order. -/
def runFrom (p : PeerTracker) : List Op → PeerTracker × List Out
  | [] => (p, [])
  | o :: os =>
    let (p1, out) := step p o
    let (p2, outs) := runFrom p1 os
    (p2, out :: outs)

def init : PeerTracker := {}

def run (h : List Op) : PeerTracker × List Out := runFrom init h

/-! ### operations on a bare `linktracker.LinkTracker` (its public API used directly) -/

inductive LOp where
  | record (r : Req) (l : Link) (hasBlock : Bool)
  | finish (r : Req)
deriving Repr, DecidableEq

def lstep (t : LinkTracker) : LOp → LinkTracker × Option Bool
  | .record r l b => (t.record r l b, none)
  | .finish r => let (t', a) := t.finishRequest r; (t', some a)

def lrunFrom (t : LinkTracker) : List LOp → LinkTracker
  | [] => t
  | o :: os => lrunFrom (lstep t o).1 os

def lrun (h : List LOp) : LinkTracker := lrunFrom {} h

end GS.LinkTrack
