/-
Line protocol shared by all model drivers.

Input: a text stream; a line `case <k>` starts a new case; every other non-empty line is one
operation of the current case (space separated tokens).  Output: the `case <k>` line echoed,
followed by the output lines the model produces for that case.  The Go harness
(`gsdrive <component> run`) consumes the same stream and prints the same shape, plus lines
starting with `#` (oracle verdicts / coverage) that the checker strips before diffing.
-/
namespace GS.Proto

abbrev Toks := List String

def tokens (line : String) : Toks :=
  (line.splitOn " ").filter (· ≠ "")

/-- split the stream into cases: (header-line, op-lines) -/
def splitCases (lines : List String) : List (String × List Toks) :=
  let rec go (ls : List String) (cur : Option (String × List Toks)) (acc : List (String × List Toks)) :
      List (String × List Toks) :=
    match ls with
    | [] => match cur with
      | some (h, ops) => ((h, ops.reverse) :: acc).reverse
      | none => acc.reverse
    | l :: rest =>
      let t := tokens l
      match t with
      | [] => go rest cur acc
      | "case" :: _ =>
        let acc' := match cur with
          | some (h, ops) => (h, ops.reverse) :: acc
          | none => acc
        go rest (some (l, [])) acc'
      | _ =>
        match cur with
        | some (h, ops) => go rest (some (h, t :: ops)) acc
        | none => go rest (some ("case 0", [t])) acc
  go lines none []

partial def readAll (h : IO.FS.Stream) (acc : Array String) : IO (Array String) := do
  let line ← h.getLine
  if line.isEmpty then return acc
  let line := (line.dropEndWhile (· == '\n')).toString
  readAll h (acc.push line)

/-- generic main loop: `handler` maps the op lines of one case to its output lines. -/
def runModel (handler : List Toks → List String) : IO Unit := do
  let stdin ← IO.getStdin
  let stdout ← IO.getStdout
  let lines ← readAll stdin #[]
  for (hdr, ops) in splitCases lines.toList do
    stdout.putStrLn hdr
    for o in handler ops do
      stdout.putStrLn o
  stdout.flush

def joinWith (sep : String) (xs : List String) : String := sep.intercalate xs

def natList (xs : List Nat) : String := joinWith "," (xs.map toString)

/-- insertion sort on Nat (core-only, small lists). -/
def sortNat (xs : List Nat) : List Nat :=
  xs.foldl (fun acc x =>
    let (a, b) := acc.span (· ≤ x)
    a ++ x :: b) []

end GS.Proto
