import GSProofs.Lemmas.RespLifeAccMgr
/-!
# C05 — Every incoming request is eventually fully retired by the responder

Model: `GS.RespLife` (lean/GS/Model/RespLifecycle.lean), an actor model of the responder at /repo HEAD
(with the fixes 369d047 and 50602fc).  `ReachableFresh` = states reachable when the environment
never re-uses a request id; `Reachable` = no restriction.

Property sentence → theorems

* "the connection protection it took is released" / Protect–Unprotect alternate per (peer, tag):
  `protect_balanced_partial` (no id that is live for the peer is re-used), `protect_balanced_counterexample` (a re-used live id: two
  Protects in a row — known finding `dup-live-id`).
* "afterwards the responder holds no state for it … and the peer's reported request states no longer
  list it": `retired_means_released` — in every reachable state a request that is not in the table
  (hence not in `PeerState`, which is computed from the table) is not protected.
  `retired_holds_no_work` (hypothesis: `new` requests carry drained ids, `ReachableDrained`) adds that
  such a request has no active topic in any task queue once its task worker has returned.
* "exactly one outcome": the former counterexample (cancelled AND reported to network-error listeners,
  finding `network-error-and-other-outcome`) is repaired in /repo e842a00 and pinned by the test
  `fix_e842a00_regression`.  NO positive form is proved: "completed at most once, cancelled
  at most once, never both" needs an invariant over the terminal statuses queued in message builders
  and publisher queues; it is checked per schedule on the real code only (oracle classes
  `completed-twice`, `cancelled-twice`, `outcome-multi`, `outcome-none`).
* the two defects repaired while building this check are pinned by `fix_369d047_regression` and
  `fix_50602fc_regression`: the replay scripts now end with an empty table in the model.

-- FULL STATEMENT (not provable, see counterexample):
--   theorem one_outcome : ReachableFresh c s → ∀ id ∈ s.seenIds,
--     outcomes s id ∈ {[done c], [canc], nerr⁺}     -- exactly one class, done/canc at most once
-- FULL STATEMENT of the liveness clause (stated, proved only in the weaker forms of STATUS.md):
--   theorem retired : WeaklyFair σ → PausedEventuallyResumed σ →
--     LeadsTo σ (fun s => id ∈ s.seenIds) (fun s => lookup s id = none ∧ (p, id) ∉ s.prot)
-/
namespace GS.C05
open GS.RespLife

/-- Protect (= true) / Unprotect (= false) calls of the connection manager for `(p, tag id)`. -/
def protectLog (s : State) (p : Peer) (id : Id) : List Bool := klog s.events (p, id)

/-- the calls alternate, starting with Protect: the log is `(+ -)* (+)?` (`alt` runs the two-state
    automaton; ids may be re-used after retirement, so a key can be protected many times) -/
def Alternating (l : List Bool) : Prop := alt l ≠ none

example : alt [true, false, true] = some true := rfl     -- protected, released, protected again
example : alt [true, true] = none := rfl                  -- two Protects in a row: not alternating
example : alt [false] = none := rfl                       -- starts with Unprotect: not alternating

theorem klog_filter (l : List Event) (k : Peer × Id) : klog (l.filter isProtEv) k = klog l k := by
  unfold klog
  rw [List.filter_filter]
  congr 1
  apply List.filter_congr
  intro e _
  cases e <;> simp [evKey, isProtEv]

/-- **C05.protect_balanced** (partial: no peer sends a `new` request for an id that is live for it —
    the complement of finding `dup-live-id`; re-use after retirement is allowed).  In every reachable
    state the Protect/Unprotect calls for each (peer, tag) alternate starting with Protect, and the tag
    is protected exactly when the last call was Protect. -/
theorem protect_balanced_partial {c : Cfg} {s : State} (h : ReachableFresh c s) (p : Peer) (id : Id) :
    Alternating (protectLog s p id) ∧ ((p, id) ∈ s.prot ↔ alt (protectLog s p id) = some true) := by
  have hinv := (pinv_reachable h).shape (p, id)
  have e : klog (pi s).plog (p, id) = protectLog s p id := klog_filter s.events (p, id)
  rw [e] at hinv
  refine ⟨by rw [Alternating, hinv]; simp, ?_⟩
  rw [hinv]
  show (p, id) ∈ s.prot ↔ some (s.prot.contains (p, id)) = some true
  simp

/-- the part of "fully retired" that is a state invariant: whatever is not in the table (and whose
    `newRequest` step is not parked on a reservation) holds no connection protection; `PeerState`
    lists exactly the table entries of the peer (`peerState` in server.go), so such a request is not
    reported either. -/
theorem retired_means_released {c : Cfg} {s : State} (h : ReachableFresh c s) (p : Peer) (id : Id)
    (hgone : ∀ r ∈ s.table, ¬ (r.peer = p ∧ r.id = id)) (hpark : parkNew s.park ≠ some (p, id)) :
    (p, id) ∉ s.prot := by
  intro hin
  rcases ((pinv_reachable h).protIff (p, id)).1 hin with hk | hk
  · obtain ⟨r, hr, hre⟩ := List.mem_map.1 hk
    exact hgone r hr ⟨congrArg Prod.fst hre, congrArg Prod.snd hre⟩
  · exact hpark hk

/-- **"holds no state afterwards"** (the provable part).  Reachable with drained ids: a request that is
    not in the table and whose task worker (if it ever had one) has returned is not protected, is not
    reported by `PeerState`, and has no active topic in any peer's task queue; and a pending topic with
    its id cannot exist next to a response of another peer or in another state than Queued
    (`GS.C23.final_partial`).  NOT proved: that no pending topic and no allocator reservation of the
    retired request is left (checked by the oracle classes `stats-nonzero` / `alloc-nonzero`). -/
theorem retired_holds_no_work {c : Cfg} {s : State} (h : ReachableDrained c s) (p : Peer) (id : Id)
    (hgone : lookup s id = none) (hpark : parkNew s.park ≠ some (p, id))
    (hw : ∀ w ∈ s.workers, w.id = id → w.phase = .done) :
    (p, id) ∉ s.prot ∧ ∀ q, id ∉ (getQ s q).active := by
  constructor
  · apply retired_means_released (reachableFresh_of_drained h) p id _ hpark
    intro r hr ⟨_, hid⟩
    have : lookup s id ≠ none := by
      unfold lookup
      cases hf : s.table.find? (·.id == id) with
      | none =>
        have := List.find?_eq_none.1 hf r hr
        simp [hid] at this
      | some r' => simp
    exact this hgone
  · intro q hm
    have hi := (linv_reachable h).1
    have hm' : id ∈ (acc s).act q := hm
    obtain ⟨i, k, hk, hkd⟩ := (hi.actLive q id).1 hm'
    have : (wcore s)[i]? = some (q, id, k) := hk
    simp only [wcore, List.getElem?_map, Option.map_eq_some_iff] at this
    obtain ⟨w, hwi, hwe⟩ := this
    simp only [Prod.mk.injEq] at hwe
    have hd := hw w (List.mem_of_getElem? hwi) hwe.2.1
    rw [hd] at hwe
    exact hkd hwe.2.2.symm

/-- ids in the table are unique (fresh ids) -/
theorem table_ids_nodup {c : Cfg} {s : State} (h : ReachableFresh c s) :
    (s.table.map (·.id)).Nodup := by
  have := (pinv_reachable h).nodupIds
  simpa [pi, keys, List.map_map, Function.comp_def] using this

-- ------------------------------------------------------------------ concrete runs
def cfgA (n : Nat) : ReqCfg := { pri := 1, hook := ⟨.accept, false⟩, n, miss := none, bh := [] }

/-- a live id re-used by the same peer: `newRequest` runs twice for id 0 -/
def dupScript : List Action := [.recv 0 (.new 0 (cfgA 2)), .mgr, .recv 0 (.new 0 (cfgA 2)), .mgr]

/-- **C05.protect_balanced_counterexample**: without the fresh-id hypothesis the calls do not
    alternate — two Protects in a row for the same (peer, tag).  (Known finding `dup-live-id`;
    replayed on the real code by corpus/C05 `known-dup-live-id-*`.) -/
theorem protect_balanced_counterexample :
    ∃ s, Reachable {} s ∧ protectLog s 0 0 = [true, true] :=
  ⟨run (init {}) dupScript, reachable_run Reachable.init _, by decide⟩

/-- requestor cancels a queued request whose request-hook data is still in flight; the message then
    fails: the request is reported to the cancelled listeners AND to the network-error listeners. -/
def cancelNerrScript : List Action :=
  [.primer 0, .extract 0,                                   -- queue goroutine parked in SendMsg
   .recv 0 (.new 0 { (cfgA 1) with hook := ⟨.accept, true⟩ }), .mgr,   -- hook data queued
   .recv 0 (.cancel 0), .mgr,                                -- cancelled while Queued: canc(0)
   .net 0 true, .extract 0,                                  -- hook data now in flight
   .net 0 false, .pub 0, .mgr, .pub 0]                       -- send fails: nerr(0)

/-- **regression for fix e842a00** (TEST, not an obligation; before the fix this script was the
    machine-checked counterexample to "exactly one outcome": request 0 was reported both as cancelled
    and as failed on the network — the former known finding `network-error-and-other-outcome`).  Now the
    failed message with left-over hook data of the cancelled request is not reported again. -/
theorem fix_e842a00_regression :
    let s := run (init {}) cancelNerrScript
    Event.canc 0 ∈ s.events ∧ Event.nerr 0 ∉ s.events ∧ s.table = [] := by decide

/-- the replay of the defect repaired by /repo 369d047 (send failure reported after the executor's
    last signal check): 2-block request, worker parked in the hook of its last block while the message
    with the first block fails -/
def fix369Script : List Action :=
  [.primer 0, .extract 0,
   .recv 0 (.new 0 { (cfgA 2) with bh := [.ok, .park] }), .mgr,
   .pop 0 0, .mgr, .wstep 0 0,          -- StartTask, top of the loop
   .wstep 0 0,                          -- block 0 queued
   .net 0 true, .extract 0,             -- block 0 in flight
   .wstep 0 0,                          -- block 1: signal check passed, parked in the hook
   .net 0 false, .pub 0, .mgr, .pub 0,  -- send fails: CloseWithNetworkError while Running
   .wstep 0 0, .mgr]                    -- executor finishes: FinishTask(nil)

/-- **regression for fix 369d047**: the response is retired (before the fix the model, like the
    code, ended in CompletingSend forever with the connection protected). -/
theorem fix_369d047_regression :
    let s := run (init {}) fix369Script
    s.table = [] ∧ s.prot = [] ∧ Event.nerr 0 ∈ s.events := by decide

/-- the replay of the defect repaired by /repo 50602fc: UpdateResponse while the terminal status is
    queued but not yet sent -/
def fix506Script : List Action :=
  [.primer 0, .extract 0,
   .recv 0 (.new 0 (cfgA 1)), .mgr,
   .pop 0 0, .mgr, .wstep 0 0, .wstep 0 0, .mgr,   -- the whole response is queued, state CompletingSend
   .api (.update 0 true), .mgr,                     -- PartialResponse + extension into the same message
   .net 0 true, .extract 0, .net 0 true, .pub 0, .pub 0, .mgr, .pub 0]

/-- **regression for fix 50602fc**: the terminal status survives, the request completes once and is
    retired. -/
theorem fix_50602fc_regression :
    let s := run (init {}) fix506Script
    s.table = [] ∧ s.prot = [] ∧ Event.done 0 20 ∈ s.events := by decide

-- ------------------------------------------------------------------ non-vacuity
/-- the hypotheses of `protect_balanced_partial` are met by a non-trivial state: a fresh run that
    registers and retires a request has log `[+,-]` -/
example : ∃ s, ReachableFresh {} s ∧ protectLog s 0 0 = [true, false, true] :=
  ⟨run (init {}) [.recv 0 (.new 0 (cfgA 1)), .mgr, .recv 0 (.cancel 0), .mgr, .recv 0 (.new 0 (cfgA 1)), .mgr],
   reachableFresh_run ReachableFresh.init _ (by decide), by decide⟩

example : ∃ s, ReachableFresh {} s ∧ protectLog s 0 0 = [true, false] := by
  refine ⟨run (init {}) [.recv 0 (.new 0 (cfgA 1)), .mgr, .recv 0 (.cancel 0), .mgr], ?_, by decide⟩
  refine ReachableFresh.step (a := .mgr) (ReachableFresh.step (a := .recv 0 (.cancel 0))
    (ReachableFresh.step (a := .mgr) (ReachableFresh.step (a := .recv 0 (.new 0 (cfgA 1)))
      ReachableFresh.init ?_ rfl) trivial rfl) trivial rfl) trivial rfl
  exact ⟨by simp [keys, init], by simp [newIds, init], by simp [parkNew, init]⟩

end GS.C05
