import GSProofs.Lemmas.ConcurrentCleanLocal
/-!
Property C20 — the RESULT of the alone run does not depend on the local store it starts from: what the
request delivers and reports missing is the reference traversal of its link tree over the RESPONDER's
store (`refEvs`), every link resolved there.

`RES`: the reports so far, followed by the reference reports of the executor's cursor, are the reference
reports of the whole link tree.  Kept by every step of the aligned run (`AL`).
-/
namespace GS.C20
open GS.Loader GS.Requestor GS.LinkTrack GS.Concurrent

/-- the reference result of the traversal from cursor `lt`, every link resolved in the store `f`:
    (delivered nodes, missing links, number of nodes handed to the caller) -/
def refEvs (f : Cid → Bool) : LT → List (Cid × Path) × List (Cid × Path) × Nat
  | [] => ([], [], 0)
  | n :: rest =>
    if f n.cid then
      ((n.cid, n.path) :: (refEvs f rest).1, (refEvs f rest).2.1, n.vData + (refEvs f rest).2.2)
    else
      ((refEvs f (skipSub n rest)).1, (n.cid, n.path) :: (refEvs f (skipSub n rest)).2.1,
        n.vSkip + (refEvs f (skipSub n rest)).2.2)
termination_by lt => lt.length
decreasing_by
  all_goals first
    | (simp; done)
    | (have := skipSub_length n rest; simp; omega)

/-- componentwise "then" of two results -/
def resApp (a b : List (Cid × Path) × List (Cid × Path) × Nat) : List (Cid × Path) × List (Cid × Path) × Nat :=
  (a.1 ++ b.1, a.2.1 ++ b.2.1, a.2.2 + b.2.2)

def resOfEvs (e : List Ev) : List (Cid × Path) × List (Cid × Path) × Nat := (blocksOf e, missingOf e, deliveredOf e)

theorem foldl_add (l : List Nat) (x : Nat) : l.foldl (· + ·) x = x + l.foldl (· + ·) 0 := by
  induction l generalizing x with
  | nil => simp
  | cons a t ih => simp only [List.foldl_cons]; rw [ih (x + a), ih (0 + a)]; omega

theorem deliveredOf_append (a b : List Ev) : deliveredOf (a ++ b) = deliveredOf a + deliveredOf b := by
  unfold deliveredOf
  rw [List.filterMap_append, List.foldl_append, foldl_add]

theorem blocksOf_append (a b : List Ev) : blocksOf (a ++ b) = blocksOf a ++ blocksOf b := by
  unfold blocksOf; rw [List.filterMap_append]

theorem resOfEvs_append (a b : List Ev) : resOfEvs (a ++ b) = resApp (resOfEvs a) (resOfEvs b) := by
  simp [resOfEvs, resApp, blocksOf_append, missingOf_append, deliveredOf_append]

theorem resApp_assoc (a b c) : resApp (resApp a b) c = resApp a (resApp b c) := by
  simp [resApp, List.append_assoc, Nat.add_assoc]

theorem resApp_nil (a) : resApp a ([], [], 0) = a := by
  simp [resApp]

theorem refEvs_nil (f : Cid → Bool) : refEvs f [] = ([], [], 0) := by rw [refEvs]

theorem refEvs_present (f : Cid → Bool) (n : LNode) (rest : LT) (h : f n.cid = true) :
    refEvs f (n :: rest) = resApp ([(n.cid, n.path)], [], n.vData) (refEvs f rest) := by
  rw [refEvs]; simp [h, resApp]

theorem refEvs_missing (f : Cid → Bool) (n : LNode) (rest : LT) (h : f n.cid = false) :
    refEvs f (n :: rest) = resApp ([], [(n.cid, n.path)], n.vSkip) (refEvs f (skipSub n rest)) := by
  rw [refEvs]; simp [h, resApp]

/-- the executor's cursor: what is left of the traversal of a running request -/
def cur (s : Sys) (i : Nat) : LT :=
  match s.reqs[i]? with
  | some r => if r.phase = .running then r.todo else []
  | none => []

/-- reports so far ++ reference reports of the cursor = reference reports of the whole tree -/
def RES (lt : LT) (i : Nat) (s : Sys) : Prop :=
  resApp (resOfEvs (s.evs.getD i [])) (refEvs (remf s.rem) (cur s i)) = refEvs (remf s.rem) lt ∧
  (s.evs[i]?).isSome = true

theorem resultOf_eq (s : Sys) (i : Nat) : resultOf s i = resOfEvs (s.evs.getD i []) := rfl

/-! ## the reports of one delivery -/

theorem resOfEvs_writeEvs (r : Result) : resOfEvs (writeEvs r) = ([], [], 0) := by
  unfold writeEvs
  cases r.write with
  | none => rfl
  | some x => rfl

theorem resOfEvs_finish (s : Requestor.State) : resOfEvs (finish s).2 = ([], [], 0) := by
  unfold finish
  cases s.terminalErr <;> rfl

theorem after_handle_res (s2 : Requestor.State) (hrun : s2.phase = .running) (hsent : s2.requestSent = true)
    (hq : s2.L.rq.q = []) (ho : s2.L.isOpen = true) :
    resOfEvs (drive (fuelFor s2) s2).2 = ([], [], 0) := by
  have hf : fuelFor s2 = (s2.todo.length + 1) + 1 := rfl
  rw [hf]
  obtain ⟨d1, d2⟩ := drive_park (s2.todo.length + 1) s2 hrun hsent hq ho
  cases ht : s2.todo with
  | nil =>
    rw [ht] at d1 d2
    rw [d1 rfl]
    exact resOfEvs_finish s2
  | cons m post' =>
    rw [ht] at d1 d2
    rw [d2 m post' rfl]
    rfl

/-- the reports of the delivery of the item for the node `n` the executor is parked on -/
theorem message_item_res (r : Requestor.State) (n : LNode) (post : LT) (S : List (Cid × Blk)) (it : Item)
    (md : List (Cid × Action)) (bl : List (Cid × Blk)) (hbi : buildItems md bl = [it]) (hp : PK r n post)
    (hstale : r.L.unfollowed = [] ∨ below r.L.unfollowed n.path = false) (hl : it.link = n.cid)
    (o : Requestor.State × List Ev) (ho : o = message (rws r S) true true 14 md bl) :
    (∀ b, (it.block = some b ∨ (it.block = none ∧ storeGet S n.cid = some b)) →
       resOfEvs o.2 = ([(n.cid, n.path)], [], n.vData)) ∧
    (it.block = none → storeGet S n.cid = none → n.depth ≠ 0 →
       resOfEvs o.2 = ([], [(n.cid, n.path)], n.vSkip)) := by
  obtain ⟨L, todo, ph, sent, nb, us, cc, te⟩ := r
  obtain ⟨h1, h2, h3, h4, h5, h6, h7, h8⟩ := hp
  simp only at h1 h2 h3 h4 h5 h6 h7 h8 hstale
  subst h1 h2 h3 h4
  obtain ⟨L', res, hw, hobs, hres⟩ := wake_item (withStore L S) n.path n.cid it md bl hbi h5 h7 h6 h8 hstale hl
  simp only [obs, Obs.mk.injEq] at hobs
  obtain ⟨o1, o2, o3, o4, o5, o6⟩ := hobs
  rw [message_eq_resume] at ho
  unfold resume at ho
  simp only [hw] at ho
  constructor
  · intro b hb
    have herr : res.err = none := by
      rcases hb with hb | ⟨hb1, hb2⟩
      · rw [hb] at hres; exact hres.1
      · rw [hb1] at hres
        simp only at hres
        rw [hres]
        simp [loadLocal, withStore, hb2]
    have hh : handle ⟨L', n :: post, .running, true, nb, us, false, te⟩ n post res =
        (⟨L', post, .running, true, nb + 1, us, false, te⟩,
          writeEvs res ++ [Ev.block n.cid n.path res.loc (nb + 1), Ev.prog n.vData], true) := by
      unfold handle; rw [herr]
    rw [hh] at ho
    simp only at ho
    have a1 := after_handle_res ⟨L', post, .running, true, nb + 1, us, false, te⟩ rfl rfl o3 o4
    generalize drive (fuelFor ⟨L', post, .running, true, nb + 1, us, false, te⟩)
      ⟨L', post, .running, true, nb + 1, us, false, te⟩ = d at ho a1
    subst ho
    simp only [resOfEvs_append, resOfEvs_writeEvs, a1]
    simp [resApp, resOfEvs, blocksOf, missingOf, deliveredOf]
  · intro hb hs hd
    rw [hb] at hres
    simp only at hres
    have hres' : res = { data := none, err := some (.missing n.cid n.path), loc := true } := by
      rw [hres]; simp [loadLocal, withStore, hs]
    have hd' : (n.depth == 0) = false := by simpa using hd
    have hh : handle ⟨L', n :: post, .running, true, nb, us, false, te⟩ n post res =
        (⟨L', skipSub n post, .running, true, nb, us, false, te⟩,
          writeEvs res ++ [Ev.err (.load (.missing n.cid n.path)), Ev.prog n.vSkip], true) := by
      unfold handle; rw [hres']; simp [hd', skipSub]
    rw [hh] at ho
    simp only at ho
    have a1 := after_handle_res ⟨L', skipSub n post, .running, true, nb, us, false, te⟩ rfl rfl o3 o4
    generalize drive (fuelFor ⟨L', skipSub n post, .running, true, nb, us, false, te⟩)
      ⟨L', skipSub n post, .running, true, nb, us, false, te⟩ = d at ho a1
    subst ho
    simp only [resOfEvs_append, resOfEvs_writeEvs, a1]
    simp [resApp, resOfEvs, blocksOf, missingOf, deliveredOf]

/-! ## `RES` along the aligned run -/

theorem getD_set_some {α : Type} (l : List (List α)) (i : Nat) (e x : List α) (h : l[i]? = some e) :
    (l.set i (l.getD i [] ++ x)).getD i [] = e ++ x := by
  rw [List.getD_eq_getElem?_getD, getElem?_set_self, List.getD_eq_getElem?_getD, h]
  rfl

theorem respItemsW_head (f : Cid → Bool) (n : LNode) (post : LT) (seen : List Cid) (w : Nat) (it : Item) (X : List Item)
    (h : respItemsW f (n :: post) seen w = it :: X) :
    it.link = n.cid ∧ (f n.cid = true → it.action = .present) := by
  rw [respItemsW] at h
  split at h
  · rename_i hp
    simp only [List.cons.injEq] at h
    rw [← h.1]
    exact ⟨rfl, fun _ => rfl⟩
  · rename_i hp
    simp only [List.cons.injEq] at h
    rw [← h.1]
    exact ⟨rfl, fun hx => absurd hx hp⟩

theorem RES_resp (lt : LT) (i : Nat) (s : Sys) (h : RES lt i s) : RES lt i (Concurrent.step s (.resp i)) := by
  cases hr : s.resp[i]? with
  | none => rw [resp_noop s i (fun rr hx => by rw [hr] at hx; cases hx)]; exact h
  | some rr =>
    cases ha : rr.active with
    | false => rw [resp_noop s i (fun rr' hx => by rw [hr] at hx; cases hx; exact ha)]; exact h
    | true => rw [resp_eq s i rr hr ha]; exact h

theorem cur_of (s : Sys) (i : Nat) (r : Requestor.State) (hr : s.reqs[i]? = some r) :
    cur s i = if r.phase = .running then r.todo else [] := by
  unfold cur; rw [hr]

theorem RES_deliver (R : TRec) (lt : LT) (i : Nat) (s : Sys) (hG : GOK s) (hal : AL R i s) (he : EVM i s)
    (h : RES lt i s) : RES lt i (Concurrent.step s (.deliver i)) := by
  have hnext := (AL_deliver R i s hG hal he).2
  have hG' := (GOK_step s (.deliver i) hG).1
  obtain ⟨h, hlen⟩ := h
  cases hev : s.evs[i]? with
  | none => rw [hev] at hlen; cases hlen
  | some e =>
  have hgd : s.evs.getD i [] = e := by rw [List.getD_eq_getElem?_getD, hev]; rfl
  rw [hgd] at h
  cases hal with
  | over hov =>
    cases hr : s.reqs[i]? with
    | none => rw [deliver_noop_req s i hr]; exact ⟨by rw [hgd]; exact h, by rw [hev]; rfl⟩
    | some r =>
      cases hc : s.chan[i]? with
      | none =>
        rw [deliver_noop_chan s i (by rw [List.getD_eq_getElem?_getD, hc]; rfl)]
        exact ⟨by rw [hgd]; exact h, by rw [hev]; rfl⟩
      | some l =>
        cases l with
        | nil =>
          rw [deliver_noop_chan s i (by rw [List.getD_eq_getElem?_getD, hc]; rfl)]
          exact ⟨by rw [hgd]; exact h, by rw [hev]; rfl⟩
        | cons w ws =>
          rw [deliver_eq s i r w ws hr hc]
          obtain ⟨f1, f2, f3, f4, f5, f6, f7, f8⟩ := delivOut_fields s i r w ws hG.own
          have hmsg : reqMsg r s.store w = (rws r s.store, []) := by
            rw [reqMsg_eq]; exact message_not_running (rws r s.store) _ _ _ (hov r hr)
          have hr' : (delivOut s i r w ws).reqs[i]? = some (rws r s.store) := by
            rw [f3, hmsg]; exact set_self_some _ _ _ _ hr
          have hcur : cur (delivOut s i r w ws) i = cur s i := by
            rw [cur_of _ i _ hr', cur_of s i r hr]
            rfl
          refine ⟨?_, ?_⟩
          · rw [hcur, f8, f5]
            simp only [setAt]
            rw [getD_set_some _ _ e _ hev, hmsg, List.append_nil]
            exact h
          · rw [f5]; simp only [setAt]; rw [getElem?_set_self, hev]; rfl
  | running r rr ws n post remPre seenQ seenR wR N hr hrr hc pk vs held stale wf dep seen ti rm rdep al w14 wend wok =>
    have hcur0 : cur s i = n :: post := by
      rw [cur_of s i r hr, pk.ph, pk.todo]; rfl
    rw [hcur0] at h
    cases ws with
    | nil =>
      rw [deliver_noop_chan s i (by rw [List.getD_eq_getElem?_getD, hc]; rfl)]
      exact ⟨by rw [hgd, hcur0]; exact h, by rw [hev]; rfl⟩
    | cons w ws' =>
      rw [deliver_eq s i r w ws' hr hc] at hnext hG' ⊢
      obtain ⟨f1, f2, f3, f4, f5, f6, f7, f8⟩ := delivOut_fields s i r w ws' hG.own
      have hr' : (delivOut s i r w ws').reqs[i]? = some (reqMsg r s.store w).1 := by
        rw [f3]; exact set_self_some _ _ _ _ hr
      have hevs' : (delivOut s i r w ws').evs.getD i [] = e ++ (reqMsg r s.store w).2 := by
        rw [f5]; simp only [setAt]; exact getD_set_some _ _ e _ hev
      have hlen' : ((delivOut s i r w ws').evs[i]?).isSome = true := by
        rw [f5]; simp only [setAt]; rw [getElem?_set_self, hev]; rfl
      have h14 : w.status = 14 := by
        apply Classical.byContradiction
        intro h14
        cases ha : rr.active with
        | true => exact h14 (w14 ha w List.mem_cons_self)
        | false =>
          obtain ⟨iws, wt, e1, e2, e3⟩ := wend ha
          cases iws with
          | nil =>
            simp only [List.nil_append, List.cons.injEq] at e1
            obtain ⟨rfl, rfl⟩ := e1
            rw [ha] at al
            have : itemsOf [w] = [] := by simp [itemsOf, e3, buildItems, buildItems.go]
            rw [this] at al
            simp only [Bool.false_eq_true, if_false, List.append_nil] at al
            exact respItemsW_ne_nil _ _ (by simp) _ _ al
          | cons x iws' =>
            simp only [List.cons_append, List.cons.injEq] at e1
            obtain ⟨rfl, _⟩ := e1
            exact h14 (e2 w List.mem_cons_self)
      obtain ⟨it, hbi⟩ := wok w List.mem_cons_self h14
      have hit : itemsOf (w :: ws') = it :: itemsOf ws' := by simp [itemsOf, hbi]
      rw [hit, List.cons_append] at al
      have hmeq : reqMsg r s.store w = message (rws r s.store) true true 14 w.md w.blocks := by
        rw [reqMsg_eq, h14]
      have hst : r.L.unfollowed = [] ∨ below r.L.unfollowed n.path = false := by
        rcases stale with h0 | h0
        · exact Or.inl h0
        · exact Or.inr (h0 n List.mem_cons_self)
      cases remPre with
      | cons m pre' =>
        obtain ⟨hmrem, _⟩ := held m List.mem_cons_self
        have hp : remf s.rem m.cid = true := by simpa [remf] using hmrem
        obtain ⟨q1, q2⟩ := respItemsW_head _ m (pre' ++ n :: post) _ _ it _ al
        obtain ⟨m1, m2, _, _, _⟩ := message_replay R r n post s.store m pre' it w.md w.blocks hbi pk vs q1 (q2 hp) _ hmeq
        have hcur : cur (delivOut s i r w ws') i = n :: post := by
          rw [cur_of _ i _ hr', m2.ph, m2.todo]; rfl
        refine ⟨?_, hlen'⟩
        rw [hcur, f8, hevs', m1, List.append_nil]
        exact h
      | nil =>
        simp only [List.nil_append, List.length_nil] at al
        have pk' : PK r n post := PK.of0 pk vs
        obtain ⟨q1, _⟩ := respItemsW_head _ n post _ _ it _ al
        have hmi := message_item r n post s.store it w.md w.blocks hbi pk' hst q1 _ hmeq
        have hmr := message_item_res r n post s.store it w.md w.blocks hbi pk' hst q1 _ hmeq
        by_cases hdata : ∃ b, (it.block = some b ∨ (it.block = none ∧ storeGet s.store n.cid = some b))
        · obtain ⟨b, hb⟩ := hdata
          obtain ⟨_, _, m3, m4, m5⟩ := hmi.1 b hb
          have r1 := hmr.1 b hb
          have hhas : Has (reqMsg r s.store w).1.L.store n.cid := by
            rw [m3]
            rcases hb with hb | ⟨hb1, hb2⟩
            · rw [hb]; simp only; rw [Has_cons]; exact Or.inl rfl
            · rw [hb1]; exact Has_of_storeGet hb2
          have hfn : remf s.rem n.cid = true := by
            have := hG'.store n.cid (by rw [f2]; exact hhas)
            rw [f8] at this
            simpa [remf] using this
          have hcur : cur (delivOut s i r w ws') i = post := by
            rw [cur_of _ i _ hr']
            cases post with
            | nil => rw [m4 rfl]; rfl
            | cons m post' =>
              obtain ⟨k1, _⟩ := m5 m post' rfl
              rw [k1.ph, k1.todo]; rfl
          refine ⟨?_, hlen'⟩
          rw [hcur, f8, hevs', resOfEvs_append, r1, resApp_assoc, ← refEvs_present _ n post hfn]
          exact h
        · have hb0 : it.block = none := by
            cases hx : it.block with
            | none => rfl
            | some b => exact absurd ⟨b, Or.inl hx⟩ hdata
          have hs0 : storeGet s.store n.cid = none := by
            cases hx : storeGet s.store n.cid with
            | none => rfl
            | some b => exact absurd ⟨b, Or.inr ⟨hb0, hx⟩⟩ hdata
          have hr2 := hmr.2 hb0 hs0
          have hmi2 := hmi.2 hb0 hs0
          -- the root is never reported missing here: it would be a block the responder holds
          by_cases hd : n.depth = 0
          · exfalso
            have hnrem := dep n List.mem_cons_self hd
            have := hG.store n.cid
            -- the local store lacks it, but the item says: present without block, or missing
            rw [respItemsW] at al
            have hp : remf s.rem n.cid = true := by simpa [remf] using hnrem
            simp only [hp, if_true, List.cons.injEq] at al
            obtain ⟨hit', _⟩ := al
            rw [← hit'] at hb0
            simp only [Nat.lt_irrefl, decide_false, Bool.false_or] at hb0
            by_cases hsq : n.cid ∈ seenQ
            · have hh := seen n.cid hsq
              rw [storeOf_shared s i hG.own] at hh
              unfold Has at hh
              rw [hs0] at hh
              cases hh
            · simp [hsq] at hb0
          · obtain ⟨_, _, _, m4, m5⟩ := hmi2 hd
            have r2 := hr2 hd
            have hfn : remf s.rem n.cid = false := by
              have hm : (n.cid, n.path) ∈ missingOf ((delivOut s i r w ws').evs.getD i []) := by
                rw [hevs', missingOf_append]
                have : missingOf (reqMsg r s.store w).2 = [(n.cid, n.path)] := congrArg (fun x => x.2.1) r2
                rw [this]
                exact List.mem_append_right _ List.mem_cons_self
              have := hnext n.cid n.path hm
              rw [f8] at this
              simpa [remf] using this
            have hcur : cur (delivOut s i r w ws') i = skipSub n post := by
              rw [cur_of _ i _ hr']
              cases hsk : skipSub n post with
              | nil => rw [m4 hsk]; rfl
              | cons m post' =>
                obtain ⟨k1, _⟩ := m5 m post' hsk
                rw [k1.ph, k1.todo]; rfl
            refine ⟨?_, hlen'⟩
            rw [hcur, f8, hevs', resOfEvs_append, r2, resApp_assoc, ← refEvs_missing _ n post hfn]
            exact h

theorem AL_RES_run (R : TRec) (lt : LT) (i : Nat) :
    ∀ (τ : List Act) (s : Sys), (∀ a ∈ τ, a = .resp i ∨ a = .deliver i) → GOK s → AL R i s →
    EVM i s → RES lt i s → AL R i (Concurrent.run s τ) ∧ RES lt i (Concurrent.run s τ)
  | [], _, _, _, h, _, r => ⟨h, r⟩
  | a :: τ, s, hτ, hG, h, e, r => by
    have ih := AL_RES_run R lt i τ (Concurrent.step s a) (fun b hb => hτ b (List.mem_cons_of_mem _ hb)) (GOK_step s a hG).1
    rcases hτ a List.mem_cons_self with rfl | rfl
    · exact ih (AL_resp R i s h) (EVM_resp i s e) (RES_resp lt i s r)
    · exact ih (AL_deliver R i s hG h e).1 (AL_deliver R i s hG h e).2 (RES_deliver R lt i s hG h e r)

/-- at the end of a complete run the cursor is empty -/
theorem cur_complete (R : TRec) (i : Nat) (s : Sys) (h : AL R i s) (hc : Complete i s) : cur s i = [] := by
  cases h with
  | over hov =>
    unfold cur
    cases hr : s.reqs[i]? with
    | none => rfl
    | some r => simp [hov r hr]
  | running r rr ws n post remPre seenQ seenR wR N hr hrr hcn pk vs held stale wf dep seen ti rm rdep al w14 wend wok =>
    exfalso
    obtain ⟨c1, c2⟩ := hc
    have ha := c1 rr hrr
    have hws : ws = [] := by
      rw [List.getD_eq_getElem?_getD, hcn] at c2
      exact c2
    subst hws
    rw [ha] at al
    simp only [itemsOf, List.flatMap_nil, List.nil_append, Bool.false_eq_true, if_false] at al
    exact respItemsW_ne_nil _ _ (by simp) _ _ al

/-! ## the start -/

theorem start_shape (st : List (Cid × Blk)) (rem : List Cid) (lts : List LT) (keys : List (Option Key)) (i : Nat)
    (lt : LT) (hl : lts[i]? = some lt) :
    (Concurrent.step (initSys st rem lts keys) (.start i)).reqs[i]? = some (reqStart {} st lt).1 ∧
    (Concurrent.step (initSys st rem lts keys) (.start i)).evs[i]? = some (reqStart {} st lt).2 ∧
    (Concurrent.step (initSys st rem lts keys) (.start i)).rem = rem := by
  have hev0 : (initSys st rem lts keys).evs[i]? = some [] := by
    simp only [initSys, List.getElem?_map, hl, Option.map_some]
  have hreq : (initSys st rem lts keys).reqs[i]? = some {} := by
    simp only [initSys, List.getElem?_map, hl, Option.map_some]
  have hlt : (initSys st rem lts keys).lts[i]? = some lt := hl
  have hown : (initSys st rem lts keys).own = [] := rfl
  have hstore : (initSys st rem lts keys).store = st := rfl
  have hrem : (initSys st rem lts keys).rem = rem := rfl
  generalize initSys st rem lts keys = B at hreq hlt hown hstore hev0 hrem
  simp only [Concurrent.step, hreq, hlt]
  have hph : (({} : Requestor.State).phase != Phase.idle) = false := rfl
  rw [if_neg (by rw [hph]; simp)]
  rw [storeOf_shared B i hown, hstore]
  generalize reqStart {} st lt = rq
  obtain ⟨r', ev⟩ := rq
  simp only
  rw [putStore_shared B i _ hown]
  have hgd : B.evs.getD i [] = [] := by rw [List.getD_eq_getElem?_getD, hev0]; rfl
  have e1 : (setAt B.reqs i r')[i]? = some r' := set_self_some _ _ _ _ hreq
  have e2 : (setAt B.evs i (B.evs.getD i [] ++ ev))[i]? = some ev := by
    rw [hgd]; exact set_self_some _ _ _ _ hev0
  split
  · exact ⟨e1, e2, hrem⟩
  · exact ⟨e1, e2, hrem⟩

theorem resApp_nil_left (a : List (Cid × Path) × List (Cid × Path) × Nat) : resApp ([], [], 0) a = a := by
  simp [resApp]

theorem resOfEvs_localEvs_cons (n : LNode) (rest : List LNode) (k : Nat) :
    resOfEvs (localEvs (n :: rest) k) = resApp ([(n.cid, n.path)], [], n.vData) (resOfEvs (localEvs rest (k + 1))) := by
  have : localEvs (n :: rest) k = [Ev.block n.cid n.path true (k + 1), Ev.prog n.vData] ++ localEvs rest (k + 1) := rfl
  rw [this, resOfEvs_append]
  simp [resOfEvs, blocksOf, missingOf, deliveredOf]

/-- the reference reports of a prefix the responder holds are the local deliveries of that prefix -/
theorem refEvs_prefix (f : Cid → Bool) : ∀ (pre c : LT) (k : Nat), (∀ m ∈ pre, f m.cid = true) →
    refEvs f (pre ++ c) = resApp (resOfEvs (localEvs pre k)) (refEvs f c)
  | [], c, k, _ => by
    have : resOfEvs (localEvs [] k) = ([], [], 0) := rfl
    rw [this, resApp_nil_left]; rfl
  | n :: rest, c, k, h => by
    rw [List.cons_append, refEvs_present f n (rest ++ c) (h n List.mem_cons_self),
      refEvs_prefix f rest c (k + 1) (fun m hm => h m (List.mem_cons_of_mem _ hm)),
      resOfEvs_localEvs_cons, resApp_assoc]

theorem RES_of_start (st : List (Cid × Blk)) (rem : List Cid) (lts : List LT) (keys : List (Option Key)) (i : Nat)
    (lt c : LT) (hl : lts[i]? = some lt)
    (hc : (if (reqStart {} st lt).1.phase = .running then (reqStart {} st lt).1.todo else []) = c)
    (hres : resApp (resOfEvs (reqStart {} st lt).2) (refEvs (remf rem) c) = refEvs (remf rem) lt) :
    RES lt i (Concurrent.step (initSys st rem lts keys) (.start i)) := by
  obtain ⟨e1, e2, e3⟩ := start_shape st rem lts keys i lt hl
  refine ⟨?_, by rw [e2]; rfl⟩
  rw [cur_of _ i _ e1, hc, e3, List.getD_eq_getElem?_getD, e2]
  exact hres

end GS.C20
