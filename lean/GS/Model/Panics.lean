import GS.Generated.PanicSites
import GS.Generated.PanicHandler
/-!
# Panics in per-request code (property C22)

The part of go-graphsync this models: while a request is executed, the library calls functions the
user supplied (storage read / write functions, codec decoder, node reifier, prototype chooser, the
selector machinery working on user nodes).  Each such call runs on some goroutine; a Go panic
unwinds that goroutine's stack and

* if a deferred function that calls `recover()` lies on the stack (a *recover frame*:
  `ipldutil/traverser.go start`, `executor.traverseRecovered`, `queryexecutor.runTraversalRecovered`),
  the panic becomes a `panics.RecoveredPanicErr` (`panics.MakeHandler`), the configured panic
  callback is called with the panic object, and the error takes the ordinary error path of **that
  request** (requestor: error channel; responder: terminal status `RequestFailedUnknown`);
* otherwise the Go runtime terminates the **process**: every request is lost.

Which call sites have a recover frame is not modelled by hand: it is the generated table
`GS.Generated.PanicSites.table` (translator `translate/panicsites`), read here through `framesOf`.
What a recover frame does with the recovered value is not modelled by hand either: it is the
statement list of `panics.MakeHandler`, `GS.Generated.PanicHandler.steps` (translator
`translate/panichandler`), interpreted by `runHandler`; `stepReq` takes the outcome of a recovered
panic from it (`handled`).

A request is the script of user-function calls its execution makes, in order (one group of calls
per block); a call returns normally, returns an error, or panics.  A system is a list of requests
that are advanced in an arbitrary interleaving (`run` over a schedule = list of request indices),
plus the `crashed` flag and the log of panic-callback invocations.

Core Lean only.
-/
namespace GS.Panics
open GS.Generated.PanicSites

/-- result of one call of a user-supplied function -/
inductive Res
  | ok | err | panic
  deriving DecidableEq, Repr

/-- one call of a user-supplied function made while executing a request -/
structure Call where
  side : Side
  kind : Kind
  res  : Res
  deriving DecidableEq, Repr

/-- which call sites (by side and kind) run under a recover frame -/
abbrev Frames := Side → Kind → Bool

inductive Outcome
  | running                                   -- not finished yet
  | completed                                 -- finished, no error
  | failed                                    -- a user function returned an error: ordinary failure of this request
  | panicErr (side : Side) (kind : Kind)      -- a RecoveredPanicErr was delivered for this request
  deriving DecidableEq, Repr

structure Req where
  script : List Call      -- calls still to be made
  out    : Outcome
  deriving DecidableEq, Repr

/-- effect of one step of one request on the rest of the system -/
inductive Eff
  | none
  | cb (side : Side) (kind : Kind)            -- panic callback invoked
  | crash                                     -- unrecovered panic: the process dies
  deriving DecidableEq, Repr

/-! ## The panic handler (`panics.MakeHandler`), interpreted from its generated statement list

The handler is polymorphic in the panic value (`α`): no statement of the vocabulary can inspect it.
`none` stands for Go's `recover()` returning nil (no panic). -/

/-- what the handler returns -/
inductive HRet (α : Type)
  | fellThrough                      -- ran off the end (not expressible in Go; kept for totality)
  | nil                              -- `return nil`: no error for the request
  | recovered (obj : Option α)       -- `RecoveredPanicErr{PanicObj: obj, …}`
  | nilCallback                      -- called a nil callback: the handler itself panics
  deriving DecidableEq, Repr

structure HOut (α : Type) where
  ret : HRet α
  cbs : List (Option α)              -- callback invocations, with the object passed
  deriving DecidableEq, Repr

open GS.Generated.PanicHandler (Step) in
def runSteps {α : Type} (cbSet : Bool) (v : Option α) : List Step → List (Option α) → HOut α
  | [], cbs => { ret := .fellThrough, cbs := cbs }
  | .returnNilIfNil :: rest, cbs =>
    match v with
    | none => { ret := .nil, cbs := cbs }
    | some _ => runSteps cbSet v rest cbs
  | .captureStack :: rest, cbs => runSteps cbSet v rest cbs
  | .callbackIfSet :: rest, cbs => runSteps cbSet v rest (if cbSet then cbs ++ [v] else cbs)
  | .callback :: rest, cbs =>
    if cbSet then runSteps cbSet v rest (cbs ++ [v]) else { ret := .nilCallback, cbs := cbs }
  | .returnNil :: _, cbs => { ret := .nil, cbs := cbs }
  | .returnRecovered :: _, cbs => { ret := .recovered v, cbs := cbs }

/-- `panics.MakeHandler(cb)(v)` as the source has it now -/
def runHandler {α : Type} (cbSet : Bool) (v : Option α) : HOut α :=
  runSteps cbSet v GS.Generated.PanicHandler.steps []

/-- what a recover frame makes of a panic raised by the call (side, kind): the request's outcome and
the effect on the callback log (the harness and every theorem have a callback configured) -/
def handled (sd : Side) (k : Kind) : Outcome × Eff :=
  let o := runHandler true (some (sd, k))
  (match o.ret with
   | .recovered (some (s, k')) => .panicErr s k'
   | .nil => .completed            -- the panic would be swallowed: the request looks successful
   | _ => .failed,
   match o.cbs with
   | [some (s, k')] => .cb s k'
   | _ => .none)

/-- one step of one request: make its next call -/
def stepReq (fr : Frames) (r : Req) : Req × Eff :=
  match r.out with
  | .running =>
    match r.script with
    | [] => ({ script := [], out := .completed }, .none)
    | c :: rest =>
      match c.res with
      | .ok => ({ script := rest, out := .running }, .none)
      | .err => ({ script := [], out := .failed }, .none)
      | .panic =>
        if fr c.side c.kind then ({ script := [], out := (handled c.side c.kind).1 }, (handled c.side c.kind).2)
        else (r, .crash)
  | _ => (r, .none)

/-- a callback-log entry: (request index, side, kind) -/
abbrev CbEntry := Nat × Side × Kind

structure Sys where
  reqs    : List Req
  crashed : Bool
  cbLog   : List CbEntry
  deriving Repr

def init (reqs : List Req) : Sys := { reqs := reqs, crashed := false, cbLog := [] }

/-- the scheduler lets request `i` make one step.  Nothing runs in a dead process. -/
def step (fr : Frames) (s : Sys) (i : Nat) : Sys :=
  if s.crashed then s else
  match s.reqs[i]? with
  | none => s
  | some r =>
    match stepReq fr r with
    | (_, .crash) => { s with crashed := true }
    | (r', .none) => { s with reqs := s.reqs.set i r' }
    | (r', .cb sd k) => { s with reqs := s.reqs.set i r', cbLog := s.cbLog ++ [(i, sd, k)] }

def run (fr : Frames) (s : Sys) (sched : List Nat) : Sys := sched.foldl (step fr) s

/-- what an observer sees of request `j`: nothing at all once the process has died, otherwise its
state and the panic callbacks that concerned it -/
def view (s : Sys) (j : Nat) : Option (Option Req × List CbEntry) :=
  if s.crashed then none else some (s.reqs[j]?, s.cbLog.filter (fun e => e.1 == j))

/-- a request executed alone for `n` steps: final state and the callbacks it caused -/
def runReq (fr : Frames) : Nat → Req → Req × List (Side × Kind)
  | 0, r => (r, [])
  | n + 1, r =>
    match stepReq fr r with
    | (r', .cb sd k) => let (r'', cbs) := runReq fr n r'; (r'', (sd, k) :: cbs)
    | (r', _) => runReq fr n r'

/-- every panic in the script happens at a site with a recover frame -/
def safeScript (fr : Frames) (cs : List Call) : Prop :=
  ∀ c ∈ cs, c.res = .panic → fr c.side c.kind = true

/-- replace the result of the `pos`-th call by a panic -/
def injectScript : List Call → Nat → List Call
  | [], _ => []
  | c :: cs, 0 => { c with res := .panic } :: cs
  | c :: cs, n + 1 => c :: injectScript cs n

def injectReq (r : Req) (pos : Nat) : Req := { r with script := injectScript r.script pos }

/-! ## Frames read from the generated site table -/

def listedKinds : List Kind :=
  [.codec, .reifier, .chooser, .selector,
   .storageRead, .storageReadStream, .storageWriteOpener, .storageWriteBuffer, .storageWriteCommitter]

def sideEq (a b : Side) : Bool := decide (a = b)
def kindEq (a b : Kind) : Bool := decide (a = b)

/-- a call of kind `k` on side `sd` is under a recover frame iff every site of that kind and side
in the table is -/
def framesOf (t : List Site) : Frames :=
  fun sd k => t.all (fun s => !(sideEq s.side sd && kindEq s.kind k) || s.recovered)

/-- the table has a call site of that kind on that side at all -/
def hasSite (t : List Site) (sd : Side) (k : Kind) : Bool :=
  t.any (fun s => sideEq s.side sd && kindEq s.kind k)

/-! ## The exchange the harness runs (driver only)

A linear chain of `n` blocks, block 0 the root; the requestor already holds the first `pre` blocks.
Per block, in order of execution:

* requestor: chooser; then the block is obtained - from the local store (`storageRead`, and
  `storageReadStream` when it was found) while `b < pre`; the first locally missing block is still
  looked up locally (`storageRead`, not found - a normal return) before the remote request is sent;
  every block from `pre` on arrives from the network and is stored (`storageWriteOpener`,
  `storageWriteBuffer`, `storageWriteCommitter`); then decoder, reifier, selector exploration.
* responder (only when a remote request is sent, `pre < n`): it traverses the whole chain from the
  root (blocks the requestor has are traversed but not sent): chooser, `storageRead`,
  `storageReadStream`, decoder, reifier, selector exploration.

Calls for which the site table has no entry on that side do not exist (e.g. storage writes on the
responder).  The relative order of the two peers' calls is immaterial here (a single fault).
-/

def reqBlock (pre b : Nat) : List (Side × Kind) :=
  [(.requestor, .chooser)]
  ++ (if b ≤ pre then [(.requestor, .storageRead)] else [])
  ++ (if b < pre then [(.requestor, .storageReadStream)] else [])
  ++ (if pre ≤ b then [(.requestor, .storageWriteOpener), (.requestor, .storageWriteBuffer),
                        (.requestor, .storageWriteCommitter)] else [])
  ++ [(.requestor, .codec), (.requestor, .reifier), (.requestor, .selector)]

def respBlock : List (Side × Kind) :=
  [(.responder, .chooser), (.responder, .storageRead), (.responder, .storageReadStream),
   (.responder, .storageWriteOpener), (.responder, .storageWriteBuffer), (.responder, .storageWriteCommitter),
   (.responder, .codec), (.responder, .reifier), (.responder, .selector)]

/-- the calls of one request, tagged with their block index -/
def exchange (t : List Site) (n pre : Nat) : List (Nat × Side × Kind) :=
  let req := (List.range n).flatMap (fun b => (reqBlock pre b).map (fun sk => (b, sk.1, sk.2)))
  let resp := if pre < n then (List.range n).flatMap (fun b => respBlock.map (fun sk => (b, sk.1, sk.2))) else []
  (resp ++ req).filter (fun c => hasSite t c.2.1 c.2.2)

/-- the script of a request in which the call of `kind` on `side` for block `k` panics (if there is
such a call) -/
def scriptWith (t : List Site) (n pre : Nat) (inj : Option (Side × Kind × Nat)) : List Call :=
  (exchange t n pre).map (fun c =>
    let hit := match inj with
      | some (sd, kd, k) => sideEq c.2.1 sd && kindEq c.2.2 kd && c.1 == k
      | none => false
    { side := c.2.1, kind := c.2.2, res := if hit then .panic else .ok })

/-- round-robin schedule over `m` requests, `rounds` rounds -/
def roundRobin (m rounds : Nat) : List Nat :=
  (List.range rounds).flatMap (fun _ => List.range m)

structure Prediction where
  survived : Bool
  fired    : Bool
  err      : String
  cb       : Nat
  valOK    : Bool      -- callback(s) and error carry the value of exactly the injected call
  sibling  : Bool

/-- what the harness should observe for `inject side kind k n pre`: request 0 is the target,
requests 1 and 2 are the siblings -/
def predict (t : List Site) (sd : Side) (kd : Kind) (k n pre : Nat) : Prediction :=
  let target : Req := { script := scriptWith t n pre (some (sd, kd, k)), out := .running }
  let sib : Req := { script := scriptWith t n 0 none, out := .running }
  let s0 := init [target, sib, sib]
  let rounds := target.script.length + sib.script.length + 2
  let s := run (framesOf t) s0 (roundRobin 3 rounds)
  let done (j : Nat) : Bool := match s.reqs[j]? with
    | some r => decide (r.out = .completed)
    | none => false
  let tout := match s.reqs[0]? with
    | some r => r.out
    | none => .running
  let fired := s.crashed || (match tout with | .panicErr _ _ => true | _ => false)
  let err := if s.crashed then "-" else match tout with
    | .completed => "none"
    | .panicErr .requestor _ => "panic"      -- the client gets the RecoveredPanicErr itself
    | .panicErr .responder _ => "failed"     -- the responder ends the response with RequestFailedUnknown
    | .failed => "other"
    | .running => "hang"
  { survived := !s.crashed, fired := fired, err := err,
    cb := (s.cbLog.filter (fun e => e.1 == 0)).length,
    valOK := (s.cbLog.filter (fun e => e.1 == 0)).all (fun e => sideEq e.2.1 sd && kindEq e.2.2 kd)
              && (match tout with | .panicErr s' k' => sideEq s' sd && kindEq k' kd | _ => true),
    sibling := !s.crashed && done 1 && done 2 }

end GS.Panics
