// Package panics is the harness component `panics` (property C22: a panic in per-request code
// fails only that request).
//
// A Go panic that nobody recovers kills the whole process, so every fault injection runs in a
// SUBPROCESS: `gs-panics run` re-executes its own binary (`gs-panics child …`) once per op
//
//	inject <side> <kind> <block> <n> <pre> <ls> [<val> [<lim>]]
//
// and the child runs a real two-peer exchange (impl.New on both ends of a libp2p mocknet, in-memory
// link systems) in which the user-supplied function of kind <kind> on side <side> panics when it is
// called for block <block> of the TARGET request:
//
//	side   requestor | responder
//	kind   codec | reifier | chooser | selector | storage-read | storage-read-stream |
//	       storage-write-opener | storage-write-buffer | storage-write-committer
//	n      length of the (linear) block chain of every request; block 0 is the root
//	pre    number of leading blocks of the target chain the requestor already holds locally
//	ls     def: the target request uses the link system passed to impl.New, the concurrent sibling
//	       uses a registered persistence option; opt: the other way round
//	val    what is passed to panic (default str): str (a string) | err (an error value) |
//	       rt-nilmap, rt-nilptr, rt-index (genuine runtime.Error panics: write to a nil map, nil
//	       dereference, index out of range) | struct (a comparable struct value)
//
//	lim    wide (default): default worker counts.  tight: the responder runs ONE worker with at most
//	       one task in progress per peer (MaxInProgressIncomingRequests(1),
//	       MaxInProgressIncomingRequestsPerPeer(1)) and, for requestor-side injections, the requestor
//	       runs one worker too (MaxInProgressOutgoingRequests(1)): a task slot that the failed
//	       request does not give back starves every later request
//
// A second op, `handler <nil|str|err|rt|struct> <cb|nocb>`, calls panics.MakeHandler directly (in
// process) on such a value, with and without a callback, and prints what it returned and passed on.
//
// Besides the target request there are two SIBLING requests between the same two peers over other
// chains: one started before the target and running concurrently with it, one started after the
// target has terminated.  A panic callback is registered on both peers.
//
// Output line per op (identical in format to the Lean model's, `gsm-panics`):
//
//	survived=<0|1> fired=<0|1> err=<none|panic|failed|hang|other> cb=<k> val=<0|1|-> sibling=<0|1> late=<0|1> leak=<0|1> res=tasks:<k>,table:<k>
//
// survived: the child process exited normally (a crashed child prints `survived=0 fired=1 err=- cb=- val=- sibling=- late=- leak=- res=-`);
// fired: the injected function was actually reached and panicked; err: what the requesting client
// got on the target request's error channel (panic = a panics.RecoveredPanicErr carrying the
// injected object, failed = the responder terminated the request with a failure status);
// cb: number of panic-callback invocations on the injected side; val: every one of them carried the
// very value that was passed to panic, and so does the RecoveredPanicErr where it is visible
// in-process (`-` when nothing fired);
// sibling: both sibling requests delivered every block of their chains without error; late: the
// request submitted AFTER the target terminated (same peers, same link system) completed fully;
// leak: once everything has drained, some resource is still held on either node - Stats() shows an
// active or pending task or allocated response memory, or PeerState() still lists a request /
// reports an inconsistency (Diagnostics); res: what is left after the drain, counted over both nodes -
// task-queue entries (active + pending) and request / response table entries (allocated response
// memory is reported in the detail and by the oracle, the model does not have it).
//
// The oracle is written from the property sentence, not from the model: whenever the injected
// panic fired - whatever kind of value it carried - the process must survive, the target request
// must get an error (a panics.RecoveredPanicErr with that value on the side where it is local, a
// failure status on the other), the callback must have been called exactly once with that very
// value, and both siblings must complete.
package panics

import (
	"bufio"
	"bytes"
	"context"
	"errors"
	"fmt"
	"io"
	"math/rand"
	"os"
	"os/exec"
	"runtime"
	"strconv"
	"strings"
	"sync"
	"sync/atomic"
	"time"

	"github.com/ipfs/go-cid"
	"github.com/ipfs/go-graphsync"
	gsimpl "github.com/ipfs/go-graphsync/impl"
	gsnet "github.com/ipfs/go-graphsync/network"
	gspanics "github.com/ipfs/go-graphsync/panics"
	"github.com/ipld/go-ipld-prime"
	"github.com/ipld/go-ipld-prime/codec"
	"github.com/ipld/go-ipld-prime/codec/dagcbor"
	"github.com/ipld/go-ipld-prime/datamodel"
	"github.com/ipld/go-ipld-prime/fluent/qp"
	"github.com/ipld/go-ipld-prime/linking"
	cidlink "github.com/ipld/go-ipld-prime/linking/cid"
	"github.com/ipld/go-ipld-prime/node/basicnode"
	"github.com/ipld/go-ipld-prime/traversal"
	"github.com/ipld/go-ipld-prime/traversal/selector"
	"github.com/ipld/go-ipld-prime/traversal/selector/builder"
	"github.com/libp2p/go-libp2p/core/peer"
	mocknet "github.com/libp2p/go-libp2p/p2p/net/mock"

	"verifharness/reg"
)

// PanicObj is the value a `str` injection passes to panic.
const PanicObj = "verif-injected-panic"

// Vals are the kinds of panic values.
var Vals = []string{"str", "err", "rt-nilmap", "rt-nilptr", "rt-index", "struct"}

var errInjected = errors.New("verif-injected-error")

type injectedStruct struct {
	Code int
	Msg  string
}

var structInjected = injectedStruct{42, "verif-injected-struct"}

var sink int

// raise panics with a value of the given kind; the rt-* kinds are genuine runtime panics.
func raise(val string) {
	switch val {
	case "err":
		panic(errInjected)
	case "rt-nilmap":
		var m map[string]int
		m["x"] = 1
	case "rt-nilptr":
		var p *injectedStruct
		sink = p.Code
	case "rt-index":
		s := make([]int, sink&1)
		sink = s[len(s)+3]
	case "struct":
		panic(structInjected)
	}
	panic(PanicObj)
}

// valueOK: is obj the very value an injection of kind val raised?  string / struct: equal; error:
// the same error value; runtime panics: a runtime.Error of the expected message class.
func valueOK(val string, obj any) bool {
	switch val {
	case "str":
		return obj == any(PanicObj)
	case "err":
		e, ok := obj.(error)
		return ok && e == errInjected
	case "struct":
		v, ok := obj.(injectedStruct)
		return ok && v == structInjected
	}
	re, ok := obj.(runtime.Error)
	if !ok {
		return false
	}
	want := map[string]string{"rt-nilmap": "assignment to entry in nil map", "rt-nilptr": "nil pointer dereference", "rt-index": "index out of range"}[val]
	return want != "" && strings.Contains(re.Error(), want)
}

var Sides = []string{"requestor", "responder"}
var Kinds = []string{"codec", "reifier", "chooser", "selector", "storage-read", "storage-read-stream",
	"storage-write-opener", "storage-write-buffer", "storage-write-committer"}

// ExtraKinds are accepted by the child but never generated (experiments, see STATUS.md):
// selspec = the selector spec node handed to Request panics on its <block>-th access.
var ExtraKinds = []string{"selspec"}

func init() {
	reg.Register(&reg.Component{Name: "panics", Gen: gen, Run: run})
}

// ---------------------------------------------------------------------------------------------
// generator

type op struct {
	side, kind string
	block, n   int
	pre        int
	ls         string
	val        string
	lim        string
}

func (o op) String() string {
	return fmt.Sprintf("inject %s %s %d %d %d %s %s %s", o.side, o.kind, o.block, o.n, o.pre, o.ls, o.val, o.lim)
}

// reachedPre picks, for a block index, a local prefix length under which the injected function is
// (mostly) actually called for that block; a minority of choices is deliberately unreachable.
func pickPre(r *rand.Rand, side, kind string, k, n int) int {
	if r.Intn(6) == 0 {
		return r.Intn(n + 1) // anything, including "everything local" (responder never involved)
	}
	if side == "requestor" {
		switch kind {
		case "storage-read": // called for blocks 0..pre (the first locally missing one included)
			return k + r.Intn(n-k)
		case "storage-read-stream": // read only for blocks found locally
			return k + 1 + r.Intn(n-k)
		case "storage-write-opener", "storage-write-buffer", "storage-write-committer":
			return r.Intn(k + 1) // written only when fetched remotely: blocks pre..n-1
		}
	}
	return r.Intn(n) // pre < n so that the responder takes part
}

func gen(seed int64, count int, tier string, w *bufio.Writer) {
	r := rand.New(rand.NewSource(seed))
	id := 0
	emit := func(ops []op) {
		fmt.Fprintf(w, "case g%d\n", id)
		id++
		for _, o := range ops {
			fmt.Fprintln(w, o.String())
		}
	}
	// systematic part: every kind x side at block indices {0, 1, middle, last}
	n := 8
	blocks := []int{0, 1, n / 2, n - 1}
	lss := []string{"def"}
	if tier == "thorough" {
		blocks = []int{0, 1, 2, n / 2, n - 2, n - 1}
		lss = []string{"def", "opt"}
	}
	// the kinds of panic VALUES are spread over the injections (round robin), not multiplied
	vi := 0
	nextVal := func() string { vi++; return Vals[(vi-1)%len(Vals)] }
	// two of three injections run under tight limits (one worker, one task per peer)
	li := 0
	nextLim := func() string {
		li++
		if li%3 == 0 {
			return "wide"
		}
		return "tight"
	}
	// a few direct calls of panics.MakeHandler (in process, cheap)
	fmt.Fprintf(w, "case g-handler\n")
	for _, v := range []string{"nil", "str", "err", "rt", "struct"} {
		for _, cb := range []string{"cb", "nocb"} {
			fmt.Fprintf(w, "handler %s %s\n", v, cb)
		}
	}
	emitted := 0
	for si, side := range Sides {
		for ki, kind := range Kinds {
			for _, ls := range lss {
				var ops []op
				vi = si*len(Kinds) + ki // rotate the starting value per (side, kind)
				for _, k := range blocks {
					ops = append(ops, op{side, kind, k, n, pickPre(r, side, kind, k, n), ls, nextVal(), nextLim()})
				}
				emit(ops)
				emitted++
			}
			if tier == "thorough" {
				// every kind x side x value kind at a block where the injection is certainly reached
				pre := 0
				if kind == "storage-read" || kind == "storage-read-stream" {
					pre = 2
				}
				var ops []op
				for _, v := range Vals {
					ops = append(ops, op{side, kind, 1, n, pre, "def", v, nextLim()})
				}
				emit(ops)
			}
		}
	}
	// random part
	for ; emitted < count; emitted++ {
		n := 3 + r.Intn(10)
		side := Sides[r.Intn(2)]
		kind := Kinds[r.Intn(len(Kinds))]
		ls := []string{"def", "opt"}[r.Intn(2)]
		var ops []op
		for j := 0; j < 3; j++ {
			k := r.Intn(n)
			ops = append(ops, op{side, kind, k, n, pickPre(r, side, kind, k, n), ls, Vals[r.Intn(len(Vals))], nextLim()})
		}
		emit(ops)
	}
}

// ---------------------------------------------------------------------------------------------
// `handler <value> <cb|nocb>`: panics.MakeHandler called directly

func handlerOp(t []string) (result, bool) {
	var res result
	if len(t) != 3 || t[0] != "handler" || !contains([]string{"nil", "str", "err", "rt", "struct"}, t[1]) || (t[2] != "cb" && t[2] != "nocb") {
		return res, false
	}
	var v any
	val := t[1]
	switch t[1] {
	case "str":
		v = PanicObj
	case "err":
		v = errInjected
	case "struct":
		v = structInjected
	case "rt":
		val = "rt-nilmap"
		func() {
			defer func() { v = recover() }()
			raise("rt-nilmap")
		}()
	}
	var got []any
	var cb gspanics.CallBackFn
	if t[2] == "cb" {
		cb = func(obj any, stack string) { got = append(got, obj) }
	}
	err := gspanics.MakeHandler(cb)(v)
	var rpe gspanics.RecoveredPanicErr
	isRPE := err != nil && errors.As(err, &rpe)
	objOK := isRPE && v != nil && valueOK(val, rpe.PanicObj)
	cbval := "-"
	if len(got) > 0 {
		ok := true
		for _, g := range got {
			ok = ok && v != nil && valueOK(val, g)
		}
		cbval = strconv.Itoa(b2i(ok))
	}
	res.line = fmt.Sprintf("nil=%d rpe=%d obj=%d cb=%d cbval=%s", b2i(err == nil), b2i(isRPE), b2i(objOK), len(got), cbval)
	// oracle, from the property sentence: every panic (non-nil value) becomes a RecoveredPanicErr-kind
	// error carrying the value and is passed to the configured callback exactly once; no panic, no error
	tag := "handler-" + t[1]
	if v == nil {
		if err != nil || len(got) != 0 {
			res.fails = append(res.fails, [2]string{"handler-spurious", fmt.Sprintf("MakeHandler reported a panic for recover() == nil: err=%v callbacks=%d", err, len(got))})
		}
	} else {
		if !objOK {
			res.fails = append(res.fails, [2]string{"not-recovered-err-" + tag, fmt.Sprintf("MakeHandler(%s value) did not return a RecoveredPanicErr carrying the value: %T %v", t[1], err, err)})
		}
		if t[2] == "cb" && len(got) == 0 {
			res.fails = append(res.fails, [2]string{"no-callback-" + tag, fmt.Sprintf("MakeHandler(%s value) did not call the configured callback", t[1])})
		}
		if len(got) > 1 {
			res.fails = append(res.fails, [2]string{"callback-count-" + tag, fmt.Sprintf("MakeHandler(%s value) called the callback %d times", t[1], len(got))})
		}
		if cbval == "0" {
			res.fails = append(res.fails, [2]string{"wrong-callback-value-" + tag, fmt.Sprintf("MakeHandler(%s value) passed a different value to the callback", t[1])})
		}
	}
	res.cov = append(res.cov, "handler:"+t[1]+"-"+t[2])
	return res, true
}

// ---------------------------------------------------------------------------------------------
// parent: run every op in a subprocess

type result struct {
	line  string      // the compared output line
	fails [][2]string // oracle failures (class, message)
	cov   []string
}

func parseOp(t []string) (op, bool) {
	if len(t) < 7 || len(t) > 9 || t[0] != "inject" {
		return op{}, false
	}
	val := "str" // older case files have no value token
	if len(t) >= 8 {
		val = t[7]
	}
	lim := "wide"
	if len(t) == 9 {
		lim = t[8]
	}
	if lim != "wide" && lim != "tight" {
		return op{}, false
	}
	k, e1 := strconv.Atoi(t[3])
	n, e2 := strconv.Atoi(t[4])
	pre, e3 := strconv.Atoi(t[5])
	if e1 != nil || e2 != nil || e3 != nil || k < 0 || n < 1 || n > 64 || k >= n || pre < 0 || pre > n {
		return op{}, false
	}
	o := op{t[1], t[2], k, n, pre, t[6], val, lim}
	if !contains(Vals, val) {
		return op{}, false
	}
	if !contains(Sides, o.side) || !(contains(Kinds, o.kind) || contains(ExtraKinds, o.kind)) || (o.ls != "def" && o.ls != "opt") {
		return op{}, false
	}
	return o, true
}

func contains(xs []string, x string) bool {
	for _, y := range xs {
		if x == y {
			return true
		}
	}
	return false
}

const childTimeout = 60 * time.Second

func runOne(o op) result {
	var res result
	ctx, cancel := context.WithTimeout(context.Background(), childTimeout)
	defer cancel()
	cmd := exec.CommandContext(ctx, os.Args[0], "child", o.side, o.kind, strconv.Itoa(o.block), strconv.Itoa(o.n), strconv.Itoa(o.pre), o.ls, o.val, o.lim)
	var stdout, stderr bytes.Buffer
	cmd.Stdout = &stdout
	cmd.Stderr = &stderr
	cmd.Env = os.Environ()
	err := cmd.Run()
	tag := o.kind + "-" + o.side
	fired := strings.Contains(stdout.String(), "#fired")
	var resLine string
	for _, l := range strings.Split(stdout.String(), "\n") {
		if strings.HasPrefix(l, "result ") {
			resLine = strings.TrimPrefix(l, "result ")
		}
	}
	tail := stderr.String()
	if len(tail) > 600 {
		tail = tail[:600]
	}
	tail = strings.ReplaceAll(tail, "\n", " | ")
	if err != nil || resLine == "" {
		// the child died.  A Go panic exits with status 2 and prints "panic: <obj>" on stderr.
		res.line = fmt.Sprintf("survived=0 fired=%d err=- cb=- val=- sibling=- late=- leak=- res=-", b2i(fired))
		switch {
		case ctx.Err() != nil:
			res.fails = append(res.fails, [2]string{"harness-error", "child timed out: " + o.String()})
		case strings.Contains(stderr.String(), "panic:") && strings.Contains(stderr.String(), "panics.raise(") && fired:
			res.fails = append(res.fails, [2]string{"crash-" + tag, fmt.Sprintf("process died of the injected panic (%s): %v; stderr: %s", o.String(), err, tail)})
		case strings.Contains(stderr.String(), "panic:") || strings.Contains(stderr.String(), "fatal error:"):
			res.fails = append(res.fails, [2]string{"crash-other-" + tag, fmt.Sprintf("process crashed (%s): %v; stderr: %s", o.String(), err, tail)})
		default:
			res.fails = append(res.fails, [2]string{"harness-error", fmt.Sprintf("child failed (%s): %v; stderr: %s", o.String(), err, tail)})
		}
		res.cov = append(res.cov, "outcome:crashed")
		return res
	}
	// resLine: fired=… err=… cb=… sibling=… detail…
	f := map[string]string{}
	for _, kv := range strings.Fields(resLine) {
		if i := strings.IndexByte(kv, '='); i > 0 {
			f[kv[:i]] = kv[i+1:]
		}
	}
	res.line = fmt.Sprintf("survived=1 fired=%s err=%s cb=%s val=%s sibling=%s late=%s leak=%s res=%s", f["fired"], f["err"], f["cb"], f["val"], f["sibling"], f["late"], f["leak"], f["res"])
	detail := resLine
	// ---- oracle, from the property sentence
	if f["fired"] == "1" {
		if f["err"] == "none" || f["err"] == "hang" {
			res.fails = append(res.fails, [2]string{"no-error-" + tag, fmt.Sprintf("the injected panic was not turned into an error for the request (%s): %s", o.String(), detail)})
		}
		if o.side == "responder" && (f["client"] == "hang" || (f["client"] == "none" && f["clientcomplete"] != "1")) {
			// the remote client neither learned of the failure nor holds the complete result
			res.fails = append(res.fails, [2]string{"no-error-" + tag, fmt.Sprintf("the requesting client was left without an error and without the complete result (%s): %s", o.String(), detail)})
		}
		if o.side == "requestor" && f["err"] != "panic" && f["err"] != "none" && f["err"] != "hang" {
			res.fails = append(res.fails, [2]string{"not-recovered-err-" + tag, fmt.Sprintf("the error delivered for the request is not a RecoveredPanicErr (panic value kind %s; %s): %s", o.val, o.String(), detail)})
		}
		switch {
		case f["cb"] == "0":
			res.fails = append(res.fails, [2]string{"no-callback-" + tag, fmt.Sprintf("the panic callback was not called (panic value kind %s; %s): %s", o.val, o.String(), detail)})
		case f["cb"] != "1":
			res.fails = append(res.fails, [2]string{"callback-count-" + tag, fmt.Sprintf("the panic callback was called %s times for one panic (panic value kind %s; %s): %s", f["cb"], o.val, o.String(), detail)})
		}
		if f["val"] != "1" {
			res.fails = append(res.fails, [2]string{"wrong-callback-value-" + tag, fmt.Sprintf("the callback / the RecoveredPanicErr does not carry the value that was passed to panic (panic value kind %s; %s): %s", o.val, o.String(), detail)})
		}
		res.cov = append(res.cov, "val:"+o.val)
		res.cov = append(res.cov, "outcome:fired-err-"+f["err"])
	} else {
		if f["err"] != "none" || f["client"] != "none" {
			res.fails = append(res.fails, [2]string{"harness-error", fmt.Sprintf("request failed although nothing was injected (%s): %s", o.String(), detail)})
		}
		res.cov = append(res.cov, "outcome:not-reached")
	}
	if f["late"] != "1" {
		res.fails = append(res.fails, [2]string{"late-request-" + tag, fmt.Sprintf("a request submitted after the target request had terminated did not complete (limits %s; %s): %s", o.lim, o.String(), detail)})
	}
	if f["leak"] != "0" {
		what := f["leakwhat"]
		if f["fired"] == "1" {
			res.fails = append(res.fails, [2]string{"leak-after-panic-" + what + "-" + tag, fmt.Sprintf("after the recovered panic and after everything drained, %s is still held (%s): %s", what, o.String(), detail)})
		} else {
			res.fails = append(res.fails, [2]string{"harness-error", fmt.Sprintf("resources held although nothing was injected: %s (%s): %s", what, o.String(), detail)})
		}
	}
	res.cov = append(res.cov, "lim:"+o.lim)
	if f["sibling"] != "1" {
		res.fails = append(res.fails, [2]string{"sibling-" + tag, fmt.Sprintf("a sibling request did not complete (%s): %s", o.String(), detail)})
	}
	return res
}

func b2i(b bool) int {
	if b {
		return 1
	}
	return 0
}

func run(cases []reg.Case, out *reg.Out) {
	// flatten, run in a small worker pool, print in input order
	type job struct {
		ci, oi int
		o      op
		ok     bool
		pre    *result // already computed (in-process ops)
	}
	var jobs []job
	for ci, c := range cases {
		for oi, t := range c.Ops {
			o, ok := parseOp(t)
			if ok && contains(ExtraKinds, o.kind) {
				ok = false // experiments are only run by hand through `child`
			}
			var pre *result
			if hr, isH := handlerOp(t); isH {
				pre, ok = &hr, false
			}
			jobs = append(jobs, job{ci, oi, o, ok, pre})
		}
	}
	results := make([]result, len(jobs))
	par := runtime.NumCPU() / 2
	if par < 1 {
		par = 1
	}
	if par > 6 {
		par = 6
	}
	if v, err := strconv.Atoi(os.Getenv("GS_PANICS_PAR")); err == nil && v > 0 {
		par = v
	}
	var wg sync.WaitGroup
	next := int64(-1)
	for w := 0; w < par; w++ {
		wg.Add(1)
		go func() {
			defer wg.Done()
			for {
				i := int(atomic.AddInt64(&next, 1))
				if i >= len(jobs) {
					return
				}
				if jobs[i].pre != nil {
					results[i] = *jobs[i].pre
					continue
				}
				if !jobs[i].ok {
					results[i] = result{line: "bad-op"}
					continue
				}
				results[i] = runOne(jobs[i].o)
			}
		}()
	}
	wg.Wait()
	ji := 0
	for _, c := range cases {
		out.BeginCase(c)
		for range c.Ops {
			j, r := jobs[ji], results[ji]
			ji++
			out.Line("%s", r.line)
			for _, f := range r.fails {
				out.Fail(f[0], "%s", f[1])
			}
			for _, k := range r.cov {
				out.Cov(k)
			}
			if j.ok {
				out.Cov("kind:" + j.o.kind)
				out.Cov("side:" + j.o.side)
				out.Cov("ls:" + j.o.ls)
				switch {
				case j.o.block == 0:
					out.Cov("block:first")
				case j.o.block == j.o.n-1:
					out.Cov("block:last")
				default:
					out.Cov("block:inner")
				}
			} else if j.pre == nil {
				out.Cov("bad-op")
			}
		}
	}
}

// ---------------------------------------------------------------------------------------------
// child: one real exchange with one injected panic

// ChildMain is called by cmd/gs-panics when os.Args[1] == "child".
func ChildMain(args []string) {
	o, ok := parseOp(append([]string{"inject"}, args...))
	if !ok {
		fmt.Fprintln(os.Stderr, "child: bad arguments", args)
		os.Exit(3)
	}
	line, err := child(o)
	if err != nil {
		fmt.Fprintln(os.Stderr, "child: setup error:", err)
		os.Exit(3)
	}
	fmt.Println("result " + line)
	os.Exit(0)
}

type blockRef struct{ chain, idx int }

type chain struct {
	id    int
	links []datamodel.Link // links[0] = root (tip) … links[n-1] = genesis
	data  [][]byte
}

func buildChain(id, n int) (*chain, error) {
	c := &chain{id: id, links: make([]datamodel.Link, n), data: make([][]byte, n)}
	lp := cidlink.LinkPrototype{Prefix: cid.Prefix{Version: 1, Codec: 0x71, MhType: 0x12, MhLength: 32}}
	var prev datamodel.Link
	for i := n - 1; i >= 0; i-- {
		payload := bytes.Repeat([]byte{byte(id*31 + i)}, 100)
		nd, err := qp.BuildMap(basicnode.Prototype.Map, -1, func(ma datamodel.MapAssembler) {
			qp.MapEntry(ma, "chain", qp.Int(int64(id)))
			qp.MapEntry(ma, "data", qp.Bytes(payload))
			qp.MapEntry(ma, "idx", qp.Int(int64(i)))
			if prev != nil {
				qp.MapEntry(ma, "prev", qp.Link(prev))
			}
		})
		if err != nil {
			return nil, err
		}
		var buf bytes.Buffer
		if err := dagcbor.Encode(nd, &buf); err != nil {
			return nil, err
		}
		ls := cidlink.DefaultLinkSystem()
		lnk, err := ls.ComputeLink(lp, nd)
		if err != nil {
			return nil, err
		}
		c.links[i], c.data[i] = lnk, buf.Bytes()
		prev = lnk
	}
	return c, nil
}

type store struct {
	mu sync.RWMutex
	m  map[string][]byte
}

func newStore() *store { return &store{m: map[string][]byte{}} }
func (s *store) put(l datamodel.Link, b []byte) {
	s.mu.Lock()
	s.m[l.String()] = b
	s.mu.Unlock()
}
func (s *store) get(l datamodel.Link) ([]byte, bool) {
	s.mu.RLock()
	b, ok := s.m[l.String()]
	s.mu.RUnlock()
	return b, ok
}
func (s *store) has(c *chain) int {
	k := 0
	for _, l := range c.links {
		if _, ok := s.get(l); ok {
			k++
		}
	}
	return k
}

// injector decides, inside a user-supplied function, whether this call is the one that panics.
type injector struct {
	val    string
	kind   string
	block  int
	target *chain
	index  map[string]blockRef // link string -> position
	armed  int32
	fired  int32
}

func (in *injector) hitLink(kind string, l datamodel.Link) {
	if in == nil || in.kind != kind || l == nil {
		return
	}
	if ref, ok := in.index[l.String()]; ok && ref.chain == in.target.id && ref.idx == in.block {
		in.fire()
	}
}
func (in *injector) hitIdx(kind string, chainID, idx int) {
	if in == nil || in.kind != kind {
		return
	}
	if chainID == in.target.id && idx == in.block {
		in.fire()
	}
}
func (in *injector) fire() {
	if atomic.CompareAndSwapInt32(&in.armed, 1, 0) {
		atomic.StoreInt32(&in.fired, 1)
		os.Stdout.WriteString("#fired\n") // unbuffered: survives the crash of this process
		raise(in.val)
	}
}

type panicReader struct{ in *injector }

func (p panicReader) Read([]byte) (int, error) { p.in.fire(); return 0, io.EOF }

type panicWriter struct {
	in  *injector
	buf *bytes.Buffer
}

func (p panicWriter) Write(b []byte) (int, error) { p.in.fire(); return p.buf.Write(b) }

// panicNode is a node whose exploration panics: the selector walk calls MapIterator /
// LookupBy… on it, so the panic is raised inside go-ipld-prime's selector traversal.
type panicNode struct {
	datamodel.Node
	in *injector
}

func (p panicNode) MapIterator() datamodel.MapIterator { p.in.fire(); return p.Node.MapIterator() }
func (p panicNode) LookupByString(k string) (datamodel.Node, error) {
	p.in.fire()
	return p.Node.LookupByString(k)
}
func (p panicNode) LookupBySegment(s datamodel.PathSegment) (datamodel.Node, error) {
	p.in.fire()
	return p.Node.LookupBySegment(s)
}

// countingNode panics on its k-th access (experiment `selspec`).
type countingNode struct {
	datamodel.Node
	in *injector
	n  *int32
}

func (c countingNode) tick() {
	if int(atomic.AddInt32(c.n, 1))-1 == c.in.block {
		fmt.Fprintf(os.Stderr, "selspec access %d on goroutine:\n%s\n", c.in.block, debugStack())
		c.in.fire()
	}
}
func (c countingNode) MapIterator() datamodel.MapIterator { c.tick(); return c.Node.MapIterator() }
func (c countingNode) LookupByString(k string) (datamodel.Node, error) {
	c.tick()
	return c.Node.LookupByString(k)
}
func (c countingNode) Length() int64 { c.tick(); return c.Node.Length() }

func debugStack() string {
	buf := make([]byte, 1<<14)
	return string(buf[:runtime.Stack(buf, false)])
}

func nodeRef(n datamodel.Node) (int, int, bool) {
	if n == nil || n.Kind() != datamodel.Kind_Map {
		return 0, 0, false
	}
	c, err1 := n.LookupByString("chain")
	i, err2 := n.LookupByString("idx")
	if err1 != nil || err2 != nil {
		return 0, 0, false
	}
	ci, err1 := c.AsInt()
	ii, err2 := i.AsInt()
	if err1 != nil || err2 != nil {
		return 0, 0, false
	}
	return int(ci), int(ii), true
}

// makeLinkSystem builds an in-memory link system whose user-supplied functions consult `in`
// (nil = never panic).  Every function is installed on every link system, so the target and the
// siblings go through the same code paths.
func makeLinkSystem(st *store, in *injector) ipld.LinkSystem {
	ls := cidlink.DefaultLinkSystem()
	ls.TrustedStorage = true
	ls.StorageReadOpener = func(lc linking.LinkContext, l datamodel.Link) (io.Reader, error) {
		in.hitLink("storage-read", l)
		b, ok := st.get(l)
		if !ok {
			return nil, errors.New("block not found")
		}
		if in != nil && in.kind == "storage-read-stream" {
			if ref, ok := in.index[l.String()]; ok && ref.chain == in.target.id && ref.idx == in.block && atomic.LoadInt32(&in.armed) == 1 {
				return panicReader{in}, nil
			}
		}
		return bytes.NewReader(b), nil
	}
	ls.StorageWriteOpener = func(lc linking.LinkContext) (io.Writer, linking.BlockWriteCommitter, error) {
		// the opener is not told the link; on a linear chain the path length is the block index
		in.hitIdx("storage-write-opener", targetID(in), lc.LinkPath.Len())
		var buf bytes.Buffer
		var w io.Writer = &buf
		if in != nil && in.kind == "storage-write-buffer" && lc.LinkPath.Len() == in.block && atomic.LoadInt32(&in.armed) == 1 {
			w = panicWriter{in, &buf}
		}
		return w, func(l datamodel.Link) error {
			in.hitLink("storage-write-committer", l)
			st.put(l, buf.Bytes())
			return nil
		}, nil
	}
	base := ls.DecoderChooser
	ls.DecoderChooser = func(l datamodel.Link) (codec.Decoder, error) {
		dec, err := base(l)
		if err != nil {
			return nil, err
		}
		return func(na datamodel.NodeAssembler, r io.Reader) error {
			in.hitLink("codec", l)
			return dec(na, r)
		}, nil
	}
	ls.NodeReifier = func(lc linking.LinkContext, n datamodel.Node, _ *linking.LinkSystem) (datamodel.Node, error) {
		if c, i, ok := nodeRef(n); ok {
			in.hitIdx("reifier", c, i)
			if in != nil && in.kind == "selector" && c == in.target.id && i == in.block && atomic.LoadInt32(&in.armed) == 1 {
				return panicNode{n, in}, nil
			}
		}
		return n, nil
	}
	return ls
}

func targetID(in *injector) int {
	if in == nil {
		return -1
	}
	return in.target.id
}

func makeChooser(in *injector) traversal.LinkTargetNodePrototypeChooser {
	return func(l datamodel.Link, lc linking.LinkContext) (datamodel.NodePrototype, error) {
		in.hitLink("chooser", l)
		return basicnode.Prototype.Any, nil
	}
}

func allSelector(n int) datamodel.Node {
	ssb := builder.NewSelectorSpecBuilder(basicnode.Prototype.Any)
	return ssb.ExploreRecursive(selector.RecursionLimitDepth(int64(n+2)), ssb.ExploreAll(ssb.ExploreRecursiveEdge())).Node()
}

type cbLog struct {
	mu   sync.Mutex
	objs []any
}

func (c *cbLog) cb(obj any, _ string) {
	c.mu.Lock()
	c.objs = append(c.objs, obj)
	c.mu.Unlock()
}
func (c *cbLog) count(val string) (match, other int) {
	c.mu.Lock()
	defer c.mu.Unlock()
	for _, o := range c.objs {
		if valueOK(val, o) {
			match++
		} else {
			other++
		}
	}
	return
}

type reqResult struct {
	blocks int // distinct blocks seen on the progress channel
	errs   []error
	hang   bool
}

func collect(ctx context.Context, progress <-chan graphsync.ResponseProgress, errs <-chan error, limit time.Duration) reqResult {
	var r reqResult
	seen := map[string]bool{}
	t := time.NewTimer(limit)
	defer t.Stop()
	for progress != nil || errs != nil {
		select {
		case p, ok := <-progress:
			if !ok {
				progress = nil
				continue
			}
			// nodes of the root block carry no LastBlock link
			key := "root"
			if p.LastBlock.Link != nil {
				key = p.LastBlock.Link.String()
			}
			seen[key] = true
		case e, ok := <-errs:
			if !ok {
				errs = nil
				continue
			}
			r.errs = append(r.errs, e)
		case <-t.C:
			r.hang = true
			r.blocks = len(seen)
			return r
		case <-ctx.Done():
			r.hang = true
			r.blocks = len(seen)
			return r
		}
	}
	r.blocks = len(seen)
	return r
}

// heldResource names the first resource still held on either node ("" = none): task-queue entries
// and allocated response memory from Stats(), tracked requests and inconsistencies from PeerState().
func heldResource(requestor, responder graphsync.GraphExchange, reqPeer, respPeer peer.ID) string {
	rs, ps := requestor.Stats(), responder.Stats()
	type ps_ interface {
		PeerState(p peer.ID) gsimpl.PeerState
	}
	switch {
	case rs.OutgoingRequests.Active != 0:
		return "requestor-task-active"
	case rs.OutgoingRequests.Pending != 0:
		return "requestor-task-pending"
	case ps.IncomingRequests.Active != 0:
		return "responder-task-active"
	case ps.IncomingRequests.Pending != 0:
		return "responder-task-pending"
	case ps.OutgoingResponses.TotalAllocatedAllPeers != 0 || rs.OutgoingResponses.TotalAllocatedAllPeers != 0:
		return "response-memory-allocated"
	case ps.OutgoingResponses.TotalPendingAllocations != 0 || ps.OutgoingResponses.NumPeersWithPendingAllocations != 0:
		return "response-memory-pending"
	}
	if g, ok := requestor.(ps_); ok {
		st := g.PeerState(respPeer).OutgoingState
		switch {
		case len(st.RequestStates) != 0:
			return "requestor-request-table"
		case len(st.TaskQueueState.Active) != 0 || len(st.TaskQueueState.Pending) != 0:
			return "requestor-peer-queue"
		case len(st.Diagnostics()) != 0:
			return "requestor-diagnostics"
		}
	} else {
		return "no-peerstate-api"
	}
	if g, ok := responder.(ps_); ok {
		st := g.PeerState(reqPeer).IncomingState
		switch {
		case len(st.RequestStates) != 0:
			return "responder-response-table"
		case len(st.TaskQueueState.Active) != 0 || len(st.TaskQueueState.Pending) != 0:
			return "responder-peer-queue"
		case len(st.Diagnostics()) != 0:
			return "responder-diagnostics"
		}
	} else {
		return "no-peerstate-api"
	}
	return ""
}

// leftOver counts, over both nodes, the task-queue entries, the request / response table entries and
// the allocated response memory that remain.
func leftOver(requestor, responder graphsync.GraphExchange, reqPeer, respPeer peer.ID) (tasks, table, mem uint64) {
	rs, ps := requestor.Stats(), responder.Stats()
	tasks = rs.OutgoingRequests.Active + rs.OutgoingRequests.Pending + ps.IncomingRequests.Active + ps.IncomingRequests.Pending
	mem = ps.OutgoingResponses.TotalAllocatedAllPeers + ps.OutgoingResponses.TotalPendingAllocations + rs.OutgoingResponses.TotalAllocatedAllPeers
	type ps_ interface {
		PeerState(p peer.ID) gsimpl.PeerState
	}
	if g, ok := requestor.(ps_); ok {
		table += uint64(len(g.PeerState(respPeer).OutgoingState.RequestStates))
	}
	if g, ok := responder.(ps_); ok {
		table += uint64(len(g.PeerState(reqPeer).IncomingState.RequestStates))
	}
	return
}

func child(o op) (string, error) {
	ctx, cancel := context.WithCancel(context.Background())
	defer cancel()

	target, err := buildChain(1, o.n)
	if err != nil {
		return "", err
	}
	sib1, err := buildChain(2, o.n)
	if err != nil {
		return "", err
	}
	sib2, err := buildChain(3, o.n)
	if err != nil {
		return "", err
	}
	index := map[string]blockRef{}
	for _, c := range []*chain{target, sib1, sib2} {
		for i, l := range c.links {
			index[l.String()] = blockRef{c.id, i}
		}
	}
	in := &injector{val: o.val, kind: o.kind, block: o.block, target: target, index: index, armed: 1}
	injFor := func(side string) *injector {
		if side == o.side {
			return in
		}
		return nil
	}

	// stores: the responder holds every chain; the requestor holds the first `pre` target blocks
	respStore := newStore()
	for _, c := range []*chain{target, sib1, sib2} {
		for i, l := range c.links {
			respStore.put(l, c.data[i])
		}
	}
	reqStoreT, reqStoreS := newStore(), newStore() // target(+late sibling) link system / concurrent sibling link system
	for i := 0; i < o.pre; i++ {
		reqStoreT.put(target.links[i], target.data[i])
	}

	// link systems: T = the one the target request uses (carries the injector), S = the other
	reqT, reqS := makeLinkSystem(reqStoreT, injFor("requestor")), makeLinkSystem(reqStoreS, nil)
	respT, respS := makeLinkSystem(respStore, injFor("responder")), makeLinkSystem(respStore, nil)
	reqDef, reqOpt, respDef, respOpt := reqT, reqS, respT, respS
	optRoots := map[string]bool{sib1.links[0].String(): true}
	if o.ls == "opt" {
		reqDef, reqOpt, respDef, respOpt = reqS, reqT, respS, respT
		optRoots = map[string]bool{target.links[0].String(): true, sib2.links[0].String(): true}
	}

	mn := mocknet.New()
	defer mn.Close()
	h1, err := mn.GenPeer()
	if err != nil {
		return "", err
	}
	h2, err := mn.GenPeer()
	if err != nil {
		return "", err
	}
	if err := mn.LinkAll(); err != nil {
		return "", err
	}
	var cbReq, cbResp cbLog
	reqOpts := []gsimpl.Option{gsimpl.PanicCallback(cbReq.cb)}
	respOpts := []gsimpl.Option{gsimpl.PanicCallback(cbResp.cb)}
	if o.lim == "tight" {
		respOpts = append(respOpts, gsimpl.MaxInProgressIncomingRequests(1), gsimpl.MaxInProgressIncomingRequestsPerPeer(1))
		if o.side == "requestor" {
			reqOpts = append(reqOpts, gsimpl.MaxInProgressOutgoingRequests(1))
		}
	}
	requestor := gsimpl.New(ctx, gsnet.NewFromLibp2pHost(h1), reqDef, reqOpts...)
	responder := gsimpl.New(ctx, gsnet.NewFromLibp2pHost(h2), respDef, respOpts...)
	if err := requestor.RegisterPersistenceOption("alt", reqOpt); err != nil {
		return "", err
	}
	if err := responder.RegisterPersistenceOption("alt", respOpt); err != nil {
		return "", err
	}
	targetRoot := target.links[0].String()
	requestor.RegisterOutgoingRequestHook(func(p peer.ID, r graphsync.RequestData, ha graphsync.OutgoingRequestHookActions) {
		root := cidlink.Link{Cid: r.Root()}.String()
		if optRoots[root] {
			ha.UsePersistenceOption("alt")
		}
		if root == targetRoot {
			ha.UseLinkTargetNodePrototypeChooser(makeChooser(injFor("requestor")))
		} else {
			ha.UseLinkTargetNodePrototypeChooser(makeChooser(nil))
		}
	})
	var statusMu sync.Mutex
	respStatus := map[string]graphsync.ResponseStatusCode{}
	responder.RegisterIncomingRequestHook(func(p peer.ID, r graphsync.RequestData, ha graphsync.IncomingRequestHookActions) {
		root := cidlink.Link{Cid: r.Root()}.String()
		ha.ValidateRequest()
		if optRoots[root] {
			ha.UsePersistenceOption("alt")
		}
		if root == targetRoot {
			ha.UseLinkTargetNodePrototypeChooser(makeChooser(injFor("responder")))
		} else {
			ha.UseLinkTargetNodePrototypeChooser(makeChooser(nil))
		}
	})
	responder.RegisterCompletedResponseListener(func(p peer.ID, r graphsync.RequestData, s graphsync.ResponseStatusCode) {
		statusMu.Lock()
		respStatus[cidlink.Link{Cid: r.Root()}.String()] = s
		statusMu.Unlock()
	})

	sel := allSelector(o.n)
	const limit = 15 * time.Second

	// sibling 1 runs concurrently with the target
	var wg sync.WaitGroup
	var r1, r2 reqResult
	p1, e1 := requestor.Request(ctx, h2.ID(), sib1.links[0], sel)
	wg.Add(1)
	go func() { defer wg.Done(); r1 = collect(ctx, p1, e1, limit) }()

	tsel := sel
	if o.kind == "selspec" {
		tsel = countingNode{sel, in, new(int32)}
	}
	pt, et := requestor.Request(ctx, h2.ID(), target.links[0], tsel)
	rt := collect(ctx, pt, et, limit)
	// the write opener is not told the link and is recognised by path length only: make sure an
	// injection the target never reached cannot go off in the late sibling on the same link system
	atomic.StoreInt32(&in.armed, 0)

	// sibling 2 starts after the target has terminated, on the link system the target used
	p2, e2 := requestor.Request(ctx, h2.ID(), sib2.links[0], sel)
	r2 = collect(ctx, p2, e2, limit)
	wg.Wait()

	// ---- observations
	fired := atomic.LoadInt32(&in.fired) == 1
	client := "none"
	rpeSeen, rpeValOK := false, true
	var errText string
	switch {
	case rt.hang:
		client = "hang"
	case len(rt.errs) > 0:
		client = "other"
		for _, e := range rt.errs {
			var rpe gspanics.RecoveredPanicErr
			if errors.As(e, &rpe) {
				client = "panic"
				rpeSeen = true
				rpeValOK = rpeValOK && valueOK(o.val, rpe.PanicObj)
				break
			}
			if _, ok := e.(graphsync.RequestFailedUnknownErr); ok {
				client = "failed"
			}
		}
		errText = fmt.Sprintf("%T", rt.errs[0])
	}
	// the responder's own verdict on the target request: the terminal status it sent
	getStatus := func() (graphsync.ResponseStatusCode, bool) {
		statusMu.Lock()
		defer statusMu.Unlock()
		s, ok := respStatus[targetRoot]
		return s, ok
	}
	ts, hasTS := getStatus()
	if fired && o.side == "responder" {
		for w := 0; !hasTS && w < 500; w++ {
			time.Sleep(10 * time.Millisecond)
			ts, hasTS = getStatus()
		}
	}
	tsText := "-"
	if hasTS {
		tsText = ts.String()
	}
	// err: the error "for that request" on the side where the panic was raised:
	//   requestor: what the client got on the request's error channel;
	//   responder: the terminal status of the response (the requesting client may legitimately have
	//              completed already when the panic comes after the last block was sent; it must
	//              then hold every block - `client` and the counters below let the oracle check that)
	errKind := client
	if o.side == "responder" && fired {
		switch {
		case !hasTS:
			errKind = "hang"
		case ts == graphsync.RequestFailedUnknown:
			errKind = "failed"
		case ts.IsSuccess():
			errKind = "none"
		default:
			errKind = "other"
		}
	}
	cbLogOf := &cbReq
	cbOther := &cbResp
	if o.side == "responder" {
		cbLogOf, cbOther = &cbResp, &cbReq
	}
	match, stray := cbLogOf.count(o.val)
	om, os_ := cbOther.count(o.val)
	valField := "-"
	if fired {
		valField = strconv.Itoa(b2i(stray == 0 && rpeValOK))
	}
	_ = rpeSeen
	sibOK := func(r reqResult, c *chain, st *store) bool {
		return !r.hang && len(r.errs) == 0 && r.blocks == o.n && st.has(c) == o.n
	}
	s1, s2 := sibOK(r1, sib1, reqStoreS), sibOK(r2, sib2, reqStoreT)
	clientComplete := client == "none" && rt.blocks == o.n && reqStoreT.has(target) == o.n
	// ---- leak check: wait for both nodes to drain, then nothing may be held any more
	leakWhat := ""
	for w := 0; w < 500; w++ {
		leakWhat = heldResource(requestor, responder, h1.ID(), h2.ID())
		if leakWhat == "" {
			break
		}
		time.Sleep(10 * time.Millisecond)
	}
	nTasks, nTable, nMem := leftOver(requestor, responder, h1.ID(), h2.ID())
	line := fmt.Sprintf("fired=%d err=%s cb=%d val=%s sibling=%d late=%d leak=%d res=tasks:%d,table:%d mem=%d", b2i(fired), errKind, match+stray, valField, b2i(s1 && s2), b2i(s2), b2i(leakWhat != ""), nTasks, nTable, nMem)
	if leakWhat != "" {
		line += " leakwhat=" + leakWhat
	}
	line += fmt.Sprintf(" client=%s clientcomplete=%d errtype=%s nerrs=%d targetblocks=%d stored=%d respstatus=%s straycb=%d othersidecb=%d sib1=%d/%d sib2=%d/%d",
		client, b2i(clientComplete), strings.ReplaceAll(errText, " ", "_"), len(rt.errs), rt.blocks, reqStoreT.has(target), tsText, stray, om+os_, r1.blocks, len(r1.errs), r2.blocks, len(r2.errs))
	return line, nil
}
