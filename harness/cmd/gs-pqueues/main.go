package main

import (
	_ "verifharness/pqueues"
	"verifharness/reg"
)

func main() { reg.Main("pqueues") }
