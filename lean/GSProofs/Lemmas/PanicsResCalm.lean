import GS.Model.PanicsRes
import GSProofs.Lemmas.PanicsRun
/-!
Helper lemmas for C22 (resource layer), part 1: a run in which panics are recovered is, step for
step, the run in which every panicking call returns an ordinary error instead (`calm_run`) - up to
the outcome of the faulted requests (RecoveredPanicErr instead of the plain error) and the callback log.
-/
namespace GS.Panics.Res
open GS.Generated.PanicSites GS.Generated.PanicCleanup GS.Panics

/-- what the clean-up path and the traverser's recover frame must satisfy -/
structure PathOK (cfg : Cfg) : Prop where
  same : cleanupActs cfg.levels .panicked = cleanupActs cfg.levels .ordinary
  unlock : cfg.trav.contains .writeDoneOnPanic = true

/-- every panic in every script is raised under a recover frame -/
def Safe (cfg : Cfg) (s : RSys) : Prop :=
  ∀ (j : Nat) (r : RReq), s.reqs[j]? = some r → safeScript cfg.fr r.script

theorem dropsTable_calm (c : ErrClass) : dropsTable (calmCls c) = dropsTable c := by
  cases c <;> rfl

theorem calmReq_phase (r : RReq) : (calmReq r).phase = r.phase := rfl
theorem calmReq_peer (r : RReq) : (calmReq r).peer = r.peer := rfl
theorem calmReq_lock (r : RReq) : (calmReq r).lock = r.lock := rfl

theorem calmCall_of_ne {c : Call} (h : c.res ≠ .panic) : calmCall c = c := by
  simp [calmCall, h]

theorem stepRunning_calm {cfg : Cfg} (ok : PathOK cfg) {r : RReq} (hs : safeScript cfg.fr r.script) :
    (stepRunning cfg r).2 ≠ .crash ∧
    stepRunning cfg (calmReq r) = (calmReq (stepRunning cfg r).1, .none) := by
  rcases r with ⟨peer, script, phase, out, cls, delivered, lock, released⟩
  cases script with
  | nil => simp [stepRunning, calmReq, failWith, calmOut, calmCls]
  | cons c rest =>
    rcases c with ⟨sd, kd, res⟩
    cases res with
    | ok => simp [stepRunning, calmReq, calmCall]
    | err => simp [stepRunning, calmReq, calmCall, failWith, calmOut, calmCls]
    | panic =>
      have hf : cfg.fr sd kd = true := hs ⟨sd, kd, .panic⟩ (by simp) rfl
      have hu : TravAct.writeDoneOnPanic ∈ cfg.trav := by simpa using ok.unlock
      simp [stepRunning, calmReq, calmCall, failWith, hf, handled_eq, calmOut, calmCls, ok.same, hu]

theorem applyAct_calm (s : RSys) (i : Nat) (r : RReq) (a : Act) :
    applyAct (calm s) i (calmReq r) a = (calm (applyAct s i r a).1, calmReq (applyAct s i r a).2) := by
  cases a <;> simp [applyAct, calm, calmReq, dropsTable_calm]

theorem step_calm {cfg : Cfg} (ok : PathOK cfg) {s : RSys} (hs : Safe cfg s) (i : Nat) :
    calm (step cfg s i) = step cfg (calm s) i := by
  unfold step
  have hcr : (calm s).crashed = s.crashed := rfl
  rw [hcr]
  by_cases hc : s.crashed = true
  · simp [hc]
  · simp only [hc, Bool.false_eq_true, if_false]
    have hget : (calm s).reqs[i]? = (s.reqs[i]?).map calmReq := by simp [calm]
    rw [hget]
    cases hri : s.reqs[i]? with
    | none => simp
    | some r =>
      simp only [Option.map_some, calmReq_phase]
      cases hph : r.phase with
      | queued =>
        have hcp : canPop cfg (calm s) (calmReq r) = canPop cfg s r := rfl
        simp only [hcp]
        by_cases hp : canPop cfg s r = true
        · simp [hp, calm, calmReq, List.map_set]
        · simp [hp]
      | running =>
        obtain ⟨hne, heq⟩ := stepRunning_calm ok (hs i r hri)
        rw [heq]
        rcases hsr : stepRunning cfg r with ⟨r', e⟩
        rw [hsr] at hne
        cases e with
        | crash => exact absurd rfl hne
        | none => simp [calm, List.map_set]
        | cb sd k => simp [calm, List.map_set]
      | cleaning todo =>
        cases todo with
        | nil => simp [calm, calmReq, List.map_set]
        | cons a rest =>
          simp only [calmReq_lock]
          by_cases hl : r.lock = true
          · simp [hl]
          · simp only [hl, Bool.false_eq_true, if_false]
            rw [applyAct_calm]
            simp [calm, calmReq, List.map_set]
      | done => simp

theorem safeScript_tail {fr : Frames} {c : Call} {rest : List Call} (h : safeScript fr (c :: rest)) :
    safeScript fr rest := fun c' hc' => h c' (List.mem_cons_of_mem _ hc')

theorem safeScript_nil (fr : Frames) : safeScript fr [] := by intro c hc; cases hc

theorem stepRunning_script {cfg : Cfg} {r : RReq} (hs : safeScript cfg.fr r.script) :
    safeScript cfg.fr (stepRunning cfg r).1.script := by
  rcases r with ⟨peer, script, phase, out, cls, delivered, lock, released⟩
  cases script with
  | nil => simpa [stepRunning, failWith] using safeScript_nil cfg.fr
  | cons c rest =>
    rcases c with ⟨sd, kd, res⟩
    cases res with
    | ok => simpa [stepRunning] using safeScript_tail hs
    | err => simpa [stepRunning, failWith] using safeScript_nil cfg.fr
    | panic =>
      have hf : cfg.fr sd kd = true := hs ⟨sd, kd, .panic⟩ (by simp) rfl
      simpa [stepRunning, failWith, hf] using safeScript_nil cfg.fr

theorem applyAct_script (s : RSys) (i : Nat) (r : RReq) (a : Act) :
    (applyAct s i r a).2.script = r.script ∧ (applyAct s i r a).1.reqs = s.reqs ∧
    (applyAct s i r a).1.crashed = s.crashed := by
  cases a <;> simp [applyAct]

/-- `step` only ever replaces `reqs[i]` by a request whose script is a suffix of the old one (or
empty): safety is preserved -/
theorem step_safe' {cfg : Cfg} {s : RSys} (hs : Safe cfg s) (i : Nat) : Safe cfg (step cfg s i) := by
  unfold step
  by_cases hc : s.crashed = true
  · simpa [hc] using hs
  · simp only [hc, Bool.false_eq_true, if_false]
    cases hri : s.reqs[i]? with
    | none => simpa using hs
    | some r =>
      have hsr := hs i r hri
      -- generic: setting index i to a request with a safe script keeps safety
      have key : ∀ (l : List RReq) (r' : RReq), l = s.reqs → safeScript cfg.fr r'.script →
          ∀ (j : Nat) (q : RReq), (l.set i r')[j]? = some q → safeScript cfg.fr q.script := by
        intro l r' hl hr' j q hq
        subst hl
        rw [List.getElem?_set] at hq
        by_cases hij : i = j
        · subst hij
          by_cases hlt : i < s.reqs.length
          · simp [hlt] at hq; rw [← hq]; exact hr'
          · simp [hlt] at hq
        · simp [hij] at hq; exact hs j q hq
      simp only
      cases hph : r.phase with
      | queued =>
        by_cases hp : canPop cfg s r = true
        · simp only [hp, if_true]
          exact key _ _ rfl hsr
        · simpa [hp] using hs
      | running =>
        have := stepRunning_script hsr
        rcases hst : stepRunning cfg r with ⟨r', e⟩
        rw [hst] at this
        cases e with
        | crash => simpa [Safe] using hs
        | none => exact key _ _ rfl this
        | cb sd k => exact key _ _ rfl this
      | cleaning todo =>
        cases todo with
        | nil => exact key _ _ rfl hsr
        | cons a rest =>
          by_cases hl : r.lock = true
          · simpa [hl] using hs
          · simp only [hl, Bool.false_eq_true, if_false]
            obtain ⟨h1, h2, _⟩ := applyAct_script s i r a
            exact key _ _ h2 (by simpa [h1] using hsr)
      | done => simpa using hs

theorem run_safe {cfg : Cfg} (sched : List Nat) : ∀ {s : RSys}, Safe cfg s → Safe cfg (run cfg s sched) := by
  induction sched with
  | nil => intro s h; exact h
  | cons i rest ih => intro s h; simpa [run] using ih (s := step cfg s i) (step_safe' h i)

/-- **simulation**: with recover frames at all panicking calls and a clean-up path that treats a
recovered panic like an ordinary error, running with panics and then forgetting how the failures came
about is the same as running with ordinary errors in their place -/
theorem calm_run {cfg : Cfg} (ok : PathOK cfg) (sched : List Nat) :
    ∀ {s : RSys}, Safe cfg s → calm (run cfg s sched) = run cfg (calm s) sched := by
  induction sched with
  | nil => intro s _; rfl
  | cons i rest ih =>
    intro s h
    have : run cfg s (i :: rest) = run cfg (step cfg s i) rest := by simp [run]
    rw [this, ih (step_safe' h i), step_calm ok h i]
    simp [run]

/-- and it does not crash -/
theorem step_crashed {cfg : Cfg} {s : RSys} (hs : Safe cfg s) (hc : s.crashed = false) (i : Nat) :
    (step cfg s i).crashed = false := by
  unfold step
  simp only [hc, Bool.false_eq_true, if_false]
  cases hri : s.reqs[i]? with
  | none => simpa using hc
  | some r =>
    simp only
    cases hph : r.phase with
    | queued => by_cases hp : canPop cfg s r = true <;> simp [hp, hc]
    | running =>
      have hne : (stepRunning cfg r).2 ≠ .crash := by
        rcases r with ⟨peer, script, phase, out, cls, delivered, lock, released⟩
        cases script with
        | nil => simp [stepRunning]
        | cons c rest =>
          rcases c with ⟨sd, kd, res⟩
          cases res with
          | ok => simp [stepRunning]
          | err => simp [stepRunning]
          | panic =>
            have hf : cfg.fr sd kd = true := hs i _ hri ⟨sd, kd, .panic⟩ (by simp) rfl
            simp [stepRunning, hf, handled_eq]
      rcases hst : stepRunning cfg r with ⟨r', e⟩
      rw [hst] at hne
      cases e with
      | crash => exact absurd rfl hne
      | none => simp
      | cb sd k => simp
    | cleaning todo =>
      cases todo with
      | nil => simp
      | cons a rest =>
        by_cases hl : r.lock = true
        · simpa [hl] using hc
        · simp only [hl, Bool.false_eq_true, if_false]
          rw [(applyAct_script s i r a).2.2]; exact hc
    | done => simpa using hc

theorem run_crashed {cfg : Cfg} (sched : List Nat) :
    ∀ {s : RSys}, Safe cfg s → s.crashed = false → (run cfg s sched).crashed = false := by
  induction sched with
  | nil => intro s _ h; exact h
  | cons i rest ih =>
    intro s h hc
    simpa [run] using ih (s := step cfg s i) (step_safe' h i) (step_crashed h hc i)

end GS.Panics.Res
