import GS.Model.MsgQueue
import GS.Driver.Proto
/-! line-protocol driver for the message-queue model (component `msgqueue`, properties C15/C16/C17-fifo).

ops (one output line each):
  cfg <maxTotal> <maxPeer> <maxRetries> <sub of request 0> <sub of request 1> …
  tx <req> <item>…        item = b<cid>:<size> | m<cid> | e<encodedSize> | p | f | x<code>
  rq <id> <sub>           request manager's SendRequest
  wake                    the oldest answered waiting transaction continues
  ack ok|fail|fail2 n|d   the blocked network/allocator call returns; n/d = what the select of
                          runQueue picks afterwards when both outgoingWork and done are ready
  shutdown
  xalloc <n> | xrel <n>   another peer (id 1) allocates / releases on the shared allocator
  oalloc <n> | orel <n> | orelpeer   another queue of THIS peer (overlap) allocates / releases / exits
-/
namespace GS.Driver.MsgQueue
open GS.Proto GS.MQ

structure D where
  s : State := init 0 1 0 0
  tr : Tracker := {}
  subOf : List Nat := []
  xticket : Nat := 1000000
  mark : Nat := 0          -- length of the log already reported

def pcName : Pc → String
  | .idle => "idle"
  | .opening _ _ => "connect"
  | .sending _ _ => "send"
  | .resetting _ _ => "reset"
  | .exiting => "relpeer"
  | .exited => "exited"

def kindName : Kind → String
  | .queued => "Q" | .sent => "S" | .error => "E" | .close => "C"

def insertSorted (x : Nat) : List Nat → List Nat
  | [] => [x]
  | y :: r => if x ≤ y then x :: y :: r else y :: insertSorted x r

def sortBy (f : α → Nat) (l : List α) : List α :=
  l.foldl (fun acc x =>
    let (a, b) := acc.span (fun y => f y ≤ f x)
    a ++ x :: b) []

def wireSummary (b : Builder) : String :=
  let reqs := natList (sortNat b.requests)
  let resp := sortBy (·.1) b.responses
  let rs := resp.map fun (r, links) =>
    let code := (aget b.completed r).getD 14
    let ls := joinWith "." (links.map fun (c, pr) => s!"{c}{if pr then "+" else "-"}")
    let nx := ((aget b.exts r).getD []).length
    s!"{r}:{code}:{ls}:x{nx}"
  let blks := natList (sortNat (b.blocks.map (·.1)))
  s!"Q[{reqs}]R[{joinWith ";" rs}]B[{blks}]"

def render (d : D) : D × String :=
  let s := d.s
  let newEvs := s.log.drop d.mark
  let notes := newEvs.filterMap fun | .notify u t k => some (u, t, k) | _ => none
  let subs := (notes.map (·.1)).foldl (fun acc u => if acc.contains u then acc else insertSorted u acc) []
  let ev := joinWith "|" (subs.map fun u =>
    s!"{u}:" ++ joinWith "." ((notes.filter (·.1 == u)).map fun (_, t, k) => s!"{t}{kindName k}"))
  let st := GS.Alloc.stats s.alloc
  let w := match s.pc with
    | .sending m _ => wireSummary m.wire
    | _ => "-"
  let cb := if newEvs.contains Event.exitCallback then "1" else "0"
  ({ d with mark := s.log.length },
   s!"pc={pcName s.pc} blocked={s.waiters.length} ev={ev} alloc={GS.Alloc.allocatedFor s.alloc s.peer} tot={st.totalAllocated}/{st.totalPending}/{st.peersPending} cb={cb} w={w}")

/-- let the queue goroutine run until it blocks -/
def settle (pw : Bool) : Nat → State → State
  | 0, s => s
  | n + 1, s =>
    if s.pc == .idle && (s.token || s.done) then settle pw n (s.run GS.Alloc.pickMin pw) else s

def settleD (d : D) (pw : Bool) : D := { d with s := settle pw (d.s.builders.length + 4) d.s }

def parseItem (t : String) : Option RawItem :=
  if t == "p" then some .pause
  else if t == "f" then some .finish
  else
    let rest := (t.drop 1).toString
    match t.front with
    | 'b' =>
      match rest.splitOn ":" with
      | [c, z] => match c.toNat?, z.toNat? with
        | some c, some z => some (.block c z)
        | _, _ => none
      | _ => none
    | 'm' => rest.toNat?.map .missing
    | 'e' => rest.toNat?.map .ext
    | 'x' => rest.toNat?.map .finishErr
    | _ => none

def parseItems : List String → Option (List RawItem)
  | [] => some []
  | t :: r => do
    let i ← parseItem t
    let is ← parseItems r
    pure (i :: is)

def stepLine (d : D) (t : Toks) : D × String :=
  match t with
  | "cfg" :: mt :: mp :: mr :: subs =>
    match mt.toNat?, mp.toNat?, mr.toNat? with
    | some mt, some mp, some mr =>
      ({ s := init 0 mr mt mp, subOf := subs.map fun x => x.toNat?.getD 0 }, "ok")
    | _, _, _ => (d, "bad-op")
  | "tx" :: r :: items =>
    match r.toNat?, parseItems items with
    | some r, some raw =>
      let (tr, its) := d.tr.prepare r raw
      let tx : Tx := { who := .response, req := r, sub := (d.subOf[r]?).getD r, items := its }
      render (settleD { d with tr := tr, s := d.s.build GS.Alloc.pickMin tx } true)
    | _, _ => (d, "bad-op")
  | ["rq", id, u] =>
    match id.toNat?, u.toNat? with
    | some id, some u =>
      let tx : Tx := { who := .request, req := id, sub := u, items := [] }
      render (settleD { d with s := d.s.build GS.Alloc.pickMin tx } true)
    | _, _ => (d, "bad-op")
  | ["wake"] =>
    match d.s.waiters.find? (·.answer.isSome) with
    | some w => render (settleD { d with s := d.s.wake GS.Alloc.pickMin w.ticket } true)
    | none => render d
  | ["ack", res, hint] =>
    let ok := res == "ok"
    render (settleD { d with s := d.s.ack GS.Alloc.pickMin ok } (hint == "n"))
  | ["shutdown"] =>
    render (settleD { d with s := step GS.Alloc.pickMin d.s .shutdown } true)
  | ["finish"] =>
    -- epilogue: every waiting caller continues, every network call succeeds, until nothing moves
    -- (after Shutdown the select prefers the done branch)
    let rec go : Nat → State → State
      | 0, s => s
      | n + 1, s =>
        match s.waiters.find? (·.answer.isSome) with
        | some w => go n (settle false (s.builders.length + 4) (s.wake GS.Alloc.pickMin w.ticket))
        | none =>
          if s.pc != .idle && s.pc != .exited then
            go n (settle false (s.builders.length + 4) (s.ack GS.Alloc.pickMin true))
          else s
    render { d with s := go 64 d.s }
  | ["xalloc", n] =>
    match n.toNat? with
    | some n =>
      render (settleD { d with s := step GS.Alloc.pickMin d.s (.env (.alloc 1 n d.xticket)), xticket := d.xticket + 1 } true)
    | none => (d, "bad-op")
  | ["oalloc", n] =>
    -- another queue of the SAME peer (overlap of a stopping queue and its successor) reserves memory
    match n.toNat? with
    | some n =>
      render (settleD { d with s := step GS.Alloc.pickMin d.s (.env (.alloc 0 n d.xticket)), xticket := d.xticket + 1 } true)
    | none => (d, "bad-op")
  | ["orel", n] =>
    match n.toNat? with
    | some n => render (settleD { d with s := step GS.Alloc.pickMin d.s (.env (.release 0 n)) } true)
    | none => (d, "bad-op")
  | ["orelpeer"] =>
    -- the other queue of this peer exits: ReleasePeerMemory(peer)
    render (settleD { d with s := step GS.Alloc.pickMin d.s (.env (.releasePeer 0)) } true)
  | ["xrel", n] =>
    match n.toNat? with
    | some n => render (settleD { d with s := step GS.Alloc.pickMin d.s (.env (.release 1 n)) } true)
    | none => (d, "bad-op")
  | _ => (d, "bad-op")

def handler (ops : List Toks) : List String :=
  let (_, outs) := ops.foldl (fun (acc : D × List String) t =>
    let (d', o) := stepLine acc.1 t
    (d', o :: acc.2)) ({}, [])
  outs.reverse

end GS.Driver.MsgQueue

def main : IO Unit := GS.Proto.runModel GS.Driver.MsgQueue.handler
