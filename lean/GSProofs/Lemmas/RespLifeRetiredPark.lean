import GSProofs.Lemmas.RespLifePark
/-!
The parked `newRequest` is well formed: when the manager is parked inside `newRequest p i cfg`, the parked
transaction is the one `newRequest` built — its id is `i` and its operations are `prepareOps cfg.hook`.
Holds in every `Reachable` state (no hypothesis on ids).  Used by C05Retired: a parked `newRequest` of `r` always
carries an outcome source of `r` (accept / pause: the registration itself, `contW`; reject / error: the terminal
status in the parked operations), so it cannot coexist with a logged outcome of an id registered once.
-/
namespace GS.RespLife

def PWFc (c : Option (MgrCont × Peer × Id × List TxOp)) : Prop :=
  ∀ p i cfg pp id ops, c = some (MgrCont.newReq p i cfg, pp, id, ops) → id = i ∧ ops = prepareOps cfg.hook

/-- the parked `newRequest` (if any) holds the transaction `newRequest` built -/
def PWF (s : State) : Prop := PWFc (parkCore s.park)

theorem pwf_of_pi_eq {s s' : State} (h : pi s' = pi s) (hi : PWF s) : PWF s' := by
  have h1 : parkCore s'.park = parkCore s.park := congrArg Pi.pcore h
  unfold PWF; rw [h1]; exact hi

theorem pwf_of_pnew_none {s : State} (h : parkNew s.park = none) : PWF s := by
  intro p i cfg pp id ops hc
  exfalso
  unfold parkNew at h
  unfold parkCore at hc
  cases hk : s.park with
  | none => rw [hk] at hc; simp at hc
  | some k =>
    rw [hk] at hc h
    simp only [Option.map_some, Option.some.injEq, Prod.mk.injEq] at hc
    dsimp only at h
    rw [hc.1] at h
    simp at h

theorem pwf_of_park_none {s : State} (h : s.park = none) : PWF s :=
  pwf_of_pnew_none (by rw [h]; rfl)

theorem sop_pnew {x x' : Pi} (h : SameOrPark x x') : x'.pnew = x.pnew := by
  rcases h with h | ⟨c, p, id, ops, _, h⟩
  · rw [h]
  · rw [h]

theorem tos_pnew {x x' : Pi} (h : TermOrSame x x') : x'.pnew = x.pnew := by
  rcases h with h | ⟨p, id, _, h⟩
  · rw [h]
  · rw [h]; rfl

/-- handling a message other than a `new` request never parks the manager inside `newRequest` -/
theorem pnew_handle_other (s : State) (m : Msg) (hp : s.park = none) (h : isNewMsg m = false) :
    (pi (handle s m)).pnew = (pi s).pnew := by
  cases m with
  | processRequests p r =>
    show (pi (if foreign s p r.id = true then s else processRequest s p r)).pnew = _
    split
    · rfl
    · cases r with
      | new id cfg => simp [isNewMsg] at h
      | cancel id => exact tos_pnew (tos_abortRequest s id .ctxCancel)
      | update id plan => exact sop_pnew (pi_processUpdate s id plan hp)
  | api c =>
    cases c with
    | pause id =>
      show (pi (emit (pauseRequest s id).1 _)).pnew = _
      rw [pi_emit_api, pi_pauseRequest]
    | unpause id ext =>
      have h1 := sop_pnew (pi_unpauseRequest s id ext hp)
      show (pi (if (unpauseRequest s id ext).2.2 = true then (unpauseRequest s id ext).1
        else emit (unpauseRequest s id ext).1 _)).pnew = _
      split
      · exact h1
      · rw [pi_emit_api]; exact h1
    | cancel id =>
      show (pi (emit (abortRequest s id .cancelCmd).1 _)).pnew = _
      rw [pi_emit_api]
      exact tos_pnew (tos_abortRequest s id .cancelCmd)
    | update id ext =>
      have h1 := sop_pnew (pi_updateRequest s id ext hp)
      show (pi (if (updateRequest s id ext).2.2 = true then (updateRequest s id ext).1
        else emit (updateRequest s id ext).1 _)).pnew = _
      split
      · exact h1
      · rw [pi_emit_api]; exact h1
  | startTask w => show (pi (startTask s w)).pnew = _; rw [pi_startTask]
  | getUpdates w => show (pi (getUpdates s w)).pnew = _; rw [pi_getUpdates]
  | finishTask w err => exact tos_pnew (tos_finishTask s w err)
  | closeNetErr id inc pub =>
    rcases pi_handle_closeNetErr s id inc pub with h1 | h1
    · rw [h1]; exact tos_pnew (tos_abortRequest s id .network)
    · rw [h1]
  | terminate id inc pub =>
    rw [handle_terminate, pi_clearPubWait]
    split
    · exact tos_pnew (tos_terminate s id)
    · rfl

theorem pwf_newRequest (s : State) (p : Peer) (id : Id) (cfg : ReqCfg) (hp : s.park = none) :
    PWF (newRequest s p id cfg) := by
  unfold newRequest
  simp only
  have hp2 : (openStream (protect s p id) id).park = none := hp
  generalize openStream (protect s p id) id = s2 at hp2
  generalize h : execTx s2 Party.mgr p id (prepareOps cfg.hook) = pr
  obtain ⟨s3, ok⟩ := pr
  simp only
  split
  · exact pwf_of_park_none (park_newReqFinish s3 p id cfg (pcore_none_of_pi_eq (pi_execTx_eq h) hp2))
  · intro p' i cfg' pp id' ops hc
    simp only [parkMgr, parkCore, Option.map_some, Option.some.injEq, Prod.mk.injEq, MgrCont.newReq.injEq] at hc
    obtain ⟨⟨_, hi, hcfg⟩, _, hid, hops⟩ := hc
    subst hi hcfg hid hops
    exact ⟨rfl, rfl⟩

theorem pwf_mgr {s s' : State} (h : mgrStep s = some s') : PWF s' := by
  unfold mgrStep at h
  split at h
  · rename_i pk hpk
    split at h
    · cases h
      apply pwf_of_pnew_none
      show (pi (resumeMgr s pk)).pnew = none
      cases hc : pk.cont with
      | newReq p id cfg => rw [pi_resumeMgr_new s pk p id cfg hc]; rfl
      | procUpdate id plan => rw [pi_resumeMgr_other s pk (by intro p i c; rw [hc]; simp)]
      | unpause id ext => rw [pi_resumeMgr_other s pk (by intro p i c; rw [hc]; simp)]
      | update id ext => rw [pi_resumeMgr_other s pk (by intro p i c; rw [hc]; simp)]
    · cases h
  · rename_i hpk
    split at h
    · cases h
    · rename_i m rest hm
      cases h
      have hpk' : ({ s with mailbox := rest, handled := s.handled + 1 } : State).park = none := hpk
      by_cases hnew : isNewMsg m = true
      · cases m with
        | processRequests p r =>
          cases r with
          | new id cfg =>
            show PWF (if foreign _ p id = true then _ else newRequest _ p id cfg)
            split
            · exact pwf_of_park_none hpk'
            · exact pwf_newRequest _ p id cfg hpk'
          | cancel id => simp [isNewMsg] at hnew
          | update id plan => simp [isNewMsg] at hnew
        | _ => simp [isNewMsg] at hnew
      · have hnew' : isNewMsg m = false := by simpa using hnew
        apply pwf_of_pnew_none
        have := pnew_handle_other { s with mailbox := rest, handled := s.handled + 1 } m hpk' hnew'
        rw [pnew_none hpk'] at this
        exact this

theorem pwf_step {s s' : State} {a : Action} (hi : PWF s) (h : step s a = some s') : PWF s' := by
  cases a with
  | recv p r => simp only [step, Option.some.injEq] at h; subst h; exact hi
  | api c => simp only [step, Option.some.injEq] at h; subst h; exact hi
  | mgr => exact pwf_mgr h
  | pop p id => exact pwf_of_pi_eq (pi_popTask h) hi
  | reap p => exact pwf_of_pi_eq (pi_reap h) hi
  | wstep w pick => exact pwf_of_pi_eq (pi_wstep h) hi
  | extract p => exact pwf_of_pi_eq (pi_extract h) hi
  | net p ok => exact pwf_of_pi_eq (pi_netResolve h) hi
  | pub p => exact pwf_of_pi_eq (pi_pubStep h) hi
  | primer p => simp only [step, Option.some.injEq] at h; subst h; exact pwf_of_pi_eq (pi_primer s p) hi
  | thaw => simp only [step, Option.some.injEq] at h; subst h; exact hi

/-- **the parked `newRequest` is the one `newRequest` built**, in every reachable state -/
theorem pwf_reachable {c : Cfg} {s : State} (h : Reachable c s) : PWF s := by
  induction h with
  | init => exact pwf_of_park_none rfl
  | step _ hs ih => exact pwf_step ih hs

end GS.RespLife
