import GSProofs.Lemmas.LinkTrackHistory
/-!
# C19 — Responder sends each block at most once per peer while it is in use

> For one requesting peer and one deduplication scope, a block is transmitted at most once while any
> request that traversed it is still in progress, and once all such requests have finished the
> responder keeps no tracking state and will send the block again to later requests.  A request is
> reported complete-full exactly when it encountered no missing block.

Model: `GS/Model/LinkTracker.lean` (`linktracker.LinkTracker`, `responseassembler.peerLinkTracker`),
tied to the Go code by the correspondence stream `linktrack`.

Vocabulary (all defined by scanning the history `h : List Op`, `Lemmas/LinkTrackHistory.lean`):
`since r h` = the operations request `r` issued since it last finished / failed / was cleared;
`inProgress r h`, `scopeOf r h` (last dedup key in `since r h`), `withBlock r h` (links reported with
data or listed in an ignore list), `metMissing r h`, `travCount r h`, `skipOf r h`.
`run h` = final model state and outputs of the model on `h` from a fresh peer tracker.

`WF h` ("well-formed"): every `dedup r k` in `h` is issued while `r` has no dedup key and no recorded
traversal / ignored link since it began — i.e. the dedup key is the first thing set for a request,
as `responsemanager.prepareQuery` does.

**Finding.**  Without `WF` the property is false of the real code (known finding `dedup-switch`,
`corpus/C19/dedup-switch.cases`): `peerLinkTracker.DedupKey` on a request that already recorded
something moves the request to another tracker and leaves its old records behind.  Hence the
peer-level theorems are `…_partial` (hypothesis `WF h`), each with a `…_counterexample` in the
excluded region.  The theorems about the bare `linktracker.LinkTracker` hold for all histories.
-/
set_option linter.unusedSimpArgs false
namespace GS.C19
open GS.LinkTrack

/-! ## A. `linktracker.LinkTracker` used directly — all histories -/

/-- **refcount_inv (bare tracker, every history).**  `BlockRefCount(l)` equals the number of
with-block traversals of `l` recorded by requests that have not finished (`lwb h` is that ledger:
`record r l true` appends `(r,l)`, `finish r` drops the entries of `r`). -/
theorem lt_refcount_inv (h : List LOp) (l : Link) : (lrun h).blockRefCount l = cntOf (lwb h) l :=
  (lsim h).blockRefCount l

/-- the same count, request by request: for any duplicate-free list `rs` of requests covering the
ledger, `BlockRefCount(l) = Σ_{r ∈ rs} (occurrences of l in r's with-block traversal list)`. -/
theorem lt_refcount_sum (h : List LOp) (l : Link) (rs : List Req) (hnd : rs.Nodup)
    (hcov : ∀ e ∈ lwb h, e.1 ∈ rs) :
    (lrun h).blockRefCount l = (rs.map (fun r => (linksOf (lwb h) r).count l)).sum := by
  rw [lt_refcount_inv]; exact cntOf_eq_sum _ rs hnd hcov l

/-- `FinishRequest(r)` returns true exactly when `r` recorded no missing link since it last finished. -/
theorem lt_finish_iff (h : List LOp) (r : Req) :
    ((lrun h).finishRequest r).2 = true ↔ ∀ l, (r, l) ∉ lms h := by
  rw [(sim_finish (lsim h) r).2]
  simp only [Bool.not_eq_true', List.any_eq_false, beq_iff_eq]
  constructor
  · intro h1 l hl; exact h1 (r, l) hl rfl
  · intro h1 e he her; obtain ⟨a, b⟩ := e; simp at her; subst her; exact h1 b he

/-- `Empty()` is true exactly when no unfinished request has recorded anything. -/
theorem lt_empty_iff (h : List LOp) : (lrun h).isEmpty = true ↔ lwb h = [] ∧ lms h = [] :=
  (lsim h).isEmpty

/-- non-vacuity: two requests hold link 0, one finishes, the count drops to 1; request 1 met a
missing link, so its `FinishRequest` is false.  (test by evaluation) -/
example :
    let h := [LOp.record 1 0 true, .record 2 0 true, .record 1 0 true, .record 1 3 false, .finish 2]
    (lrun h).blockRefCount 0 = 2 ∧ ((lrun h).finishRequest 1).2 = false ∧
      (lrun (h ++ [.finish 1])).isEmpty = true := by decide

/-! ## B. the per-peer tracker behind `ResponseAssembler` -/

/-- **Refinement (well-formed histories).**  Every output of the model — each send decision with its
block index, each completeness flag — equals the output of the naive set-based specification
`Spec` (no reference counts, no per-scope trackers). -/
theorem refines_partial (h : List Op) (hwf : WF h) : (run h).2 = (Spec.runFrom {} h).2 :=
  (run_refines h hwf).2

/-- `getLinkTracker` never dereferences a missing alt tracker — **every history**, no hypothesis. -/
theorem alt_present (h : List Op) (r : Req) (k : Key) (hk : aget (run h).1.dedupKeys r = some k) :
    (aget (run h).1.alts k).isSome = true :=
  altPresent_runFrom altPresent_init h r k hk

/-
Full statement of `refcount_inv` (false without `WF`, see `no_residue_counterexample`):
  ∀ h s l, refcount of (scope s, link l) after h
            = Σ over the requests r in progress with scope s of (occurrences of l in withBlock r h).
-/
/-- **refcount_inv.**  After a well-formed history the reference count of link `l` in the tracker of
scope `s` equals the number of occurrences of `l` in the with-block traversal lists of the
in-progress requests of that scope (`rs` is any duplicate-free list containing them). -/
theorem refcount_inv_partial (h : List Op) (hwf : WF h) (s : Option Key) (l : Link)
    (rs : List Req) (hnd : rs.Nodup) (hcov : ∀ r, inProgress r h = true → r ∈ rs) :
    ((run h).1.scopeTracker s).blockRefCount l =
      (rs.map (fun r => if scopeOf r h = s then (withBlock r h).count l else 0)).sum := by
  have hR := (run_refines h hwf).1
  rw [(hR.tr s).blockRefCount l]
  have hc : ∀ e ∈ proj (specRun h).wb s, e.1 ∈ rs := by
    intro e he
    apply hcov
    have hmem := ((char_specRun h e.1).wb e.2).1 ⟨s, mem_proj.1 he⟩
    unfold inProgress
    cases hsn : since e.1 h with
    | nil => rw [hsn] at hmem; simp at hmem
    | cons _ _ => rfl
  rw [cntOf_eq_sum _ rs hnd hc l]
  congr 1
  apply List.map_congr_left
  intro r _
  rw [linksOf_proj (specRun h).wb (specRun h).scope hR.jw s r, reqLinks_specRun]
  have : (specRun h).scope r = scopeOf r h := (char_specRun h r).scope
  rw [this]
  split <;> simp

/-- the with-block traversal list the tracker of `r`'s scope stores for `r` is `withBlock r h`. -/
theorem links_inv_partial (h : List Op) (hwf : WF h) (r : Req) :
    (aget ((run h).1.scopeTracker (scopeOf r h)).linksByReq r).getD [] = withBlock r h := by
  have hR := (run_refines h hwf).1
  rw [(hR.tr _).links r, encL_getD, linksOf_proj (specRun h).wb (specRun h).scope hR.jw, reqLinks_specRun]
  simp [(char_specRun h r).scope, scopeOf]

/-- **The send decision, exactly.**  After a well-formed history, reporting link `l` for request `r`
is answered with "send the block" iff the block is present, `r` is past its
do-not-send-first-blocks window, and no in-progress request of `r`'s scope (including `r`) has
traversed `l` with its block.  The block index is the number of links `r` reported so far. -/
theorem send_iff_partial (h : List Op) (hwf : WF h) (r : Req) (l : Link) (b : Bool) :
    ∃ s, (step (run h).1 (.trav r l b)).2 = .sent s (travCount r h + 1) ∧
      (s = true ↔ (b = true ∧ skipOf r h < ((travCount r h + 1 : Nat) : Int) ∧
                   ∀ r', scopeOf r' h = scopeOf r h → l ∉ withBlock r' h)) := by
  have hR := (run_refines h hwf).1
  have hch := char_specRun h r
  have hcnt : ((specRun h).cnt r).getD 0 = travCount r h := hch.cnt
  have hskp : ((specRun h).skp r).getD 0 = skipOf r h := hch.skp
  have hsr : (specRun h).scope r = scopeOf r h := hch.scope
  refine ⟨_, by rw [(R_trav hR r l b).2]; simp only [Spec.step]; rw [hcnt], ?_⟩
  rw [hskp]
  simp only [Bool.and_eq_true, decide_eq_true_eq, Bool.not_eq_true', Spec.inUse, List.any_eq_false,
    beq_iff_eq, not_and, and_assoc]
  refine and_congr_right (fun _ => and_congr_right (fun _ => ?_))
  constructor
  · intro h1 r' hsc hl
    obtain ⟨s', hs'⟩ := ((char_specRun h r').wb l).2 hl
    have hj := hR.jw _ hs'
    simp only at hj
    rw [(char_specRun h r').scope] at hj
    refine h1 _ hs' ?_ rfl
    simp only
    rw [hj, hsr]; exact hsc
  · intro h1 e he hsc hl
    have hj := hR.jw e he
    have h2 : (specRun h).scope e.2.1 = scopeOf e.2.1 h := (char_specRun h e.2.1).scope
    refine h1 e.2.1 (by rw [← h2, ← hsr, ← hj, hsc]) ?_
    apply ((char_specRun h e.2.1).wb l).1
    refine ⟨e.1, ?_⟩
    obtain ⟨a, b', c⟩ := e
    simp only at hl; subst hl; exact he

/-
Full statement of `at_most_once` (false without `WF`, see `at_most_once_counterexample`):
  ∀ h r l b, traverse after h returns send = true for (scope of r, l) only if no in-progress request
  has traversed l with a block while it was in that scope.
-/
/-- **at_most_once.**  After a well-formed history `traverse` returns `send = true` for link `l` and
a request of scope `k` only if no in-progress request of scope `k` has traversed `l` with a block —
whether that block was sent, suppressed, skipped (do-not-send-first-blocks) or listed in an ignore
list. -/
theorem at_most_once_partial (h : List Op) (hwf : WF h) (r : Req) (l : Link) (b : Bool) (i : Nat)
    (hs : (step (run h).1 (.trav r l b)).2 = .sent true i) :
    b = true ∧ ∀ r', scopeOf r' h = scopeOf r h → l ∉ withBlock r' h := by
  obtain ⟨s, h1, h2⟩ := send_iff_partial h hwf r l b
  rw [h1] at hs
  simp only [Out.sent.injEq] at hs
  have := h2.1 hs.1
  exact ⟨this.1, this.2.2⟩

/-- **…hence between two sends of `l` in one scope every request that traversed it has ended.**
If after `g` request `r'` has traversed `l` with a block (for instance it was just sent `l`), and
after the continuation `g'` the block `l` is sent to a request whose scope is `r'`'s scope, then
`g'` contains a finish / finish-with-error / clear of `r'`. -/
theorem between_sends_partial (g g' : List Op) (r' r2 : Req) (l : Link) (b2 : Bool) (i2 : Nat)
    (hwf : WF (g ++ g')) (htrav : l ∈ withBlock r' g)
    (hs2 : (step (run (g ++ g')).1 (.trav r2 l b2)).2 = .sent true i2)
    (hsc : scopeOf r2 (g ++ g') = scopeOf r' g) :
    ∃ o ∈ g', o.req = r' ∧ o.isEnd = true := by
  apply Classical.byContradiction
  intro hno
  have hne : ∀ o ∈ g', ¬ (o.req = r' ∧ o.isEnd = true) := fun o ho hc => hno ⟨o, ho, hc⟩
  have hp := persist g g' r' l hwf htrav hne
  have := (at_most_once_partial (g ++ g') hwf r2 l b2 i2 hs2).2 r' (by rw [hp.2, hsc])
  exact this hp.1

/-
Full statement of `no_residue` (false without `WF`, see `no_residue_counterexample`):
  ∀ h, allFinished h → every map of the peer tracker and of its trackers is empty.
-/
/-- **no_residue.**  When every request that was started has finished, failed or been cleared, the
peer tracker is literally the fresh tracker: `dedupKeys`, `altTrackers`, `blockSentCount`,
`skipFirstBlocks` are empty and the default tracker's three maps are empty. -/
theorem no_residue_partial (h : List Op) (hwf : WF h) (hfin : allFinished h) : (run h).1 = init := by
  have hR := (run_refines h hwf).1
  have hnil : ∀ r, since r h = [] := by
    intro r
    have := hfin r
    unfold inProgress at this
    cases hs : since r h with
    | nil => rfl
    | cons _ _ => rw [hs] at this; simp at this
  have hidle := fun r => (char_specRun h r).idle (hnil r)
  have hwb : (specRun h).wb = [] := by
    cases hw : (specRun h).wb with
    | nil => rfl
    | cons e t =>
      have := ((char_specRun h e.2.1).wb e.2.2).1 ⟨e.1, by rw [hw]; exact List.mem_cons_self⟩
      rw [hnil] at this; simp at this
  have hms : (specRun h).ms = [] := by
    cases hm : (specRun h).ms with
    | nil => rfl
    | cons e t =>
      exact absurd (hnil e.2.1) ((char_specRun h e.2.1).ms e.2.2 ⟨e.1, by rw [hm]; exact List.mem_cons_self⟩)
  have h1 : (run h).1.dedupKeys = [] := eq_nil_of_aget_none _ (fun r => by rw [hR.dk r, (hidle r).1])
  have h2 : (run h).1.sentCount = [] := eq_nil_of_aget_none _ (fun r => by rw [hR.sc r, (hidle r).2.1])
  have h3 : (run h).1.skipFirst = [] := eq_nil_of_aget_none _ (fun r => by rw [hR.sk r, (hidle r).2.2])
  have h4 : (run h).1.alts = [] := by
    apply eq_nil_of_aget_isSome_false
    intro k
    cases hk : (aget (run h).1.alts k).isSome
    · rfl
    · obtain ⟨r, hr⟩ := (hR.al k).1 hk
      rw [(hidle r).1] at hr; simp at hr
  have h5 : (run h).1.main = {} := by
    have := hR.tr none
    rw [hwb, hms] at this
    exact Sim.eq_empty this
  generalize (run h).1 = p at *
  cases p
  simp_all [init]

/-
Full statement of `resend` (false without `WF`, see `resend_counterexample`):
  ∀ h, allFinished h → a new request traversing a present, unskipped, unignored link gets send = true.
-/
/-- **resend.**  After that (every started request ended), a request — in the default scope or after
choosing any dedup key — that reports a present link `l` not in its ignore list and outside its skip
window is sent the block again.  (The general form, for states where other requests are still in
progress, is the `←` direction of `send_iff_partial`.) -/
theorem resend_partial (h : List Op) (hwf : WF h) (hfin : allFinished h) (r : Req) (l : Link) (k : Key) :
    (step (run h).1 (.trav r l true)).2 = .sent true 1 ∧
    (runFrom (run h).1 [.dedup r k, .trav r l true]).2 = [.ok, .sent true 1] := by
  rw [no_residue_partial h hwf hfin]
  constructor
  · rfl
  · simp [runFrom, step, init, PeerTracker.dedupKey, PeerTracker.traverse, PeerTracker.trackerOf,
      PeerTracker.scopeTracker, PeerTracker.setTracker, PeerTracker.setScopeTracker, aget_aset, aget_cons,
      LinkTracker.blockRefCount]

/-
Full statement of `complete_iff` (false without `WF`, see `complete_iff_counterexample`):
  ∀ h r, FinishTracking r after h returns true ↔ r recorded no traversal with a missing block since it began.
-/
/-- **complete_iff.**  After a well-formed history `FinishTracking(r)` returns true — the response
status is `RequestCompletedFull` rather than `RequestCompletedPartial` — exactly when `r` reported no
link without data since it began. -/
theorem complete_iff_partial (h : List Op) (hwf : WF h) (r : Req) :
    (step (run h).1 (.finish r)).2 = .done (!metMissing r h) := by
  have hR := (run_refines h hwf).1
  simp only [step]
  rw [(R_finish hR r).2, (char_specRun h r).miss]
  rfl

/-! ## C. counterexamples outside `WF` (the known finding) -/

/-- Request 1 is sent block 0 in the default scope, is then given a dedup key, and finishes: every
started request has finished, yet the default tracker still holds request 1's record (a reference
count of 1 for block 0) … -/
theorem no_residue_counterexample :
    let h := [Op.trav 1 0 true, .dedup 1 7, .finish 1]
    allFinished h ∧ (run h).1 ≠ init ∧ (run h).1.main.blockRefCount 0 = 1 := by
  refine ⟨?_, by decide, by decide⟩
  intro r
  by_cases hr : r = 1
  · subst hr; decide
  · have : ¬ 1 = r := fun h2 => hr h2.symm
    simp [inProgress, since, sinceStep, Op.req, this]

/-- … so a later request is never sent block 0 again. -/
theorem resend_counterexample :
    (step (run [Op.trav 1 0 true, .dedup 1 7, .finish 1]).1 (.trav 2 0 true)).2 = .sent false 1 := by
  decide

/-- Request 1 meets a missing block, is then given a dedup key, and is reported complete-full. -/
theorem complete_iff_counterexample :
    let h := [Op.trav 1 0 false, .dedup 1 7]
    (step (run h).1 (.finish 1)).2 = .done true ∧ metMissing 1 h = true := by decide

/-- Block 0 is sent twice in scope 7 — to request 1 and later to request 3 — although request 1,
which traversed it in scope 7, is still in progress: request 1 moved to key 8, request 2 passed
through scope 7 and its finish dropped the (non-empty) tracker of scope 7. -/
theorem at_most_once_counterexample :
    let h := [Op.dedup 1 7, .trav 1 0 true, .dedup 1 8, .dedup 2 7, .finish 2, .dedup 3 7, .trav 3 0 true]
    (run h).2 = [.ok, .sent true 1, .ok, .ok, .done true, .ok, .sent true 1] ∧ inProgress 1 h = true := by
  decide

/-! ## D. non-vacuity (tests by evaluation of concrete histories) -/

/-- a well-formed history with three requests, two scopes, an ignore list, a skip window and a
missing block. -/
def sample : List Op :=
  [.dedup 1 7, .dedup 2 7, .ignore 2 [4], .skip 3 1,
   .trav 1 0 true, .trav 2 0 true, .trav 3 0 true, .trav 3 1 true, .trav 1 4 true, .trav 2 5 false]

example : WF sample := by decide
/-- outputs: 1 gets block 0; 2 (same scope) does not; 3 (default scope) skips its first block, gets
its second; block 4 is on 2's ignore list so 1 is not sent it. -/
example : (run sample).2 =
    [.ok, .ok, .ok, .ok, .sent true 1, .sent false 1, .sent false 1, .sent true 2, .sent false 2, .sent false 2] := by
  decide
/-- `refcount_inv_partial` is about non-trivial counts: block 0 has two holders in scope 7. -/
example : ((run sample).1.scopeTracker (some 7)).blockRefCount 0 = 2 ∧
    scopeOf 1 sample = some 7 ∧ scopeOf 2 sample = some 7 ∧ scopeOf 3 sample = none ∧
    withBlock 2 sample = [4, 0] ∧ inProgress 3 sample = true := by decide
/-- `at_most_once_partial` / `send_iff_partial`: the hypothesis "send = true" is met (request 3, new
block 2) and so is "send = false because in use" (request 2, block 0 again). -/
example : (step (run sample).1 (.trav 3 2 true)).2 = .sent true 3 ∧
    (step (run sample).1 (.trav 2 0 true)).2 = .sent false 3 := by decide
/-- `complete_iff_partial`: both values occur. -/
example : (step (run sample).1 (.finish 2)).2 = .done false ∧ (step (run sample).1 (.finish 1)).2 = .done true := by
  decide
/-- `between_sends_partial`: block 0 is sent to 1, 1 and 2 (its holders in scope 7) finish, then it is
sent to request 4 of scope 7. -/
example :
    let g := sample
    let g' := [Op.finish 1, .clear 2, .dedup 4 7]
    WF (g ++ g') ∧ 0 ∈ withBlock 1 g ∧ (step (run (g ++ g')).1 (.trav 4 0 true)).2 = .sent true 1 ∧
      scopeOf 4 (g ++ g') = scopeOf 1 g := by decide
/-- `no_residue_partial` / `resend_partial`: a non-trivial history after which everything has ended. -/
example :
    let h := sample ++ [.finish 1, .clear 2, .finishErr 3]
    WF h ∧ (run h).1 = init ∧ inProgress 1 h = false ∧ inProgress 2 h = false ∧ inProgress 3 h = false := by
  decide

end GS.C19
