package main

import (
	"verifharness/reg"
	_ "verifharness/workers"
)

func main() { reg.Main("workers") }
