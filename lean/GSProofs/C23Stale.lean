import GSProofs.C23Final
import GSProofs.Lemmas.ReqLifeStale
/-!
# C23, requestor side — where the stale task comes from (history characterisation)

`staleTask s` = the request is deleted (`reg = gone`) and a task for it is still pending.

* `stale_iff_ended_while_queued`  over action histories from `init`: the final state has a stale task IFF
  the history has a step (`EndedWhileQueued`: a manager step / error hand-over that deletes the request
  while it is Queued with its task pending and not popped) after which no `wPop` happened.
* `stale_step_back`, `stale_of_ended_while_queued`, `stale_run_no_pop`  the step-level facts behind it.
* `cancel_while_queued_stale`  constructive: from ANY reachable quiescent Queued state, handling a
  `cancelRequestAndClose` message (`Msg.cancel false`; what the manager does for a caller whose context
  ended) is a single manager step into a stale state.
* `stale_at_most_once`  after the stale task has been popped no stale task ever exists again.
* `stale_harmless`  popping the stale task executes nothing: outbox, both returned channels, API log,
  traverser, loader, remote queue, channels, `reg` unchanged by `[wPop, wGet, mgr]`.
-/
namespace GS.C23
open GS.ReqLife

theorem wPop_step {s s' : GS.ReqLife.State} (hs : step s .wPop = some s') :
    s'.reg = s.reg ∧ s'.tqPending + 1 = s.tqPending ∧ s.w = .idle := by
  simp only [step] at hs
  split at hs
  · rename_i hc
    cases hs
    simp at hc
    refine ⟨rfl, ?_, hc.1⟩
    simp only; omega
  · cases hs

/-- the request leaves the tracked set in the step `s0 → s1` while it is Queued with its task pending
    and not popped -/
def EndedWhileQueued (s0 s1 : GS.ReqLife.State) : Prop :=
  s0.reg = .live ∧ s0.rstate = .queued ∧ inHandoff s0.w = false ∧ s0.tqPending = 1 ∧ s1.reg = .gone

instance (s0 s1 : GS.ReqLife.State) : Decidable (EndedWhileQueued s0 s1) := by
  unfold EndedWhileQueued; infer_instance

/-- (←, one step) ending while Queued leaves a stale task -/
theorem stale_of_ended_while_queued {s0 s1 : GS.ReqLife.State} {a : GS.ReqLife.Action}
    (hs : step s0 a = some s1) (he : EndedWhileQueued s0 s1) : staleTask s1 ∧ a ≠ .wPop := by
  obtain ⟨h1, _, _, h4, h5⟩ := he
  rcases step_pending hs with ⟨_, hr⟩ | hp | hl
  · rw [hr, h1] at h5; cases h5
  · refine ⟨⟨h5, by omega⟩, fun ha => ?_⟩
    subst ha
    have := (wPop_step hs).1
    rw [h5, h1] at this; cases this
  · rw [hl] at h5; cases h5

/-- (→, one step) a stale task was stale before and this step is not `wPop`, or the request ended while
    Queued in this very step -/
theorem stale_step_back {s s' : GS.ReqLife.State} {a : GS.ReqLife.Action} (h : GS.ReqLife.Reachable s)
    (hs : step s a = some s') (hst : staleTask s') :
    (staleTask s ∧ a ≠ .wPop) ∨ EndedWhileQueued s s' := by
  obtain ⟨hi, hq⟩ := req_reachable_inv h
  have hb := queue_bounds_of_inv hq
  obtain ⟨hg', hp'⟩ := hst
  rcases reg_cases s with hn | hl | hg
  · exfalso
    have hz := (hi.l hn).2.1
    rcases step_pending hs with ⟨_, hr⟩ | hp | hl
    · rw [hr, hn] at hg'; cases hg'
    · omega
    · rw [hl] at hg'; cases hg'
  · right
    have hp : s'.tqPending = s.tqPending := by
      rcases step_pending hs with ⟨_, hr⟩ | hp | hl'
      · rw [hr, hl] at hg'; cases hg'
      · exact hp
      · rw [hl'] at hg'; cases hg'
    have hq1 : s.rstate = .queued := by
      apply Classical.byContradiction
      intro hne
      have := (hq.qn hl hne).1
      omega
    have hh : inHandoff s.w = false := by
      have := hq.qp
      cases hx : inHandoff s.w
      · rfl
      · rw [hx] at this; simp at this; omega
    exact ⟨hl, hq1, hh, by omega, hg'⟩
  · left
    obtain ⟨_, hle⟩ := gone_step hi hg hs
    refine ⟨⟨hg, by omega⟩, fun ha => ?_⟩
    subst ha
    have := (wPop_step hs).2.1
    omega

/-- after the request is deleted: a stale task at the end means no `wPop` on the way and the number of
    pending tasks never changed -/
theorem stale_run_no_pop {s u : GS.ReqLife.State} {acts : List GS.ReqLife.Action}
    (h : GS.ReqLife.Reachable s) (hg : s.reg = .gone) (hr : run s acts = some u) (hst : staleTask u) :
    .wPop ∉ acts ∧ staleTask s := by
  induction acts generalizing s with
  | nil => simp [run] at hr; subst hr; exact ⟨by simp, hst⟩
  | cons a as ih =>
    simp only [run] at hr
    cases hs : step s a with
    | none => simp [hs] at hr
    | some s1 =>
      simp [hs] at hr
      obtain ⟨g1, _⟩ := gone_step (req_reachable_inv h).1 hg hs
      obtain ⟨n1, st1⟩ := ih (GS.ReqLife.Reachable.step h hs) g1 hr
      rcases stale_step_back h hs st1 with ⟨st, na⟩ | he
      · refine ⟨?_, st⟩
        simp only [List.mem_cons, not_or]
        exact ⟨fun e => na e.symm, n1⟩
      · rw [he.1] at hg; cases hg

/-- without `wPop` a deleted request's pending task stays pending -/
theorem stale_run_keep {s u : GS.ReqLife.State} {acts : List GS.ReqLife.Action}
    (h : GS.ReqLife.Reachable s) (hst : staleTask s) (hr : run s acts = some u) (hn : .wPop ∉ acts) :
    staleTask u := by
  induction acts generalizing s with
  | nil => simp [run] at hr; subst hr; exact hst
  | cons a as ih =>
    simp only [run] at hr
    simp only [List.mem_cons, not_or] at hn
    cases hs : step s a with
    | none => simp [hs] at hr
    | some s1 =>
      simp [hs] at hr
      obtain ⟨g1, _⟩ := gone_step (req_reachable_inv h).1 hst.1 hs
      have p1 : s1.tqPending = s.tqPending := by
        rcases step_pending hs with ⟨ha, _⟩ | hp | hl
        · exact absurd ha.symm hn.1
        · exact hp
        · rw [hl] at g1; cases g1
      exact ih (GS.ReqLife.Reachable.step h hs) ⟨g1, by have := hst.2; omega⟩ hr hn.2

/-- the history statement from an arbitrary reachable start state without a stale task -/
theorem stale_history_from {x s : GS.ReqLife.State} {acts : List GS.ReqLife.Action}
    (h : GS.ReqLife.Reachable x) (hx : ¬ staleTask x) (hr : run x acts = some s) (hst : staleTask s) :
    ∃ as1 a as2 s0 s1, acts = as1 ++ a :: as2 ∧ run x as1 = some s0 ∧ step s0 a = some s1 ∧
      EndedWhileQueued s0 s1 ∧ run s1 as2 = some s ∧ .wPop ∉ as2 := by
  induction acts generalizing x with
  | nil => simp [run] at hr; subst hr; exact absurd hst hx
  | cons a as ih =>
    simp only [run] at hr
    cases hs : step x a with
    | none => simp [hs] at hr
    | some x1 =>
      simp [hs] at hr
      have h1 := GS.ReqLife.Reachable.step h hs
      by_cases hx1 : staleTask x1
      · rcases stale_step_back h hs hx1 with ⟨st, _⟩ | he
        · exact absurd st hx
        · exact ⟨[], a, as, x, x1, rfl, rfl, hs, he, hr, (stale_run_no_pop h1 hx1.1 hr hst).1⟩
      · obtain ⟨as1, b, as2, s0, s1, e1, e2, e3, e4, e5, e6⟩ := ih h1 hx1 hr
        refine ⟨a :: as1, b, as2, s0, s1, by rw [e1]; rfl, ?_, e3, e4, e5, e6⟩
        simp [run, hs, e2]

/-- **stale_iff_ended_while_queued.**  For every history `acts` from the initial state ending in `s`:
    `s` has a stale task iff `acts = as1 ++ a :: as2` where step `a` deleted the request while it was
    Queued with its task pending and not yet popped (`EndedWhileQueued`), and no `wPop` occurs in `as2`. -/
theorem stale_iff_ended_while_queued {p e t : Nat} {acts : List GS.ReqLife.Action} {s : GS.ReqLife.State}
    (hr : run (init p e t) acts = some s) :
    staleTask s ↔
      ∃ as1 a as2 s0 s1, acts = as1 ++ a :: as2 ∧ run (init p e t) as1 = some s0 ∧ step s0 a = some s1 ∧
        EndedWhileQueued s0 s1 ∧ run s1 as2 = some s ∧ .wPop ∉ as2 := by
  constructor
  · intro hst
    exact stale_history_from (GS.ReqLife.Reachable.init p e t) (by simp [staleTask, init]) hr hst
  · rintro ⟨as1, a, as2, s0, s1, _, e2, e3, e4, e5, e6⟩
    have h0 := GS.C04.reachable_run (GS.ReqLife.Reachable.init p e t) e2
    have h1 := GS.ReqLife.Reachable.step h0 e3
    exact stale_run_keep h1 (stale_of_ended_while_queued e3 e4).1 e5 e6

/-- (→) in the plain form: a stale task means the request is deleted, at most that one task exists, it is
    not with a worker, and (history) it was never popped after the request ended -/
theorem stale_never_popped {p e t : Nat} {acts : List GS.ReqLife.Action} {s : GS.ReqLife.State}
    (hr : run (init p e t) acts = some s) (hst : staleTask s) :
    s.reg = .gone ∧ s.tqPending = 1 ∧ inHandoff s.w = false ∧
    ∃ as1 as2 s1, acts = as1 ++ as2 ∧ run (init p e t) as1 = some s1 ∧ s1.reg = .gone ∧ staleTask s1 ∧
      run s1 as2 = some s ∧ .wPop ∉ as2 := by
  have hs := GS.C04.reachable_run (GS.ReqLife.Reachable.init p e t) hr
  have hq := (req_reachable_inv hs).2
  have hb := queue_bounds_of_inv hq
  obtain ⟨as1, a, as2, s0, s1, e1, e2, e3, e4, e5, e6⟩ := (stale_iff_ended_while_queued hr).mp hst
  refine ⟨hst.1, by have := hst.2; omega, ?_, as1 ++ [a], as2, s1, by simp [e1], ?_, e4.2.2.2.2,
    (stale_of_ended_while_queued e3 e4).1, e5, e6⟩
  · have := hq.qp
    cases hx : inHandoff s.w
    · rfl
    · rw [hx] at this; simp at this; have := hst.2; omega
  · rw [reqlife_run_append, e2]; simp [run, e3]

/-- (←, constructive) from ANY reachable quiescent state whose request is reported Queued (and has no
    terminal error recorded yet), the manager handling a `cancelRequestAndClose` message is one step
    into a stale state: the request is deleted, its task stays pending. -/
theorem cancel_while_queued_stale {s : GS.ReqLife.State} (h : GS.ReqLife.Reachable s) (hq : Quiescent s)
    (hr : reportedState s = some .queued) (ht : s.termErr = none) :
    ∃ s', step (pushMsg s (.cancel false)) .mgr = some s' ∧ s' = handle s (.cancel false) ∧
      EndedWhileQueued s s' ∧ staleTask s' ∧ s'.tqPending = s.tqPending := by
  obtain ⟨_, hqi⟩ := req_reachable_inv h
  obtain ⟨hmb, hm, h1, h2, h3⟩ := hq
  have hl : s.reg = .live := by
    simp only [reportedState] at hr; split at hr
    · assumption
    · cases hr
  have hrs : s.rstate = .queued := by
    simp only [reportedState, hl, if_true, Option.some.injEq] at hr; exact hr
  have hh : inHandoff s.w = false := by
    cases hw : s.w <;> simp_all [inHandoff]
  have hp : s.tqPending = 1 := by
    have := hqi.qq hl hrs; rw [hh] at this; simpa using this
  have hne : (s.rstate != .running) = true := by simp [hrs]
  refine ⟨handle s (.cancel false), ?_, rfl, ?_, ?_, ?_⟩
  · clear hr ht hqi h1 h2 h3 hl hrs hh hp hne h
    cases s
    simp only at hmb hm
    subst hmb hm
    rfl
  · refine ⟨hl, hrs, hh, hp, ?_⟩
    simp [handle, hl, cancelLive, cancelOnError, hne, terminate, ht, finishTerminate]
  · constructor
    · simp [handle, hl, cancelLive, cancelOnError, hne, terminate, ht, finishTerminate]
    · simp [handle, hl, cancelLive, cancelOnError, hne, terminate, ht, finishTerminate, hp]
  · simp [handle, hl, cancelLive, cancelOnError, hne, terminate, ht, finishTerminate]

/-- **stale_harmless.**  Popping the stale task executes nothing: from a reachable quiescent state with a
    stale task the drain `[wPop, wGet, mgr]` is enabled and changes nothing a peer, the caller or the
    store could see — no message sent (`outbox`), nothing delivered on the two returned channels, no API
    result, the traverser / loader / remote queue / internal channels / `reg` untouched; only the task
    counters move (pending 1 → 0, active back to 0) and the worker is idle again. -/
theorem stale_harmless {s : GS.ReqLife.State} (h : GS.ReqLife.Reachable s) (hq : Quiescent s)
    (hst : staleTask s) :
    ∃ s', run s [.wPop, .wGet, .mgr] = some s' ∧
      s'.outbox = s.outbox ∧ s'.retP = s.retP ∧ s'.retE = s.retE ∧ s'.apiLog = s.apiLog ∧
      s'.t = s.t ∧ s'.tfuel = s.tfuel ∧ s'.hasLoader = s.hasLoader ∧ s'.rq = s.rq ∧ s'.online = s.online ∧
      s'.reqSent = s.reqSent ∧ s'.chanPClosed = s.chanPClosed ∧ s'.chanEClosed = s.chanEClosed ∧
      s'.panicked = s.panicked ∧ s'.cp = s.cp ∧ s'.ce = s.ce ∧ s'.reg = s.reg ∧ s'.mbox = [] ∧
      s'.w = .idle ∧ s'.tqPending = 0 ∧ s'.tqActive = 0 := by
  obtain ⟨_, hw, ha, hb, _⟩ := req_final h hq hst.1
  obtain ⟨hmb, hm, _⟩ := hq
  have hpos : 0 < s.tqPending := hst.2
  have hg := hst.1
  have ha0 : s.tqActive = 0 := by simp only [taskActive] at ha; omega
  simp [run, step, hw, hpos, hm, pushMsg, hmb, handle, hg, ha0]
  omega

/-- **stale_at_most_once.**  After the stale task has been popped (the drain from a quiescent stale state),
    no stale task exists at ANY later state, along every action sequence. -/
theorem stale_at_most_once {s s' u : GS.ReqLife.State} {acts : List GS.ReqLife.Action}
    (h : GS.ReqLife.Reachable s) (hq : Quiescent s) (hst : staleTask s)
    (hd : run s [.wPop, .wGet, .mgr] = some s') (hr : run s' acts = some u) :
    ¬ staleTask u ∧ ¬ taskPending u ∧ ¬ taskActive u := by
  obtain ⟨_, _, _, _, _, hdr⟩ := req_final h hq hst.1
  obtain ⟨s'', r1, r2, _, _, _, r6, _⟩ := hdr hst
  rw [hd] at r1; cases r1
  have hs' := GS.C04.reachable_run h hd
  obtain ⟨g, _⟩ := gone_run h (fun hx => (req_reachable_inv hx).1) hst.1 hd
  obtain ⟨_, b, c, _⟩ := req_final_drained_forever hs' r2 g r6 hr
  exact ⟨fun x => b x.2, b, c⟩

/-! non-vacuity (tests on the concrete schedule `staleTrace`) -/

/-- `staleTrace` ends in a reachable quiescent stale state: hypotheses of `stale_harmless` /
    `stale_at_most_once` -/
example : ∃ s, GS.ReqLife.Reachable s ∧ Quiescent s ∧ staleTask s :=
  ⟨_, GS.C04.reachable_of_trace (p := 0) (e := 10) (t := 10) (acts := staleTrace) (by decide),
    by decide, by decide⟩

/-- the decomposition of `stale_iff_ended_while_queued` on `staleTrace`: the request ends while Queued in
    step 5 (`ceRecv`: hand-over of the ClientCancelled error completes `terminateRequest`), no `wPop` after -/
example : ∃ s0 s1, run (init 0 10 10) (staleTrace.take 4) = some s0 ∧ step s0 .ceRecv = some s1 ∧
    EndedWhileQueued s0 s1 ∧ GS.ReqLife.Action.wPop ∉ staleTrace.drop 5 := by
  refine ⟨_, _, rfl, rfl, by decide, by decide⟩

/-- hypotheses of `cancel_while_queued_stale`: after `[envNew, mgr]` the request is Queued, quiescent, no
    terminal error -/
example : ((run (init 0 10 10) [.envNew, .mgr]).map fun s =>
    (decide (Quiescent s), reportedState s, s.termErr, s.tqPending)) = some (true, some .queued, none, 1) := by
  decide

end GS.C23
