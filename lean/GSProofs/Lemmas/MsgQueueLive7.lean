import GSProofs.Lemmas.MsgQueueLive6
/-!
# Message queue liveness, part 7: a queue that was told to shut down exits
(when callers have stopped building on it: after `Disconnected` the queue is out of the peer table)
-/
namespace GS.MQ
open GS.Alloc GS.Temporal

/-- how far the goroutine is from having exited -/
def stage : Pc → Nat
  | .exited => 0
  | .exiting => 1
  | _ => 2

/-- the variant for "exits" -/
def V2 (s : State) : Nat :=
  s.builders.length * (3 * s.maxRetries + 3) + rem s.maxRetries s.pc + (if s.token then 1 else 0) + stage s.pc

/-- `Res` plus: `done` stays set -/
structure ResD (s s' : State) : Prop extends Res s s' where
  done : s.done = true → s'.done = true

theorem ResD.refl (s : State) : ResD s s := ⟨Res.refl s, id⟩
theorem ResD.trans {a b c : State} (h1 : ResD a b) (h2 : ResD b c) : ResD a c :=
  ⟨h1.toRes.trans h2.toRes, fun h => h2.done (h1.done h)⟩
theorem ResD.fields {s s' : State} (hb : s'.builders = s.builders) (ht : s'.token = s.token)
    (hm : s'.maxRetries = s.maxRetries) (hd : s.done = true → s'.done = true) : ResD s s' :=
  ⟨Res.fields hb ht hm, hd⟩

theorem Res.len {s s' : State} (r : Res s s') : s'.builders.length ≤ s.builders.length := by
  have := r.sub.length_le
  simpa [topicsOf] using this

theorem publishError_resd (pick : Pick) (s : State) (m : InFlight) : ResD s (s.publishError pick m) :=
  ⟨publishError_res pick s m, fun h => by rw [(publishError_shape pick s m).2.2.1]; exact h⟩

theorem publishSent_resd (pick : Pick) (s : State) (m : InFlight) : ResD s (s.publishSent pick m) := by
  refine ⟨publishSent_res pick s m, ?_⟩
  unfold State.publishSent
  have q := ((publish_frame s m.topic Kind.sent).q).trans (release_qframe pick _ m.size)
  intro h; rw [q.done]; exact h

theorem finish_resd (s : State) (m : InFlight) : ResD s (s.finish m) :=
  ⟨(finish_res s m).1, fun h => by rw [show (s.finish m).done = s.done from (closeTopic_frame s m.topic).done]; exact h⟩

/-- outcome of a step that keeps the goroutine before its exit: queue shrinks or stays, `rem` drops -/
structure Prog (s s' : State) : Prop extends ResD s s' where
  rem : rem s.maxRetries s'.pc < rem s.maxRetries s.pc
  ok : PcOK s'
  stage : stage s'.pc = 2

theorem attempt_prog (pick : Pick) {s s1 : State} {m : InFlight} (i : Nat) (r : ResD s s1)
    (hrem : 3 * (s.maxRetries - i) < rem s.maxRetries s.pc) (hpos : 0 < rem s.maxRetries s.pc) :
    Prog s (s1.attempt pick m i) := by
  unfold State.attempt
  split
  · next hi =>
    exact ⟨r.trans (ResD.fields rfl rfl rfl id), hrem, hi, rfl⟩
  · obtain ⟨_, f2⟩ := finish_res (s1.publishError pick m) m
    refine ⟨(r.trans (publishError_resd pick s1 m)).trans (finish_resd _ m), ?_, (idle_ok f2).1, ?_⟩
    · rw [f2]; exact hpos
    · rw [f2]; rfl

theorem errfin_prog (pick : Pick) {s s1 : State} {m : InFlight} (r : ResD s s1) (hpos : 0 < rem s.maxRetries s.pc) :
    Prog s ((s1.publishError pick m).finish m) := by
  obtain ⟨_, f2⟩ := finish_res (s1.publishError pick m) m
  refine ⟨(r.trans (publishError_resd pick s1 m)).trans (finish_resd _ m), ?_, (idle_ok f2).1, ?_⟩
  · rw [f2]; exact hpos
  · rw [f2]; rfl

/-- the network answers while the goroutine is blocked in it -/
theorem ack_prog (pick : Pick) {s : State} (hok : PcOK s) (ok : Bool) (hen : ackEnabled s = true) (hne : s.pc ≠ .exiting) :
    Prog s (s.ack pick ok) := by
  obtain ⟨peer, maxRetries, builders, nextTopic, token, done, sender, pc, closedStreams, waiters,
    nextTicket, topics, pubClosed, alloc, log⟩ := s
  cases pc with
  | idle => simp [ackEnabled] at hen
  | exited => simp [ackEnabled] at hen
  | exiting => exact absurd rfl hne
  | opening m r =>
    cases r with
    | none =>
      unfold State.ack
      simp only
      split
      · exact attempt_prog pick 0 (ResD.fields (s' := ⟨peer, maxRetries, builders, nextTopic, token, done, true, .opening m none, closedStreams, waiters,
          nextTicket, topics, pubClosed, alloc, log⟩) rfl rfl rfl id) (by simp [rem]) (by simp [rem])
      · generalize hs1 : State.publishError pick (⟨peer, maxRetries, builders, nextTopic, token, done, sender, .opening m none,
            closedStreams, waiters, nextTicket, topics, pubClosed, alloc, log⟩ : State) m = s1
        have r1 : ResD (⟨peer, maxRetries, builders, nextTopic, token, done, sender, .opening m none,
            closedStreams, waiters, nextTicket, topics, pubClosed, alloc, log⟩ : State) s1 := by
          rw [← hs1]; exact publishError_resd pick _ m
        obtain ⟨_, f2⟩ := finish_res ({ s1 with done := true } : State) m
        refine ⟨(r1.trans (ResD.fields (s' := { s1 with done := true }) rfl rfl rfl (fun _ => rfl))).trans (finish_resd _ m), ?_, (idle_ok f2).1, ?_⟩
        · rw [f2]; simp [rem]
        · rw [f2]; rfl
    | some i =>
      have hi : i < maxRetries := hok
      unfold State.ack
      simp only
      split
      · refine attempt_prog pick (i + 1) (ResD.fields (s' := ⟨peer, maxRetries, builders, nextTopic, token, done, true, .opening m (some i), closedStreams, waiters,
          nextTicket, topics, pubClosed, alloc, log⟩) rfl rfl rfl id) ?_ ?_
        · simp only [rem]; omega
        · simp only [rem]; omega
      · refine errfin_prog pick (ResD.refl _) ?_
        simp only [rem]; omega
  | sending m i =>
    have hi : i < maxRetries := hok
    unfold State.ack
    simp only
    split
    · obtain ⟨_, f2⟩ := finish_res (State.publishSent pick (⟨peer, maxRetries, builders, nextTopic, token, done, sender, .sending m i,
            closedStreams, waiters, nextTicket, topics, pubClosed, alloc, log⟩ : State) m) m
      refine ⟨(publishSent_resd pick _ m).trans (finish_resd _ m), ?_, (idle_ok f2).1, ?_⟩
      · rw [f2]; simp only [rem]; omega
      · rw [f2]; rfl
    · refine ⟨ResD.fields rfl rfl rfl id, ?_, hi, rfl⟩
      simp only [rem]; omega
  | resetting m i =>
    have hi : i < maxRetries := hok
    unfold State.ack
    simp only
    split
    · refine errfin_prog pick (ResD.refl _) ?_
      simp only [rem]; omega
    · refine ⟨ResD.fields rfl rfl rfl id, ?_, hi, rfl⟩
      simp only [rem]; omega

theorem Prog.v2 {s s' : State} (p : Prog s s') (hst : GS.MQ.stage s.pc = 2) : V2 s' < V2 s := by
  unfold V2
  rw [p.maxRetries, p.token, p.stage, hst]
  have h1 := Nat.mul_le_mul_right (3 * s.maxRetries + 3) p.len
  have h2 := p.rem
  omega

end GS.MQ

namespace GS.MQ
open GS.Alloc GS.Temporal

theorem ack_exiting (pick : Pick) {s : State} (h : s.pc = .exiting) (ok : Bool) :
    (s.ack pick ok).pc = .exited ∧ Res s (s.ack pick ok) := by
  unfold State.ack
  rw [h]
  simp only
  refine ⟨by first | rfl | trivial, ?_⟩
  exact Res.fields rfl rfl rfl

theorem drain_done (pick : Pick) : ∀ (fuel : Nat) (s : State),
    (State.drain pick fuel s).done = s.done ∧ (State.drain pick fuel s).maxRetries = s.maxRetries
  | 0, s => ⟨rfl, rfl⟩
  | fuel + 1, s => by
    obtain ⟨e1, e2⟩ := extract_shape s
    unfold State.drain
    cases he : s.extract with
    | mk s' om =>
      cases om with
      | none => obtain ⟨_, _, _, _, a5, a6, _⟩ := e1 s' he; exact ⟨a5, a6⟩
      | some m =>
        obtain ⟨pre, b, _, _, _, _, _, _, a5, a6, _⟩ := e2 s' m he
        simp only
        obtain ⟨i1, i2⟩ := drain_done pick fuel ((s'.publishError pick m).closeTopic m.topic)
        have f := closeTopic_frame (s'.publishError pick m) m.topic
        have p := publishError_shape pick s' m
        exact ⟨i1.trans (f.done.trans (p.2.2.1.trans a5)), i2.trans (f.maxRetries.trans (p.2.2.2.2.1.trans a6))⟩

/-- the select loop of a queue that has been told to shut down -/
theorem run_exitprog (pick : Pick) {s : State} (hpc : s.pc = .idle) (hd : s.done = true) (pw : Bool) :
    V2 (s.run pick pw) < V2 s ∧ (s.run pick pw).done = true ∧ (s.run pick pw).pc ≠ .exited := by
  obtain ⟨peer, maxRetries, builders, nextTopic, token, done, sender, pc, closedStreams, waiters,
    nextTicket, topics, pubClosed, alloc, log⟩ := s
  have hpc' : pc = .idle := hpc
  have hd' : done = true := hd
  subst hpc' hd'
  unfold State.run
  simp only
  split
  · next hc =>
    have htok : token = true := by
      cases token with
      | true => rfl
      | false => simp at hc
    subst htok
    obtain ⟨e1, e2⟩ := extract_shape (⟨peer, maxRetries, builders, nextTopic, false, true, sender, .idle, closedStreams, waiters,
        nextTicket, topics, pubClosed, alloc, log⟩ : State)
    cases he : (⟨peer, maxRetries, builders, nextTopic, false, true, sender, .idle, closedStreams, waiters,
        nextTicket, topics, pubClosed, alloc, log⟩ : State).extract with
    | mk s1 om =>
      cases om with
      | none =>
        obtain ⟨a1, _, a3, a4, a5, a6, _⟩ := e1 s1 he
        refine ⟨?_, a5, by rw [a4]; simp⟩
        show s1.builders.length * (3 * s1.maxRetries + 3) + rem s1.maxRetries s1.pc + (if s1.token then 1 else 0) + stage s1.pc <
          builders.length * (3 * maxRetries + 3) + 0 + 1 + 2
        rw [a1, a3, a4, a6]
        simp [rem, stage]
      | some m =>
        obtain ⟨pre, b, hb, _, _, _, _, a4, a5, a6, _⟩ := e2 s1 m he
        have hlen : s1.builders.length + 1 ≤ builders.length := by
          have : builders = pre ++ b :: s1.builders := hb
          rw [this, List.length_append, List.length_cons]; omega
        have hmr : s1.maxRetries = maxRetries := a6
        have hd1 : s1.done = true := a5
        have f2 := publish_frame s1 m.topic Kind.queued
        have r2 : ResD s1 (s1.publish m.topic Kind.queued) := ResD.fields f2.builders f2.token f2.maxRetries (fun h => by rw [f2.done]; exact h)
        have bound : ∀ s' : State, ResD s1 s' → rem maxRetries s'.pc ≤ 3 * maxRetries + 1 → stage s'.pc = 2 →
            V2 s' < V2 (⟨peer, maxRetries, builders, nextTopic, true, true, sender, .idle, closedStreams, waiters,
              nextTicket, topics, pubClosed, alloc, log⟩ : State) ∧ s'.done = true ∧ s'.pc ≠ .exited := by
          intro s' r hrem hst
          refine ⟨?_, r.done hd1, ?_⟩
          · show s'.builders.length * (3 * s'.maxRetries + 3) + rem s'.maxRetries s'.pc + (if s'.token then 1 else 0) + stage s'.pc <
              builders.length * (3 * maxRetries + 3) + 0 + 1 + 2
            rw [r.maxRetries, hmr, hst]
            have c1 := r.len
            have c2 := Nat.mul_le_mul_right (3 * maxRetries + 3) (Nat.le_trans (Nat.add_le_add_right c1 1) hlen)
            have e : (s'.builders.length + 1) * (3 * maxRetries + 3) = s'.builders.length * (3 * maxRetries + 3) + (3 * maxRetries + 3) := by
              rw [Nat.add_mul, Nat.one_mul]
            have ht : (if s'.token then 1 else 0) ≤ 1 := by split <;> omega
            omega
          · intro hx; rw [hx] at hst; simp [stage] at hst
        have hres : ∀ s' : State, s' = (if (s1.publish m.topic Kind.queued).sender = true
              then State.attempt pick (s1.publish m.topic Kind.queued) m 0
              else ({ s1.publish m.topic Kind.queued with pc := .opening m none } : State)) →
            V2 s' < V2 (⟨peer, maxRetries, builders, nextTopic, true, true, sender, .idle, closedStreams, waiters,
              nextTicket, topics, pubClosed, alloc, log⟩ : State) ∧ s'.done = true ∧ s'.pc ≠ .exited := by
          intro s' hs'
          subst hs'
          split
          · unfold State.attempt
            split
            · exact bound ({ (s1.publish m.topic Kind.queued).emit [Event.wire m.topic 0] with pc := .sending m 0 } : State)
                (r2.trans (ResD.fields rfl rfl rfl id)) (by simp only [rem]; omega) rfl
            · obtain ⟨_, g2⟩ := finish_res ((s1.publish m.topic Kind.queued).publishError pick m) m
              exact bound _ ((r2.trans (publishError_resd pick _ m)).trans (finish_resd _ m)) (by rw [g2]; simp [rem]) (by rw [g2]; rfl)
          · exact bound ({ s1.publish m.topic Kind.queued with pc := .opening m none } : State)
              (r2.trans (ResD.fields rfl rfl rfl id)) (by simp [rem]) rfl
        exact hres _ rfl
  · -- the done branch
    simp only [if_true]
    have key : ∀ s1 : State, s1.builders.length * (3 * maxRetries + 3) + (if s1.token then 1 else 0) ≤
          builders.length * (3 * maxRetries + 3) + (if token then 1 else 0) → s1.maxRetries = maxRetries → s1.done = true →
        V2 ({ (if s1.sender = true then s1.emit [Event.senderClosed] else s1) with pc := Pc.exiting } : State) <
          V2 (⟨peer, maxRetries, builders, nextTopic, token, true, sender, .idle, closedStreams, waiters,
              nextTicket, topics, pubClosed, alloc, log⟩ : State) ∧
        ({ (if s1.sender = true then s1.emit [Event.senderClosed] else s1) with pc := Pc.exiting } : State).done = true ∧
        ({ (if s1.sender = true then s1.emit [Event.senderClosed] else s1) with pc := Pc.exiting } : State).pc ≠ .exited := by
      intro s1 hl hm hd1
      have eb : (if s1.sender = true then s1.emit [Event.senderClosed] else s1).builders = s1.builders := by split <;> rfl
      have em : (if s1.sender = true then s1.emit [Event.senderClosed] else s1).maxRetries = s1.maxRetries := by split <;> rfl
      have et : (if s1.sender = true then s1.emit [Event.senderClosed] else s1).token = s1.token := by split <;> rfl
      have ed : (if s1.sender = true then s1.emit [Event.senderClosed] else s1).done = s1.done := by split <;> rfl
      refine ⟨?_, by show (if s1.sender = true then s1.emit [Event.senderClosed] else s1).done = true; rw [ed]; exact hd1, by simp⟩
      show (if s1.sender = true then s1.emit [Event.senderClosed] else s1).builders.length *
          (3 * (if s1.sender = true then s1.emit [Event.senderClosed] else s1).maxRetries + 3) + 0 +
          (if (if s1.sender = true then s1.emit [Event.senderClosed] else s1).token then 1 else 0) + 1 <
        builders.length * (3 * maxRetries + 3) + 0 + (if token then 1 else 0) + 2
      rw [eb, em, et, hm]
      omega
    obtain ⟨d1, d2⟩ := drain_done pick builders.length (⟨peer, maxRetries, builders, nextTopic, token, true, sender, .idle, closedStreams, waiters,
        nextTicket, topics, pubClosed, alloc, log⟩ : State)
    have hnil := drain_builders_nil pick builders.length (⟨peer, maxRetries, builders, nextTopic, token, true, sender, .idle, closedStreams, waiters,
        nextTicket, topics, pubClosed, alloc, log⟩ : State) (Nat.le_refl _)
    apply key
    · cases builders with
      | nil => exact Nat.le_refl _
      | cons b r =>
        rw [hnil]
        have h1 : (if (State.drain pick (b :: r).length (⟨peer, maxRetries, b :: r, nextTopic, token, true, sender, .idle, closedStreams, waiters,
            nextTicket, topics, pubClosed, alloc, log⟩ : State)).token = true then 1 else 0) ≤ 1 := by split <;> omega
        have h2 : 1 * (3 * maxRetries + 3) ≤ (b :: r).length * (3 * maxRetries + 3) :=
          Nat.mul_le_mul_right _ (by simp)
        simp only [List.length_nil, Nat.zero_mul, Nat.zero_add]
        omega
    · exact d2
    · exact d1

/-- the system in which callers no longer build on this queue (it is out of the peer table) -/
def LSysQ (pick : Pick) : Sys State Act where
  step s a :=
    match a with
    | .run pw => if runEnabled s then some (s.run pick pw) else none
    | .ack ok => if ackEnabled s then some (s.ack pick ok) else none
    | .build _ => none
    | .wake _ => none
    | a => some (step pick s a)

def ExitP (s : State) : Prop := TK s ∧ s.done = true ∧ s.pc ≠ .exited
def ExitQ (s : State) : Prop := s.pc = .exited

theorem stage_two_of {s : State} (h1 : s.pc ≠ .exited) (h2 : s.pc ≠ .exiting) : stage s.pc = 2 := by
  cases hp : s.pc <;> simp_all [stage]

/-- **the variant rule for "a queue told to shut down exits"** -/
theorem exit_rule (pick : Pick) : VariantRule (LSysQ pick) fairAct ExitP ExitQ V2 where
  progress := by
    intro s ⟨_, hd, hne⟩ _
    cases hpc : s.pc with
    | idle =>
      refine ⟨.run true, trivial, ?_⟩
      show (if runEnabled s then some (s.run pick true) else none).isSome = true
      have : runEnabled s = true := by unfold runEnabled; rw [hpc, hd]; simp
      rw [this]; rfl
    | exited => exact absurd hpc hne
    | exiting =>
      refine ⟨.ack true, trivial, ?_⟩
      show (if ackEnabled s then some (s.ack pick true) else none).isSome = true
      have : ackEnabled s = true := by unfold ackEnabled; rw [hpc]
      rw [this]; rfl
    | opening m r =>
      refine ⟨.ack true, trivial, ?_⟩
      show (if ackEnabled s then some (s.ack pick true) else none).isSome = true
      have : ackEnabled s = true := by unfold ackEnabled; rw [hpc]
      rw [this]; rfl
    | sending m i =>
      refine ⟨.ack true, trivial, ?_⟩
      show (if ackEnabled s then some (s.ack pick true) else none).isSome = true
      have : ackEnabled s = true := by unfold ackEnabled; rw [hpc]
      rw [this]; rfl
    | resetting m i =>
      refine ⟨.ack true, trivial, ?_⟩
      show (if ackEnabled s then some (s.ack pick true) else none).isSome = true
      have : ackEnabled s = true := by unfold ackEnabled; rw [hpc]
      rw [this]; rfl
  keep := by
    intro s a s' ⟨htk, hd, hne⟩ _ hstep
    have main : (ExitP s' ∨ ExitQ s') ∧ V2 s' ≤ V2 s ∧ (fairAct a → ExitQ s' ∨ V2 s' < V2 s) := by
      cases a with
      | run pw =>
        have hs : (if runEnabled s then some (s.run pick pw) else none) = some s' := hstep
        by_cases hen : runEnabled s = true
        · rw [if_pos hen] at hs
          have := (Option.some.inj hs).symm; subst this
          have hpc : s.pc = .idle := by
            unfold runEnabled at hen; simp only [Bool.and_eq_true] at hen; simpa using hen.1
          obtain ⟨v, d, n⟩ := run_exitprog pick hpc hd pw
          exact ⟨Or.inl ⟨run_tk pick htk pw, d, n⟩, Nat.le_of_lt v, fun _ => Or.inr v⟩
        · rw [if_neg hen] at hs; exact absurd hs (by simp)
      | ack ok =>
        have hs : (if ackEnabled s then some (s.ack pick ok) else none) = some s' := hstep
        by_cases hen : ackEnabled s = true
        · rw [if_pos hen] at hs
          have := (Option.some.inj hs).symm; subst this
          by_cases hex : s.pc = .exiting
          · obtain ⟨e1, r⟩ := ack_exiting pick hex ok
            refine ⟨Or.inr e1, ?_, fun _ => Or.inl e1⟩
            unfold V2
            rw [r.maxRetries, r.token, e1, hex]
            have := Nat.mul_le_mul_right (3 * s.maxRetries + 3) r.len
            simp only [rem, stage]; omega
          · have p := ack_prog pick htk.2 ok hen hex
            have v := p.v2 (stage_two_of hne hex)
            refine ⟨Or.inl ⟨ack_tk pick htk ok, p.done hd, ?_⟩, Nat.le_of_lt v, fun _ => Or.inr v⟩
            intro hx; have := p.stage; rw [hx] at this; simp [stage] at this
        · rw [if_neg hen] at hs; exact absurd hs (by simp)
      | build tx => exact absurd hstep (by simp [LSysQ])
      | wake w => exact absurd hstep (by simp [LSysQ])
      | shutdown =>
        have hs : some (step pick s .shutdown) = some s' := hstep
        have := (Option.some.inj hs).symm; subst this
        exact ⟨Or.inl ⟨step_tk pick htk .shutdown, rfl, hne⟩, Nat.le_refl _, fun h => absurd h (fun x => x)⟩
      | env op =>
        have hs : some (step pick s (.env op)) = some s' := hstep
        have := (Option.some.inj hs).symm; subst this
        exact ⟨Or.inl ⟨step_tk pick htk (.env op), hd, hne⟩, Nat.le_refl _, fun h => absurd h (fun x => x)⟩
    exact ⟨main.1, main.2.1⟩
  decr := by
    intro s a s' ⟨htk, hd, hne⟩ _ hf hstep
    cases a with
    | run pw =>
      have hs : (if runEnabled s then some (s.run pick pw) else none) = some s' := hstep
      by_cases hen : runEnabled s = true
      · rw [if_pos hen] at hs
        have := (Option.some.inj hs).symm; subst this
        have hpc : s.pc = .idle := by
          unfold runEnabled at hen; simp only [Bool.and_eq_true] at hen; simpa using hen.1
        exact Or.inr (run_exitprog pick hpc hd pw).1
      · rw [if_neg hen] at hs; exact absurd hs (by simp)
    | ack ok =>
      have hs : (if ackEnabled s then some (s.ack pick ok) else none) = some s' := hstep
      by_cases hen : ackEnabled s = true
      · rw [if_pos hen] at hs
        have := (Option.some.inj hs).symm; subst this
        by_cases hex : s.pc = .exiting
        · exact Or.inl (ack_exiting pick hex ok).1
        · exact Or.inr ((ack_prog pick htk.2 ok hen hex).v2 (stage_two_of hne hex))
      · rw [if_neg hen] at hs; exact absurd hs (by simp)
    | build tx => exact absurd hf (fun h => h)
    | wake w => exact absurd hf (fun h => h)
    | shutdown => exact absurd hf (fun h => h)
    | env op => exact absurd hf (fun h => h)

end GS.MQ
