import GSProofs.Lemmas.RespLifeAcc
import GSProofs.Lemmas.RespLifePark
/-!
Each manager handler of the responder model preserves the lifecycle invariant `LInv (acc s)`.
-/
namespace GS.RespLife
open Acc

/-- a parked `processUpdate` belongs to a Paused response -/
def PU (s : State) : Prop :=
  ∀ id plan p i ops, parkCore s.park = some (.procUpdate id plan, p, i, ops) →
    ∃ q t, entOf s id = some (q, .paused, t)

theorem pu_of_none {s : State} (h : s.park = none) : PU s := by
  intro id plan p i ops hc; rw [h] at hc; cases hc

theorem punp_none {s : State} (h : s.park = none) : (acc s).punp = none := by simp [acc, h, parkUnp]
theorem pnew_none' {s : State} (h : s.park = none) : (acc s).pnew = none := by simp [acc, h, parkNew]

theorem entOf_lookup {s : State} {id : Id} {r : Resp} (h : lookup s id = some r) :
    (acc s).ent id = some (r.peer, r.state, r.aux.task) := by simp [acc, entOf, h]

theorem entOf_lookup_none {s : State} {id : Id} (h : lookup s id = none) : entOf s id = none := by
  simp [entOf, h]

theorem lookup_of_entOf {s : State} {id : Id} {e : Peer × RState × Option Nat} (h : entOf s id = some e) :
    ∃ r, lookup s id = some r ∧ e = (r.peer, r.state, r.aux.task) := by
  unfold entOf at h
  cases hl : lookup s id with
  | none => rw [hl] at h; cases h
  | some r => rw [hl] at h; exact ⟨r, rfl, (Option.some.inj h).symm⟩

-- ------------------------------------------------------------------ terminate
theorem linv_terminate {s : State} (hi : LInv (acc s)) (hp : s.park = none) (id : Id) :
    LInv (acc (terminate s id)) := by
  cases he : entOf s id with
  | none => rw [acc_terminate_none he]; exact hi
  | some e =>
    obtain ⟨p, st, t⟩ := e
    rw [acc_terminate_some he]
    exact hi.retire p id (punp_none hp) (acc s).pend (fun _ _ h => h) (fun _ _ _ h => h)

theorem park_terminate (s : State) (id : Id) : (terminate s id).park = s.park := by
  unfold terminate; split <;> rfl

-- ------------------------------------------------------------------ abortRequest
theorem linv_abortRequest {s : State} (hi : LInv (acc s)) (hp : s.park = none) (id : Id) (err : Sig) :
    LInv (acc (abortRequest s id err).1) := by
  unfold abortRequest
  cases hl : lookup s id with
  | none => exact hi
  | some r =>
    simp only
    have he := entOf_lookup hl
    have hun := punp_none hp
    have h1 := acc_removeTask s r.peer id
    have he1 : entOf (removeTask s r.peer id) id = some (r.peer, r.state, r.aux.task) := by
      have := congrFun (congrArg Acc.ent h1) id
      exact this.trans he
    split
    · rename_i hc
      have hst : r.state = .completing := by
        simp only [Bool.and_eq_true, beq_iff_eq] at hc; exact hc.1
      show LInv (acc (removeTask s r.peer id))
      rw [h1, fupd_self _ _ _ (filter_ne_self (hi.notPending he (by rw [hst]; simp))).symm]; exact hi
    · split
      · rename_i hnr
        have hst : r.state ≠ .running := by simpa using hnr
        cases err with
        | ctxCancel =>
          show LInv (acc (emit (terminate (removeTask s r.peer id) id) _))
          rw [acc_emit, acc_terminate_some he1, h1]
          exact hi.retireFilter r.peer id hun
        | network =>
          show LInv (acc (terminate (removeTask s r.peer id) id))
          rw [acc_terminate_some he1, h1]
          exact hi.retireFilter r.peer id hun
        | cancelCmd =>
          show LInv (acc (execTx (setState (removeTask s r.peer id) id .completing) .mgr r.peer id _).1)
          generalize hx : execTx (setState (removeTask s r.peer id) id .completing) .mgr r.peer id _ = pr
          obtain ⟨s2, ok⟩ := pr
          show LInv (acc s2)
          rw [acc_execTx hx, acc_setState _ _ _ he1, h1]
          exact hi.cancelEntry r.peer id r.state r.aux.task he hst hun
      · rename_i hnr
        have hst : r.state = .running := by simpa using hnr
        show LInv (acc (modAux (removeTask s r.peer id) id _))
        rw [acc_modAux _ _ _ (by intro a; split <;> split <;> rfl), h1,
          fupd_self _ _ _ (filter_ne_self (hi.notPending he (by rw [hst]; simp))).symm]
        exact hi

theorem park_abortRequest {s : State} (hp : s.park = none) (id : Id) (err : Sig) :
    (abortRequest s id err).1.park = none :=
  park_none_of_tos (tos_abortRequest s id err) hp

-- ------------------------------------------------------------------ pauseRequest
theorem acc_pauseRequest (s : State) (id : Id) : acc (pauseRequest s id).1 = acc s := by
  unfold pauseRequest
  split
  · rfl
  · split
    · rfl
    · split
      · rfl
      · exact acc_modAux _ _ _ (fun _ => rfl)

theorem park_pauseRequest (s : State) (id : Id) : (pauseRequest s id).1.park = s.park := by
  unfold pauseRequest
  split
  · rfl
  · split
    · rfl
    · split <;> rfl

-- ------------------------------------------------------------------ unpause
/-- the second half of unpause, on a state whose response `id` was just set Queued -/
theorem linv_unpauseFinish {s s0 : State} {id : Id} {p : Peer} {t : Option Nat}
    (hi : LInv (acc s0)) (he : (acc s0).ent id = some (p, .paused, t)) (hun : (acc s0).punp = none)
    (h0 : acc s = { acc s0 with ent := fupd (acc s0).ent id (some (p, .queued, t)) }) :
    LInv (acc (unpauseFinish s id)) := by
  have he1 : entOf s id = some (p, .queued, t) := by
    have := congrFun (congrArg Acc.ent h0) id
    exact this.trans (fupd_same _ _ _)
  obtain ⟨r, hl, hr⟩ := lookup_of_entOf he1
  have hE := hi.entry id p .paused t he
  have hna : id ∉ (acc s0).act p := fun hm => by
    obtain ⟨i, hli⟩ := (hi.actLive p id).1 hm
    exact hE.2 i hli
  unfold unpauseFinish
  rw [hl]
  simp only
  have hrp : r.peer = p := (congrArg Prod.fst hr).symm
  rw [hrp, acc_pushTask, h0, if_pos ⟨hna, hE.1⟩]
  exact hi.unpausePush p id t he hun

theorem park_unpauseFinish {s : State} (hp : s.park = none) (id : Id) : (unpauseFinish s id).park = none :=
  pcore_none_of_pi_eq (pi_unpauseFinish s id) hp

theorem hi_unpauseRequest {s : State} (hi : LInv (acc s)) (hp : s.park = none) (id : Id) (ext : Bool) :
    LInv (acc (unpauseRequest s id ext).1) ∧ PU (unpauseRequest s id ext).1 := by
  unfold unpauseRequest
  cases hl : lookup s id with
  | none => exact ⟨hi, pu_of_none hp⟩
  | some r =>
    simp only
    have he := entOf_lookup hl
    have hun := punp_none hp
    split
    · exact ⟨hi, pu_of_none hp⟩
    · rename_i hst
      have hst' : r.state = .paused := by simpa using hst
      rw [hst'] at he
      have hm : acc (modAux s id fun a => { a with sigPause := false }) = acc s := acc_modAux _ _ _ (fun _ => rfl)
      have hpm : (modAux s id fun a => { a with sigPause := false }).park = none := hp
      have h1 : acc (setState (modAux s id fun a => { a with sigPause := false }) id .queued) =
          { acc s with ent := fupd (acc s).ent id (some (r.peer, .queued, r.aux.task)) } := by
        rw [acc_setState _ id .queued ((congrFun (congrArg Acc.ent hm) id).trans he), hm]
      split
      · generalize hx : execTx (setState _ id .queued) .mgr r.peer id [TxOp.ext] = pr
        obtain ⟨s2, ok⟩ := pr
        have h2 : acc s2 = _ := (acc_execTx hx).trans h1
        have hp2 : s2.park = none ∨ True := Or.inr trivial
        simp only
        split
        · refine ⟨linv_unpauseFinish hi he hun h2, pu_of_none (park_unpauseFinish ?_ id)⟩
          exact pcore_none_of_pi_eq (pi_execTx_eq hx) (s := setState _ id .queued) hpm
        · constructor
          · rw [acc_parkMgr, h2]
            have := hi.unpausePark r.peer id r.aux.task he hun (pnew_none' hp)
            rw [pnew_none' hp] at this
            exact this
          · intro i pl p' i' ops hc
            simp [parkMgr, parkCore] at hc
      · exact ⟨linv_unpauseFinish hi he hun h1, pu_of_none (park_unpauseFinish
          (s := setState (modAux s id fun a => { a with sigPause := false }) id .queued) hpm id)⟩

-- ------------------------------------------------------------------ processUpdate
theorem linv_procUpdateFinish {s : State} (hi : LInv (acc s)) (hp : s.park = none) (id : Id) (plan : UP)
    (hpa : ∃ q t, entOf s id = some (q, .paused, t)) :
    LInv (acc (procUpdateFinish s id plan)) := by
  obtain ⟨q, t, he⟩ := hpa
  obtain ⟨r, hl, hr⟩ := lookup_of_entOf he
  have hun := punp_none hp
  have hid : r.id = id := (lookup_some hl).2
  unfold procUpdateFinish
  rw [hl]
  simp only
  split
  · rw [hid, acc_setState s id .completing he]
    exact hi.pausedToCompleting q id t he hun
  · split
    · have := (hi_unpauseRequest hi hp id false).1
      exact this
    · exact hi

theorem park_procUpdateFinish {s : State} (hp : s.park = none) (id : Id) (plan : UP) :
    (procUpdateFinish s id plan).park = none :=
  pcore_none_of_pi_eq (pi_procUpdateFinish' s id plan) hp

theorem hi_processUpdate {s : State} (hi : LInv (acc s)) (hp : s.park = none) (id : Id) (plan : UP) :
    LInv (acc (processUpdate s id plan)) ∧ PU (processUpdate s id plan) := by
  unfold processUpdate
  cases hl : lookup s id with
  | none => exact ⟨hi, pu_of_none hp⟩
  | some r =>
    simp only
    have he := entOf_lookup hl
    split
    · exact ⟨hi, pu_of_none hp⟩
    · split
      · refine ⟨?_, pu_of_none hp⟩
        rw [acc_modAux s id (fun a => { a with updates := a.updates ++ [plan], sigUpdate := true }) (fun _ => rfl)]
        exact hi
      · rename_i hst
        have hst' : r.state = .paused := by simpa using hst
        rw [hst'] at he
        generalize hx : execTx s .mgr r.peer id _ = pr
        obtain ⟨s1, ok⟩ := pr
        have h1 := acc_execTx hx
        have he1 : entOf s1 id = some (r.peer, .paused, r.aux.task) :=
          (congrFun (congrArg Acc.ent h1) id).trans he
        simp only
        split
        · have hp1 : s1.park = none := pcore_none_of_pi_eq (pi_execTx_eq hx) hp
          refine ⟨linv_procUpdateFinish (by rw [h1]; exact hi) hp1 id plan ⟨_, _, he1⟩,
            pu_of_none (park_procUpdateFinish hp1 id plan)⟩
        · constructor
          · rw [acc_parkMgr, h1]
            have h2 := pnew_none' hp
            have h3 := punp_none hp
            have : ({ acc s with pnew := none, punp := none } : Acc) = acc s := by
              cases hx : acc s with
              | mk a b c d e f g h i =>
                rw [hx] at h2 h3; simp only at h2 h3; subst h2; subst h3; rfl
            exact this ▸ hi
          · intro i pl p' i' ops hc
            simp only [parkMgr, parkCore, Option.map_some, Option.some.injEq, Prod.mk.injEq,
              MgrCont.procUpdate.injEq] at hc
            rw [← hc.1.1]
            exact ⟨_, _, he1⟩

-- ------------------------------------------------------------------ updateRequest
theorem acc_unset {s : State} (hp : s.park = none) : ({ acc s with pnew := none, punp := none } : Acc) = acc s := by
  have h2 := pnew_none' hp
  have h3 := punp_none hp
  cases hx : acc s with
  | mk a b c d e f g h i => rw [hx] at h2 h3; simp only at h2 h3; subst h2; subst h3; rfl

theorem hi_updateRequest {s : State} (hi : LInv (acc s)) (hp : s.park = none) (id : Id) (ext : Bool) :
    LInv (acc (updateRequest s id ext).1) ∧ PU (updateRequest s id ext).1 := by
  unfold updateRequest
  cases hl : lookup s id with
  | none => exact ⟨hi, pu_of_none hp⟩
  | some r =>
    simp only
    generalize hx : execTx s .mgr r.peer id _ = pr
    obtain ⟨s1, ok⟩ := pr
    have h1 := acc_execTx hx
    simp only
    split
    · exact ⟨by rw [h1]; exact hi, pu_of_none (pcore_none_of_pi_eq (pi_execTx_eq hx) hp)⟩
    · constructor
      · rw [acc_parkMgr, h1]
        exact (acc_unset hp) ▸ hi
      · intro i pl p' i' ops hc
        simp [parkMgr, parkCore] at hc

-- ------------------------------------------------------------------ newRequest
theorem linv_newReqFinish {s : State} (hi : LInv (acc s)) (hp : s.park = none) (p : Peer) (id : Id) (cfg : ReqCfg)
    (hc : (acc s).Clean id) (hn : id ∉ (acc s).news.map Prod.snd) :
    LInv (acc (newReqFinish s p id cfg)) := by
  have hun := punp_none hp
  have hpn : ∀ k, (acc s).pnew = some k → k.2 ≠ id := by
    intro k hk; rw [pnew_none' hp] at hk; cases hk
  unfold newReqFinish
  split
  · rw [acc_insertResp]; exact hi.register p id .completing (Or.inl rfl) hc hn hpn hun
  · rw [acc_insertResp]; exact hi.register p id .completing (Or.inl rfl) hc hn hpn hun
  · rw [acc_insertResp]; exact hi.register p id .paused (Or.inr rfl) hc hn hpn hun
  · rw [acc_insertResp, acc_pushTask, if_pos ⟨(hc.2.1 p).2, (hc.2.1 p).1⟩]
    exact hi.registerQueued p id hc hn hpn hun

theorem park_newReqFinish' {s : State} (hp : s.park = none) (p : Peer) (id : Id) (cfg : ReqCfg) :
    (newReqFinish s p id cfg).park = none := by
  unfold newReqFinish
  split
  · exact hp
  · exact hp
  · exact hp
  · show (pushTask s p id cfg.pri).park = none
    exact pcore_none_of_pi_eq (pi_pushTask s p id cfg.pri) hp

theorem hi_newRequest {s0 : State} {x : Acc} {p : Peer} {id : Id} {rest : List (Peer × Id)} (hx : LInv x)
    (hn : x.news = (p, id) :: rest) (h0 : acc s0 = { x with news := rest }) (hp : s0.park = none) (cfg : ReqCfg) :
    LInv (acc (newRequest s0 p id cfg)) ∧ PU (newRequest s0 p id cfg) := by
  unfold newRequest
  simp only
  generalize hx' : execTx (openStream (protect s0 p id) id) .mgr p id (prepareOps cfg.hook) = pr
  obtain ⟨s3, ok⟩ := pr
  have h3 : acc s3 = { x with news := rest } := (acc_execTx hx').trans h0
  obtain ⟨hc, hnm⟩ := hx.headNews hn
  have hi0 := hx.dropNews _ rest hn
  have hp3 : s3.park = none := pcore_none_of_pi_eq (pi_execTx_eq hx') (s := openStream (protect s0 p id) id) hp
  have hun : x.punp = none := by
    have h1 := punp_none hp
    rw [h0] at h1; exact h1
  simp only
  split
  · refine ⟨linv_newReqFinish (by rw [h3]; exact hi0) hp3 p id cfg ?_ ?_, pu_of_none (park_newReqFinish' hp3 p id cfg)⟩
    · rw [h3]; exact hc
    · rw [h3]; exact hnm
  · constructor
    · rw [acc_parkMgr, h3]
      have := hx.parkNew (p, id) rest hn hun
      rw [hun] at this
      exact this
    · intro i pl p' i' ops hc'
      simp [parkMgr, parkCore] at hc'

-- ------------------------------------------------------------------ worker messages
theorem acc_setWorker_kind (s : State) (w : Nat) (f : Worker → Worker) (k : WKind)
    (h : ∀ x, ((f x).peer, (f x).id, wkind (f x).phase) = (x.peer, x.id, k)) :
    acc (setWorker s w f) = { acc s with wk := setK (acc s).wk w k } := by
  apply acc_setKind (s := s) (k := k) _ (pi_setWorker s w f)
  simp only [li, Li.setKind]
  rw [wcore_setWorker_kind s w f k h]
  rfl

theorem acc_setPhase (s : State) (w : Nat) (ph : WPhase) :
    acc (setPhase s w ph) = { acc s with wk := setK (acc s).wk w (wkind ph) } :=
  acc_setWorker_kind s w _ (wkind ph) (fun _ => rfl)

/-- the worker a StartTask / FinishTask message in the mailbox refers to -/
theorem worker_of_kind {s : State} {w : Nat} {k : WKind} (h : (acc s).kindAt w = some k) :
    ∃ wk, workerOf s w = some wk ∧ wkind wk.phase = k ∧ (acc s).wk[w]? = some (wk.peer, wk.id, k) := by
  cases hw : workerOf s w with
  | none =>
    have : (acc s).kindAt w = none := by
      unfold workerOf at hw
      simp [Acc.kindAt, acc, wcore, hw]
    rw [this] at h; cases h
  | some wk =>
    obtain ⟨h1, h2⟩ := kindAt_acc hw
    rw [h1] at h
    have hk : wkind wk.phase = k := Option.some.inj h
    exact ⟨wk, rfl, hk, by rw [h2, hk]⟩

theorem acc_startRun_core (s : State) (id : Id) (w : Nat) {p : Peer} {st : RState} {t : Option Nat}
    (he : entOf s id = some (p, st, t)) :
    acc (setState (modAux s id fun a => { a with started := true, task := some w }) id .running) =
      { acc s with ent := fupd (acc s).ent id (some (p, .running, some w)) } := by
  apply acc_eq
  · intro id'
    rw [entOf_setState, entOf_modAux]
    show _ = fupd (entOf s) id _ id'
    unfold fupd
    split
    · rename_i e; subst e; rw [he]; rfl
    · rfl
  all_goals intros; rfl

theorem linv_startTask {s0 : State} {x : Acc} {w : Nat} {rest : List Nat} (hx : LInv x)
    (hs : x.starts = w :: rest) (h0 : acc s0 = { x with starts := rest }) (hp : s0.park = none) :
    LInv (acc (startTask s0 w)) := by
  have hk : x.kindAt w = some .waitStart := (hx.startsIff w).1 (by rw [hs]; simp)
  have hk0 : (acc s0).kindAt w = some .waitStart := by rw [h0]; exact hk
  obtain ⟨wk, hw, hkind, hw0⟩ := worker_of_kind hk0
  have hxw : x.wk[w]? = some (wk.peer, wk.id, .waitStart) := by rw [h0] at hw0; exact hw0
  have hun : x.punp = none := by
    have h1 := punp_none hp
    rw [h0] at h1; exact h1
  have hent : ∀ id, entOf s0 id = x.ent id := fun id => congrFun (congrArg Acc.ent h0) id
  unfold startTask
  rw [hw]
  simp only
  cases hl : lookup s0 wk.id with
  | none =>
    simp only
    rw [acc_setPhase, acc_taskDone, h0]
    have hen : x.ent wk.id = none := by rw [← hent]; exact entOf_lookup_none hl
    have := hx.workerDone w wk.peer wk.id .waitStart hxw rest x.fins (Or.inl ⟨rfl, hs, rfl⟩) none (Or.inl rfl) hun
    rw [Acc.workerDone, fupd_self x.ent _ _ hen] at this
    exact this
  | some r =>
    simp only
    have he : x.ent wk.id = some (r.peer, r.state, r.aux.task) := by
      rw [← hent]; exact entOf_lookup hl
    have hrp : r.peer = wk.peer := hx.own w wk.peer wk.id ⟨.waitStart, hxw, by simp⟩ _ he
    have hid : r.id = wk.id := (lookup_some hl).2
    split
    · rename_i hc
      have hst : r.state = .completing := by simpa using hc
      rw [acc_setPhase, acc_taskDone, h0]
      have := hx.workerDone w wk.peer wk.id .waitStart hxw rest x.fins (Or.inl ⟨rfl, hs, rfl⟩)
        (some (wk.peer, .completing, r.aux.task))
        (Or.inr ⟨.completing, r.aux.task, rfl, Or.inr rfl, by rw [he]; simp⟩) hun
      rw [Acc.workerDone, fupd_self x.ent _ _ (by rw [he, hrp, hst])] at this
      exact this
    · rename_i hc
      have hst : r.state ≠ .completing := by simpa using hc
      have hs1 : ∀ s1 : State, acc s1 = acc s0 →
          LInv (acc (setWorker (setState (modAux s1 r.id fun a => { a with started := true, task := some w }) r.id .running) w
            fun x => { x with phase := .started, parkF := r.cfg.parkFinish, inc := r.inc })) := by
        intro s1 h1
        rw [acc_setWorker_kind _ w _ .mid (fun _ => rfl), hid,
          acc_startRun_core s1 wk.id w (p := r.peer) (st := r.state) (t := r.aux.task)
            ((congrFun (congrArg Acc.ent h1) wk.id).trans ((hent _).trans he)), h1, h0, hrp]
        exact hx.startRun w wk.peer wk.id rest hxw hs r.peer r.state r.aux.task he hst hun
      split
      · exact hs1 s0 rfl
      · exact hs1 _ rfl

theorem linv_finishTask {s0 : State} {x : Acc} {w : Nat} {rest : List Nat} (hx : LInv x)
    (hf : x.fins = w :: rest) (h0 : acc s0 = { x with fins := rest }) (hp : s0.park = none) (err : Option WErr) :
    LInv (acc (finishTask s0 w err)) := by
  have hk : x.kindAt w = some .waitFinish := (hx.finsIff w).1 (by rw [hf]; simp)
  have hk0 : (acc s0).kindAt w = some .waitFinish := by rw [h0]; exact hk
  obtain ⟨wk, hw, hkind, hw0⟩ := worker_of_kind hk0
  have hxw : x.wk[w]? = some (wk.peer, wk.id, .waitFinish) := by rw [h0] at hw0; exact hw0
  have hun : x.punp = none := by
    have h1 := punp_none hp
    rw [h0] at h1; exact h1
  have h1 : acc (setPhase (taskDone s0 wk.peer wk.id) w .done) =
      { x with act := fupd x.act wk.peer ((x.act wk.peer).filter (· != wk.id)), wk := setK x.wk w .done, fins := rest } := by
    rw [acc_setPhase, acc_taskDone, h0]
    rfl
  have hent : ∀ id, entOf (setPhase (taskDone s0 wk.peer wk.id) w .done) id = x.ent id := by
    intro id
    exact congrFun (congrArg Acc.ent h1) id
  have hwd := fun v hv => hx.workerDone w wk.peer wk.id .waitFinish hxw x.starts rest (Or.inr ⟨rfl, hf, rfl⟩) v hv hun
  unfold finishTask
  rw [hw]
  simp only
  cases hl : lookup (setPhase (taskDone s0 wk.peer wk.id) w .done) wk.id with
  | none =>
    simp only
    have hen : x.ent wk.id = none := by rw [← hent]; exact entOf_lookup_none hl
    rw [h1]
    have := hwd none (Or.inl rfl)
    rw [Acc.workerDone, fupd_self x.ent _ _ hen] at this
    exact this
  | some r =>
    simp only
    have he : x.ent wk.id = some (r.peer, r.state, r.aux.task) := by
      rw [← hent]; exact entOf_lookup hl
    obtain ⟨hq, hst, ht⟩ := hx.finishEntry hxw he
    have hid : r.id = wk.id := (lookup_some hl).2
    have he1 : entOf (setPhase (taskDone s0 wk.peer wk.id) w .done) wk.id = some (wk.peer, r.state, r.aux.task) := by
      rw [hent, he, hq]
    have hne : x.ent wk.id ≠ none := by rw [he]; simp
    have hterm : ∀ s1 : State, acc s1 = acc (setPhase (taskDone s0 wk.peer wk.id) w .done) →
        LInv (acc (terminate s1 r.id)) := by
      intro s1 hs1
      have : entOf s1 wk.id = some (wk.peer, r.state, r.aux.task) :=
        (congrFun (congrArg Acc.ent hs1) wk.id).trans he1
      rw [hid, acc_terminate_some this, hs1, h1]
      exact hwd none (Or.inl rfl)
    have hset : ∀ st', (st' = .paused ∨ st' = .completing) →
        LInv (acc (setState (setPhase (taskDone s0 wk.peer wk.id) w .done) r.id st')) := by
      intro st' hst'
      rw [hid, acc_setState _ _ _ he1, h1]
      exact hwd (some (wk.peer, st', r.aux.task)) (Or.inr ⟨st', _, rfl, hst', hne⟩)
    split
    · rename_i hc
      rw [ht] at hc
      simp at hc
    · split
      · exact hterm _ rfl
      · split
        · exact hset .paused (Or.inl rfl)
        · split
          · exact hterm _ rfl
          · split
            · exact hterm _ rfl
            · exact hset .completing (Or.inr rfl)

theorem linv_getUpdates {s : State} (hi : LInv (acc s)) (w : Nat) : LInv (acc (getUpdates s w)) := by
  unfold getUpdates
  cases hw : workerOf s w with
  | none => exact hi
  | some wk =>
    simp only
    have hk := (kindAt_acc hw).1
    split
    · rename_i ops present hph
      have hold : (acc s).kindAt w = some .mid ∨ (acc s).kindAt w = some .fin := by
        left; rw [hk, hph]; rfl
      split
      · rw [acc_setPhase]
        exact hi.wkind w .mid (Or.inl rfl) hold
      · rename_i r _
        rw [acc_setPhase, acc_modAux s r.id (fun a => { a with updates := [] }) (fun _ => rfl)]
        exact hi.wkind w .mid (Or.inl rfl) hold
    · exact hi

-- ------------------------------------------------------------------ one mailbox message
theorem acc_clearPubWait (s : State) (p : Peer) : acc (clearPubWait s p) = acc s := rfl

theorem acc_pop_mail (s : State) (rest : List Msg) (n : Nat) :
    acc { s with mailbox := rest, handled := n } =
      { acc s with starts := starts rest, fins := fins rest, news := newIds rest } := rfl

/-- popping a message that is neither `new` nor StartTask nor FinishTask leaves `acc` alone -/
theorem acc_pop_other {s : State} {m : Msg} {rest : List Msg} (hm : s.mailbox = m :: rest)
    (h1 : isNewMsg m = false) (h2 : ∀ w, m ≠ .startTask w) (h3 : ∀ w e, m ≠ .finishTask w e) :
    acc { s with mailbox := rest, handled := s.handled + 1 } = acc s := by
  refine acc_of_li_pi (li_eq rfl rfl rfl ?_ ?_ rfl) (pi_pop_other s m rest hm h1)
  · show starts rest = starts s.mailbox
    rw [hm]
    cases m <;> first | rfl | exact absurd rfl (h2 _)
  · show fins rest = fins s.mailbox
    rw [hm]
    cases m <;> first | rfl | exact absurd rfl (h3 _ _)

theorem hi_handle {s : State} {m : Msg} {rest : List Msg} (hi : LInv (acc s)) (hp : s.park = none)
    (hm : s.mailbox = m :: rest) :
    LInv (acc (handle { s with mailbox := rest, handled := s.handled + 1 } m)) ∧
    PU (handle { s with mailbox := rest, handled := s.handled + 1 } m) := by
  have hp0 : ({ s with mailbox := rest, handled := s.handled + 1 } : State).park = none := hp
  cases m with
  | processRequests p r =>
    show LInv (acc (if foreign _ p r.id = true then _ else processRequest _ p r)) ∧
      PU (if foreign _ p r.id = true then _ else processRequest _ p r)
    cases r with
    | new id cfg =>
      have hn : (acc s).news = (p, id) :: newIds rest := by
        show newIds s.mailbox = _
        rw [hm]; rfl
      have h0 : acc { s with mailbox := rest, handled := s.handled + 1 } = { acc s with news := newIds rest } := by
        rw [acc_pop_mail]
        have e1 : starts rest = (acc s).starts := by show _ = starts s.mailbox; rw [hm]; rfl
        have e2 : fins rest = (acc s).fins := by show _ = fins s.mailbox; rw [hm]; rfl
        rw [e1, e2]
      split
      · refine ⟨?_, pu_of_none hp0⟩
        rw [h0]; exact hi.dropNews _ _ hn
      · exact hi_newRequest hi hn h0 hp0 cfg
    | cancel id =>
      have h0 := acc_pop_other hm rfl (by intros; simp) (by intros; simp)
      have hi0 : LInv (acc { s with mailbox := rest, handled := s.handled + 1 }) := by rw [h0]; exact hi
      split
      · exact ⟨hi0, pu_of_none hp0⟩
      · exact ⟨linv_abortRequest hi0 hp0 id .ctxCancel, pu_of_none (park_abortRequest hp0 id .ctxCancel)⟩
    | update id plan =>
      have h0 := acc_pop_other hm rfl (by intros; simp) (by intros; simp)
      have hi0 : LInv (acc { s with mailbox := rest, handled := s.handled + 1 }) := by rw [h0]; exact hi
      split
      · exact ⟨hi0, pu_of_none hp0⟩
      · exact hi_processUpdate hi0 hp0 id plan
  | api c =>
    have h0 := acc_pop_other (m := .api c) hm rfl (by intros; simp) (by intros; simp)
    have hi0 : LInv (acc { s with mailbox := rest, handled := s.handled + 1 }) := by rw [h0]; exact hi
    cases c with
    | pause id =>
      show LInv (acc (emit (pauseRequest _ id).1 _)) ∧ PU (emit (pauseRequest _ id).1 _)
      refine ⟨?_, pu_of_none ?_⟩
      · rw [acc_emit, acc_pauseRequest]; exact hi0
      · show (pauseRequest _ id).1.park = none
        rw [park_pauseRequest]; exact hp0
    | unpause id ext =>
      have := hi_unpauseRequest hi0 hp0 id ext
      show LInv (acc (if (unpauseRequest _ id ext).2.2 = true then (unpauseRequest _ id ext).1
        else emit (unpauseRequest _ id ext).1 _)) ∧ PU (if (unpauseRequest _ id ext).2.2 = true then
          (unpauseRequest _ id ext).1 else emit (unpauseRequest _ id ext).1 _)
      split
      · exact this
      · exact this
    | cancel id =>
      show LInv (acc (emit (abortRequest _ id .cancelCmd).1 _)) ∧ PU (emit (abortRequest _ id .cancelCmd).1 _)
      exact ⟨linv_abortRequest hi0 hp0 id .cancelCmd, pu_of_none (park_abortRequest hp0 id .cancelCmd)⟩
    | update id ext =>
      have := hi_updateRequest hi0 hp0 id ext
      show LInv (acc (if (updateRequest _ id ext).2.2 = true then (updateRequest _ id ext).1
        else emit (updateRequest _ id ext).1 _)) ∧ PU (if (updateRequest _ id ext).2.2 = true then
          (updateRequest _ id ext).1 else emit (updateRequest _ id ext).1 _)
      split
      · exact this
      · exact this
  | startTask w =>
    have hs : (acc s).starts = w :: starts rest := by
      show starts s.mailbox = _
      rw [hm]; rfl
    have h0 : acc { s with mailbox := rest, handled := s.handled + 1 } = { acc s with starts := starts rest } := by
      rw [acc_pop_mail]
      have e1 : newIds rest = (acc s).news := by show _ = newIds s.mailbox; rw [hm]; rfl
      have e2 : fins rest = (acc s).fins := by show _ = fins s.mailbox; rw [hm]; rfl
      rw [e1, e2]
    refine ⟨linv_startTask hi hs h0 hp0, pu_of_none ?_⟩
    exact pcore_none_of_pi_eq (pi_startTask _ w) hp0
  | getUpdates w =>
    have h0 := acc_pop_other (m := .getUpdates w) hm rfl (by intros; simp) (by intros; simp)
    have hi0 : LInv (acc { s with mailbox := rest, handled := s.handled + 1 }) := by rw [h0]; exact hi
    exact ⟨linv_getUpdates hi0 w, pu_of_none (pcore_none_of_pi_eq (pi_getUpdates _ w) hp0)⟩
  | finishTask w err =>
    have hf : (acc s).fins = w :: fins rest := by
      show fins s.mailbox = _
      rw [hm]; rfl
    have h0 : acc { s with mailbox := rest, handled := s.handled + 1 } = { acc s with fins := fins rest } := by
      rw [acc_pop_mail]
      have e1 : newIds rest = (acc s).news := by show _ = newIds s.mailbox; rw [hm]; rfl
      have e2 : starts rest = (acc s).starts := by show _ = starts s.mailbox; rw [hm]; rfl
      rw [e1, e2]
    refine ⟨linv_finishTask hi hf h0 hp0 err, pu_of_none ?_⟩
    exact park_none_of_tos (tos_finishTask _ w err) hp0
  | closeNetErr id inc pub =>
    have h0 := acc_pop_other (m := .closeNetErr id inc pub) hm rfl (by intros; simp) (by intros; simp)
    have hi0 : LInv (acc { s with mailbox := rest, handled := s.handled + 1 }) := by rw [h0]; exact hi
    rw [handle_closeNetErr]
    split
    · split
      · exact ⟨linv_abortRequest hi0 hp0 id .network, pu_of_none (park_abortRequest hp0 id .network)⟩
      · exact ⟨linv_abortRequest hi0 hp0 id .network, pu_of_none (park_abortRequest hp0 id .network)⟩
    · exact ⟨hi0, pu_of_none hp0⟩
  | terminate id inc pub =>
    have h0 := acc_pop_other (m := .terminate id inc pub) hm rfl (by intros; simp) (by intros; simp)
    have hi0 : LInv (acc { s with mailbox := rest, handled := s.handled + 1 }) := by rw [h0]; exact hi
    rw [handle_terminate]
    split
    · refine ⟨linv_terminate hi0 hp0 id, pu_of_none ?_⟩
      show (terminate _ id).park = none
      rw [park_terminate]; exact hp0
    · exact ⟨hi0, pu_of_none hp0⟩

-- ------------------------------------------------------------------ the parked manager continues
theorem hi_resumeMgr {s : State} {pk : MgrPark} (hi : LInv (acc s)) (hpu : PU s) (hpk : s.park = some pk) :
    LInv (acc (resumeMgr s pk)) ∧ PU (resumeMgr s pk) := by
  have h1 := acc_unpark_buildNow s pk.peer pk.id pk.ops
  have hp1 : (buildNow { s with park := none } .mgr pk.peer pk.id pk.ops).park = none :=
    pcore_none_of_pi_eq (pi_buildNow _ _ _ _ _) (s := { s with park := none }) rfl
  unfold resumeMgr
  simp only
  cases hc : pk.cont with
  | newReq p id cfg =>
    simp only
    have hpn : (acc s).pnew = some (p, id) := by simp [acc, hpk, parkNew, hc]
    have hun : (acc s).punp = none := by simp [acc, hpk, parkUnp, hc]
    obtain ⟨hcl, hnn⟩ := hi.pnewClean _ hpn
    have hi1 : LInv (acc (buildNow { s with park := none } .mgr pk.peer pk.id pk.ops)) := by
      rw [h1]
      have := hi.clearPnew
      rw [hun] at this
      exact this
    refine ⟨linv_newReqFinish hi1 hp1 p id cfg ?_ ?_, pu_of_none (park_newReqFinish' hp1 p id cfg)⟩
    · rw [h1]; exact hcl
    · rw [h1]; exact hnn
  | procUpdate id plan =>
    simp only
    have hpn : (acc s).pnew = none := by simp [acc, hpk, parkNew, hc]
    have hun : (acc s).punp = none := by simp [acc, hpk, parkUnp, hc]
    have e : acc (buildNow { s with park := none } .mgr pk.peer pk.id pk.ops) = acc s := by
      rw [h1]
      cases hx : acc s with
      | mk a b c d e f g h i => rw [hx] at hpn hun; simp only at hpn hun; subst hpn; subst hun; rfl
    obtain ⟨q, t, he⟩ := hpu id plan pk.peer pk.id pk.ops (by simp [parkCore, hpk, hc])
    refine ⟨linv_procUpdateFinish (by rw [e]; exact hi) hp1 id plan ⟨q, t, ?_⟩,
      pu_of_none (park_procUpdateFinish hp1 id plan)⟩
    exact (congrFun (congrArg Acc.ent e) id).trans he
  | unpause id ext =>
    simp only
    have hun : (acc s).punp = some id := by simp [acc, hpk, parkUnp, hc]
    obtain ⟨⟨p0, t0, he0, hnp, hnl⟩, hpn⟩ := hi.punpOK id hun
    obtain ⟨p, t, he, hpush⟩ := hi.unparkPush id hun
    have hpp : p0 = p := by rw [he0] at he; cases he; rfl
    subst hpp
    have he1 : entOf (buildNow { s with park := none } .mgr pk.peer pk.id pk.ops) id = some (p0, .queued, t) := by
      have := congrFun (congrArg Acc.ent h1) id
      exact this.trans he
    obtain ⟨r, hl, hr⟩ := lookup_of_entOf he1
    have hrp : r.peer = p0 := (congrArg Prod.fst hr).symm
    have hna : id ∉ (acc s).act p0 := fun hm => by
      obtain ⟨i, hli⟩ := (hi.actLive p0 id).1 hm
      exact hnl i hli
    constructor
    · rw [acc_emit]
      unfold unpauseFinish
      rw [hl]
      simp only
      rw [hrp, acc_pushTask, h1, if_pos ⟨hna, hnp⟩]
      rw [hpn] at hpush
      exact hpush
    · apply pu_of_none
      show (unpauseFinish _ id).park = none
      exact park_unpauseFinish hp1 id
  | update id ext =>
    simp only
    have hpn : (acc s).pnew = none := by simp [acc, hpk, parkNew, hc]
    have hun : (acc s).punp = none := by simp [acc, hpk, parkUnp, hc]
    have e : acc (buildNow { s with park := none } .mgr pk.peer pk.id pk.ops) = acc s := by
      rw [h1]
      cases hx : acc s with
      | mk a b c d e f g h i => rw [hx] at hpn hun; simp only at hpn hun; subst hpn; subst hun; rfl
    exact ⟨by rw [acc_emit, e]; exact hi, pu_of_none hp1⟩

theorem hi_mgrStep {s s' : State} (hi : LInv (acc s)) (hpu : PU s) (h : mgrStep s = some s') :
    LInv (acc s') ∧ PU s' := by
  unfold mgrStep at h
  split at h
  · rename_i pk hpk
    split at h
    · cases h; exact hi_resumeMgr hi hpu hpk
    · cases h
  · rename_i hpk
    split at h
    · cases h
    · rename_i m rest hm
      cases h
      exact hi_handle hi hpk hm

-- ------------------------------------------------------------------ all steps
/-- the request id is fully drained at the responder: no response with this id, no topic with it in
    any peer's task queue (pending or active), no task worker still busy with it, no `new` request
    with it waiting in the mailbox or parked inside `newRequest` -/
def Drained (s : State) (id : Id) : Prop :=
  (acc s).Clean id ∧ id ∉ (acc s).news.map Prod.snd ∧ ∀ k, (acc s).pnew = some k → k.2 ≠ id

/-- `new` requests only carry drained ids -/
def DrainStep (s : State) : Action → Prop
  | .recv _ (.new id _) => Drained s id
  | _ => True

inductive ReachableDrained (c : Cfg) : State → Prop
  | init : ReachableDrained c (init c)
  | step {s s' a} : ReachableDrained c s → DrainStep s a → step s a = some s' → ReachableDrained c s'

theorem pu_of_eq {s s' : State} (h1 : tcore s' = tcore s) (h2 : parkCore s'.park = parkCore s.park) (hpu : PU s) :
    PU s' := by
  intro id plan p i ops hc
  rw [h2] at hc
  obtain ⟨q, t, he⟩ := hpu id plan p i ops hc
  exact ⟨q, t, by rw [entOf_tcore, h1, ← entOf_tcore]; exact he⟩

theorem pu_of_li_pi {s s' : State} (h1 : li s' = li s) (h2 : pi s' = pi s) (hpu : PU s) : PU s' :=
  pu_of_eq (congrArg Li.tbl h1) (congrArg Pi.pcore h2) hpu

theorem hi_step {s s' : State} {a : Action} (hi : LInv (acc s)) (hpu : PU s) (hd : DrainStep s a)
    (h : step s a = some s') : LInv (acc s') ∧ PU s' := by
  cases a with
  | recv p r =>
    simp only [step, Option.some.injEq] at h
    subst h
    refine ⟨?_, pu_of_eq rfl rfl hpu⟩
    cases r with
    | new id cfg =>
      have : acc (sendMsg { s with seenIds := s.seenIds ++ [id] } (Msg.processRequests p (ReqMsg.new id cfg))) =
          { acc s with news := (acc s).news ++ [(p, id)] } := by
        apply acc_eq
        · intro _; rfl
        · intro _; rfl
        · intro _; rfl
        · rfl
        · exact starts_append _ _ (by intros; simp)
        · exact fins_append _ _ (by intros; simp)
        · simp [newIds, sendMsg, acc, List.filterMap_append]
        · rfl
        · rfl
      rw [this]
      exact hi.recvNew p id hd.1 hd.2.1 hd.2.2
    | cancel id =>
      rw [acc_of_li_pi (li_recv s p _ _) (pi_mail _ _ rfl)]; exact hi
    | update id plan =>
      rw [acc_of_li_pi (li_recv s p _ _) (pi_mail _ _ rfl)]; exact hi
  | api c =>
    simp only [step, Option.some.injEq] at h
    subst h
    refine ⟨?_, pu_of_eq rfl rfl hpu⟩
    rw [acc_of_li_pi (li_sendMsg s _ (by intros; simp) (by intros; simp)) (pi_mail _ _ rfl)]; exact hi
  | mgr => exact hi_mgrStep hi hpu h
  | pop p id =>
    have h' : popTask s p id = some s' := h
    obtain ⟨h1, h2⟩ := acc_popTask h'
    refine ⟨by rw [h1]; exact hi.pop p id h2, ?_⟩
    refine pu_of_eq ?_ (congrArg Pi.pcore (pi_popTask h')) hpu
    unfold popTask at h'
    simp only at h'
    split at h'
    · cases h'; rfl
    · cases h'
  | reap p =>
    have h' : reap s p = some s' := h
    refine ⟨by rw [acc_reap h']; exact hi, ?_⟩
    refine pu_of_eq ?_ (congrArg Pi.pcore (pi_reap h')) hpu
    unfold reap at h'
    split at h'
    · split at h'
      · cases h'; rfl
      · cases h'
    · cases h'
  | wstep w pick =>
    have h' : wstep s w pick = some s' := h
    refine ⟨linv_wstep hi h', ?_⟩
    refine pu_of_eq ?_ (congrArg Pi.pcore (pi_wstep h')) hpu
    rcases (wl_wstep h').1 with e | e | e <;> exact congrArg Li.tbl e
  | extract p =>
    have h' : extract s p = some s' := h
    exact ⟨by rw [acc_of_li_pi (li_extract h') (pi_extract h')]; exact hi, pu_of_li_pi (li_extract h') (pi_extract h') hpu⟩
  | net p ok =>
    have h' : netResolve s p ok = some s' := h
    exact ⟨by rw [acc_of_li_pi (li_netResolve h') (pi_netResolve h')]; exact hi,
      pu_of_li_pi (li_netResolve h') (pi_netResolve h') hpu⟩
  | pub p =>
    have h' : pubStep s p = some s' := h
    exact ⟨by rw [acc_of_li_pi (li_pubStep h') (pi_pubStep h')]; exact hi,
      pu_of_li_pi (li_pubStep h') (pi_pubStep h') hpu⟩
  | primer p =>
    simp only [step, Option.some.injEq] at h
    subst h
    exact ⟨by rw [acc_of_li_pi (li_primer s p) (pi_primer s p)]; exact hi,
      pu_of_li_pi (li_primer s p) (pi_primer s p) hpu⟩
  | thaw =>
    simp only [step, Option.some.injEq] at h
    subst h
    exact ⟨by rw [acc_of_li_pi (li_thawAll s) (pi_thawAll s)]; exact hi,
      pu_of_li_pi (li_thawAll s) (pi_thawAll s) hpu⟩

theorem linv_init (c : Cfg) : LInv (acc (init c)) := by
  have hl : ∀ i p id, ¬ (acc (init c)).liveW i p id := by
    intro i p id ⟨k, hk, _⟩
    simp [acc, init, wcore] at hk
  have hk : ∀ i, (acc (init c)).kindAt i = none := by
    intro i; simp [Acc.kindAt, acc, init, wcore]
  refine ⟨?_, ?_, ?_, ?_, ?_, ?_, ?_, ?_, ?_, ?_, ?_, ?_, ?_, ?_⟩
  · intro p id h; simp [acc, init, pendOf, getQ] at h
  · intro p id
    constructor
    · intro h; simp [acc, init, actOf, getQ] at h
    · rintro ⟨i, h⟩; exact absurd h (hl i p id)
  · intro i j p id h; exact absurd h (hl i p id)
  · intro i; rw [hk]; simp [acc, init, starts]
  · simp [acc, init, starts]
  · intro i; rw [hk]; simp [acc, init, fins]
  · simp [acc, init, fins]
  · intro i p id h; exact absurd h (hl i p id)
  · intro p id h; simp [acc, init, pendOf, getQ] at h
  · intro id p st t h; simp [acc, init, entOf, lookup] at h
  · intro k h; simp [acc, init, newIds] at h
  · simp [acc, init, newIds]
  · intro k h; simp [acc, init, parkNew] at h
  · intro id h; simp [acc, init, parkUnp] at h

theorem linv_reachable {c : Cfg} {s : State} (h : ReachableDrained c s) : LInv (acc s) ∧ PU s := by
  induction h with
  | init => exact ⟨linv_init c, pu_of_none rfl⟩
  | step _ hd hs ih => exact hi_step ih.1 ih.2 hd hs

-- ------------------------------------------------------------------ concrete runs
/-- executable form of `Drained` -/
def drainedB (s : State) (id : Id) : Bool :=
  (lookup s id).isNone &&
  s.queues.all (fun q => !(q.pending.any (·.1 == id)) && !(q.active.contains id)) &&
  s.workers.all (fun w => w.id != id || w.phase == .done) &&
  !((newIds s.mailbox).map Prod.snd).contains id &&
  (match parkNew s.park with
   | some k => k.2 != id
   | none => true)

theorem drained_of_B {s : State} {id : Id} (h : drainedB s id = true) : Drained s id := by
  simp only [drainedB, Bool.and_eq_true, Option.isNone_iff_eq_none, List.all_eq_true, Bool.not_eq_true',
    Bool.or_eq_true, bne_iff_ne, ne_eq, beq_iff_eq] at h
  obtain ⟨⟨⟨⟨h1, h2⟩, h3⟩, h4⟩, h5⟩ := h
  refine ⟨⟨entOf_lookup_none h1, ?_, ?_⟩, ?_, ?_⟩
  · intro p
    show id ∉ (getQ s p).pending.map (·.1) ∧ id ∉ (getQ s p).active
    unfold getQ
    cases hf : s.queues.find? (·.peer == p) with
    | none => simp
    | some q =>
      have := h2 q (List.mem_of_find?_eq_some hf)
      simp only
      constructor
      · intro hm
        obtain ⟨t, ht, hid⟩ := List.mem_map.1 hm
        have h21 := this.1
        rw [← Bool.not_eq_true, List.any_eq_true] at h21
        exact h21 ⟨t, ht, by simpa using hid⟩
      · intro hm
        have h22 := this.2
        rw [← Bool.not_eq_true] at h22
        exact h22 (by simpa using hm)
  · rintro i p ⟨k, hk, hkd⟩
    have : (wcore s)[i]? = some (p, id, k) := hk
    simp only [wcore, List.getElem?_map, Option.map_eq_some_iff] at this
    obtain ⟨w, hwi, hwe⟩ := this
    simp only [Prod.mk.injEq] at hwe
    rcases h3 w (List.mem_of_getElem? hwi) with hne | hd
    · exact hne hwe.2.1
    · rw [hd] at hwe; exact hkd hwe.2.2.symm
  · intro hm
    have hm' : id ∈ (newIds s.mailbox).map Prod.snd := hm
    have : ((newIds s.mailbox).map Prod.snd).contains id = true := List.contains_iff_mem.2 hm'
    rw [this] at h4; cases h4
  · intro k hk hid
    have hk' : parkNew s.park = some k := hk
    rw [hk'] at h5
    simp only [bne_iff_ne, ne_eq] at h5
    exact h5 hid

/-- executable check that every `new` request of a script carries a drained id -/
def drainedRun : State → List Action → Bool
  | _, [] => true
  | s, a :: as =>
    (match a with
     | .recv _ (.new id _) => drainedB s id
     | _ => true) && drainedRun ((step s a).getD s) as

theorem reachableDrained_run {c : Cfg} {s : State} (h : ReachableDrained c s) (as : List Action)
    (hf : drainedRun s as = true) : ReachableDrained c (run s as) := by
  induction as generalizing s with
  | nil => exact h
  | cons a as ih =>
    simp only [drainedRun, Bool.and_eq_true] at hf
    show ReachableDrained c (run ((step s a).getD s) as)
    cases hs : step s a with
    | none =>
      rw [hs] at hf
      exact ih h hf.2
    | some s' =>
      rw [hs] at hf
      refine ih (ReachableDrained.step h ?_ hs) hf.2
      cases a with
      | recv p r =>
        cases r with
        | new id cfg => exact drained_of_B hf.1
        | _ => trivial
      | _ => trivial

-- ------------------------------------------------------------------ drained ids are in particular not live
theorem fresh_of_drained {s : State} {a : Action} (h : DrainStep s a) : FreshStep s a := by
  cases a with
  | recv p r =>
    cases r with
    | new id cfg =>
      obtain ⟨⟨h1, _, _⟩, h2, h3⟩ := h
      refine ⟨?_, ?_, ?_⟩
      · intro hk
        obtain ⟨r, hr, hrk⟩ := List.mem_map.1 hk
        have hid : r.id = id := congrArg Prod.snd hrk
        have : entOf s id ≠ none := by
          unfold entOf lookup
          cases hf : s.table.find? (·.id == id) with
          | none =>
            have := List.find?_eq_none.1 hf r hr
            simp [hid] at this
          | some r' => simp
        exact this h1
      · intro hk
        exact h2 (List.mem_map.2 ⟨(p, id), hk, rfl⟩)
      · intro hk
        exact h3 (p, id) hk rfl
    | _ => trivial
  | _ => trivial

theorem reachableFresh_of_drained {c : Cfg} {s : State} (h : ReachableDrained c s) : ReachableFresh c s := by
  induction h with
  | init => exact ReachableFresh.init
  | step _ hd hs ih => exact ReachableFresh.step ih (fresh_of_drained hd) hs

end GS.RespLife
