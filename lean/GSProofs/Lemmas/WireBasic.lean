import GS.Model.Wire
/-! Helper lemmas about the list utilities of the wire model. -/
namespace GS.Wire
open GS.Cbor

theorem allSome_eq_some_iff {α : Type} : ∀ (xs : List (Option α)) (ys : List α),
    allSome xs = some ys ↔ xs = ys.map some
  | [], ys => by
    cases ys <;> simp [allSome]
  | none :: rest, ys => by
    cases ys <;> simp [allSome]
  | some x :: rest, ys => by
    cases h : allSome rest with
    | none =>
      have := allSome_eq_some_iff rest
      cases ys with
      | nil => simp [allSome, h]
      | cons y ys' =>
        simp only [allSome, h, List.map_cons, List.cons.injEq, Option.some.injEq]
        constructor
        · intro h'; cases h'
        · intro ⟨_, h2⟩
          have := (this ys').2 h2
          rw [h] at this; cases this
    | some zs =>
      have ih := (allSome_eq_some_iff rest zs).1 h
      cases ys with
      | nil => simp [allSome, h]
      | cons y ys' =>
        simp only [allSome, h, List.map_cons, List.cons.injEq, Option.some.injEq]
        constructor
        · intro ⟨h1, h2⟩; subst h1; subst h2; exact ⟨rfl, ih⟩
        · intro ⟨h1, h2⟩
          subst h1
          rw [ih] at h2
          have : zs = ys' := by
            have := congrArg (List.filterMap id) h2
            simpa [List.filterMap_map] using this
          exact ⟨rfl, this⟩

theorem allSome_map_some {α : Type} (ys : List α) : allSome (ys.map some) = some ys :=
  (allSome_eq_some_iff _ _).2 rfl

/-- every element of the result comes from a `some` in the input -/
theorem mem_of_allSome {α β : Type} {f : α → Option β} {xs : List α} {ys : List β}
    (h : allSome (xs.map f) = some ys) {y : β} (hy : y ∈ ys) : ∃ x ∈ xs, f x = some y := by
  have h' := (allSome_eq_some_iff _ _).1 h
  have : some y ∈ xs.map f := by rw [h']; exact List.mem_map_of_mem hy
  obtain ⟨x, hx, hfx⟩ := List.mem_map.1 this
  exact ⟨x, hx, hfx⟩

theorem mem_dedupLast {α : Type} (key : α → Bytes) : ∀ {xs : List α} {x : α},
    x ∈ dedupLast key xs → x ∈ xs
  | [], _, h => by simp [dedupLast] at h
  | y :: ys, x, h => by
    unfold dedupLast at h
    split at h
    · exact List.mem_cons_of_mem _ (mem_dedupLast key h)
    · rcases List.mem_cons.1 h with h | h
      · subst h; exact List.mem_cons_self
      · exact List.mem_cons_of_mem _ (mem_dedupLast key h)

theorem dedupLast_of_distinct {α : Type} (key : α → Bytes) : ∀ {xs : List α},
    distinctBy key xs = true → dedupLast key xs = xs
  | [], _ => rfl
  | x :: xs, h => by
    simp only [distinctBy, Bool.and_eq_true, Bool.not_eq_true'] at h
    simp [dedupLast, h.1, dedupLast_of_distinct key h.2]

end GS.Wire
