import GS.Model.LinkTracker
import GSProofs.Lemmas.ResponderTracker
/-!
The peer's link tracker as seen by ONE request `i` that owns the dedup key `k`:

  tv p i k = (dedupKeys[i], altTrackers[k], blockSentCount[i], skipFirstBlocks[i])

* operations of another request `j ≠ i` with another key `kj ≠ k` leave the view unchanged
  (`tv_*_other`);
* operations of `i` itself are functions of the view: on two trackers with equal views they give equal
  outputs and equal new views (`tv_*_self`).
-/
namespace GS.C20
open GS.LinkTrack GS.C03L

structure TV where
  dk  : Option Key
  alt : Option LinkTracker
  cnt : Option Nat
  skp : Option Int

def tv (p : PeerTracker) (i : Req) (k : Key) : TV :=
  ⟨aget p.dedupKeys i, aget p.alts k, aget p.sentCount i, aget p.skipFirst i⟩

/-! ### another request's operations -/

theorem tv_dedupKey_other (p : PeerTracker) (i j : Req) (k kj : Key) (hij : j ≠ i) (hk : kj ≠ k) :
    tv (p.dedupKey j kj) i k = tv p i k := by
  unfold tv PeerTracker.dedupKey
  simp only [aget_aset, hij, if_false]
  split
  · rfl
  · simp [aget_aset, hk]

theorem tv_skip_other (p : PeerTracker) (i j : Req) (k : Key) (n : Int) (hij : j ≠ i) :
    tv (p.skipFirstBlocks j n) i k = tv p i k := by
  unfold tv PeerTracker.skipFirstBlocks
  simp [aget_aset, hij]

theorem setTracker_keyed (p : PeerTracker) (j : Req) (kj : Key) (t : LinkTracker)
    (hj : aget p.dedupKeys j = some kj) :
    p.setTracker j t = { p with alts := aset p.alts kj t } := by
  unfold PeerTracker.setTracker PeerTracker.setScopeTracker
  rw [hj]

theorem tv_traverse_other (p : PeerTracker) (i j : Req) (k kj : Key) (l : Link) (b : Bool)
    (hij : j ≠ i) (hk : kj ≠ k) (hj : aget p.dedupKeys j = some kj) :
    tv (p.traverse j l b).1 i k = tv p i k := by
  unfold PeerTracker.traverse
  simp only
  have hj' : aget ({ p with sentCount := aset p.sentCount j ((aget p.sentCount j).getD 0 + 1) } : PeerTracker).dedupKeys j
      = some kj := hj
  rw [setTracker_keyed _ j kj _ hj']
  unfold tv
  simp [aget_aset, hij, hk]

theorem tv_finish_other (p : PeerTracker) (i j : Req) (k kj : Key)
    (hij : j ≠ i) (hk : kj ≠ k) (hj : aget p.dedupKeys j = some kj) :
    tv (p.finishTracking j).1 i k = tv p i k := by
  unfold PeerTracker.finishTracking
  simp only
  rw [setTracker_keyed p j kj _ hj]
  simp only [hj]
  unfold tv
  simp only [aget_aerase, hij, if_false]
  split <;> simp [aget_aset, aget_aerase, hk]

/-- the dedup-key table of the tracker after an operation of `j` (needed for the invariants) -/
theorem dedupKeys_dedupKey (p : PeerTracker) (j : Req) (kj : Key) :
    (p.dedupKey j kj).dedupKeys = aset p.dedupKeys j kj := rfl

theorem dedupKeys_skip (p : PeerTracker) (j : Req) (n : Int) : (p.skipFirstBlocks j n).dedupKeys = p.dedupKeys := rfl

theorem dedupKeys_traverse (p : PeerTracker) (j : Req) (l : Link) (b : Bool) :
    (p.traverse j l b).1.dedupKeys = p.dedupKeys := by
  unfold PeerTracker.traverse PeerTracker.setTracker PeerTracker.setScopeTracker
  simp only
  split <;> rfl

theorem aerase_of_none {β : Type} (m : List (Nat × β)) (j : Nat) (h : aget m j = none) : aerase m j = m := by
  induction m with
  | nil => rfl
  | cons x t ih =>
    obtain ⟨a, v⟩ := x
    simp only [aget] at h
    by_cases ha : a = j
    · simp [ha] at h
    · simp only [ha, if_false] at h
      have := ih h
      unfold aerase at this ⊢
      simp only [List.filter_cons]
      have hb : ((a, v).1 != j) = true := by simpa using ha
      rw [hb]
      simp only [if_true]
      rw [this]

theorem dedupKeys_finish (p : PeerTracker) (j : Req) :
    (p.finishTracking j).1.dedupKeys = aerase p.dedupKeys j := by
  unfold PeerTracker.finishTracking PeerTracker.setTracker PeerTracker.setScopeTracker
  simp only
  cases h : aget p.dedupKeys j with
  | none =>
    simp only [h]
    rw [aerase_of_none _ _ h]
  | some kj => simp [h]

/-! ### the request's own operations are functions of its view -/

theorem tv_dedupKey_self (p p' : PeerTracker) (i : Req) (k : Key) (h : tv p i k = tv p' i k) :
    tv (p.dedupKey i k) i k = tv (p'.dedupKey i k) i k := by
  unfold tv at h ⊢
  simp only [TV.mk.injEq] at h
  obtain ⟨_, h2, h3, h4⟩ := h
  unfold PeerTracker.dedupKey
  simp only [aget_aset, if_true, TV.mk.injEq, true_and, h3, h4, and_true]
  rw [h2]
  split <;> simp [aget_aset, h2]

theorem tv_skip_self (p p' : PeerTracker) (i : Req) (k : Key) (n : Int) (h : tv p i k = tv p' i k) :
    tv (p.skipFirstBlocks i n) i k = tv (p'.skipFirstBlocks i n) i k := by
  unfold tv at h ⊢
  simp only [TV.mk.injEq] at h
  obtain ⟨h1, h2, h3, _⟩ := h
  unfold PeerTracker.skipFirstBlocks
  simp [aget_aset, h1, h2, h3]

theorem trackerOf_keyed (p : PeerTracker) (i : Req) (k : Key) (hi : aget p.dedupKeys i = some k) :
    p.trackerOf i = (aget p.alts k).getD {} := by
  unfold PeerTracker.trackerOf PeerTracker.scopeTracker
  rw [hi]

theorem tv_traverse_self (p p' : PeerTracker) (i : Req) (k : Key) (l : Link) (b : Bool)
    (h : tv p i k = tv p' i k) (hi : aget p.dedupKeys i = some k) :
    (p.traverse i l b).2 = (p'.traverse i l b).2 ∧ tv (p.traverse i l b).1 i k = tv (p'.traverse i l b).1 i k := by
  have h0 := h
  unfold tv at h
  simp only [TV.mk.injEq] at h
  obtain ⟨h1, h2, h3, h4⟩ := h
  have hi' : aget p'.dedupKeys i = some k := by rw [← h1]; exact hi
  unfold PeerTracker.traverse
  simp only
  have e1 : aget ({ p with sentCount := aset p.sentCount i ((aget p.sentCount i).getD 0 + 1) } : PeerTracker).dedupKeys i = some k := hi
  have e2 : aget ({ p' with sentCount := aset p'.sentCount i ((aget p'.sentCount i).getD 0 + 1) } : PeerTracker).dedupKeys i = some k := hi'
  rw [setTracker_keyed _ i k _ e1, setTracker_keyed _ i k _ e2]
  rw [trackerOf_keyed _ i k e1, trackerOf_keyed _ i k e2]
  simp only
  rw [h2, h3, h4]
  refine ⟨rfl, ?_⟩
  unfold tv
  simp [aget_aset, h1, h4]

theorem tv_finish_self (p p' : PeerTracker) (i : Req) (k : Key)
    (h : tv p i k = tv p' i k) (hi : aget p.dedupKeys i = some k)
    (hu : ∀ e ∈ p.dedupKeys, e.1 ≠ i → e.2 ≠ k) (hu' : ∀ e ∈ p'.dedupKeys, e.1 ≠ i → e.2 ≠ k) :
    (p.finishTracking i).2 = (p'.finishTracking i).2 ∧
    tv (p.finishTracking i).1 i k = tv (p'.finishTracking i).1 i k := by
  unfold tv at h
  simp only [TV.mk.injEq] at h
  obtain ⟨h1, h2, h3, h4⟩ := h
  have hi' : aget p'.dedupKeys i = some k := by rw [← h1]; exact hi
  -- nobody else uses the key: the bucket goes away on both sides
  have hany : ∀ (q : PeerTracker), (∀ e ∈ q.dedupKeys, e.1 ≠ i → e.2 ≠ k) →
      (aerase q.dedupKeys i).any (fun e => e.2 == k) = false := by
    intro q hq
    rw [List.any_eq_false]
    intro e he
    unfold aerase at he
    rw [List.mem_filter] at he
    have := hq e he.1 (by simpa using he.2)
    simpa using this
  unfold PeerTracker.finishTracking
  simp only
  rw [setTracker_keyed p i k _ hi, setTracker_keyed p' i k _ hi']
  rw [trackerOf_keyed p i k hi, trackerOf_keyed p' i k hi']
  simp only [hi, hi', h2]
  rw [hany p hu, hany p' hu']
  refine ⟨?_, ?_⟩
  · first | rfl | trivial | simp
  · unfold tv
    simp [aget_aerase]

end GS.C20
