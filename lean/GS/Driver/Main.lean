import GS.Driver.Proto
import GS.Driver.Alloc
/-!
`gsmodel <component>`: reads the line protocol on stdin, prints the model's outputs.
One dispatch line per component.
-/
open GS.Proto

def dispatch : String → Option (List Toks → List String)
  | "alloc" => some GS.Driver.Alloc.handler
  | _ => none

def main (args : List String) : IO UInt32 := do
  match args with
  | [c] =>
    match dispatch c with
    | some h => runModel h; return 0
    | none => IO.eprintln s!"unknown component {c}"; return 2
  | _ => IO.eprintln "usage: gsmodel <component> < ops"; return 2
