import GSProofs.Lemmas.RespLifeReach
/-!
When does the response-manager goroutine park in a memory reservation?  Only inside a transaction of
non-zero size executed by a manager step: `newRequest` with request-hook extension data, `processUpdate`
on a paused response whose update hook sends extension data, `UnpauseResponse` / `UpdateResponse` with
extension data.  A manager step handling any other message leaves `park = none`.
-/
namespace GS.RespLife

theorem execTx_size0 (s : State) (party : Party) (p : Peer) (id : Id) (ops : List TxOp)
    (h : txSize s.extLen ops = 0) : (execTx s party p id ops).2 = true := by
  unfold execTx
  split
  · rfl
  · simp [h]

theorem execTx_size0_eq {s s1 : State} {party : Party} {p : Peer} {id : Id} {ops : List TxOp} {ok : Bool}
    (h : execTx s party p id ops = (s1, ok)) (hz : txSize s.extLen ops = 0) : ok = true := by
  have := execTx_size0 s party p id ops hz
  rw [h] at this; exact this

/-- the message makes the manager run no transaction that carries extension data -/
def msgNoExt : Msg → Bool
  | .processRequests _ (.new _ cfg) => !cfg.hook.ext
  | .processRequests _ (.update _ plan) => plan != .ext && plan != .unpauseExt
  | .api (.unpause _ ext) => !ext
  | .api (.update _ ext) => !ext
  | _ => true

theorem txSize_status (n : Nat) (c : Nat) : txSize n [TxOp.status c] = 0 := rfl

theorem prepareOps_size0 (n : Nat) (h : Hook) (hx : h.ext = false) : txSize n (prepareOps h) = 0 := by
  unfold prepareOps
  rw [hx]
  cases h.kind <;> rfl

theorem pcore_none_of_pi_eq {s s' : State} (h : pi s' = pi s) (hp : s.park = none) : s'.park = none := by
  have h1 : parkCore s'.park = parkCore s.park := congrArg Pi.pcore h
  rw [hp] at h1
  cases hs : s'.park with
  | none => rfl
  | some k => rw [hs] at h1; cases h1

theorem park_none_of_tos {s s' : State} (h : TermOrSame (pi s) (pi s')) (hp : s.park = none) : s'.park = none := by
  have h1 : parkCore s'.park = parkCore s.park := by
    rcases h with h | ⟨p, id, _, h⟩
    · exact congrArg Pi.pcore h
    · have := congrArg Pi.pcore h
      exact this
  rw [hp] at h1
  cases hs : s'.park with
  | none => rfl
  | some k => rw [hs] at h1; cases h1

theorem park_newReqFinish (s : State) (p : Peer) (id : Id) (cfg : ReqCfg) (hp : s.park = none) :
    (newReqFinish s p id cfg).park = none := by
  have h := pi_newReqFinish s p id cfg
  have h1 : parkCore (newReqFinish s p id cfg).park = parkCore s.park := congrArg Pi.pcore h
  rw [hp] at h1
  cases hs : (newReqFinish s p id cfg).park with
  | none => rfl
  | some k => rw [hs] at h1; cases h1

theorem park_newRequest_noext (s : State) (p : Peer) (id : Id) (cfg : ReqCfg) (hp : s.park = none)
    (hx : cfg.hook.ext = false) : (newRequest s p id cfg).park = none := by
  unfold newRequest
  simp only
  have hp2 : (openStream (protect s p id) id).park = none := hp
  generalize openStream (protect s p id) id = s2 at hp2
  generalize h : execTx s2 Party.mgr p id (prepareOps cfg.hook) = pr
  obtain ⟨s3, ok⟩ := pr
  have hok : ok = true := by
    have := execTx_size0 s2 Party.mgr p id (prepareOps cfg.hook) (prepareOps_size0 s2.extLen cfg.hook hx)
    rw [h] at this; exact this
  subst hok
  simp only
  exact park_newReqFinish s3 p id cfg (pcore_none_of_pi_eq (pi_execTx_eq h) hp2)

theorem park_updateRequest_noext (s : State) (id : Id) (hp : s.park = none) :
    (updateRequest s id false).1.park = none := by
  unfold updateRequest
  split
  · exact hp
  · simp only
    generalize h : execTx s Party.mgr _ id _ = pr
    obtain ⟨s1, ok⟩ := pr
    have hok : ok = true := execTx_size0_eq h (by rfl)
    subst hok
    simp only
    exact pcore_none_of_pi_eq (pi_execTx_eq h) hp

theorem park_processUpdate_noext (s : State) (id : Id) (plan : UP) (hp : s.park = none)
    (hx : (plan != .ext && plan != .unpauseExt) = true) : (processUpdate s id plan).park = none := by
  unfold processUpdate
  split
  · exact hp
  · split
    · exact hp
    · split
      · exact pcore_none_of_pi_eq (by simp) hp
      · simp only
        generalize h : execTx s Party.mgr _ id _ = pr
        obtain ⟨s1, ok⟩ := pr
        have hsz : txSize s.extLen ((if (plan == .ext || plan == .unpauseExt) = true then [TxOp.ext] else []) ++
            (if (plan == .err) = true then [TxOp.status stFailedUnknown] else [])) = 0 := by
          have : (plan == .ext || plan == .unpauseExt) = false := by
            cases plan <;> simp_all
          rw [this]
          simp only [Bool.false_eq_true, if_false, List.nil_append]
          split <;> rfl
        have hok : ok = true := execTx_size0_eq h hsz
        subst hok
        simp only [if_true]
        exact pcore_none_of_pi_eq (by rw [pi_procUpdateFinish']; exact pi_execTx_eq h) hp

/-- **a manager step that handles a message without manager-side extension data never parks** -/
theorem park_handle_noext (s : State) (m : Msg) (hp : s.park = none) (hx : msgNoExt m = true) :
    (handle s m).park = none := by
  cases m with
  | processRequests p r =>
    show (if foreign s p r.id = true then s else processRequest s p r).park = none
    split
    · exact hp
    · cases r with
      | new id cfg => exact park_newRequest_noext s p id cfg hp (by simpa [msgNoExt] using hx)
      | cancel id => exact park_none_of_tos (tos_abortRequest s id .ctxCancel) hp
      | update id plan => exact park_processUpdate_noext s id plan hp (by simpa [msgNoExt] using hx)
  | api c =>
    cases c with
    | pause id =>
      show (emit (pauseRequest s id).1 _).park = none
      exact pcore_none_of_pi_eq (by rw [pi_emit_api, pi_pauseRequest]) hp
    | unpause id ext =>
      have hext : ext = false := by simpa [msgNoExt] using hx
      subst hext
      show (if (unpauseRequest s id false).2.2 = true then (unpauseRequest s id false).1
        else emit (unpauseRequest s id false).1 _).park = none
      split
      · exact pcore_none_of_pi_eq (pi_unpauseRequest_noext s id) hp
      · exact pcore_none_of_pi_eq (by rw [pi_emit_api, pi_unpauseRequest_noext]) hp
    | cancel id =>
      show (emit (abortRequest s id .cancelCmd).1 _).park = none
      have := park_none_of_tos (tos_abortRequest s id .cancelCmd) hp
      exact this
    | update id ext =>
      have hext : ext = false := by simpa [msgNoExt] using hx
      subst hext
      show (if (updateRequest s id false).2.2 = true then (updateRequest s id false).1
        else emit (updateRequest s id false).1 _).park = none
      split
      · exact park_updateRequest_noext s id hp
      · exact park_updateRequest_noext s id hp
  | startTask w => exact pcore_none_of_pi_eq (pi_startTask s w) hp
  | getUpdates w => exact pcore_none_of_pi_eq (pi_getUpdates s w) hp
  | finishTask w err => exact park_none_of_tos (tos_finishTask s w err) hp
  | closeNetErr id inc pub =>
    have h1 : (abortRequest s id .network).1.park = none := park_none_of_tos (tos_abortRequest s id .network) hp
    rw [handle_closeNetErr]
    split
    · split
      · exact h1
      · exact h1
    · exact hp
  | terminate id inc pub =>
    rw [handle_terminate]
    split
    · exact park_none_of_tos (tos_terminate s id) hp
    · exact hp

/-- steps of every process other than the manager never park (or unpark) the manager -/
theorem park_other_step {s s' : State} {a : Action} (h : step s a = some s') (ha : a ≠ .mgr)
    (hp : s.park = none) : s'.park = none := by
  cases a with
  | mgr => exact absurd rfl ha
  | recv p r => simp only [step, Option.some.injEq] at h; subst h; exact hp
  | api c => simp only [step, Option.some.injEq] at h; subst h; exact hp
  | pop p id => exact pcore_none_of_pi_eq (pi_popTask h) hp
  | reap p => exact pcore_none_of_pi_eq (pi_reap h) hp
  | wstep w pick => exact pcore_none_of_pi_eq (pi_wstep h) hp
  | extract p => exact pcore_none_of_pi_eq (pi_extract h) hp
  | net p ok => exact pcore_none_of_pi_eq (pi_netResolve h) hp
  | pub p => exact pcore_none_of_pi_eq (pi_pubStep h) hp
  | primer p => simp only [step, Option.some.injEq] at h; subst h; exact pcore_none_of_pi_eq (pi_primer s p) hp
  | thaw => simp only [step, Option.some.injEq] at h; subst h; exact hp

end GS.RespLife
