import GS.Model.Cbor
import GSProofs.Lemmas.CborHead
/-! `decVal` inverts `encodeRaw` on well-formed values (any map key order). -/
namespace GS.Cbor

mutual
/-- fuel that `decVal` needs for the encoding of a value -/
def need : Val → Nat
  | .array xs => needList xs + 1
  | .map kvs => needKVs kvs + 1
  | .link _ => 2
  | _ => 1
def needList : List Val → Nat
  | [] => 0
  | v :: vs => max (need v) (needList vs) + 1
def needKVs : List (Bytes × Val) → Nat
  | [] => 0
  | (_, v) :: kvs => max (need v) (needKVs kvs) + 1
end

theorem need_pos (v : Val) : 1 ≤ need v := by
  cases v <;> simp [need]

theorem decKey_enc (k rest : Bytes) (hk : k.length ≤ maxStrLen) :
    decKey ((encodeHead 3 k.length ++ k) ++ rest) = some (k, rest) := by
  obtain ⟨b, tail, he, hm, hd⟩ := encodeHead_spec 3 k.length (by omega)
    (by have : maxStrLen = 33554432 := rfl
        omega) (k ++ rest)
  rw [he]
  simp only [List.cons_append, List.append_assoc, decKey]
  have h6 : ¬ (b.toNat / 32 = 6) := by omega
  simp only [h6, if_false, hm, if_true, hd]
  have : ¬ (k.length > maxStrLen) := by omega
  simp only [this, if_false]
  exact takeN_append k rest

/-- scalars -/
theorem decVal_scalar_head (m n : Nat) (hm : m < 8) (hn : n < 18446744073709551616) (fuel d : Nat)
    (tag : Option Nat) (payload : Bytes) :
    ∃ b tail, encodeHead m n = b :: tail ∧ b.toNat / 32 = m ∧
      decodeArg (b.toNat % 32) (tail ++ payload) = some (n, payload) :=
  encodeHead_spec m n hm hn payload

/-- items of major type 0-3 and 7 are handled by `decScalar`, whatever the fuel (>= 1) -/
theorem decVal_scalar (f d : Nat) (tag : Option Nat) (b : UInt8) (rest : Bytes)
    (h4 : b.toNat / 32 ≠ 4) (h5 : b.toNat / 32 ≠ 5) (h6 : b.toNat / 32 ≠ 6) :
    decVal (f + 1) d tag (b :: rest) = decScalar tag b rest := by
  cases tag <;> simp only [decVal, h4, h5, h6, if_false]

mutual
theorem decVal_enc : ∀ (v : Val) (fuel d : Nat) (rest : Bytes),
    wfVal v = true → d + depthVal v ≤ maxDepth → need v ≤ fuel →
    decVal fuel d none (encodeRaw v ++ rest) = some (v, rest)
  | .uint n, fuel, d, rest, hw, _, hf => by
    obtain ⟨f, rfl⟩ : ∃ f, fuel = f + 1 := ⟨fuel - 1, by simp [need] at hf; omega⟩
    simp only [wfVal, decide_eq_true_eq] at hw
    obtain ⟨b, tail, he, hm, hd⟩ := encodeHead_spec 0 n (by omega) hw rest
    simp only [encodeRaw, he, List.cons_append]
    rw [decVal_scalar f d none b _ (by omega) (by omega) (by omega)]
    simp only [decScalar, decUInt, hm, if_true, hd]
  | .nint n, fuel, d, rest, hw, _, hf => by
    obtain ⟨f, rfl⟩ : ∃ f, fuel = f + 1 := ⟨fuel - 1, by simp [need] at hf; omega⟩
    simp only [wfVal, decide_eq_true_eq] at hw
    obtain ⟨b, tail, he, hm, hd⟩ := encodeHead_spec 1 n (by omega) (by omega) rest
    have h0 : ¬ (1 = 0) := by omega
    have h1 : ¬ (n = 18446744073709551615) := by omega
    have h2 : ¬ (n ≥ 9223372036854775808) := by omega
    simp only [encodeRaw, he, List.cons_append]
    rw [decVal_scalar f d none b _ (by omega) (by omega) (by omega)]
    simp only [decScalar, decNInt, hm, h0, if_false, if_true, hd, h1, h2]
  | .bytes s, fuel, d, rest, hw, _, hf => by
    obtain ⟨f, rfl⟩ : ∃ f, fuel = f + 1 := ⟨fuel - 1, by simp [need] at hf; omega⟩
    simp only [wfVal, decide_eq_true_eq] at hw
    have hms : maxStrLen = 33554432 := rfl
    obtain ⟨b, tail, he, hm, hd⟩ := encodeHead_spec 2 s.length (by omega) (by omega) (s ++ rest)
    have h0 : ¬ (2 = 0) := by omega
    have h1 : ¬ (2 = 1) := by omega
    have h2 : ¬ (s.length > maxStrLen) := by omega
    simp only [encodeRaw, he, List.cons_append, List.append_assoc]
    rw [decVal_scalar f d none b _ (by omega) (by omega) (by omega)]
    simp only [decScalar, decBytes, hm, h0, h1, if_false, if_true, hd, h2, takeN_append]
  | .text s, fuel, d, rest, hw, _, hf => by
    obtain ⟨f, rfl⟩ : ∃ f, fuel = f + 1 := ⟨fuel - 1, by simp [need] at hf; omega⟩
    simp only [wfVal, decide_eq_true_eq] at hw
    have hms : maxStrLen = 33554432 := rfl
    obtain ⟨b, tail, he, hm, hd⟩ := encodeHead_spec 3 s.length (by omega) (by omega) (s ++ rest)
    have h0 : ¬ (3 = 0) := by omega
    have h1 : ¬ (3 = 1) := by omega
    have h2 : ¬ (3 = 2) := by omega
    have h3 : ¬ (s.length > maxStrLen) := by omega
    simp only [encodeRaw, he, List.cons_append, List.append_assoc]
    rw [decVal_scalar f d none b _ (by omega) (by omega) (by omega)]
    simp only [decScalar, decText, hm, h0, h1, h2, if_false, if_true, hd, h3, takeN_append]
  | .array xs, fuel, d, rest, hw, hdep, hf => by
    obtain ⟨f, rfl⟩ : ∃ f, fuel = f + 1 := ⟨fuel - 1, by simp [need] at hf; omega⟩
    simp only [wfVal, Bool.and_eq_true, decide_eq_true_eq] at hw
    simp only [depthVal] at hdep
    simp only [need] at hf
    obtain ⟨b, tail, he, hm, hd⟩ := encodeHead_spec 4 xs.length (by omega) hw.1 (encodeRawList xs ++ rest)
    have h0 : ¬ (4 = 0) := by omega
    have h1 : ¬ (4 = 1) := by omega
    have h2 : ¬ (4 = 2) := by omega
    have h3 : ¬ (4 = 3) := by omega
    have h4 : ¬ (d ≥ maxDepth) := by omega
    have ih := decList_enc xs f (d + 1) rest hw.2 (by omega) (by omega)
    simp only [encodeRaw, he, List.cons_append, List.append_assoc, decVal, hm, h0, h1, h2, h3, if_false,
      if_true, hd, Option.bind_some, h4, ih, arrayK]
  | .map kvs, fuel, d, rest, hw, hdep, hf => by
    obtain ⟨f, rfl⟩ : ∃ f, fuel = f + 1 := ⟨fuel - 1, by simp [need] at hf; omega⟩
    simp only [wfVal, Bool.and_eq_true, decide_eq_true_eq, Bool.not_eq_true'] at hw
    simp only [depthVal] at hdep
    simp only [need] at hf
    obtain ⟨b, tail, he, hm, hd⟩ := encodeHead_spec 5 kvs.length (by omega) hw.1.1 (encodeRawKVs kvs ++ rest)
    have h0 : ¬ (5 = 0) := by omega
    have h1 : ¬ (5 = 1) := by omega
    have h2 : ¬ (5 = 2) := by omega
    have h3 : ¬ (5 = 3) := by omega
    have h3' : ¬ (5 = 4) := by omega
    have h4 : ¬ (d ≥ maxDepth) := by omega
    have ih := decKVs_enc kvs f (d + 1) rest hw.2 (by omega) (by omega)
    simp only [encodeRaw, he, List.cons_append, List.append_assoc, decVal, hm, h0, h1, h2, h3, h3', if_false,
      if_true, hd, Option.bind_some, h4, ih, mapK, hw.1.2]
    simp
  | .link c, fuel, d, rest, hw, _, hf => by
    obtain ⟨f, rfl⟩ : ∃ f, fuel = f + 2 := ⟨fuel - 2, by simp [need] at hf; omega⟩
    simp only [wfVal, Bool.and_eq_true, decide_eq_true_eq] at hw
    have hms : maxStrLen = 33554432 := rfl
    obtain ⟨b, tail, he, hm, hd⟩ := encodeHead_spec 2 (c.length + 1) (by omega) (by omega) ((0 :: c) ++ rest)
    have ht : takeN 1 ((0x2a : UInt8) :: ((b :: tail) ++ ((0 :: c) ++ rest))) = some ([0x2a], (b :: tail) ++ ((0 :: c) ++ rest)) := by
      simp [takeN]
    have h2 : ¬ (c.length + 1 > maxStrLen) := by omega
    have hlen : (0 :: c : Bytes).length = c.length + 1 := by simp
    have htk : takeN (c.length + 1) ((0 :: c) ++ rest) = some (0 :: c, rest) := by
      rw [← hlen]; exact takeN_append _ _
    simp only [encodeRaw, he, List.cons_append, List.append_assoc, List.nil_append]
    rw [decVal]
    simp only [show (0xd8 : UInt8).toNat / 32 = 6 from by decide, show (0xd8 : UInt8).toNat % 32 = 24 from by decide,
      show ¬ (6 = 0) from by omega, show ¬ (6 = 1) from by omega, show ¬ (6 = 2) from by omega,
      show ¬ (6 = 3) from by omega, show ¬ (6 = 4) from by omega, show ¬ (6 = 5) from by omega, if_false, if_true]
    simp only [decodeArg, show ¬ (24 < 24) from by omega, if_false, if_true]
    rw [show ((0x2a : UInt8) :: b :: (tail ++ (0 :: (c ++ rest)))) = (0x2a : UInt8) :: ((b :: tail) ++ ((0 :: c) ++ rest)) from by simp]
    rw [ht]
    simp only [show beNat [(0x2a : UInt8)] = 42 from by decide, show ¬ (42 < 24) from by omega, if_false,
      show ¬ (42 ≥ 9223372036854775808) from by omega, Option.bind_some]
    simp only [List.cons_append]
    rw [decVal_scalar f d (some 42) b _ (by omega) (by omega) (by omega)]
    simp only [decScalar, decBytes, taggedBytes, hm, show ¬ (2 = 0) from by omega, show ¬ (2 = 1) from by omega, if_false, if_true]
    rw [show tail ++ (0 :: (c ++ rest)) = tail ++ ((0 :: c) ++ rest) from by simp, hd]
    simp only [h2, if_false, htk, hw.1, if_true]
  | .bool false, fuel, d, rest, _, _, hf => by
    obtain ⟨f, rfl⟩ : ∃ f, fuel = f + 1 := ⟨fuel - 1, by simp [need] at hf; omega⟩
    simp only [encodeRaw, List.cons_append, List.nil_append]
    rw [decVal_scalar f d none 0xf4 _ (by decide) (by decide) (by decide)]
    simp only [decScalar, decSimple, decFloat, show (0xf4 : UInt8).toNat / 32 = 7 from by decide, show (0xf4 : UInt8).toNat % 32 = 20 from by decide]
    simp
  | .bool true, fuel, d, rest, _, _, hf => by
    obtain ⟨f, rfl⟩ : ∃ f, fuel = f + 1 := ⟨fuel - 1, by simp [need] at hf; omega⟩
    simp only [encodeRaw, List.cons_append, List.nil_append]
    rw [decVal_scalar f d none 0xf5 _ (by decide) (by decide) (by decide)]
    simp only [decScalar, decSimple, decFloat, show (0xf5 : UInt8).toNat / 32 = 7 from by decide, show (0xf5 : UInt8).toNat % 32 = 21 from by decide]
    simp
  | .null, fuel, d, rest, _, _, hf => by
    obtain ⟨f, rfl⟩ : ∃ f, fuel = f + 1 := ⟨fuel - 1, by simp [need] at hf; omega⟩
    simp only [encodeRaw, List.cons_append, List.nil_append]
    rw [decVal_scalar f d none 0xf6 _ (by decide) (by decide) (by decide)]
    simp only [decScalar, decSimple, decFloat, show (0xf6 : UInt8).toNat / 32 = 7 from by decide, show (0xf6 : UInt8).toNat % 32 = 22 from by decide]
    simp
  | .float bits, fuel, d, rest, hw, _, hf => by
    obtain ⟨f, rfl⟩ : ∃ f, fuel = f + 1 := ⟨fuel - 1, by simp [need] at hf; omega⟩
    simp only [wfVal, Bool.and_eq_true, decide_eq_true_eq] at hw
    simp only [encodeRaw, List.cons_append]
    rw [decVal_scalar f d none 0xfb _ (by decide) (by decide) (by decide)]
    simp only [decScalar, decSimple, decFloat, show (0xfb : UInt8).toNat / 32 = 7 from by decide, show (0xfb : UInt8).toNat % 32 = 27 from by decide]
    simp only [takeN_beBytes, beNat_beBytes 8 bits (by omega), id, hw.2]
    simp [hw.2]
theorem decList_enc : ∀ (xs : List Val) (fuel d : Nat) (rest : Bytes),
    wfValList xs = true → d + depthList xs ≤ maxDepth → needList xs ≤ fuel →
    decList fuel d xs.length (encodeRawList xs ++ rest) = some (xs, rest)
  | [], fuel, d, rest, _, _, _ => by simp [encodeRawList, decList]
  | x :: xs, fuel, d, rest, hw, hdep, hf => by
    obtain ⟨f, rfl⟩ : ∃ f, fuel = f + 1 := ⟨fuel - 1, by simp [needList] at hf; omega⟩
    simp only [wfValList, Bool.and_eq_true] at hw
    simp only [depthList] at hdep
    simp only [needList] at hf
    have h1 := decVal_enc x f d (encodeRawList xs ++ rest) hw.1 (by omega) (by omega)
    have h2 := decList_enc xs f d rest hw.2 (by omega) (by omega)
    simp only [encodeRawList, List.length_cons, List.append_assoc, decList, h1, h2]
theorem decKVs_enc : ∀ (kvs : List (Bytes × Val)) (fuel d : Nat) (rest : Bytes),
    wfValKVs kvs = true → d + depthKVs kvs ≤ maxDepth → needKVs kvs ≤ fuel →
    decKVs fuel d kvs.length (encodeRawKVs kvs ++ rest) = some (kvs, rest)
  | [], fuel, d, rest, _, _, _ => by simp [encodeRawKVs, decKVs]
  | (k, v) :: kvs, fuel, d, rest, hw, hdep, hf => by
    obtain ⟨f, rfl⟩ : ∃ f, fuel = f + 1 := ⟨fuel - 1, by simp [needKVs] at hf; omega⟩
    simp only [wfValKVs, Bool.and_eq_true, decide_eq_true_eq] at hw
    simp only [depthKVs] at hdep
    simp only [needKVs] at hf
    have h0 := decKey_enc k (encodeRaw v ++ (encodeRawKVs kvs ++ rest)) hw.1.1
    have h1 := decVal_enc v f d (encodeRawKVs kvs ++ rest) hw.1.2 (by omega) (by omega)
    have h2 := decKVs_enc kvs f d rest hw.2 (by omega) (by omega)
    simp only [encodeRawKVs, List.length_cons, List.append_assoc] at h0 ⊢
    simp only [decKVs, h0, h1, h2]
end

end GS.Cbor
