package main

import (
	_ "verifharness/alloc"
	"verifharness/reg"
)

func main() { reg.Main("alloc") }
