/-
Vocabulary shared by the hand-written request-manager model (GS/Model/ReqMgr.lean) and the file
GS/Generated/ReqPipeline.lean that translate/reqpipeline regenerates from requestmanager/*.go.
Core Lean only.
-/
namespace GS.ReqMgr

/-- the kinds of stage the response-processing entry point of the request manager is built from
    (recognised by the translator from the *shape* of the called function):
    * `dropForeignLive` drop the responses whose request is in progress with a peer other than the
                       message's sender (responses for requests that are not in the table pass)
    * `filterForPeer`  keep the responses whose request exists and was sent to the message's sender
    * `extensions`     run the response hooks; send update messages; on a hook error send a cancel,
                       cancel the request and drop the response
    * `updateLast`     store the response as the request's `lastResponse` (what block hooks see)
    * `ingest`         hand metadata + blocks to the request's reconciled loader
    * `terminations`   act on terminal statuses -/
inductive StageOp where
  | dropForeignLive | filterForPeer | extensions | updateLast | ingest | terminations
deriving DecidableEq, Repr

/-- addressee of a message sent while processing a response: the peer the message came from, or
    the peer stored in the request's table entry -/
inductive Target where
  | sender | owner
deriving DecidableEq, Repr

/-- an operand of the comparison inside the peer filter: the sender of the message (the filter's peer
    argument) or the peer field of the table entry found under the response's request ID -/
inductive PeerTerm where
  | sender | entryPeer
deriving DecidableEq, Repr

/-- the peer filter as written in the source:
    `e, ok := table[response.RequestID()]; if !ok || <lhs> != <rhs> { continue }` -/
structure FilterCond where
  lhs : PeerTerm
  rhs : PeerTerm
deriving DecidableEq, Repr

structure ExtDesc where
  hookPeer : Target
  updateTo : Target
  cancelTo : Target
deriving Repr

structure CancelDesc where
  keepFirstError : Bool
  terminateUnlessRunning : Bool
  runningCancelsCtx : Bool
  runningSetsOffline : Bool
deriving Repr

structure TermDesc where
  failureCancels : Bool
  terminalSetsOffline : Bool
deriving Repr

end GS.ReqMgr
