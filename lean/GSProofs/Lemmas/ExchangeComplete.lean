import GSProofs.Lemmas.RequestorBridge
import GSProofs.Lemmas.LoaderReplay
/-!
Composition: the loader-level completeness theorem (`Loader.complete_prefix`) lifted to the event
stream of `Requestor.exchange` (executor + response routing): local prefix, first miss, request,
the honest response as one message with a successful terminal status.
-/
namespace GS.Requestor
open GS.Loader

theorem ingest_with (s : Loader.State) (m : Option Attempt) (pd : Option (Path × Cid))
    (md : List (Cid × Action)) (bl : List (Cid × Blk)) :
    Loader.ingest { s with mra := m, pending := pd } md bl = { Loader.ingest s md bl with mra := m, pending := pd } := by
  unfold Loader.ingest; split <;> (try split) <;> rfl

theorem setOnline_with (s : Loader.State) (m : Option Attempt) (pd : Option (Path × Cid)) (b : Bool) :
    Loader.setOnline { s with mra := m, pending := pd } b = { Loader.setOnline s b with mra := m, pending := pd } := by
  unfold Loader.setOnline; dsimp only; split <;> rfl

/-- `RetryLastLoad` right after going online, before anything arrived, parks -/
theorem retry_after_open (l1 : Loader.State) (a : Attempt) (hm : l1.mra = some a) (hc : l1.isOpen = false) :
    Loader.retry (Loader.setOnline l1 true) =
      ({ Loader.setOnline l1 true with mra := none, pending := some (a.path, a.link) }, .blocked) := by
  have hso : Loader.setOnline l1 true = { l1 with isOpen := true, rq := {}, ver := some (newVerifier l1.record) } := by
    unfold Loader.setOnline; simp [hc, RQ.clear]
  rw [hso]
  unfold Loader.retry
  simp only [hm]
  have hrl : RQ.retryLast ({} : RQ) = {} := rfl
  cases a.usedRemote <;>
    simp [Loader.load, hrl, Loader.run, waitRemote]


/-- the requestor state after `request`: the local prefix `pre` delivered, the load of `n` missed, the
    loader online, the request sent, `RetryLastLoad` parked -/
theorem request_prefix (loc : List (Cid × Blk)) (pre : LT) (n : LNode) (post : LT) (u : Nat)
    (hheld : ∀ m ∈ pre, holds loc m.cid = true) (hmiss : holds loc n.cid = false) :
    ∃ (a : Attempt), a.path = n.path ∧ a.link = n.cid ∧
    request { L := { store := loc } } (pre ++ n :: post) u =
      ({ L := { Loader.setOnline (Loader.load (walk ({ store := loc } : Loader.State) pre).2 n.path n.cid).1 true with
                  mra := none, pending := some (a.path, a.link) },
         todo := n :: post, phase := .running, requestSent := true, nBlocks := pre.length, userSkip := u },
       localEvs pre 0 ++ [Ev.sentNew (max u pre.length)]) := by
  let s1 : State := { L := { store := loc }, todo := pre ++ n :: post, phase := .running, userSkip := u }
  have hl1 : LocalSt s1 := ⟨⟨rfl, rfl, rfl⟩, rfl, rfl, rfl⟩
  obtain ⟨_, hl', hst', hdr⟩ := drive_local_walk pre (n :: post) (post.length + 3) s1 hl1 rfl
    (fun m hm => by rw [holds_has]; exact hheld m hm)
  have hfuel : fuelFor s1 = pre.length + (post.length + 3) := by simp [fuelFor, s1]; omega
  -- the miss at `n`
  obtain ⟨sx, hsx, hres, hoff, _⟩ := load_offline (walk ({ store := loc } : Loader.State) pre).2 n.path n.cid hl'.off
  have hmissr : loadLocal sx n.path n.cid = { data := none, err := some (.missing n.cid n.path), loc := true } :=
    loadLocal_hasnt sx n (by rw [hsx, hst']; exact hmiss)
  rw [hmissr] at hres
  obtain ⟨_, up, hmra⟩ := (load_pending (walk ({ store := loc } : Loader.State) pre).2 n.path n.cid).2 _ hres
  refine ⟨⟨n.cid, n.path, (some (LoadErr.missing n.cid n.path)).isNone, up⟩, rfl, rfl, ?_⟩
  unfold request
  show drive (fuelFor s1) s1 = _
  rw [hfuel, hdr]
  have hretry := retry_after_open _ _ hmra hoff.closed
  rw [show post.length + 3 = (post.length + 2) + 1 from rfl, drive_succ, if_neg (by simp [s1])]
  dsimp only
  unfold loadNode
  generalize hld : Loader.load (walk ({ store := loc } : Loader.State) pre).2 n.path n.cid = ld at hres hretry hmra
  obtain ⟨l1, out⟩ := ld
  simp only at hres hretry hmra
  subst hres
  dsimp only
  rw [if_pos (by simp [isMiss, s1])]
  rw [hretry]
  simp [s1]

/-- **the exchange's answers are the loader-level traversal** (any response, honest or not): local
    prefix `pre`, first miss at `n`, then one message with a successful terminal status.  The answers
    in the event stream are the `|pre|` local deliveries followed by the results of `walk` from the
    state `afterResponseP` (the loader-level script of `complete_prefix`) with `RetryLastLoad` as its
    first load; the final store is the one that walk ends with. -/
theorem exchange_results_prefix (loc : List (Cid × Blk)) (pre : LT) (n : LNode) (post : LT) (u st : Nat)
    (hst : st = 20 ∨ st = 21) (md : List (Cid × Action)) (bl : List (Cid × Blk))
    (hheld : ∀ m ∈ pre, holds loc m.cid = true) (hmiss : holds loc n.cid = false)
    (hdep : ∀ m ∈ n :: post, m.depth ≠ 0) :
    resultsOf (exchange loc (pre ++ n :: post) u [⟨true, true, st, md, bl⟩]).2 =
      (pre.map (fun m => (m, true))).map keyOf ++
        (walk { afterResponseP loc pre n md bl with mra := none } (n :: post)).1.map keyOf ∧
    (exchange loc (pre ++ n :: post) u [⟨true, true, st, md, bl⟩]).1.L.store =
      (walk { afterResponseP loc pre n md bl with mra := none } (n :: post)).2.store := by
  obtain ⟨a, hap, hal, hreq⟩ := request_prefix loc pre n post u hheld hmiss
  unfold exchange
  rw [hreq]
  dsimp only
  simp only [feed]
  -- the message: ingest, terminal status takes the loader offline, the parked load is woken
  have hterm : isTerminal st = true ∧ isFailure st = false := by
    rcases hst with rfl | rfl <;> exact ⟨by decide, by decide⟩
  unfold message
  simp only [Bool.not_true, Bool.or_false, bne_self_eq_false, Bool.false_eq_true, if_false]
  unfold applyStatus
  simp only [hterm.1, hterm.2, if_true, Bool.false_eq_true, if_false]
  rw [ingest_with, setOnline_with]
  have hrw := resume_walk
    { L := { Loader.setOnline (Loader.ingest (Loader.setOnline (Loader.load (walk ({ store := loc } : Loader.State) pre).2 n.path n.cid).1 true) md bl) false with
               mra := none, pending := some (a.path, a.link) },
      todo := n :: post, phase := .running, requestSent := true, nBlocks := pre.length, userSkip := u }
    n post rfl rfl rfl rfl (by rw [hap, hal]) rfl hdep
  simp only at hrw
  have hsim : Sim ({ afterResponseP loc pre n md bl with mra := none } : Loader.State)
      ({ Loader.setOnline (Loader.ingest (Loader.setOnline (Loader.load (walk ({ store := loc } : Loader.State) pre).2 n.path n.cid).1 true) md bl) false with
               mra := none, pending := none } : Loader.State) :=
    ⟨_, _, none, rfl⟩
  have hws := walk_sim (n :: post).length (n :: post) (Nat.le_refl _) _ _ hsim
  generalize resume _ = rs at hrw ⊢
  obtain ⟨sR, eR⟩ := rs
  simp only at hrw ⊢
  refine ⟨?_, ?_⟩
  · rw [resultsOf_append, resultsOf_append, resultsOf_localEvs]
    simp only [resultsOf, List.append_nil, List.nil_append]
    rw [hrw.1, hws.1]
  · rw [hrw.2, hws.2]

end GS.Requestor
