// Package selvale2e: end-to-end stream for C08 (component "selvale2e").  Two real GraphSync
// instances with *default* options over a libp2p mocknet; every `wired <selector>` op sends one
// request and reports whether the responder answered RequestRejected on the wire.
//
//	wired <selector prefix form>   -> resp=RequestRejected | resp=served | not-wf
package selvale2e

import (
	"bufio"
	"context"
	"fmt"
	"io"
	"math/rand"
	"os"
	"sync"
	"time"

	"github.com/ipld/go-ipld-prime/datamodel"
	"github.com/ipld/go-ipld-prime/fluent"
	"github.com/ipld/go-ipld-prime/linking"
	cidlink "github.com/ipld/go-ipld-prime/linking/cid"
	"github.com/ipld/go-ipld-prime/node/basicnode"
	"github.com/ipld/go-ipld-prime/storage/memstore"
	"github.com/ipld/go-ipld-prime/traversal/selector/builder"
	"github.com/libp2p/go-libp2p/core/peer"
	mocknet "github.com/libp2p/go-libp2p/p2p/net/mock"

	_ "github.com/ipld/go-ipld-prime/codec/dagcbor"

	"github.com/ipfs/go-cid"
	"github.com/ipfs/go-graphsync"
	gsimpl "github.com/ipfs/go-graphsync/impl"
	gsnet "github.com/ipfs/go-graphsync/network"
	logging "github.com/ipfs/go-log/v2"

	"verifharness/reg"
	"verifharness/selval"
)

func init() {
	reg.Register(&reg.Component{Name: "selvale2e", Gen: Gen, Run: Run})
}

type pair struct {
	requestor graphsync.GraphExchange
	responder peer.ID
	root      datamodel.Link
	mu        sync.Mutex
	statuses  []graphsync.ResponseStatusCode
	cancel    context.CancelFunc
}

func setup() (*pair, error) {
	// the check merges stderr into the compared output: keep the libraries quiet
	logging.SetAllLoggers(logging.LevelFatal)
	ctx, cancel := context.WithCancel(context.Background())
	mn := mocknet.New()
	h1, err := mn.GenPeer()
	if err != nil {
		cancel()
		return nil, err
	}
	h2, err := mn.GenPeer()
	if err != nil {
		cancel()
		return nil, err
	}
	if err := mn.LinkAll(); err != nil {
		cancel()
		return nil, err
	}
	// the requestor keeps nothing: every request has to be answered by the responder
	ls1 := cidlink.DefaultLinkSystem()
	ls1.StorageReadOpener = func(linking.LinkContext, datamodel.Link) (io.Reader, error) {
		return nil, fmt.Errorf("not found")
	}
	ls1.StorageWriteOpener = func(linking.LinkContext) (io.Writer, linking.BlockWriteCommitter, error) {
		return io.Discard, func(datamodel.Link) error { return nil }, nil
	}
	ls2 := cidlink.DefaultLinkSystem()
	st2 := &memstore.Store{}
	ls2.SetReadStorage(st2)
	ls2.SetWriteStorage(st2)
	// a small root block on the responder
	rootNode := fluent.MustBuildMap(basicnode.Prototype.Map, 2, func(na fluent.MapAssembler) {
		na.AssembleEntry("x").AssignString("y")
		na.AssembleEntry("Links").CreateList(2, func(la fluent.ListAssembler) {
			la.AssembleValue().AssignInt(1)
			la.AssembleValue().AssignInt(2)
		})
	})
	lp := cidlink.LinkPrototype{Prefix: cid.Prefix{Version: 1, Codec: 0x71, MhType: 0x12, MhLength: 32}}
	root, err := ls2.Store(linking.LinkContext{}, lp, rootNode)
	if err != nil {
		cancel()
		return nil, err
	}
	p := &pair{responder: h2.ID(), root: root, cancel: cancel}
	// default options on both sides: this is what the property is about
	p.requestor = gsimpl.New(ctx, gsnet.NewFromLibp2pHost(h1), ls1)
	_ = gsimpl.New(ctx, gsnet.NewFromLibp2pHost(h2), ls2)
	p.requestor.RegisterIncomingResponseHook(func(_ peer.ID, rd graphsync.ResponseData, _ graphsync.IncomingResponseHookActions) {
		p.mu.Lock()
		p.statuses = append(p.statuses, rd.Status())
		p.mu.Unlock()
	})
	return p, nil
}

// ask sends one request and returns the statuses seen on the wire for it
func (p *pair) ask(sel datamodel.Node) ([]graphsync.ResponseStatusCode, bool) {
	p.mu.Lock()
	p.statuses = nil
	p.mu.Unlock()
	ctx, cancel := context.WithTimeout(context.Background(), 10*time.Second)
	defer cancel()
	progress, errs := p.requestor.Request(ctx, p.responder, p.root, sel)
	for progress != nil || errs != nil {
		select {
		case _, ok := <-progress:
			if !ok {
				progress = nil
			}
		case e, ok := <-errs:
			if !ok {
				errs = nil
			} else if os.Getenv("SELVAL_DEBUG") != "" {
				fmt.Fprintln(os.Stderr, "request error:", e)
			}
		}
	}
	timedOut := ctx.Err() != nil
	p.mu.Lock()
	defer p.mu.Unlock()
	return append([]graphsync.ResponseStatusCode{}, p.statuses...), timedOut
}

func Run(cases []reg.Case, out *reg.Out) {
	p, err := setup()
	if err != nil {
		fmt.Fprintln(os.Stderr, "selvale2e setup:", err)
		os.Exit(3)
	}
	defer p.cancel()
	ssb := builder.NewSelectorSpecBuilder(basicnode.Prototype.Any)
	for _, c := range cases {
		out.BeginCase(c)
		for _, op := range c.Ops {
			if len(op) < 2 || op[0] != "wired" {
				out.Line("bad-op")
				continue
			}
			s, rest, err := selval.ParseSel(op[1:])
			if err != nil || len(rest) != 0 {
				out.Line("bad-op")
				continue
			}
			if !s.Buildable() {
				out.Line("not-wf")
				continue
			}
			n := s.Build(ssb).Node()
			if !selval.Parses(n) {
				out.Line("not-wf")
				out.Cov("e2e:not-wf")
				continue
			}
			statuses, timedOut := p.ask(n)
			rejected := false
			for _, st := range statuses {
				if st == graphsync.RequestRejected {
					rejected = true
				}
			}
			switch {
			case timedOut:
				out.Line("resp=timeout")
				out.Cov("e2e:timeout")
			case rejected:
				out.Line("resp=RequestRejected")
				out.Cov("e2e:rejected")
			default:
				out.Line("resp=served")
				out.Cov("e2e:served")
				for _, st := range statuses {
					if st.IsTerminal() {
						out.Cov("e2e:served-final=" + st.String())
					}
				}
			}
			bounded := s.AllBounded(100)
			if !timedOut && bounded && rejected {
				out.Fail("e2e-bounded-rejected", "default responder answered RequestRejected for `%s`, whose recursions are all limited to depth <= 100", s.String())
			}
			if !timedOut && !bounded && !rejected {
				out.Fail("e2e-unbounded-served", "default responder did not reject `%s` (statuses %v), which contains an unbounded or deeper-than-100 recursion", s.String(), statuses)
			}
		}
	}
}

func Gen(seed int64, n int, tier string, w *bufio.Writer) {
	r := rand.New(rand.NewSource(seed))
	for i := 0; i < n; i++ {
		fmt.Fprintf(w, "case e%d\n", i)
		for j := 0; j < 3; j++ {
			fmt.Fprintf(w, "wired %s\n", selval.GenWellFormed(r, 1+r.Intn(5)).String())
		}
	}
}
