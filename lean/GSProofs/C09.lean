import GS.Model.ReqMgr
/-!
# C09 — Responses from other peers cannot affect a request  (work in progress: see below)
-/
namespace GS.C09
open GS.ReqMgr GS.Generated

/-- every effectful stage of the response pipeline runs after the peer filter: with the linear data
    flow checked by the translator that is "the first stage is the peer filter". -/
def Guarded : List StageOp → Bool
  | [] => true
  | op :: _ => op == .filterForPeer

/-- the pipeline extracted from today's `processResponses` is guarded -/
theorem pipeline_guarded : Guarded ReqPipeline.stages = true := by decide

end GS.C09
