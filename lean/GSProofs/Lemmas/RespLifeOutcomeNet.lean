import GSProofs.Lemmas.RespLifeOutcomeWorker
/-!
Outcome accounting: message queue, publisher, task pop / reap / thaw, environment steps.
-/
namespace GS.RespLife

-- ------------------------------------------------------------------ message resolved
theorem tokQ_append (r : Id) (a b : List PStep) : tokQ r (a ++ b) = tokQ r a + tokQ r b := by
  simp [tokQ, List.countP_append]

theorem tokQ_sentSteps (r : Id) (e : Entry) : tokQ r (sentSteps e) ≤ if tokE r e then 1 else 0 := by
  unfold sentSteps
  simp only
  rw [tokQ_append]
  have h1 : tokQ r (if e.bdata > 0 then [PStep.emitBs e.id e.bdata] else []) = 0 := by
    split <;> rfl
  rw [h1]
  by_cases ht : isTerminal (if e.inResp then e.code.getD stPartial else 0) = true
  · rw [if_pos ht]
    have := entTerm_of_sent e ht
    simp only [tokQ, List.countP_cons, List.countP_nil, doneStep, tokE, this, Bool.and_true]
    by_cases hr : e.id = r <;> simp [hr]
  · rw [if_neg ht]
    simp [tokQ]

theorem tokQ_errSteps (r : Id) (e : Entry) : tokQ r (errSteps e) = 0 := by
  unfold errSteps
  simp only
  rw [tokQ_append, tokQ_append]
  by_cases ht : isTerminal (if e.inResp then e.code.getD stPartial else 0) = true
  · rw [if_pos ht]; rfl
  · rw [if_neg ht]; rfl

theorem tokQ_flat_sent (r : Id) (l : List Entry) : tokQ r (l.map sentSteps).flatten ≤ l.countP (tokE r) := by
  induction l with
  | nil => simp [tokQ]
  | cons e l ih =>
    simp only [List.map_cons, List.flatten_cons, tokQ_append, List.countP_cons]
    have := tokQ_sentSteps r e
    omega

theorem tokQ_flat_err (r : Id) (l : List Entry) : tokQ r (l.map errSteps).flatten = 0 := by
  induction l with
  | nil => simp [tokQ]
  | cons e l ih => simp only [List.map_cons, List.flatten_cons, tokQ_append, tokQ_errSteps, ih]

theorem countP_filter_le {α : Type} (P Q : α → Bool) (l : List α) : (l.filter Q).countP P ≤ l.countP P := by
  induction l with
  | nil => simp
  | cons a l ih =>
    simp only [List.filter_cons, List.countP_cons]
    split
    · simp only [List.countP_cons]; omega
    · omega

theorem tokB_scrubNext (r : Id) (nb : Option Builder) (ids : List Id) : tokB r (scrubNext nb ids).1 ≤ tokB r nb := by
  unfold scrubNext
  cases nb with
  | none => exact Nat.le_refl _
  | some b =>
    simp only
    split
    · exact Nat.zero_le _
    · exact countP_filter_le _ _ _

theorem sorted_scrubNext (nb : Option Builder) (ids : List Id) (h : SortedB nb) : SortedB (scrubNext nb ids).1 := by
  unfold scrubNext
  cases nb with
  | none => trivial
  | some b =>
    simp only
    split
    · trivial
    · exact List.Pairwise.filter _ h

theorem chg_closeStreams (r : Id) (s : State) (ids : List Id) : Chg r s (closeStreams s ids) 0 0 :=
  chg_field rfl rfl rfl rfl rfl rfl

theorem getMQ_closeStreams (s : State) (ids : List Id) (p : Peer) : getMQ (closeStreams s ids) p = getMQ s p := rfl

theorem chg_release_after {r : Id} {s s1 : State} (h : Chg r s s1 0 0) (p : Peer) (n : Nat) :
    Chg r s (release s1 p n) 0 0 := h.trans (chg_release r s1 p n)

theorem chg_netResolve (r : Id) {s s' : State} {p : Peer} {ok : Bool} (h : netResolve s p ok = some s') :
    Chg r s s' 0 0 := by
  unfold netResolve at h
  simp only at h
  split at h
  · cases h
  · rename_i b hb
    split at h
    · cases h
      have h1 := chg_updMQ r s p
        (fun q => { q with inflight := none, pubQ := q.pubQ ++ ((b.entries.filter (·.sub)).map sentSteps).flatten })
        (fun _ => rfl) (fun hq => ⟨trivial, hq.2⟩)
      have e0 : tokB r none = 0 := rfl
      have e1 : tokB r (some b) = b.entries.countP (tokE r) := rfl
      refine chg_release_after (h1.weaken (u' := 0) (d' := 0) ?_) p b.size
      simp only [mqW, hb, tokQ_append, e0, e1]
      have := tokQ_flat_sent r (b.entries.filter (·.sub))
      have := countP_filter_le (tokE r) (·.sub) b.entries
      omega
    · cases h
      have hc := chg_closeStreams r s ((b.entries.filter (·.sub)).map (·.id))
      have h1 := chg_updMQ r (closeStreams s ((b.entries.filter (·.sub)).map (·.id))) p
        (fun q => { q with inflight := none,
                           next := (scrubNext (getMQ s p).next ((b.entries.filter (·.sub)).map (·.id))).1,
                           pubQ := q.pubQ ++ ((b.entries.filter (·.sub)).map errSteps).flatten })
        (fun _ => rfl) (fun hq => ⟨trivial, sorted_scrubNext _ _ hq.2⟩)
      rw [getMQ_closeStreams] at h1
      have e0 : tokB r none = 0 := rfl
      have h2 := hc.trans (h1.weaken (u' := 0) (d' := 0) (by
        simp only [mqW, hb, tokQ_append, tokQ_flat_err, e0]
        have := tokB_scrubNext r (getMQ s p).next ((b.entries.filter (·.sub)).map (·.id))
        omega))
      split
      · exact chg_release_after (chg_release_after h2 p _) p _
      · exact chg_release_after h2 p _

theorem chg_extract (r : Id) {s s' : State} {p : Peer} (h : extract s p = some s') : Chg r s s' 0 0 := by
  unfold extract at h
  simp only at h
  split at h
  · rename_i b hi hn
    split at h
    · cases h
    · cases h
      refine (chg_updMQ r s p (fun q => { q with inflight := some b, next := none }) (fun _ => rfl)
        (fun hq => ⟨by have := hq.2; rw [hn] at this; exact this, trivial⟩)).weaken ?_
      simp only [mqW, hi, hn, tokB]
      omega
  · cases h

theorem chg_primer (r : Id) (s : State) (p : Peer) : Chg r s (primer s p) 0 0 := by
  unfold primer
  simp only
  refine (chg_updMQ r s p (fun q => { q with next := some { (q.next.getD {}) with hasReq := true } }) (fun _ => rfl)
    (fun hq => ⟨hq.1, ?_⟩)).weaken ?_
  · cases hn : (getMQ s p).next with
    | none => exact List.Pairwise.nil
    | some b => have := hq.2; rw [hn] at this; exact this
  · have e1 : ∀ b : Builder, tokB r (some { entries := b.entries, hasReq := true }) = tokB r (some b) := fun _ => rfl
    have e2 : ∀ o : Option Builder, tokB r (some (o.getD {})) = tokB r o := by intro o; cases o <;> rfl
    simp only [mqW, e1, e2]
    omega

-- ------------------------------------------------------------------ publisher
theorem evW_replicate_bs (r : Id) (n : Nat) (id : Id) : evW r (List.replicate n (Event.bs id)) = 0 := by
  induction n with
  | zero => rfl
  | succ n ih => simp only [List.replicate_succ, evW, List.countP_cons] at ih ⊢; simp [ih, outEv]

theorem chg_emitBs (r : Id) (s : State) (n : Nat) (id : Id) :
    Chg r s { s with events := s.events ++ List.replicate n (.bs id) } 0 0 := by
  intro h0
  refine ⟨?_, ?_, h0⟩
  · have := evW_replicate_bs r n id
    simp only [evW] at this
    simp only [Pot, evW, List.countP_append, this]
    exact Nat.le_refl _
  · simp only [regs, List.countP_append]
    have : (List.replicate n (Event.bs id)).countP (regEv r) = 0 := by
      induction n with
      | zero => rfl
      | succ n ih => simp [List.replicate_succ, List.countP_cons, ih, regEv]
    omega

theorem chg_pubStep (r : Id) {s s' : State} {p : Peer} (h : pubStep s p = some s') : Chg r s s' 0 0 := by
  unfold pubStep at h
  simp only at h
  split at h
  · cases h
  · split at h
    · cases h
    · rename_i st rest hq
      have hset : ∀ (pw : Bool), Chg r s (setMQ s { (getMQ s p) with pubQ := rest, pubWait := pw }) 0
          (if doneStep r st then 1 else 0) := by
        intro pw
        refine (chg_updMQ r s p (fun q => { q with pubQ := rest, pubWait := pw }) (fun _ => rfl) (fun hq => hq)).weaken ?_
        simp only [mqW, hq, tokQ, List.countP_cons]
        omega
      have hset' : Chg r s (setMQ s { (getMQ s p) with pubQ := rest }) 0 (if doneStep r st then 1 else 0) :=
        hset (getMQ s p).pubWait
      cases st with
      | emitBs id n =>
        simp only at h; cases h
        exact (hset'.trans (chg_emitBs r _ n id)).weaken (by omega)
      | emitDone id code =>
        simp only at h; cases h
        refine (hset'.trans (chg_emit r _ (.done id code) rfl)).weaken ?_
        simp only [doneStep, outEv]
        by_cases hr : (id == r) = true <;> simp [hr]
      | emitNerr id =>
        simp only at h; cases h
        exact (hset'.trans (chg_emit_other r _ (.nerr id) rfl rfl)).weaken (by omega)
      | callClose id inc =>
        simp only at h; cases h
        exact ((hset true).trans (chg_sendMsg r _ (.closeNetErr id inc p))).weaken (by simp [msgW])
      | callTerminate id inc =>
        simp only at h; cases h
        exact ((hset true).trans (chg_sendMsg r _ (.terminate id inc p))).weaken (by simp [msgW])

-- ------------------------------------------------------------------ task queue, environment
theorem msgW_addWorker (r : Id) (ws : List Worker) (x : Worker) (m : Msg) : msgW r (ws ++ [x]) m ≤ msgW r ws m := by
  cases m <;> try exact Nat.le_refl _
  rename_i w e
  simp only [msgW]
  by_cases hw : w < ws.length
  · rw [List.getElem?_append_left hw]; exact Nat.le_refl _
  · have : ws[w]? = none := List.getElem?_eq_none (by omega)
    rw [this]
    simp only [Option.all_none, if_true]
    split <;> omega

theorem mbSum_addWorker (r : Id) (ws : List Worker) (x : Worker) (mb : List Msg) :
    mbSum r (ws ++ [x]) mb ≤ mbSum r ws mb := by
  induction mb with
  | nil => exact Nat.le_refl _
  | cons m mb ih =>
    have := msgW_addWorker r ws x m
    simp only [mbSum, List.map_cons, List.sum_cons] at ih ⊢
    omega

theorem chg_addWorker (r : Id) (s : State) (x : Worker) (hx : phW x.phase = 0) :
    Chg r s { s with workers := s.workers ++ [x] } 0 0 := by
  intro h0
  refine ⟨?_, rfl, h0⟩
  have := mbSum_addWorker r s.workers x s.mailbox
  simp only [Pot, wkSum, List.map_append, List.sum_append, List.map_cons, List.map_nil, List.sum_cons, List.sum_nil,
    wkW, hx]
  show _ + entW r s + _ + _ + _ + _ + 0 ≤ _
  simp only [ite_self]
  omega

theorem chg_popTask (r : Id) {s s' : State} {p : Peer} {id : Id} (h : popTask s p id = some s') : Chg r s s' 0 0 := by
  unfold popTask at h
  simp only at h
  split at h
  · cases h
    refine (((chg_field (s' := setQ s _) rfl rfl rfl rfl rfl rfl).trans (chg_addWorker r _ _ rfl)).trans
      (chg_sendMsg r _ _)).weaken ?_
    simp [msgW]
  · cases h

theorem chg_reap (r : Id) {s s' : State} {p : Peer} (h : reap s p = some s') : Chg r s s' 0 0 := by
  unfold reap at h
  split at h
  · split at h
    · cases h; exact chg_field rfl rfl rfl rfl rfl rfl
    · cases h
  · cases h

theorem chg_thawAll (r : Id) (s : State) : Chg r s (thawAll s) 0 0 := chg_field rfl rfl rfl rfl rfl rfl

theorem chg_recv (r : Id) (s : State) (p : Peer) (q : ReqMsg) (seen : List Id) :
    Chg r s (sendMsg { s with seenIds := seen } (.processRequests p q)) 0 0 := by
  have h1 : Chg r s { s with seenIds := seen } 0 0 := chg_field rfl rfl rfl rfl rfl rfl
  exact (h1.trans (chg_sendMsg r _ _)).weaken (by simp [msgW])

theorem chg_api (r : Id) (s : State) (c : ApiCall) : Chg r s (sendMsg s (.api c)) 0 0 :=
  (chg_sendMsg r s _).weaken (by simp [msgW])

end GS.RespLife
