import GS.Model.PauseResume
import GSProofs.Lemmas.RequestorLocal
/-!
Lemmas for the requestor side of C06:

* `exchange_inv`: in every history, a paused request's loader is offline;
* `local_pause_resume`: the requestor's own store covers the traversal.
-/
namespace GS.C06
open GS.Loader GS.Requestor GS.PauseResume

/-! ### paused ⇒ offline -/

def PInv (s : PState) : Prop := s.paused = true → s.R.L.isOpen = false

theorem stopForPause_inv (s : PState) : PInv (stopForPause s).1 := by
  intro _
  unfold stopForPause Loader.setOnline
  simp

theorem pauseCheck_paused (s : PState) (b : Bool) : (pauseCheck s b).2.paused = s.paused := rfl

theorem afterLoad_inv (s : PState) (hnp : s.paused = false) (b : Bool) (cont : PState → PState × List Ev)
    (hc : ∀ s', s'.paused = false → PInv (cont s').1) : PInv (afterLoad s b cont).1 := by
  unfold afterLoad
  cases hpc : pauseCheck s b with
  | mk p s1 =>
    have hs1 : s1.paused = false := by
      have := pauseCheck_paused s b
      rw [hpc] at this
      rw [this]; exact hnp
    cases p with
    | true => exact stopForPause_inv _
    | false => exact hc s1 hs1

theorem afterResult_inv (s : PState) (hnp : s.paused = false) (n : LNode) (rest : LT) (res : Result)
    (ev1 : List Ev) (cont : PState → PState × List Ev)
    (hc : ∀ s', s'.paused = false → PInv (cont s').1) : PInv (afterResult s n rest res ev1 cont).1 := by
  unfold afterResult
  cases hew : endsWith s n res with
  | some ee =>
    obtain ⟨e', e⟩ := ee
    simp only
    cases hpc : pauseCheck s false with
    | mk p s1 =>
      cases p with
      | true => exact stopForPause_inv _
      | false =>
        have hs1 : s1.paused = false := by
          have := pauseCheck_paused s false
          rw [hpc] at this
          rw [this]; exact hnp
        intro hp
        simp [hs1] at hp
  | none =>
    simp only
    cases hh : handle s.R n rest res with
    | mk r2 rest2 =>
      obtain ⟨evs, go⟩ := rest2
      cases go with
      | true =>
        simp only
        exact afterLoad_inv { s with R := r2 } hnp _ _ hc
      | false => intro hp; simp [hnp] at hp

theorem driveP_inv : ∀ (fuel : Nat) (s : PState), PInv s → PInv (driveP fuel s).1 := by
  intro fuel
  induction fuel with
  | zero => intro s h; exact h
  | succ fuel ih =>
    intro s h
    rw [driveP]
    by_cases hg : (s.R.phase != Phase.running || s.paused) = true
    · rw [if_pos hg]; exact h
    · rw [if_neg hg]
      have hnp : s.paused = false := by
        cases hp : s.paused with
        | false => rfl
        | true => simp [hp] at hg
      cases hpe : s.pendingErr with
      | some e' => intro hp; simp [hnp] at hp
      | none =>
        simp only
        cases htodo : s.R.todo with
        | nil => intro hp; simp [hnp] at hp
        | cons n rest =>
          simp only
          cases hln : loadNode s.R n with
          | mk r1 rest1 =>
            obtain ⟨ev1, ores⟩ := rest1
            cases ores with
            | none => intro hp; simp [hnp] at hp
            | some res =>
              simp only
              refine afterResult_inv _ ?_ _ _ _ _ _ (fun s' hs' => ih s' (fun hp => by simp [hs'] at hp))
              exact hnp

theorem applyStatus_offline (r : Requestor.State) (st : Nat) (h : r.L.isOpen = false) :
    (applyStatus r st).L.isOpen = false := by
  unfold applyStatus
  split
  · split <;> simp [Loader.setOnline]
  · exact h

theorem ingest_isOpen (l : Loader.State) (md : List (Cid × Action)) (bl : List (Cid × Blk)) :
    (Loader.ingest l md bl).isOpen = l.isOpen := by
  unfold Loader.ingest
  split
  · rfl
  · split <;> rfl

theorem resumeP_inv (s : PState) (hnp : s.paused = false) : PInv (resumeP s).1 := by
  unfold resumeP
  cases hw : Loader.wake s.R.L with
  | mk l1 ores =>
    cases ores with
    | none => intro hp; simp [hnp] at hp
    | some r =>
      cases htodo : s.R.todo with
      | nil => intro hp; simp [hnp] at hp
      | cons n rest =>
        simp only
        exact afterResult_inv { s with R := { s.R with L := l1 } } hnp _ _ _ _ _
          (fun s' hs' => driveP_inv _ s' (fun hp => by simp [hs'] at hp))

theorem step_inv (s : PState) (o : PauseResume.Op) (h : PInv s) : PInv (PauseResume.step s o).1 := by
  cases o with
  | pause =>
    unfold PauseResume.step pauseApi
    simp only
    split
    · exact h
    · exact h
  | unpause =>
    unfold PauseResume.step PauseResume.unpause
    simp only
    split
    · exact h
    · exact driveP_inv _ _ (fun hp => by simp at hp)
  | msg m =>
    unfold PauseResume.step deliver
    simp only
    split
    · exact h
    · split
      · rename_i hp
        split
        · intro hp'; simp at hp'
        · intro _
          simp only
          apply applyStatus_offline
          simp only
          rw [ingest_isOpen]
          exact h hp
      · rename_i hp
        exact resumeP_inv _ (by simpa using hp)

theorem run_inv : ∀ (ops : List PauseResume.Op) (s : PState), PInv s → PInv (PauseResume.run s ops).1 := by
  intro ops
  induction ops with
  | nil => intro s h; exact h
  | cons o rest ih =>
    intro s h
    simp only [PauseResume.run]
    exact ih _ (step_inv s o h)

theorem exchange_inv (st : List (Cid × Blk)) (lt : LT) (u : Nat) (hookAt : List Nat) (ops : List PauseResume.Op) :
    PInv (PauseResume.exchange st lt u hookAt ops).1 := by
  unfold PauseResume.exchange
  simp only
  apply run_inv
  unfold PauseResume.request
  exact driveP_inv _ _ (fun hp => by simp at hp)

/-! ### projections of event lists -/

theorem blocksOf_append (a b : List Ev) : PauseResume.blocksOf (a ++ b) = PauseResume.blocksOf a ++ PauseResume.blocksOf b := by
  simp [PauseResume.blocksOf, List.filterMap_append]

theorem missingOf_append (a b : List Ev) : missingOf (a ++ b) = missingOf a ++ missingOf b := by
  simp [missingOf, List.filterMap_append]

theorem hardErrs_append (a b : List Ev) : hardErrs (a ++ b) = hardErrs a ++ hardErrs b := by
  simp [hardErrs, List.filterMap_append]

theorem foldl_add (l : List Nat) (a : Nat) : l.foldl (· + ·) a = a + l.foldl (· + ·) 0 := by
  induction l generalizing a with
  | nil => simp
  | cons x rest ih => simp only [List.foldl_cons]; rw [ih (a + x), ih (0 + x)]; omega

theorem delivered_append (a b : List Ev) : delivered (a ++ b) = delivered a + delivered b := by
  simp only [delivered, List.filterMap_append, List.foldl_append]
  rw [foldl_add]

/-- nodes delivered while the blocks `pre` are traversed -/
def visits (pre : List LNode) : Nat := (pre.map (·.vData)).foldl (· + ·) 0

theorem visits_cons (n : LNode) (pre : List LNode) : visits (n :: pre) = n.vData + visits pre := by
  simp only [visits, List.map_cons, List.foldl_cons]
  rw [foldl_add]; omega

theorem visits_append (a b : List LNode) : visits (a ++ b) = visits a + visits b := by
  induction a with
  | nil => simp [visits]
  | cons n rest ih => simp only [List.cons_append, visits_cons, ih]; omega

theorem localEvs_proj (pre : List LNode) (k : Nat) :
    PauseResume.blocksOf (localEvs pre k) = pre.map (fun n => (n.cid, n.path)) ∧
    missingOf (localEvs pre k) = [] ∧ hardErrs (localEvs pre k) = [] ∧
    delivered (localEvs pre k) = visits pre := by
  induction pre generalizing k with
  | nil => simp [localEvs, PauseResume.blocksOf, missingOf, hardErrs, delivered, visits]
  | cons n rest ih =>
    obtain ⟨h1, h2, h3, h4⟩ := ih (k + 1)
    refine ⟨?_, ?_, ?_, ?_⟩
    · simp only [localEvs, PauseResume.blocksOf, List.filterMap_cons, List.map_cons]
      simp only [PauseResume.blocksOf] at h1
      rw [h1]
    · simp only [localEvs, missingOf, List.filterMap_cons]
      simp only [missingOf] at h2
      rw [h2]
    · simp only [localEvs, hardErrs, List.filterMap_cons]
      simp only [hardErrs] at h3
      rw [h3]
    · have : localEvs (n :: rest) k = [Ev.block n.cid n.path true (k + 1), Ev.prog n.vData] ++ localEvs rest (k + 1) := rfl
      rw [this, delivered_append, h4, visits_cons]
      simp [delivered]

/-! ### the local traversal with pauses -/

/-- what stays fixed during a purely local PauseResume.exchange -/
structure LocalP (s : PState) (st : List (Cid × Blk)) (hookAt : List Nat) : Prop where
  off     : Offline s.R.L
  store   : s.R.L.store = st
  noTerm  : s.R.terminalErr = none
  noTok   : s.pauseTok = false
  hooks   : s.hookAt = hookAt
  noPend  : s.pendingErr = none

theorem handle_local (r : Requestor.State) (n : LNode) (rest : LT) (b : Blk) :
    handle r n rest { data := some b, err := none, loc := true } =
      ({ r with todo := rest, nBlocks := r.nBlocks + 1 },
        [Ev.block n.cid n.path true (r.nBlocks + 1), Ev.prog n.vData], true) := by
  simp [handle, writeEvs]

/-- one iteration of the executor over a locally held block -/
theorem driveP_node_local (st : List (Cid × Blk)) (hookAt : List Nat) (n : LNode) (rest : LT) (s : PState)
    (fuel : Nat) (htodo : s.R.todo = n :: rest) (hrun : s.R.phase = .running) (hnp : s.paused = false)
    (hl : LocalP s st hookAt) (hhas : has st n = true) :
    ∃ l1, Offline l1 ∧ l1.store = st ∧
      driveP (fuel + 1) s =
        (if hookAt.contains (s.R.nBlocks + 1) then
          ((stopForPause { s with R := { s.R with L := l1, todo := rest, nBlocks := s.R.nBlocks + 1 }, pauseTok := false }).1,
            [Ev.block n.cid n.path true (s.R.nBlocks + 1), Ev.prog n.vData] ++ [Ev.sentCancel])
        else
          ((driveP fuel { s with R := { s.R with L := l1, todo := rest, nBlocks := s.R.nBlocks + 1 }, pauseTok := false }).1,
            [Ev.block n.cid n.path true (s.R.nBlocks + 1), Ev.prog n.vData] ++
              (driveP fuel { s with R := { s.R with L := l1, todo := rest, nBlocks := s.R.nBlocks + 1 }, pauseTok := false }).2)) := by
  obtain ⟨l1, b, hln, hoff1, hst1⟩ := loadNode_local s.R n hl.off (by rw [hl.store]; exact hhas)
  refine ⟨l1, hoff1, by rw [hst1, hl.store], ?_⟩
  rw [driveP]
  have hg : (s.R.phase != Phase.running || s.paused) = false := by simp [hrun, hnp]
  rw [if_neg (by simp [hg])]
  rw [hl.noPend]
  simp only
  rw [htodo]
  simp only
  rw [hln]
  simp only
  have hew : ∀ (x : PState), endsWith x n { data := some b, err := none, loc := true } = none := by
    intro x; unfold endsWith; split <;> rfl
  unfold afterResult
  rw [hew]
  simp only
  rw [handle_local]
  simp only [List.nil_append, afterLoad, pauseCheck, Option.isNone_none, Bool.true_and, hl.noTok, Bool.or_false,
    hl.hooks]
  cases hh : hookAt.contains (s.R.nBlocks + 1) with
  | true => simp [stopForPause]
  | false => simp

/-- running the executor over a locally held cursor: it stops paused after a non-empty segment whose
    last block index is a hook-pause index, or finishes -/
theorem driveP_local (st : List (Cid × Blk)) (hookAt : List Nat) :
    ∀ (rest : LT) (s : PState) (fuel : Nat),
      s.R.todo = rest → s.R.phase = .running → s.paused = false → LocalP s st hookAt →
      (∀ n ∈ rest, has st n = true) → rest.length + 1 ≤ fuel →
      ∃ pre post, rest = pre ++ post ∧
        (driveP fuel s).1.R.todo = post ∧ (driveP fuel s).1.R.nBlocks = s.R.nBlocks + pre.length ∧
        LocalP (driveP fuel s).1 st hookAt ∧
        (((driveP fuel s).1.paused = true ∧ (driveP fuel s).1.R.phase = .running ∧ pre ≠ [] ∧
            hookAt.contains (s.R.nBlocks + pre.length) = true ∧
            (driveP fuel s).2 = localEvs pre s.R.nBlocks ++ [Ev.sentCancel]) ∨
         ((driveP fuel s).1.paused = false ∧ (driveP fuel s).1.R.phase = .finished ∧ post = [] ∧
            (driveP fuel s).2 = localEvs pre s.R.nBlocks)) := by
  intro rest
  induction rest with
  | nil =>
    intro s fuel htodo hrun hnp hl _ hfuel
    cases fuel with
    | zero => omega
    | succ fuel =>
      have hd : driveP (fuel + 1) s = ({ s with R := (finish s.R).1 }, (finish s.R).2) := by
        rw [driveP]
        have hg : (s.R.phase != Phase.running || s.paused) = false := by simp [hrun, hnp]
        rw [if_neg (by simp [hg]), hl.noPend]
        simp only
        rw [htodo]
      have hf : finish s.R = ({ s.R with phase := .finished, L := Loader.cleanup s.R.L }, []) := by
        unfold finish
        simp [hl.noTerm]
      rw [hd, hf]
      refine ⟨[], [], rfl, htodo, rfl, ⟨⟨hl.off.closed, rfl, hl.off.nopend⟩, hl.store, hl.noTerm, hl.noTok, hl.hooks, hl.noPend⟩,
        Or.inr ⟨hnp, rfl, rfl, rfl⟩⟩
  | cons n rest ih =>
    intro s fuel htodo hrun hnp hl hhas hfuel
    cases fuel with
    | zero => omega
    | succ fuel =>
      obtain ⟨l1, hoff1, hst1, hd⟩ := driveP_node_local st hookAt n rest s fuel htodo hrun hnp hl
        (hhas n (List.mem_cons_self ..))
      rw [hd]
      cases hh : hookAt.contains (s.R.nBlocks + 1) with
      | true =>
        simp only [if_true]
        refine ⟨[n], rest, rfl, rfl, rfl, ⟨⟨rfl, hoff1.empty, hoff1.nopend⟩, hst1, hl.noTerm, rfl, hl.hooks, hl.noPend⟩,
          Or.inl ⟨rfl, hrun, by simp, hh, rfl⟩⟩
      | false =>
        simp only [Bool.false_eq_true, if_false]
        have hl3 : LocalP { s with R := { s.R with L := l1, todo := rest, nBlocks := s.R.nBlocks + 1 }, pauseTok := false }
            st hookAt := ⟨hoff1, hst1, hl.noTerm, rfl, hl.hooks, hl.noPend⟩
        obtain ⟨pre, post, hpp, htd, hnb, hlp, hcase⟩ := ih
          { s with R := { s.R with L := l1, todo := rest, nBlocks := s.R.nBlocks + 1 }, pauseTok := false } fuel rfl hrun hnp hl3
          (fun m hm => hhas m (List.mem_cons_of_mem _ hm)) (by simp at hfuel; omega)
        refine ⟨n :: pre, post, by rw [hpp]; rfl, htd, ?_, hlp, ?_⟩
        · rw [hnb]; simp only [List.length_cons]; omega
        · cases hcase with
          | inl h =>
            obtain ⟨h1, h2, _, h4, h5⟩ := h
            refine Or.inl ⟨h1, h2, by simp, ?_, ?_⟩
            · have : s.R.nBlocks + (n :: pre).length = s.R.nBlocks + 1 + pre.length := by
                simp only [List.length_cons]; omega
              rw [this]; exact h4
            · rw [h5]; rfl
          | inr h =>
            obtain ⟨h1, h2, h3, h5⟩ := h
            refine Or.inr ⟨h1, h2, h3, ?_⟩
            rw [h5]; rfl

/-- the state of a purely local PauseResume.exchange between two operations: `k` blocks delivered, paused or done -/
structure LocalQ (s : PState) (st : List (Cid × Blk)) (hookAt : List Nat) (lt : LT) (k : Nat) : Prop where
  base   : LocalP s st hookAt
  todo   : s.R.todo = lt.drop k
  nb     : s.R.nBlocks = k
  le     : k ≤ lt.length
  phase  : (s.paused = true ∧ s.R.phase = .running) ∨ (s.paused = false ∧ s.R.phase = .finished ∧ k = lt.length)

/-- what has been reported after `k` blocks -/
structure LocalE (evs : List Ev) (lt : LT) (k : Nat) : Prop where
  blocks  : PauseResume.blocksOf evs = (lt.take k).map (fun n => (n.cid, n.path))
  missing : missingOf evs = []
  hard    : hardErrs evs = []
  news    : sentNews evs = []
  deliv   : delivered evs = visits (lt.take k)

theorem sentNews_localEvs' (pre : List LNode) (k : Nat) : sentNews (localEvs pre k) = [] :=
  sentNews_localEvs pre k

theorem take_drop_split {α} (l : List α) (k : Nat) (pre post : List α) (hd : l.drop k = pre ++ post) :
    l.take (k + pre.length) = l.take k ++ pre := by
  by_cases hk : k ≤ l.length
  · have h1 : l = l.take k ++ (pre ++ post) := by rw [← hd]; simp
    have hl : (l.take k).length = k := by simp [hk]
    calc l.take (k + pre.length) = (l.take k ++ (pre ++ post)).take ((l.take k).length + pre.length) := by rw [← h1, hl]
      _ = l.take k ++ (pre ++ post).take pre.length := List.take_length_add_append _
      _ = l.take k ++ pre := by simp
  · have : l.drop k = [] := by simp; omega
    rw [this] at hd
    have hpre : pre = [] := by
      cases pre with
      | nil => rfl
      | cons _ _ => simp at hd
    subst hpre
    simp

theorem LocalE.extend {evs : List Ev} {lt : LT} {k : Nat} (h : LocalE evs lt k) (pre post : LT)
    (hd : lt.drop k = pre ++ post) (tail : List Ev) (ht : tail = [] ∨ tail = [Ev.sentCancel]) :
    LocalE (evs ++ (localEvs pre k ++ tail)) lt (k + pre.length) := by
  obtain ⟨p1, p2, p3, p4⟩ := localEvs_proj pre k
  have htake : lt.take (k + pre.length) = lt.take k ++ pre := take_drop_split lt k pre post hd
  have htl : PauseResume.blocksOf tail = [] ∧ missingOf tail = [] ∧ hardErrs tail = [] ∧ sentNews tail = [] ∧ delivered tail = 0 := by
    cases ht with
    | inl h => subst h; simp [PauseResume.blocksOf, missingOf, hardErrs, sentNews, delivered]
    | inr h => subst h; simp [PauseResume.blocksOf, missingOf, hardErrs, sentNews, delivered]
  refine ⟨?_, ?_, ?_, ?_, ?_⟩
  · rw [blocksOf_append, blocksOf_append, h.blocks, p1, htl.1, htake]; simp
  · rw [missingOf_append, missingOf_append, h.missing, p2, htl.2.1]; rfl
  · rw [hardErrs_append, hardErrs_append, h.hard, p3, htl.2.2.1]; rfl
  · rw [sentNews_append, sentNews_append, h.news, sentNews_localEvs', htl.2.2.2.1]; rfl
  · rw [delivered_append, delivered_append, h.deliv, p4, htl.2.2.2.2, htake, visits_append]; omega

/-- one Pause / Unpause call in the local PauseResume.exchange -/
theorem step_local (st : List (Cid × Blk)) (hookAt : List Nat) (lt : LT) (hc : ∀ n ∈ lt, has st n = true)
    (s : PState) (k : Nat) (hq : LocalQ s st hookAt lt k) (evs : List Ev) (he : LocalE evs lt k)
    (o : PauseResume.Op) (ho : o = .pause ∨ o = .unpause) :
    ∃ k', k ≤ k' ∧ LocalQ (PauseResume.step s o).1 st hookAt lt k' ∧ LocalE (evs ++ (PauseResume.step s o).2) lt k' := by
  cases ho with
  | inl h =>
    subst h
    refine ⟨k, Nat.le_refl _, ?_, ?_⟩
    · have : (PauseResume.step s .pause).1 = s := by
        unfold PauseResume.step pauseApi
        simp only
        cases hq.phase with
        | inl hp => simp [hp.1]
        | inr hp => simp [hp.2.1]
      rw [this]; exact hq
    · simp only [PauseResume.step, List.append_nil]; exact he
  | inr h =>
    subst h
    cases hq.phase with
    | inr hp =>
      refine ⟨k, Nat.le_refl _, ?_, ?_⟩
      · have : (PauseResume.step s .unpause).1 = s := by
          unfold PauseResume.step PauseResume.unpause
          simp [hp.1]
        rw [this]; exact hq
      · have : (PauseResume.step s .unpause).2 = [] := by
          unfold PauseResume.step PauseResume.unpause
          simp [hp.1]
        rw [this, List.append_nil]; exact he
    | inl hp =>
      have hstep : PauseResume.step s .unpause =
          driveP (fuelFor { s.R with requestSent := false }) { s with paused := false, R := { s.R with requestSent := false } } := by
        unfold PauseResume.step PauseResume.unpause
        simp [hp.1, hp.2]
      rw [hstep]
      let s1 : PState := { s with paused := false, R := { s.R with requestSent := false } }
      have hl1 : LocalP s1 st hookAt := ⟨hq.base.off, hq.base.store, hq.base.noTerm, hq.base.noTok, hq.base.hooks, hq.base.noPend⟩
      obtain ⟨pre, post, hpp, htd, hnb, hlp, hcase⟩ := driveP_local st hookAt (lt.drop k) s1
        (fuelFor { s.R with requestSent := false }) hq.todo hp.2 rfl hl1
        (fun n hn => hc n (List.mem_of_mem_drop hn))
        (by simp [fuelFor, hq.todo])
      have hk' : k + pre.length ≤ lt.length := by
        have := congrArg List.length hpp
        have hle := hq.le
        simp at this
        omega
      have hdrop : lt.drop (k + pre.length) = post := by
        rw [← List.drop_drop, hpp]
        simp
      refine ⟨k + pre.length, Nat.le_add_right _ _, ⟨hlp, by rw [htd, hdrop], by rw [hnb]; simp [s1, hq.nb], hk', ?_⟩, ?_⟩
      · cases hcase with
        | inl h => exact Or.inl ⟨h.1, h.2.1⟩
        | inr h =>
          refine Or.inr ⟨h.1, h.2.1, ?_⟩
          have := congrArg List.length hpp
          rw [h.2.2.1] at this
          simp at this
          omega
      · have hnb1 : s1.R.nBlocks = k := by simp [s1, hq.nb]
        cases hcase with
        | inl h => rw [h.2.2.2.2, hnb1]; exact he.extend pre post hpp _ (Or.inr rfl)
        | inr h =>
          rw [h.2.2.2, hnb1]
          have := he.extend pre post hpp [] (Or.inl rfl)
          simpa using this

theorem run_local (st : List (Cid × Blk)) (hookAt : List Nat) (lt : LT) (hc : ∀ n ∈ lt, has st n = true) :
    ∀ (ops : List PauseResume.Op), (∀ o ∈ ops, o = .pause ∨ o = .unpause) →
      ∀ (s : PState) (k : Nat), LocalQ s st hookAt lt k → ∀ (evs : List Ev), LocalE evs lt k →
      ∃ k', k ≤ k' ∧ LocalQ (PauseResume.run s ops).1 st hookAt lt k' ∧ LocalE (evs ++ (PauseResume.run s ops).2) lt k' := by
  intro ops
  induction ops with
  | nil =>
    intro _ s k hq evs he
    exact ⟨k, Nat.le_refl _, hq, by simpa [PauseResume.run] using he⟩
  | cons o rest ih =>
    intro hops s k hq evs he
    obtain ⟨k1, hk1, hq1, he1⟩ := step_local st hookAt lt hc s k hq evs he o (hops o (List.mem_cons_self ..))
    obtain ⟨k2, hk2, hq2, he2⟩ := ih (fun o' ho' => hops o' (List.mem_cons_of_mem _ ho')) _ k1 hq1 _ he1
    refine ⟨k2, Nat.le_trans hk1 hk2, by simpa [PauseResume.run] using hq2, ?_⟩
    simp only [PauseResume.run]
    rw [← List.append_assoc]
    exact he2

/-- the PauseResume.request itself (NewRequest) in the local PauseResume.exchange -/
theorem request_local (st : List (Cid × Blk)) (hookAt : List Nat) (lt : LT) (u : Nat)
    (hc : ∀ n ∈ lt, has st n = true) :
    let s0 : PState := { R := { L := { store := st } }, hookAt := hookAt }
    ∃ k, LocalQ (PauseResume.request s0 lt u).1 st hookAt lt k ∧ LocalE (PauseResume.request s0 lt u).2 lt k ∧
      (hookAt = [] → k = lt.length) := by
  intro s0
  unfold PauseResume.request
  simp only
  let s1 : PState := { s0 with R := { s0.R with todo := lt, phase := .running, userSkip := u } }
  have hl1 : LocalP s1 st hookAt := ⟨⟨rfl, rfl, rfl⟩, rfl, rfl, rfl, rfl, rfl⟩
  obtain ⟨pre, post, hpp, htd, hnb, hlp, hcase⟩ := driveP_local st hookAt lt s1
    (fuelFor { s0.R with todo := lt, phase := .running, userSkip := u }) rfl rfl rfl hl1 hc (by simp [fuelFor])
  have hlen : pre.length ≤ lt.length := by
    have := congrArg List.length hpp
    simp at this; omega
  have hdrop : lt.drop pre.length = post := by rw [hpp]; simp
  have he0 : LocalE [] lt 0 := ⟨by simp [PauseResume.blocksOf], rfl, rfl, rfl, by simp [delivered, visits]⟩
  refine ⟨pre.length, ⟨hlp, by rw [htd, hdrop], by rw [hnb]; simp [s1, s0], hlen, ?_⟩, ?_, ?_⟩
  · cases hcase with
    | inl h => exact Or.inl ⟨h.1, h.2.1⟩
    | inr h =>
      refine Or.inr ⟨h.1, h.2.1, ?_⟩
      have := congrArg List.length hpp
      rw [h.2.2.1] at this
      simp at this; omega
  · have hnb1 : s1.R.nBlocks = 0 := rfl
    cases hcase with
    | inl h =>
      rw [h.2.2.2.2, hnb1]
      have := he0.extend pre post (by simpa using hpp) _ (Or.inr rfl)
      simpa using this
    | inr h =>
      rw [h.2.2.2, hnb1]
      have := he0.extend pre post (by simpa using hpp) [] (Or.inl rfl)
      simpa using this
  · intro hh
    cases hcase with
    | inl h => rw [hh] at h; simp at h
    | inr h =>
      have := congrArg List.length hpp
      rw [h.2.2.1] at this
      simp at this; omega

theorem local_pause_resume (st : List (Cid × Blk)) (lt : LT) (u : Nat) (hookAt : List Nat)
    (ops : List PauseResume.Op) (hops : ∀ o ∈ ops, o = .pause ∨ o = .unpause) (hc : ∀ n ∈ lt, has st n = true) :
    let res := PauseResume.exchange st lt u hookAt ops
    let base := PauseResume.exchange st lt u [] []
    (∃ k, PauseResume.blocksOf res.2 = (PauseResume.blocksOf base.2).take k) ∧
    missingOf res.2 = [] ∧ hardErrs res.2 = [] ∧ sentNews res.2 = [] ∧
    (res.1.R.phase = .finished →
      PauseResume.blocksOf res.2 = PauseResume.blocksOf base.2 ∧ delivered res.2 = delivered base.2) := by
  intro res base
  -- the uninterrupted PauseResume.exchange delivers everything
  obtain ⟨kb, _, heb, hkb⟩ := request_local st [] lt u hc
  have hkb' := hkb rfl
  subst hkb'
  have hbase : base.2 = (PauseResume.request { R := { L := { store := st } }, hookAt := [] } lt u).2 := by
    simp [base, PauseResume.exchange, PauseResume.run]
  have hbb : PauseResume.blocksOf base.2 = lt.map (fun n => (n.cid, n.path)) := by
    rw [hbase, heb.blocks]; simp
  have hbd : delivered base.2 = visits lt := by
    rw [hbase, heb.deliv]; simp
  -- the paused one
  obtain ⟨k0, hq0, he0, _⟩ := request_local st hookAt lt u hc
  obtain ⟨k, _, hq, he⟩ := run_local st hookAt lt hc ops hops _ k0 hq0 _ he0
  have hres2 : res.2 = (PauseResume.request { R := { L := { store := st } }, hookAt := hookAt } lt u).2 ++
      (PauseResume.run (PauseResume.request { R := { L := { store := st } }, hookAt := hookAt } lt u).1 ops).2 := by
    simp [res, PauseResume.exchange]
  have hres1 : res.1 = (PauseResume.run (PauseResume.request { R := { L := { store := st } }, hookAt := hookAt } lt u).1 ops).1 := by
    simp [res, PauseResume.exchange]
  rw [hres2]
  refine ⟨⟨k, ?_⟩, he.missing, he.hard, he.news, ?_⟩
  · rw [he.blocks, hbb, List.map_take]
  · intro hfin
    rw [hres1] at hfin
    have hk : k = lt.length := by
      cases hq.phase with
      | inl h => rw [h.2] at hfin; cases hfin
      | inr h => exact h.2.2
    rw [he.blocks, he.deliv, hbb, hbd, hk]
    simp

end GS.C06
