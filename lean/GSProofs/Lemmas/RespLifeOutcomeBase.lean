import GSProofs.Lemmas.RespLifeOutcomeDef
/-!
Outcome accounting: what the elementary state updates of the responder model do to the potential.
-/
namespace GS.RespLife

-- ------------------------------------------------------------------ list helpers
theorem mapIdx_set_cons_zero {α : Type} (f : α → α) (a : α) (l : List α) :
    ((a :: l).mapIdx fun i x => if i == 0 then f x else x) = f a :: l := by
  rw [List.mapIdx_cons]
  simp only [beq_self_eq_true, if_true, List.cons.injEq, true_and]
  apply List.ext_getElem?
  intro i
  simp [List.getElem?_mapIdx]

theorem mapIdx_set_cons_succ {α : Type} (f : α → α) (a : α) (l : List α) (w : Nat) :
    ((a :: l).mapIdx fun i x => if i == w + 1 then f x else x) =
      a :: (l.mapIdx fun i x => if i == w then f x else x) := by
  rw [List.mapIdx_cons]
  simp

theorem sum_mapIdx_set {α : Type} (g : α → Nat) (f : α → α) (l : List α) (w : Nat) :
    ((l.mapIdx fun i x => if i == w then f x else x).map g).sum + ((l[w]?).map g).getD 0 =
      (l.map g).sum + ((l[w]?).map fun x => g (f x)).getD 0 := by
  induction l generalizing w with
  | nil => simp
  | cons a l ih =>
    cases w with
    | zero => rw [mapIdx_set_cons_zero]; simp; omega
    | succ w =>
      rw [mapIdx_set_cons_succ]
      have := ih w
      simp only [List.map_cons, List.sum_cons, List.getElem?_cons_succ]
      omega

-- ------------------------------------------------------------------ events
theorem chg_emit (r : Id) (s : State) (e : Event) (h : regEv r e = false) :
    Chg r s (emit s e) (if outEv r e then 1 else 0) 0 := by
  intro h0
  refine ⟨?_, ?_, h0⟩
  · simp only [Pot, emit, evW, List.countP_append, List.countP_cons, List.countP_nil]
    show _ + entW r s + _ + _ + _ + _ + 0 ≤ _
    omega
  · simp [regs, emit, List.countP_append, h]

theorem chg_emit_other (r : Id) (s : State) (e : Event) (h : regEv r e = false) (h' : outEv r e = false) :
    Chg r s (emit s e) 0 0 := by
  have := chg_emit r s e h
  rw [h'] at this
  exact this

-- ------------------------------------------------------------------ mailbox
theorem chg_sendMsg (r : Id) (s : State) (m : Msg) : Chg r s (sendMsg s m) (msgW r s.workers m) 0 := by
  intro h0
  refine ⟨?_, rfl, h0⟩
  simp only [Pot, sendMsg, mbSum, List.map_append, List.sum_append, List.map_cons, List.map_nil, List.sum_cons,
    List.sum_nil]
  show _ + entW r s + _ + _ + _ + _ + 0 ≤ _
  omega

theorem msgW_nofin (r : Id) (ws : List Worker) (m : Msg) (h : ∀ w e, m ≠ .finishTask w e) : msgW r ws m = 0 := by
  cases m <;> first | rfl | exact absurd rfl (h _ _)

-- ------------------------------------------------------------------ workers
theorem all_id_setWorker (r : Id) (l : List Worker) (w : Nat) (f : Worker → Worker) (hf : ∀ x, (f x).id = x.id)
    (i : Nat) :
    ((l.mapIdx fun j x => if j == w then f x else x)[i]?).all (·.id == r) = (l[i]?).all (·.id == r) := by
  rw [List.getElem?_mapIdx]
  cases l[i]? with
  | none => rfl
  | some x =>
    simp only [Option.map_some, Option.all_some]
    split
    · rw [hf]
    · rfl

theorem mbSum_setWorker (r : Id) (l : List Worker) (w : Nat) (f : Worker → Worker) (hf : ∀ x, (f x).id = x.id)
    (mb : List Msg) :
    mbSum r (l.mapIdx fun j x => if j == w then f x else x) mb = mbSum r l mb := by
  unfold mbSum
  congr 1
  apply List.map_congr_left
  intro m _
  cases m <;> try rfl
  simp only [msgW, all_id_setWorker r l w f hf]

theorem chg_setWorker (r : Id) (s : State) (w : Nat) (f : Worker → Worker) (hf : ∀ x, (f x).id = x.id) :
    Chg r s (setWorker s w f) (((s.workers[w]?).map fun x => wkW r (f x)).getD 0)
      (((s.workers[w]?).map (wkW r)).getD 0) := by
  intro h0
  refine ⟨?_, rfl, h0⟩
  have h1 := sum_mapIdx_set (wkW r) f s.workers w
  have h2 := mbSum_setWorker r s.workers w f hf s.mailbox
  simp only [Pot, setWorker, wkSum, h2]
  show _ + entW r s + _ + _ + _ + _ + _ ≤ _
  omega

theorem chg_setWorker_same (r : Id) (s : State) (w : Nat) (f : Worker → Worker) (hf : ∀ x, (f x).id = x.id)
    (hw : ∀ x, phW (f x).phase = phW x.phase) : Chg r s (setWorker s w f) 0 0 := by
  refine (chg_setWorker r s w f hf).weaken ?_
  cases s.workers[w]? with
  | none => simp
  | some x => simp [wkW, hf, hw]

theorem chg_setPhase (r : Id) (s : State) (w : Nat) (ph : WPhase) {wk : Worker} (h : workerOf s w = some wk) :
    Chg r s (setPhase s w ph) (if wk.id == r then phW ph else 0) (wkW r wk) := by
  have := chg_setWorker r s w (fun x => { x with phase := ph }) (fun _ => rfl)
  unfold workerOf at h
  rw [h] at this
  exact this

theorem chg_setPhase_none (r : Id) (s : State) (w : Nat) (ph : WPhase) (h : workerOf s w = none) :
    Chg r s (setPhase s w ph) 0 0 := by
  have := chg_setWorker r s w (fun x => { x with phase := ph }) (fun _ => rfl)
  unfold workerOf at h
  rw [h] at this
  exact this

-- ------------------------------------------------------------------ table
theorem chg_table {r : Id} {s s' : State} {u d : Nat} (he : s'.events = s.events)
    (hp : s'.park = s.park) (hw : s'.workers = s.workers) (hm : s'.mailbox = s.mailbox) (hq : s'.mqs = s.mqs)
    (hpe : parkErr r s.park = false) (h : stOf r s' + d ≤ stOf r s + u) : Chg r s s' u d := by
  intro h0
  refine ⟨?_, ?_, ?_⟩
  · simp only [Pot, entW, he, hp, hw, hm, hq, hpe]
    simp only [Bool.false_eq_true, if_false]
    omega
  · simp only [regs, he]
  · simpa only [MQN, hq] using h0

theorem chg_table_same {r : Id} {s s' : State} (he : s'.events = s.events)
    (hp : s'.park = s.park) (hw : s'.workers = s.workers) (hm : s'.mailbox = s.mailbox) (hq : s'.mqs = s.mqs)
    (h : stOf r s' = stOf r s) : Chg r s s' 0 0 := by
  intro h0
  refine ⟨?_, ?_, ?_⟩
  · simp only [Pot, entW, he, hp, hw, hm, hq, h]; omega
  · simp only [regs, he]
  · simpa only [MQN, hq] using h0

theorem stOf_modAux (r : Id) (s : State) (id : Id) (f : Aux → Aux) : stOf r (modAux s id f) = stOf r s := by
  unfold stOf
  rw [entOf_modAux]
  split
  · cases entOf s r <;> simp
  · rfl

theorem chg_modAux (r : Id) (s : State) (id : Id) (f : Aux → Aux) : Chg r s (modAux s id f) 0 0 :=
  chg_table_same rfl rfl rfl rfl rfl (stOf_modAux r s id f)

theorem stOf_setState (r : Id) (s : State) (id : Id) (st : RState) :
    stOf r (setState s id st) = if r = id then (if (entOf s r).isSome then stW st else 0) else stOf r s := by
  unfold stOf
  rw [entOf_setState]
  split
  · cases entOf s r <;> simp
  · rfl

theorem stOf_delResp (r : Id) (s : State) (id : Id) :
    stOf r (delResp s id) = if r = id then 0 else stOf r s := by
  unfold stOf
  rw [entOf_delResp]
  split <;> rfl

theorem stOf_insertResp (r : Id) (s : State) (x : Resp) :
    stOf r (insertResp s x) = if r = x.id then stW x.state else stOf r s := by
  unfold stOf
  rw [entOf_insertResp]
  split <;> rfl

theorem stOf_le_one (r : Id) (s : State) : stOf r s ≤ 1 := by
  unfold stOf
  cases entOf s r with
  | none => simp
  | some e => simp only [Option.map_some, Option.getD_some]; cases e.2.1 <;> simp [stW]

-- ------------------------------------------------------------------ message queues
theorem mqW_default (r : Id) (p : Peer) : mqW r { peer := p } = 0 := rfl

theorem getMQ_of_not_any {s : State} {p : Peer} (h : s.mqs.any (·.peer == p) = false) : getMQ s p = { peer := p } := by
  unfold getMQ
  cases hf : s.mqs.find? (·.peer == p) with
  | none => rfl
  | some q =>
    have h1 := List.find?_some hf
    have h2 := List.mem_of_find?_eq_some hf
    have : s.mqs.any (·.peer == p) = true := List.any_eq_true.2 ⟨q, h2, h1⟩
    rw [h] at this; cases this

theorem map_replace_absent (q : PeerMQ) (p : Peer) : ∀ (l : List PeerMQ), p ∉ l.map (·.peer) →
    (l.map fun x => if x.peer == p then q else x) = l ∧ l.find? (·.peer == p) = none := by
  intro l
  induction l with
  | nil => intro _; exact ⟨rfl, rfl⟩
  | cons a l ih =>
    intro h
    simp only [List.map_cons, List.mem_cons, not_or] at h
    have ha : (a.peer == p) = false := by simpa using fun e => h.1 e.symm
    obtain ⟨h1, h2⟩ := ih h.2
    simp only [List.map_cons, ha, Bool.false_eq_true, if_false, h1, List.find?_cons, h2, and_self]

theorem sum_replace (g : PeerMQ → Nat) (q : PeerMQ) (p : Peer) : ∀ (l : List PeerMQ), (l.map (·.peer)).Nodup →
    l.any (·.peer == p) = true →
    ((l.map fun x => if x.peer == p then q else x).map g).sum +
        g ((l.find? (·.peer == p)).getD { peer := p }) = (l.map g).sum + g q := by
  intro l
  induction l with
  | nil => intro _ h; simp at h
  | cons a l ih =>
    intro hn ha
    simp only [List.map_cons, List.nodup_cons] at hn
    by_cases hp : (a.peer == p) = true
    · have hp' : a.peer = p := by simpa using hp
      obtain ⟨h1, _⟩ := map_replace_absent q p l (by rw [← hp']; exact hn.1)
      simp only [List.map_cons, hp, if_true, h1, List.sum_cons, List.find?_cons, Option.getD_some]
      omega
    · have hp' : (a.peer == p) = false := by simpa using hp
      have ha' : l.any (·.peer == p) = true := by simpa [List.any_cons, hp'] using ha
      have := ih hn.2 ha'
      simp only [List.map_cons, hp', Bool.false_eq_true, if_false, List.sum_cons, List.find?_cons]
      omega

theorem peers_replace (q : PeerMQ) : ∀ (l : List PeerMQ),
    (l.map fun x => if x.peer == q.peer then q else x).map (·.peer) = l.map (·.peer) := by
  intro l
  induction l with
  | nil => rfl
  | cons a l ih =>
    simp only [List.map_cons, ih, List.cons.injEq, and_true]
    split
    · rename_i h; exact (by simpa using h : a.peer = q.peer).symm
    · rfl

theorem getMQ_eq_getD (s : State) (p : Peer) : getMQ s p = (s.mqs.find? (·.peer == p)).getD { peer := p } := by
  unfold getMQ
  cases s.mqs.find? (·.peer == p) <;> rfl

theorem Pot_mqs (r : Id) (s : State) (l : List PeerMQ) :
    Pot r { s with mqs := l } =
      evW r s.events + entW r s + parkW r s.park + wkSum r s.workers + mbSum r s.workers s.mailbox + mqSum r l := rfl

theorem Pot_park (r : Id) (s : State) (pk : Option MgrPark) :
    Pot r { s with park := pk } =
      evW r s.events + (if parkErr r pk then 0 else stOf r s) + parkW r pk + wkSum r s.workers +
        mbSum r s.workers s.mailbox + mqSum r s.mqs := rfl

/-- `setMQ`: the record of `q.peer` is replaced by `q` -/
theorem chg_setMQ (r : Id) (s : State) (q : PeerMQ) (hq : MQN s → WFQ q) :
    Chg r s (setMQ s q) (mqW r q) (mqW r (getMQ s q.peer)) := by
  intro h00
  have hq := hq h00
  obtain ⟨h0, hwf⟩ := h00
  unfold setMQ
  by_cases ha : s.mqs.any (·.peer == q.peer) = true
  · simp only [ha, if_true]
    refine ⟨?_, rfl, ?_⟩
    · have := sum_replace (mqW r) q q.peer s.mqs h0 ha
      rw [← getMQ_eq_getD] at this
      show Pot r { s with mqs := _ } + _ ≤ _
      rw [Pot_mqs]
      simp only [Pot, mqSum]
      omega
    · constructor
      · show ((s.mqs.map fun x => if x.peer == q.peer then q else x).map (·.peer)).Nodup
        rw [peers_replace]; exact h0
      · intro x hx
        obtain ⟨y, hy, hye⟩ := List.mem_map.1 hx
        rw [← hye]
        split
        · exact hq
        · exact hwf y hy
  · have ha' : s.mqs.any (·.peer == q.peer) = false := by simpa using ha
    simp only [ha', Bool.false_eq_true, if_false]
    refine ⟨?_, rfl, ?_⟩
    · rw [getMQ_of_not_any ha', mqW_default]
      show Pot r { s with mqs := _ } + _ ≤ _
      rw [Pot_mqs]
      simp only [Pot, mqSum, List.map_append, List.sum_append, List.map_cons, List.map_nil, List.sum_cons, List.sum_nil]
      omega
    · constructor
      · show ((s.mqs ++ [q]).map (·.peer)).Nodup
        rw [List.map_append, List.nodup_append]
        refine ⟨h0, by simp, ?_⟩
        intro a ha1 b hb
        simp only [List.map_cons, List.map_nil, List.mem_singleton] at hb
        subst hb
        intro e; subst e
        obtain ⟨x, hx, hxe⟩ := List.mem_map.1 ha1
        have : s.mqs.any (·.peer == q.peer) = true := List.any_eq_true.2 ⟨x, hx, by simpa using hxe⟩
        rw [ha'] at this; cases this
      · intro x hx
        rcases List.mem_append.1 hx with hx | hx
        · exact hwf x hx
        · simp only [List.mem_singleton] at hx; subst hx; exact hq

theorem chg_setMQ_same (r : Id) (s : State) (q : PeerMQ) (hq : MQN s → WFQ q)
    (h : mqW r q = mqW r (getMQ s q.peer)) :
    Chg r s (setMQ s q) 0 0 := (chg_setMQ r s q hq).weaken (by omega)

theorem wfq_getMQ {s : State} (h : MQN s) (p : Peer) : WFQ (getMQ s p) := by
  unfold getMQ
  cases hf : s.mqs.find? (·.peer == p) with
  | none => exact ⟨trivial, trivial⟩
  | some q => exact h.2 q (List.mem_of_find?_eq_some hf)

theorem getMQ_peer (s : State) (p : Peer) : (getMQ s p).peer = p := by
  unfold getMQ
  cases hf : s.mqs.find? (·.peer == p) with
  | none => rfl
  | some q => simpa using List.find?_some hf

-- ------------------------------------------------------------------ park
theorem chg_parkMgr (r : Id) (s : State) (cont : MgrCont) (p : Peer) (id : Id) (ops : List TxOp) (hp : s.park = none) :
    Chg r s (parkMgr s cont p id ops) (parkW r (some ⟨cont, p, id, ops, false⟩))
      (if parkErr r (some ⟨cont, p, id, ops, false⟩) then stOf r s else 0) := by
  intro h0
  refine ⟨?_, rfl, h0⟩
  show Pot r { s with park := _ } + _ ≤ _
  rw [Pot_park]
  simp only [Pot, entW, hp]
  have e1 : parkErr r none = false := rfl
  have e2 : parkW r none = 0 := rfl
  rw [e1, e2]
  generalize parkErr r (some ⟨cont, p, id, ops, false⟩) = b
  cases b <;> simp <;> omega

/-- the parked manager continues: the park is cleared -/
theorem chg_unpark (r : Id) (s : State) (pk : MgrPark) (hp : s.park = some pk) :
    Chg r s { s with park := none } (if parkErr r (some pk) then stOf r s else 0) (parkW r (some pk)) := by
  intro h0
  refine ⟨?_, rfl, h0⟩
  rw [Pot_park]
  simp only [Pot, entW, hp]
  have e1 : parkErr r none = false := rfl
  have e2 : parkW r none = 0 := rfl
  rw [e1, e2]
  generalize parkErr r (some pk) = b
  cases b <;> simp <;> omega

end GS.RespLife
