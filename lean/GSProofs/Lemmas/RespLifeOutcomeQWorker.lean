import GSProofs.Lemmas.RespLifeOutcomeQDef
/-!
Outcome accounting, part 3: `QS0` for worker segments, the queue goroutine, pops and the environment.
-/
namespace GS.RespLife

theorem qs0_after_modAux {r : Id} {s s' : State} {id : Id} {f : Aux → Aux} (h : QS0 r (modAux s id f) s') :
    QS0 r s s' := (qs0_modAux r s id f).trans h

theorem qs0_sendFinishNow (r : Id) (s : State) (w : Nat) (err : Option WErr) : QS0 r s (sendFinishNow s w err) := by
  unfold sendFinishNow
  exact (qs0_sendMsg r s _).trans (qs0_setPhase r _ w _)

theorem qs0_sendFinish (r : Id) (s : State) (w : Nat) (err : Option WErr) : QS0 r s (sendFinish s w err) := by
  unfold sendFinish
  split
  · exact qs0_setWorker r s w _
  · exact qs0_sendFinishNow r s w err

theorem qs0_executeQuery (r : Id) (s : State) (w : Nat) (wk : Worker) (err : Option WErr) :
    QS0 r s (executeQuery s w wk err) := by
  unfold executeQuery
  split
  · exact qs0_sendFinish r s w _
  · exact qs0_sendFinish r s w _
  · exact qs0_sendFinish r s w _
  · simp only
    have hx := qs0_execTx r s (.worker w) wk.peer wk.id [TxOp.status (finalStatus (lookup s wk.id) err)]
    generalize execTx s (.worker w) wk.peer wk.id [TxOp.status (finalStatus (lookup s wk.id) err)] = pr at hx
    obtain ⟨s1, ok⟩ := pr
    simp only at hx ⊢
    split
    · exact hx.trans (qs0_sendFinish r s1 w err)
    · exact hx.trans (qs0_setPhase r s1 w _)

theorem qs0_loopTop (r : Id) (s : State) (w : Nat) (wk : Worker) : QS0 r s (loopTop s w wk) := by
  unfold loopTop
  split
  · exact qs0_sendFinish r s w _
  · split
    · exact qs0_executeQuery r s w wk _
    · exact qs0_setPhase r s w _

theorem qs0_afterBlock (r : Id) (s : State) (w : Nat) (wk : Worker) (err : Option WErr) :
    QS0 r s (afterBlock s w wk err) := by
  unfold afterBlock
  split
  · exact qs0_executeQuery r s w wk _
  · exact qs0_loopTop r s w wk

theorem qs0_runTx (r : Id) (s : State) (w : Nat) (wk : Worker) (ops : List TxOp) (k : AfterTx) :
    QS0 r s (runTx s w wk ops k) := by
  unfold runTx
  have hx := qs0_execTx r s (.worker w) wk.peer wk.id ops
  generalize execTx s (.worker w) wk.peer wk.id ops = pr at hx
  obtain ⟨s1, ok⟩ := pr
  simp only at hx ⊢
  split
  · cases k with
    | afterBlock err pr => exact hx.trans (qs0_afterBlock r s1 w wk err)
    | afterFinal err => exact hx.trans (qs0_sendFinish r s1 w err)
  · exact hx.trans (qs0_setPhase r s1 w _)

theorem qs0_blockPart (r : Id) (s : State) (w : Nat) (wk : Worker) (ops : List TxOp) (cfu : Option WErr)
    (present : Bool) : QS0 r s (blockPart s w wk ops cfu present) := by
  unfold blockPart
  split
  · exact qs0_sendFinish r s w _
  · rename_i x hl
    simp only
    split
    · exact qs0_after_modAux (qs0_runTx r _ w wk _ _)
    · split
      · exact qs0_after_modAux (qs0_runTx r _ w wk _ _)
      · exact qs0_after_modAux (qs0_runTx r _ w wk _ _)
      · exact qs0_after_modAux (qs0_runTx r _ w wk _ _)
      · exact qs0_after_modAux (qs0_runTx r _ w wk _ _)
      · exact qs0_after_modAux (qs0_setPhase r _ w _)

theorem qs0_checkForUpdates (r : Id) (s : State) (w : Nat) (wk : Worker) (ops : List TxOp) (present : Bool)
    (pick : Nat) : QS0 r s (checkForUpdates s w wk ops present pick) := by
  unfold checkForUpdates
  split
  · exact qs0_sendFinish r s w _
  · rename_i x hl
    simp only
    split
    · exact qs0_blockPart r s w wk ops none present
    · exact qs0_after_modAux (qs0_blockPart r _ w wk _ _ present)
    · exact qs0_after_modAux (qs0_runTx r _ w wk ops _)
    · exact qs0_after_modAux ((qs0_sendMsg r _ (.getUpdates w)).trans (qs0_setPhase r _ w _))


theorem qs0_applyUpdates (r : Id) (s : State) (w : Nat) (wk : Worker) (ups : List UP) (ops : List TxOp)
    (present : Bool) (pick : Nat) : QS0 r s (applyUpdates s w wk ups ops present pick) := by
  induction ups generalizing ops with
  | nil => exact qs0_checkForUpdates r s w wk ops present pick
  | cons u us ih =>
    unfold applyUpdates
    simp only
    split
    · exact qs0_runTx r s w wk _ _
    · exact ih _

theorem qs0_wstep (r : Id) {s s' : State} {w pick : Nat} (h : wstep s w pick = some s') : QS0 r s s' := by
  unfold wstep at h
  split at h
  · cases h
  · rename_i wk hw
    split at h
    · cases h; exact qs0_loopTop r s w wk
    · split at h
      · cases h; exact qs0_sendFinish r s w _
      · rename_i x hl
        cases h
        exact qs0_after_modAux (qs0_checkForUpdates r _ w wk [] _ pick)
    · cases h; exact qs0_applyUpdates r s w wk _ _ _ pick
    · cases h; exact qs0_runTx r s w wk _ _
    · cases h; exact qs0_sendFinishNow r s w _
    · rename_i ops k hph
      have hb := qs0_buildNow r s (.worker w) wk.peer wk.id ops
      cases k with
      | afterBlock err pr =>
        simp only at h; cases h
        exact hb.trans (qs0_afterBlock r _ w wk err)
      | afterFinal err =>
        simp only at h; cases h
        exact hb.trans (qs0_sendFinish r _ w err)
    · cases h

-- ------------------------------------------------------------------ queue goroutine, pops, environment
theorem qs0_extract (r : Id) {s s' : State} {p : Peer} (h : extract s p = some s') : QS0 r s s' := by
  unfold extract at h
  simp only at h
  split at h
  · rename_i b hi hn
    split at h
    · cases h
    · cases h
      refine qs0_updMQ_sub r s p _ ?_ ?_
      · exact getMQ_peer s p
      · intro e he
        rcases he with he | he
        · exact Or.inr (by rw [hn]; exact he)
        · cases he
  · cases h

theorem qs0_primer (r : Id) (s : State) (p : Peer) : QS0 r s (primer s p) := by
  unfold primer
  simp only
  refine qs0_updMQ_sub r s p _ ?_ ?_
  · exact getMQ_peer s p
  · intro e he
    rcases he with he | he
    · exact Or.inl he
    · exact Or.inr (by rw [← bents_getD]; exact he)

theorem qs0_popTask (r : Id) {s s' : State} {p : Peer} {id : Id} (h : popTask s p id = some s') : QS0 r s s' := by
  unfold popTask at h
  simp only at h
  split at h
  · cases h; exact qs0_field rfl rfl rfl
  · cases h

theorem qs0_reap (r : Id) {s s' : State} {p : Peer} (h : reap s p = some s') : QS0 r s s' := by
  unfold reap at h
  split at h
  · split at h
    · cases h; exact qs0_field rfl rfl rfl
    · cases h
  · cases h

theorem qs0_thawAll (r : Id) (s : State) : QS0 r s (thawAll s) := qs0_field rfl rfl rfl

theorem qs0_recv (r : Id) (s : State) (p : Peer) (q : ReqMsg) (seen : List Id) :
    QS0 r s (sendMsg { s with seenIds := seen } (.processRequests p q)) := qs0_field rfl rfl rfl

theorem qs0_api (r : Id) (s : State) (c : ApiCall) : QS0 r s (sendMsg s (.api c)) := qs0_field rfl rfl rfl

end GS.RespLife
