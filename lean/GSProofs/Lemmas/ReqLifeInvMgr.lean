import GSProofs.Lemmas.ReqLifeInvSteps
/-! Preservation of `GS.ReqLife.Inv` by the manager step (`step s .mgr`), message by message, and the
combined `inv_step` / `inv_reachable`. -/
namespace GS.ReqLife
open GS.Generated

/-- cancelOnError on a live request, after the head message (not a task message) has been popped; the
    fields `outbox`, `waiters`, `rq`, `apiLog` play no role in the invariant. -/
theorem inv_cancelOnError {s : State} {m : Msg} {rest : List Msg} {o : List Out} {wt r : Nat} {a : List ApiRes}
    {e : Option Err} (h : Inv s) (hm : s.mphase = .idle) (hl : s.reg = .live) (hb : s.mbox = m :: rest)
    (hg : isGet m = false) (hr : isRel m = false) :
    Inv (cancelOnError { s with mbox := rest, outbox := o, waiters := wt, rq := r, apiLog := a } e) := by
  inv_destruct h
  have hreg := reg_cases s
  have hrs := rstate_cases s
  simp only [cancelOnError, terminate]
  (repeat' split) <;> inv_close

theorem inv_offline {s : State} (h : Inv s) : Inv { s with online := false } := by
  inv_destruct h
  inv_close

theorem inv_mgr_newReq {s : State} {rest : List Msg} (h : Inv s) (hm : s.mphase = .idle)
    (hb : s.mbox = .newReq :: rest) : Inv (handle { s with mbox := rest } .newReq) := by
  inv_destruct h
  have hreg := reg_cases s
  simp only [handle, cancelLive, hookCancel, ingest, procTerminations]
  split <;> inv_close

theorem inv_mgr_pause {s : State} {rest : List Msg} (h : Inv s) (hm : s.mphase = .idle)
    (hb : s.mbox = .pause :: rest) : Inv (handle { s with mbox := rest } .pause) := by
  inv_destruct h
  have hreg := reg_cases s
  simp only [handle, cancelLive, hookCancel, ingest, procTerminations]
  (repeat' split) <;> inv_close

theorem inv_mgr_unpause {s : State} {rest : List Msg} (h : Inv s) (hm : s.mphase = .idle)
    (hb : s.mbox = .unpause :: rest) : Inv (handle { s with mbox := rest } .unpause) := by
  inv_destruct h
  have hreg := reg_cases s
  have hrs := rstate_cases s
  simp only [handle, cancelLive, hookCancel, ingest, procTerminations]
  (repeat' split) <;> inv_close

theorem inv_mgr_getTask {s : State} {rest : List Msg} (h : Inv s) (hm : s.mphase = .idle)
    (hb : s.mbox = .getTask :: rest) : Inv (handle { s with mbox := rest } .getTask) := by
  have hw : s.w = .waitTask := by
    have k1 := h.k1
    rw [hb] at k1; simp only [List.countP_cons, isGet] at k1
    by_cases hw : s.w = .waitTask
    · exact hw
    · simp [hw] at k1
  inv_destruct h
  have hreg := reg_cases s
  simp only [handle, cancelLive, hookCancel, ingest, procTerminations]
  (repeat' split) <;> inv_close

theorem inv_mgr_cancel {s : State} {rest : List Msg} {api : Bool} (h : Inv s) (hm : s.mphase = .idle)
    (hb : s.mbox = .cancel api :: rest) : Inv (handle { s with mbox := rest } (.cancel api)) := by
  by_cases hl : s.reg = .live
  · have : handle { s with mbox := rest } (.cancel api) =
        cancelOnError { s with mbox := rest,
                               outbox := s.outbox ++ [{ kind := .cancel, peer := s.peer }],
                               waiters := (if api then s.waiters + 1 else s.waiters), rq := s.rq, apiLog := s.apiLog }
          (if api then some Err.cc else none) := by
      simp only [handle, cancelLive, hookCancel, ingest, procTerminations, hl]
      cases api <;> simp
    rw [this]
    exact inv_cancelOnError h hm hl hb rfl rfl
  · inv_destruct h
    have hreg := reg_cases s
    simp only [handle, cancelLive, hookCancel, ingest, procTerminations]
    (repeat' split) <;> inv_close

theorem inv_mgr_release (hf1 : ReqLifecycleSpec.releasePauseGuardChecksCtx = true) {s : State} {rest : List Msg}
    {e : RelErr} (h : Inv s) (hm : s.mphase = .idle) (hb : s.mbox = .release e :: rest) :
    Inv (handle { s with mbox := rest } (.release e)) := by
  have hw : s.w = .waitDone := by
    have k2 := h.k2
    rw [hb] at k2; simp only [List.countP_cons, isRel] at k2
    by_cases hw : s.w = .waitDone
    · exact hw
    · simp [hw] at k2
  inv_destruct h
  have hreg := reg_cases s
  have hrs := rstate_cases s
  simp only [handle, cancelLive, hookCancel, ingest, procTerminations, releaseKeepsPaused, terminate, hf1]
  (repeat' split) <;> inv_close

/-- popping a `responses` message that has no effect on the request -/
theorem inv_pop_responses {s : State} {rest : List Msg} {p st it r : Nat} {hk : Bool} (h : Inv s)
    (hm : s.mphase = .idle) (hb : s.mbox = .responses p st it hk :: rest)
    (hx : s.reg ≠ .live ∨ p ≠ s.peer ∨ hk = true ∨ StatusCodes.isTerminal st = false) :
    Inv { s with mbox := rest, rq := r } := by
  inv_destruct h
  have hreg := reg_cases s
  inv_close

/-- a terminal success status of the request's own peer: the loader goes offline -/
theorem inv_pop_success {s : State} {rest : List Msg} {p st it r : Nat} (h : Inv s)
    (hm : s.mphase = .idle) (hb : s.mbox = .responses p st it false :: rest) :
    Inv { s with mbox := rest, rq := r, online := false } := by
  inv_destruct h
  have hreg := reg_cases s
  inv_close

theorem inv_pop_noloader {s : State} {rest : List Msg} {p st it r : Nat} (h : Inv s)
    (hm : s.mphase = .idle) (hb : s.mbox = .responses p st it false :: rest) (hld : s.hasLoader = false) :
    Inv { s with mbox := rest, rq := r } := by
  inv_destruct h
  have hreg := reg_cases s
  inv_close

theorem hookRunsFor_own (x : State) (hl : x.reg = .live) : hookRunsFor x x.peer = true := by
  simp only [hookRunsFor]
  split <;> simp [hl]

theorem inv_mgr_responses {s : State} {rest : List Msg} {p st it : Nat} {hk : Bool} (h : Inv s)
    (hm : s.mphase = .idle) (hb : s.mbox = .responses p st it hk :: rest) :
    Inv (handle { s with mbox := rest } (.responses p st it hk)) := by
  have o2 := h.o2
  simp only [handle, cancelLive, hookCancel, ingest, procTerminations]
  by_cases hl : s.reg = .live
  · have hl1 : (s.reg == .live) = true := by simpa using hl
    have hl2 : (s.reg != .live) = false := by simpa using hl
    by_cases hp : p = s.peer
    · have hp1 : (p == s.peer) = true := by simpa using hp
      cases hk
      · -- own peer, hook ok
        simp only [hl1, hl2, hp1, Bool.and_self, Bool.and_false, Bool.false_eq_true, if_false, ite_self,
          Bool.not_true]
        by_cases hterm : StatusCodes.isTerminal st = true
        · simp only [hterm, if_true]
          by_cases hfail : StatusCodes.isFailure st = true
          · simp only [hfail, if_true]
            split
            · split
              · exact inv_offline (inv_cancelOnError h hm hl hb rfl rfl)
              · exact inv_cancelOnError h hm hl hb rfl rfl
            · split
              · exact inv_offline (inv_cancelOnError h hm hl hb rfl rfl)
              · exact inv_cancelOnError h hm hl hb rfl rfl
          · simp only [hfail, Bool.false_eq_true, if_false]
            (repeat' split) <;> first
              | exact inv_pop_success (s := s) h hm hb
              | exact inv_pop_success (s := s) (r := s.rq) h hm hb
              | exact inv_pop_noloader (s := s) (r := s.rq) h hm hb (by simp_all)
              | (exfalso; simp_all)
        · have hterm' : StatusCodes.isTerminal st = false := by simpa using hterm
          simp only [hterm', Bool.false_eq_true, if_false]
          split
          · exact inv_pop_responses h hm hb (Or.inr (Or.inr (Or.inr hterm')))
          · exact inv_pop_responses (r := s.rq) h hm hb (Or.inr (Or.inr (Or.inr hterm')))
      · -- own peer, hook error: the hook runs (the response is of the tracked request's own peer)
        subst hp
        have hr := hookRunsFor_own { s with mbox := rest } hl
        simp only at hr
        simp only [hr, hl1, hl2, Bool.and_self, ite_self, if_true, Bool.false_eq_true, if_false]
        exact inv_cancelOnError h hm hl hb rfl rfl
    · -- other peer
      have hp1 : (p == s.peer) = false := by simpa using hp
      simp only [hl1, hl2, hp1, Bool.and_false, Bool.false_eq_true, if_false, Bool.not_false, if_true]
      (repeat' split) <;> first
        | exact inv_cancelOnError h hm hl hb rfl rfl
        | exact inv_pop_responses (r := s.rq) h hm hb (Or.inr (Or.inl hp))
  · have hl1 : (s.reg == .live) = false := by simpa using hl
    have hl2 : (s.reg != .live) = true := by simpa using hl
    simp only [hl1, hl2, Bool.false_and, Bool.false_eq_true, if_false, Bool.not_false, if_true, ite_self]
    exact inv_pop_responses (r := s.rq) h hm hb (Or.inl hl)

theorem inv_mgr (hf1 : ReqLifecycleSpec.releasePauseGuardChecksCtx = true) {s s' : State} (h : Inv s)
    (hs : step s .mgr = some s') : Inv s' := by
  simp only [step] at hs
  split at hs
  next m rest hm hb =>
    cases hs
    cases m with
    | newReq => exact inv_mgr_newReq h hm hb
    | cancel api => exact inv_mgr_cancel h hm hb
    | responses p st it hk => exact inv_mgr_responses h hm hb
    | pause => exact inv_mgr_pause h hm hb
    | unpause => exact inv_mgr_unpause h hm hb
    | getTask => exact inv_mgr_getTask h hm hb
    | release e => exact inv_mgr_release hf1 h hm hb
  next => cases hs

/-- **the invariant is inductive** (for the repaired code: both generated guards present). -/
theorem inv_step (hf1 : ReqLifecycleSpec.releasePauseGuardChecksCtx = true)
    (hf2 : ReqLifecycleSpec.goOnlineChecksCtx = true) {s s' : State} {a : Action} (h : Inv s)
    (hs : step s a = some s') : Inv s' := by
  cases a with
  | envNew => exact inv_envNew h hs
  | envCtxCancel => exact inv_envCtxCancel h hs
  | envCancelApi => exact inv_envCancelApi h hs
  | envPause => exact inv_envPause h hs
  | envUnpause => exact inv_envUnpause h hs
  | envResp p st it hk => exact inv_envResp h hs
  | oblUnpause => exact inv_oblUnpause h hs
  | oblAnswer => exact inv_oblAnswer h hs
  | mgr => exact inv_mgr hf1 h hs
  | wPop => exact inv_wPop h hs
  | wGet => exact inv_wGet h hs
  | xTop => exact inv_xTop h hs
  | xConsume c => exact inv_xConsume h hs
  | xWaitRemote d v m => exact inv_xWaitRemote h hs
  | xWaitLocal => exact inv_xWaitLocal h hs
  | xRead hit v m => exact inv_xRead hf2 h hs
  | xHook r => exact inv_xHook h hs
  | xErrCtx => exact inv_xErrCtx h hs
  | xAfterErr o => exact inv_xAfterErr h hs
  | xSendReq => exact inv_xSendReq h hs
  | xFin1 => exact inv_xFin1 h hs
  | xFinCtx => exact inv_xFinCtx h hs
  | ceRecv => exact inv_ceRecv h hs
  | cpDrainE => exact inv_cpDrainE h hs
  | cpRecv => exact inv_cpRecv h hs
  | cpDrainP => exact inv_cpDrainP h hs
  | cpSeeClose => exact inv_cpSeeClose h hs
  | cpDeliver => exact inv_cpDeliver h hs
  | cpExit => exact inv_cpExit h hs
  | cpSeeCtx => exact inv_cpSeeCtx h hs
  | cpSendCancel => exact inv_cpSendCancel h hs
  | cpSeeCloseP => exact inv_cpSeeCloseP h hs
  | cpSeeCloseE => exact inv_cpSeeCloseE h hs
  | cpCancelExit => exact inv_cpCancelExit h hs
  | ceSeeClose => exact inv_ceSeeClose h hs
  | ceDeliver => exact inv_ceDeliver h hs
  | ceExit => exact inv_ceExit h hs
  | ceSeeCtx => exact inv_ceSeeCtx h hs
  | ceDeliverCC => exact inv_ceDeliverCC h hs

theorem inv_reachable (hf1 : ReqLifecycleSpec.releasePauseGuardChecksCtx = true)
    (hf2 : ReqLifecycleSpec.goOnlineChecksCtx = true) {s : State} (h : Reachable s) : Inv s := by
  induction h with
  | init p e t => exact inv_init p e t
  | step _ hs ih => exact inv_step hf1 hf2 ih hs

end GS.ReqLife
