// Command paniccleanup regenerates lean/GS/Generated/PanicCleanup.lean (property C22): what the two
// task executors do AFTER the call of their recovered traversal function has returned an error -
// the clean-up a recovered panic must not skip - and what the traverser's own recover frame does.
//
// usage: go run ./paniccleanup <repo>   (prints the Lean file; exits non-zero on anything unexpected)
//
// For requestmanager/executor and responsemanager/queryexecutor:
//
//   - the RECOVERED function R is the one function of the package whose body is exactly
//     `defer <function that calls recover() directly>; return x.<loop>(…)` - so nothing but the
//     traversal loop runs inside the recover frame and no clean-up call can be skipped by a panic;
//   - R must be called at exactly one place, as `err := x.R(…)` at the top level of a function F1;
//     if F1 is not ExecuteTask, F1 must again be called at exactly one place as `err := x.F1(…)`
//     at the top level of F2, and so on up to ExecuteTask;
//   - for each of these functions, innermost first, the statements FOLLOWING that call are translated
//     into a list of items (act, guards) over a small vocabulary; any other statement, condition or
//     call is syntax the translator does not understand and makes it fail.
//
// Vocabulary.  Guards (conditions of enclosing `if`s): `err != nil`; `!ipldutil.IsContextCancelErr(err)`;
// `!isPausedErr(err)` / `!isPaused`; `isPaused`; `err == ErrNetworkError || ipldutil.IsContextCancelErr(err)`
// (isPaused being bound by `_, isPaused := err.(hooks.ErrPaused)`).  Acts: SendRequest(…NewCancelRequest…) ;
// SetRemoteOnline(false) ; `select { … case x.InProgressErr <- err: }` ; ReleaseRequestTask(…, err) ;
// ClearRequest() ; `return x.Transaction(func(rb){ switch err { case nil: rb.FinishRequest() … default:
// rb.FinishWithError(…) }; return err })` ; FinishTask(…, err) ; `return …`.  Calls on `span` and `log`
// are ignored.
//
// For ipldutil/traverser.go: the deferred function at the top of the traversal goroutine must consist
// of `if err := t.panicHandler(recover()); err != nil { t.writeDone(err) }` and `close(t.stopped)`,
// and writeDone must unlock stateMu.
package main

import (
	"fmt"
	"go/ast"
	"go/parser"
	"go/token"
	"os"
	"path/filepath"
	"sort"
	"strings"
)

var fset = token.NewFileSet()

func die(pos token.Pos, format string, a ...interface{}) {
	where := ""
	if pos.IsValid() {
		where = fset.Position(pos).String() + ": "
	}
	fmt.Fprintf(os.Stderr, "paniccleanup: %s%s\n", where, fmt.Sprintf(format, a...))
	os.Exit(1)
}

func text(e ast.Node) string {
	switch x := e.(type) {
	case *ast.Ident:
		return x.Name
	case *ast.SelectorExpr:
		return text(x.X) + "." + x.Sel.Name
	case *ast.CallExpr:
		var as []string
		for _, a := range x.Args {
			as = append(as, text(a))
		}
		return text(x.Fun) + "(" + strings.Join(as, ",") + ")"
	case *ast.UnaryExpr:
		return x.Op.String() + text(x.X)
	case *ast.BinaryExpr:
		return text(x.X) + x.Op.String() + text(x.Y)
	case *ast.ParenExpr:
		return "(" + text(x.X) + ")"
	case *ast.TypeAssertExpr:
		return text(x.X) + ".(" + text(x.Type) + ")"
	case *ast.BasicLit:
		return x.Value
	case *ast.StarExpr:
		return "*" + text(x.X)
	}
	return "?"
}

func finalName(e ast.Expr) string {
	switch x := e.(type) {
	case *ast.Ident:
		return x.Name
	case *ast.SelectorExpr:
		return x.Sel.Name
	}
	return ""
}

type pkg struct {
	dir   string
	funcs []*ast.FuncDecl
}

func loadPkg(repo, dir string) *pkg {
	p := &pkg{dir: dir}
	ents, err := os.ReadDir(filepath.Join(repo, dir))
	if err != nil {
		die(token.NoPos, "%v", err)
	}
	var names []string
	for _, e := range ents {
		if strings.HasSuffix(e.Name(), ".go") && !strings.HasSuffix(e.Name(), "_test.go") {
			names = append(names, e.Name())
		}
	}
	sort.Strings(names)
	for _, n := range names {
		f, err := parser.ParseFile(fset, filepath.Join(repo, dir, n), nil, parser.SkipObjectResolution)
		if err != nil {
			die(token.NoPos, "parse: %v", err)
		}
		for _, d := range f.Decls {
			if fd, ok := d.(*ast.FuncDecl); ok && fd.Body != nil {
				p.funcs = append(p.funcs, fd)
			}
		}
	}
	return p
}

func directRecover(body *ast.BlockStmt) bool {
	found := false
	ast.Inspect(body, func(n ast.Node) bool {
		switch x := n.(type) {
		case *ast.FuncLit:
			return false
		case *ast.CallExpr:
			if id, ok := x.Fun.(*ast.Ident); ok && id.Name == "recover" && len(x.Args) == 0 {
				found = true
			}
		}
		return true
	})
	return found
}

// isRecoverDefer: `defer func(){ … recover() … }()` or `defer helper(…)` with helper calling recover() directly
func (p *pkg) isRecoverDefer(st ast.Stmt) bool {
	ds, ok := st.(*ast.DeferStmt)
	if !ok {
		return false
	}
	if fl, ok := ds.Call.Fun.(*ast.FuncLit); ok {
		return directRecover(fl.Body)
	}
	name := finalName(ds.Call.Fun)
	for _, fd := range p.funcs {
		if fd.Name.Name == name && directRecover(fd.Body) {
			return true
		}
	}
	return false
}

// recoveredFunc: the one function whose body is `defer <recover>; return x.loop(…)`
func (p *pkg) recoveredFunc() *ast.FuncDecl {
	var found []*ast.FuncDecl
	for _, fd := range p.funcs {
		hasRecoverDefer := false
		for _, st := range fd.Body.List {
			if p.isRecoverDefer(st) {
				hasRecoverDefer = true
			}
		}
		if !hasRecoverDefer {
			continue
		}
		if len(fd.Body.List) != 2 || !p.isRecoverDefer(fd.Body.List[0]) {
			die(fd.Pos(), "%s has a recover frame but is not of the form `defer <recover>; return x.f(…)`: clean-up code may now run inside the recover frame and be skipped by a panic", fd.Name.Name)
		}
		rs, ok := fd.Body.List[1].(*ast.ReturnStmt)
		if !ok || len(rs.Results) != 1 {
			die(fd.Pos(), "%s: second statement must be `return x.f(…)`", fd.Name.Name)
		}
		if _, ok := rs.Results[0].(*ast.CallExpr); !ok {
			die(fd.Pos(), "%s: second statement must be `return x.f(…)`", fd.Name.Name)
		}
		found = append(found, fd)
	}
	if len(found) != 1 {
		die(token.NoPos, "package %s: expected exactly one function with a recover frame, found %d", p.dir, len(found))
	}
	return found[0]
}

type item struct {
	act    string
	guards []string
}

type translator struct {
	p        *pkg
	errVar   string
	pausedOK map[string]bool // variables bound by `_, v := err.(hooks.ErrPaused)`
}

func (t *translator) guard(cond ast.Expr) string {
	c := strings.ReplaceAll(text(cond), " ", "")
	e := t.errVar
	switch {
	case c == e+"!=nil":
		return "errNonNil"
	case c == "!ipldutil.IsContextCancelErr("+e+")":
		return "notCancel"
	case c == "!isPausedErr("+e+")":
		return "notPaused"
	case c == e+"==ErrNetworkError||ipldutil.IsContextCancelErr("+e+")", c == "ipldutil.IsContextCancelErr("+e+")||"+e+"==ErrNetworkError":
		return "netOrCancel"
	}
	if id, ok := cond.(*ast.Ident); ok && t.pausedOK[id.Name] {
		return "isPaused"
	}
	if u, ok := cond.(*ast.UnaryExpr); ok && u.Op == token.NOT {
		if id, ok := u.X.(*ast.Ident); ok && t.pausedOK[id.Name] {
			return "notPaused"
		}
	}
	die(cond.Pos(), "condition `%s` is not part of the clean-up vocabulary", text(cond))
	return ""
}

// pausedBinding: `_, v := err.(hooks.ErrPaused)`
func (t *translator) pausedBinding(st ast.Stmt) bool {
	as, ok := st.(*ast.AssignStmt)
	if !ok || len(as.Lhs) != 2 || len(as.Rhs) != 1 {
		return false
	}
	ta, ok := as.Rhs[0].(*ast.TypeAssertExpr)
	if !ok || text(ta.X) != t.errVar || !strings.HasSuffix(text(ta.Type), "ErrPaused") {
		return false
	}
	if id, ok := as.Lhs[0].(*ast.Ident); !ok || id.Name != "_" {
		return false
	}
	id, ok := as.Lhs[1].(*ast.Ident)
	if !ok {
		return false
	}
	t.pausedOK[id.Name] = true
	return true
}

func ignorable(call *ast.CallExpr) bool {
	s := text(call.Fun)
	return strings.HasPrefix(s, "span.") || strings.HasPrefix(s, "log.")
}

func (t *translator) closing(call *ast.CallExpr) bool {
	// x.Transaction(func(rb …) error { switch err { case …: rb.FinishRequest()/rb.FinishWithError(…) … default: rb.FinishWithError(…) }; return err })
	if finalName(call.Fun) != "Transaction" || len(call.Args) != 1 {
		return false
	}
	fl, ok := call.Args[0].(*ast.FuncLit)
	if !ok || len(fl.Body.List) != 2 {
		die(call.Pos(), "closing transaction: unknown shape")
	}
	sw, ok := fl.Body.List[0].(*ast.SwitchStmt)
	if !ok || sw.Init != nil || text(sw.Tag) != t.errVar {
		die(call.Pos(), "closing transaction must `switch %s`", t.errVar)
	}
	hasDefault := false
	for _, c := range sw.Body.List {
		cc := c.(*ast.CaseClause)
		if len(cc.Body) != 1 {
			die(cc.Pos(), "closing transaction: each case must be a single Finish… call")
		}
		es, ok := cc.Body[0].(*ast.ExprStmt)
		if !ok {
			die(cc.Pos(), "closing transaction: each case must be a single Finish… call")
		}
		ce, ok := es.X.(*ast.CallExpr)
		if !ok {
			die(cc.Pos(), "closing transaction: each case must be a single Finish… call")
		}
		name := finalName(ce.Fun)
		if cc.List == nil {
			hasDefault = true
			if name != "FinishWithError" {
				die(cc.Pos(), "closing transaction: the default case (any other error, e.g. a recovered panic) must call FinishWithError")
			}
		} else if name != "FinishRequest" && name != "FinishWithError" {
			die(cc.Pos(), "closing transaction: unknown call %s", name)
		}
	}
	if !hasDefault {
		die(sw.Pos(), "closing transaction: no default case: an unknown error (a recovered panic) would not finish the response")
	}
	rs, ok := fl.Body.List[1].(*ast.ReturnStmt)
	if !ok || len(rs.Results) != 1 || text(rs.Results[0]) != t.errVar {
		die(fl.Body.List[1].Pos(), "closing transaction must end with `return %s`", t.errVar)
	}
	return true
}

func (t *translator) stmts(list []ast.Stmt, guards []string) []item {
	var out []item
	add := func(act string) { out = append(out, item{act, append([]string(nil), guards...)}) }
	for _, st := range list {
		switch s := st.(type) {
		case *ast.IfStmt:
			if s.Else != nil {
				die(s.Pos(), "`else` is not part of the clean-up vocabulary")
			}
			if s.Init != nil && !t.pausedBinding(s.Init) {
				die(s.Init.Pos(), "unknown initialiser in if statement")
			}
			g := t.guard(s.Cond)
			out = append(out, t.stmts(s.Body.List, append(append([]string(nil), guards...), g))...)
		case *ast.AssignStmt:
			if !t.pausedBinding(s) {
				die(s.Pos(), "assignment `%s …` is not part of the clean-up vocabulary", text(s.Lhs[0]))
			}
		case *ast.ExprStmt:
			call, ok := s.X.(*ast.CallExpr)
			if !ok {
				die(s.Pos(), "unknown expression statement")
			}
			if ignorable(call) {
				continue
			}
			switch finalName(call.Fun) {
			case "SendRequest":
				if !strings.Contains(text(call), "NewCancelRequest(") {
					die(call.Pos(), "SendRequest after the traversal must send a cancel request")
				}
				add("sendCancel")
			case "SetRemoteOnline":
				if len(call.Args) != 1 || text(call.Args[0]) != "false" {
					die(call.Pos(), "SetRemoteOnline after the traversal must be SetRemoteOnline(false)")
				}
				add("setOffline")
			case "ReleaseRequestTask":
				if len(call.Args) != 3 || text(call.Args[2]) != t.errVar {
					die(call.Pos(), "ReleaseRequestTask must be handed %s", t.errVar)
				}
				add("releaseTask")
			case "FinishTask":
				if len(call.Args) != 3 || text(call.Args[2]) != t.errVar {
					die(call.Pos(), "FinishTask must be handed %s", t.errVar)
				}
				add("finishTask")
			case "ClearRequest":
				add("clearRequest")
			default:
				die(call.Pos(), "call `%s` is not part of the clean-up vocabulary", text(call.Fun))
			}
		case *ast.SelectStmt:
			sent := false
			for _, c := range s.Body.List {
				cc := c.(*ast.CommClause)
				if len(cc.Body) != 0 {
					die(cc.Pos(), "select clauses after the traversal must be empty")
				}
				switch cm := cc.Comm.(type) {
				case *ast.SendStmt:
					if !strings.HasSuffix(text(cm.Chan), ".InProgressErr") || text(cm.Value) != t.errVar {
						die(cm.Pos(), "unknown send in select")
					}
					sent = true
				case *ast.ExprStmt:
					if !strings.HasSuffix(text(cm.X), ".Done()") {
						die(cm.Pos(), "unknown receive in select")
					}
				default:
					die(cc.Pos(), "unknown select clause")
				}
			}
			if !sent {
				die(s.Pos(), "select without `InProgressErr <- %s`", t.errVar)
			}
			add("deliverErr")
		case *ast.ReturnStmt:
			if len(s.Results) == 1 {
				if call, ok := s.Results[0].(*ast.CallExpr); ok {
					if !t.closing(call) {
						die(s.Pos(), "unknown call in return statement")
					}
					add("closeResponse")
				}
			}
			add("ret")
		default:
			die(st.Pos(), "statement kind %T is not part of the clean-up vocabulary", st)
		}
	}
	return out
}

// tailAfterCall: find the single call `err := x.<callee>(…)` at the top level of some function of
// the package and translate the statements following it.
func (p *pkg) tailAfterCall(callee string) (*ast.FuncDecl, []item) {
	type hit struct {
		fd  *ast.FuncDecl
		idx int
		err string
	}
	var hits []hit
	total := 0
	for _, fd := range p.funcs {
		ast.Inspect(fd.Body, func(n ast.Node) bool {
			if c, ok := n.(*ast.CallExpr); ok && finalName(c.Fun) == callee {
				total++
			}
			return true
		})
		for i, st := range fd.Body.List {
			as, ok := st.(*ast.AssignStmt)
			if !ok || len(as.Lhs) != 1 || len(as.Rhs) != 1 {
				continue
			}
			c, ok := as.Rhs[0].(*ast.CallExpr)
			if ok && finalName(c.Fun) == callee {
				hits = append(hits, hit{fd, i, text(as.Lhs[0])})
			}
		}
	}
	if len(hits) != 1 || total != 1 {
		die(token.NoPos, "package %s: expected exactly one call of %s, of the form `err := x.%s(…)` at the top level of a function (found %d calls, %d of that form)", p.dir, callee, callee, total, len(hits))
	}
	h := hits[0]
	t := &translator{p: p, errVar: h.err, pausedOK: map[string]bool{}}
	return h.fd, t.stmts(h.fd.Body.List[h.idx+1:], nil)
}

func levels(repo, dir string) [][]item {
	p := loadPkg(repo, dir)
	r := p.recoveredFunc()
	var out [][]item
	name := r.Name.Name
	for depth := 0; ; depth++ {
		if depth > 4 {
			die(token.NoPos, "package %s: call chain from the recovered function to ExecuteTask too long", dir)
		}
		fd, items := p.tailAfterCall(name)
		out = append(out, items)
		if fd.Name.Name == "ExecuteTask" {
			return out
		}
		name = fd.Name.Name
	}
}

func travFrame(repo string) []string {
	p := loadPkg(repo, "ipldutil")
	var start, writeDone *ast.FuncDecl
	for _, fd := range p.funcs {
		if fd.Recv != nil && fd.Name.Name == "start" {
			start = fd
		}
		if fd.Recv != nil && fd.Name.Name == "writeDone" {
			writeDone = fd
		}
	}
	if start == nil || writeDone == nil {
		die(token.NoPos, "ipldutil: traverser.start / traverser.writeDone not found")
	}
	unlocks := false
	ast.Inspect(writeDone.Body, func(n ast.Node) bool {
		if c, ok := n.(*ast.CallExpr); ok && strings.HasSuffix(text(c.Fun), ".stateMu.Unlock") {
			unlocks = true
		}
		return true
	})
	if !unlocks {
		die(writeDone.Pos(), "writeDone no longer unlocks stateMu")
	}
	var lit *ast.FuncLit
	for _, st := range start.Body.List {
		if g, ok := st.(*ast.GoStmt); ok {
			if fl, ok := g.Call.Fun.(*ast.FuncLit); ok {
				if lit != nil {
					die(g.Pos(), "more than one goroutine started in traverser.start")
				}
				lit = fl
			}
		}
	}
	if lit == nil || len(lit.Body.List) == 0 {
		die(start.Pos(), "traverser.start does not start a goroutine literal")
	}
	ds, ok := lit.Body.List[0].(*ast.DeferStmt)
	if !ok {
		die(lit.Pos(), "the traversal goroutine must begin with its deferred recover function")
	}
	fl, ok := ds.Call.Fun.(*ast.FuncLit)
	if !ok || !directRecover(fl.Body) {
		die(ds.Pos(), "the deferred function of the traversal goroutine must be a literal calling recover()")
	}
	var acts []string
	pending := "" // variable holding the handler result when bound by a separate assignment
	for _, st := range fl.Body.List {
		switch s := st.(type) {
		case *ast.AssignStmt:
			// v := t.panicHandler(recover())
			if len(s.Lhs) == 1 && len(s.Rhs) == 1 && strings.HasSuffix(strings.ReplaceAll(text(s.Rhs[0]), " ", ""), ".panicHandler(recover())") && pending == "" {
				pending = text(s.Lhs[0])
				continue
			}
			die(s.Pos(), "unknown assignment in the traverser's recover function")
		case *ast.IfStmt:
			v := pending
			if s.Init != nil {
				as, ok := s.Init.(*ast.AssignStmt)
				if !ok || len(as.Lhs) != 1 || len(as.Rhs) != 1 || !strings.HasSuffix(strings.ReplaceAll(text(as.Rhs[0]), " ", ""), ".panicHandler(recover())") {
					die(s.Pos(), "unknown if statement in the traverser's recover function")
				}
				v = text(as.Lhs[0])
			}
			if v == "" || s.Else != nil || strings.ReplaceAll(text(s.Cond), " ", "") != v+"!=nil" || len(s.Body.List) != 1 {
				die(s.Pos(), "unknown if statement in the traverser's recover function")
			}
			es, ok := s.Body.List[0].(*ast.ExprStmt)
			if !ok || !strings.HasSuffix(strings.ReplaceAll(text(es.X), " ", ""), ".writeDone("+v+")") {
				die(s.Body.Pos(), "a recovered panic must be handed to writeDone")
			}
			acts = append(acts, "writeDoneOnPanic")
		case *ast.ExprStmt:
			if c := strings.ReplaceAll(text(s.X), " ", ""); strings.HasPrefix(c, "close(") && strings.HasSuffix(c, ".stopped)") {
				acts = append(acts, "closeStopped")
				continue
			}
			die(s.Pos(), "unknown statement in the traverser's recover function")
		default:
			die(st.Pos(), "unknown statement in the traverser's recover function")
		}
	}
	return acts
}

// taskDoneFirst: the manager function the executor's ReleaseRequestTask / FinishTask ends up in must
// call TaskDone as its first statement after binding the request id (before any return), so that
// the task slot is given back whatever the state of the request table.
func taskDoneFirst(repo, dir, fn string) {
	p := loadPkg(repo, dir)
	for _, fd := range p.funcs {
		if fd.Recv == nil || fd.Name.Name != fn {
			continue
		}
		for _, st := range fd.Body.List {
			switch s := st.(type) {
			case *ast.AssignStmt:
				continue
			case *ast.ExprStmt:
				if c, ok := s.X.(*ast.CallExpr); ok && finalName(c.Fun) == "TaskDone" {
					return
				}
			}
			die(st.Pos(), "%s.%s: a statement other than an assignment precedes the TaskDone call", dir, fn)
		}
		die(fd.Pos(), "%s.%s no longer calls TaskDone", dir, fn)
	}
	die(token.NoPos, "%s: method %s not found", dir, fn)
}

// forwards: the exported manager method sends a message whose handle method calls the internal one
func forwards(repo, dir, method, msgType, internal string) {
	p := loadPkg(repo, dir)
	sends, handles := false, false
	for _, fd := range p.funcs {
		if fd.Recv != nil && fd.Name.Name == method {
			ast.Inspect(fd.Body, func(n ast.Node) bool {
				if cl, ok := n.(*ast.CompositeLit); ok && text(cl.Type) == msgType {
					sends = true
				}
				return true
			})
		}
		if fd.Recv != nil && fd.Name.Name == "handle" && strings.HasSuffix(text(fd.Recv.List[0].Type), msgType) {
			ast.Inspect(fd.Body, func(n ast.Node) bool {
				if c, ok := n.(*ast.CallExpr); ok && finalName(c.Fun) == internal {
					handles = true
				}
				return true
			})
		}
	}
	if !sends || !handles {
		die(token.NoPos, "%s: %s no longer reaches %s through a %s message (sends=%v handles=%v)", dir, method, internal, msgType, sends, handles)
	}
}

// loadOutsideTransaction: response memory is reserved inside ResponseStream.Transaction closures; the
// block load (a call of a struct field of type BlockReadOpener, or of loadBlock) must not sit
// lexically inside one, so that no reservation is held across the user's storage function.
func loadOutsideTransaction(repo, dir string) {
	p := loadPkg(repo, dir)
	loads := 0
	for _, fd := range p.funcs {
		ast.Inspect(fd.Body, func(n ast.Node) bool {
			c, ok := n.(*ast.CallExpr)
			if !ok {
				return true
			}
			if nm := finalName(c.Fun); nm == "Loader" || nm == "loadBlock" {
				loads++
			}
			if finalName(c.Fun) != "Transaction" {
				return true
			}
			for _, a := range c.Args {
				ast.Inspect(a, func(m ast.Node) bool {
					if ic, ok := m.(*ast.CallExpr); ok {
						if nm := finalName(ic.Fun); nm == "Loader" || nm == "loadBlock" || nm == "runTraversal" {
							die(ic.Pos(), "%s: the block load now runs inside a response Transaction (response memory may be reserved across the user's storage function)", dir)
						}
					}
					return true
				})
			}
			return true
		})
	}
	if loads < 2 {
		die(token.NoPos, "%s: expected a call of ResponseTask.Loader and of loadBlock, found %d", dir, loads)
	}
}

func leanItems(ls [][]item) string {
	var lv []string
	for _, l := range ls {
		var is []string
		for _, it := range l {
			gs := ""
			if len(it.guards) > 0 {
				gs = "." + strings.Join(it.guards, ", .")
			}
			is = append(is, fmt.Sprintf("⟨.%s, [%s]⟩", it.act, gs))
		}
		lv = append(lv, "  ["+strings.Join(is, ",\n   ")+"]")
	}
	return "[\n" + strings.Join(lv, ",\n") + "\n]"
}

func main() {
	if len(os.Args) != 2 {
		die(token.NoPos, "usage: paniccleanup <repo>")
	}
	repo := os.Args[1]
	req := levels(repo, "requestmanager/executor")
	resp := levels(repo, "responsemanager/queryexecutor")
	trav := travFrame(repo)
	forwards(repo, "requestmanager", "ReleaseRequestTask", "releaseRequestTaskMessage", "releaseRequestTask")
	taskDoneFirst(repo, "requestmanager", "releaseRequestTask")
	forwards(repo, "responsemanager", "FinishTask", "finishTaskRequest", "finishTask")
	taskDoneFirst(repo, "responsemanager", "finishTask")
	loadOutsideTransaction(repo, "responsemanager/queryexecutor")
	var sb strings.Builder
	sb.WriteString("/-\nGenerated by translate/paniccleanup from requestmanager/executor, responsemanager/queryexecutor and\nipldutil/traverser.go - do not edit.\n\n")
	sb.WriteString("`requestor` / `responder`: for each function on the call path from the recovered traversal function\n")
	sb.WriteString("up to ExecuteTask (innermost first), the statements that follow the call, as (act, guards of the\n")
	sb.WriteString("enclosing ifs).  The recovered function itself contains nothing but its recover frame and the call\n")
	sb.WriteString("of the traversal loop (checked by the translator), so a panic cannot skip any of these.\n")
	sb.WriteString("`travFrame`: the deferred function of the traverser goroutine.\n-/\n")
	sb.WriteString("namespace GS.Generated.PanicCleanup\n\n")
	sb.WriteString("inductive Guard\n  | errNonNil     -- err != nil\n  | notCancel     -- !ipldutil.IsContextCancelErr(err)\n  | notPaused     -- err is not hooks.ErrPaused\n  | isPaused      -- err is hooks.ErrPaused\n  | netOrCancel   -- err == ErrNetworkError || ipldutil.IsContextCancelErr(err)\n  deriving DecidableEq, Repr\n\n")
	sb.WriteString("inductive Act\n  | sendCancel      -- manager.SendRequest(cancel)\n  | setOffline      -- ReconciledLoader.SetRemoteOnline(false)\n  | deliverErr      -- InProgressErr <- err\n  | releaseTask     -- manager.ReleaseRequestTask(pid, task, err)\n  | clearRequest    -- ResponseStream.ClearRequest()\n  | closeResponse   -- closing Transaction: FinishRequest / FinishWithError\n  | finishTask      -- manager.FinishTask(task, pid, err)\n  | ret             -- return\n  deriving DecidableEq, Repr\n\n")
	sb.WriteString("structure Item where\n  act : Act\n  guards : List Guard\n  deriving DecidableEq, Repr\n\n")
	sb.WriteString("def requestor : List (List Item) := " + leanItems(req) + "\n\n")
	sb.WriteString("def responder : List (List Item) := " + leanItems(resp) + "\n\n")
	sb.WriteString("inductive TravAct\n  | writeDoneOnPanic   -- if err := panicHandler(recover()); err != nil { writeDone(err) }  (writeDone unlocks stateMu)\n  | closeStopped       -- close(t.stopped)\n  deriving DecidableEq, Repr\n\n")
	sb.WriteString("def travFrame : List TravAct := [." + strings.Join(trav, ", .") + "]\n\n")
	sb.WriteString("/-- checked by the translator: the responder's block load is not lexically inside a response\nTransaction closure (where response memory is reserved) -/\ndef loadOutsideTransaction : Bool := true\n\n")
	sb.WriteString("end GS.Generated.PanicCleanup\n")
	fmt.Print(sb.String())
}
