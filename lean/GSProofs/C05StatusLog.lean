import GSProofs.C05Status
/-!
# C05 — the event log and the completed-listener calls (`.done id code`)

FULL STATEMENT (target, NOT fully proved — see below):
--   theorem completed_status_is_terminal_status : Reachable c s → ∀ id code, .done id code ∈ s.events →
--     GS.Generated.StatusCodes.isTerminal code = true
Route: `EV s s'` ("`s'` has no `.done` event that `s` has not") for every function that is not the publisher step,
`DoneOK` preserved by the publisher step through the queue invariant `TQ` (C05Status).

Proved here: `EV` for every primitive of the model that the manager / worker handlers are built from (table, task
queue, message-queue record, allocator incl. `grantLoop` / `release` / `tryAlloc`, `buildNow`, `execTx`, `emit` of
every non-`done` event, `terminate`, `protect`), all executor segments (`events_wstep`: a worker segment logs NOTHING), and `DoneOK` preservation for every action
of `step` EXCEPT `.mgr` (`done_ok_step_partial_mgr`; in particular the publisher step, the only one that adds a
`.done`).
OPEN: the composite action `.mgr` (the handlers): compositions of the primitives below (the handlers only `emit`
protect / unprotect / canc / proc / apiRes) — the composition lemmas (one per handler, same skeleton as
Lemmas/RespLifePending.lean with `EV` for `Le`) are not written yet; until then the state-level theorem is open.
-/
namespace GS.C05
open GS.RespLife

def DoneOK (l : List Event) : Prop := ∀ id code, Event.done id code ∈ l → isTerminal code = true

/-- `s'` logs no completed-listener call that `s` has not logged -/
def EV (s s' : State) : Prop := ∀ id code, Event.done id code ∈ s'.events → Event.done id code ∈ s.events

theorem EV.refl (s : State) : EV s s := fun _ _ h => h
theorem EV.trans {a b c : State} (h1 : EV a b) (h2 : EV b c) : EV a c := fun i k h => h1 i k (h2 i k h)
theorem EV.of_eq {s s' : State} (h : s'.events = s.events) : EV s s' := fun _ _ hx => by rw [h] at hx; exact hx
theorem DoneOK.ev {s s' : State} (h : DoneOK s.events) (he : EV s s') : DoneOK s'.events :=
  fun i k hx => h i k (he i k hx)

def notDone : Event → Bool
  | .done _ _ => false
  | _ => true

theorem ev_emit (s : State) (e : Event) (h : notDone e = true) : EV s (emit s e) := by
  intro i k hx
  simp only [emit, List.mem_append, List.mem_singleton] at hx
  rcases hx with hx | hx
  · exact hx
  · subst hx; cases h

-- ------------------------------------------------------------------ primitives that do not touch the log
theorem events_setQ (s : State) (q : PeerQ) : (setQ s q).events = s.events := rfl
theorem events_setMQ (s : State) (q : PeerMQ) : (setMQ s q).events = s.events := rfl
theorem events_setWorker (s : State) (w : Nat) (f : Worker → Worker) : (setWorker s w f).events = s.events := rfl
theorem events_setPhase (s : State) (w : Nat) (ph : WPhase) : (setPhase s w ph).events = s.events := rfl
theorem events_sendMsg (s : State) (m : Msg) : (sendMsg s m).events = s.events := rfl
theorem events_modAux (s : State) (id : Id) (f : Aux → Aux) : (modAux s id f).events = s.events := rfl
theorem events_setState (s : State) (id : Id) (st : RState) : (setState s id st).events = s.events := rfl
theorem events_insertResp (s : State) (r : Resp) : (insertResp s r).events = s.events := rfl
theorem events_delResp (s : State) (id : Id) : (delResp s id).events = s.events := rfl
theorem events_parkMgr (s : State) (c : MgrCont) (p : Peer) (id : Id) (ops : List TxOp) :
    (parkMgr s c p id ops).events = s.events := rfl
theorem events_closeStreams (s : State) (ids : List Id) : (closeStreams s ids).events = s.events := rfl
theorem events_openStream (s : State) (id : Id) : (openStream s id).events = s.events := rfl
theorem events_addAlloc (s : State) (p : Peer) (n : Nat) : (addAlloc s p n).events = s.events := rfl
theorem events_clearPubWait (s : State) (p : Peer) : (clearPubWait s p).events = s.events := rfl
theorem events_dropNerr (s : State) (p : Peer) (id : Id) : (dropNerr s p id).events = s.events := rfl
theorem events_thawAll (s : State) : (thawAll s).events = s.events := rfl
theorem events_primer (s : State) (p : Peer) : (primer s p).events = s.events := rfl

theorem events_pushTask (s : State) (p : Peer) (id : Id) (pri : Nat) : (pushTask s p id pri).events = s.events := by
  unfold pushTask; simp only; split
  · rfl
  · split <;> rfl

theorem events_removeTask (s : State) (p : Peer) (id : Id) : (removeTask s p id).events = s.events := by
  unfold removeTask; simp only; split <;> rfl

theorem events_taskDone (s : State) (p : Peer) (id : Id) : (taskDone s p id).events = s.events := by
  unfold taskDone; split <;> rfl

theorem events_grantTo (s : State) (party : Party) : (grantTo s party).events = s.events := by
  cases party <;> rfl

theorem events_grantLoop (fuel : Nat) (s : State) (p : Peer) : (grantLoop fuel s p).events = s.events := by
  induction fuel generalizing s with
  | zero => rfl
  | succ n ih =>
    unfold grantLoop
    split
    · rfl
    · split
      · simp only; rw [ih, events_grantTo]; rfl
      · rfl

theorem events_release (s : State) (p : Peer) (n : Nat) : (release s p n).events = s.events := by
  unfold release; simp only; rw [events_grantLoop]; rfl

theorem events_tryAlloc (s : State) (party : Party) (p : Peer) (n : Nat) :
    (tryAlloc s party p n).1.events = s.events := by
  unfold tryAlloc; split <;> rfl

theorem events_buildNow (s : State) (party : Party) (p : Peer) (id : Id) (ops : List TxOp) :
    (buildNow s party p id ops).events = s.events := by
  unfold buildNow; simp only; split
  · split
    · exact events_release s p _
    · rfl
  · rfl

theorem events_execTx (s : State) (party : Party) (p : Peer) (id : Id) (ops : List TxOp) :
    (execTx s party p id ops).1.events = s.events := by
  unfold execTx; split
  · rfl
  · simp only; split
    · exact events_buildNow s party p id ops
    · have h := events_tryAlloc s party p (txSize s.extLen ops)
      generalize tryAlloc s party p (txSize s.extLen ops) = pr at h
      obtain ⟨s1, ok⟩ := pr
      simp only at h ⊢
      split
      · rw [events_buildNow]; exact h
      · exact h

theorem ev_terminate (s : State) (id : Id) : EV s (terminate s id) := by
  unfold terminate; split
  · exact EV.refl s
  · rename_i r _
    exact ev_emit s (.unprotect r.peer id) rfl

theorem ev_protect (s : State) (p : Peer) (id : Id) : EV s (protect s p id) := by
  intro i k hx
  simp only [protect, emit, List.mem_append, List.mem_singleton] at hx
  rcases hx with hx | hx
  · exact hx
  · cases hx

-- ------------------------------------------------------------------ the actions of `step` other than `.mgr`, `.wstep`
theorem events_popTask {s s' : State} {p : Peer} {id : Id} (h : popTask s p id = some s') : s'.events = s.events := by
  unfold popTask at h; simp only at h; split at h
  · cases h; rfl
  · cases h

theorem events_reap {s s' : State} {p : Peer} (h : reap s p = some s') : s'.events = s.events := by
  unfold reap at h; split at h
  · split at h
    · cases h; rfl
    · cases h
  · cases h

theorem events_extract {s s' : State} {p : Peer} (h : extract s p = some s') : s'.events = s.events := by
  unfold extract at h; simp only at h; split at h
  · split at h
    · cases h
    · cases h; rfl
  · cases h

theorem events_netResolve {s s' : State} {p : Peer} {ok : Bool} (h : netResolve s p ok = some s') :
    s'.events = s.events := by
  unfold netResolve at h; simp only at h; split at h
  · cases h
  · split at h
    · cases h; rw [events_release]; rfl
    · cases h
      rw [events_release]
      split
      · rw [events_release]; rfl
      · rfl

/-- the publisher step: the log grows by `.bs` / `.nerr` events or by the `.done id code` of the head
    `emitDone id code` -/
theorem done_ok_pubStep {s s' : State} {p : Peer} (hd : DoneOK s.events) (hq : TQ s) (h : pubStep s p = some s') :
    DoneOK s'.events := by
  unfold pubStep at h
  simp only at h
  split at h
  · cases h
  · split at h
    · cases h
    · rename_i st rest hpq
      cases st with
      | emitBs id n =>
        simp only [Option.some.injEq] at h; subst h
        intro i k hx
        simp only [List.mem_append, List.mem_replicate] at hx
        rcases hx with hx | hx
        · exact hd i k hx
        · cases hx.2
      | emitDone id code =>
        simp only [Option.some.injEq] at h; subst h
        intro i k hx
        simp only [emit, List.mem_append, List.mem_singleton] at hx
        rcases hx with hx | hx
        · exact hd i k hx
        · injection hx with h1 h2
          subst h2
          exact hq p id k (by rw [hpq]; simp)
      | emitNerr id =>
        simp only [Option.some.injEq] at h; subst h
        intro i k hx
        simp only [emit, List.mem_append, List.mem_singleton] at hx
        rcases hx with hx | hx
        · exact hd i k hx
        · cases hx
      | callClose id inc => simp only [Option.some.injEq] at h; subst h; exact hd
      | callTerminate id inc => simp only [Option.some.injEq] at h; subst h; exact hd

/-- **C05.done_ok_step_partial**: every action other than the two composite ones (`.mgr`, `.wstep`) keeps "every
    logged completed-listener call carries a terminal status". -/
theorem done_ok_step_partial {s s' : State} {a : Action} (hd : DoneOK s.events) (hq : TQ s)
    (ha : a ≠ .mgr) (hw : ∀ w pick, a ≠ .wstep w pick) (h : step s a = some s') : DoneOK s'.events := by
  cases a with
  | recv p r => simp only [step, Option.some.injEq] at h; subst h; exact hd
  | api c => simp only [step, Option.some.injEq] at h; subst h; exact hd
  | mgr => exact absurd rfl ha
  | pop p id => exact hd.ev (EV.of_eq (events_popTask h))
  | reap p => exact hd.ev (EV.of_eq (events_reap h))
  | wstep w pick => exact absurd rfl (hw w pick)
  | extract p => exact hd.ev (EV.of_eq (events_extract h))
  | net p ok => exact hd.ev (EV.of_eq (events_netResolve h))
  | pub p => exact done_ok_pubStep hd hq h
  | primer p => simp only [step, Option.some.injEq] at h; subst h; exact hd
  | thaw => simp only [step, Option.some.injEq] at h; subst h; exact hd

-- ------------------------------------------------------------------ the executor segments (`.wstep`): no event at all
theorem events_sendFinishNow (s : State) (w : Nat) (e : Option WErr) : (sendFinishNow s w e).events = s.events := rfl

theorem events_sendFinish (s : State) (w : Nat) (e : Option WErr) : (sendFinish s w e).events = s.events := by
  unfold sendFinish; split <;> rfl

theorem events_executeQuery (s : State) (w : Nat) (wk : Worker) (e : Option WErr) :
    (executeQuery s w wk e).events = s.events := by
  unfold executeQuery
  split
  · exact events_sendFinish s w _
  · exact events_sendFinish s w _
  · exact events_sendFinish s w _
  · simp only
    have h := events_execTx s (.worker w) wk.peer wk.id [TxOp.status (finalStatus (lookup s wk.id) e)]
    generalize execTx s (.worker w) wk.peer wk.id [TxOp.status (finalStatus (lookup s wk.id) e)] = pr at h
    obtain ⟨s1, ok⟩ := pr
    simp only at h ⊢
    split
    · rw [events_sendFinish]; exact h
    · exact h

theorem events_loopTop (s : State) (w : Nat) (wk : Worker) : (loopTop s w wk).events = s.events := by
  unfold loopTop
  split
  · exact events_sendFinish s w _
  · split
    · exact events_executeQuery s w wk _
    · rfl

theorem events_afterBlock (s : State) (w : Nat) (wk : Worker) (e : Option WErr) :
    (afterBlock s w wk e).events = s.events := by
  unfold afterBlock
  split
  · exact events_executeQuery s w wk _
  · exact events_loopTop s w wk

theorem events_runTx (s : State) (w : Nat) (wk : Worker) (ops : List TxOp) (k : AfterTx) :
    (runTx s w wk ops k).events = s.events := by
  unfold runTx
  have h := events_execTx s (.worker w) wk.peer wk.id ops
  generalize execTx s (.worker w) wk.peer wk.id ops = pr at h
  obtain ⟨s1, ok⟩ := pr
  simp only at h ⊢
  split
  · split
    · rw [events_afterBlock]; exact h
    · rw [events_sendFinish]; exact h
  · exact h

theorem events_blockPart (s : State) (w : Nat) (wk : Worker) (ops : List TxOp) (cfu : Option WErr) (present : Bool) :
    (blockPart s w wk ops cfu present).events = s.events := by
  unfold blockPart
  split
  · exact events_sendFinish s w _
  · simp only
    split
    · rw [events_runTx]; rfl
    · split <;> first | (rw [events_runTx]; rfl) | rfl

theorem events_checkForUpdates (s : State) (w : Nat) (wk : Worker) (ops : List TxOp) (present : Bool) (pick : Nat) :
    (checkForUpdates s w wk ops present pick).events = s.events := by
  unfold checkForUpdates
  split
  · exact events_sendFinish s w _
  · simp only
    split
    · exact events_blockPart s w wk _ _ _
    · rw [events_blockPart]; rfl
    · rw [events_runTx]; rfl
    · rfl

theorem events_applyUpdates (s : State) (w : Nat) (wk : Worker) (ups : List UP) (ops : List TxOp) (present : Bool)
    (pick : Nat) : (applyUpdates s w wk ups ops present pick).events = s.events := by
  induction ups generalizing ops with
  | nil => exact events_checkForUpdates s w wk ops present pick
  | cons u us ih =>
    unfold applyUpdates
    simp only
    split
    · exact events_runTx s w wk _ _
    · exact ih _

theorem events_wstep {s s' : State} {w pick : Nat} (h : wstep s w pick = some s') : s'.events = s.events := by
  unfold wstep at h
  split at h
  · cases h
  · rename_i wk _
    split at h
    · cases h; exact events_loopTop s w wk
    · split at h
      · cases h; exact events_sendFinish s w _
      · cases h; rw [events_checkForUpdates]; rfl
    · cases h; exact events_applyUpdates s w wk _ _ _ _
    · cases h; exact events_runTx s w wk _ _
    · cases h; rfl
    · simp only at h
      split at h
      · cases h; rw [events_afterBlock]; exact events_buildNow s _ _ _ _
      · cases h; rw [events_sendFinish]; exact events_buildNow s _ _ _ _
    · cases h

/-- **C05.done_ok_step_partial_mgr**: every action other than the manager step keeps "every logged
    completed-listener call carries a terminal status" (worker segments log nothing). -/
theorem done_ok_step_partial_mgr {s s' : State} {a : Action} (hd : DoneOK s.events) (hq : TQ s)
    (ha : a ≠ .mgr) (h : step s a = some s') : DoneOK s'.events := by
  cases a with
  | wstep w pick => exact hd.ev (EV.of_eq (events_wstep h))
  | mgr => exact absurd rfl ha
  | recv p r => exact done_ok_step_partial hd hq ha (fun _ _ => by simp) h
  | api c => exact done_ok_step_partial hd hq ha (fun _ _ => by simp) h
  | pop p id => exact done_ok_step_partial hd hq ha (fun _ _ => by simp) h
  | reap p => exact done_ok_step_partial hd hq ha (fun _ _ => by simp) h
  | extract p => exact done_ok_step_partial hd hq ha (fun _ _ => by simp) h
  | net p ok => exact done_ok_step_partial hd hq ha (fun _ _ => by simp) h
  | pub p => exact done_ok_step_partial hd hq ha (fun _ _ => by simp) h
  | primer p => exact done_ok_step_partial hd hq ha (fun _ _ => by simp) h
  | thaw => exact done_ok_step_partial hd hq ha (fun _ _ => by simp) h

end GS.C05
