import GSProofs.C05Residue
import GSProofs.Lemmas.RespLifePending
/-!
# C05 — no pending task-queue topic after the outcome (residue (1) of C05Residue)

Invariant `NO s` (Lemmas/RespLifePending.lean): every pending topic of every peer's task queue has a response in the
table — one lemma per manager handler / worker step: `pushTask` is only called with the entry present
(`unpauseFinish`, the stale-task branch of `finishTask`) or followed by `insertResp` (`newReqFinish`); `terminate`
only after `removeTask` at the response's peer (`abortRequest`; other peers: `LInv.ownP`), or for the response of
the worker whose FinishTask is handled (that worker is live, so its id is active, `LInv.disj` ⇒ not pending).

ONE handler is NOT closed: `handle (.terminate id inc pub)` (the publisher's Terminate after a terminal status went
out) calls `terminate` on whatever response with that identity is in the table, and "that response has no pending
task" needs the coupling terminal status in builder / publisher queue ⇒ response Running or CompletingSend, which
no invariant proved so far provides (`Pot` counts `emitDone`, not `callTerminate` / Terminate messages; `errSteps`
queues a `callTerminate` without `emitDone`).  So the theorems here are `…_partial`, for runs `ReachableDT` =
`ReachableDrained` + `TermStep` (a handled Terminate message never meets a response whose task is pending).
The excluded region is believed EMPTY (random search, C05Residue: no orphan pending topic in 4000 × 80 drained
steps) — it is neither proved empty nor exhibited.

FULL STATEMENT (open):
--   theorem no_pending_topic_after_outcome : ReachableDrained c s → registrations s r ≤ 1 →
--     1 ≤ completedCount s r + cancelledCount s r → ∀ p, r ∉ pendOf s p
-/
namespace GS.C05
open GS.RespLife

/-- **C05.no_orphan_pending_topic_partial**: every pending topic has a response in the table. -/
theorem no_orphan_pending_topic_partial {c : Cfg} {s : State} (h : ReachableDT c s) (p : Peer) (id : Id)
    (hp : id ∈ pendOf s p) : (lookup s id).isSome = true := by
  have := no_reachable h p id hp
  unfold entOf at this
  cases hl : lookup s id with
  | none => rw [hl] at this; cases this
  | some _ => rfl

/-- **C05.no_pending_topic_after_outcome_partial**: after a completed / cancelled outcome of an id registered at
    most once, no peer's task queue has a pending topic of it. -/
theorem no_pending_topic_after_outcome_partial {c : Cfg} {s : State} (h : ReachableDT c s) (r : Id)
    (hreg : registrations s r ≤ 1) (hout : 1 ≤ completedCount s r + cancelledCount s r) :
    ∀ p, r ∉ pendOf s p := by
  intro p hp
  have h1 := no_orphan_pending_topic_partial h p r hp
  rw [outcome_after_retired (drained_of_dt h) r hreg hout] at h1
  cases h1

/-- **C05.outcome_holds_no_state_full_partial**: `outcome_holds_no_state` plus "no pending topic". -/
theorem outcome_holds_no_state_full_partial {c : Cfg} {s : State} (h : ReachableDT c s) (r : Id)
    (hreg : registrations s r ≤ 1) (hout : 1 ≤ completedCount s r + cancelledCount s r)
    (hw : ∀ w ∈ s.workers, w.id = r → w.phase = .done) :
    (∀ q, r ∉ pendOf s q) ∧
    lookup s r = none ∧ (∀ p, parkNew s.park ≠ some (p, r)) ∧ (∀ p, (p, r) ∉ s.prot) ∧ (∀ x ∈ s.table, x.id ≠ r) ∧
      (∀ q, r ∉ (getQ s q).active) ∧
      (∀ q ∈ s.mqs, tokB r q.inflight = 0 ∧ tokB r q.next = 0 ∧ tokQ r q.pubQ = 0) ∧
      parkW r s.park = 0 ∧ wkSum r s.workers = 0 ∧ mbSum r s.workers s.mailbox = 0 :=
  ⟨no_pending_topic_after_outcome_partial h r hreg hout, outcome_holds_no_state (drained_of_dt h) r hreg hout hw⟩

-- ------------------------------------------------------------------ concrete runs
/-- the head of the mailbox is a Terminate message -/
def headTerm (s : State) : Bool :=
  match s.mailbox with
  | .terminate _ _ _ :: _ => true
  | _ => false

theorem termStep_of_head {s : State} (h : headTerm s = false) (a : Action) : TermStep s a := by
  cases a with
  | mgr =>
    intro _ id inc pub rest hm
    unfold headTerm at h
    rw [hm] at h
    cases h
  | _ => trivial

/-- executable: drained ids, and no manager step of the script handles a Terminate message -/
def dtRun : State → List Action → Bool
  | _, [] => true
  | s, a :: as =>
    (match a with
     | .recv _ (.new id _) => drainedB s id
     | .mgr => !headTerm s
     | _ => true) && dtRun ((step s a).getD s) as

theorem reachableDT_run {c : Cfg} {s : State} (h : ReachableDT c s) (as : List Action)
    (hf : dtRun s as = true) : ReachableDT c (run s as) := by
  induction as generalizing s with
  | nil => exact h
  | cons a as ih =>
    simp only [dtRun, Bool.and_eq_true] at hf
    show ReachableDT c (run ((step s a).getD s) as)
    cases hs : step s a with
    | none =>
      rw [hs] at hf
      exact ih h hf.2
    | some s' =>
      rw [hs] at hf
      refine ih (ReachableDT.step h ?_ ?_ hs) hf.2
      · cases a with
        | recv p r =>
          cases r with
          | new id cfg => exact drained_of_B hf.1
          | _ => trivial
        | _ => trivial
      · cases a with
        | mgr => exact termStep_of_head (by simpa using hf.1) _
        | _ => trivial

/-- non-vacuity (a test): the cancelled run of `cancelRunningScript` is a `ReachableDT` run meeting all hypotheses -/
example : ∃ s, ReachableDT {} s ∧ registrations s 0 ≤ 1 ∧ 1 ≤ completedCount s 0 + cancelledCount s 0 ∧
    (∀ w ∈ s.workers, w.id = 0 → w.phase = .done) :=
  ⟨run (init {}) cancelRunningScript, reachableDT_run ReachableDT.init _ (by decide), by decide, by decide, by decide⟩

-- ------------------------------------------------------------------ executable `TermStep`
theorem notpend_of_all {s : State} {id : Id} (h : s.queues.all (fun q => !(q.pending.any (·.1 == id))) = true) :
    ∀ p, id ∉ pendOf s p := by
  intro p hp
  unfold pendOf getQ at hp
  cases hf : s.queues.find? (·.peer == p) with
  | none => rw [hf] at hp; simp at hp
  | some q =>
    rw [hf] at hp
    have hq := List.mem_of_find?_eq_some hf
    have := List.all_eq_true.1 h q hq
    obtain ⟨t, ht, hid⟩ := List.mem_map.1 hp
    simp only [Bool.not_eq_true', List.any_eq_false] at this
    exact this t ht (by simp [hid])

/-- executable `TermStep` for the manager -/
def termB (s : State) : Bool :=
  match s.mailbox with
  | .terminate id _ _ :: _ => s.queues.all (fun q => !(q.pending.any (·.1 == id)))
  | _ => true

theorem termStep_of_B {s : State} (h : termB s = true) (a : Action) : TermStep s a := by
  cases a with
  | mgr =>
    intro _ id inc pub rest hm _
    unfold termB at h
    rw [hm] at h
    exact notpend_of_all h
  | _ => trivial

def dtRun2 : State → List Action → Bool
  | _, [] => true
  | s, a :: as =>
    (match a with
     | .recv _ (.new id _) => drainedB s id
     | .mgr => termB s
     | _ => true) && dtRun2 ((step s a).getD s) as

theorem reachableDT_run2 {c : Cfg} {s : State} (h : ReachableDT c s) (as : List Action)
    (hf : dtRun2 s as = true) : ReachableDT c (run s as) := by
  induction as generalizing s with
  | nil => exact h
  | cons a as ih =>
    simp only [dtRun2, Bool.and_eq_true] at hf
    show ReachableDT c (run ((step s a).getD s) as)
    cases hs : step s a with
    | none =>
      rw [hs] at hf
      exact ih h hf.2
    | some s' =>
      rw [hs] at hf
      refine ih (ReachableDT.step h ?_ ?_ hs) hf.2
      · cases a with
        | recv p r =>
          cases r with
          | new id cfg => exact drained_of_B hf.1
          | _ => trivial
        | _ => trivial
      · cases a with
        | mgr => exact termStep_of_B hf.1 _
        | _ => trivial

/-- non-vacuity (a test): the COMPLETED run `doneScript` (its Terminate message is handled) is a `ReachableDT` run -/
example : ∃ s, ReachableDT {} s ∧ registrations s 0 ≤ 1 ∧ completedCount s 0 = 1 ∧
    (∀ w ∈ s.workers, w.id = 0 → w.phase = .done) :=
  ⟨run (init {}) doneScript, reachableDT_run2 ReachableDT.init _ (by decide), by decide, by decide, by decide⟩

end GS.C05
