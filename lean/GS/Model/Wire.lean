/-
Model of the graphsync v2 wire format (core Lean only).

Mirrors
  message/ipldbind/schema.ipldsch + message/ipldbind/message.go   (bindnode schema layer)
        -> `BMsg`, `bmsgToVal`, `valToBMsg`; every wire key / enum string / status number comes from
           GS/Generated/Schema.lean (regenerated from the schema and the Go constants on every run)
  message/v2/message.go  toIPLD / fromIPLD / ToNet / FromMsgReader
        -> `toIPLD`, `fromIPLD`, `encodeMsg`, `decodeMsg`, `readFrame`, `decodeStream`
  graphsync.go  ParseRequestID                  -> `id.length = 16`
  go-cid  PrefixFromBytes / Prefix.Sum / Prefix.Bytes, go-multihash Sum/encodeHash
        -> `parsePrefix`, `sumCid`, `prefixOfCid` (hash functions are an uninterpreted parameter)
  go-msgio varint reader (max size libp2p network.MessageSizeMax = 4 MiB) -> `readFrame`
  cidset / dedupkey / donotsendfirstblocks       -> section "extension codecs"
  network/libp2p_impl.go handleNewStream          -> `handleStream` (read-loop automaton)

bindnode behaviour determined by experiment (go-ipld-prime v0.24.0) and mirrored here:
  * keyed union: a map with exactly one entry whose key is "gs2"
  * struct with map representation: a key may be the wire key (rename) OR the schema field name
    ("req" and "requests"); other keys rejected; when both spellings occur every entry is
    assigned in wire order (each must be valid) and the last one stays; required fields must be
    present, absent optional fields are nil, an explicit null for an optional field is rejected
  * keyed union: the key may be the discriminant "gs2" or the member's type name "GraphSyncMessage"
  * struct with tuple representation: a list with exactly as many entries as fields
  * string enums accept the wire string AND the member name ("c" and "Cancel")
  * int enum: the integer must be one of the members
  * GraphSyncPriority (Go int32): any CBOR integer is accepted and silently truncated to 32 bits
  * `optional Any` (selector): any value except null;  `nullable Any` (extension value): null -> nil
-/
import GS.Model.Cbor
import GS.Generated.Schema
import GS.Generated.StreamLoop

namespace GS.Wire
open GS.Cbor
open GS.Generated

/-! ## messages as the public API exposes them -/

inductive ReqType where
  | new | cancel | update
deriving Repr, DecidableEq, Inhabited

/-- extension: name and data (`none` = Go nil) -/
abbrev Ext := Bytes × Option Val

structure Request where
  id       : Bytes
  type     : ReqType
  priority : Int := 0            -- graphsync.Priority (int32)
  root     : Option Bytes := none   -- binary CID; none = cid.Undef
  selector : Option Val := none
  exts     : List Ext := []
deriving Repr, Inhabited

structure Response where
  id       : Bytes
  status   : Int                 -- graphsync.ResponseStatusCode (int32)
  metadata : List (Bytes × Bytes) := []   -- (binary CID, Go LinkAction string)
  exts     : List Ext := []
deriving Repr, Inhabited

structure Block where
  cid  : Bytes                   -- the key under which the block is delivered
  data : Bytes
deriving Repr, Inhabited

structure Msg where
  requests  : List Request := []
  responses : List Response := []
  blocks    : List Block := []
deriving Repr, Inhabited

/-! ## ipldbind structs -/

structure BReq where
  id   : Bytes
  type : Bytes                   -- enum member name (Go string)
  pri  : Option Int
  root : Option Bytes
  sel  : Option Val
  ext  : Option (List Ext)
deriving Repr

structure BRsp where
  id     : Bytes
  status : Int
  md     : Option (List (Bytes × Bytes))
  ext    : Option (List Ext)
deriving Repr

structure BBlk where
  pfx  : Bytes
  data : Bytes
deriving Repr

structure BMsg where
  req : Option (List BReq)
  rsp : Option (List BRsp)
  blk : Option (List BBlk)
deriving Repr

/-! ## CID prefixes and hashing -/

structure Prefix where
  version : Nat
  codec   : Nat
  mhType  : Nat
  mhLen   : Nat
deriving Repr, DecidableEq

/-- `cid.PrefixFromBytes`: four uvarints; trailing bytes are ignored. -/
def parsePrefix (bs : Bytes) : Option Prefix :=
  match uvarint bs with
  | none => none
  | some (v, r1) =>
    match uvarint r1 with
    | none => none
    | some (c, r2) =>
      match uvarint r2 with
      | none => none
      | some (t, r3) =>
        match uvarint r3 with
        | none => none
        | some (l, _) => some ⟨v, c, t, l⟩

/-- `Prefix.Bytes` -/
def prefixBytes (p : Prefix) : Bytes :=
  putUvarint p.version ++ (putUvarint p.codec ++ (putUvarint p.mhType ++ putUvarint p.mhLen))

/-- `Cid.Prefix()` of a binary CID -/
def prefixOfCid (c : Bytes) : Option Prefix :=
  match parseCid c with
  | some p => some ⟨p.version, p.codec, p.mhType, p.digest.length⟩
  | none => none

/-- The hash functions: `hash code sizeHint data` = what the hasher registered under multihash
    `code` (created with size hint `sizeHint`, `none` = -1 = default) returns from `Sum(nil)` after
    being fed `data`; `none` = code not registered / size hint rejected. UNINTERPRETED. -/
abbrev Hash := Nat → Option Nat → Bytes → Option Bytes

/-- multihash bytes: `multihash.Encode` -/
def mhBytes (code : Nat) (digest : Bytes) : Bytes :=
  putUvarint code ++ (putUvarint digest.length ++ digest)

/-- `Prefix.Sum(data)` followed by `Cid.Bytes()`. -/
def sumCid (hash : Hash) (p : Prefix) (data : Bytes) : Option Bytes :=
  let length : Option Nat := if p.mhType = 0 then none else some p.mhLen
  if p.version = 0 ∧ (p.mhType ≠ 0x12 ∨ p.mhLen ≠ 32) then none
  else
    match hash p.mhType length data with
    | none => none
    | some full =>
      let len := length.getD full.length
      if full.length < len then none
      else
        let mh := mhBytes p.mhType (full.take len)
        if p.version = 0 then some mh
        else if p.version = 1 then some (1 :: (putUvarint p.codec ++ mh))
        else none

/-! ## small helpers -/

def lookupKV (k : Bytes) : List (Bytes × Val) → Option Val
  | [] => none
  | (k', v) :: rest => if k' == k then some v else lookupKV k rest

def keysAllowed (allowed : List Bytes) (kvs : List (Bytes × Val)) : Bool :=
  kvs.all fun kv => allowed.contains kv.1

/-- all-or-nothing -/
def allSome {α : Type} : List (Option α) → Option (List α)
  | [] => some []
  | none :: _ => none
  | some x :: rest => match allSome rest with
    | some xs => some (x :: xs)
    | none => none

/-- keep, for every key, only its LAST occurrence (Go: `m[key] = value` in list order) -/
def dedupLast {α : Type} (key : α → Bytes) : List α → List α
  | [] => []
  | x :: xs => if xs.any (fun y => key y == key x) then dedupLast key xs else x :: dedupLast key xs

/-- message.toExtensionsMap: the variadic `extensions ...ExtensionData` of NewRequest / NewResponse /
    NewUpdateRequest go into a Go map, so of several entries with one name the last survives -/
def mkExts (es : List (Bytes × Option Val)) : List (Bytes × Option Val) := dedupLast (·.1) es

def optEntry (k : Bytes) : Option Val → List (Bytes × Val)
  | some v => [(k, v)]
  | none => []

/-! ## enums -/

/-- representation string of a member -/
def enumEncode (tbl : List (Bytes × Bytes)) (member : Bytes) : Option Bytes :=
  match tbl.find? (fun e => e.1 == member) with
  | some e => some e.2
  | none => none

/-- bindnode `AssignString` on a string enum: reverse lookup of the wire string, then the member names -/
def enumDecode (tbl : List (Bytes × Bytes)) (s : Bytes) : Option Bytes :=
  match tbl.find? (fun e => e.2 == s) with
  | some e => some e.1
  | none =>
    match tbl.find? (fun e => e.1 == s) with
    | some e => some e.1
    | none => none

def ReqType.goName : ReqType → Bytes
  | .new => Schema.goRequestTypeNew
  | .cancel => Schema.goRequestTypeCancel
  | .update => Schema.goRequestTypeUpdate

/-- the comparisons `req.RequestType == graphsync.RequestTypeCancel / Update` of fromIPLD -/
def reqTypeOfName (n : Bytes) : ReqType :=
  if n == Schema.goRequestTypeCancel then .cancel
  else if n == Schema.goRequestTypeUpdate then .update
  else .new

def goLinkActions : List Bytes :=
  [Schema.goLinkActionPresent, Schema.goLinkActionDuplicateNotSent, Schema.goLinkActionMissing,
   Schema.goLinkActionDuplicateDAGSkipped]

/-! ## integers -/

def intToVal (z : Int) : Val := if z ≥ 0 then .uint z.toNat else .nint (-z - 1).toNat

/-- Go `int32(x)` of an integer (two's complement truncation) -/
def wrap32 (z : Int) : Int :=
  let m := z % 4294967296
  if m ≥ 2147483648 then m - 4294967296 else m

/-! ## schema layer: BMsg <-> Val (bindnode representation) -/

def extsToKVs (es : List Ext) : List (Bytes × Val) :=
  es.map fun e => (e.1, e.2.getD .null)

def kvsToExts (kvs : List (Bytes × Val)) : List Ext :=
  kvs.map fun kv => (kv.1, match kv.2 with | .null => none | v => some v)

def breqToVal (r : BReq) : Option Val :=
  match enumEncode Schema.requestTypeEnum r.type with
  | none => none
  | some t =>
    some (.map ([(Schema.req_id, .bytes r.id), (Schema.req_requestType, .text t)]
      ++ optEntry Schema.req_priority (r.pri.map intToVal)
      ++ optEntry Schema.req_root (r.root.map .link)
      ++ optEntry Schema.req_selector r.sel
      ++ optEntry Schema.req_extensions (r.ext.map fun es => .map (extsToKVs es))))

def mdToVal (m : Bytes × Bytes) : Option Val :=
  match enumEncode Schema.linkActionEnum m.2 with
  | none => none
  | some a => some (.array [.link m.1, .text a])

def statusToVal (s : Int) : Option Val :=
  if s ≥ 0 ∧ Schema.statusEnum.contains s.toNat then some (.uint s.toNat) else none

def optList {α : Type} (f : α → Option Val) : Option (List α) → Option (Option Val)
  | none => some none
  | some xs => match allSome (xs.map f) with
    | some vs => some (some (.array vs))
    | none => none

def brspToVal (r : BRsp) : Option Val :=
  match statusToVal r.status, optList mdToVal r.md with
  | some st, some mdv =>
    some (.map ([(Schema.rsp_id, .bytes r.id), (Schema.rsp_status, st)]
      ++ optEntry Schema.rsp_metadata mdv
      ++ optEntry Schema.rsp_extensions (r.ext.map fun es => .map (extsToKVs es))))
  | _, _ => none

def bblkToVal (b : BBlk) : Val := .array [.bytes b.pfx, .bytes b.data]

/-- the representation node bindnode hands to the codec (fields in schema order; the codec sorts) -/
def bmsgToVal (m : BMsg) : Option Val :=
  match optList breqToVal m.req, optList brspToVal m.rsp, optList (fun b => some (bblkToVal b)) m.blk with
  | some rq, some rs, some bl =>
    some (.map [(Schema.rootKey, .map (optEntry Schema.msg_requests rq ++ optEntry Schema.msg_responses rs
      ++ optEntry Schema.msg_blocks bl))])
  | _, _, _ => none

def valToInt : Val → Option Int
  | .uint n => some (Int.ofNat n)
  | .nint n => some (-1 - Int.ofNat n)
  | _ => none

def valToExts : Val → Option (List Ext)
  | .map kvs => some (kvsToExts kvs)
  | _ => none

/-- bindnode struct with map representation: a key names the field whose wire key (rename) it is,
    otherwise the field whose schema name it is; anything else is rejected. Result: the wire key. -/
def resolveKey (fields : List (Bytes × Bytes)) (k : Bytes) : Option Bytes :=
  match fields.find? (fun f => f.2 == k) with
  | some f => some f.2
  | none =>
    match fields.find? (fun f => f.1 == k) with
    | some f => some f.2
    | none => none

/-- all keys replaced by the wire key of the field they name (`none`: some key names no field) -/
def canonKeys (fields : List (Bytes × Bytes)) : List (Bytes × Val) → Option (List (Bytes × Val))
  | [] => some []
  | (k, v) :: rest =>
    match resolveKey fields k, canonKeys fields rest with
    | some k', some r => some ((k', v) :: r)
    | _, _ => none

/-- field `k` of a struct given as map entries (keys already canonical): every entry for the field
    is assigned in wire order, so each must convert and the LAST one stays; `some none` = absent. -/
def fieldOf {α : Type} (k : Bytes) (kvs : List (Bytes × Val)) (f : Val → Option α) : Option (Option α) :=
  match allSome ((kvs.filter fun kv => kv.1 == k).map fun kv => f kv.2) with
  | none => none
  | some xs => some xs.getLast?

def valToBytes : Val → Option Bytes
  | .bytes b => some b
  | _ => none

def valToText : Val → Option Bytes
  | .text b => some b
  | _ => none

def valToLink : Val → Option Bytes
  | .link c => some c
  | _ => none

def valNonNull : Val → Option Val
  | .null => none
  | v => some v

def valToReqType : Val → Option Bytes
  | .text t => enumDecode Schema.requestTypeEnum t
  | _ => none

/-- GraphSyncPriority is a Go int32: bindnode stores any integer with `reflect.Value.SetInt`,
    which truncates -/
def valToPri (v : Val) : Option Int := (valToInt v).map wrap32

def valToBReq : Val → Option BReq
  | .map kvs0 =>
    match canonKeys Schema.reqFields kvs0 with
    | none => none
    | some kvs =>
      match fieldOf Schema.req_id kvs valToBytes,
            fieldOf Schema.req_requestType kvs valToReqType,
            fieldOf Schema.req_priority kvs valToPri,
            fieldOf Schema.req_root kvs valToLink,
            fieldOf Schema.req_selector kvs valNonNull,
            fieldOf Schema.req_extensions kvs valToExts with
      | some (some id), some (some ty), some pri, some root, some sel, some ext => some ⟨id, ty, pri, root, sel, ext⟩
      | _, _, _, _, _, _ => none
  | _ => none

def valToMd : Val → Option (Bytes × Bytes)
  | .array [.link c, .text a] =>
    match enumDecode Schema.linkActionEnum a with
    | some m => some (c, m)
    | none => none
  | _ => none

def valToList {α : Type} (f : Val → Option α) : Val → Option (List α)
  | .array xs => allSome (xs.map f)
  | _ => none

def valToMdList : Val → Option (List (Bytes × Bytes)) := valToList valToMd

def valToStatus : Val → Option Int
  | .uint n => if Schema.statusEnum.contains n then some (Int.ofNat n) else none
  | _ => none

def valToBRsp : Val → Option BRsp
  | .map kvs0 =>
    match canonKeys Schema.rspFields kvs0 with
    | none => none
    | some kvs =>
      match fieldOf Schema.rsp_id kvs valToBytes,
            fieldOf Schema.rsp_status kvs valToStatus,
            fieldOf Schema.rsp_metadata kvs valToMdList,
            fieldOf Schema.rsp_extensions kvs valToExts with
      | some (some id), some (some st), some md, some ext => some ⟨id, st, md, ext⟩
      | _, _, _, _ => none
  | _ => none

def valToBBlk : Val → Option BBlk
  | .array [.bytes p, .bytes d] => some ⟨p, d⟩
  | _ => none

def valToBMsg : Val → Option BMsg
  | .map [(k, .map kvs0)] =>
    if k != Schema.rootKey && k != Schema.rootMember then none
    else
      match canonKeys Schema.msgFields kvs0 with
      | none => none
      | some kvs =>
        match fieldOf Schema.msg_requests kvs (valToList valToBReq),
              fieldOf Schema.msg_responses kvs (valToList valToBRsp),
              fieldOf Schema.msg_blocks kvs (valToList valToBBlk) with
        | some rq, some rs, some bl => some ⟨rq, rs, bl⟩
        | _, _, _ => none
  | _ => none

/-! ## message/v2: toIPLD / fromIPLD -/

def nonEmpty {α : Type} (xs : List α) : Option (List α) := if xs.isEmpty then none else some xs

def reqToB (r : Request) : BReq :=
  { id := r.id, type := r.type.goName,
    pri := if r.priority = 0 then none else some r.priority,
    root := r.root, sel := r.selector, ext := nonEmpty r.exts }

def rspToB (r : Response) : BRsp :=
  { id := r.id, status := r.status, md := nonEmpty r.metadata, ext := nonEmpty r.exts }

def blkToB (b : Block) : Option BBlk :=
  match prefixOfCid b.cid with
  | some p => some ⟨prefixBytes p, b.data⟩
  | none => none

def toIPLD (m : Msg) : Option BMsg :=
  match allSome (m.blocks.map blkToB) with
  | none => none
  | some bs =>
    some { req := (nonEmpty m.requests).map (·.map reqToB),
           rsp := (nonEmpty m.responses).map (·.map rspToB),
           blk := nonEmpty bs }

def reqFromB (r : BReq) : Option Request :=
  if r.id.length ≠ 16 then none else
  match reqTypeOfName r.type with
  | .cancel => some { id := r.id, type := .cancel }
  | .update => some { id := r.id, type := .update, exts := r.ext.getD [] }
  | .new => some { id := r.id, type := .new, priority := r.pri.getD 0, root := r.root,
                   selector := r.sel, exts := r.ext.getD [] }

def rspFromB (r : BRsp) : Option Response :=
  if r.id.length ≠ 16 then none else
  some { id := r.id, status := r.status, metadata := r.md.getD [], exts := r.ext.getD [] }

def blkFromB (hash : Hash) (b : BBlk) : Option Block :=
  match parsePrefix b.pfx with
  | none => none
  | some p =>
    match sumCid hash p b.data with
    | none => none
    | some c => some ⟨c, b.data⟩

def fromIPLD (hash : Hash) (m : BMsg) : Option Msg :=
  match allSome ((m.req.getD []).map reqFromB),
        allSome ((m.rsp.getD []).map rspFromB),
        allSome ((m.blk.getD []).map (blkFromB hash)) with
  | some rq, some rs, some bl =>
    some { requests := dedupLast (·.id) rq, responses := dedupLast (·.id) rs, blocks := dedupLast (·.cid) bl }
  | _, _, _ => none

/-! ## framing -/

def maxMsgSize : Nat := 4194304

def frame (payload : Bytes) : Bytes := putUvarint payload.length ++ payload

/-- `ToNet`: `none` = the Go encoder returns an error -/
def encodeMsg (m : Msg) : Option Bytes :=
  match toIPLD m with
  | none => none
  | some b => match bmsgToVal b with
    | none => none
    | some v => some (frame (encodeVal v))

inductive FrameResult where
  | eof                                  -- clean end of stream (io.EOF)
  | err                                  -- any other error
  | ok (payload rest : Bytes)
deriving Repr

/-- `NextMsgLen` + `ReadMsg` of the msgio varint reader with max size 4 MiB, as FromMsgReader uses
    them: `eof` only if the stream ends before the first byte of a length prefix -/
def readFrame (bs : Bytes) : FrameResult :=
  match bs with
  | [] => .eof
  | _ =>
    match uvarint bs with
    | none => .err
    | some (len, rest) =>
      if len = 0 then .ok [] rest
      else if len > maxMsgSize then .err
      else if rest.length < len then .err  -- also when nothing follows the prefix (FromMsgReader maps
                                           -- a bare io.EOF after the length prefix to ErrUnexpectedEOF)
      else .ok (rest.take len) (rest.drop len)

/-- `TypeFromBytes` + `fromIPLD` on one frame payload -/
def decodePayload (hash : Hash) (payload : Bytes) : Option Msg :=
  match decodeBlock payload with
  | none => none
  | some v => match valToBMsg v with
    | none => none
    | some b => fromIPLD hash b

inductive DecodeResult where
  | eof | err | ok (m : Msg) (rest : Bytes)
deriving Repr

/-- `FromMsgReader`: one message off the front of the stream -/
def decodeOne (hash : Hash) (bs : Bytes) : DecodeResult :=
  match readFrame bs with
  | .eof => .eof
  | .err => .err
  | .ok p rest => match decodePayload hash p with
    | some m => .ok m rest
    | none => .err

/-- `FromNet` on a byte string that is expected to hold one message (the rest is not looked at) -/
def decodeMsg (hash : Hash) (bs : Bytes) : Option Msg :=
  match decodeOne hash bs with
  | .ok m _ => some m
  | _ => none

/-- repeated `FromMsgReader` on one reader until it fails: the messages delivered and whether the
    loop ended with a clean EOF (`true`) or an error (`false`). -/
def decodeStreamFuel (hash : Hash) : Nat → Bytes → List Msg × Bool
  | 0, _ => ([], false)
  | fuel + 1, bs =>
    match decodeOne hash bs with
    | .eof => ([], true)
    | .err => ([], false)
    | .ok m rest => let (ms, e) := decodeStreamFuel hash fuel rest; (m :: ms, e)

def decodeStream (hash : Hash) (bs : Bytes) : List Msg × Bool := decodeStreamFuel hash (bs.length + 1) bs

/-! ## the equivalence the API exposes -/

def normExts (es : List Ext) : List Ext := kvsToExts (sortKVs (sortValKVs (extsToKVs es)))

def normReq (r : Request) : Request :=
  match r.type with
  | .cancel => { id := r.id, type := .cancel }
  | .update => { id := r.id, type := .update, exts := normExts r.exts }
  | .new => { r with selector := r.selector.map sortVal, exts := normExts r.exts }

def normRsp (r : Response) : Response := { r with exts := normExts r.exts }

def norm (m : Msg) : Msg :=
  { requests := m.requests.map normReq, responses := m.responses.map normRsp, blocks := m.blocks }

/-! ## extension codecs -/

/-- cidset.EncodeCidSet (the element order is the iteration order of a Go map) -/
def encodeCidSet (cids : List Bytes) : Val := .array (cids.map .link)

def dedup : List Bytes → List Bytes
  | [] => []
  | c :: cs => if cs.contains c then dedup cs else c :: dedup cs

/-- cidset.DecodeCidSet: the set, as a duplicate-free list -/
def decodeCidSet : Val → Option (List Bytes)
  | .array xs =>
    match allSome (xs.map valToLink) with
    | some cs => some (dedup cs)
    | none => none
  | _ => none

def encodeDedupKey (key : Bytes) : Val := .text key

def decodeDedupKey : Val → Option Bytes
  | .text s => some s
  | _ => none

def encodeFirstBlocks (n : Int) : Val := intToVal n

/-- `AsInt`: an unsigned value above MaxInt64 is an error -/
def decodeFirstBlocks : Val → Option Int
  | .uint n => if n < 9223372036854775808 then some (Int.ofNat n) else none
  | .nint n => some (-1 - Int.ofNat n)
  | _ => none

/-! ## read loop of handleNewStream -/

/-- what one iteration's `FromMsgReader` + `ReceiveMessage` did -/
inductive Outcome where
  | msg (m : Msg)            -- decoded and delivered
  | msgPanic (m : Msg)       -- decoded, the receiver panicked while handling it
  | eof                      -- io.EOF
  | error                    -- any other decode error
  | panic                    -- the decoder panicked
deriving Repr

inductive Event where
  | deliver (m : Msg)        -- receiver.ReceiveMessage
  | reset                    -- s.Reset()
  | receiveError             -- receiver.ReceiveError
  | close                    -- deferred s.Close()
deriving Repr

/-- one action of the generated loop description as events (`deliver` needs the decoded message) -/
def actEvent (m : Option Msg) : StreamLoop.Act → List Event
  | .deliver => match m with
    | some m => [.deliver m]
    | none => []
  | .reset => [.reset]
  | .receiveError => [.receiveError]
  | .close => [.close]

def runActs (m : Option Msg) (as : List StreamLoop.Act) : List Event := as.flatMap (actEvent m)

/-- handleNewStream with a receiver installed: events for the given sequence of iteration outcomes
    (if the outcomes run out, the loop is still blocked in a read: nothing more happens).
    What is done in each situation is NOT written here: it is the table GS/Generated/StreamLoop.lean
    extracted from network/libp2p_impl.go on every run (success path, failure branch behind the
    `err != io.EOF` test, end-of-stream branch, recovered panic, deferred calls). -/
def handleStream : List Outcome → List Event
  | [] => []
  | .msg m :: rest => runActs (some m) StreamLoop.onMessage ++ handleStream rest
  | .msgPanic m :: _ =>
    runActs (some m) StreamLoop.onMessage ++ runActs none StreamLoop.onPanic ++ runActs none StreamLoop.deferred
  | .eof :: _ => runActs none StreamLoop.onEOF ++ runActs none StreamLoop.deferred
  | .error :: _ => runActs none StreamLoop.onError ++ runActs none StreamLoop.deferred
  | .panic :: _ => runActs none StreamLoop.onPanic ++ runActs none StreamLoop.deferred

/-- the outcomes a complete (closed) byte stream produces when nothing panics -/
def outcomesOf (hash : Hash) (bs : Bytes) : List Outcome :=
  let (ms, e) := decodeStream hash bs
  ms.map .msg ++ [if e then .eof else .error]

/-! ## well-formed messages (executable; this is the hypothesis of C11.roundtrip) -/

def distinctBy {α : Type} (key : α → Bytes) : List α → Bool
  | [] => true
  | x :: xs => !(xs.any fun y => key y == key x) && distinctBy key xs

def int32 (z : Int) : Bool := decide (-2147483648 ≤ z) && decide (z ≤ 2147483647)

def selNotNull : Option Val → Bool
  | some .null => false
  | _ => true

def wfReq (r : Request) : Bool :=
  decide (r.id.length = 16) && int32 r.priority && selNotNull r.selector

def wfRsp (r : Response) : Bool := decide (r.id.length = 16)

def wfBlk (hash : Hash) (b : Block) : Bool :=
  match prefixOfCid b.cid with
  | some p => sumCid hash p b.data == some b.cid
  | none => false

/-- the value handed to the codec, if the message can be encoded at all (`none`: an undefined status
    code, a link action that is not one of the four constants, a block whose CID does not parse) -/
def msgVal (m : Msg) : Option Val :=
  match toIPLD m with
  | none => none
  | some b => bmsgToVal b

/-- "Well-formed": constructible with the public constructors from valid parts and small enough to
    be framed.
    * request ids are 16 bytes and pairwise distinct (they are keys of a Go map); same for responses;
      priorities are int32
    * the selector is not the null node (the schema says `optional Any`, not nullable)
    * status codes are defined ones and link actions are the four Go constants (`msgVal m` exists)
    * each block's CID is the one its prefix and data hash to; block CIDs are distinct
    * all IPLD data inside (selector, extension data, roots, metadata links) is valid DAG-CBOR data
      within the decoder's limits (`wfVal`: finite floats, valid CIDs, no duplicate map keys -- this
      includes distinct extension names --, strings <= 32 MiB, nesting <= 1024)
    * the encoding fits the 4 MiB frame limit and the decoder's allocation budget -/
def wf (hash : Hash) (m : Msg) : Bool :=
  distinctBy (·.id) m.requests && m.requests.all wfReq &&
  distinctBy (·.id) m.responses && m.responses.all wfRsp &&
  distinctBy (·.cid) m.blocks && m.blocks.all (wfBlk hash) &&
  match msgVal m with
  | none => false
  | some v => wfVal v && decide (depthVal v ≤ maxDepth) && decide ((encodeVal v).length ≤ maxMsgSize) &&
              decide (cost v ≤ defaultBudget)

end GS.Wire
