import GSProofs.Lemmas.AllocatorInv
/-!
# Allocator: what each operation does to a well-formed state
(preservation of `WF`, the no-lost-wake-up invariant `NLW`, per-peer views)
-/
namespace GS.Alloc

/-! ## per-peer views -/

def totalIn (ps : List PeerSt) (p : Nat) : Nat :=
  match findPeer ps p with
  | some st => st.total
  | none => 0

def pendingIn (ps : List PeerSt) (p : Nat) : List Pending :=
  match findPeer ps p with
  | some st => st.pending
  | none => []

theorem allocatedFor_eq (s : State) (p : Nat) : allocatedFor s p = totalIn s.peers p := rfl
theorem pendingOf_eq (s : State) (p : Nat) : pendingOf s p = pendingIn s.peers p := rfl

theorem findPeer_setPeer {ps : List PeerSt} {st st0 : PeerSt} (h0 : st0 ∈ ps) (hid : st0.id = st.id)
    (q : Nat) : findPeer (setPeer ps st) q = if q = st.id then some st else findPeer ps q := by
  by_cases hq : q = st.id
  · subst hq; simp only [if_true]
    cases hf : findPeer ps st.id with
    | none => exact absurd hid (findPeer_none hf st0 h0)
    | some x => exact findPeer_setPeer_same hf
  · simp only [hq, if_false]; exact findPeer_setPeer_ne hq

theorem findPeer_erasePeer (ps : List PeerSt) (p q : Nat) :
    findPeer (erasePeer ps p) q = if q = p then none else findPeer ps q := by
  by_cases hq : q = p
  · subst hq; simp only [if_true]; exact findPeer_erasePeer_same _ _
  · simp only [hq, if_false]; exact findPeer_erasePeer_ne hq

theorem totalIn_setPeer {ps : List PeerSt} {st st0 : PeerSt} (h0 : st0 ∈ ps) (hid : st0.id = st.id)
    (q : Nat) : totalIn (setPeer ps st) q = if q = st.id then st.total else totalIn ps q := by
  unfold totalIn; rw [findPeer_setPeer h0 hid]; by_cases hq : q = st.id <;> simp [hq]

theorem pendingIn_setPeer {ps : List PeerSt} {st st0 : PeerSt} (h0 : st0 ∈ ps) (hid : st0.id = st.id)
    (q : Nat) : pendingIn (setPeer ps st) q = if q = st.id then st.pending else pendingIn ps q := by
  unfold pendingIn; rw [findPeer_setPeer h0 hid]; by_cases hq : q = st.id <;> simp [hq]

theorem totalIn_erasePeer (ps : List PeerSt) (p q : Nat) :
    totalIn (erasePeer ps p) q = if q = p then 0 else totalIn ps q := by
  unfold totalIn; rw [findPeer_erasePeer]; by_cases hq : q = p <;> simp [hq]

theorem pendingIn_erasePeer (ps : List PeerSt) (p q : Nat) :
    pendingIn (erasePeer ps p) q = if q = p then [] else pendingIn ps q := by
  unfold pendingIn; rw [findPeer_erasePeer]; by_cases hq : q = p <;> simp [hq]

theorem totalIn_of_mem {ps : List PeerSt} {st : PeerSt} (hn : (ids ps).Nodup) (h : st ∈ ps) :
    totalIn ps st.id = st.total := by
  unfold totalIn; rw [findPeer_of_mem hn h]

theorem pendingIn_of_mem {ps : List PeerSt} {st : PeerSt} (hn : (ids ps).Nodup) (h : st ∈ ps) :
    pendingIn ps st.id = st.pending := by
  unfold pendingIn; rw [findPeer_of_mem hn h]

theorem le_sum_of_mem (f : PeerSt → Nat) {ps : List PeerSt} {st : PeerSt} (h : st ∈ ps) :
    f st ≤ (ps.map f).sum := by
  induction ps with
  | nil => cases h
  | cons a rest ih =>
    simp only [List.map_cons, List.sum_cons]
    rcases List.mem_cons.mp h with rfl | h
    · omega
    · have := ih h; omega

/-! ## the no-lost-wake-up invariant -/

/-- If some waiting head fits its own peer's limit, then the one among those with the smallest
    request index does not fit under the total limit. -/
def NLW (s : State) : Prop :=
  ∀ m ∈ s.peers, ∀ h, HeadFits s.maxPeer m h →
    (∀ c ∈ s.peers, ∀ h', HeadFits s.maxPeer c h' → h.idx ≤ h'.idx) →
    s.maxTotal < s.total + h.amount

theorem NLW_of_loopStep_none {pick : Pick} (hp : Admissible pick) {s : State} (hw : WF s)
    (h : loopStep pick s = none) : NLW s := by
  have hc := loopStep_cases hp hw
  rw [h] at hc
  intro m hm hd hHF hmin'
  cases hc with
  | stopEmpty he => rw [he] at hm; cases hm
  | stopTotal np h0 rest hmem hmin hpend hnofit =>
    by_cases hfp : np.total + h0.amount ≤ s.maxPeer
    · have l1 := hmin' np hmem h0 ⟨⟨rest, hpend⟩, hfp⟩
      have l2 := min_of_headFits hmin hpend hfp m hm hd hHF
      obtain ⟨⟨r', hp'⟩, _⟩ := hHF
      have hid := hw.inj m hm np hmem hd (by rw [hp']; simp) h0 (by rw [hpend]; simp) (by omega)
      have := eq_of_mem_of_id_eq hw.nodup hm hmem hid
      subst this
      rw [hpend] at hp'
      cases hp'
      exact hnofit
    · exact absurd hHF (no_headFits_of_min_nofit hmin hpend (by omega) m hm hd)
  | stopPeer np h0 rest hmem hmin hpend hnofit =>
    exact absurd hHF (no_headFits_of_min_nofit hmin hpend hnofit m hm hd)
  | stopIdle np hmem hmin hpend hpos =>
    obtain ⟨⟨r', hp'⟩, _⟩ := hHF
    have := no_pending_of_min_empty hmin hpend m hm
    rw [this] at hp'; cases hp'

/-! ## facts about the whole wake-up loop -/

section loop
variable {pick : Pick} (hp : Admissible pick)
include hp

theorem processPending_WF {s : State} (hw : WF s) : WF (processPending pick s).1 :=
  processPending_rec hp (motive := fun _ r => WF r.1)
    (fun _ hw _ => hw) (fun _ _ _ _ _ _ _ ih => ih) s hw

theorem processPending_NLW {s : State} (hw : WF s) : NLW (processPending pick s).1 :=
  processPending_rec hp (motive := fun _ r => NLW r.1)
    (fun _ hw h => NLW_of_loopStep_none hp hw h) (fun _ _ _ _ _ _ _ ih => ih) s hw

theorem processPending_cfg {s : State} (hw : WF s) :
    (processPending pick s).1.maxTotal = s.maxTotal ∧ (processPending pick s).1.maxPeer = s.maxPeer ∧
    (processPending pick s).1.nextIdx = s.nextIdx :=
  processPending_rec hp
    (motive := fun s r => r.1.maxTotal = s.maxTotal ∧ r.1.maxPeer = s.maxPeer ∧ r.1.nextIdx = s.nextIdx)
    (fun _ _ _ => ⟨rfl, rfl, rfl⟩)
    (fun _ _ _ _ _ _ hl ih => by
      have := loopStep_cfg hl
      exact ⟨ih.1.trans this.1, ih.2.1.trans this.2.1, ih.2.2.trans this.2.2⟩) s hw

/-- the loop never creates an entry for a peer that has none -/
theorem processPending_absent {s : State} (hw : WF s) {p : Nat} (h : findPeer s.peers p = none) :
    findPeer (processPending pick s).1.peers p = none ∧
    ∀ t a, Event.granted p t a ∉ (processPending pick s).2 := by
  refine processPending_rec hp
    (motive := fun s r => findPeer s.peers p = none →
      findPeer r.1.peers p = none ∧ ∀ t a, Event.granted p t a ∉ r.2)
    (fun _ _ _ h => ⟨h, by simp⟩) ?_ s hw h
  intro s s1 e r hw _ hl ih hnone
  have hc := loopStep_cases hp hw
  rw [hl] at hc
  cases hc with
  | grant np hd rest hmem hmin hpend h1 h2 =>
    have hne : p ≠ np.id := fun e => findPeer_none hnone np hmem e.symm
    have : findPeer (grantState s np hd rest).peers p = none := by
      show findPeer (setPeer s.peers _) p = none
      rw [findPeer_setPeer_ne (by exact hne)]; exact hnone
    have ih' := ih this
    refine ⟨ih'.1, ?_⟩
    intro t a hmem'
    rcases List.mem_append.mp hmem' with h | h
    · simp only [List.mem_cons, List.not_mem_nil, or_false] at h
      injection h with h; exact hne h
    · exact ih'.2 t a h
  | erase np hmem hmin hpend ht =>
    have : findPeer (erasePeer s.peers np.id) p = none := by
      rw [findPeer_erasePeer]; split
      · rfl
      · exact hnone
    have ih' := ih this
    exact ⟨ih'.1, by simpa using ih'.2⟩

/-- the wake-up loop emits `granted` events only -/
theorem processPending_events {s : State} (hw : WF s) :
    ∀ e ∈ (processPending pick s).2, ∃ p t a, e = Event.granted p t a := by
  refine processPending_rec hp (motive := fun _ r => ∀ e ∈ r.2, ∃ p t a, e = Event.granted p t a)
    (fun _ _ _ => by simp) ?_ s hw
  intro s s1 e r hw _ hl ih
  have hc := loopStep_cases hp hw
  rw [hl] at hc
  cases hc with
  | grant np hd rest hmem hmin hpend h1 h2 =>
    intro x hx
    rcases List.mem_append.mp hx with h | h
    · simp only [List.mem_cons, List.not_mem_nil, or_false] at h
      exact ⟨_, _, _, h⟩
    · exact ih x h
  | erase np hmem hmin hpend ht => simpa using ih

end loop

/-! ## AllocateBlockMemory -/

/-- body of `alloc` once the peer's entry `st` is known to exist in `s`. -/
def allocAt (s : State) (st : PeerSt) (p amount ticket : Nat) : State × List Event :=
  if fits s.total amount s.maxTotal && fits st.total amount s.maxPeer && st.pending.isEmpty then
    ({ s with total := add64 s.total amount,
              peers := setPeer s.peers { st with total := add64 st.total amount } },
     [Event.granted p ticket amount])
  else
    ({ s with nextIdx := s.nextIdx + 1,
              peers := setPeer s.peers
                { st with pending := st.pending ++ [{ amount, idx := s.nextIdx, ticket }] } }, [])

/-- `s` after the get-or-create prologue. -/
def ensured (s : State) (p : Nat) : State := { s with peers := (getOrNew s.peers p).2 }

theorem alloc_eq (s : State) (p a t : Nat) :
    alloc s p a t = allocAt (ensured s p) (getOrNew s.peers p).1 p a t := rfl

theorem getOrNew_cases (ps : List PeerSt) (p : Nat) :
    (∃ st, findPeer ps p = some st ∧ getOrNew ps p = (st, ps)) ∨
    (findPeer ps p = none ∧
      getOrNew ps p = ({ id := p, total := 0, pending := [] }, ps ++ [{ id := p, total := 0, pending := [] }])) := by
  unfold getOrNew
  cases h : findPeer ps p with
  | some st => left; exact ⟨st, rfl, rfl⟩
  | none => right; exact ⟨rfl, rfl⟩

theorem NLW.addPeer {s : State} (h : NLW s) (p : Nat) :
    NLW { s with peers := s.peers ++ [{ id := p, total := 0, pending := [] }] } := by
  intro m hm hd hHF hmin
  rcases List.mem_append.mp hm with hm' | hm'
  · exact h m hm' hd hHF (fun c hc => hmin c (List.mem_append_left _ hc))
  · simp only [List.mem_cons, List.not_mem_nil, or_false] at hm'
    obtain ⟨⟨r, hr⟩, _⟩ := hHF
    rw [hm'] at hr; cases hr

structure Ensured (s : State) (p : Nat) (s0 : State) (st : PeerSt) : Prop where
  wf : WF s0
  nlw : NLW s → NLW s0
  mem : st ∈ s0.peers
  id : st.id = p
  total : s0.total = s.total
  maxTotal : s0.maxTotal = s.maxTotal
  maxPeer : s0.maxPeer = s.maxPeer
  nextIdx : s0.nextIdx = s.nextIdx
  totalIn : ∀ q, totalIn s0.peers q = totalIn s.peers q
  pendingIn : ∀ q, pendingIn s0.peers q = pendingIn s.peers q

theorem ensured_spec {s : State} (hw : WF s) (p : Nat) :
    Ensured s p (ensured s p) (getOrNew s.peers p).1 := by
  unfold ensured
  rcases getOrNew_cases s.peers p with ⟨st, hf, hg⟩ | ⟨hf, hg⟩
  · rw [hg]
    have := findPeer_some hf
    exact ⟨hw, id, this.1, this.2, rfl, rfl, rfl, rfl, fun _ => rfl, fun _ => rfl⟩
  · rw [hg]
    refine ⟨hw.addPeer hf, fun h => h.addPeer p, by simp, rfl, rfl, rfl, rfl, rfl, ?_, ?_⟩
    · intro q
      show GS.Alloc.totalIn (s.peers ++ [_]) q = _
      unfold GS.Alloc.totalIn
      rw [findPeer_append_new]
      by_cases hq : p = q
      · subst hq; simp [hf]
      · cases hfq : findPeer s.peers q <;> simp [hq]
    · intro q
      show GS.Alloc.pendingIn (s.peers ++ [_]) q = _
      unfold GS.Alloc.pendingIn
      rw [findPeer_append_new]
      by_cases hq : p = q
      · subst hq; simp [hf]
      · cases hfq : findPeer s.peers q <;> simp [hq]

/-- the two outcomes of `allocAt` in a well-formed state, with `add64` resolved -/
inductive AllocCase (s : State) (st : PeerSt) (p a t : Nat) : State × List Event → Prop
  | grant : st.pending = [] → s.total + a ≤ s.maxTotal → st.total + a ≤ s.maxPeer →
      AllocCase s st p a t
        ({ s with total := s.total + a, peers := setPeer s.peers { st with total := st.total + a } },
         [Event.granted p t a])
  | defer : ¬ (st.pending = [] ∧ s.total + a ≤ s.maxTotal ∧ st.total + a ≤ s.maxPeer) →
      AllocCase s st p a t
        ({ s with nextIdx := s.nextIdx + 1,
                  peers := setPeer s.peers
                    { st with pending := st.pending ++ [{ amount := a, idx := s.nextIdx, ticket := t }] } }, [])

theorem allocAt_cases {s : State} (hw : WF s) (st : PeerSt) (p a t : Nat) :
    AllocCase s st p a t (allocAt s st p a t) := by
  unfold allocAt
  by_cases hc : st.pending = [] ∧ s.total + a ≤ s.maxTotal ∧ st.total + a ≤ s.maxPeer
  · obtain ⟨h0, h1, h2⟩ := hc
    have e1 : add64 s.total a = s.total + a := add64_eq_add (Nat.lt_of_le_of_lt h1 hw.cfgT)
    have e2 : add64 st.total a = st.total + a := add64_eq_add (Nat.lt_of_le_of_lt h2 hw.cfgP)
    have c : (fits s.total a s.maxTotal && fits st.total a s.maxPeer && st.pending.isEmpty) = true := by
      simp [(fits_iff _ _ _).mpr h1, (fits_iff _ _ _).mpr h2, h0]
    rw [if_pos c, e1, e2]
    exact .grant h0 h1 h2
  · have c : ¬ (fits s.total a s.maxTotal && fits st.total a s.maxPeer && st.pending.isEmpty) = true := by
      intro hc'
      simp only [Bool.and_eq_true, fits_iff, List.isEmpty_iff] at hc'
      exact hc ⟨hc'.2, hc'.1.1, hc'.1.2⟩
    rw [if_neg c]
    exact .defer hc

theorem allocAt_WF {s : State} (hw : WF s) {st : PeerSt} (hmem : st ∈ s.peers) (p a t : Nat) :
    WF (allocAt s st p a t).1 := by
  have hc := allocAt_cases hw st p a t
  generalize allocAt s st p a t = r at hc ⊢
  cases hc with
  | grant h0 h1 h2 =>
    refine hw.update (st := { st with total := st.total + a }) (n := s.nextIdx) hmem rfl ?_ h1 h2
      (Nat.le_refl _) (hw.sorted st hmem) (hw.bound st hmem) (fun pa h => Or.inl h)
    simp only; omega
  | defer hn =>
    refine hw.update (st := { st with pending := st.pending ++ [{ amount := a, idx := s.nextIdx, ticket := t }] })
      (n := s.nextIdx + 1) (T := s.total) hmem rfl rfl hw.limT (hw.limP st hmem) (Nat.le_succ _) ?_ ?_ ?_
    · simp only [List.map_append, List.map_cons, List.map_nil]
      refine List.pairwise_append.mpr ⟨hw.sorted st hmem, by simp, ?_⟩
      intro x hx y hy
      simp only [List.mem_cons, List.not_mem_nil, or_false] at hy
      obtain ⟨pa, hpa, rfl⟩ := List.mem_map.mp hx
      rw [hy]; exact hw.bound st hmem pa hpa
    · intro pa hpa
      rcases List.mem_append.mp hpa with h | h
      · exact Nat.lt_succ_of_lt (hw.bound st hmem pa h)
      · simp only [List.mem_cons, List.not_mem_nil, or_false] at h; rw [h]; exact Nat.lt_succ_self _
    · intro pa hpa
      rcases List.mem_append.mp hpa with h | h
      · exact Or.inl h
      · simp only [List.mem_cons, List.not_mem_nil, or_false] at h; rw [h]; exact Or.inr (Nat.le_refl _)

theorem allocAt_NLW {s : State} (hw : WF s) (hn : NLW s) {st : PeerSt} (hmem : st ∈ s.peers)
    (p a t : Nat) : NLW (allocAt s st p a t).1 := by
  have hc := allocAt_cases hw st p a t
  generalize allocAt s st p a t = r at hc ⊢
  cases hc with
  | grant h0 h1 h2 =>
    intro m hm hd hHF hmin
    rcases mem_setPeer hm with e | ⟨hm', hne⟩
    · obtain ⟨⟨r, hr⟩, _⟩ := hHF
      rw [e] at hr; simp only [h0] at hr; cases hr
    · have := hn m hm' hd hHF (by
        intro c hc h' hHF'
        by_cases hcid : c.id = st.id
        · have := eq_of_mem_of_id_eq hw.nodup hc hmem hcid
          obtain ⟨⟨r, hr⟩, _⟩ := hHF'
          rw [this, h0] at hr; cases hr
        · exact hmin c (mem_setPeer_of_ne hc hcid) h' hHF')
      show s.maxTotal < s.total + a + hd.amount
      omega
  | defer hcond =>
    intro m hm hd hHF hmin
    show s.maxTotal < s.total + hd.amount
    have hst'mem : ({ st with pending := st.pending ++ [{ amount := a, idx := s.nextIdx, ticket := t }] } : PeerSt)
        ∈ setPeer s.peers { st with pending := st.pending ++ [{ amount := a, idx := s.nextIdx, ticket := t }] } :=
      mem_setPeer_self hmem rfl
    -- minimality transported back to the old state
    have oldmin : ∀ hd0 : Pending, (∀ c ∈ setPeer s.peers
          { st with pending := st.pending ++ [{ amount := a, idx := s.nextIdx, ticket := t }] },
          ∀ h', HeadFits s.maxPeer c h' → hd0.idx ≤ h'.idx) →
        ∀ c ∈ s.peers, ∀ h', HeadFits s.maxPeer c h' → hd0.idx ≤ h'.idx := by
      intro hd0 hmin0 c hc h' hHF'
      by_cases hcid : c.id = st.id
      · have hcst := eq_of_mem_of_id_eq hw.nodup hc hmem hcid
        obtain ⟨⟨r, hr⟩, hfit⟩ := hHF'
        rw [hcst] at hr hfit
        exact hmin0 _ hst'mem h' ⟨⟨r ++ [{ amount := a, idx := s.nextIdx, ticket := t }], by simp [hr]⟩, hfit⟩
      · exact hmin0 c (mem_setPeer_of_ne hc hcid) h' hHF'
    rcases mem_setPeer hm with e | ⟨hm', hne⟩
    · obtain ⟨⟨r, hr⟩, hfit⟩ := hHF
      rw [e] at hr hfit
      simp only at hr hfit
      rcases hpe : st.pending with _ | ⟨h0, r0⟩
      · rw [hpe] at hr
        simp only [List.nil_append, List.cons.injEq] at hr
        have hda : hd.amount = a := by rw [← hr.1]
        rw [hda] at hfit ⊢
        by_cases htot : s.total + a ≤ s.maxTotal
        · exact absurd ⟨hpe, htot, hfit⟩ hcond
        · omega
      · rw [hpe] at hr
        simp only [List.cons_append, List.cons.injEq] at hr
        have hHF0 : HeadFits s.maxPeer st hd := ⟨⟨r0, by rw [hpe, hr.1]⟩, hfit⟩
        exact hn st hmem hd hHF0 (oldmin hd hmin)
    · exact hn m hm' hd hHF (oldmin hd hmin)

/-! ## ReleaseBlockMemory / ReleasePeerMemory before the wake-up loop -/

theorem releaseCore_none {s : State} {p a : Nat} (h : releaseCore s p a = none) :
    findPeer s.peers p = none := by
  unfold releaseCore at h
  cases hf : findPeer s.peers p with
  | none => rfl
  | some st => simp [hf] at h

/-- `releaseCore` on an existing peer: subtracts `min a total` from the peer and the total. -/
theorem releaseCore_some {s : State} (hw : WF s) {p a : Nat} {st : PeerSt}
    (hf : findPeer s.peers p = some st) :
    releaseCore s p a =
      some ({ s with total := s.total - min a st.total,
                     peers := setPeer s.peers { st with total := st.total - min a st.total } },
            Event.released p (min a st.total)) ∧ min a st.total ≤ s.total := by
  have hmem := (findPeer_some hf).1
  have hle : st.total ≤ s.total := by rw [hw.sum]; exact le_sum_of_mem (·.total) hmem
  unfold releaseCore
  simp only [hf]
  have e : (if st.total ≥ a then a else st.total) = min a st.total := by
    split <;> omega
  rw [e]
  have : s.total ≥ min a st.total := by omega
  simp [this]

theorem releaseCore_WF {s : State} (hw : WF s) {p a : Nat} {st : PeerSt}
    (hf : findPeer s.peers p = some st) :
    WF { s with total := s.total - min a st.total,
                peers := setPeer s.peers { st with total := st.total - min a st.total } } := by
  have hmem := (findPeer_some hf).1
  have hle : st.total ≤ s.total := by rw [hw.sum]; exact le_sum_of_mem (·.total) hmem
  have := hw.limT
  have := hw.limP st hmem
  refine hw.update (st := { st with total := st.total - min a st.total }) (n := s.nextIdx) hmem rfl ?_ ?_ ?_
    (Nat.le_refl _) (hw.sorted st hmem) (hw.bound st hmem) (fun pa h => Or.inl h)
  · simp only; omega
  · omega
  · simp only; omega

theorem releasePeerCore_none {s : State} {p : Nat} (h : releasePeerCore s p = none) :
    findPeer s.peers p = none := by
  unfold releasePeerCore at h
  cases hf : findPeer s.peers p with
  | none => rfl
  | some st => simp [hf] at h

theorem releasePeerCore_some {s : State} (hw : WF s) {p : Nat} {st : PeerSt}
    (hf : findPeer s.peers p = some st) :
    releasePeerCore s p =
      some ({ s with total := s.total - st.total, peers := erasePeer s.peers p },
            Event.released p st.total :: st.pending.map (fun pa => Event.failed p pa.ticket)) := by
  have hmem := (findPeer_some hf).1
  have hle : st.total ≤ s.total := by rw [hw.sum]; exact le_sum_of_mem (·.total) hmem
  unfold releasePeerCore
  simp only [hf]
  have : s.total ≥ st.total := hle
  simp [this]

theorem releasePeerCore_WF {s : State} (hw : WF s) {p : Nat} {st : PeerSt}
    (hf : findPeer s.peers p = some st) :
    WF { s with total := s.total - st.total, peers := erasePeer s.peers p } := by
  have h := findPeer_some hf
  have := hw.erase h.1
  rw [h.2] at this; exact this

/-! ## the invariant of reachable states -/

/-- `WF` (structure, limits, sums, request indices) plus the no-lost-wake-up invariant. -/
structure Inv (s : State) : Prop where
  wf : WF s
  nlw : NLW s

theorem Inv.init {mt mp : Nat} (ht : mt < W) (hp : mp < W) : Inv (init mt mp) :=
  ⟨WF.init ht hp, by intro m hm; cases hm⟩

theorem alloc_Inv {s : State} (h : Inv s) (p a t : Nat) : Inv (alloc s p a t).1 := by
  rw [alloc_eq]
  have he := ensured_spec h.wf p
  exact ⟨allocAt_WF he.wf he.mem p a t, allocAt_NLW he.wf (he.nlw h.nlw) he.mem p a t⟩

theorem release_Inv {pick : Pick} (hp : Admissible pick) {s : State} (h : Inv s) (p a : Nat) :
    Inv (release pick s p a).1 := by
  unfold release
  cases hr : releaseCore s p a with
  | none => exact h
  | some r =>
    obtain ⟨s1, ev⟩ := r
    have hf : ∃ st, findPeer s.peers p = some st := by
      cases hf : findPeer s.peers p with
      | none => unfold releaseCore at hr; simp [hf] at hr
      | some st => exact ⟨st, rfl⟩
    obtain ⟨st, hf⟩ := hf
    have h1 := (releaseCore_some h.wf (a := a) hf).1
    rw [hr] at h1
    have hw1 : WF s1 := by
      have := releaseCore_WF h.wf (a := a) hf
      injection h1 with h1; rw [Prod.mk.injEq] at h1; rw [h1.1]; exact this
    exact ⟨processPending_WF hp hw1, processPending_NLW hp hw1⟩

theorem releasePeer_Inv {pick : Pick} (hp : Admissible pick) {s : State} (h : Inv s) (p : Nat) :
    Inv (releasePeer pick s p).1 := by
  unfold releasePeer
  cases hr : releasePeerCore s p with
  | none => exact h
  | some r =>
    obtain ⟨s1, ev⟩ := r
    have hf : ∃ st, findPeer s.peers p = some st := by
      cases hf : findPeer s.peers p with
      | none => unfold releasePeerCore at hr; simp [hf] at hr
      | some st => exact ⟨st, rfl⟩
    obtain ⟨st, hf⟩ := hf
    have h1 := releasePeerCore_some h.wf hf
    rw [hr] at h1
    have hw1 : WF s1 := by
      have := releasePeerCore_WF h.wf hf
      injection h1 with h1; rw [Prod.mk.injEq] at h1; rw [h1.1]; exact this
    exact ⟨processPending_WF hp hw1, processPending_NLW hp hw1⟩

theorem step_Inv {pick : Pick} (hp : Admissible pick) {s : State} (h : Inv s) (op : Op) :
    Inv (step pick s op).1 := by
  cases op with
  | alloc p a t => exact alloc_Inv h p a t
  | release p a => exact release_Inv hp h p a
  | releasePeer p => exact releasePeer_Inv hp h p

theorem run_Inv {pick : Pick} (hp : Admissible pick) {s : State} (h : Inv s) (ops : List Op) :
    Inv (run pick s ops).1 := by
  induction ops generalizing s with
  | nil => exact h
  | cons op ops ih => exact ih (step_Inv hp h op)

end GS.Alloc
