package main

import (
	"verifharness/reg"
	_ "verifharness/nodecaps"
)

func main() { reg.Main("nodecaps") }
