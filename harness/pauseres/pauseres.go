// Package pauseres: component "pauseres" (property C06 — pausing and resuming an exchange does not
// change its result).
//
// One request between two complete real graphsync nodes (package twonode).  Every case is run twice
// in the same process: once uninterrupted (baseline) and once with the pause(s) and resume(s) the case
// describes; the oracle compares the two runs and checks the responder's wire output while paused.
//
//	case <id> dag=<seed>:<maxblocks> sel=<name> side=req|resp mech=hook|api|both|step res=api|upd
//	          k=<n>[,<n>…] m=<n> sched=<seed> w=<dq>,<dr>,<r>,<s>[,<sq>] qg=0|1 sg=0|1 qs=0|1
//	remote <cids|->      responder's store
//	put <cid> …          requestor's store
//	run                  -> one summary line
//
// side  which peer pauses; mech  hook = hook action (PauseRequest / PauseResponse) in the k-th block
// hook of that side, api = GraphExchange.Pause called while that hook runs, both = the hook action AND
// GraphExchange.Pause in the same hook call (one pause requested twice), step = GraphExchange.Pause
// called by the harness at scheduler step k; res  api = GraphExchange.Unpause on the pausing side,
// upd = (responder pause only) the requestor sends an update and the responder's update hook calls
// UnpauseResponse; m = number of scheduler steps (message deliveries / gate releases) between the
// pause taking effect and the resume — the in-flight messages delivered while paused; whatever is
// still in flight at that moment is delivered after the resume.
// sched/w/qg/sg: the schedule.  At every globally quiescent point the scheduler picks one enabled
// action with the given weights: dq deliver the oldest requestor->responder message, dr deliver the
// oldest responder->requestor message, r let the requestor's traversal pass its block-hook gate
// (qg=1: it parks there after every block), s let the responder's traversal pass its store-read gate
// (sg=1: it parks before every block read), sq let a message the requestor's message queue is sending
// onto the network (qs=1: SendMsg parks, as under backpressure; later requests pile up in the queue's builder).
package pauseres

import (
	"bufio"
	"fmt"
	"math/rand"
	"os"
	"runtime"
	"sort"
	"strconv"
	"strings"
	"time"

	"github.com/ipfs/go-graphsync"

	"verifharness/quiesce"
	"verifharness/reg"
	tn "verifharness/twonode"
)

func init() {
	reg.Register(&reg.Component{Name: "pauseres", Gen: Gen, Run: Run})
}

type Params struct {
	Seed    int64
	MB      int
	Sel     string
	Side    int    // 0 requestor, 1 responder
	Mech    string // hook | api | step
	Res     string // api | upd
	K       []int
	M       int
	Sched   int64
	W       [5]int // dq, dr, r, s, sq
	QG, SG  bool
	QS      bool // the requestor's SendMsg parks until the scheduler releases it (network backpressure)
	NoPause bool
}

func parseHeader(h string) (Params, bool) {
	p := Params{Sel: "all", Mech: "hook", Res: "api", W: [5]int{1, 1, 1, 1, 1}}
	okDag := false
	for _, t := range strings.Fields(h)[2:] {
		kv := strings.SplitN(t, "=", 2)
		if len(kv) != 2 {
			return p, false
		}
		v := kv[1]
		switch kv[0] {
		case "dag":
			f := strings.Split(v, ":")
			if len(f) != 2 {
				return p, false
			}
			s, e1 := strconv.ParseInt(f[0], 10, 64)
			m, e2 := strconv.Atoi(f[1])
			if e1 != nil || e2 != nil || m < 1 || m > 30 {
				return p, false
			}
			p.Seed, p.MB, okDag = s, m, true
		case "sel":
			p.Sel = v
		case "side":
			switch v {
			case "req":
				p.Side = 0
			case "resp":
				p.Side = 1
			default:
				return p, false
			}
		case "mech":
			if v != "hook" && v != "api" && v != "step" && v != "both" {
				return p, false
			}
			p.Mech = v
		case "res":
			if v != "api" && v != "upd" {
				return p, false
			}
			p.Res = v
		case "k":
			l, ok := tn.ParseInts(v)
			if !ok || len(l) > 4 {
				return p, false
			}
			p.K = l
		case "m":
			n, err := strconv.Atoi(v)
			if err != nil || n < 0 {
				return p, false
			}
			p.M = n
		case "sched":
			n, err := strconv.ParseInt(v, 10, 64)
			if err != nil {
				return p, false
			}
			p.Sched = n
		case "w":
			l, ok := tn.ParseInts(v)
			if !ok || (len(l) != 4 && len(l) != 5) {
				return p, false
			}
			copy(p.W[:], l)
		case "qg":
			p.QG = v == "1"
		case "sg":
			p.SG = v == "1"
		case "qs":
			p.QS = v == "1"
		default:
			return p, false
		}
	}
	if p.Res == "upd" && p.Side == 0 {
		return p, false
	}
	return p, okDag
}

// ---------------------------------------------------------------- one run

type runOut struct {
	res         tn.Result
	store       []int
	hang        string
	steps       int
	pauses      int // pauses that took effect
	resumes     int
	sim         *tn.Sim
	req         *tn.ReqRun
	pauseSeq    []int // log seq at which each pause was observed to have taken effect
	resumeSeq   []int // log seq of each resume action
	staleAtRes  int   // responder->requestor messages in flight at the (first) resume
	bufAtPause  int
	unpauseErrs []string
	spurious    bool // paused although no requested pause was outstanding
}

const statePaused = int(graphsync.Paused)

var resumeExt = graphsync.ExtensionData{Name: graphsync.ExtensionName("verif/resume"), Data: nil}

func runOnce(w *tn.World, q *tn.Query, loc, rem []int, p Params, withPause bool) *runOut {
	s := tn.NewSim(w, loc, rem, 1)
	ro := &runOut{sim: s}
	r := s.AddRequest(q)
	ro.req = r
	s.ReqHookGate[0].Enable(p.QG)
	s.RespReadGate[0].Enable(p.SG)
	s.SendGate[0].Enable(p.QS)
	pending := append([]int{}, p.K...) // pause points not yet requested
	pauseRequested := false
	issued := 0 // pauses requested so far (one per pause point, whatever the number of sources)
	api := func(note string, f func() error) {
		s.LogEvent(tn.Event{Kind: tn.EvAPI, Req: 0, Note: note})
		if err := f(); err != nil {
			s.Locked(func() { ro.unpauseErrs = append(ro.unpauseErrs, note+": "+err.Error()) })
		}
	}
	if withPause && p.Mech != "step" {
		if p.Side == 0 {
			s.OnReqBlock = func(rr *tn.ReqRun, nth int, bd graphsync.BlockData, ha graphsync.IncomingBlockHookActions) {
				if len(pending) == 0 || pending[0] != nth {
					return
				}
				pending = pending[1:]
				pauseRequested = true
				issued++
				if p.Mech == "api" || p.Mech == "both" {
					api("pause-request", func() error { return s.Nodes[0].Pause(s.Ctx, rr.ID) })
				}
				if p.Mech == "hook" || p.Mech == "both" {
					s.LogEvent(tn.Event{Kind: tn.EvAPI, Req: 0, Note: "hook-pause-request"})
					ha.PauseRequest()
				}
			}
		} else {
			s.OnRespBlock = func(ri int, nth int, bd graphsync.BlockData, ha graphsync.OutgoingBlockHookActions) {
				if len(pending) == 0 || pending[0] != nth {
					return
				}
				pending = pending[1:]
				pauseRequested = true
				issued++
				if p.Mech == "api" || p.Mech == "both" {
					api("pause-response", func() error { return s.Nodes[1].Pause(s.Ctx, r.ID) })
				}
				if p.Mech == "hook" || p.Mech == "both" {
					s.LogEvent(tn.Event{Kind: tn.EvAPI, Req: 0, Note: "hook-pause-response"})
					ha.PauseResponse()
				}
			}
		}
	}
	s.OnUpdate = func(ri int, upd graphsync.RequestData, ha graphsync.RequestUpdatedHookActions) {
		if _, ok := upd.Extension(resumeExt.Name); ok {
			ha.UnpauseResponse()
		}
	}
	rng := rand.New(rand.NewSource(p.Sched))
	s.Start(r)
	paused := false
	awaitUnpause := false // a resume-by-update was issued; the update has not reached the responder yet
	updDelivered := false
	sincePause := 0
	isPaused := func() bool {
		if p.Side == 0 {
			return s.RequestorState(r) == statePaused
		}
		st, _ := s.ResponderState(r)
		return st == statePaused
	}
	resume := func() {
		ro.resumes++
		ro.resumeSeq = append(ro.resumeSeq, s.Seq()+1)
		if ro.resumes == 1 {
			ro.staleAtRes = s.InFlight(1)
		}
		switch {
		case p.Res == "upd":
			api("update-unpause", func() error { return s.Nodes[0].SendUpdate(s.Ctx, r.ID, resumeExt) })
		case p.Side == 0:
			api("unpause-request", func() error { return s.Nodes[0].Unpause(s.Ctx, r.ID) })
		default:
			api("unpause-response", func() error { return s.Nodes[1].Unpause(s.Ctx, r.ID) })
		}
		paused = false
		pauseRequested = false
		awaitUnpause = p.Res == "upd" // Unpause is synchronous; the update has to reach the responder first
	}
	for step := 0; ; step++ {
		s.Quiesce()
		ro.steps = step
		done := false
		s.Locked(func() { done = r.Closed() })
		if awaitUnpause && updDelivered {
			awaitUnpause, updDelivered = false, false
		}
		if withPause && !paused && !awaitUnpause && isPaused() {
			paused = true
			sincePause = 0
			ro.pauses++
			ro.pauseSeq = append(ro.pauseSeq, s.LogEvent(tn.Event{Kind: tn.EvState, Req: 0, Note: "paused"}))
			if ro.pauses > issued {
				// every requested pause has been resumed already: nobody will resume this one
				ro.hang = fmt.Sprintf("the exchange paused itself again (pause #%d) although only %d pause(s) were requested and all of them were resumed: it never finishes", ro.pauses, issued)
				ro.spurious = true
				break
			}
		}
		if paused && sincePause >= p.M {
			resume()
			continue
		}
		if withPause && p.Mech == "step" && len(pending) > 0 && pending[0] == step && !paused && !done {
			pending = pending[1:]
			pauseRequested = true
			issued++
			api("pause-step", func() error { return s.Nodes[p.Side].Pause(s.Ctx, r.ID) })
			continue
		}
		// enabled actions
		type act struct {
			w int
			f func()
		}
		var en []act
		if s.InFlight(0) > 0 {
			en = append(en, act{p.W[0], func() {
				if h := s.Head(0); h != nil {
					for _, rq := range h.Reqs {
						if rq.Type == graphsync.RequestTypeUpdate {
							updDelivered = true
						}
					}
				}
				if h := s.Head(0); h != nil && ro.resumes > 0 && p.Side == 0 {
					for _, rq := range h.Reqs {
						if rq.Type == graphsync.RequestTypeNew {
							if st, active := s.ResponderState(r); active || st >= 0 {
								s.LogEvent(tn.Event{Kind: tn.EvState, Req: 0, Note: "resumed-request-delivered-while-active"})
							}
						}
					}
				}
				s.Deliver(0)
			}})
		}
		if s.InFlight(1) > 0 {
			en = append(en, act{p.W[1], func() { s.Deliver(1) }})
		}
		if s.ReqHookGate[0].Waiting() > 0 {
			en = append(en, act{p.W[2], func() { s.ReqHookGate[0].Release() }})
		}
		if s.RespReadGate[0].Waiting() > 0 {
			en = append(en, act{p.W[3], func() { s.RespReadGate[0].Release() }})
		}
		if s.SendGate[0].Waiting() > 0 {
			en = append(en, act{p.W[4], func() { s.SendGate[0].Release() }})
		}
		if len(en) == 0 {
			if paused {
				resume()
				continue
			}
			if !done {
				ro.hang = fmt.Sprintf("nothing left to do at step %d but the request's channels are still open (requestor state %d, pause requested %v)", step, s.RequestorState(r), pauseRequested)
			}
			break
		}
		if done && s.InFlight(0) == 0 && s.InFlight(1) == 0 {
			// only gates of a finished exchange are left
			break
		}
		total := 0
		for _, a := range en {
			total += a.w
		}
		var pick act
		if total == 0 {
			pick = en[rng.Intn(len(en))]
		} else {
			x := rng.Intn(total)
			for _, a := range en {
				if x < a.w {
					pick = a
					break
				}
				x -= a.w
			}
		}
		pick.f()
		if paused {
			sincePause++
		}
		if step > 5000 {
			ro.hang = "more than 5000 scheduler steps"
			break
		}
	}
	ro.res = s.ResultOf(r)
	ro.store = s.StoreKeys(0)
	s.Close()
	return ro
}

// ---------------------------------------------------------------- oracle

// C02 known-finding input classes, decided from the case alone (the same predicates as the `exchange`
// oracle), evaluated for a go-online that happens when the requestor has successfully loaded the
// reference loads before position `from` ... i.e. for the request sent at the first local miss at or
// after reference step `from`.
//
//	root-not-found-abort : the responder lacks the root, the requestor holds it (and misses something)
//	skip-prefix-mismatch : the responder holds the root but lacks another block among the loads the
//	                       requestor performed successfully before going online, and the first N
//	                       links of the responder's own traversal (N = number of those loads = the
//	                       skip count) reach beyond the requestor's position
func c02Class(q *tn.Query, ref []tn.RefStep, have map[int]bool, rem map[int]bool, from int) (string, map[int]bool) {
	// position of the go-online: first reference step at or after `from` whose block is not held
	pos := -1
	n := 0 // successful loads before it
	for i, st := range ref {
		if i >= from && !have[q.LT[st.Node].Block] {
			pos = i
			break
		}
		if st.Avail {
			n++
		}
		if st.Fetched {
			have[q.LT[st.Node].Block] = true
		}
	}
	if pos < 0 || n == 0 {
		return "", nil
	}
	if !rem[q.LT[0].Block] {
		return "resume-root-not-found-abort", nil
	}
	lacks := false
	for i := 0; i < pos; i++ {
		if ref[i].Avail && !rem[q.LT[ref[i].Node].Block] {
			lacks = true
		}
	}
	if !lacks {
		return "", nil
	}
	// the blocks the requestor still needs that fall into the responder's skip window: only a failure
	// that names one of them is the documented finding
	nodes, present := q.ResponderStream(rem)
	win := map[int]bool{}
	for i, nd := range nodes {
		if i >= n {
			break
		}
		if nd >= ref[pos].Node && present[i] {
			win[q.LT[nd].Block] = true
		}
	}
	if len(win) > 0 {
		return "resume-skip-prefix-mismatch", win
	}
	for i, nd := range nodes {
		if i >= n {
			break
		}
		if nd >= ref[pos].Node {
			return "resume-skip-prefix-mismatch", win
		}
	}
	return "", nil
}

func copySet(m map[int]bool) map[int]bool {
	o := map[int]bool{}
	for k, v := range m {
		o[k] = v
	}
	return o
}

func judge(out *reg.Out, q *tn.Query, loc, rem []int, p Params, base, pr *runOut) {
	locS, remS := tn.SetOf(loc), tn.SetOf(rem)
	ref := q.RefTrav(locS, remS)
	// ---- C02's known-finding input classes.  `knownBase`: the UNINTERRUPTED exchange is itself in one of
	// them (its result is not the reference result: C02's business, the comparison says nothing about
	// pauses -> no verdict).  `knownResume`: only the request sent on resume is (C06's inherited class).
	knownBase, _ := c02Class(q, ref, copySet(locS), remS, 0)
	knownResume := ""
	var window map[int]bool
	if knownBase == "" && p.Side == 0 && pr.pauses > 0 {
		// the resumed request goes online again after k successful loads; k is counted from the paused
		// run's own event log at the moment the request is sent again
		var ks []int
		pr.sim.Locked(func() {
			first := true
			for _, e := range pr.sim.Log {
				// the moment a request is sent again after a resume: the executor may have consumed
				// left-over queue items of the cancelled response after Unpause, so the skip count of
				// the resumed request is the number of blocks loaded THEN, not at the pause
				if e.Kind != tn.EvSend || e.Pkt == nil || e.Pkt.Dir != 0 {
					continue
				}
				isNew := false
				for _, q := range e.Pkt.Reqs {
					if q.Type == graphsync.RequestTypeNew {
						isNew = true
					}
				}
				if !isNew {
					continue
				}
				if first {
					first = false
					continue
				}
				n := 0
				for _, h := range pr.sim.Log {
					if h.Kind == tn.EvReqHook && h.Seq < e.Seq {
						n++
					}
				}
				ks = append(ks, n)
			}
		})
		for _, k := range ks {
			cnt, from := 0, len(ref)
			for i, st := range ref {
				if st.Avail {
					cnt++
					if cnt == k {
						from = i + 1
						break
					}
				}
			}
			have := copySet(locS)
			for i := 0; i < from && i < len(ref); i++ {
				if ref[i].Avail {
					have[q.LT[ref[i].Node].Block] = true
				}
			}
			if c, w := c02Class(q, ref, have, remS, from); c != "" {
				knownResume, window = c, w
				break
			}
		}
	}
	if knownBase != "" {
		out.Cov("c02class.base." + knownBase)
	}
	if knownResume != "" {
		out.Cov("c02class." + knownResume)
		if os.Getenv("GS_TRACE") != "" {
			out.Line("#trace window %v", window)
		}
	}
	// ---- the uninterrupted run: a failure here is never a known finding of C06
	if base.hang != "" {
		out.Fail("harness-baseline-hang", "uninterrupted exchange: %s", base.hang)
		return
	}
	if knownBase == "resume-skip-prefix-mismatch" {
		// the uninterrupted exchange itself suffers C02's skip-prefix mismatch; the resumed request asks
		// with another skip count and may or may not: no verdict about pauses from this input
		out.Cov("verdict.withheld.c02-input-class")
		if pr.hang != "" && !pr.spurious {
			out.Fail("hang", "paused exchange (%d pause(s) took effect, %d resume(s)): %s", pr.pauses, pr.resumes, pr.hang)
		}
		return
	}
	if len(base.res.Hard) > 0 && ref[0].Avail && knownBase == "" {
		// the uninterrupted exchange with a cooperative responder is itself rejected by the requestor's
		// verification, outside C02's known input classes: impossible on the unchanged tree
		out.Fail("harness-baseline-rejected", "uninterrupted exchange failed verification: %s", strings.Join(base.res.Hard, " "))
		return
	}
	// ---- requestor-side classes decided from the paused run's own event log
	staleSeq, busy := staleAfterReopen(pr), resumeWhileActive(pr)
	stale := staleSeq >= 0
	if stale {
		out.Cov("req.stale-after-reopen")
	}
	if busy {
		out.Cov("req.resume-while-active")
	}
	if pr.spurious {
		out.Fail("pause-not-requested", "paused exchange (%d pause(s) took effect, %d resume(s)): %s", pr.pauses, pr.resumes, pr.hang)
		return
	}
	if pr.hang != "" {
		// a hang is never a known finding: `stale-response-after-resume` and `resume-skip-prefix-mismatch`
		// document wrong RESULTS of a request that ends; `resume-overtakes-cancel` (the only documented
		// hang) is repaired in /repo 0bfe189 — a recurrence is a VIOLATION under its own name
		c := "hang"
		if p.Side == 0 && busy {
			c = "resume-overtakes-cancel"
		}
		out.Fail(c, "paused exchange (%d pause(s) took effect, %d resume(s)): %s", pr.pauses, pr.resumes, pr.hang)
		return
	}
	if !ref[0].Avail {
		// neither peer holds the root: the terminal status (content not found) races with the
		// traversal's own report even in the uninterrupted exchange; only nodes and stores compare
		out.Cov("root-unavailable")
		base.res.Missing, pr.res.Missing, base.res.Hard, pr.res.Hard = nil, nil, nil, nil
	}
	// attribution of a result difference to a known finding (anything else stays `result-differs`)
	attribute := func() string {
		if p.Side != 0 {
			return "result-differs"
		}
		if stale && staleExplains(base, pr, staleSeq) {
			return "stale-response-after-resume"
		}
		if knownResume == "resume-skip-prefix-mismatch" && windowExplains(base.res, pr.res, window) {
			return knownResume
		}
		if knownBase != "" {
			return knownBase // resume-root-not-found-abort: not a known class of C06, a VIOLATION under its own name
		}
		return "result-differs"
	}
	if d := base.res.Diff(pr.res); d != "" {
		out.Fail(attribute(), "uninterrupted vs paused+resumed (%d pause(s), %d resume(s)): %s", pr.pauses, pr.resumes, d)
	} else if tn.FmtInts(base.store) != tn.FmtInts(pr.store) {
		out.Fail("result-differs", "stored blocks differ: uninterrupted [%s] vs paused+resumed [%s]", tn.FmtInts(base.store), tn.FmtInts(pr.store))
	}
	for _, e := range pr.unpauseErrs {
		out.Cov("api-error")
		_ = e
	}
	// ---- quiet while paused (responder pauses): no block data between the message that carries the
	// RequestPaused status (or, at the latest, the moment the response is observed paused) and the resume
	if p.Side == 1 {
		quiet(out, pr)
	}
}

// quiet: for every pause, the window starts right after the responder handed the message carrying
// status RequestPaused to the network and ends with the resume action.
func quiet(out *reg.Out, pr *runOut) {
	s := pr.sim
	var log []tn.Event
	s.Locked(func() { log = append(log, s.Log...) })
	ri := 0
	inWindow := false
	for _, e := range log {
		if ri < len(pr.resumeSeq) && e.Seq >= pr.resumeSeq[ri] {
			inWindow = false
			ri++
		}
		if e.Kind == tn.EvState && e.Note == "paused" {
			inWindow = true
		}
		if e.Kind != tn.EvSend || e.Side != 1 {
			continue
		}
		if inWindow && len(e.Pkt.BlockCids) > 0 {
			out.Fail("blocks-while-paused", "responder message #%d carries %d block(s) [%s] while the response is paused", e.Pkt.N, len(e.Pkt.BlockCids), tn.FmtInts(e.Pkt.BlockCids))
			return
		}
		for _, r := range e.Pkt.Resps {
			if r.Status == graphsync.RequestPaused {
				inWindow = true
			}
		}
	}
}

// staleAfterReopen: a responder message that belongs to the cancelled incarnation of the request
// (handed to the network before the responder received the resumed request) and carries metadata,
// blocks or a terminal status was delivered to the requestor after the requestor's loader had gone
// online again for the resumed request.  Protocol level: response messages carry only the request
// ID, the requestor cannot tell the two incarnations apart.  The loader goes online again at the
// first local miss after Unpause (executor.traverse, requestSent = false): in the event log that is
// the first failed store read of the requestor after the unpause call.
// hookSeqs: the incoming-block hook calls of a run, in order (block, seq)
func hookSeqs(ro *runOut) (cids []int, seqs []int) {
	ro.sim.Locked(func() {
		for _, e := range ro.sim.Log {
			if e.Kind == tn.EvReqHook {
				cids = append(cids, e.Cid)
				seqs = append(seqs, e.Seq)
			}
		}
	})
	return
}

// staleExplains: the difference between the two runs can be the documented effect of the stale
// message ingested at `staleSeq` — every load of the paused run BEFORE that moment is a load of the
// uninterrupted run at the same position (the first deviating load is at or after the stale ingest),
// and the paused run reports an additional verification / missing-block error and delivers a
// sub-sequence of the uninterrupted run's nodes (never other data).
func staleExplains(base, pr *runOut, staleSeq int) bool {
	bc, _ := hookSeqs(base)
	pc, ps := hookSeqs(pr)
	for i := range pc {
		if ps[i] >= staleSeq {
			break
		}
		if i >= len(bc) || bc[i] != pc[i] {
			return false
		}
	}
	// what the paused run delivered is part of what the uninterrupted run delivered, in the same order
	// (a stale item makes the loader report a link missing / reject the response: subtrees are skipped
	// or the request is cut short; it never delivers other data)
	j := 0
	for _, n := range pr.res.Nodes {
		for j < len(base.res.Nodes) && base.res.Nodes[j] != n {
			j++
		}
		if j == len(base.res.Nodes) {
			return false
		}
		j++
	}
	return len(newErrs(base.res, pr.res)) > 0
}

// newErrs: missing-block / verification errors of the paused run that the uninterrupted run does not have
func newErrs(base, pr tn.Result) []string {
	have := map[string]int{}
	for _, e := range append(append([]string{}, base.Missing...), base.Hard...) {
		have[e]++
	}
	var out []string
	for _, e := range append(append([]string{}, pr.Missing...), pr.Hard...) {
		if have[e] > 0 {
			have[e]--
			continue
		}
		out = append(out, e)
	}
	return out
}

// windowExplains: the paused run delivered a prefix-consistent part of the uninterrupted result and
// its additional errors name a block of the skip window (present at the responder, not sent because
// of do-not-send-first-blocks, still needed by the requestor)
func windowExplains(base, pr tn.Result, window map[int]bool) bool {
	ne := newErrs(base, pr)
	if len(ne) == 0 {
		return false
	}
	hit := false
	for _, e := range ne {
		f := strings.Split(e, ":")
		if len(f) < 2 {
			continue
		}
		if b, err := strconv.Atoi(f[1]); err == nil && window[b] {
			hit = true
		}
	}
	return hit
}

// staleAfterReopen: sequence number of the first delivery of a stale message to the re-opened loader, -1 if none
func staleAfterReopen(pr *runOut) int {
	s := pr.sim
	var log []tn.Event
	s.Locked(func() { log = append(log, s.Log...) })
	var reopen []int
	armed := false
	for _, e := range log {
		if e.Kind == tn.EvAPI && e.Note == "unpause-request" {
			armed = true
		}
		if armed && e.Kind == tn.EvRead && e.Side == 0 && !e.OK {
			reopen = append(reopen, e.Seq)
			armed = false
		}
	}
	for _, rs := range reopen {
		// the responder receives the resumed request: first new-request delivery after the reopen
		rcv := 1 << 60
		for _, e := range log {
			if e.Kind == tn.EvDeliver && e.Pkt.Dir == 0 && e.Seq > rs && e.Pkt.SentSeq > rs {
				for _, q := range e.Pkt.Reqs {
					if q.Type == graphsync.RequestTypeNew && e.Seq < rcv {
						rcv = e.Seq
					}
				}
			}
		}
		for _, e := range log {
			if e.Kind == tn.EvDeliver && e.Pkt.Dir == 1 && e.Seq > rs && e.Pkt.SentSeq < rcv && hasItems(e.Pkt) {
				return e.Seq
			}
		}
	}
	return -1
}

func hasItems(p *tn.Packet) bool {
	if len(p.BlockCids) > 0 {
		return true
	}
	for _, r := range p.Resps {
		if len(r.Items) > 0 || r.Status.IsTerminal() {
			return true
		}
	}
	return false
}

// resumeWhileActive: the resumed request reached the responder while the task of the cancelled
// incarnation was still executing on a responder worker (recorded by the harness at delivery time).
func resumeWhileActive(pr *runOut) bool {
	s := pr.sim
	found := false
	s.Locked(func() {
		for _, e := range s.Log {
			if e.Kind == tn.EvState && e.Note == "resumed-request-delivered-while-active" {
				found = true
			}
		}
	})
	return found
}

// ---------------------------------------------------------------- run

func Run(cases []reg.Case, out *reg.Out) {
	runtime.GOMAXPROCS(1)
	tn.QuietLogs()
	for _, c := range cases {
		out.BeginCase(c)
		wd := quiesce.NewWatch(5*time.Minute, 30*time.Second, time.Hour,
			func(d string) {
				fmt.Fprintf(os.Stdout, "\n#oracle case=%s FAIL class=hang watchdog: %s\n", c.ID, d)
				os.Exit(3)
			},
			func(d string) {
				fmt.Fprintf(os.Stdout, "\n#oracle case=%s FAIL class=harness-timeout watchdog: %s\n", c.ID, d)
				os.Exit(3)
			})
		runCase(c, out)
		wd.Stop()
		out.W.Flush()
	}
}

func runCase(c reg.Case, out *reg.Out) {
	p, ok := parseHeader(c.Header)
	var w *tn.World
	var q *tn.Query
	if ok {
		w, _ = tn.NewWorld(p.Seed, p.MB)
		sel, sok := tn.SelectorByName(p.Sel)
		if !sok {
			ok = false
		} else {
			var err error
			q, err = w.NewQuery(len(w.D.Cids)-1, p.Sel, sel)
			ok = err == nil
		}
	}
	if !ok {
		for range c.Ops {
			out.Line("bad-case")
		}
		return
	}
	var loc, rem []int
	ran := false
	for _, op := range c.Ops {
		switch op[0] {
		case "put", "remote":
			var l []int
			good := !ran
			if op[0] == "put" {
				for _, t := range op[1:] {
					n, err := strconv.Atoi(t)
					if err != nil {
						good = false
					}
					l = append(l, n)
				}
			} else if len(op) == 2 {
				var g bool
				l, g = tn.ParseInts(op[1])
				good = good && g
			} else {
				good = false
			}
			for _, n := range l {
				if n < 0 || n >= len(w.D.Cids) {
					good = false
				}
			}
			if !good {
				out.Line("bad-op")
				continue
			}
			if op[0] == "put" {
				loc = append(loc, l...)
			} else {
				rem = append(rem, l...)
			}
			out.Line("ok")
		case "run":
			if ran || len(op) != 1 {
				out.Line("bad-op")
				continue
			}
			ran = true
			base := runOnce(w, q, loc, rem, p, false)
			pr := runOnce(w, q, loc, rem, p, true)
			judge(out, q, loc, rem, p, base, pr)
			if os.Getenv("GS_TRACE") != "" {
				for _, l := range base.sim.Dump() {
					fmt.Fprintln(out.W, "#trace base", l)
				}
				for _, l := range pr.sim.Dump() {
					fmt.Fprintln(out.W, "#trace paused", l)
				}
			}
			side := "req"
			if p.Side == 1 {
				side = "resp"
			}
			out.Cov("side." + side + "." + p.Mech + "." + p.Res)
			out.Cov(fmt.Sprintf("pauses.%d", pr.pauses))
			if pr.pauses > 0 {
				out.Cov("paused." + side)
				if pr.staleAtRes > 0 {
					out.Cov("resume.with-inflight." + side)
				} else {
					out.Cov("resume.drained." + side)
				}
			}
			if len(base.res.Errs) > 0 {
				out.Cov("base.has-errors")
			}
			out.Line("base nodes=%d errs=%s store=%s | paused=%d resumed=%d nodes=%d errs=%s store=%s",
				len(base.res.Nodes), errList(base.res.Errs), tn.FmtInts(base.store), pr.pauses, pr.resumes, len(pr.res.Nodes), errList(pr.res.Errs), tn.FmtInts(pr.store))
		default:
			out.Line("bad-op")
		}
	}
}

func errList(e []string) string {
	if len(e) == 0 {
		return "-"
	}
	return strings.Join(e, ",")
}

// ---------------------------------------------------------------- generator

func emit(wr *bufio.Writer, id string, p Params, loc, rem []int) {
	side := "req"
	if p.Side == 1 {
		side = "resp"
	}
	b := func(x bool) int {
		if x {
			return 1
		}
		return 0
	}
	fmt.Fprintf(wr, "case %s dag=%d:%d sel=%s side=%s mech=%s res=%s k=%s m=%d sched=%d w=%d,%d,%d,%d,%d qg=%d sg=%d qs=%d\n",
		id, p.Seed, p.MB, p.Sel, side, p.Mech, p.Res, tn.FmtInts(p.K), p.M, p.Sched, p.W[0], p.W[1], p.W[2], p.W[3], p.W[4], b(p.QG), b(p.SG), b(p.QS))
	fmt.Fprintln(wr, "remote", tn.FmtInts(rem))
	if len(loc) > 0 {
		ss := make([]string, len(loc))
		for i, x := range loc {
			ss[i] = strconv.Itoa(x)
		}
		fmt.Fprintln(wr, "put", strings.Join(ss, " "))
	}
	fmt.Fprintln(wr, "run")
}

func pickWorld(r *rand.Rand, maxLoads int) (int64, int, string, *tn.World, *tn.Query) {
	for {
		seed := r.Int63n(1 << 40)
		mb := 2 + r.Intn(8)
		w, _ := tn.NewWorld(seed, mb)
		name := tn.SelNames[r.Intn(len(tn.SelNames))]
		if r.Intn(2) == 0 {
			name = "all"
		}
		sel, _ := tn.SelectorByName(name)
		q, err := w.NewQuery(len(w.D.Cids)-1, name, sel)
		if err == nil && len(q.LT) >= 2 && len(q.LT) <= maxLoads {
			return seed, mb, name, w, q
		}
	}
}

func genSplit(r *rand.Rand, w *tn.World, q *tn.Query, kind int) (loc, rem []int) {
	nb := len(w.D.Cids)
	switch kind % 5 {
	case 0: // requestor empty, responder complete
		for k := 0; k < nb; k++ {
			rem = append(rem, k)
		}
	case 1: // requestor empty, responder misses one or two blocks
		drop := map[int]bool{r.Intn(nb): true}
		if r.Intn(2) == 0 {
			drop[r.Intn(nb)] = true
		}
		for k := 0; k < nb; k++ {
			if !drop[k] {
				rem = append(rem, k)
			}
		}
	case 2: // 2-colouring
		for k := 0; k < nb; k++ {
			if r.Intn(2) == 0 {
				loc = append(loc, k)
			} else {
				rem = append(rem, k)
			}
		}
	case 3: // requestor random part, responder nearly everything
		for k := 0; k < nb; k++ {
			if r.Intn(3) == 0 {
				loc = append(loc, k)
			}
			if r.Intn(8) != 0 {
				rem = append(rem, k)
			}
		}
	default: // resumed download: requestor holds a DFS prefix
		k := r.Intn(len(q.LT))
		seen := map[int]bool{}
		for j := 0; j < k; j++ {
			if b := q.LT[j].Block; !seen[b] {
				seen[b] = true
				loc = append(loc, b)
			}
		}
		drop := -1
		if r.Intn(3) == 0 {
			drop = r.Intn(nb)
		}
		for j := 0; j < nb; j++ {
			if j != drop {
				rem = append(rem, j)
			}
		}
	}
	sort.Ints(loc)
	return
}

func genParams(r *rand.Rand, q *tn.Query, i int, loc, rem []int) Params {
	p := Params{Res: "api", W: [5]int{1, 1, 1, 1, 1}}
	p.Side = i % 2
	p.Mech = []string{"hook", "api", "both", "step", "hook", "api"}[(i/2)%6]
	// number of block-hook calls on the pausing side in the uninterrupted exchange (reference semantics)
	locS, remS := tn.SetOf(loc), tn.SetOf(rem)
	n := 0
	if p.Side == 0 {
		for _, st := range q.RefTrav(locS, remS) {
			if st.Avail {
				n++
			}
		}
	} else {
		_, pres := q.ResponderStream(remS)
		for _, b := range pres {
			if b {
				n++
			}
		}
	}
	if n < 1 {
		n = 1
	}
	k := 1 + r.Intn(n)
	if r.Intn(12) == 0 {
		k = n + 1 + r.Intn(3) // a pause point that is never reached
	}
	p.K = []int{k}
	if r.Intn(5) == 0 {
		p.K = append(p.K, k+1+r.Intn(n))
	}
	if p.Mech == "step" {
		p.K = []int{r.Intn(n + 4)}
	}
	if p.Side == 1 && r.Intn(3) == 0 {
		p.Res = "upd"
	}
	p.M = []int{0, 0, 1, 2, 3, 5, 50}[r.Intn(7)]
	p.Sched = r.Int63n(1 << 30)
	ws := [][5]int{{1, 1, 1, 1, 1}, {1, 4, 1, 4, 1}, {4, 1, 4, 1, 2}, {1, 1, 4, 0, 1}, {1, 1, 0, 4, 1}, {2, 0, 1, 1, 1}, {0, 2, 1, 1, 1}, {2, 2, 2, 2, 0}}
	p.W = ws[r.Intn(len(ws))]
	p.QS = r.Intn(5) == 0
	p.QG = r.Intn(2) == 0
	p.SG = r.Intn(2) == 0
	return p
}

// genLocalSubtree: the requestor holds a whole subtree whose top block the responder lacks, and pauses
// right after that subtree; everything in flight is delivered before the resume.  (The resumed
// request's skip count then counts loads the responder never made: the C02 finding, met on resume.)
func genLocalSubtree(r *rand.Rand, q *tn.Query, nb int) (loc, rem []int, k int, ok bool) {
	var cands []int
	for i := 1; i < len(q.LT); i++ {
		if e := q.SkipSubtree(i); e < len(q.LT) && e > i+1 {
			cands = append(cands, i)
		}
	}
	if len(cands) == 0 {
		return nil, nil, 0, false
	}
	b := cands[r.Intn(len(cands))]
	end := q.SkipSubtree(b)
	in := map[int]bool{}
	for i := b; i < end; i++ {
		in[q.LT[i].Block] = true
	}
	for x := range in {
		loc = append(loc, x)
	}
	sort.Ints(loc)
	for x := 0; x < nb; x++ {
		if x != q.LT[b].Block {
			rem = append(rem, x)
		}
	}
	// the top block must not be needed outside the subtree before the pause point
	for i := 0; i < b; i++ {
		if q.LT[i].Block == q.LT[b].Block {
			return nil, nil, 0, false
		}
	}
	return loc, rem, end, true
}

func Gen(seed int64, n int, tier string, wr *bufio.Writer) {
	runtime.GOMAXPROCS(1)
	r := rand.New(rand.NewSource(seed))
	for i := 0; i < n; i++ {
		ws, mb, name, w, q := pickWorld(r, 24)
		if i%12 == 11 {
			if loc, rem, k, ok := genLocalSubtree(r, q, len(w.D.Cids)); ok {
				p := Params{Seed: ws, MB: mb, Sel: name, Side: 0, Mech: []string{"hook", "api"}[r.Intn(2)], Res: "api", K: []int{k}, M: 50,
					Sched: r.Int63n(1 << 30), W: [5]int{1, 1, 1, 1, 1}, QG: r.Intn(2) == 0, SG: r.Intn(2) == 0}
				emit(wr, fmt.Sprintf("p%d", i), p, loc, rem)
				continue
			}
		}
		loc, rem := genSplit(r, w, q, r.Intn(5))
		if !tn.SetOf(rem)[q.LT[0].Block] && !tn.SetOf(loc)[q.LT[0].Block] && r.Intn(4) != 0 {
			rem = append(rem, q.LT[0].Block) // mostly: somebody holds the root
			sort.Ints(rem)
		}
		p := genParams(r, q, i, loc, rem)
		p.Seed, p.MB, p.Sel = ws, mb, name
		emit(wr, fmt.Sprintf("p%d", i), p, loc, rem)
	}
	if tier == "thorough" {
		// every pause point x both sides x both mechanisms x a few resume delays, for small DAGs
		for d := 0; d < n/60+2; d++ {
			ws, mb, name, w, q := pickWorld(r, 8)
			loc, rem := genSplit(r, w, q, d)
			for side := 0; side < 2; side++ {
				for _, mech := range []string{"hook", "api", "both"} {
					for k := 1; k <= len(q.LT); k++ {
						for _, m := range []int{0, 1, 3, 50} {
							p := Params{Seed: ws, MB: mb, Sel: name, Side: side, Mech: mech, Res: "api", K: []int{k}, M: m,
								Sched: r.Int63n(1 << 30), W: [5]int{1, 1, 1, 1, 1}, QG: r.Intn(2) == 0, SG: r.Intn(2) == 0}
							emit(wr, fmt.Sprintf("e%d-%d%s%d-%d", d, side, mech[:1], k, m), p, loc, rem)
						}
					}
				}
			}
		}
	}
}
