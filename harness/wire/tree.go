package wire

// A small CBOR value tree for the generators: unlike the real codec it can produce every
// malformation the mutation stream needs (non-minimal heads, indefinite lengths, tags, duplicate and
// unsorted keys, non-text keys, narrow floats, reserved simple values, raw garbage).  It is test
// scaffolding only -- nothing here is compared with the model.

import (
	"encoding/binary"
	"fmt"
	"math/rand"
	"sort"
	"strconv"
)

type V struct {
	K byte   // u i b t a m l T F z f  | 'r' raw bytes emitted verbatim | 'h' float16 | 'g' float32 | 's' simple/other single byte
	N uint64 // u/i argument, f bits, h/g bits, s byte
	B []byte // b t l r
	A []*V   // a
	M []KV   // m (ordered)

	Tags   []uint64 // tags written in front of the item
	Width  int      // 0 = minimal head; 1,2,4,8 = force that many argument bytes (non-minimal when too wide)
	Indef  bool     // a/m/b/t: indefinite-length encoding
	LenAdj int      // a/m: declared length = real length + LenAdj
}

type KV struct {
	K *V
	V *V
}

func U(n uint64) *V  { return &V{K: 'u', N: n} }
func I(n uint64) *V  { return &V{K: 'i', N: n} }
func Bs(b []byte) *V { return &V{K: 'b', B: b} }
func Tx(s string) *V { return &V{K: 't', B: []byte(s)} }
func Ar(xs ...*V) *V { return &V{K: 'a', A: xs} }
func Mp(kvs ...KV) *V {
	return &V{K: 'm', M: kvs}
}
func Lk(c []byte) *V { return &V{K: 'l', B: c} }
func Nl() *V         { return &V{K: 'z'} }
func Bo(b bool) *V {
	if b {
		return &V{K: 'T'}
	}
	return &V{K: 'F'}
}
func Fl(bits uint64) *V { return &V{K: 'f', N: bits} }
func Raw(b []byte) *V   { return &V{K: 'r', B: b} }
func kv(k string, v *V) KV {
	return KV{Tx(k), v}
}

func headW(major byte, n uint64, width int) []byte {
	if width == 0 {
		switch {
		case n < 24:
			return []byte{major<<5 | byte(n)}
		case n < 1<<8:
			width = 1
		case n < 1<<16:
			width = 2
		case n < 1<<32:
			width = 4
		default:
			width = 8
		}
	}
	switch width {
	case 1:
		return []byte{major<<5 | 24, byte(n)}
	case 2:
		b := []byte{major<<5 | 25, 0, 0}
		binary.BigEndian.PutUint16(b[1:], uint16(n))
		return b
	case 4:
		b := []byte{major<<5 | 26, 0, 0, 0, 0}
		binary.BigEndian.PutUint32(b[1:], uint32(n))
		return b
	}
	b := make([]byte, 9)
	b[0] = major<<5 | 27
	binary.BigEndian.PutUint64(b[1:], n)
	return b
}

func (v *V) enc(out []byte) []byte {
	for _, t := range v.Tags {
		out = append(out, headW(6, t, 0)...)
	}
	switch v.K {
	case 'u':
		out = append(out, headW(0, v.N, v.Width)...)
	case 'i':
		out = append(out, headW(1, v.N, v.Width)...)
	case 'b', 't':
		major := byte(2)
		if v.K == 't' {
			major = 3
		}
		if v.Indef {
			out = append(out, major<<5|31)
			out = append(out, headW(major, uint64(len(v.B)), 0)...)
			out = append(out, v.B...)
			out = append(out, 0xff)
		} else {
			out = append(out, headW(major, uint64(len(v.B)), v.Width)...)
			out = append(out, v.B...)
		}
	case 'l':
		out = append(out, 0xd8, 42)
		out = append(out, headW(2, uint64(len(v.B)+1), v.Width)...)
		out = append(out, 0)
		out = append(out, v.B...)
	case 'a':
		if v.Indef {
			out = append(out, 0x9f)
		} else {
			out = append(out, headW(4, uint64(len(v.A)+v.LenAdj), v.Width)...)
		}
		for _, x := range v.A {
			out = x.enc(out)
		}
		if v.Indef {
			out = append(out, 0xff)
		}
	case 'm':
		if v.Indef {
			out = append(out, 0xbf)
		} else {
			out = append(out, headW(5, uint64(len(v.M)+v.LenAdj), v.Width)...)
		}
		for _, e := range v.M {
			out = e.K.enc(out)
			out = e.V.enc(out)
		}
		if v.Indef {
			out = append(out, 0xff)
		}
	case 'T':
		out = append(out, 0xf5)
	case 'F':
		out = append(out, 0xf4)
	case 'z':
		out = append(out, 0xf6)
	case 'f':
		out = append(out, 0xfb, 0, 0, 0, 0, 0, 0, 0, 0)
		binary.BigEndian.PutUint64(out[len(out)-8:], v.N)
	case 'h':
		out = append(out, 0xf9, byte(v.N>>8), byte(v.N))
	case 'g':
		out = append(out, 0xfa, byte(v.N>>24), byte(v.N>>16), byte(v.N>>8), byte(v.N))
	case 's':
		out = append(out, byte(v.N))
	case 'r':
		out = append(out, v.B...)
	}
	return out
}

// canonical sorts every map into the dag-cbor key order (so that toks() of a generated value is what
// an honest encoder would also accept in any order).
func keyLess(a, b []byte) bool {
	if len(a) != len(b) {
		return len(a) < len(b)
	}
	return string(a) < string(b)
}

// toks renders a (well-formed: kinds u i b t a m l T F z f only, text keys) value in the token syntax.
func (v *V) toks() []string {
	switch v.K {
	case 'u':
		return []string{"u", strconv.FormatUint(v.N, 10)}
	case 'i':
		return []string{"i", strconv.FormatUint(v.N, 10)}
	case 'b':
		return []string{"b", hx(v.B)}
	case 't':
		return []string{"t", hx(v.B)}
	case 'l':
		return []string{"l", hx(v.B)}
	case 'T':
		return []string{"T"}
	case 'F':
		return []string{"F"}
	case 'z':
		return []string{"z"}
	case 'f':
		var b [8]byte
		binary.BigEndian.PutUint64(b[:], v.N)
		return []string{"f", hx(b[:])}
	case 'a':
		out := []string{"a", strconv.Itoa(len(v.A))}
		for _, x := range v.A {
			out = append(out, x.toks()...)
		}
		return out
	case 'm':
		out := []string{"m", strconv.Itoa(len(v.M))}
		for _, e := range v.M {
			out = append(out, hx(e.K.B))
			out = append(out, e.V.toks()...)
		}
		return out
	}
	panic(fmt.Sprintf("toks: kind %c", v.K))
}

// lenient decoder for *canonical* input (the bytes the real encoder produced): enough structure to
// mutate. Returns nil if the bytes are not plain definite-length CBOR.
func parseTree(b []byte) (v *V, rest []byte) {
	defer func() {
		if recover() != nil {
			v, rest = nil, nil
		}
	}()
	return parse1(b, 0)
}

func parse1(b []byte, depth int) (*V, []byte) {
	if depth > 2000 {
		panic("deep")
	}
	ib := b[0]
	major, ai := ib>>5, ib&31
	b = b[1:]
	var n uint64
	switch {
	case ai < 24:
		n = uint64(ai)
	case ai == 24:
		n, b = uint64(b[0]), b[1:]
	case ai == 25:
		n, b = uint64(binary.BigEndian.Uint16(b)), b[2:]
	case ai == 26:
		n, b = uint64(binary.BigEndian.Uint32(b)), b[4:]
	case ai == 27:
		n, b = binary.BigEndian.Uint64(b), b[8:]
	default:
		panic("ai")
	}
	switch major {
	case 0:
		return U(n), b
	case 1:
		return I(n), b
	case 2:
		return Bs(append([]byte{}, b[:n]...)), b[n:]
	case 3:
		return &V{K: 't', B: append([]byte{}, b[:n]...)}, b[n:]
	case 4:
		v := &V{K: 'a'}
		for i := uint64(0); i < n; i++ {
			var x *V
			x, b = parse1(b, depth+1)
			v.A = append(v.A, x)
		}
		return v, b
	case 5:
		v := &V{K: 'm'}
		for i := uint64(0); i < n; i++ {
			var k, x *V
			k, b = parse1(b, depth+1)
			x, b = parse1(b, depth+1)
			v.M = append(v.M, KV{k, x})
		}
		return v, b
	case 6:
		x, r := parse1(b, depth+1)
		if n == 42 && x.K == 'b' && len(x.B) > 0 && x.B[0] == 0 {
			return Lk(x.B[1:]), r
		}
		x.Tags = append([]uint64{n}, x.Tags...)
		return x, r
	default:
		switch ai {
		case 20:
			return Bo(false), b
		case 21:
			return Bo(true), b
		case 22:
			return Nl(), b
		case 27:
			return Fl(n), b
		}
		panic("simple")
	}
}

func (v *V) get(key string) *V {
	if v == nil || v.K != 'm' {
		return nil
	}
	for _, e := range v.M {
		if e.K.K == 't' && string(e.K.B) == key {
			return e.V
		}
	}
	return nil
}

// all nodes of the tree (pre-order), with their parents' slot setters
type slot struct {
	get func() *V
	set func(*V)
}

func (v *V) slots(acc []slot) []slot {
	switch v.K {
	case 'a':
		for i := range v.A {
			i := i
			acc = append(acc, slot{func() *V { return v.A[i] }, func(x *V) { v.A[i] = x }})
			acc = v.A[i].slots(acc)
		}
	case 'm':
		for i := range v.M {
			i := i
			acc = append(acc, slot{func() *V { return v.M[i].K }, func(x *V) { v.M[i].K = x }})
			acc = append(acc, slot{func() *V { return v.M[i].V }, func(x *V) { v.M[i].V = x }})
			acc = v.M[i].V.slots(acc)
		}
	}
	return acc
}

func sortedCopy(kvs []KV) []KV {
	out := append([]KV{}, kvs...)
	sort.SliceStable(out, func(i, j int) bool { return keyLess(out[i].K.B, out[j].K.B) })
	return out
}

func shuffleKVs(r *rand.Rand, kvs []KV) {
	r.Shuffle(len(kvs), func(i, j int) { kvs[i], kvs[j] = kvs[j], kvs[i] })
}
