// Package alloc drives the real allocator.Allocator (component "alloc", properties C13/C14).
package alloc

import (
	"bufio"
	"fmt"
	"math/big"
	"math/rand"
	"sort"
	"strconv"
	"strings"

	"github.com/ipfs/go-graphsync/allocator"
	"github.com/libp2p/go-libp2p/core/peer"

	"verifharness/reg"
)

func init() {
	reg.Register(&reg.Component{Name: "alloc", Gen: Gen, Run: Run})
}

// ---------------------------------------------------------------- generator

var smallAmounts = []uint64{0, 1, 2, 3, 5}

func genCase(r *rand.Rand, w *bufio.Writer, id string, overflow bool) {
	limits := []uint64{0, 1, 4, 6, 10, 16}
	mt := limits[r.Intn(len(limits))]
	mp := limits[r.Intn(len(limits))]
	if overflow {
		// limits near the top of uint64 so that sums can wrap
		mt = ^uint64(0) - uint64(r.Intn(8))
		mp = ^uint64(0) - uint64(r.Intn(8))
		if r.Intn(2) == 0 {
			mp = uint64(1) << 63
		}
	}
	fmt.Fprintf(w, "case %s\ncfg %d %d\n", id, mt, mp)
	npeers := 1 + r.Intn(4)
	nops := 1 + r.Intn(40)
	for i := 0; i < nops; i++ {
		p := r.Intn(npeers)
		k := r.Intn(100)
		var amt uint64
		switch x := r.Intn(10); {
		case x < 6:
			amt = smallAmounts[r.Intn(len(smallAmounts))]
		case x < 8:
			amt = mp
		case x < 9:
			amt = mp + 1
		default:
			amt = mt
		}
		if overflow && r.Intn(3) == 0 {
			amt = ^uint64(0) - uint64(r.Intn(4))
		}
		switch {
		case k < 55:
			fmt.Fprintf(w, "alloc %d %d\n", p, amt)
		case k < 90:
			fmt.Fprintf(w, "release %d %d\n", p, amt)
		default:
			fmt.Fprintf(w, "releasepeer %d\n", p)
		}
	}
}

// Gen: random cases; in the thorough tier additionally every op sequence of length <= 4 over a
// fixed alphabet (exhaustive for that scope), and a stream of uint64-overflow cases.
func Gen(seed int64, n int, tier string, w *bufio.Writer) {
	r := rand.New(rand.NewSource(seed))
	for i := 0; i < n; i++ {
		genCase(r, w, fmt.Sprintf("r%d", i), false)
	}
	novf := n / 10
	for i := 0; i < novf; i++ {
		genCase(r, w, fmt.Sprintf("ovf%d", i), true)
	}
	if tier == "thorough" {
		alphabet := []string{
			"alloc 0 1", "alloc 0 3", "alloc 0 5", "alloc 1 1", "alloc 1 2", "alloc 1 4", "alloc 2 3", "alloc 0 0",
			"release 0 1", "release 0 4", "release 1 2", "release 1 9", "release 2 3",
			"releasepeer 0", "releasepeer 1", "releasepeer 2",
		}
		cfgs := [][2]int{{6, 4}, {5, 5}, {4, 6}}
		k := 0
		var rec func(prefix []string, depth int)
		rec = func(prefix []string, depth int) {
			if len(prefix) > 0 {
				for _, c := range cfgs {
					fmt.Fprintf(w, "case x%d\ncfg %d %d\n%s\n", k, c[0], c[1], strings.Join(prefix, "\n"))
					k++
				}
			}
			if depth == 0 {
				return
			}
			for _, a := range alphabet {
				rec(append(append([]string{}, prefix...), a), depth-1)
			}
		}
		rec(nil, 4)
	}
}

// ---------------------------------------------------------------- run + oracle

type ticket struct {
	id     int
	peer   int
	amount uint64
	ch     <-chan error
	done   bool
}

func pid(i int) peer.ID { return peer.ID(fmt.Sprintf("peer%d", i)) }

func joinInts(xs []int) string {
	sort.Ints(xs)
	ss := make([]string, len(xs))
	for i, x := range xs {
		ss[i] = strconv.Itoa(x)
	}
	return strings.Join(ss, ",")
}

func Run(cases []reg.Case, out *reg.Out) {
	for _, c := range cases {
		out.BeginCase(c)
		runCase(c, out)
	}
}

func bigU(x uint64) *big.Int { return new(big.Int).SetUint64(x) }

func runCase(c reg.Case, out *reg.Out) {
	var a *allocator.Allocator
	var maxTotal, maxPeer uint64
	var tickets []*ticket
	var seen []int
	seenSet := map[int]bool{}
	// oracle state (independent of the Lean model, exact integer arithmetic)
	ledger := map[int]*big.Int{}
	waiting := map[int][]*ticket{} // per peer, request order
	get := func(p int) *big.Int {
		if ledger[p] == nil {
			ledger[p] = new(big.Int)
		}
		return ledger[p]
	}
	sumLedger := func() *big.Int {
		s := new(big.Int)
		for _, v := range ledger {
			s.Add(s, v)
		}
		return s
	}
	see := func(p int) {
		if !seenSet[p] {
			seenSet[p] = true
			seen = append(seen, p)
		}
	}
	for _, op := range c.Ops {
		out.Cov("op." + op[0])
		if op[0] == "cfg" {
			maxTotal, _ = strconv.ParseUint(op[1], 10, 64)
			maxPeer, _ = strconv.ParseUint(op[2], 10, 64)
			a = allocator.NewAllocator(maxTotal, maxPeer)
			out.Line("ok")
			continue
		}
		if a == nil {
			out.Line("bad-op")
			continue
		}
		p, _ := strconv.Atoi(op[1])
		errFlag := 0
		var newT *ticket
		var relPeerWaiting []*ticket
		switch op[0] {
		case "alloc":
			amt, _ := strconv.ParseUint(op[2], 10, 64)
			// oracle prediction for C14_immediate, before the call
			fits := new(big.Int).Add(sumLedger(), bigU(amt)).Cmp(bigU(maxTotal)) <= 0 &&
				new(big.Int).Add(get(p), bigU(amt)).Cmp(bigU(maxPeer)) <= 0
			mustGrant := fits && len(waiting[p]) == 0
			ch := a.AllocateBlockMemory(pid(p), amt)
			newT = &ticket{id: len(tickets), peer: p, amount: amt, ch: ch}
			tickets = append(tickets, newT)
			granted := false
			select {
			case err := <-ch:
				newT.done = true
				if err == nil {
					granted = true
				} else {
					out.Fail("alloc-immediate-error", "fresh allocation ticket %d failed: %v", newT.id, err)
				}
			default:
			}
			if granted != mustGrant {
				cls := "immediate"
				if new(big.Int).Add(sumLedger(), bigU(amt)).BitLen() > 64 || new(big.Int).Add(get(p), bigU(amt)).BitLen() > 64 {
					cls = "uint64-overflow"
				}
				out.Fail(cls, "alloc peer=%d amt=%d: granted-at-once=%v but property says %v (fits=%v waiting=%d)", p, amt, granted, mustGrant, fits, len(waiting[p]))
			}
			if granted {
				get(p).Add(get(p), bigU(amt))
				out.Cov("alloc.granted")
			} else if !newT.done {
				waiting[p] = append(waiting[p], newT)
				out.Cov("alloc.deferred")
			}
		case "release":
			amt, _ := strconv.ParseUint(op[2], 10, 64)
			before := a.AllocatedForPeer(pid(p))
			err := a.ReleaseBlockMemory(pid(p), amt)
			if err != nil {
				errFlag = 1
				out.Cov("release.nopeer")
			} else {
				act := amt
				if before < amt {
					act = before
					out.Cov("release.clamped")
				}
				l := get(p)
				if l.Cmp(bigU(act)) < 0 {
					out.Fail("ledger", "release below zero: peer=%d ledger=%s release=%d", p, l, act)
					l.SetInt64(0)
				} else {
					l.Sub(l, bigU(act))
				}
			}
		case "releasepeer":
			err := a.ReleasePeerMemory(pid(p))
			if err != nil {
				errFlag = 1
				out.Cov("releasepeer.nopeer")
			} else {
				get(p).SetInt64(0)
				relPeerWaiting = waiting[p]
				waiting[p] = nil
			}
		default:
			out.Line("bad-op")
			continue
		}
		see(p)
		// poll every outstanding channel
		var g, f []int
		if newT != nil && newT.done {
			g = append(g, newT.id) // (only success reaches here as done w/o Fail; failure also recorded)
		}
		grantedNow := map[int]bool{}
		for _, t := range tickets {
			if t.done {
				continue
			}
			select {
			case err := <-t.ch:
				t.done = true
				if err == nil {
					g = append(g, t.id)
					grantedNow[t.id] = true
					get(t.peer).Add(get(t.peer), bigU(t.amount))
					// FIFO: must be the head of its peer's waiting list
					wl := waiting[t.peer]
					if len(wl) == 0 || wl[0].id != t.id {
						isRel := false
						for _, x := range relPeerWaiting {
							if x.id == t.id {
								isRel = true
							}
						}
						if !isRel {
							out.Fail("fifo", "ticket %d of peer %d granted out of request order", t.id, t.peer)
						} else {
							out.Fail("releasepeer-grant", "ticket %d granted although its peer was released", t.id)
						}
						// remove wherever it is
						for i, x := range wl {
							if x.id == t.id {
								waiting[t.peer] = append(append([]*ticket{}, wl[:i]...), wl[i+1:]...)
							}
						}
					} else {
						waiting[t.peer] = wl[1:]
					}
					out.Cov("wake.granted")
				} else {
					f = append(f, t.id)
					out.Cov("wake.failed")
					wl := waiting[t.peer]
					for i, x := range wl {
						if x.id == t.id {
							waiting[t.peer] = append(append([]*ticket{}, wl[:i]...), wl[i+1:]...)
							out.Fail("spurious-fail", "ticket %d failed without its peer being released", t.id)
						}
					}
				}
			default:
			}
		}
		// C14: releasing a peer fails all of its waiting allocations at once
		for _, t := range relPeerWaiting {
			if !t.done {
				out.Fail("releasepeer-pending", "ticket %d of released peer %d still waiting", t.id, t.peer)
			}
		}
		st := a.Stats()
		// ---- oracle: C13 limits + ledger
		parts := make([]string, 0, len(seen))
		for _, q := range seen {
			v := a.AllocatedForPeer(pid(q))
			parts = append(parts, fmt.Sprintf("%d=%d", q, v))
			if v > maxPeer {
				out.Fail(ovfClass("limit-peer", ledger, waiting), "peer %d holds %d > per-peer limit %d", q, v, maxPeer)
			}
			if bigU(v).Cmp(get(q)) != 0 {
				out.Fail(ovfClass("ledger", ledger, waiting), "peer %d reports %d, granted-released = %s", q, v, get(q))
			}
		}
		if st.TotalAllocatedAllPeers > maxTotal {
			out.Fail(ovfClass("limit-total", ledger, waiting), "total %d > limit %d", st.TotalAllocatedAllPeers, maxTotal)
		}
		if bigU(st.TotalAllocatedAllPeers).Cmp(sumLedger()) != 0 {
			out.Fail(ovfClass("ledger-total", ledger, waiting), "total reports %d, sum of ledgers = %s", st.TotalAllocatedAllPeers, sumLedger())
		}
		nw := 0
		for _, wl := range waiting {
			nw += len(wl)
		}
		if sumLedger().Sign() == 0 && nw == 0 {
			out.Cov("state.drained")
			if st.TotalAllocatedAllPeers != 0 || st.TotalPendingAllocations != 0 || st.NumPeersWithPendingAllocations != 0 {
				out.Fail("drained", "everything released but stats=%d/%d/%d", st.TotalAllocatedAllPeers, st.TotalPendingAllocations, st.NumPeersWithPendingAllocations)
			}
		}
		// ---- oracle: C14 no lost wake-up / order across peers
		var cand *ticket
		for q, wl := range waiting {
			if len(wl) == 0 {
				continue
			}
			h := wl[0]
			if new(big.Int).Add(get(q), bigU(h.amount)).Cmp(bigU(maxPeer)) <= 0 {
				if cand == nil || h.id < cand.id {
					cand = h
				}
			}
		}
		if cand != nil {
			out.Cov("state.blocked-on-total")
			if new(big.Int).Add(sumLedger(), bigU(cand.amount)).Cmp(bigU(maxTotal)) <= 0 {
				out.Fail(ovfClass("lost-wakeup", ledger, waiting), "ticket %d (peer %d, %d bytes) fits both limits, is first in line, but still waits", cand.id, cand.peer, cand.amount)
			}
			for id := range grantedNow {
				if id > cand.id {
					out.Fail("order", "ticket %d granted while earlier ticket %d that fits its peer limit still waits", id, cand.id)
				}
			}
		} else if nw > 0 {
			out.Cov("state.blocked-on-peer")
		}
		out.Line("g:%s f:%s err:%d peers:%s stats:%d/%d/%d", joinInts(g), joinInts(f), errFlag, strings.Join(parts, ","),
			st.TotalAllocatedAllPeers, st.TotalPendingAllocations, st.NumPeersWithPendingAllocations)
	}
}

// ovfClass tags an oracle failure as an overflow-class failure when the true (unbounded) sum of
// granted memory no longer fits in 64 bits, i.e. the implementation's counters have wrapped.
func ovfClass(base string, ledger map[int]*big.Int, waiting map[int][]*ticket) string {
	s := new(big.Int)
	for _, v := range ledger {
		s.Add(s, v)
	}
	if s.BitLen() > 64 {
		return "uint64-overflow"
	}
	return base
}
