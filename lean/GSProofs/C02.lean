import GS.Model.Requestor
import GSProofs.Lemmas.RequestorLocal
import GSProofs.C24
import GSProofs.Lemmas.LoaderKahn
import GSProofs.Lemmas.LoaderSched
import GSProofs.Lemmas.LoaderComplete
import GSProofs.Lemmas.ExchangeComplete
import GSProofs.Lemmas.LoaderReplay
import GSProofs.Lemmas.LoaderReplaySpec
import GS.Model.Responder
/-!
# C02 — A single request retrieves every block that either peer can supply

> For a request to a cooperative responder, the requestor delivers, in order, exactly the nodes a
> local selector traversal visits when each link is resolved from the requestor's own store or from
> the responder's store along paths the responder can itself traverse.  A missing-block error is
> reported for exactly the links neither side can supply, and every block obtained from the
> responder is stored locally.

Status of this file (see `STATUS.md`):

* proved, full strength in their region: `local_complete` (the requestor's own store covers the
  traversal), `complete_remote_start` (the requestor does not hold the root, so there is no
  locally loaded prefix: against the honest response the loader's answers are exactly the reference
  traversal `refTrav`, every fetched block stored) and `complete_prefix` (the requestor holds the
  root and has loaded a prefix of `N ≥ 1` links locally before its first miss: the verifier replays
  the traversal record against the honest response for skip `N`, then the answers continue the
  reference traversal; hypotheses = the negation of the two known-finding classes) — for all
  well-formed link trees and stores; `stored`; `still_on_iff` / `pathtracker_sibling` (repaired
  path tracker); order independence `kahn_schedule` (whole interleavings) from `kahn_done` /
  `kahn_parked`.
* proved counterexamples to the full-strength statement, with the responder's messages computed by
  `Responder.respondSpec` (honest by construction): `counterexample_skip_prefix`,
  `counterexample_root_not_found` (known findings).
* Together `local_complete`, `complete_remote_start`, `complete_prefix` cover every store pair
  outside the two known-finding classes (covered / root not held / root held but not covered), at
  the level of the loader with the whole honest response delivered before the retried load
  (interleavings: `kahn_schedule`).  What is still not a theorem is listed at the end of the file.
-/
namespace GS.C02
open GS.Loader GS.Requestor

/-! ## the requestor's own store suffices -/

/-- **C02.local_complete.**  If the requestor holds every block of the traversal, it delivers every
    node of the link tree, in order, from its own store, reports no error and terminates — whatever
    the network does. -/
theorem local_complete (st : List (Cid × Blk)) (lt : LT) (u : Nat) (msgs : List Msg)
    (h : GS.C24.Covers st lt) :
    (exchange st lt u msgs).2 = localEvs lt 0 ∧ (exchange st lt u msgs).1.phase = .finished :=
  ⟨(GS.C24.silent st lt u msgs h).2.2.2, (GS.C24.silent st lt u msgs h).2.2.1⟩

/-! ## every block obtained from the responder is stored -/

/-- **C02.stored (loader level).**  A load answered with data that did not come from the local store
    (`Local = false`) has written exactly that block under the requested link; it is in the store
    afterwards.  Holds for every operation sequence (no honesty assumption). -/
theorem stored (s : Loader.State) (p : Path) (c : Cid) (h : Inv s) (r : Result) (b : Blk)
    (hr : (run s p c).2 = .done r) (hd : r.data = some b) (hl : r.loc = false) :
    storeGet (run s p c).1.store c = some b := by
  have := (run_spec s p c h).2
  rw [hr] at this
  cases this with
  | noWrite _ _ hdd => rw [(hdd b hd).1] at hl; cases hl
  | remote b' _ _ hs hd' _ _ =>
    rw [hd'] at hd; cases hd
    rw [hs]
    simp [storeGet]

/-! ## the path tracker (defect fixed in /repo 12093fb) -/

/-- **C02.still_on_iff.**  After the remote did not follow the link at path `q ≠ []`, a later load at
    path `p` is treated as "below the unfollowed link" (answered from the local store without
    consuming a remote item) iff `q` is a proper prefix of `p`.  (Before the repair the test compared
    lengths only: `q.length < p.length`.) -/
theorem still_on_iff (s : Loader.State) (p : Path) (hq : s.unfollowed ≠ []) :
    (stillOnUnfollowed s p).2 = true ↔ (s.unfollowed.isPrefixOf p = true ∧ s.unfollowed.length < p.length) := by
  unfold stillOnUnfollowed
  have hlen : (s.unfollowed.length == 0) = false := by
    cases hu : s.unfollowed with
    | nil => exact absurd hu hq
    | cons a rest => simp
  rw [if_neg (by simp [hlen])]
  by_cases h1 : p.length ≤ s.unfollowed.length
  · simp [h1]
  · by_cases h2 : s.unfollowed.isPrefixOf p = true
    · simp [h1, h2]; omega
    · simp [h1, h2]

/-- regression for the repaired defect (`corpus/C02/loader/pathtracker.cases`, first case): the
    remote reports the link at `0/1` missing and sends the block of the sibling link at `0/2/3`
    (longer path, not below `0/1`): that block is loaded from the remote and stored. -/
theorem pathtracker_sibling :
    (runOps {} [.load 9 [], .online true, .ingest [(9, .present), (1, .missing), (2, .present)] [(9, 9), (2, 2)],
                .retry, .load 1 [0, 1], .load 2 [0, 2, 3]]).2.map GS.C01.result =
      [some { data := none, err := some (.missing 9 []), loc := true }, none, none,
       some { data := some 9, err := none, loc := false, write := some (9, 9) },
       some { data := none, err := some (.missing 1 [0, 1]), loc := true },
       some { data := some 2, err := none, loc := false, write := some (2, 2) }] := by decide

/-! ## the full-strength statement is false of the code as it is: two counterexamples

The responder's messages below are not hand-written: they are `ofSpec (respondSpec …)`, the output
of the responder specification to which the operational responder model is proved equal for every
batching (`C03.refines`), for the given link tree, responder store and requested skip value. -/

/-- the wire message carrying a whole response of the responder specification -/
def ofSpec (r : List GS.Responder.Item × GS.Responder.Status) : Msg :=
  ⟨true, true, r.2.code,
   r.1.map (fun it => (it.cid, if it.present then Action.present else Action.missing)),
   r.1.filterMap (fun it => if it.block then some (it.cid, it.cid) else none)⟩

/-- **C02.counterexample (skip-prefix-mismatch).**  Link tree: root 6 with children 1 (at `0/1`, with
    two children 0) and 4 (at `4`).  The requestor holds 6, 1, 0; the responder holds 2..6 but not 1.
    The requestor loads 6, 1, 0, 0 locally and asks to skip 4 blocks; the responder's traversal is
    6, 1 (missing), 4 — all within the skipped window — so block 4 is "present, not sent".  The
    requestor reports link 4 missing although the responder holds it on a path it traverses
    (`corpus/C02/requestor/known.cases`, second case). -/
theorem counterexample_skip_prefix :
    let lt : LT := [⟨6, [], 0, 2, 0⟩, ⟨1, [0, 1], 1, 1, 1⟩, ⟨0, [0, 1, 2], 2, 1, 0⟩, ⟨0, [0, 1, 3], 2, 3, 2⟩, ⟨4, [4], 1, 1, 0⟩]
    let tree : GS.Responder.LT := .node 6 [.node 1 [.node 0 [], .node 0 []], .node 4 []]
    let resp := GS.Responder.respondSpec tree (fun c => [2, 3, 4, 5, 6].contains c) { skip := 4 } (fun _ => false)
    let evs := (exchange [(0, 0), (1, 1), (6, 6)] lt 0 [ofSpec resp]).2
    sentNews evs = [4] ∧ Ev.err (.load (.missing 4 [4])) ∈ evs := by decide

/-- **C02.counterexample (root-not-found-abort).**  The requestor holds the root 5 but not its child
    2; the responder holds nothing: its response is one `missing` entry for the root with status
    `RequestFailedContentNotFound`.  The request ends with that status error; the link at path `0`
    is never reported as a missing block (`corpus/C02/requestor/known.cases`, first case). -/
theorem counterexample_root_not_found :
    let lt : LT := [⟨5, [], 0, 1, 0⟩, ⟨2, [0], 1, 2, 1⟩]
    let resp := GS.Responder.respondSpec (.node 5 [.node 2 []]) (fun _ => false) { skip := 1 } (fun _ => false)
    (exchange [(5, 5)] lt 0 [ofSpec resp]).2 =
      [.block 5 [] true 1, .prog 1, .sentNew 1, .err (.status 34)] := by decide

/-! ## order independence of `IngestResponse` and loads (C02.kahn)

`Sim s t` (Lemmas/LoaderKahn.lean): `s` and `t` agree on everything except `lastConsumed` / its
`next` pointer (read only by `RetryLastLoad`) and the parked-load marker.

Proved: the two local diamonds (`kahn_done`, `kahn_parked`) and, from them, `kahn_schedule` over
whole interleavings of message deliveries and client steps, for any deterministic traversal client
that never calls `RetryLastLoad` on a load that used the remote queue (the executor outside
pause/resume).  Not covered: the position of the closing `SetRemoteOnline(false)` relative to the
loads (it is not an event of these schedules).  `kahn_counterexample_retry` shows that the
restriction on `RetryLastLoad` is necessary (the code's linked list loses items there). -/

/-- **C02.kahn, load that can be answered.**  On an open loader whose queue tail is intact, if a load
    completes with result `r`, then ingesting a message first and loading afterwards gives the same
    result, and the two final states agree. -/
theorem kahn_done (s : Loader.State) (hopen : s.isOpen = true) (htail : s.rq.tailOn = true)
    (md : List (Cid × Action)) (bl : List (Cid × Blk)) (p : Path) (c : Cid) (r : Result)
    (hr : (run s p c).2 = .done r) :
    Sim (Loader.ingest (run s p c).1 md bl) (run (Loader.ingest s md bl) p c).1 ∧
    (run (Loader.ingest s md bl) p c).2 = .done r := by
  have hto := run_tail_open s p c
  rw [ingest_eq_addQ s md bl hopen htail,
      ingest_eq_addQ (run s p c).1 md bl (by rw [hto.2]; exact hopen) (by rw [hto.1]; exact htail)]
  exact (run_addQ s hopen _ p c).1 r hr

/-- **C02.kahn, load that has to wait.**  If the load parks (queue exhausted, response still open),
    then — whatever message arrives — waking the parked load after the ingest gives the same outcome
    and state as ingesting first and issuing the load afterwards. -/
theorem kahn_parked (s : Loader.State) (hopen : s.isOpen = true) (htail : s.rq.tailOn = true)
    (md : List (Cid × Action)) (bl : List (Cid × Blk)) (p : Path) (c : Cid)
    (hb : (run s p c).2 = .blocked) :
    Sim (run (Loader.ingest (run s p c).1 md bl) p c).1 (run (Loader.ingest s md bl) p c).1 ∧
    (run (Loader.ingest s md bl) p c).2 = (run (Loader.ingest (run s p c).1 md bl) p c).2 := by
  have hto := run_tail_open s p c
  rw [ingest_eq_addQ s md bl hopen htail,
      ingest_eq_addQ (run s p c).1 md bl (by rw [hto.2]; exact hopen) (by rw [hto.1]; exact htail)]
  exact (run_addQ s hopen _ p c).2 hb

/-- `RetryLastLoad` of a load that consumed the last queued item breaks order independence: the item
    that arrives between the load and its retry is lost, the one that arrived before the load is not
    (`remoteQueue.queue` links through `tail` only while `head != nil`).  Only reachable when a load
    that used the remote queue is retried (pause / resume). -/
theorem kahn_counterexample_retry :
    (runOps {} [.online true, .ingest [(0, .present)] [(0, 0)], .load 0 [], .ingest [(1, .present)] [(1, 1)],
                .retry, .load 1 [0]]).2.map GS.C01.result ≠
    (runOps {} [.online true, .ingest [(0, .present)] [(0, 0)], .ingest [(1, .present)] [(1, 1)], .load 0 [],
                .retry, .load 1 [0]]).2.map GS.C01.result := by decide

/-- **C02.kahn (whole interleavings).**  A traversal client — any function from the load results
    so far to the next load — runs against a loader whose queue tail is intact while response
    messages arrive.  Every valid schedule (the client steps only while no load of its is parked)
    ends, up to the retry bookkeeping of the queue, in the same loader state and with the same list
    of load results as the schedule that delivers the same messages in the same order first and lets
    the client take the same number of steps afterwards: the result depends only on the sequence of
    remote messages, not on the interleaving. -/
theorem kahn_schedule (next : Client) (evs : List Evt) (c : Cfg) (hg : Good c) (hv : Valid next c evs) :
    Eqv (runE next c evs) (runE next c (msgsOf evs ++ List.replicate (ticksOf evs) .tick)) :=
  GS.Loader.kahn_schedule next evs c hg hv

/-- two valid schedules with the same messages (in order) and the same number of client steps agree -/
theorem kahn_same_messages (next : Client) (e1 e2 : List Evt) (c : Cfg) (hg : Good c)
    (h1 : Valid next c e1) (h2 : Valid next c e2) (hm : msgsOf e1 = msgsOf e2) (ht : ticksOf e1 = ticksOf e2) :
    Eqv (runE next c e1) (runE next c e2) := by
  have a := GS.Loader.kahn_schedule next e1 c hg h1
  have b := GS.Loader.kahn_schedule next e2 c hg h2
  rw [hm, ht] at a
  exact Eqv.trans a b.symm

/-! ## completeness against the honest responder -/

/-- **C02.complete, no locally loaded prefix** (`Lemmas/LoaderComplete.lean`): see
    `GS.Loader.complete_remote_start`.  `respItems rem lt []` is the honest response for skip 0
    (the definition of `Responder.respondSpec` transcribed to the pre-order link tree: one entry per
    link the responder's own traversal visits, block attached to the first present occurrence);
    `refTrav rem lt loc none` is the reference traversal: a link is available iff the requestor's
    store (growing by what it fetched) holds it, or the responder holds it and followed every
    ancestor. -/
theorem complete_remote_start (rem : Cid → Bool) (loc : List (Cid × Blk)) (root : LNode) (rest : LT)
    (hwf : WF (root :: rest)) (hne : ∀ m ∈ rest, m.path ≠ []) (hroot : holds loc root.cid = false) :
    let items := respItems rem (root :: rest) []
    let s4 := afterResponse loc root (mdOf items) (blocksOfItems items)
    Loader.retry s4 = Loader.load { s4 with mra := none } root.path root.cid ∧
    (walk { s4 with mra := none } (root :: rest)).1 = (refTrav rem (root :: rest) loc none).1 ∧
    ∀ c, holds (walk { s4 with mra := none } (root :: rest)).2.store c =
         holds (refTrav rem (root :: rest) loc none).2 c :=
  GS.Loader.complete_remote_start rem loc root rest hwf hne hroot

/-- non-vacuity of `complete_remote_start`: a well-formed tree with an inline sibling, a gap at the
    responder and a block only the requestor holds; and `respItems` agrees with `respondSpec` on it -/
example :
    let lt : LT := [⟨9, [], 0, 0, 0⟩, ⟨1, [0, 1], 1, 0, 0⟩, ⟨3, [0, 1, 0], 2, 0, 0⟩, ⟨2, [0, 2, 3], 1, 0, 0⟩]
    WF lt ∧ (∀ m ∈ lt.tail, m.path ≠ []) ∧ holds [(3, 3)] 9 = false ∧
    (refTrav (fun c => [9, 2].contains c) lt [(3, 3)] none).1.map (fun x => (x.1.cid, x.2)) =
      [(9, true), (1, false), (2, true)] ∧
    (respItems (fun c => [9, 2].contains c) lt []).map (fun it => (it.link, it.action == .present, it.block.isSome)) =
      (GS.Responder.respondSpec (.node 9 [.node 1 [.node 3 []], .node 2 []]) (fun c => [9, 2].contains c) {} (fun _ => false)).1.map
        (fun it => (it.cid, it.present, it.block)) := by
  refine ⟨?_, by decide, by decide, ?_, ?_⟩
  · simp only [WF, subOf, skipSub]
    decide
  · simp [refTrav.eq_def, holds, storeGet, dead1, skipSub]
  · simp [respItems, skipSub]
    decide

/-- **C02.complete, non-empty locally loaded prefix** (`Lemmas/LoaderReplay.lean`,
    `Lemmas/LoaderReplayTrie.lean`).  The requestor holds the blocks of the first `N = |root :: pre'|`
    links of the traversal and not the next one, `n`.  Script of the executor: the `N` links are
    loaded from the local store (first conjunct: all answered with data, in order) and recorded in the
    traversal record; the load of `n` misses locally (second conjunct); the loader goes online, the
    request is sent with do-not-send-first-blocks = `N` (`C24.skip`); the honest response
    `respItemsW rem lt [] N` (= `Responder.respondSpec` with `skip = N` transcribed to the pre-order
    link tree: metadata for EVERY link of the responder's own traversal from the root, the links of
    the window flagged present-not-sent or missing, blocks attached only beyond the window and only
    once; rebuilt through `IngestResponse`: `honest_items_rebuiltW`) arrives and ends; `RetryLastLoad`
    (third conjunct) first replays the record against the head of the response (`Verifier.VerifyNext`
    inside `waitRemote`; a link the responder reports missing makes the verifier skip the recorded
    subtree and arms the path tracker) and then continues with remote loads, and with local loads
    below links the responder did not follow.

    Hypotheses: `WF` (paths agree with the depth structure), the root's path is empty and no other
    path is, the prefix's paths are in depth-first order (`PathsDFS`: distinct, a link before the
    links below it, everything under a path prefix contiguous — what a selector traversal produces);
    and the NEGATION OF THE TWO KNOWN-FINDING CLASSES: `hremroot` (the responder holds the root the
    requestor holds — class `root-not-found-abort`) and `hwin` (every link among the first `N` entries
    of the responder's own stream that the responder holds is held by the requestor — class
    `skip-prefix-mismatch`, the oracle's `neededInWindow`; for the entries that lie in the local
    prefix this is automatic).

    Conclusion (fourth and fifth conjunct): the `N` local results followed by the results of the
    continuation are exactly the reference traversal `refTrav rem lt loc none` — data iff the
    requestor's growing store holds the block or the responder holds it and followed every ancestor,
    RemoteMissingBlockErr (subtree skipped) otherwise — and the final store holds exactly what
    `refTrav` says: every block obtained from the responder is stored. -/
theorem complete_prefix (rem : Cid → Bool) (loc : List (Cid × Blk)) (root : LNode) (pre' : LT) (n : LNode) (post : LT)
    (hwf : WF (root :: pre' ++ n :: post))
    (hroot0 : root.path = []) (hne : ∀ m ∈ pre' ++ n :: post, m.path ≠ [])
    (hdfs : PathsDFS ((root :: pre').map (·.path)))
    (hheld : ∀ m ∈ root :: pre', holds loc m.cid = true) (hmiss : holds loc n.cid = false)
    (hremroot : rem root.cid = true)
    (hwin : ∀ it ∈ (respItemsW rem (root :: pre' ++ n :: post) [] (pre'.length + 1)).take (pre'.length + 1),
        it.action = .present → holds loc it.link = true) :
    let lt := root :: pre' ++ n :: post
    let items := respItemsW rem lt [] (pre'.length + 1)
    let s4 := afterResponseP loc (root :: pre') n (mdOf items) (blocksOfItems items)
    (walk ({ store := loc } : Loader.State) (root :: pre')).1 = (root :: pre').map (fun m => (m, true)) ∧
    (Loader.load (walk ({ store := loc } : Loader.State) (root :: pre')).2 n.path n.cid).2 =
        .done { data := none, err := some (.missing n.cid n.path), loc := true } ∧
    Loader.retry s4 = Loader.load { s4 with mra := none } n.path n.cid ∧
    (root :: pre').map (fun m => (m, true)) ++ (walk { s4 with mra := none } (n :: post)).1 = (refTrav rem lt loc none).1 ∧
    ∀ c, holds (walk { s4 with mra := none } (n :: post)).2.store c = holds (refTrav rem lt loc none).2 c :=
  GS.Loader.complete_prefix rem loc root pre' n post hwf hroot0 hne hdfs hheld hmiss hremroot hwin

/-- `complete_prefix` under the simpler sufficient condition that the responder holds every block
    of the requestor's local prefix: its first `N` traversed links are then exactly the requestor's
    `N` local loads, the skip window is exactly the prefix (`win_of_prefix_held`), no recorded
    subtree is skipped by the verifier and the path tracker stays idle during the replay. -/
theorem complete_prefix_held (rem : Cid → Bool) (loc : List (Cid × Blk)) (root : LNode) (pre' : LT) (n : LNode) (post : LT)
    (hwf : WF (root :: pre' ++ n :: post))
    (hroot0 : root.path = []) (hne : ∀ m ∈ pre' ++ n :: post, m.path ≠ [])
    (hdfs : PathsDFS ((root :: pre').map (·.path)))
    (hheld : ∀ m ∈ root :: pre', holds loc m.cid = true) (hmiss : holds loc n.cid = false)
    (hrem : ∀ m ∈ root :: pre', rem m.cid = true) :
    let lt := root :: pre' ++ n :: post
    let items := respItemsW rem lt [] (pre'.length + 1)
    let s4 := afterResponseP loc (root :: pre') n (mdOf items) (blocksOfItems items)
    (walk ({ store := loc } : Loader.State) (root :: pre')).1 = (root :: pre').map (fun m => (m, true)) ∧
    (Loader.load (walk ({ store := loc } : Loader.State) (root :: pre')).2 n.path n.cid).2 =
        .done { data := none, err := some (.missing n.cid n.path), loc := true } ∧
    Loader.retry s4 = Loader.load { s4 with mra := none } n.path n.cid ∧
    (root :: pre').map (fun m => (m, true)) ++ (walk { s4 with mra := none } (n :: post)).1 = (refTrav rem lt loc none).1 ∧
    ∀ c, holds (walk { s4 with mra := none } (n :: post)).2.store c = holds (refTrav rem lt loc none).2 c :=
  GS.Loader.complete_prefix_held rem loc root pre' n post hwf hroot0 hne hdfs hheld hmiss hrem

/-- **bridge (executor loop = loader-level traversal).**  Once the request has been sent and while it
    is not cancelled, the answers reported in the event stream of the executor loop `drive` (block
    hook = a load answered with data, missing-block error = a skipped link) are exactly the results
    of the loader-level traversal `walk` from the same loader state over the same cursor, and the
    store at the end is the store `walk` ends with. -/
theorem drive_walk (fuel : Nat) (s : Requestor.State) (hrun : s.phase = .running) (hsent : s.requestSent = true)
    (hctx : s.ctxCancelled = false) (hdep : ∀ m ∈ s.todo, m.depth ≠ 0) (hf : s.todo.length + 1 ≤ fuel) :
    resultsOf (drive fuel s).2 = (walk s.L s.todo).1.map keyOf ∧
    (drive fuel s).1.L.store = (walk s.L s.todo).2.store :=
  GS.Requestor.drive_walk fuel s hrun hsent hctx hdep hf

/-- **C02.complete at the exchange level (event stream), non-empty local prefix.**  The composed
    requestor model (executor + response routing + loader) runs the whole request: it loads the
    `N = |root :: pre'|` links it holds from its own store, misses `n`, goes online and sends the
    request with do-not-send-first-blocks = `N`; the honest response (`respItemsW` =
    `Responder.respondSpec` for skip `N`, `honest_response_is_spec`) arrives as one message with the
    successful terminal status the responder ends with (20 full / 21 partial).  Under the hypotheses of
    `complete_prefix` — link tree well formed, and the NEGATION of the two known-finding classes:
    `hremroot` (not `root-not-found-abort`) and `hwin` (not `skip-prefix-mismatch`) — the answers in
    the event stream are exactly the reference traversal `refTrav`: in order, a block-hook delivery
    for every available link and a `RemoteMissingBlockErr` for exactly the others; exactly one request
    message was sent, with skip `N`; and the final local store holds exactly what `refTrav` says
    (every block obtained from the responder is stored). -/
theorem exchange_complete_prefix (rem : Cid → Bool) (loc : List (Cid × Blk)) (root : LNode) (pre' : LT) (n : LNode) (post : LT)
    (st : Nat) (hst : st = 20 ∨ st = 21)
    (hwf : WF (root :: pre' ++ n :: post))
    (hroot0 : root.path = []) (hne : ∀ m ∈ pre' ++ n :: post, m.path ≠ [])
    (hdep : ∀ m ∈ n :: post, m.depth ≠ 0)
    (hdfs : PathsDFS ((root :: pre').map (·.path)))
    (hheld : ∀ m ∈ root :: pre', holds loc m.cid = true) (hmiss : holds loc n.cid = false)
    (hremroot : rem root.cid = true)
    (hwin : ∀ it ∈ (respItemsW rem (root :: pre' ++ n :: post) [] (pre'.length + 1)).take (pre'.length + 1),
        it.action = .present → holds loc it.link = true) :
    let lt := root :: pre' ++ n :: post
    let items := respItemsW rem lt [] (pre'.length + 1)
    let evs := (exchange loc lt 0 [⟨true, true, st, mdOf items, blocksOfItems items⟩]).2
    resultsOf evs = (refTrav rem lt loc none).1.map keyOf ∧
    sentNews evs = [pre'.length + 1] ∧
    ∀ c, holds (exchange loc lt 0 [⟨true, true, st, mdOf items, blocksOfItems items⟩]).1.L.store c =
         holds (refTrav rem lt loc none).2 c := by
  intro lt items evs
  have hcp := GS.Loader.complete_prefix rem loc root pre' n post hwf hroot0 hne hdfs hheld hmiss hremroot hwin
  obtain ⟨_, _, _, h4, h5⟩ := hcp
  have hex := exchange_results_prefix loc (root :: pre') n post 0 st hst (mdOf items) (blocksOfItems items)
    hheld hmiss hdep
  refine ⟨?_, ?_, ?_⟩
  · exact hex.1.trans (by rw [← List.map_append]; exact congrArg _ h4)
  · have := GS.C24.skip loc (root :: pre') n post 0 [⟨true, true, st, mdOf items, blocksOfItems items⟩]
      (fun m hm => hheld m hm) hmiss
    have hmax : max 0 (root :: pre').length = pre'.length + 1 := by simp
    rw [hmax] at this
    exact this
  · intro c
    exact (congrArg (fun s => holds s c) hex.2).trans (h5 c)

/-- non-vacuity of `complete_prefix`, outside `complete_prefix_held`: root 9 with children 1 (at
    `0/1`, itself with children 3 and 4), 2 (at `0/2`, inline sibling) and 5 (at `1`).  The requestor
    holds 9, 1, 3, 2 and loads 9, 1, 3 before missing 4; the responder holds 9, 3, 4, 5 but not 1 (a
    block of the requestor's prefix) and not 2.  Its stream for skip 3 is 9, 1 (missing), 2 (missing),
    5: the window 9, 1, 2 contains no block the requestor needs; the verifier skips the recorded
    subtree of 1, the path tracker sends the load of 4 to the local store (missing: the responder
    holds 4 but cannot reach it), 2 is answered locally, 5 is fetched.  And `respItemsW` agrees with
    `respondSpec` (skip 3) on it. -/
example :
    let root : LNode := ⟨9, [], 0, 0, 0⟩
    let pre' : LT := [⟨1, [0, 1], 1, 0, 0⟩, ⟨3, [0, 1, 0], 2, 0, 0⟩]
    let n : LNode := ⟨4, [0, 1, 1], 2, 0, 0⟩
    let post : LT := [⟨2, [0, 2], 1, 0, 0⟩, ⟨5, [1], 1, 0, 0⟩]
    let rem : Cid → Bool := fun c => [9, 3, 4, 5].contains c
    let loc : List (Cid × Blk) := [(9, 9), (1, 1), (3, 3), (2, 2)]
    WF (root :: pre' ++ n :: post) ∧ (∀ m ∈ pre' ++ n :: post, m.path ≠ []) ∧
    PathsDFS ((root :: pre').map (·.path)) ∧ (∀ m ∈ root :: pre', holds loc m.cid = true) ∧ holds loc n.cid = false ∧
    rem root.cid = true ∧
    (∀ it ∈ (respItemsW rem (root :: pre' ++ n :: post) [] 3).take 3, it.action = .present → holds loc it.link = true) ∧
    (refTrav rem (root :: pre' ++ n :: post) loc none).1.map (fun x => (x.1.cid, x.2)) =
      [(9, true), (1, true), (3, true), (4, false), (2, true), (5, true)] ∧
    (respItemsW rem (root :: pre' ++ n :: post) [] 3).map (fun it => (it.link, it.action == .present, it.block.isSome)) =
      (GS.Responder.respondSpec (.node 9 [.node 1 [.node 3 [], .node 4 []], .node 2 [], .node 5 []]) rem { skip := 3 } (fun _ => false)).1.map
        (fun it => (it.cid, it.present, it.block)) := by
  intro root pre' n post rem loc
  refine ⟨?_, by decide, by decide, by decide, by decide, by decide, ?_, ?_, ?_⟩
  · simp only [root, pre', n, post, List.cons_append, List.nil_append, WF, subOf, skipSub]
    decide
  · simp [root, pre', n, post, rem, loc, respItemsW, skipSub]
    decide
  · simp [root, pre', n, post, rem, loc, refTrav.eq_def, holds, storeGet, dead1, skipSub]
  · simp [root, pre', n, post, rem, respItemsW, skipSub]
    decide

/-- **the honest response of `complete_remote_start` / `complete_prefix` is the responder
    specification** (`Lemmas/LoaderReplaySpec.lean`): for every labelled link tree `t` of the responder
    model, every pre-order flattening `lt` of it (`FlatT t 0 lt`: same cids in pre-order, depths =
    tree depths; paths and visit counts arbitrary), every responder store `rem` and every requested
    do-not-send-first-blocks value `w` (no do-not-send-cids, no competing request in the dedup scope),
    `respItemsW rem lt [] w` and `respondSpec t rem {skip := w}` list the same links with the same
    present flags and the same block attachments.  `respondSpec` is what the operational responder
    produces for every batching (`C03.refines`). -/
theorem honest_response_is_spec (rem : Cid → Bool) (t : GS.Responder.LT) (lt : LT) (h : FlatT t 0 lt) (w : Nat) :
    (respItemsW rem lt [] w).map viewL =
      (GS.Responder.respondSpec t rem { skip := (w : Int) } (fun _ => false)).1.map viewR :=
  respItemsW_spec rem t lt h w

/-- the same without skip extension (the response of `complete_remote_start`) -/
theorem honest_response_is_spec_noskip (rem : Cid → Bool) (t : GS.Responder.LT) (lt : LT) (h : FlatT t 0 lt) :
    (respItems rem lt []).map viewL = (GS.Responder.respondSpec t rem {} (fun _ => false)).1.map viewR :=
  respItems_spec rem t lt h

/-- non-vacuity: the link tree of the example above is a flattening of its labelled tree -/
example :
    FlatT (.node 9 [.node 1 [.node 3 [], .node 4 []], .node 2 [], .node 5 []]) 0
      [⟨9, [], 0, 0, 0⟩, ⟨1, [0, 1], 1, 0, 0⟩, ⟨3, [0, 1, 0], 2, 0, 0⟩, ⟨4, [0, 1, 1], 2, 0, 0⟩, ⟨2, [0, 2], 1, 0, 0⟩,
       ⟨5, [1], 1, 0, 0⟩] := by
  simp only [FlatT, FlatL]
  refine ⟨_, _, rfl, rfl, rfl, [_, _, _], [_, _], rfl, ⟨_, _, rfl, rfl, rfl, [_], [_], rfl, ⟨_, _, rfl, rfl, rfl, rfl⟩,
    [_], [], rfl, ⟨_, _, rfl, rfl, rfl, rfl⟩, rfl⟩, [_], [_], rfl, ⟨_, _, rfl, rfl, rfl, rfl⟩, [_], [], rfl,
    ⟨_, _, rfl, rfl, rfl, rfl⟩, rfl⟩

/-
## Coverage of the completeness theorem, and what is still not a theorem

  complete (lt : LT) (loc rem : store) (hWF : well-formed link tree)
      (hcls1 : ¬ (requestor holds the root ∧ responder lacks the root ∧ loc does not cover lt))   -- class root-not-found-abort
      (hcls2 : no link among the first N = |local prefix| links of the responder's own traversal lies
               beyond the requestor's local prefix, is held by the responder and not by the requestor)
                                                                                      -- class skip-prefix-mismatch
      (hmsgs : msgs = the honest response `respondSpec` for (lt, rem, skip = N)) :
    the loads of the exchange are exactly `refTrav lt loc rem`, missing-block errors exactly for its
    undelivered links, every block obtained from the responder stored.

is proved by cases on the local prefix: `local_complete` (loc covers lt: N = |lt|, nothing sent),
`complete_remote_start` (N = 0: the requestor lacks the root; includes the case that the responder
lacks it too) and `complete_prefix` (0 < N < |lt|).  The excluded classes are inhabited:
`counterexample_skip_prefix`, `counterexample_root_not_found`.

Still not theorems (evidence: the reference-traversal oracle over the real code in the streams
`loader`, `requestor`, `exchange`, plus model/implementation correspondence):
* `complete_remote_start` / `complete_prefix` are stated for the loader driven by `walk` with the
  whole response ingested as ONE message before the retried load and the response closed; other
  batchings and interleavings are covered by `kahn_schedule` (any valid schedule = messages first),
  except that the closing `SetRemoteOnline(false)` is not an event of those schedules; the lift to
  the event stream of `Requestor.exchange` (block hooks, progress counts) is `C01.exchange_walk`
  for arbitrary messages, not re-stated here for the honest ones;
* a user-supplied do-not-send-first-blocks value larger than `N` (the oracle treats it as
  "the user vouches for the blocks": outside the property);
* `PathsDFS` is a hypothesis on the link tree (true of what `harness/dag` and go-ipld-prime produce:
  absolute paths of a depth-first walk), not derived from a selector semantics.
-/

end GS.C02
