import GSProofs.Lemmas.TaskQueueOvertake
import GS.Generated.TaskWiring
/-!
# C21 — Work limits are respected and every queued request eventually runs

Property (properties.jsonl): "A node never runs more incoming-request traversals at once than its
configured maximum (nor more for one peer than the per-peer maximum when set), never runs more
outgoing request executions at once than its outgoing maximum, and every queued request that is
not cancelled is eventually executed, even while other peers keep submitting requests."

Model: `GS.TQ.Sys` (lean/GS/Model/TaskQueue.lean) = taskqueue.WorkerTaskQueue (W worker goroutines,
wake-up signal, 100 ms tick) around the go-peertaskqueue model `GS.TQ.PTQ`.  Both graphsync queues
(requestQueue with W = MaxInProgressOutgoingRequests, responseQueue with
W = MaxInProgressIncomingRequests and cap = MaxInProgressIncomingRequestsPerPeer) are instances.
All theorems quantify over every schedule: `runList (Sys.init W cap) acts` ranges over all finite
interleavings of environment calls (PushTask, Remove) and worker steps; the "eventually" theorems
range over all infinite weakly-fair executions (`GS.Temporal`).

What is proved, what is not:
* `global`, `per_peer`                      — safety, full strength (all W, cap, schedules).
* `per_peer_counterexample`                 — the per-peer maximum bounds outstanding WORK; it bounds
                                              the number of traversals only because every graphsync
                                              task has Work = 1 (hypothesis `wfAct` of `per_peer`).
* `no_lost_wakeup`                          — an idle worker and an eligible queued task do not
                                              coexist forever (the tick; the signal is not needed).
* FULL liveness ("every queued, non-cancelled request eventually executes, even while other peers
  keep submitting") is FALSE of the model and of the code: `starvation_lasso`,
  `starvation_tie_lasso` are infinite weakly-fair executions in which a queued task is never popped
  (known findings `starvation-busy-peer`, `starvation-tie-break`; reproduced on the real queue by
  corpus/C21/workers/starve-*.cases on every run).
* `liveness_partial`                        — finitely many further PushTask/Remove calls ⇒ every pending
                                              task is eventually taken by a worker for execution or
                                              removed by an explicit cancel (`GS.TQ.leaves_pending`).
* `liveness_bounded_overtaking`             — INFINITELY many arrivals allowed, but the hypothesis
                                              `NoOvertake` is about what the SCHEDULER DECIDES (from some
                                              point on no worker starts another batch while the task
                                              waits), not about the arrival pattern; it is NOT the
                                              complement of the two finding classes (every starvation
                                              violates it).  Its content is "no lost wake-up + the next
                                              successful pop takes the task".  `bounded_overtaking_nonvacuous`
                                              exhibits an execution with arrivals continuing forever
                                              (also while the task waits) that satisfies it.
* NO arrival-only condition weaker than "finitely many further arrivals" is proved, and the natural
  candidates are refuted under weak fairness: bounding the competitors' backlog by the victim's
  (`starvation_tie_lasso`), or the number of competing peers below W, even to ONE peer with two
  workers (`starvation_spare_worker_lasso`, a schedule-adversarial execution: each worker's pop is
  delayed until the other worker's TaskDone).
-/
namespace GS.C21
open GS.TQ GS.Temporal

/-! ## Safety -/

theorem step_workers_length {s s' : Sys} {a : Act} (h : step s a = some s') :
    s'.workers.length = s.workers.length := by
  cases a <;> simp only [step] at h
  all_goals (try split at h) <;> (try split at h) <;> simp_all [Sys.popFor] <;> (try (subst h; simp))

theorem runList_workers_length {s s' : Sys} {as : List Act} (h : runList s as = some s') :
    s'.workers.length = s.workers.length := by
  induction as generalizing s with
  | nil => simp [runList] at h; subst h; rfl
  | cons a as ih =>
    simp only [runList] at h
    split at h
    · rename_i s1 hs1; rw [ih h, step_workers_length hs1]
    · cases h

/-- **Global limit** ("never runs more … at once than its configured maximum"), stated over the
    composed system (worker pool + peer task queue).  In every state reachable from
    `Startup(W, executor)` under any interleaving of PushTask / Remove calls and worker steps:
    1. at most `W` ExecuteTask invocations are in progress;
    2. every traversal in progress corresponds to a popped, not-yet-done task of its peer: per
       tracker, the workers owe no more TaskDone calls than the tracker has active tasks, and a
       peer without tracker has no execution at all;
    3. conversely no popped task is orphaned: each active task (counted per uid) is owed a TaskDone
       by some worker — so work-in-progress as the queue sees it (`Stats.Active`, the per-peer cap)
       and executions as the pool sees them are the same thing.
    Part 1 alone holds by the shape of the model (one list slot per worker goroutine; that the code
    starts exactly `W` goroutines is `wiring.startupExact` + stream `workers`, oracle `over-global`);
    parts 2–3 are the invariant `Inv` proved through `pop`/`done`/`remove`/`thaw`.
    NOT proved: global distinctness of uids across trackers (pushes are required to use a fresh uid;
    the multiset statement 2–3 does not need it). -/
theorem global (W cap : Nat) (acts : List Act) (s : Sys)
    (h : runList (Sys.init W cap) acts = some s) :
    running s ≤ W ∧
    (∀ tr ∈ s.q.peers, runningFor s tr.id ≤ sumBy (heldLen tr.id) s.workers ∧
        sumBy (heldLen tr.id) s.workers ≤ tr.active.length) ∧
    (∀ p, (∀ tr ∈ s.q.peers, tr.id ≠ p) → runningFor s p = 0) ∧
    (∀ tr ∈ s.q.peers, ∀ u, cntUid u tr.active ≤ sumBy (heldCnt tr.id u) s.workers) := by
  have hI : Inv s := (Inv.init W cap).runList h
  refine ⟨?_, ?_, ?_, hI.acnt⟩
  · have hl := runList_workers_length h
    have : (Sys.init W cap).workers.length = W := by simp [Sys.init]
    rw [this] at hl
    unfold running
    rw [← hl]
    exact List.length_filter_le _ _
  · intro tr htr
    exact ⟨runningFor_le_held s.workers tr.id, hI.elen tr htr⟩
  · intro p hp
    have h1 := runningFor_le_held s.workers p
    have h2 := hI.enone p hp
    unfold runningFor; omega

example : running ((runList (Sys.init 2 0)
    [.push 0 ⟨0, 0, 1, 1⟩, .push 1 ⟨1, 1, 1, 1⟩, .push 1 ⟨2, 2, 1, 1⟩, .pop 0, .pop 1]).getD {}) = 2 := by
  decide

/-- **Per-peer limit** ("nor more for one peer than the per-peer maximum when set"): with
    `MaxOutstandingWorkPerPeer(cap)`, `cap > 0`, and every pushed task of Work 1 (all PushTask calls
    in go-graphsync), at most `cap` traversals of one peer run at once (ExecuteTask entered,
    TaskDone not yet called), in every reachable state. -/
theorem per_peer (W cap : Nat) (hcap : 0 < cap) (acts : List Act) (hwf : ∀ a ∈ acts, wfAct a)
    (s : Sys) (h : runList (Sys.init W cap) acts = some s) (p : Nat) : runningFor s p ≤ cap := by
  have hI : Inv s := (Inv.init W cap).runList h
  have hC : CapInv s.q := (CapInv.init W cap).runList hwf h
  have hcapeq : s.q.cap = cap := by
    have : ∀ {s s' : Sys} {as : List Act}, runList s as = some s' → s'.q.cap = s.q.cap := by
      intro s s' as hr
      induction as generalizing s with
      | nil => simp [runList] at hr; subst hr; rfl
      | cons a as ih =>
        simp only [runList] at hr
        split at hr
        · rename_i s1 hs1
          rw [ih hr]
          cases a with
          | push p t =>
            simp only [step] at hs1; split at hs1
            · cases hs1
            · cases hs1; exact (push_peers _ _ _).choose_spec.2.2.2.1
          | remove p t => simp only [step] at hs1; cases hs1; exact (remove_peers _ _ _).2.1
          | pop i =>
            simp only [step] at hs1; split at hs1
            · cases hs1
              rcases pop_cases s.q 1 with ⟨_, hp⟩ | ⟨_, _, _, _, hc, _⟩
              · show (pop s.q 1).1.cap = _; rw [hp]
              · exact hc
            · cases hs1
          | sig i =>
            simp only [step] at hs1; split at hs1
            · split at hs1
              · cases hs1
                rcases pop_cases s.q 1 with ⟨_, hp⟩ | ⟨_, _, _, _, hc, _⟩
                · show (pop s.q 1).1.cap = _; rw [hp]
                · exact hc
              · cases hs1
            · cases hs1
          | tick i =>
            simp only [step] at hs1; split at hs1
            · cases hs1
              have ht := (thaw_facts s.q).2.2.2.2
              rcases pop_cases (thaw s.q) 1 with ⟨_, hp⟩ | ⟨_, _, _, _, hc, _⟩
              · show (pop (thaw s.q) 1).1.cap = _; rw [hp]; exact ht
              · exact hc.trans ht
            · cases hs1
          | done i =>
            simp only [step] at hs1; split at hs1
            · cases hs1; exact (done_peers _ _ _).2.2.1
            · cases hs1
          | ret i =>
            simp only [step] at hs1; split at hs1
            · cases hs1; rfl
            · cases hs1; rfl
            · cases hs1
        · cases hr
    rw [this h]; simp [Sys.init]
  have h1 := runningFor_le_held s.workers p
  unfold runningFor
  by_cases hex : ∃ tr ∈ s.q.peers, tr.id = p
  · obtain ⟨tr, htr, hid⟩ := hex
    have h2 := hI.elen tr htr
    have h3 := hC.bound (by rw [hcapeq]; exact hcap) tr htr
    rw [hid] at h2; rw [hcapeq] at h3
    omega
  · have := hI.enone p (fun tr htr he => hex ⟨tr, htr, he⟩)
    omega

/-- non-vacuity of `per_peer`: cap 1, three workers, two queued requests of peer 0 → exactly one
    runs although two workers are free. -/
example : let s := (runList (Sys.init 3 1)
      [.push 0 ⟨0, 0, 1, 1⟩, .push 0 ⟨1, 1, 1, 1⟩, .push 1 ⟨2, 2, 1, 1⟩, .pop 0, .pop 1, .pop 2]).getD {}
    runningFor s 0 = 1 ∧ runningFor s 1 = 1 ∧ running s = 2 := by
  decide

/-- What the cap really bounds is outstanding WORK, checked before each task is started: with
    tasks of Work 0 (never pushed by graphsync, allowed by the library) two traversals of one peer
    run at once under cap 1.  Hence the hypothesis `wfAct` of `per_peer`. -/
def zeroWorkActs : List Act :=
  [.pop 0, .pop 1, .push 0 ⟨0, 0, 1, 0⟩, .sig 0, .push 0 ⟨1, 1, 1, 0⟩, .sig 1]

theorem per_peer_counterexample :
    ∃ acts s, runList (Sys.init 2 1) acts = some s ∧ runningFor s 0 = 2 :=
  ⟨zeroWorkActs, (runList (Sys.init 2 1) zeroWorkActs).getD {}, by decide, by decide⟩

/-! ## How graphsync instantiates the model (regenerated from the source on every run)

`GS.Generated.TaskWiring` is extracted by translate/taskwiring from impl/graphsync.go,
taskqueue/taskqueue.go and the two managers; the theorem below is re-checked against it. -/

open GS.Generated.TaskWiring in
/-- The parameters of `global` / `per_peer` are the configured limits:
    * the option `MaxInProgressOutgoingRequests` is the worker count `W` of the queue run by the
      request executor, which has no per-peer cap; `MaxInProgressIncomingRequests` is the worker
      count of the queue run by the query executor, which is the queue created with the
      peertaskqueue options; `Startup` starts exactly that many workers;
    * `MaxOutstandingWorkPerPeer` is passed exactly when `MaxInProgressIncomingRequestsPerPeer > 0`,
      with that value (`cap`);
    * defaults 6 / 6 / unlimited;
    * every task pushed by the managers has `Work: 1` (hypothesis `wfAct` of `per_peer`), and the
      worker pops with `targetMinWork = 1` (the model's `pop q 1`); the wake-up channel has
      capacity 1 (the model's `signal : Bool`). -/
theorem wiring :
    (∃ rq pq fOut fIn fPeer,
      queues = [(rq, ""), (pq, capVar)] ∧
      startups = [(rq, fOut, "executor.NewExecutor"), (pq, fIn, "queryexecutor.New")] ∧
      options = [("MaxInProgressIncomingRequests", fIn), ("MaxInProgressIncomingRequestsPerPeer", fPeer),
                 ("MaxInProgressOutgoingRequests", fOut)] ∧
      capGuard = fPeer ∧ capArg = fPeer ∧ rq ≠ pq ∧
      defaults.lookup fOut = some 6 ∧ defaults.lookup fIn = some 6 ∧ defaults.lookup fPeer = some 0) ∧
    startupExact = true ∧ popTarget = 1 ∧ signalCap = 1 ∧ 0 < thawMs ∧
    pushWorks ≠ [] ∧ ∀ w ∈ pushWorks, w.2 = 1 := by
  refine ⟨⟨_, _, _, _, _, rfl, rfl, rfl, rfl, rfl, by decide, by decide, by decide, by decide⟩,
    rfl, rfl, rfl, by decide, by decide, by decide⟩

/-! ## No lost wake-up -/

/-- the budgeted system never leaves the invariant when started in it -/
theorem inv_along {σ : Nat → BSys} (hex : Exec BS σ) (h0 : Inv (σ 0).s) : ∀ n, Inv (σ n).s := by
  intro n
  induction n with
  | zero => exact h0
  | succ n ih =>
    rcases hex n with h | ⟨a, h⟩
    · rw [h]; exact ih
    · exact (V_step ih h).1

/-- **No lost wake-up**: take any execution of the worker pool in which the environment calls
    PushTask / Remove only finitely often from now on (`budget`) and every worker action that stays
    enabled is eventually taken (weak fairness; for an idle worker that is the 100 ms tick).  If at
    some point worker `i` is idle while some peer has a queued task and is below its outstanding-work
    cap, then later worker `i` is not idle or no such peer is left.  The wake-up signal is not used:
    the proof goes through the ticker branch (ThawRound; PopTasks) alone, which also thaws peers
    frozen by Remove. -/
theorem no_lost_wakeup (σ : Nat → BSys) (hex : Exec BS σ) (hwf : WF1 BS fairAct σ)
    (h0 : Inv (σ 0).s) (i : Nat) :
    LeadsTo σ (fun b => idleAt i b.s ∧ eligible b.s) (fun b => ¬ (idleAt i b.s ∧ eligible b.s)) := by
  have R : HelpfulRule BS fairAct (fun b => Inv b.s ∧ idleAt i b.s ∧ eligible b.s)
      (fun b => ¬ (idleAt i b.s ∧ eligible b.s)) V (fun _ => Act.tick i) := by
    refine ⟨?_, ?_, ?_⟩
    · intro b a b' hP _ hstep
      obtain ⟨hI', hv⟩ := V_step hP.1 hstep
      refine ⟨?_, ?_⟩
      · by_cases hq : idleAt i b'.s ∧ eligible b'.s
        · exact Or.inl ⟨hI', hq⟩
        · exact Or.inr hq
      · rcases hv with hv | ⟨hv, _⟩
        · exact Or.inl hv
        · exact Or.inr ⟨hv, rfl⟩
    · intro b hP _
      refine ⟨rfl, ?_⟩
      have hw : b.s.workers[i]? = some .idle := hP.2.1
      show (bstep b (.tick i)).isSome = true
      simp [bstep, isEnv, step, hw]
    · intro b b' hP _ hstep
      have hw : b.s.workers[i]? = some .idle := hP.2.1
      have e : bstep b (.tick i) = some ⟨b.s.popFor i (thaw b.s.q), b.budget⟩ := by
        simp [bstep, isEnv, step, hw]
      have hstep' : bstep b (.tick i) = some b' := hstep
      rw [e] at hstep'; cases hstep'
      rcases tick_progress hP.1 hP.2.1 hP.2.2 with hni | hlt
      · exact Or.inl (fun hc => hni hc.1)
      · right; unfold V; simp only []; omega
  intro n hP
  exact leadsTo_of_helpful R hex hwf n ⟨inv_along hex h0 n, hP⟩

/-! ## Liveness -/

/-- next action of a worker that is not idle -/
def nextAct (i : Nat) : WSt → Act
  | .ready => .pop i
  | .exec _ _ false _ => .done i
  | .exec _ _ true _ => .ret i
  | .idle => .tick i

def firstBusy : List WSt → Nat → Option (Nat × WSt)
  | [], _ => none
  | .idle :: ws, i => firstBusy ws (i + 1)
  | w :: _, i => some (i, w)

/-- the action that makes progress: the next step of the first worker that is not idle; if all are
    idle, the tick of worker 0 -/
def helpfulW (ws : List WSt) : Act :=
  match firstBusy ws 0 with
  | some (i, w) => nextAct i w
  | none => .tick 0

def helpful (b : BSys) : Act := helpfulW b.s.workers

theorem firstBusy_some {ws : List WSt} {k i : Nat} {w : WSt} (h : firstBusy ws k = some (i, w)) :
    k ≤ i ∧ ws[i - k]? = some w ∧ w ≠ .idle := by
  induction ws generalizing k with
  | nil => simp [firstBusy] at h
  | cons x xs ih =>
    cases x with
    | idle =>
      simp only [firstBusy] at h
      obtain ⟨h1, h2, h3⟩ := ih h
      refine ⟨by omega, ?_, h3⟩
      have : i - k = (i - (k + 1)) + 1 := by omega
      rw [this]; simpa using h2
    | ready => simp only [firstBusy] at h; cases h; exact ⟨Nat.le_refl _, by simp, by simp⟩
    | exec p c d r => simp only [firstBusy] at h; cases h; exact ⟨Nat.le_refl _, by simp, by simp⟩

theorem firstBusy_none {ws : List WSt} {k : Nat} (h : firstBusy ws k = none) : ∀ w ∈ ws, w = .idle := by
  induction ws generalizing k with
  | nil => intro w hw; cases hw
  | cons x xs ih =>
    cases x with
    | idle =>
      simp only [firstBusy] at h
      intro w hw
      rcases List.mem_cons.mp hw with rfl | hw'
      · rfl
      · exact ih h w hw'
    | ready => simp [firstBusy] at h
    | exec p c d r => simp [firstBusy] at h

/-- **Liveness, partial** ("every queued request that is not cancelled is eventually executed" —
    under the extra hypothesis that the environment makes only finitely many further PushTask /
    Remove calls, the initial `budget` being arbitrary): in every weakly fair execution of a pool
    with at least one worker, a task that is pending at some point is later not pending any more —
    and a task leaves `pending` only by being popped by a worker, which then runs ExecuteTask on it
    (`startTask`), or by Remove (cancel).  Task durations are arbitrary but finite (the executor's
    `done` / `ret` steps are fair).  Without the hypothesis the statement is false:
    `starvation_lasso`, `starvation_tie_lasso`. -/
theorem liveness_partial_pending (σ : Nat → BSys) (hex : Exec BS σ) (hwf : WF1 BS fairAct σ)
    (h0 : Inv (σ 0).s) (hW : (σ 0).s.workers ≠ []) (u : Nat) :
    LeadsTo σ (fun b => pendingUid u b.s = true) (fun b => pendingUid u b.s = false) := by
  have R : HelpfulRule BS fairAct (fun b => Inv b.s ∧ b.s.workers ≠ [] ∧ pendingUid u b.s = true)
      (fun b => pendingUid u b.s = false) V helpful := by
    refine ⟨?_, ?_, ?_⟩
    · intro b a b' hP _ hstep
      obtain ⟨hI', hv⟩ := V_step hP.1 hstep
      have hlen : b'.s.workers.length = b.s.workers.length := by
        rcases bstep_cases hstep with ⟨_, _, _, hs⟩ | ⟨_, _, hs⟩ <;> exact step_workers_length hs
      have hne : b'.s.workers ≠ [] := by
        intro h; apply hP.2.1
        have : b.s.workers.length = 0 := by rw [← hlen, h]; rfl
        exact List.length_eq_zero_iff.mp this
      refine ⟨?_, ?_⟩
      · by_cases hq : pendingUid u b'.s = true
        · exact Or.inl ⟨hI', hne, hq⟩
        · exact Or.inr (by simpa using hq)
      · rcases hv with hv | ⟨hv, hw⟩
        · exact Or.inl hv
        · exact Or.inr ⟨hv, by unfold helpful; rw [hw]⟩
    · intro b hP _
      unfold helpful helpfulW
      cases hfb : firstBusy b.s.workers 0 with
      | some iw =>
        obtain ⟨i, w⟩ := iw
        obtain ⟨_, hget, hni⟩ := firstBusy_some hfb
        simp only [Nat.sub_zero] at hget
        cases w with
        | idle => exact absurd rfl hni
        | ready => exact ⟨rfl, by show (bstep b (.pop i)).isSome = true; simp [bstep, isEnv, step, hget]⟩
        | exec p c d r =>
          cases d with
          | false => exact ⟨rfl, by show (bstep b (.done i)).isSome = true; simp [bstep, isEnv, step, hget]⟩
          | true =>
            refine ⟨rfl, ?_⟩
            show (bstep b (.ret i)).isSome = true
            cases r <;> simp [bstep, isEnv, step, hget]
      | none =>
        have hall := firstBusy_none hfb
        refine ⟨rfl, ?_⟩
        show (bstep b (.tick 0)).isSome = true
        have : b.s.workers[0]? = some .idle := by
          cases hws : b.s.workers with
          | nil => exact absurd hws hP.2.1
          | cons x xs => rw [hws] at hall; simp [hall x (by simp)]
        simp [bstep, isEnv, step, this]
    · intro b b' hP _ hstep
      right
      unfold helpful helpfulW at hstep
      cases hfb : firstBusy b.s.workers 0 with
      | some iw =>
        obtain ⟨i, w⟩ := iw
        rw [hfb] at hstep
        simp only [] at hstep
        obtain ⟨_, _, hni⟩ := firstBusy_some hfb
        have hnt : ∀ j, nextAct i w ≠ .tick j := by
          intro j; cases w with
          | idle => exact absurd rfl hni
          | ready => simp [nextAct]
          | exec p c d r => cases d <;> simp [nextAct]
        have henv : isEnv (nextAct i w) = false := by
          cases w with
          | idle => rfl
          | ready => rfl
          | exec p c d r => cases d <;> rfl
        rcases bstep_cases hstep with ⟨he, _⟩ | ⟨_, hb, hs⟩
        · rw [henv] at he; cases he
        · have := M_strict hP.1 henv hnt hs
          unfold V; rw [hb]; omega
      | none =>
        rw [hfb] at hstep
        simp only [] at hstep
        have hall := firstBusy_none hfb
        have hw0 : b.s.workers[0]? = some .idle := by
          cases hws : b.s.workers with
          | nil => exact absurd hws hP.2.1
          | cons x xs => rw [hws] at hall; simp [hall x (by simp)]
        have e : bstep b (.tick 0) = some ⟨b.s.popFor 0 (thaw b.s.q), b.budget⟩ := by
          simp [bstep, isEnv, step, hw0]
        have hstep' : bstep b (.tick 0) = some b' := hstep
        rw [e] at hstep'; cases hstep'
        -- every worker is idle, so nothing is active and the peer holding `u` is eligible
        have hsum : ∀ p v, sumBy (heldCnt p v) b.s.workers = 0 := by
          intro p v
          apply sumBy_eq_zero
          intro w hw; rw [hall w hw]; rfl
        obtain ⟨t, ht, htu⟩ := List.any_eq_true.mp hP.2.2
        have htp : t.pending ≠ [] := by
          intro hnil; rw [hnil] at htu; simp at htu
        have hta : t.active = [] := by
          apply eq_nil_of_cntUid_zero
          intro v
          have := hP.1.acnt t ht v
          rw [hsum] at this; omega
        have hel : eligible b.s := by
          refine ⟨t, ht, htp, ?_⟩
          unfold Tracker.activeWork; rw [hta]
          simp only [sumWork]; omega
        have hstepS : step b.s (.tick 0) = some (b.s.popFor 0 (thaw b.s.q)) := by simp [step, hw0]
        rcases tick_progress hP.1 hw0 hel with hni | hlt
        · rcases (M_internal hP.1 rfl hstepS).2 with h1 | h1
          · unfold V; simp only []; omega
          · exfalso; apply hni
            show (b.s.popFor 0 (thaw b.s.q)).workers[0]? = some .idle
            rw [h1]; exact hw0
        · unfold V; simp only []; omega
  have hne : ∀ n, (σ n).s.workers ≠ [] := by
    intro n
    induction n with
    | zero => exact hW
    | succ n ih =>
      rcases hex n with h | ⟨a, h⟩
      · rw [h]; exact ih
      · have hlen : (σ (n + 1)).s.workers.length = (σ n).s.workers.length := by
          rcases bstep_cases h with ⟨_, _, _, hs⟩ | ⟨_, _, hs⟩ <;> exact step_workers_length hs
        intro hnil; apply ih
        have : (σ n).s.workers.length = 0 := by rw [← hlen, hnil]; rfl
        exact List.length_eq_zero_iff.mp this
  intro n hP
  exact leadsTo_of_helpful R hex hwf n ⟨inv_along hex h0 n, hne n, hP⟩

/-- between a position where `p` holds and a later one where it does not, there is a step at which
    it stops holding -/
theorem first_exit {X : Type} (σ : Nat → X) (p : X → Bool) :
    ∀ (d n : Nat), p (σ n) = true → p (σ (n + d)) = false →
      ∃ k, n ≤ k ∧ k < n + d ∧ p (σ k) = true ∧ p (σ (k + 1)) = false := by
  intro d
  induction d with
  | zero => intro n h1 h2; rw [Nat.add_zero, h1] at h2; cases h2
  | succ d ih =>
    intro n h1 h2
    cases hq : p (σ (n + 1)) with
    | false => exact ⟨n, Nat.le_refl _, by omega, h1, hq⟩
    | true =>
      have e : n + (d + 1) = n + 1 + d := by omega
      rw [e] at h2
      obtain ⟨k, hk1, hk2, hk3, hk4⟩ := ih (n + 1) hq h2
      exact ⟨k, by omega, by omega, hk3, hk4⟩

/-- `u` is handed to a worker for execution, or cancelled by Remove, in the step `b → b'` -/
def ExecutedOrCancelled (u : Nat) (s s' : Sys) : Prop :=
  pendingUid u s = true ∧ pendingUid u s' = false ∧
  ((∃ (i : Nat) (w : WSt), s'.workers[i]? = some w ∧ holdsU u w = true) ∨
   ∃ p topic, step s (.remove p topic) = some s')

/-- **Liveness, partial — finitely many further arrivals** ("every queued request that is not
    cancelled is eventually executed").  In every weakly fair execution of a pool with at least one
    worker in which the environment makes only finitely many further PushTask / Remove calls (the
    initial `budget` is arbitrary), a task that is pending at position `n` is, at some later step,
    taken by a worker — which then holds it as the task it executes (`ExecuteTask`) or as the next of
    its popped batch — or removed by an explicit `Remove` (cancel).  Task durations are arbitrary but
    finite.  See `liveness_bounded_overtaking` for infinitely many arrivals. -/
theorem liveness_partial (σ : Nat → BSys) (hex : Exec BS σ) (hwf : WF1 BS fairAct σ)
    (h0 : Inv (σ 0).s) (hW : (σ 0).s.workers ≠ []) (u n : Nat) (hp : pendingUid u (σ n).s = true) :
    ∃ k, n ≤ k ∧ ExecutedOrCancelled u (σ k).s (σ (k + 1)).s := by
  obtain ⟨m, hnm, hq⟩ := liveness_partial_pending σ hex hwf h0 hW u n hp
  obtain ⟨d, rfl⟩ := Nat.exists_eq_add_of_le hnm
  obtain ⟨k, hk1, _, hk3, hk4⟩ := first_exit σ (fun b => pendingUid u b.s) d n hp hq
  refine ⟨k, hk1, hk3, hk4, ?_⟩
  rcases hex k with hst | ⟨a, ha⟩
  · rw [hst, hk3] at hk4; cases hk4
  · have hs : step (σ k).s a = some (σ (k + 1)).s := by
      rcases bstep_cases ha with ⟨_, _, _, hs⟩ | ⟨_, _, hs⟩ <;> exact hs
    rcases leaves_pending (inv_along hex h0 k) hs hk3 hk4 with hl | ⟨p, topic, rfl⟩
    · exact Or.inl hl
    · exact Or.inr ⟨p, topic, hs⟩

/-! ### Liveness with infinitely many arrivals, under bounded overtaking -/

theorem inv_along_US {σ : Nat → Sys} (hex : Exec US σ) (h0 : Inv (σ 0)) : ∀ n, Inv (σ n) := by
  intro n
  induction n with
  | zero => exact h0
  | succ n ih =>
    rcases hex n with h | ⟨a, h⟩
    · rw [h]; exact ih
    · exact ih.step h

theorem workers_along_US {σ : Nat → Sys} (hex : Exec US σ) (h0 : (σ 0).workers ≠ []) :
    ∀ n, (σ n).workers ≠ [] := by
  intro n
  induction n with
  | zero => exact h0
  | succ n ih =>
    rcases hex n with h | ⟨a, h⟩
    · rw [h]; exact ih
    · have hlen := step_workers_length h
      intro hnil; apply ih
      have : (σ n).workers.length = 0 := by rw [← hlen, hnil]; rfl
      exact List.length_eq_zero_iff.mp this

/-- **Liveness under bounded overtaking** ("… is eventually executed, even while other peers keep
    submitting requests").  `US` is the worker pool with an UNBOUNDED environment: PushTask and Remove
    may be called infinitely often, by any peers.  Hypothesis `NoOvertake u`, required only from
    some position `N` on (so finitely many violations are allowed):
      (1) while `u` keeps waiting, no worker starts a batch of other tasks.  NOTE: this constrains
          the outcome of the scheduler's decisions (which PopTasks calls succeed), not the arrival
          pattern; every starvation violates it (`lassos_overtake` for the two known ones), so it is
          not the complement of the known finding classes, and
      (2) the freeze value of `u`'s own tracker does not grow (its peer stops cancelling queued
          requests; cancels of other peers are unrestricted).
    Then in every weakly fair execution with at least one worker, a task `u` pending at `n ≥ N` is
    later taken by a worker for execution or removed by an explicit cancel.  Arrivals from all peers,
    cancels of other peers, task durations and the schedule are arbitrary.
    Non-vacuity with continuing arrivals: `bounded_overtaking_nonvacuous`.
    "Every queued request … even while other peers keep submitting" in terms of the ARRIVAL pattern
    remains unproved beyond `liveness_partial`; `starvation_tie_lasso` and
    `starvation_spare_worker_lasso` refute the natural arrival-only candidates. -/
theorem liveness_bounded_overtaking (σ : Nat → Sys) (hex : Exec US σ) (hwf : WF1 US fairAct σ)
    (h0 : Inv (σ 0)) (hW : (σ 0).workers ≠ []) (u N : Nat)
    (hT : ∀ j, N ≤ j → NoOvertake u (σ j) (σ (j + 1)))
    (n : Nat) (hn : N ≤ n) (hp : pendingUid u (σ n) = true) :
    ∃ k, n ≤ k ∧ ExecutedOrCancelled u (σ k) (σ (k + 1)) := by
  have R : HelpfulRuleOn US fairAct (NoOvertake u)
      (fun s => Inv s ∧ s.workers ≠ [] ∧ pendingUid u s = true)
      (fun s => pendingUid u s = false) (V2 u) (fun s => helpfulW s.workers) := by
    refine ⟨?_, ?_, ?_⟩
    · intro s a s' hP _ hstep hT
      have hstep' : step s a = some s' := hstep
      have hI' := hP.1.step hstep'
      have hne : s'.workers ≠ [] := by
        intro h; apply hP.2.1
        have : s.workers.length = 0 := by rw [← step_workers_length hstep', h]; rfl
        exact List.length_eq_zero_iff.mp this
      by_cases hq : pendingUid u s' = true
      · refine Or.inr ⟨⟨hI', hne, hq⟩, ?_⟩
        obtain ⟨h1, h2⟩ := phase_step hstep' (hT.1 hP.2.2 hq)
        have h3 := hT.2
        unfold V2
        rcases h2 with h2 | h2
        · left; omega
        · rcases Nat.lt_or_ge (sumBy phase s'.workers + fU u s'.q.peers)
            (sumBy phase s.workers + fU u s.q.peers) with h4 | h4
          · left; exact h4
          · right; exact ⟨by omega, by rw [h2]⟩
      · exact Or.inl (by simpa using hq)
    · intro s hP _
      unfold helpfulW
      cases hfb : firstBusy s.workers 0 with
      | some iw =>
        obtain ⟨i, w⟩ := iw
        obtain ⟨_, hget, hni⟩ := firstBusy_some hfb
        simp only [Nat.sub_zero] at hget
        cases w with
        | idle => exact absurd rfl hni
        | ready => exact ⟨rfl, by show (step s (.pop i)).isSome = true; simp [step, hget]⟩
        | exec p c d r =>
          cases d with
          | false => exact ⟨rfl, by show (step s (.done i)).isSome = true; simp [step, hget]⟩
          | true =>
            refine ⟨rfl, ?_⟩
            show (step s (.ret i)).isSome = true
            cases r <;> simp [step, hget]
      | none =>
        have hall := firstBusy_none hfb
        refine ⟨rfl, ?_⟩
        show (step s (.tick 0)).isSome = true
        have : s.workers[0]? = some .idle := by
          cases hws : s.workers with
          | nil => exact absurd hws hP.2.1
          | cons x xs => rw [hws] at hall; simp [hall x (by simp)]
        simp [step, this]
    · intro s s' hP _ hstep hT
      have hstep' : step s (helpfulW s.workers) = some s' := hstep
      by_cases hq : pendingUid u s' = true
      · right
        have hnt := hT.1 hP.2.2 hq
        have h3 := hT.2
        unfold helpfulW at hstep'
        cases hfb : firstBusy s.workers 0 with
        | some iw =>
          obtain ⟨i, w⟩ := iw
          rw [hfb] at hstep'
          simp only [] at hstep'
          obtain ⟨_, hget, hni⟩ := firstBusy_some hfb
          simp only [Nat.sub_zero] at hget
          -- pop / done / ret of worker i: its phase drops
          have hph : sumBy phase s'.workers < sumBy phase s.workers := by
            rcases (phase_step hstep' hnt).2 with h | h
            · exact h
            · exfalso
              have hgi : s'.workers[i]? = some w := by rw [h]; exact hget
              cases w with
              | idle => exact hni rfl
              | ready =>
                simp only [nextAct, step, hget] at hstep'
                cases hstep'
                have hnil := popFor_not_took hget rfl hnt
                have hlen : i < s.workers.length := by
                  rcases Nat.lt_or_ge i s.workers.length with h | h
                  · exact h
                  · simp [List.getElem?_eq_none h] at hget
                have : (s.popFor i s.q).workers[i]? = some (startFrom (pop s.q 1).2) := by
                  show (s.workers.set i _)[i]? = _; simp [hlen]
                rw [this, startFrom_idle_of_nil _ hnil] at hgi; cases hgi
              | exec p c d r =>
                have hlen : i < s.workers.length := by
                  rcases Nat.lt_or_ge i s.workers.length with h | h
                  · exact h
                  · simp [List.getElem?_eq_none h] at hget
                cases d with
                | false =>
                  simp only [nextAct, step, hget] at hstep'
                  cases hstep'
                  simp [hlen] at hgi
                | true =>
                  cases r with
                  | nil =>
                    simp only [nextAct, step, hget] at hstep'
                    cases hstep'
                    simp [hlen] at hgi
                  | cons t ts =>
                    simp only [nextAct, step, hget] at hstep'
                    cases hstep'
                    simp [hlen] at hgi
          unfold V2; omega
        | none =>
          rw [hfb] at hstep'
          simp only [] at hstep'
          have hall := firstBusy_none hfb
          have hw0 : s.workers[0]? = some .idle := by
            cases hws : s.workers with
            | nil => exact absurd hws hP.2.1
            | cons x xs => rw [hws] at hall; simp [hall x (by simp)]
          simp only [step, hw0] at hstep'
          cases hstep'
          have hnil := popFor_not_took hw0 rfl hnt
          have hf := tick_fU hP.1 hall hP.2.2 hnil
          have hphase := (phase_step (a := .tick 0) (by simp [step, hw0]) hnt).1
          unfold V2
          show sumBy phase (s.popFor 0 (thaw s.q)).workers + fU u (pop (thaw s.q) 1).1.peers < _
          omega
      · exact Or.inl (by simpa using hq)
  obtain ⟨m, hnm, hq⟩ := leadsTo_of_helpful_from R hex hwf N hT n hn
    ⟨inv_along_US hex h0 n, workers_along_US hex hW n, hp⟩
  obtain ⟨d, rfl⟩ := Nat.exists_eq_add_of_le hnm
  obtain ⟨k, hk1, _, hk3, hk4⟩ := first_exit σ (fun s => pendingUid u s) d n hp hq
  refine ⟨k, hk1, hk3, hk4, ?_⟩
  rcases hex k with hst | ⟨a, ha⟩
  · rw [hst, hk3] at hk4; cases hk4
  · have hs : step (σ k) a = some (σ (k + 1)) := ha
    rcases leaves_pending (inv_along_US hex h0 k) hs hk3 hk4 with hl | ⟨p, topic, rfl⟩
    · exact Or.inl hl
    · exact Or.inr ⟨p, topic, hs⟩

/-- non-vacuity: the hypotheses of `no_lost_wakeup` / `liveness_partial` hold at `Startup`. -/
example (W cap B : Nat) (hW : 0 < W) :
    Inv (⟨Sys.init W cap, B⟩ : BSys).s ∧ (⟨Sys.init W cap, B⟩ : BSys).s.workers ≠ [] := by
  refine ⟨Inv.init W cap, ?_⟩
  cases W with
  | zero => omega
  | succ n => simp [Sys.init, List.replicate]

/-! ## Full-strength liveness is false: starvation lassos

Full statement (NOT a theorem): for every weakly fair execution `σ` of the unbounded system `US`
(arbitrary arrivals) and every `u`, `LeadsTo σ (pendingUid u · = true) (pendingUid u · = false)`.
The two theorems below each exhibit a reachable state, a cycle of steps returning to exactly that
state, and prove that repeating the cycle forever is a weakly fair execution along which task 9 of
another peer stays pending.  One worker; the pattern generalises to W busy peers for W workers. -/

def tk (u topic : Nat) : Task := { uid := u, topic := topic, prio := 5, work := 1 }

/-- peer 0 submits three requests, peer 1 one (uid 9); worker 0 runs peer 0's first -/
def busyPrefix : List Act :=
  [.pop 0, .push 0 (tk 0 0), .sig 0, .push 0 (tk 1 1), .push 0 (tk 2 2), .push 1 (tk 9 9)]

/-- peer 0 finishes a request, the worker pops the next one — peer 0 again, because it has 2 pending
    against 1 — and peer 0 submits another request; three rounds return to the same state -/
def busyCycle : List Act :=
  [.done 0, .ret 0, .pop 0, .push 0 (tk 0 0),
   .done 0, .ret 0, .pop 0, .push 0 (tk 1 1),
   .done 0, .ret 0, .pop 0, .push 0 (tk 2 2)]

def busyStart : Sys := (runList (Sys.init 1 0) busyPrefix).getD {}

def workerActs : List Act := [.pop 0, .sig 0, .tick 0, .done 0, .ret 0]

theorem fair_cover (s0 : Sys) (cyc : List Act) (hlen : (stateAt s0 cyc 0).workers.length = 1)
    (hL : 0 < cyc.length) :
    ∀ a, fairAct a → a ∈ workerActs ∨ ∃ k, k < cyc.length ∧ step (stateAt s0 cyc k) a = none := by
  intro a ha
  have hout : ∀ i, 1 ≤ i → (stateAt s0 cyc 0).workers.length ≤ i := fun i hi => by omega
  cases a with
  | push p t => simp [fairAct, isEnv] at ha
  | remove p t => simp [fairAct, isEnv] at ha
  | pop i =>
    cases i with
    | zero => left; simp [workerActs]
    | succ i => right; exact ⟨0, hL, (step_none_of_index (hout _ (by omega))).1⟩
  | sig i =>
    cases i with
    | zero => left; simp [workerActs]
    | succ i => right; exact ⟨0, hL, (step_none_of_index (hout _ (by omega))).2.1⟩
  | tick i =>
    cases i with
    | zero => left; simp [workerActs]
    | succ i => right; exact ⟨0, hL, (step_none_of_index (hout _ (by omega))).2.2.1⟩
  | done i =>
    cases i with
    | zero => left; simp [workerActs]
    | succ i => right; exact ⟨0, hL, (step_none_of_index (hout _ (by omega))).2.2.2.1⟩
  | ret i =>
    cases i with
    | zero => left; simp [workerActs]
    | succ i => right; exact ⟨0, hL, (step_none_of_index (hout _ (by omega))).2.2.2.2⟩

set_option maxRecDepth 100000 in
theorem busy_ok : lassoOk busyStart busyCycle = true := by decide

set_option maxRecDepth 100000 in
theorem busy_fair : fairOk busyStart busyCycle workerActs = true := by decide

set_option maxRecDepth 100000 in
theorem busy_pending :
    (List.range busyCycle.length).all (fun k => pendingUid 9 (stateAt busyStart busyCycle k)) = true := by
  decide

set_option maxRecDepth 100000 in
theorem busy_reach : runList (Sys.init 1 0) busyPrefix = some busyStart := by decide

/-- **Starvation (busy peer)** — counterexample to full-strength liveness.  There is an infinite
    execution of the worker pool, starting in a state reachable from `Startup(1, executor)`, weakly
    fair for every worker action, in which the request with uid 9 of peer 1 is pending at every
    position: peer 0 always has two requests queued, and DefaultPeerComparator prefers, among peers
    with equal active work, the one with MORE pending tasks. -/
theorem starvation_lasso :
    ∃ σ : Nat → Sys, runList (Sys.init 1 0) busyPrefix = some (σ 0) ∧ Exec US σ ∧
      WF1 US fairAct σ ∧ ∀ n, pendingUid 9 (σ n) = true := by
  have hL : 0 < busyCycle.length := by decide
  refine ⟨lassoExec busyStart busyCycle, ?_, lasso_exec busy_ok hL, ?_, ?_⟩
  · show runList _ _ = some (stateAt busyStart busyCycle (0 % busyCycle.length))
    rw [busy_reach]; rfl
  · exact lasso_wf1 busy_ok hL busy_fair (fair_cover busyStart busyCycle (by decide) hL)
  · intro n
    exact List.all_eq_true.mp busy_pending (n % busyCycle.length) (List.mem_range.mpr (Nat.mod_lt _ hL))

/-- peers 0 and 1 have one request each running/queued, peer 2 one queued request (uid 9) that sits
    in the right subtree of the heap -/
def tiePrefix : List Act :=
  [.pop 0, .push 0 (tk 0 0), .sig 0, .push 1 (tk 1 1), .push 2 (tk 9 9), .push 0 (tk 2 2),
   .done 0, .ret 0, .pop 0, .push 1 (tk 0 0)]

/-- peers 0 and 1 alternately finish a request and submit a new one; they swap places at the top of
    the heap, the equally ranked peer 2 is never chosen -/
def tieCycle : List Act :=
  [.done 0, .ret 0, .pop 0, .push 0 (tk 1 1),
   .done 0, .ret 0, .pop 0, .push 1 (tk 2 2),
   .done 0, .ret 0, .pop 0, .push 0 (tk 0 0),
   .done 0, .ret 0, .pop 0, .push 1 (tk 1 1),
   .done 0, .ret 0, .pop 0, .push 0 (tk 2 2),
   .done 0, .ret 0, .pop 0, .push 1 (tk 0 0)]

def tieStart : Sys := (runList (Sys.init 1 0) tiePrefix).getD {}

set_option maxRecDepth 100000 in
theorem tie_ok : lassoOk tieStart tieCycle = true := by decide

set_option maxRecDepth 100000 in
theorem tie_fair : fairOk tieStart tieCycle workerActs = true := by decide

set_option maxRecDepth 100000 in
theorem tie_pending :
    (List.range tieCycle.length).all (fun k => pendingUid 9 (stateAt tieStart tieCycle k)) = true := by
  decide

set_option maxRecDepth 100000 in
theorem tie_reach : runList (Sys.init 1 0) tiePrefix = some tieStart := by decide

/-- **Starvation (tie-break)** — second counterexample to full-strength liveness, found while
    building the check: no peer ever has more pending tasks than the victim.  Peers 0 and 1 each
    keep exactly one request queued; DefaultPeerComparator ranks them equal to peer 2, and the
    binary heap (container/heap, left child preferred among equals) keeps handing the top to
    peers 0 and 1 in turn.  Peer 2's request (uid 9) is pending at every position of a weakly fair
    execution. -/
theorem starvation_tie_lasso :
    ∃ σ : Nat → Sys, runList (Sys.init 1 0) tiePrefix = some (σ 0) ∧ Exec US σ ∧
      WF1 US fairAct σ ∧ ∀ n, pendingUid 9 (σ n) = true := by
  have hL : 0 < tieCycle.length := by decide
  refine ⟨lassoExec tieStart tieCycle, ?_, lasso_exec tie_ok hL, ?_, ?_⟩
  · show runList _ _ = some (stateAt tieStart tieCycle (0 % tieCycle.length))
    rw [tie_reach]; rfl
  · exact lasso_wf1 tie_ok hL tie_fair (fair_cover tieStart tieCycle (by decide) hL)
  · intro n
    exact List.all_eq_true.mp tie_pending (n % tieCycle.length) (List.mem_range.mpr (Nat.mod_lt _ hL))

/-! ### The two lassos violate the bounded-overtaking hypothesis (as every starvation does) -/

/-- some step of the cycle starts a batch while task `u` is pending before and after -/
def overtakesIn (u : Nat) (s0 : Sys) (cyc : List Act) : Bool :=
  (List.range cyc.length).any fun k =>
    pendingUid u (stateAt s0 cyc k) && pendingUid u (stateAt s0 cyc ((k + 1) % cyc.length)) &&
    decide (totalHeld (stateAt s0 cyc k) < totalHeld (stateAt s0 cyc ((k + 1) % cyc.length)))

theorem lasso_overtakes_forever {u : Nat} {s0 : Sys} {cyc : List Act} (hL : 0 < cyc.length)
    (h : overtakesIn u s0 cyc = true) :
    ∀ N, ∃ j, N ≤ j ∧ ¬ NoOvertake u (lassoExec s0 cyc j) (lassoExec s0 cyc (j + 1)) := by
  intro N
  obtain ⟨k, hkr, hk⟩ := List.any_eq_true.mp h
  have hkl := List.mem_range.mp hkr
  simp only [Bool.and_eq_true, decide_eq_true_eq] at hk
  refine ⟨k + N * cyc.length, ?_, ?_⟩
  · have : N ≤ N * cyc.length := Nat.le_mul_of_pos_right N hL
    omega
  · intro hno
    have e1 : lassoExec s0 cyc (k + N * cyc.length) = stateAt s0 cyc k := by
      rw [lassoExec_period]; unfold lassoExec; rw [Nat.mod_eq_of_lt hkl]
    have e2 : lassoExec s0 cyc (k + N * cyc.length + 1) = stateAt s0 cyc ((k + 1) % cyc.length) := by
      have : k + N * cyc.length + 1 = (k + 1) + N * cyc.length := by omega
      rw [this, lassoExec_period]; rfl
    rw [e1, e2] at hno
    exact hno.1 hk.1.1 hk.1.2 hk.2

set_option maxRecDepth 100000 in
/-- both starvation executions violate `NoOvertake 9` infinitely often (the waiting task is overtaken
    once per cycle) — as every starvation must; this is a sanity check of the hypothesis, not a
    characterisation of the finding classes. -/
theorem lassos_overtake :
    (∀ N, ∃ j, N ≤ j ∧ ¬ NoOvertake 9 (lassoExec busyStart busyCycle j) (lassoExec busyStart busyCycle (j + 1))) ∧
    (∀ N, ∃ j, N ≤ j ∧ ¬ NoOvertake 9 (lassoExec tieStart tieCycle j) (lassoExec tieStart tieCycle (j + 1))) :=
  ⟨lasso_overtakes_forever (by decide) (by decide), lasso_overtakes_forever (by decide) (by decide)⟩

/-! ### Non-vacuity of `liveness_bounded_overtaking` with arrivals that never stop -/

def noOvertakeOk (u : Nat) (s0 : Sys) (cyc : List Act) : Bool :=
  (List.range cyc.length).all fun k =>
    let a := stateAt s0 cyc k
    let b := stateAt s0 cyc ((k + 1) % cyc.length)
    (!(pendingUid u a && pendingUid u b) || decide (totalHeld b ≤ totalHeld a)) &&
    decide (fU u b.q.peers ≤ fU u a.q.peers)

theorem lasso_noOvertake {u : Nat} {s0 : Sys} {cyc : List Act} (hL : 0 < cyc.length)
    (h : noOvertakeOk u s0 cyc = true) :
    ∀ j, NoOvertake u (lassoExec s0 cyc j) (lassoExec s0 cyc (j + 1)) := by
  intro j
  have hk := List.all_eq_true.mp h (j % cyc.length) (List.mem_range.mpr (Nat.mod_lt _ hL))
  have e2 : lassoExec s0 cyc (j + 1) = stateAt s0 cyc ((j % cyc.length + 1) % cyc.length) := by
    unfold lassoExec
    congr 1
    rw [Nat.add_mod j 1]
    rcases Nat.lt_or_ge 1 cyc.length with h1 | h1
    · rw [Nat.mod_eq_of_lt h1]
    · have : cyc.length = 1 := by omega
      simp [this, Nat.mod_one]
  rw [e2]
  unfold lassoExec
  obtain ⟨hk1, hk2⟩ := Bool.and_eq_true_iff.mp hk
  refine ⟨?_, by simpa using hk2⟩
  intro h1 h2
  unfold took
  rcases Bool.or_eq_true_iff.mp hk1 with h3 | h3
  · rw [h1, h2] at h3; cases h3
  · have : totalHeld (stateAt s0 cyc ((j % cyc.length + 1) % cyc.length)) ≤
        totalHeld (stateAt s0 cyc (j % cyc.length)) := by simpa using h3
    omega

def hi (u : Nat) : Task := { uid := u, topic := u, prio := 9, work := 1 }

def nvPrefix : List Act :=
  [.pop 0, .push 0 (tk 0 0), .sig 0, .push 1 (hi 9), .push 1 (tk 8 8),
   .push 0 (tk 1 1), .done 0, .ret 0, .pop 0, .done 0, .ret 0, .pop 0]

/-- peer 1 submits request 9 (its most urgent), peer 0 submits another request while 9 waits; the
    worker finishes, takes 9, finishes, takes peer 0's request; both peers submit again — forever -/
def nvCycle : List Act :=
  [.push 1 (hi 9), .push 0 (tk 0 0), .done 0, .ret 0, .pop 0, .done 0, .ret 0, .pop 0,
   .push 1 (hi 9), .push 0 (tk 1 1), .done 0, .ret 0, .pop 0, .done 0, .ret 0, .pop 0]

def nvStart : Sys := (runList (Sys.init 1 0) nvPrefix).getD {}

set_option maxRecDepth 100000 in
theorem nv_ok1 : lassoOk nvStart nvCycle = true := by decide +kernel
set_option maxRecDepth 100000 in
theorem nv_ok2 : fairOk nvStart nvCycle workerActs = true := by decide +kernel
set_option maxRecDepth 100000 in
theorem nv_ok3 : noOvertakeOk 9 nvStart nvCycle = true := by decide +kernel
set_option maxRecDepth 100000 in
theorem nv_ok4 : runList (Sys.init 1 0) nvPrefix = some nvStart := by decide

theorem nv_ok : lassoOk nvStart nvCycle = true ∧ fairOk nvStart nvCycle workerActs = true ∧
    noOvertakeOk 9 nvStart nvCycle = true ∧ runList (Sys.init 1 0) nvPrefix = some nvStart :=
  ⟨nv_ok1, nv_ok2, nv_ok3, nv_ok4⟩

/-- **The hypotheses of `liveness_bounded_overtaking` are satisfiable with arrivals that never stop**:
    a weakly fair execution from a reachable state in which PushTask is called infinitely often (by
    two peers, also while task 9 is waiting: positions 1→2), `NoOvertake 9` holds at every
    position, and task 9 is pending at position 1 — and, by the theorem, executed afterwards. -/
theorem bounded_overtaking_nonvacuous :
    ∃ σ : Nat → Sys, Exec US σ ∧ WF1 US fairAct σ ∧ Inv (σ 0) ∧ (σ 0).workers ≠ [] ∧
      (∀ j, NoOvertake 9 (σ j) (σ (j + 1))) ∧
      (∀ N, ∃ j, N ≤ j ∧ ∃ p t, step (σ j) (.push p t) = some (σ (j + 1))) ∧
      pendingUid 9 (σ 1) = true ∧ pendingUid 9 (σ 2) = true ∧
      (∃ t, step (σ 1) (.push 0 t) = some (σ 2)) ∧
      ∃ k, 1 ≤ k ∧ ExecutedOrCancelled 9 (σ k) (σ (k + 1)) := by
  have hL : 0 < nvCycle.length := by decide
  obtain ⟨h1, h2, h3, h4⟩ := nv_ok
  have hex := lasso_exec h1 hL
  have hwf := lasso_wf1 h1 hL h2 (fair_cover nvStart nvCycle (by decide) hL)
  have hI : Inv (lassoExec nvStart nvCycle 0) := by
    have : lassoExec nvStart nvCycle 0 = nvStart := rfl
    rw [this]; exact (Inv.init 1 0).runList h4
  have hW : (lassoExec nvStart nvCycle 0).workers ≠ [] := by decide
  have hT := lasso_noOvertake hL h3
  have hp1 : pendingUid 9 (lassoExec nvStart nvCycle 1) = true := by decide
  refine ⟨_, hex, hwf, hI, hW, hT, ?_, hp1, by decide, ?_, ?_⟩
  · intro N
    obtain ⟨a, ha, hs⟩ := lassoOk_step h1 0 hL
    refine ⟨0 + N * nvCycle.length, by have : N ≤ N * nvCycle.length := Nat.le_mul_of_pos_right N hL; omega, 1, hi 9, ?_⟩
    have e2 : 0 + N * nvCycle.length + 1 = 1 + N * nvCycle.length := by omega
    rw [e2, lassoExec_period, lassoExec_period]
    have : a = .push 1 (hi 9) := by
      have : nvCycle[0]? = some (.push 1 (hi 9)) := rfl
      rw [this] at ha; cases ha; rfl
    rw [this] at hs; exact hs
  · obtain ⟨a, ha, hs⟩ := lassoOk_step h1 1 (by decide)
    have : a = .push 0 (tk 0 0) := by
      have : nvCycle[1]? = some (.push 0 (tk 0 0)) := rfl
      rw [this] at ha; cases ha; rfl
    rw [this] at hs
    exact ⟨tk 0 0, hs⟩
  · exact liveness_bounded_overtaking _ hex hwf hI hW 9 0 (fun j _ => hT j) 1 (Nat.zero_le _) hp1

/-! ### Bounding the NUMBER of competing peers does not help either (weak fairness) -/

/-- two workers; peer 0 submits three requests, peer 1 one (uid 9); worker 0 runs peer 0's first,
    worker 1 takes the second right after worker 0's TaskDone -/
def sparePrefix : List Act :=
  [.pop 0, .pop 1, .push 0 (tk 0 0), .sig 0, .push 0 (tk 1 1), .push 0 (tk 2 2), .push 1 (tk 9 9),
   .done 0, .tick 1, .push 0 (tk 0 0), .ret 0]

/-- worker `j` reports its task done; only then the other, free worker `i` pops (peer 0 has no active
    work at that instant and more pending tasks than peer 1); peer 0 submits again; `j` returns -/
def spareRound (j i u : Nat) : List Act := [.done j, .pop i, .push 0 (tk u u), .ret j]

def spareCycle : List Act :=
  spareRound 1 0 1 ++ spareRound 0 1 2 ++ spareRound 1 0 0 ++
  spareRound 0 1 1 ++ spareRound 1 0 2 ++ spareRound 0 1 0

def spareStart : Sys := (runList (Sys.init 2 0) sparePrefix).getD {}

def workerActs2 : List Act :=
  [.pop 0, .sig 0, .tick 0, .done 0, .ret 0, .pop 1, .sig 1, .tick 1, .done 1, .ret 1]

theorem fair_cover2 (s0 : Sys) (cyc : List Act) (hlen : (stateAt s0 cyc 0).workers.length = 2)
    (hL : 0 < cyc.length) :
    ∀ a, fairAct a → a ∈ workerActs2 ∨ ∃ k, k < cyc.length ∧ step (stateAt s0 cyc k) a = none := by
  intro a ha
  have hout : ∀ i, 2 ≤ i → (stateAt s0 cyc 0).workers.length ≤ i := fun i hi => by omega
  cases a with
  | push p t => simp [fairAct, isEnv] at ha
  | remove p t => simp [fairAct, isEnv] at ha
  | pop i =>
    match i with
    | 0 => left; simp [workerActs2]
    | 1 => left; simp [workerActs2]
    | i + 2 => right; exact ⟨0, hL, (step_none_of_index (hout _ (by omega))).1⟩
  | sig i =>
    match i with
    | 0 => left; simp [workerActs2]
    | 1 => left; simp [workerActs2]
    | i + 2 => right; exact ⟨0, hL, (step_none_of_index (hout _ (by omega))).2.1⟩
  | tick i =>
    match i with
    | 0 => left; simp [workerActs2]
    | 1 => left; simp [workerActs2]
    | i + 2 => right; exact ⟨0, hL, (step_none_of_index (hout _ (by omega))).2.2.1⟩
  | done i =>
    match i with
    | 0 => left; simp [workerActs2]
    | 1 => left; simp [workerActs2]
    | i + 2 => right; exact ⟨0, hL, (step_none_of_index (hout _ (by omega))).2.2.2.1⟩
  | ret i =>
    match i with
    | 0 => left; simp [workerActs2]
    | 1 => left; simp [workerActs2]
    | i + 2 => right; exact ⟨0, hL, (step_none_of_index (hout _ (by omega))).2.2.2.2⟩

set_option maxRecDepth 100000 in
theorem spare_ok1 : lassoOk spareStart spareCycle = true := by decide
set_option maxRecDepth 100000 in
theorem spare_ok2 : fairOk spareStart spareCycle workerActs2 = true := by decide
set_option maxRecDepth 100000 in
theorem spare_ok3 :
    (List.range spareCycle.length).all (fun k => pendingUid 9 (stateAt spareStart spareCycle k)) = true := by decide
set_option maxRecDepth 100000 in
theorem spare_ok4 :
    (List.range spareCycle.length).all (fun k => decide (runningFor (stateAt spareStart spareCycle k) 0 ≤ 1)) = true := by
  decide
set_option maxRecDepth 100000 in
theorem spare_ok5 : runList (Sys.init 2 0) sparePrefix = some spareStart := by decide

theorem spare_ok : lassoOk spareStart spareCycle = true ∧ fairOk spareStart spareCycle workerActs2 = true ∧
    (List.range spareCycle.length).all (fun k => pendingUid 9 (stateAt spareStart spareCycle k)) = true ∧
    (List.range spareCycle.length).all (fun k => decide (runningFor (stateAt spareStart spareCycle k) 0 ≤ 1)) = true ∧
    runList (Sys.init 2 0) sparePrefix = some spareStart :=
  ⟨spare_ok1, spare_ok2, spare_ok3, spare_ok4, spare_ok5⟩

/-- **Starvation with a spare worker** — "fewer than W peers with a sustained backlog" is NOT a
    sufficient condition under weak fairness.  Two workers, ONE competing peer that keeps two requests
    queued, at most one of its traversals running at any time (so one worker is always free of work):
    a weakly fair execution in which peer 1's request 9 is pending forever.  The schedule is
    adversarial: the free worker's PopTasks always happens right after the other worker's TaskDone,
    when peer 0 has no active work and more pending tasks.  (In real time this needs the free worker
    to lose a race of microseconds against a TaskDone every time; it is a statement about what weak
    fairness alone can guarantee, not a third runtime finding — the `workers` oracle would class an
    occurrence as `starvation-busy-peer`.) -/
theorem starvation_spare_worker_lasso :
    ∃ σ : Nat → Sys, runList (Sys.init 2 0) sparePrefix = some (σ 0) ∧ Exec US σ ∧
      WF1 US fairAct σ ∧ (∀ n, pendingUid 9 (σ n) = true) ∧ ∀ n, runningFor (σ n) 0 ≤ 1 := by
  have hL : 0 < spareCycle.length := by decide
  obtain ⟨h1, h2, h3, h4, h5⟩ := spare_ok
  refine ⟨lassoExec spareStart spareCycle, ?_, lasso_exec h1 hL, ?_, ?_, ?_⟩
  · show runList _ _ = some (stateAt spareStart spareCycle (0 % spareCycle.length))
    rw [h5]; rfl
  · exact lasso_wf1 h1 hL h2 (fair_cover2 spareStart spareCycle (by decide) hL)
  · intro n
    exact List.all_eq_true.mp h3 (n % spareCycle.length) (List.mem_range.mpr (Nat.mod_lt _ hL))
  · intro n
    have := List.all_eq_true.mp h4 (n % spareCycle.length) (List.mem_range.mpr (Nat.mod_lt _ hL))
    show runningFor (stateAt spareStart spareCycle (n % spareCycle.length)) 0 ≤ 1
    simpa using this

end GS.C21
