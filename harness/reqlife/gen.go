package reqlife

import (
	"bufio"
	"fmt"
	"math/rand"
)

var partialCodes = []int{10, 14, 15, 99}
var successCodes = []int{20, 21}
var failureCodes = []int{30, 31, 32, 33, 34, 35}

type genState struct {
	cancelFamily bool // a stimulus that cancels the request context was issued
	hookErr      bool // a block-hook error was issued
	rhook        bool // manager gate on
	queued       int  // messages sent while the manager gate is on
}

// genOps: one stimulus per line.  Deterministic stream: all executor gates stay on, the executor only
// moves through `adv`; block-hook errors and cancelling stimuli are never mixed in one script (the only
// place where the real code makes a random `select` choice between a ready send and a cancelled context).
func genOps(r *rand.Rand, w *bufio.Writer, soak bool) {
	n := 1 + r.Intn(4)
	k := r.Intn(n + 1)
	if r.Intn(6) == 0 {
		k = n
	}
	v := 1 + r.Intn(3)
	if r.Intn(4) == 0 {
		// another task keeps the only worker busy: the request waits in the queue behind it
		fmt.Fprintf(w, "new %d %d %d 1\n", n, k, v)
	} else {
		fmt.Fprintf(w, "new %d %d %d\n", n, k, v)
	}
	var g genState
	if soak {
		// free-running executor: gates off (some of them), everything may race
		for _, gt := range []string{"work", "read", "hook", "send"} {
			if r.Intn(4) != 0 {
				fmt.Fprintf(w, "gate %s 0\n", gt)
			}
		}
	}
	nops := 2 + r.Intn(22)
	for i := 0; i < nops; i++ {
		if g.queued >= 10 {
			fmt.Fprintf(w, "gate rhook 0\n")
			g.rhook, g.queued = false, 0
			continue
		}
		x := r.Intn(100)
		switch {
		case x < 38:
			res := "ok"
			y := r.Intn(20)
			if y == 0 && (soak || !g.cancelFamily) {
				res = "err"
				g.hookErr = true
			} else if y == 1 {
				res = "hp"
			}
			fmt.Fprintf(w, "adv %s\n", res)
		case x < 58:
			peer := 0
			if r.Intn(8) == 0 {
				peer = 1
			}
			var status int
			switch y := r.Intn(10); {
			case y < 5:
				status = partialCodes[r.Intn(len(partialCodes))]
			case y < 8:
				status = successCodes[r.Intn(len(successCodes))]
			default:
				status = failureCodes[r.Intn(len(failureCodes))]
				if !soak && g.hookErr {
					status = 14
				}
			}
			hk := "ok"
			if r.Intn(15) == 0 && (soak || !g.hookErr) {
				hk = "err"
			}
			opn := "resp"
			if r.Intn(25) == 0 && (soak || (!g.cancelFamily && !g.rhook)) {
				opn = "respx"
				g.hookErr = true // same family as a block-hook error: ends in the executor's final error send
				if !soak {
					hk = "ok"
					if status >= 30 && status <= 35 {
						status = 14
					}
				}
			}
			if status >= 30 && status <= 35 || hk == "err" {
				g.cancelFamily = true
			}
			fmt.Fprintf(w, "%s %d %d %d %s\n", opn, peer, status, r.Intn(n+2), hk)
			if g.rhook {
				g.queued++
			}
		case x < 64:
			if soak || !g.hookErr {
				fmt.Fprintf(w, "cancelapi\n")
				g.cancelFamily = true
				if g.rhook {
					g.queued++
				}
			}
		case x < 69:
			if soak || !g.hookErr {
				fmt.Fprintf(w, "cancelctx\n")
				g.cancelFamily = true
				if g.rhook {
					g.queued++
				}
			}
		case x < 76:
			fmt.Fprintf(w, "pause\n")
			if g.rhook {
				g.queued++
			}
		case x < 82:
			fmt.Fprintf(w, "unpause\n")
			if g.rhook {
				g.queued++
			}
		case x < 86:
			g.rhook = !g.rhook
			g.queued = 0
			fmt.Fprintf(w, "gate rhook %d\n", map[bool]int{true: 1, false: 0}[g.rhook])
		case x < 89:
			fmt.Fprintf(w, "step rhook\n")
			g.queued = 0
		case x < 93:
			fmt.Fprintf(w, "gate %s %d\n", []string{"rp", "re"}[r.Intn(2)], r.Intn(2))
		case x < 96:
			fmt.Fprintf(w, "ps\n")
		case x < 98:
			fmt.Fprintf(w, "disc\n")
		default:
			fmt.Fprintf(w, "sendfail\n")
		}
	}
	fmt.Fprintf(w, "end\n")
}

func Gen(seed int64, n int, tier string, w *bufio.Writer) {
	r := rand.New(rand.NewSource(seed))
	for i := 0; i < n; i++ {
		fmt.Fprintf(w, "case r%d\n", i)
		genOps(r, w, false)
	}
	if tier == "thorough" {
		// bounded exhaustive: every stimulus sequence of length <= 4 over an 8-letter alphabet, 2 configurations
		alphabet := []string{"adv", "resp 0 14 1 ok", "resp 0 20 1 ok", "resp 0 31 0 ok", "cancelapi", "cancelctx", "pause", "unpause"}
		cfgs := []string{"new 2 1 1", "new 2 0 2", "new 2 1 1 1"}
		id := 0
		var rec func(prefix []string, depth int)
		rec = func(prefix []string, depth int) {
			if len(prefix) > 0 {
				for _, c := range cfgs {
					fmt.Fprintf(w, "case x%d\n%s\n", id, c)
					for _, p := range prefix {
						fmt.Fprintln(w, p)
					}
					fmt.Fprintln(w, "end")
					id++
				}
			}
			if depth == 0 {
				return
			}
			for _, a := range alphabet {
				rec(append(append([]string{}, prefix...), a), depth-1)
			}
		}
		rec(nil, 4)
	}
}

func GenSoak(seed int64, n int, tier string, w *bufio.Writer) {
	r := rand.New(rand.NewSource(seed ^ 0x5a5a))
	for i := 0; i < n; i++ {
		fmt.Fprintf(w, "case s%d\n", i)
		genOps(r, w, true)
	}
}
