import GSProofs.Lemmas.RespLifeOutcomePMgr2
/-!
Outcome accounting, part 3: completed notifications, the closed-stream flag and the builders — what the steps
that do not involve a publisher leave alone (`QS0`).
-/
namespace GS.RespLife

def doneEv (r : Id) : Event → Bool
  | .done id _ => id == r
  | _ => false

def doneC (r : Id) (s : State) : Nat := s.events.countP (doneEv r)

/-- no builder of any peer holds an entry of `r` -/
def noR (r : Id) (s : State) : Prop :=
  ∀ p e, (e ∈ bents (getMQ s p).inflight ∨ e ∈ bents (getMQ s p).next) → e.id ≠ r

structure QS0 (r : Id) (s s' : State) : Prop where
  done : doneC r s' = doneC r s
  cls : isClosed s' r = isClosed s r
  bld : isClosed s r = true → noR r s → noR r s'

theorem QS0.refl (r : Id) (s : State) : QS0 r s s := ⟨rfl, rfl, fun _ h => h⟩

theorem QS0.trans {r : Id} {a b c : State} (h1 : QS0 r a b) (h2 : QS0 r b c) : QS0 r a c :=
  ⟨h2.done.trans h1.done, h2.cls.trans h1.cls, fun hc hn => h2.bld (by rw [h1.cls]; exact hc) (h1.bld hc hn)⟩

theorem qs0_field {r : Id} {s s' : State} (he : s'.events = s.events) (hc : s'.closed = s.closed) (hm : s'.mqs = s.mqs) :
    QS0 r s s' := by
  refine ⟨by simp only [doneC, he], by simp only [isClosed, hc], ?_⟩
  intro _ hn p e he'
  have : getMQ s' p = getMQ s p := by unfold getMQ; rw [hm]
  rw [this] at he'
  exact hn p e he'

theorem qs0_emit (r : Id) (s : State) (e : Event) (h : doneEv r e = false) : QS0 r s (emit s e) := by
  refine ⟨?_, rfl, fun _ hn => hn⟩
  simp [doneC, emit, List.countP_append, h]

/-- record of peer `p` updated, builders kept -/
theorem qs0_updMQ_same (r : Id) (s : State) (p : Peer) (f : PeerMQ → PeerMQ) (hp : ∀ q, (f q).peer = q.peer)
    (hi : ∀ q, (f q).inflight = q.inflight) (hn : ∀ q, (f q).next = q.next) :
    QS0 r s (setMQ s (f (getMQ s p))) := by
  refine ⟨rfl, rfl, ?_⟩
  intro _ hno p' e he
  rw [getMQ_setMQ, hp, getMQ_peer] at he
  split at he
  · rename_i h; subst h
    rw [hi, hn] at he
    exact hno p' e he
  · exact hno p' e he

/-- record of peer `p` updated, every builder entry of the new record is an old one -/
theorem qs0_updMQ_sub (r : Id) (s : State) (p : Peer) (q' : PeerMQ) (hp : q'.peer = p)
    (hsub : ∀ e, (e ∈ bents q'.inflight ∨ e ∈ bents q'.next) →
      (e ∈ bents (getMQ s p).inflight ∨ e ∈ bents (getMQ s p).next)) : QS0 r s (setMQ s q') := by
  refine ⟨rfl, rfl, ?_⟩
  intro _ hno p' e he
  rw [getMQ_setMQ, hp] at he
  split at he
  · rename_i h; subst h
    exact hno p' e (hsub e he)
  · exact hno p' e he

theorem qs0_setWorker (r : Id) (s : State) (w : Nat) (f : Worker → Worker) : QS0 r s (setWorker s w f) :=
  qs0_field rfl rfl rfl
theorem qs0_setPhase (r : Id) (s : State) (w : Nat) (ph : WPhase) : QS0 r s (setPhase s w ph) := qs0_field rfl rfl rfl
theorem qs0_modAux (r : Id) (s : State) (id : Id) (f : Aux → Aux) : QS0 r s (modAux s id f) := qs0_field rfl rfl rfl
theorem qs0_setState (r : Id) (s : State) (id : Id) (st : RState) : QS0 r s (setState s id st) := qs0_field rfl rfl rfl
theorem qs0_sendMsg (r : Id) (s : State) (m : Msg) : QS0 r s (sendMsg s m) := qs0_field rfl rfl rfl
theorem qs0_insertResp (r : Id) (s : State) (x : Resp) : QS0 r s (insertResp s x) := qs0_field rfl rfl rfl
theorem qs0_delResp (r : Id) (s : State) (id : Id) : QS0 r s (delResp s id) := qs0_field rfl rfl rfl
theorem qs0_parkMgr (r : Id) (s : State) (c : MgrCont) (p : Peer) (id : Id) (ops : List TxOp) :
    QS0 r s (parkMgr s c p id ops) := qs0_field rfl rfl rfl

-- ------------------------------------------------------------------ allocator, transactions
theorem qs0_addAlloc (r : Id) (s : State) (p : Peer) (n : Nat) : QS0 r s (addAlloc s p n) :=
  qs0_updMQ_same r s p (fun q => { q with allocated := q.allocated + n }) (fun _ => rfl) (fun _ => rfl) (fun _ => rfl)

theorem qs0_grantTo (r : Id) (s : State) (party : Party) : QS0 r s (grantTo s party) := by
  cases party with
  | mgr => exact qs0_field rfl rfl rfl
  | worker w => exact qs0_setWorker r s w _

theorem qs0_grantLoop (r : Id) (fuel : Nat) (s : State) (p : Peer) : QS0 r s (grantLoop fuel s p) := by
  induction fuel generalizing s with
  | zero => exact QS0.refl r s
  | succ n ih =>
    unfold grantLoop
    split
    · exact QS0.refl r s
    · rename_i w _
      split
      · have h1 : QS0 r s { s with waiting := s.waiting.erase w } := qs0_field rfl rfl rfl
        exact ((h1.trans (qs0_addAlloc r _ p w.size)).trans (qs0_grantTo r _ w.party)).trans (ih _)
      · exact QS0.refl r s

theorem qs0_release (r : Id) (s : State) (p : Peer) (n : Nat) : QS0 r s (release s p n) := by
  unfold release
  simp only
  have h1 : QS0 r s { s with underflow := s.underflow || decide ((getMQ s p).allocated < n) } := qs0_field rfl rfl rfl
  have h2 := qs0_updMQ_same r { s with underflow := s.underflow || decide ((getMQ s p).allocated < n) } p
    (fun q => { q with allocated := q.allocated - n }) (fun _ => rfl) (fun _ => rfl) (fun _ => rfl)
  exact (h1.trans h2).trans (qs0_grantLoop r _ _ p)

theorem qs0_tryAlloc (r : Id) (s : State) (party : Party) (p : Peer) (n : Nat) : QS0 r s (tryAlloc s party p n).1 := by
  unfold tryAlloc
  split
  · exact qs0_addAlloc r s p n
  · exact qs0_field rfl rfl rfl

theorem isClosed_tryAlloc (s : State) (party : Party) (p : Peer) (n : Nat) (id : Id) :
    isClosed (tryAlloc s party p n).1 id = isClosed s id := by
  unfold tryAlloc
  split <;> rfl

theorem qs0_buildNow (r : Id) (s : State) (party : Party) (p : Peer) (id : Id) (ops : List TxOp) :
    QS0 r s (buildNow s party p id ops) := by
  unfold buildNow
  simp only
  split
  · split
    · exact qs0_release r s p _
    · exact QS0.refl r s
  · rename_i hcl
    refine ⟨rfl, rfl, ?_⟩
    intro hc hno p' e he
    rw [getMQ_setMQ] at he
    have hpe : ({ (getMQ s p) with next := some (buildInto s.extLen ((getMQ s p).next.getD {}) id (incOf s party id) ops) } :
        PeerMQ).peer = p := getMQ_peer s p
    rw [hpe] at he
    split at he
    · rename_i hpp; subst hpp
      rcases he with he | he
      · exact hno p' e (Or.inl he)
      · have he' : e ∈ putEntry ((getMQ s p').next.getD {}).entries
            { (ops.foldl (applyOp s.extLen) (getEntry ((getMQ s p').next.getD {}).entries id)) with
              sub := true, inc := incOf s party id } := he
        rcases mem_putEntry he' with he1 | he1
        · intro hid
          have : id = r := by
            rw [← hid, he1]
            show id = (ops.foldl (applyOp s.extLen) (getEntry ((getMQ s p').next.getD {}).entries id)).id
            rw [foldl_applyOp_id, getEntry_id]
          subst this
          rw [hc] at hcl
          exact hcl rfl
        · exact hno p' e (Or.inr (by rw [← bents_getD]; exact he1))
    · exact hno p' e he

theorem qs0_execTx (r : Id) (s : State) (party : Party) (p : Peer) (id : Id) (ops : List TxOp) :
    QS0 r s (execTx s party p id ops).1 := by
  unfold execTx
  split
  · exact QS0.refl r s
  · simp only
    split
    · exact qs0_buildNow r s party p id ops
    · have h1 := qs0_tryAlloc r s party p (txSize s.extLen ops)
      generalize tryAlloc s party p (txSize s.extLen ops) = pr at h1
      obtain ⟨s1, ok⟩ := pr
      simp only
      split
      · exact h1.trans (qs0_buildNow r s1 party p id ops)
      · exact h1

end GS.RespLife
