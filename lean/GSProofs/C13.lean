import GS.Model.Allocator
/-!
# C13 — Allocator never exceeds its limits and accounts memory exactly
Property theorems only (helper lemmas live in `GSProofs/Lemmas/`).
-/
namespace GS.C13
open GS.Alloc

/-- `fits` is exactly the overflow-free `current + amount ≤ max`. -/
theorem fits_iff (c a m : Nat) : fits c a m = true ↔ c + a ≤ m := by
  unfold fits; simp; omega

end GS.C13
