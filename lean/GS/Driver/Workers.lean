import GS.Model.TaskQueue
import GS.Driver.Proto
/-!
line-protocol driver for the worker-pool model `GS.TQ.Sys` (component `workers`).

The harness drives the real `taskqueue.WorkerTaskQueue` and lets it come to rest after every
operation; the driver does the same with the model by running `GS.TQ.step` under the schedule
"every worker in turn: pop if ready, take the signal if idle, take a tick if idle" until a whole
round changes nothing (`settle`).

ops:  `cfg <W> <cap>` | `push <peer> <topic> <prio>` (work 1, uid = number of push ops so far) |
      `cancel <peer> <topic>` (Remove) | `finish <j>` (the j-th running execution in (peer,topic)
      order, modulo: TaskDone, return) | `drain` (finish the first running execution and settle,
      until nothing runs)
out:  `started=<peer:topic;…> run=<executions in progress> st=<peers>/<active>/<pending>`
      started = executions begun since the previous line, sorted per settle.
-/
namespace GS.Driver.Workers
open GS.Proto GS.TQ

def tryAct (s : Sys) (a : Act) : Sys := (step s a).getD s

def round (s : Sys) : Sys :=
  (List.range s.workers.length).foldl
    (fun s i => tryAct (tryAct (tryAct s (.pop i)) (.sig i)) (.tick i)) s

def settle : Nat → Sys → Sys
  | 0, s => s
  | f + 1, s => let s' := round s; if s' == s then s else settle f s'

/-- (peer, topic, uid) of every execution in progress -/
def execs (s : Sys) : List (Nat × Nat × Nat) :=
  s.workers.filterMap fun
    | .exec p cur _ _ => some (p, cur.topic, cur.uid)
    | _ => none

def insertSorted (x : Nat × Nat × Nat) : List (Nat × Nat × Nat) → List (Nat × Nat × Nat)
  | [] => [x]
  | y :: ys =>
    if x.1 < y.1 || (x.1 == y.1 && (x.2.1 < y.2.1 || (x.2.1 == y.2.1 && x.2.2 ≤ y.2.2))) then x :: y :: ys
    else y :: insertSorted x ys

def sortE (xs : List (Nat × Nat × Nat)) : List (Nat × Nat × Nat) := xs.foldl (fun acc x => insertSorted x acc) []

def newly (before after : Sys) : List (Nat × Nat × Nat) :=
  let b := (execs before).map (·.2.2)
  sortE ((execs after).filter fun e => !b.contains e.2.2)

def fuelOf (s : Sys) : Nat := 16 + 2 * s.workers.length + 2 * (stats s.q).pending

/-- index of the worker holding the j-th running (TaskDone not yet called) execution -/
def pickRunning (s : Sys) (j : Nat) : Option Nat :=
  let es := sortE (s.workers.filterMap fun
    | .exec p cur false _ => some (p, cur.topic, cur.uid)
    | _ => none)
  match es[j % (max es.length 1)]? with
  | none => none
  | some e => some (s.workers.findIdx fun
      | .exec _ cur _ _ => cur.uid == e.2.2
      | _ => false)

def finishOne (s : Sys) (j : Nat) : Sys × List (Nat × Nat × Nat) :=
  match pickRunning s j with
  | none => (s, [])
  | some i =>
    let s1 := tryAct (tryAct s (.done i)) (.ret i)
    let s2 := settle (fuelOf s1) s1
    (s2, newly s s2)

def drain : Nat → Sys → List (Nat × Nat × Nat) → Sys × List (Nat × Nat × Nat)
  | 0, s, acc => (s, acc)
  | f + 1, s, acc =>
    if running s == 0 then (s, acc) else
    let r := finishOne s 0
    drain f r.1 (acc ++ r.2)

structure D where
  s : Sys := {}
  nextUid : Nat := 0

def render (s : Sys) (started : List (Nat × Nat × Nat)) : String :=
  let st := stats s.q
  s!"started={joinWith ";" (started.map fun e => s!"{e.1}:{e.2.1}")} run={running s} st={st.peers}/{st.active}/{st.pending}" ++
    (if heapOk s.q then "" else " !heap")

def stepLine (d : D) (t : Toks) : D × String :=
  match t with
  | ["cfg", w, c] =>
    match w.toNat?, c.toNat? with
    | some w, some c =>
      let s0 := Sys.init w c
      let s := settle (fuelOf s0) s0
      ({ s := s }, render s [])
    | _, _ => (d, "bad-op")
  | ["push", p, tp, pr] =>
    match p.toNat?, tp.toNat?, pr.toInt? with
    | some p, some tp, some pr =>
      let s1 := tryAct d.s (.push p { uid := d.nextUid, topic := tp, prio := pr, work := 1 })
      let s2 := settle (fuelOf s1) s1
      ({ s := s2, nextUid := d.nextUid + 1 }, render s2 (newly d.s s2))
    | _, _, _ => (d, "bad-op")
  | ["cancel", p, tp] =>
    match p.toNat?, tp.toNat? with
    | some p, some tp =>
      let s1 := tryAct d.s (.remove p tp)
      let s2 := settle (fuelOf s1) s1
      ({ d with s := s2 }, render s2 (newly d.s s2))
    | _, _ => (d, "bad-op")
  | ["finish", j] =>
    match j.toNat? with
    | some j => let r := finishOne d.s j; ({ d with s := r.1 }, render r.1 r.2)
    | none => (d, "bad-op")
  | ["drain"] =>
    let r := drain (4 * fuelOf d.s) d.s []
    ({ d with s := r.1 }, render r.1 r.2)
  | _ => (d, "bad-op")

def handler (ops : List Toks) : List String :=
  let (_, outs) := ops.foldl (fun (acc : D × List String) t =>
    let (d', o) := stepLine acc.1 t
    (d', o :: acc.2)) ({}, [])
  outs.reverse

end GS.Driver.Workers

def main : IO Unit := GS.Proto.runModel GS.Driver.Workers.handler
