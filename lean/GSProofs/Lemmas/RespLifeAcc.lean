import GSProofs.Lemmas.RespLifeInv
import GSProofs.Lemmas.RespLifeMailbox
/-!
The lifecycle abstraction `acc` of a model state and what each kind of step does to it; `LInv (acc s)`
holds in every state reachable by steps whose `new` requests carry an id that is fully drained.
-/
namespace GS.RespLife

def acc (s : State) : Acc :=
  { ent := entOf s, pend := pendOf s, act := actOf s, wk := wcore s, starts := starts s.mailbox,
    fins := fins s.mailbox, news := newIds s.mailbox, pnew := parkNew s.park, punp := parkUnp s.park }

theorem acc_eq {s' : State} {x : Acc} (he : ∀ id, entOf s' id = x.ent id) (hp : ∀ p, pendOf s' p = x.pend p)
    (ha : ∀ p, actOf s' p = x.act p) (hw : wcore s' = x.wk) (hs : starts s'.mailbox = x.starts)
    (hf : fins s'.mailbox = x.fins) (hn : newIds s'.mailbox = x.news) (hpn : parkNew s'.park = x.pnew)
    (hpu : parkUnp s'.park = x.punp) : acc s' = x := by
  obtain ⟨e, p, a, w, st, f, n, pn, pu⟩ := x
  simp only at he hp ha hw hs hf hn hpn hpu
  have h1 : entOf s' = e := funext he
  have h2 : pendOf s' = p := funext hp
  have h3 : actOf s' = a := funext ha
  simp only [acc, h1, h2, h3, hw, hs, hf, hn, hpn, hpu]

/-- `acc` is a function of the two projections -/
theorem acc_of_li_pi {s s' : State} (h : li s' = li s) (h' : pi s' = pi s) : acc s' = acc s := by
  have h0 := ab_of_li h
  apply acc_eq
  · intro id; exact congrFun (congrArg Ab.ent h0) id
  · intro p; exact congrFun (congrArg Ab.pend h0) p
  · intro p; exact congrFun (congrArg Ab.act h0) p
  · exact congrArg Li.wk h
  · exact congrArg Li.starts h
  · exact congrArg Li.fins h
  · exact congrArg Pi.news h'
  · exact congrArg Pi.pnew h'
  · exact congrArg Li.punp h

-- ------------------------------------------------------------------ pop
theorem filter_map_fst (l : List (Id × Nat)) (id : Id) :
    (l.filter (·.1 != id)).map (·.1) = (l.map (·.1)).filter (· != id) := by
  induction l with
  | nil => rfl
  | cons x xs ih =>
    simp only [List.filter_cons, List.map_cons]
    by_cases h : x.1 != id <;> simp [h, ih]

theorem acc_popTask {s s' : State} {p : Peer} {id : Id} (h : popTask s p id = some s') :
    acc s' = (acc s).pop p id ∧ id ∈ (acc s).pend p := by
  unfold popTask at h
  simp only at h
  split at h
  · rename_i hc
    cases h
    simp only [Bool.and_eq_true] at hc
    constructor
    · apply acc_eq
      · intro _; rfl
      · intro p'
        show pendOf (setQ s _) p' = _
        unfold pendOf
        rw [getQ_upd s p (fun q => { q with pending := q.pending.filter (·.1 != id), active := q.active ++ [id] })
          (fun _ => rfl)]
        simp only [Acc.pop, acc, fupd, pendOf]
        split
        · rename_i e; subst e; exact filter_map_fst _ _
        · rfl
      · intro p'
        show actOf (setQ s _) p' = _
        unfold actOf
        rw [getQ_upd s p (fun q => { q with pending := q.pending.filter (·.1 != id), active := q.active ++ [id] })
          (fun _ => rfl)]
        simp only [Acc.pop, acc, fupd, actOf]
        split
        · rename_i e; subst e; rfl
        · rfl
      · simp [wcore, Acc.pop, acc, sendMsg, setQ, wkind]
      · simp [starts, Acc.pop, acc, sendMsg, setQ, wcore, List.filterMap_append]
      · show fins (_ ++ [_]) = _
        rw [fins_append _ _ (by intros; simp)]; rfl
      · show newIds (_ ++ [_]) = _
        rw [newIds_append _ _ rfl]; rfl
      · rfl
      · rfl
    · have := hc.1.1.2
      simp only [List.any_eq_true, beq_iff_eq] at this
      obtain ⟨t, ht, hid⟩ := this
      show id ∈ (getQ s p).pending.map (·.1)
      exact List.mem_map.2 ⟨t, ht, hid⟩
  · cases h

-- ------------------------------------------------------------------ reap
theorem acc_reap {s s' : State} {p : Peer} (h : reap s p = some s') : acc s' = acc s := by
  unfold reap at h
  split at h
  · rename_i q hq
    split at h
    · rename_i he
      cases h
      simp only [Bool.and_eq_true, List.isEmpty_iff] at he
      have hqp : q.peer = p := by simpa using List.find?_some hq
      -- the removed tracker is empty, and so is the default one
      have hget : ∀ p', getQ { s with queues := s.queues.filter (·.peer != p) } p' =
          if p' = p then { peer := p } else getQ s p' := by
        intro p'
        unfold getQ
        simp only
        by_cases hp : p' = p
        · subst hp
          rw [if_pos rfl]
          have : List.find? (fun x => x.peer == p') (s.queues.filter (·.peer != p')) = none := by
            apply List.find?_eq_none.2
            intro x hx
            have := (List.mem_filter.1 hx).2
            simpa using this
          rw [this]
        · rw [if_neg hp]
          have : List.find? (fun x => x.peer == p') (s.queues.filter (·.peer != p)) =
              List.find? (fun x => x.peer == p') s.queues := by
            induction s.queues with
            | nil => rfl
            | cons x xs ih =>
              by_cases hx : x.peer = p'
              · have : (x.peer != p) = true := by simpa [hx] using hp
                simp only [List.filter_cons, this, if_true, List.find?_cons]
                simp [hx]
              · have hx' : (x.peer == p') = false := by simpa using hx
                by_cases hx2 : (x.peer != p) = true
                · simp only [List.filter_cons, hx2, if_true, List.find?_cons, hx']; exact ih
                · simp only [List.filter_cons, hx2, List.find?_cons, hx']; exact ih
          rw [this]
      have hq0 : getQ s p = q := by unfold getQ; rw [hq]
      apply acc_eq
      · intro _; rfl
      · intro p'
        show pendOf { s with queues := _ } p' = pendOf s p'
        unfold pendOf
        rw [hget]
        split
        · rename_i e; subst e; rw [hq0, he.1]
        · rfl
      · intro p'
        show actOf { s with queues := _ } p' = actOf s p'
        unfold actOf
        rw [hget]
        split
        · rename_i e; subst e; rw [hq0, he.2]
        · rfl
      all_goals rfl
    · cases h
  · cases h

-- ------------------------------------------------------------------ worker segments
theorem acc_setKind {s s' : State} {w : Nat} {k : WKind} (h : li s' = (li s).setKind w k) (h' : pi s' = pi s) :
    acc s' = { acc s with wk := setK (acc s).wk w k } := by
  -- a state with the same tables but the other worker kinds
  have hab : ab s' = { ab s with wk := setK (wcore s) w k } := by
    have h1 : tcore s' = tcore s := congrArg Li.tbl h
    have h2 : qcore s' = qcore s := congrArg Li.qs h
    have h3 : wcore s' = setK (wcore s) w k := congrArg Li.wk h
    have h4 : starts s'.mailbox = starts s.mailbox := congrArg Li.starts h
    have h5 : fins s'.mailbox = fins s.mailbox := congrArg Li.fins h
    have h6 : parkUnp s'.park = parkUnp s.park := congrArg Li.punp h
    have he : entOf s' = entOf s := by funext id; rw [entOf_tcore, entOf_tcore, h1]
    have hq : ∀ p, ((getQ s' p).pending.map (·.1), (getQ s' p).active) = ((getQ s p).pending.map (·.1), (getQ s p).active) := by
      intro p; rw [getQ_qcore, getQ_qcore, h2]
    have hp : pendOf s' = pendOf s := by funext p; exact congrArg Prod.fst (hq p)
    have ha : actOf s' = actOf s := by funext p; exact congrArg Prod.snd (hq p)
    simp only [ab, he, hp, ha, h3, h4, h5, h6]
  apply acc_eq
  · intro id; exact congrFun (congrArg Ab.ent hab) id
  · intro p; exact congrFun (congrArg Ab.pend hab) p
  · intro p; exact congrFun (congrArg Ab.act hab) p
  · exact congrArg Li.wk h
  · exact congrArg Li.starts h
  · exact congrArg Li.fins h
  · exact congrArg Pi.news h'
  · exact congrArg Pi.pnew h'
  · exact congrArg Li.punp h

/-- worker `w` sent its FinishTask -/
theorem acc_addFin {s s' : State} {w : Nat} (h : li s' = ((li s).addFin w).setKind w .waitFinish) (h' : pi s' = pi s) :
    acc s' = { acc s with wk := setK (acc s).wk w .waitFinish, fins := (acc s).fins ++ [w] } := by
  have h1 : tcore s' = tcore s := congrArg Li.tbl h
  have h2 : qcore s' = qcore s := congrArg Li.qs h
  have he : entOf s' = entOf s := by funext id; rw [entOf_tcore, entOf_tcore, h1]
  have hq : ∀ p, ((getQ s' p).pending.map (·.1), (getQ s' p).active) = ((getQ s p).pending.map (·.1), (getQ s p).active) := by
    intro p; rw [getQ_qcore, getQ_qcore, h2]
  apply acc_eq
  · intro id; exact congrFun he id
  · intro p; exact congrArg Prod.fst (hq p)
  · intro p; exact congrArg Prod.snd (hq p)
  · exact congrArg Li.wk h
  · exact congrArg Li.starts h
  · exact congrArg Li.fins h
  · exact congrArg Pi.news h'
  · exact congrArg Pi.pnew h'
  · exact congrArg Li.punp h

theorem kindAt_acc {s : State} {w : Nat} {wk : Worker} (h : workerOf s w = some wk) :
    (acc s).kindAt w = some (wkind wk.phase) ∧ (acc s).wk[w]? = some (wk.peer, wk.id, wkind wk.phase) := by
  unfold workerOf at h
  simp [Acc.kindAt, acc, wcore, h]

theorem linv_wstep {s s' : State} {w pick : Nat} (hi : LInv (acc s)) (h : wstep s w pick = some s') :
    LInv (acc s') := by
  obtain ⟨hwl, wk, hw, hk⟩ := wl_wstep h
  have hpi := pi_wstep h
  have hold : (acc s).kindAt w = some .mid ∨ (acc s).kindAt w = some .fin := by
    rw [(kindAt_acc hw).1]
    rcases hk with hk | hk <;> simp [hk]
  rcases hwl with h1 | h1 | h1
  · rw [acc_setKind h1 hpi]; exact hi.wkind w .mid (Or.inl rfl) hold
  · rw [acc_setKind h1 hpi]; exact hi.wkind w .fin (Or.inr rfl) hold
  · rw [acc_addFin h1 hpi]; exact hi.wfinish w hold

-- ------------------------------------------------------------------ primitives of the manager handlers
theorem acc_emit (s : State) (e : Event) : acc (emit s e) = acc s := rfl

theorem acc_modAux (s : State) (id : Id) (f : Aux → Aux) (h : ∀ a, (f a).task = a.task) :
    acc (modAux s id f) = acc s := acc_of_li_pi (li_modAux s id f h) (pi_modAux s id f)

theorem acc_execTx {s s1 : State} {party : Party} {p : Peer} {id : Id} {ops : List TxOp} {ok : Bool}
    (h : execTx s party p id ops = (s1, ok)) : acc s1 = acc s :=
  acc_of_li_pi (li_execTx_eq h) (pi_execTx_eq h)

theorem acc_setState (s : State) (id : Id) (st : RState) {p : Peer} {st0 : RState} {t : Option Nat}
    (he : entOf s id = some (p, st0, t)) :
    acc (setState s id st) = { acc s with ent := fupd (acc s).ent id (some (p, st, t)) } := by
  apply acc_eq
  · intro id'
    rw [entOf_setState]
    show _ = fupd (entOf s) id _ id'
    unfold fupd
    split
    · rename_i e; subst e; rw [he]; rfl
    · rfl
  all_goals intros; rfl

theorem acc_delResp (s : State) (id : Id) :
    acc (delResp s id) = { acc s with ent := fupd (acc s).ent id none } := by
  apply acc_eq
  · intro id'; rw [entOf_delResp]; rfl
  all_goals intros; rfl

theorem acc_insertResp (s : State) (r : Resp) :
    acc (insertResp s r) = { acc s with ent := fupd (acc s).ent r.id (some (r.peer, r.state, r.aux.task)) } := by
  apply acc_eq
  · intro id'; rw [entOf_insertResp]; rfl
  all_goals intros; rfl

theorem acc_terminate_none {s : State} {id : Id} (h : entOf s id = none) : acc (terminate s id) = acc s := by
  unfold terminate
  have : lookup s id = none := by
    unfold entOf at h
    cases hl : lookup s id with
    | none => rfl
    | some r => rw [hl] at h; cases h
  rw [this]

theorem acc_terminate_some {s : State} {id : Id} {e : Peer × RState × Option Nat} (h : entOf s id = some e) :
    acc (terminate s id) = { acc s with ent := fupd (acc s).ent id none } := by
  unfold terminate
  cases hl : lookup s id with
  | none => unfold entOf at h; rw [hl] at h; cases h
  | some r => simp only; rw [acc_delResp]; rfl

theorem acc_removeTask (s : State) (p : Peer) (id : Id) :
    acc (removeTask s p id) = { acc s with pend := fupd (acc s).pend p (((acc s).pend p).filter (· != id)) } := by
  apply acc_eq
  · intro id'
    show entOf (removeTask s p id) id' = entOf s id'
    unfold removeTask; simp only; split <;> rfl
  · intro p'; rw [pend_removeTask]; unfold fupd; rfl
  · intro p'; rw [act_removeTask]; rfl
  all_goals (unfold removeTask; simp only; split <;> rfl)

theorem acc_taskDone (s : State) (p : Peer) (id : Id) :
    acc (taskDone s p id) = { acc s with act := fupd (acc s).act p (((acc s).act p).filter (· != id)) } := by
  apply acc_eq
  · intro id'
    show entOf (taskDone s p id) id' = entOf s id'
    unfold taskDone; split <;> rfl
  · intro p'; rw [pend_taskDone]; rfl
  · intro p'; rw [act_taskDone]; unfold fupd; rfl
  all_goals (unfold taskDone; split <;> rfl)

theorem acc_pushTask (s : State) (p : Peer) (id : Id) (pri : Nat) :
    acc (pushTask s p id pri) =
      if id ∉ (acc s).act p ∧ id ∉ (acc s).pend p then
        { acc s with pend := fupd (acc s).pend p ((acc s).pend p ++ [id]) }
      else acc s := by
  have hrest : ∀ {α : Type} (f : State → α), (∀ s q, f (setQ s q) = f s) → f (pushTask s p id pri) = f s := by
    intro α f hf
    unfold pushTask; simp only
    split
    · rfl
    · split <;> exact hf _ _
  by_cases hc : id ∉ (acc s).act p ∧ id ∉ (acc s).pend p
  · rw [if_pos hc]
    apply acc_eq
    · intro id'; exact hrest (fun s => entOf s id') (fun _ _ => rfl)
    · intro p'
      rw [pend_pushTask]
      show _ = fupd (pendOf s) p _ p'
      unfold fupd
      by_cases hp : p' = p
      · subst hp; rw [if_pos ⟨rfl, hc⟩, if_pos rfl]; rfl
      · rw [if_neg (fun h => hp h.1), if_neg hp]
    · intro p'; rw [act_pushTask]; rfl
    · exact hrest (fun s => wcore s) (fun _ _ => rfl)
    · exact hrest (fun s => starts s.mailbox) (fun _ _ => rfl)
    · exact hrest (fun s => fins s.mailbox) (fun _ _ => rfl)
    · exact hrest (fun s => newIds s.mailbox) (fun _ _ => rfl)
    · exact hrest (fun s => parkNew s.park) (fun _ _ => rfl)
    · exact hrest (fun s => parkUnp s.park) (fun _ _ => rfl)
  · rw [if_neg hc]
    apply acc_eq
    · intro id'; exact hrest (fun s => entOf s id') (fun _ _ => rfl)
    · intro p'
      rw [pend_pushTask, if_neg (fun h => hc ⟨h.2.1, h.2.2⟩)]; rfl
    · intro p'; rw [act_pushTask]; rfl
    · exact hrest (fun s => wcore s) (fun _ _ => rfl)
    · exact hrest (fun s => starts s.mailbox) (fun _ _ => rfl)
    · exact hrest (fun s => fins s.mailbox) (fun _ _ => rfl)
    · exact hrest (fun s => newIds s.mailbox) (fun _ _ => rfl)
    · exact hrest (fun s => parkNew s.park) (fun _ _ => rfl)
    · exact hrest (fun s => parkUnp s.park) (fun _ _ => rfl)

theorem acc_parkMgr (s : State) (cont : MgrCont) (p : Peer) (id : Id) (ops : List TxOp) :
    acc (parkMgr s cont p id ops) =
      { acc s with pnew := parkNew (some { cont, peer := p, id, ops, granted := false }),
                   punp := parkUnp (some { cont, peer := p, id, ops, granted := false }) } := rfl

theorem acc_unpark_buildNow (s : State) (p : Peer) (id : Id) (ops : List TxOp) :
    acc (buildNow { s with park := none } .mgr p id ops) = { acc s with pnew := none, punp := none } := by
  have h1 := li_buildNow { s with park := none } .mgr p id ops
  have h2 := pi_buildNow { s with park := none } .mgr p id ops
  rw [acc_of_li_pi h1 h2]; rfl

end GS.RespLife
