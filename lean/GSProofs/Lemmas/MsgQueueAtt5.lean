import GSProofs.Lemmas.MsgQueueAtt4
/-!
# Message queue: attachments — the queue goroutine's steps; every step keeps `AI` and `W`
-/
namespace GS.MQ
open GS.Alloc

theorem attempt_out (pick : Pick) (f : Req → Sub) {s : State} {m : InFlight} {U : List Sub} {σ : List Kind} {b : Bool}
    (i : Nat) (hm : Mid s m U σ b) (hU : ∀ r ∈ m.streams, f r ∈ U) : Out f s (s.attempt pick m i) := by
  unfold State.attempt
  split
  · exact Out.same f rfl rfl (WCore.of_eq rfl) ⟨_, rfl⟩
  · exact (publishError_out pick f hm hU).trans (finish_out f _ m)

/-- extraction: who stays queued, who is subscribed to the extracted message -/
theorem extract_W (f : Req → Sub) {s : State} (hi : Idle s) (hb : ∀ b ∈ s.builders, BFun f b)
    {s1 : State} {m : InFlight} (he : s.extract = (s1, some m)) :
    ∃ U, Mid s1 m U [] true ∧ (∀ b ∈ s1.builders, BFun f b) ∧ (∀ r ∈ m.streams, f r ∈ U) ∧
      (∀ u t r, AttQ u t r s → AttQ u t r s1 ∨ (t = (m.topic : Nat) ∧ u ∈ U)) ∧
      s1.closedStreams = s.closedStreams ∧ s1.waiters = s.waiters ∧ s1.log = s.log := by
  obtain ⟨pre, b, U, hbs, hemp, hmt, hms, hmid, hU, hc, hw, hl⟩ := extract_detail hi he
  have hbm : b ∈ s.builders := by rw [hbs]; simp
  refine ⟨U, hmid, ?_, ?_, ?_, hc, hw, hl⟩
  · intro x hx; exact hb x (by rw [hbs]; simp [hx])
  · intro r hr
    rw [hms] at hr
    obtain ⟨e, he', rfl⟩ := List.mem_map.mp hr
    exact (hU _).mpr ⟨e.1, (hb b hbm).streams e he'⟩
  · intro u t r ⟨x, hx, ha⟩
    rw [hbs] at hx
    rcases List.mem_append.mp hx with hx | hx
    · have := ha.nonempty; rw [hemp x hx] at this; cases this
    · rcases List.mem_cons.mp hx with rfl | hx
      · right
        obtain ⟨ht, hr, _⟩ := ha
        exact ⟨by rw [hmt]; exact ht.symm, (hU u).mpr ⟨r, hr⟩⟩
      · exact Or.inl ⟨x, hx, ha⟩

/-- what a chain of queue-goroutine functions keeps (like `Out`, but a subscriber may also have
    been told something about the message itself) -/
structure OutW (f : Req → Sub) (s s' : State) : Prop where
  bfun : (∀ b ∈ s.builders, BFun f b) → ∀ b ∈ s'.builders, BFun f b
  w : (∀ b ∈ s.builders, BFun f b) → ∀ u t r n0, W u t r n0 s → W u t r n0 s'
  wcore : WCore s s'

theorem Out.toW {f : Req → Sub} {s s' : State} (o : Out f s s') : OutW f s s' :=
  ⟨fun h => (o.att h).1, fun h _ _ _ _ hw => W.of_out o h hw, o.wcore⟩

theorem OutW.trans {f : Req → Sub} {a b c : State} (h1 : OutW f a b) (h2 : OutW f b c) : OutW f a c :=
  ⟨fun h => h2.bfun (h1.bfun h), fun h u t r n0 hw => h2.w (h1.bfun h) u t r n0 (h1.w h u t r n0 hw), h1.wcore.trans h2.wcore⟩

/-- extraction followed by a publication to the message's subscribers -/
theorem extract_publish_W (f : Req → Sub) {s : State} (hi : Idle s) {s1 : State} {m : InFlight}
    (he : s.extract = (s1, some m)) (k : Kind) :
    ∃ U, Mid (s1.publish m.topic k) m U [k] true ∧ (∀ r ∈ m.streams, f r ∈ U) ∧ OutW f s (s1.publish m.topic k) ∨
      ¬ (∀ b ∈ s.builders, BFun f b) := by
  by_cases hb : ∀ b ∈ s.builders, BFun f b
  · obtain ⟨U, hmid, hb1, hU, hatt, hc, hw, hl⟩ := extract_W f hi hb he
    have hp := hmid.publish k
    simp only [List.nil_append] at hp
    have fr := publish_frame s1 m.topic k
    have hlog : ∃ X, (s1.publish m.topic k).log = s.log ++ X := by
      obtain ⟨X, hx⟩ := (publish_ext pickMin s1 m.topic k).mono
      exact ⟨X, by rw [hx, hl]⟩
    refine ⟨U, Or.inl ⟨hp, hU, ?_, ?_, ?_⟩⟩
    · intro _; rw [fr.builders]; exact hb1
    · intro _ u t r n0 hw'
      rcases hw' with ⟨h, hn0⟩ | h | h
      · rcases hatt u t r h with h' | ⟨ht, hu⟩
        · obtain ⟨x, hx, ha⟩ := h'
          exact Or.inl ⟨⟨x, by rw [fr.builders]; exact hx, ha⟩, Nat.le_trans hn0 (errCount_mono hlog u)⟩
        · right; left
          rw [ht, hp.seqM u, if_pos hu]; simp
      · exact Or.inr (Or.inl ((seq_mono hlog u t).1 h))
      · exact Or.inr (Or.inr (h.mono (fun r hr => by rw [fr.closedStreams, hc]; exact hr) hlog))
    · unfold WCore; rw [fr.waiters, hw]
  · exact ⟨[], Or.inr hb⟩

/-- the shutdown drain -/
theorem drain_W (pick : Pick) (f : Req → Sub) : ∀ (fuel : Nat) (s : State), Idle s → OutW f s (State.drain pick fuel s)
  | 0, s, _ => (Out.refl f s).toW
  | fuel + 1, s, hi => by
    unfold State.drain
    cases he : s.extract with
    | mk s1 om =>
      cases om with
      | none =>
        simp only
        -- builders := [], nothing else changes; attached builders are non-empty, so none was queued
        obtain ⟨a1, a2, _⟩ := (extract_shape s).1 s1 he
        have hrest : s1.closedStreams = s.closedStreams ∧ s1.waiters = s.waiters ∧ s1.log = s.log := by
          unfold State.extract at he
          split at he
          · cases he; exact ⟨rfl, rfl, rfl⟩
          · cases he
        refine ⟨fun _ b hb => (by rw [a1] at hb; cases hb), ?_, (by unfold WCore; rw [hrest.2.1])⟩
        intro _ u t r n0 hw
        rcases hw with ⟨⟨x, hx, ha⟩, _⟩ | h | h
        · have := ha.nonempty; rw [a2 x hx] at this; cases this
        · exact Or.inr (Or.inl (by rw [hrest.2.2]; exact h))
        · exact Or.inr (Or.inr (h.mono (fun r hr => by rw [hrest.1]; exact hr) ⟨[], by rw [hrest.2.2]; simp⟩))
      | some m =>
        simp only
        -- extract; publishError (Error to every subscriber); closeTopic; continue
        by_cases hb : ∀ b ∈ s.builders, BFun f b
        · obtain ⟨U, hmid, hb1, hU, hatt, hc, hw, hl⟩ := extract_W f hi hb he
          have o1 : OutW f s1 ((s1.publishError pick m).closeTopic m.topic) :=
            ((publishError_out pick f hmid hU).trans (closeTopic_out f _ m.topic)).toW
          have hmid2 := hmid.publishError pick
          have hidle : Idle ((s1.publishError pick m).closeTopic m.topic) := hmid2.close done_EC
          have o2 := drain_W pick f fuel _ hidle
          have hlog1 : ∃ X, (s1.publishError pick m).log = s.log ++ X := by
            obtain ⟨X, hx⟩ := (publishError_ext pick s1 m).mono; exact ⟨X, by rw [hx, hl]⟩
          have hcl := publishError_closed pick s1 m
          -- the first leg, by hand: the extracted message's subscribers get the Error
          have o01 : OutW f s ((s1.publishError pick m).closeTopic m.topic) := by
            refine ⟨fun _ => o1.bfun hb1, ?_, ?_⟩
            · intro _ u t r n0 hw'
              rcases hw' with ⟨h, hn0⟩ | h | h
              · rcases hatt u t r h with h' | ⟨ht, hu⟩
                · exact o1.w hb1 u t r n0 (Or.inl ⟨h', by rw [hl]; exact hn0⟩)
                · right; left
                  have hs : seqOf u t (s1.publishError pick m).log ≠ [] := by
                    rw [ht, hmid2.seqM u, if_pos hu]; simp
                  exact (seq_mono (closeTopic_ext pick _ m.topic).mono u t).1 hs
              · have : seqOf u t s1.log ≠ [] := by rw [hl]; exact h
                exact o1.w hb1 u t r n0 (Or.inr (Or.inl this))
              · have : ErrSeen r u n0 s1 := h.mono (fun r hr => by rw [hc]; exact hr) ⟨[], by rw [hl]; simp⟩
                exact o1.w hb1 u t r n0 (Or.inr (Or.inr this))
            · exact (WCore.of_eq hw).trans o1.wcore
          exact o01.trans o2
        · exact ⟨fun h => absurd h hb, fun h => absurd h hb, by
            have e1 := (extract_ext pick s)
            rw [he] at e1
            -- waiters: extract keeps them, the rest changes answers only
            have hw1 : s1.waiters = s.waiters := by
              unfold State.extract at he
              split at he
              · cases he
              · simp only [Prod.mk.injEq] at he
                rw [← he.1]; exact (subscribe_frame _ _ _).waiters
            have w2 := (publishError_closed pick s1 m).2.2.1
            have f3 := closeTopic_frame (s1.publishError pick m) m.topic
            have hd : ∀ (n : Nat) (x : State), WCore x (State.drain pick n x) := by
              intro n
              induction n with
              | zero => intro x; exact WCore.of_eq rfl
              | succ n ih =>
                intro x
                unfold State.drain
                cases hx : x.extract with
                | mk x1 om' =>
                  have hxw : x1.waiters = x.waiters := by
                    unfold State.extract at hx
                    split at hx
                    · cases hx; rfl
                    · simp only [Prod.mk.injEq] at hx
                      rw [← hx.1]; exact (subscribe_frame _ _ _).waiters
                  cases om' with
                  | none => exact WCore.of_eq hxw
                  | some m' =>
                    simp only
                    exact (((WCore.of_eq hxw).trans (publishError_closed pick x1 m').2.2.1).trans
                      (WCore.of_eq (closeTopic_frame _ _).waiters)).trans (ih _)
            exact (((WCore.of_eq hw1).trans w2).trans (WCore.of_eq f3.waiters)).trans (hd fuel _)⟩

end GS.MQ
