import GS.Model.PeerQueues
import GS.Driver.Proto
/-! line-protocol driver for the PRODUCT model PeerManager × message queues (`GS.PQ`, component
`pqueues`, property C17).  Every op is a short, fixed sequence of `PQ.Act`s: the caller's action
followed by the steps the queue goroutine performs on its own until it blocks again (the harness
gates ConnectTo, SendMsg and the deferred ReleasePeerMemory, so these are the only resting points).

ops (q = queue instance, numbered in creation order; p = peer; m = message label):
  conn p            connected p
  disc p            disconnected p ; shutdownCall (the removed instance) ; settle
  get p             getProcess p                       (prints the returned instance)
  build q m         build q m (needs a handle from get/send) ; settle
  send p m          getProcess p ; build ret m ; settle      (= PeerMessageManager.AllocateAndBuildMessage)
  open q ok         wire q                             (ConnectTo/NewMessageSender succeed, SendMsg is called)
  open q fail [h]   finish q openFailed ; settle
  ack q [h]         finish q sent ; settle
  nack q [h]        finish q failed ; settle           (only for a queue told to stop: no retry timer)
  exit q            exit q                             (the deferred function runs, callback last)
settle q = what the goroutine of q does next when it is idle: told -> close (or, when messages are
queued as well and the hint h = w, take: Go's select may pick either branch); else queued -> take
(+ wire if the sender is already open).

output per op:
  ret=<q|-> new=<qs> peers=<ps> alive=<qs> at=<q:o:m|q:s:m|q:r,…> wire=<q:m,…> sent=<q:m,…> failed=<q:m,…>
-/
namespace GS.Driver.PeerQueues
open GS.Proto GS.PQ

structure D where
  s : State := {}
  openS : List Nat := []          -- queues whose sender is open (driver bookkeeping: take is followed by wire)
  sent : List (Nat × Nat) := []   -- Sent events of the current op

def qids (s : State) : List Nat := s.pm.queues.map (·.id)

def takeWire (d : D) (q : Nat) : D :=
  let s := step d.s (.take q)
  if d.openS.contains q then { d with s := step s (.wire q) } else { d with s := s }

def settle (d : D) (q : Nat) (hint : String) : D :=
  let x := d.s.x q
  if x.closed || x.inflight.isSome || !created d.s q then d
  else if told d.s q then
    if !x.queued.isEmpty && hint == "w" then takeWire d q else { d with s := step d.s (.close q) }
  else if !x.queued.isEmpty then takeWire d q
  else d

def pairList (xs : List (Nat × Nat)) : String := joinWith "," (xs.map fun (a, b) => s!"{a}:{b}")

def atOf (s : State) (q : Nat) : Option String :=
  if exited s q then none
  else match (s.x q).inflight with
    | some (m, false) => some s!"{q}:o:{m}"
    | some (m, true) => some s!"{q}:s:{m}"
    | none => if (s.x q).closed then some s!"{q}:r" else none

def render (old : State) (d : D) (ret : String) : String :=
  let s := d.s
  let created := (s.pm.queues.drop old.pm.queues.length).map (·.id)
  let peers := sortNat (s.pm.table.map (·.peer))
  let alive := (s.pm.queues.filter (!·.exited)).map (·.id)
  let at_ := (qids s).filterMap (atOf s)
  let wire := s.wireLog.drop old.wireLog.length
  let failed := (qids s).flatMap fun q => (((s.x q).failed.drop (old.x q).failed.length).map fun m => (q, m))
  s!"ret={ret} new={natList created} peers={natList peers} alive={natList alive} at={joinWith "," at_} wire={pairList wire} sent={pairList d.sent} failed={pairList failed}"

def hintOf : List String → String
  | [h] => h
  | _ => "d"

def stepLine (d0 : D) (t : Toks) : D × String :=
  let d : D := { d0 with sent := [] }
  let old := d.s
  let fin (d : D) (ret : String) : D × String := (d, render old d ret)
  match t with
  | ["conn", p] =>
    match p.toNat? with
    | some p => fin { d with s := step d.s (.connected p) } "-"
    | none => (d, "bad-op")
  | ["disc", p] =>
    match p.toNat? with
    | some p =>
      let s1 := step d.s (.disconnected p)
      match s1.pm.queues.find? (·.pending) with
      | some q => fin (settle { d with s := step s1 (.shutdownCall q.id) } q.id "d") "-"
      | none => fin { d with s := s1 } "-"
    | none => (d, "bad-op")
  | ["get", p] =>
    match p.toNat? with
    | some p =>
      let s1 := step d.s (.getProcess p)
      fin { d with s := s1 } (toString (s1.handles.headD 0))
    | none => (d, "bad-op")
  | ["build", q, m] =>
    match q.toNat?, m.toNat? with
    | some q, some m =>
      if d.s.handles.contains q then fin (settle { d with s := step d.s (.build q m) } q "d") "-"
      else (d, "no-handle")
    | _, _ => (d, "bad-op")
  | ["send", p, m] =>
    match p.toNat?, m.toNat? with
    | some p, some m =>
      let s1 := step d.s (.getProcess p)
      let q := s1.handles.headD 0
      fin (settle { d with s := step s1 (.build q m) } q "d") (toString q)
    | _, _ => (d, "bad-op")
  | ["open", q, "ok"] =>
    match q.toNat? with
    | some q =>
      match (d.s.x q).inflight with
      | some (_, false) => fin { d with s := step d.s (.wire q), openS := q :: d.openS } "-"
      | _ => (d, "skip")
    | none => (d, "bad-op")
  | "open" :: q :: "fail" :: h =>
    match q.toNat? with
    | some q =>
      match (d.s.x q).inflight with
      | some (_, false) => fin (settle { d with s := step d.s (.finish q .openFailed []) } q (hintOf h)) "-"
      | _ => (d, "skip")
    | none => (d, "bad-op")
  | "ack" :: q :: h =>
    match q.toNat? with
    | some q =>
      match (d.s.x q).inflight with
      | some (m, true) => fin (settle { d with s := step d.s (.finish q .sent []), sent := [(q, m)] } q (hintOf h)) "-"
      | _ => (d, "skip")
    | none => (d, "bad-op")
  | "nack" :: q :: h =>
    match q.toNat? with
    | some q =>
      match (d.s.x q).inflight with
      | some (_, true) =>
        if told d.s q then
          fin (settle { d with s := step d.s (.finish q .failed []), openS := d.openS.filter (· != q) } q (hintOf h)) "-"
        else (d, "skip")
      | _ => (d, "skip")
    | none => (d, "bad-op")
  | ["exit", q] =>
    match q.toNat? with
    | some q =>
      if (d.s.x q).closed && !exited d.s q then fin { d with s := step d.s (.exit q) } "-" else (d, "skip")
    | none => (d, "bad-op")
  | _ => (d, "bad-op")

def handler (ops : List Toks) : List String :=
  let (_, outs) := ops.foldl (fun (acc : D × List String) t =>
    let (d', o) := stepLine acc.1 t
    (d', o :: acc.2)) ({}, [])
  outs.reverse

end GS.Driver.PeerQueues

def main : IO Unit := GS.Proto.runModel GS.Driver.PeerQueues.handler
