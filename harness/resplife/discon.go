package resplife

import (
	"bufio"
	"fmt"
	"math/rand"
	"runtime"
	"sort"
	"strings"
	"sync/atomic"
	"time"

	"github.com/ipfs/go-graphsync"
	gsmsg "github.com/ipfs/go-graphsync/message"

	"verifharness/reg"
)

// Component `discon` (C05 / C25, oracle only, not model-compared): peer disconnects and send failures at
// every message position, on the REAL stack in free-running mode (real worker pool, nothing parked by
// the harness).  The only schedule control is the fake network's gate per peer:
//
//	pool <npeers> <perPeerLimit> <W>
//	gate <p> ok|stall|fail        sends to p complete at once / stay on the wire / fail (also the one on the wire)
//	new <p> <k> <id> <pri> <hook> <n> <miss> <bhplan>      (as in `resplife`; no parking plans)
//	waitsend <p> <ms>             barrier: until a send to p is on the wire (coverage only, bounded by ms)
//	waitalloc <n> <ms>            barrier: until n reservations wait for memory (coverage only, bounded by ms)
//	disc <p>                      PeerManager.Disconnected(p): the peer's message queue shuts down
//	settle <ms>                   barrier: until everything is retired, or the process is provably idle
//	                              (all goroutines parked for 1.5 s = 15x the code's 100 ms retry wait); ms ignored
//	mark                          requests sent so far must all be retired at the next settle
//	end
//
// Oracle at `settle` (every gate must be ok or fail by then, so nothing may legitimately wait):
// every request received so far has an outcome (completed / cancelled / network error), PeerState of
// every peer is empty, no connection protection, task queue and allocator report zero; no task worker
// or reservation is still waiting.  Classes (C05) outcome-none, stuck, protect-leak; (C23) stats-nonzero,
// alloc-nonzero; (C25) stalled-peer-not-recovered: after the stalled peer's send failed or the peer
// disconnected, executors that waited for its memory did not come back / a later request is not served.

func init() {
	reg.Register(&reg.Component{Name: "discon", Gen: GenDiscon, Run: RunDiscon})
}

func GenDiscon(seed int64, n int, tier string, w *bufio.Writer) {
	hooks := []string{"a", "a", "a", "A", "r", "R", "e", "E"}
	for i := 0; i < n; i++ {
		r := rand.New(rand.NewSource(seed*9176 + int64(i)))
		W := 1 + r.Intn(3)
		// every single transaction (block 88 + hook data 17) must fit the allowance: a reservation larger
		// than MaxAllowedAllocatedPerPeer is never granted, whatever is released (not this component's topic)
		limit := []int{0, 120, 150, 200}[r.Intn(4)]
		fmt.Fprintf(w, "case d%d\npool 2 %d %d\n", i, limit, W)
		k := 0
		newReq := func(p int) {
			h := hooks[r.Intn(len(hooks))]
			nb := 1 + r.Intn(4)
			bh := strings.Repeat("o", nb)
			if r.Intn(4) == 0 {
				b := []byte(bh)
				b[r.Intn(nb)] = "xe"[r.Intn(2)]
				bh = string(b)
			}
			miss := -1
			if r.Intn(6) == 0 {
				miss = r.Intn(nb)
			}
			fmt.Fprintf(w, "new %d %d %d 1 %s %d %d %s\n", p, k, k, h, nb, miss, bh)
			k++
		}
		// some traffic of peer 0 goes through first (so that the message on the wire later is a middle
		// or the last one of a response), then its network stalls
		for j := r.Intn(2); j > 0; j-- {
			newReq(0)
		}
		if r.Intn(3) == 0 {
			fmt.Fprintf(w, "settle 2000\n")
		}
		fmt.Fprintf(w, "gate 0 stall\n")
		na := 1 + r.Intn(W+1)
		for j := 0; j < na; j++ {
			newReq(0)
		}
		if r.Intn(2) == 0 {
			newReq(1)
		}
		fmt.Fprintf(w, "waitsend 0 2000\n")
		if limit > 0 && r.Intn(2) == 0 {
			fmt.Fprintf(w, "waitalloc 1 300\n")
		}
		switch r.Intn(4) {
		case 0: // the send fails, the peer stays connected
			fmt.Fprintf(w, "gate 0 fail\n")
		case 1: // the peer disconnects while the message is on the wire, then the write fails
			fmt.Fprintf(w, "disc 0\ngate 0 fail\n")
		case 2: // the write fails and the peer disconnects
			fmt.Fprintf(w, "gate 0 fail\ndisc 0\n")
		case 3: // the peer disconnects, the write completes after all
			fmt.Fprintf(w, "disc 0\ngate 0 ok\n")
		}
		fmt.Fprintf(w, "settle 3000\n")
		// afterwards both peers are served again
		fmt.Fprintf(w, "gate 0 ok\n")
		newReq(0)
		newReq(1)
		fmt.Fprintf(w, "settle 3000\nend\n")
	}
}

type disconRun struct {
	e     *engine
	out   *reg.Out
	W     int
	fault bool // a send failure / disconnect of a stalled peer happened before the current settle
	hung  bool // a synchronous call into the response manager did not return
}

// No verdict of this component depends on how fast the machine is.  A barrier ends when its condition
// holds (re-evaluated on notifications from the real code), or when the process is PROVABLY idle:
// every goroutine other than the harness' own is parked (channel receive, select, cond wait, ...) at
// every sample during idleFor, which is 15x the only timer of the code under test that matters here
// (messagequeue waits 100 ms after a failed send).  A runnable or running goroutine, on however slow a
// machine, keeps the barrier waiting.  The watchdog is a safety net and only ever declares `hang`.
const (
	disconWatchdog = 120 * time.Second
	idleFor        = 1500 * time.Millisecond
	idleSample     = 50 * time.Millisecond
)

// waiting for a mutex or on a channel send counts as parked here: with every other goroutine parked
// too, for 1.5 s, nobody is left to release the lock / receive - that is the deadlock to be reported
var idleBusy = []string{"running", "runnable", "syscall", "copystack", "preempted"}

// othersParked: every goroutine except the caller and the harness' own samplers is in a waiting state
func othersParked() bool {
	buf := make([]byte, 1<<20)
	n := runtime.Stack(buf, true)
	first := true
	for _, g := range strings.Split(string(buf[:n]), "\n\n") {
		if !strings.HasPrefix(g, "goroutine ") {
			continue
		}
		if first {
			first = false
			continue
		}
		if strings.Contains(g, "resplife.(*disconRun).") {
			continue // the harness' own guarded call
		}
		hdr := g
		if i := strings.IndexByte(g, '\n'); i >= 0 {
			hdr = g[:i]
		}
		a, b := strings.IndexByte(hdr, '['), strings.LastIndexByte(hdr, ']')
		if a < 0 || b < a {
			return false
		}
		st := hdr[a+1 : b]
		// a goroutine of the code under test sleeping on a timer is not idle for good
		if strings.HasPrefix(st, "sleep") {
			return false
		}
		for _, p := range idleBusy {
			if strings.HasPrefix(st, p) {
				return false
			}
		}
	}
	return true
}

func (d *disconRun) guarded(f func()) bool {
	if d.hung {
		return false
	}
	done := make(chan struct{})
	go func() { f(); close(done) }()
	wd := time.NewTimer(disconWatchdog)
	defer wd.Stop()
	tick := time.NewTicker(idleSample)
	defer tick.Stop()
	idle := 0
	for {
		select {
		case <-done:
			return true
		case <-tick.C:
			if othersParked() {
				idle++
			} else {
				idle = 0
			}
			if time.Duration(idle)*idleSample < idleFor {
				continue
			}
		case <-wd.C:
		}
		d.hung = true
		detail := dumpGoroutines("AllocateAndBuildMessage", "responseassembler", "messagequeue.(*MessageQueue)", "responsemanager.(*ResponseManager).run")
		d.out.Fail("hang", "a call into the response manager does not return and every goroutine of the process is parked: its loop is blocked for good; goroutines: %s", detail)
		if d.fault {
			d.out.Fail("stalled-peer-not-recovered", "after the send to the stalled peer failed / the peer disconnected the response manager loop is blocked; goroutines: %s", detail)
		}
		return false
	}
}

func keysOf(m map[int]bool) []int {
	var ks []int
	for k := range m {
		ks = append(ks, k)
	}
	sort.Ints(ks)
	return ks
}

func dumpGoroutines(filter ...string) string {
	buf := make([]byte, 4<<20)
	n := runtime.Stack(buf, true)
	var hits []string
	for _, g := range strings.Split(string(buf[:n]), "\n\n") {
		for _, f := range filter {
			if strings.Contains(g, f) {
				lines := strings.Split(g, "\n")
				var fn []string
				for _, l := range lines[1:] {
					if !strings.HasPrefix(l, "\t") && len(fn) < 5 {
						fn = append(fn, strings.TrimSpace(strings.SplitN(l, "(", 2)[0]))
					}
				}
				hits = append(hits, strings.Join(fn, " < "))
				break
			}
		}
	}
	sort.Strings(hits)
	if len(hits) > 6 {
		hits = hits[:6]
	}
	return strings.Join(hits, " | ")
}

// waitUntil re-evaluates cond whenever the real code reports progress.  It gives up when the process
// is provably idle (see idleFor) - then the condition can never become true - or, as a safety net,
// when the watchdog expires (second result true: report a hang, nothing else).  maxMs > 0 bounds
// barriers that are only there for coverage (waitsend / waitalloc) and produce no verdict.
func (d *disconRun) waitUntil(maxMs int, cond func() bool) (ok bool, watchdogExpired bool) {
	wd := time.NewTimer(disconWatchdog)
	defer wd.Stop()
	var bound <-chan time.Time
	if maxMs > 0 {
		t := time.NewTimer(time.Duration(maxMs) * time.Millisecond)
		defer t.Stop()
		bound = t.C
	}
	tick := time.NewTicker(idleSample)
	defer tick.Stop()
	idle := 0
	for {
		if cond() {
			return true, false
		}
		select {
		case <-d.e.evCh:
			idle = 0
		case <-bound:
			return cond(), false
		case <-tick.C:
			if othersParked() {
				idle++
			} else {
				idle = 0
			}
			if time.Duration(idle)*idleSample >= idleFor {
				return cond(), false
			}
		case <-wd.C:
			return cond(), true
		}
	}
}

type disconState struct {
	noOutcome []int
	left      int
	prot      []string
	active    int
	pending   int
	alloc     uint64
	waiting   int32
	refused   map[int]int
}

func (s disconState) quiet() bool {
	return len(s.noOutcome) == 0 && s.left == 0 && len(s.prot) == 0 && s.active == 0 && s.pending == 0 && s.alloc == 0 && s.waiting == 0
}

func (d *disconRun) state() disconState {
	e := d.e
	var s disconState
	out := map[int]bool{}
	e.mu.Lock()
	for _, ev := range e.events {
		if ev.kind == "done" || ev.kind == "canc" || ev.kind == "nerr" {
			out[ev.k] = true
		}
	}
	nids := len(e.ids)
	e.mu.Unlock()
	for id := 0; id < nids; id++ {
		if !out[id] {
			s.noOutcome = append(s.noOutcome, id)
		}
	}
	if !d.guarded(func() {
		for p := 0; p < e.npeers; p++ {
			s.left += len(e.rm.PeerState(e.peers[p]).RequestStates)
		}
	}) {
		s.left = -1
	}
	s.prot = e.conn.snapshot()
	st := e.tq.Stats()
	s.active, s.pending = int(st.Active), int(st.Pending)
	s.alloc = e.alloc.inner.Stats().TotalAllocatedAllPeers
	s.waiting = atomic.LoadInt32(&e.allocWaiting)
	s.refused = map[int]int{}
	e.gateMu.Lock()
	for p, n := range e.allocRefused {
		s.refused[p] = n
	}
	e.gateMu.Unlock()
	return s
}

func RunDiscon(cases []reg.Case, out *reg.Out) {
	for _, c := range cases {
		out.BeginCase(c)
		d := &disconRun{out: out}
		for _, op := range c.Ops {
			out.Cov("op." + op[0])
			out.Line("%s", d.exec(op))
		}
		if d.e != nil {
			d.e.shutdown()
		}
	}
}

func (d *disconRun) exec(op []string) string {
	e := d.e
	if op[0] != "pool" && e == nil {
		return "bad"
	}
	if d.hung {
		return "hung"
	}
	arg := func(i int) string {
		if i < len(op) {
			return op[i]
		}
		return ""
	}
	switch op[0] {
	case "pool":
		if len(op) < 4 || e != nil {
			return "bad"
		}
		d.W = atoi(op[3])
		d.e = newEngineOpts(atoi(op[1]), uint64(atoi(op[2])), 0, 0, true, nil)
		d.e.tq.Startup(uint64(d.W), d.e.qe)
		return "ok"
	case "gate":
		p, mode := atoi(arg(1)), arg(2)
		if p < 0 || p >= e.npeers || (mode != "ok" && mode != "stall" && mode != "fail") {
			return "bad"
		}
		if mode != "stall" && e.blockedSends(p) > 0 {
			d.fault = d.fault || mode == "fail"
			d.out.Cov("gate." + mode + ".with-message-on-the-wire")
		}
		e.setGate(p, mode)
		return "ok"
	case "new":
		if len(op) < 9 {
			return "bad"
		}
		p, k, id := atoi(op[1]), atoi(op[2]), atoi(op[3])
		if p < 0 || p >= e.npeers {
			return "bad"
		}
		cfg := &reqCfg{k: k, id: id, peer: p, pri: atoi(op[4]), hook: op[5][0], n: atoi(op[6]), miss: atoi(op[7]),
			bh: strings.NewReplacer("F", "", "k", "o", "p", "o").Replace(op[8])}
		if cfg.n < 1 || cfg.n > 8 || strings.ContainsAny(string(cfg.hook), "pP") {
			return "bad"
		}
		cfg.blkLen = blockPayload
		e.mu.Lock()
		if k != len(e.cfgs) || id != len(e.ids) {
			e.mu.Unlock()
			return "bad"
		}
		rid := graphsync.NewRequestID()
		e.ids = append(e.ids, rid)
		e.idOf[rid] = id
		e.cfgs = append(e.cfgs, cfg)
		e.buildChain(cfg)
		e.mu.Unlock()
		d.out.Cov("hook." + string(cfg.hook))
		if !d.guarded(func() {
			e.rm.ProcessRequests(e.ctx, e.peers[p], []gsmsg.GraphSyncRequest{gsmsg.NewRequest(rid, cfg.root, chainSelector, graphsync.Priority(cfg.pri))})
		}) {
			return "hung"
		}
		return "ok"
	case "waitsend":
		p := atoi(arg(1))
		if p < 0 || p >= e.npeers {
			return "bad"
		}
		if ok, _ := d.waitUntil(atoi(arg(2)), func() bool { return e.blockedSends(p) > 0 }); ok {
			d.out.Cov("waitsend.on-the-wire")
		}
		return "ok"
	case "waitalloc":
		n := int32(atoi(arg(1)))
		if ok, _ := d.waitUntil(atoi(arg(2)), func() bool { return atomic.LoadInt32(&e.allocWaiting) >= n }); ok {
			d.out.Cov("waitalloc.executor-waits-for-memory")
		}
		return "ok"
	case "disc":
		p := atoi(arg(1))
		if p < 0 || p >= e.npeers {
			return "bad"
		}
		if e.blockedSends(p) > 0 {
			d.fault = true
			d.out.Cov("disc.with-message-on-the-wire")
		}
		if atomic.LoadInt32(&e.allocWaiting) > 0 {
			d.out.Cov("disc.with-executor-waiting-for-memory")
		}
		e.pmm.Disconnected(e.peers[p])
		return "ok"
	case "settle":
		for p := 0; p < e.npeers; p++ {
			e.gateMu.Lock()
			m := e.gateMode[p]
			e.gateMu.Unlock()
			if m == "stall" {
				return "bad" // a stalled peer legitimately keeps things waiting
			}
		}
		var s disconState
		// the argument (ms) of `settle` is ignored: see waitUntil
		ok, expired := d.waitUntil(0, func() bool { s = d.state(); return s.quiet() || d.hung })
		if d.hung {
			return "hung"
		}
		if expired && !s.quiet() {
			d.hung = true
			d.out.Fail("hang", "not settled after %v although goroutines are still busy: %s", disconWatchdog, dumpGoroutines("AllocateAndBuildMessage", "responseassembler", "messagequeue.(*MessageQueue)", "responsemanager.(*ResponseManager).run"))
			return "hung"
		}
		if ok {
			d.out.Cov("settle.quiet")
			d.fault = false
			return "settled"
		}
		d.out.Cov("settle.not-quiet")
		detail := fmt.Sprintf("no-outcome=%v left=%d prot=%v active=%d pending=%d alloc=%d reservations-waiting=%d reservations-refused=%v; goroutines: %s",
			s.noOutcome, s.left, s.prot, s.active, s.pending, s.alloc, s.waiting, s.refused,
			dumpGoroutines("AllocateAndBuildMessage", "responseassembler", "messagequeue.(*MessageQueue)", "responsemanager.(*ResponseManager).run"))
		// Known finding reservation-refused-at-queue-shutdown, attributed narrowly: every peer with something
		// stuck had a WAITING memory reservation refused (ReleasePeerMemory at its queue's exit), and nothing
		// is left working or waiting for those responses (no task active or pending, no reservation waiting,
		// memory returned).  A message merely built on a queue after its Shutdown is reported by the queue
		// since /repo f15bc50: if such a response is stuck, that is a VIOLATION (normal classes below).
		stuckPeers := map[int]bool{}
		for _, id := range s.noOutcome {
			stuckPeers[e.cfgs[id].peer] = true
		}
		for _, t := range s.prot {
			var pp, rr int
			if n, _ := fmt.Sscanf(t, "p%d/r%d", &pp, &rr); n == 2 {
				stuckPeers[pp] = true
			}
		}
		refusedOnly := len(stuckPeers) > 0 && s.active == 0 && s.pending == 0 && s.waiting == 0 && s.alloc == 0
		for pp := range stuckPeers {
			if s.refused[pp] == 0 {
				refusedOnly = false
			}
		}
		if refusedOnly {
			d.out.Cov("settle.reservation-refused-at-queue-shutdown")
			d.out.Fail("reservation-refused-at-queue-shutdown", "a transaction of peer(s) %v was waiting for memory when the peer's message queue exited: ReleasePeerMemory refused the reservation and MessageQueue.AllocateAndBuildMessage dropped the data without telling anyone, so the response whose terminal status was in it waits for a notification that never comes: %s", keysOf(stuckPeers), detail)
			d.fault = false
			return "not-settled"
		}
		if len(s.noOutcome) > 0 {
			d.out.Fail("outcome-none", "every network gate is open or failing, so nothing can be waiting for the network, yet request(s) %v never reached an outcome: %s", s.noOutcome, detail)
		}
		if s.left > 0 {
			d.out.Fail("stuck", "%d request(s) still listed in PeerState although nothing is left to run or send: %s", s.left, detail)
		}
		if len(s.prot) > 0 {
			d.out.Fail("protect-leak", "connection protection not released: %s", detail)
		}
		if len(s.noOutcome) == 0 && s.left == 0 && (s.active != 0 || s.pending != 0) {
			d.out.Fail("stats-nonzero", "all requests ended but the task queue is not empty: %s", detail)
		}
		if len(s.noOutcome) == 0 && s.left == 0 && (s.alloc != 0 || s.waiting != 0) {
			d.out.Fail("alloc-nonzero", "all requests ended but memory is still accounted / reserved: %s", detail)
		}
		if d.fault {
			d.out.Fail("stalled-peer-not-recovered", "after the send to the stalled peer failed / the peer disconnected, its responses, executors and memory did not come back (a stalled peer may occupy workers only WHILE it is stalled): %s", detail)
		} else if len(s.noOutcome) > 0 {
			d.out.Fail("peer-starved-other", "requests sent after the stalled peer recovered are not served: %s", detail)
		}
		d.fault = false
		return "not-settled"
	case "end":
		return "end"
	}
	return "bad"
}
