// Command panicsites regenerates lean/GS/Generated/PanicSites.lean (property C22) from the whole
// repository: the table of call sites of user-supplied functions (storage read/write functions,
// codec, node reifier, prototype chooser, selector parse/explore, hooks) with, for each site, the
// goroutine root it runs on and whether a recover frame dominates it on the way from that root.
//
// usage: go run ./panicsites <repo>    (prints the Lean file; exits non-zero on anything unexpected)
//
// Only the standard library is used (go/parser, go/ast, go/token), so calls are resolved BY NAME
// (no go/types): a call `x.M(…)` may reach every method M of the repository (only methods of the
// same package when M is unexported), `f(…)` reaches function f of the same package and `p.F(…)`
// function F of the imported repository package p.  That over-approximates the callers of a
// function, which is the conservative direction here: an additional caller can only add a
// goroutine root without recover frame.
//
// What is curated by hand (table `curated` below) is only WHICH callee names in WHICH package are
// calls of user-supplied functions and of which kind.  Everything else is computed from the AST on
// every run: the sites themselves (file:line, enclosing function), their goroutine roots (nearest
// enclosing `go func(){…}` literal, a function started by a `go` statement, or a function
// without callers in the repository = API entry point running on the caller's goroutine), and
// `recovered` (a `defer` statement in a function on the path, textually before the call, whose
// deferred function calls recover() directly).
//
// The translator fails loudly when
//   - a curated (package, callee) has no call site any more,
//   - a call of one of the watched names appears in a package where it is neither curated nor
//     explicitly ignored (a NEW call site of a user function),
//   - a reference to a link-system function field (StorageReadOpener, …) appears outside the
//     accounted places (the function could be called through an alias the name scan cannot see),
//   - the traverser no longer replaces StorageReadOpener by its own loader, the responder no longer
//     hands linkSystem.StorageReadOpener to the query executor as `Loader`, or a site sits in a
//     closure whose caller cannot be determined.
package main

import (
	"fmt"
	"go/ast"
	"go/parser"
	"go/token"
	"os"
	"path/filepath"
	"sort"
	"strconv"
	"strings"
)

var fset = token.NewFileSet()

func die(pos token.Pos, format string, a ...interface{}) {
	where := ""
	if pos.IsValid() {
		where = fset.Position(pos).String() + ": "
	}
	fmt.Fprintf(os.Stderr, "panicsites: %s%s\n", where, fmt.Sprintf(format, a...))
	os.Exit(1)
}

// ------------------------------------------------------------------ curated knowledge

type entry struct {
	pkg    string   // package directory relative to the repository root
	callee string   // final name of the called expression (x.y.NAME(…) or NAME(…)); trailing * = prefix
	nargs  int      // required number of arguments, -1 = any
	kinds  []string // Lean constructor names of GS.Generated.PanicSites.Kind
	note   string
	derive []string // kinds of the calls made on / with the i-th result of this call ("" = none), see derived()
}

// A callee of the form "@type:<suffix>" stands for the names of all struct fields of that package
// whose declared type ends in <suffix> (so that renaming a private field is not a broken tie).

var curated = []entry{
	// the traverser goroutine: everything go-ipld-prime calls during Load / WalkAdv runs here,
	// because TraversalBuilder.Start replaces StorageReadOpener by the traverser's own loader
	{"ipldutil", "@type:LinkTargetNodePrototypeChooser", -1, []string{"chooser"}, "prototype chooser for the root block", nil},
	{"ipldutil", "Load", 3, []string{"codec", "reifier"}, "LinkSystem.Load of the root block: decoder + node reifier", nil},
	{"ipldutil", "ParseSelector", -1, []string{"selector"}, "selector compilation", nil},
	{"ipldutil", "WalkAdv", -1, []string{"codec", "reifier", "chooser", "selector"}, "selector exploration; decoder, reifier, chooser of every further block", nil},
	// requestor: block loads and stores of the reconciled loader
	{"requestmanager/reconciledloader", "StorageReadOpener", -1, []string{"storageRead"}, "local block load",
		[]string{"storageReadStream"}},
	{"requestmanager/reconciledloader", "StorageWriteOpener", -1, []string{"storageWriteOpener"}, "store of a verified remote block",
		[]string{"storageWriteBuffer", "storageWriteCommitter"}},
	// responder: block loads of the query executor (ResponseTask.Loader = linkSystem.StorageReadOpener)
	{"responsemanager/queryexecutor", "@type:BlockReadOpener", -1, []string{"storageRead"}, "block load",
		[]string{"storageReadStream"}},
	// not among the kinds the property lists; kept in the table so that they stay visible
	{"requestmanager", "ParseSelector", -1, []string{"selectorSpec"}, "validation of the selector spec node handed to Request", nil},
	{"requestmanager", "Process*Hooks", -1, []string{"hook"}, "outgoing request / incoming response hooks", nil},
	{"requestmanager/executor", "Process*Hooks", -1, []string{"hook"}, "incoming block hooks", nil},
	{"responsemanager", "Process*Hooks", -1, []string{"hook"}, "incoming request / update hooks", nil},
	{"responsemanager/queryexecutor", "Process*Hooks", -1, []string{"hook"}, "outgoing block / update hooks", nil},
}

// struct fields of these types hold user-supplied functions: a call of such a field anywhere in the
// repository is watched (besides the fixed names below)
var userFuncTypes = []string{"LinkTargetNodePrototypeChooser", "BlockReadOpener", "BlockWriteOpener", "NodeReifier", "BlockWriteCommitter"}

// watched callee names: a call with one of these names anywhere in the repository must be curated
// or ignored.
var watched = []string{"StorageReadOpener", "StorageWriteOpener", "NodeReifier", "DecoderChooser", "EncoderChooser",
	"HasherChooser", "Loader", "chooser", "Chooser", "CustomChooser", "customChooser", "nodeStyleChooser",
	"nodeBuilderChooser", "ParseSelector", "CompileSelector", "WalkAdv", "WalkMatching",
	"WalkTransforming", "WalkLocal", "Load", "LoadRaw", "LoadPlusRaw", "MustLoad", "Store", "MustStore", "Fill",
	"MustFill", "Process*Hooks"}

type ignoreEntry struct {
	pkg, callee string
	nargs       int
	reason      string
}

var ignored = []ignoreEntry{
	{"requestmanager/executor", "Load", 0, "sync/atomic.Value.Load (LastResponse)"},
	{"requestmanager", "Store", 1, "sync/atomic.Value.Store (lastResponse)"},
	{"selectorvalidator", "WalkMatching", -1, "walks the selector spec received from the wire (plain basicnode data, no user-supplied function) with the library's own selector"},
}

// references (not calls) to link-system function fields that are accounted for
type refEntry struct{ pkg, field, why string }

var refsOK = []refEntry{
	{"ipldutil", "DecoderChooser", "TraversalBuilder.Start fills in the default"},
	{"ipldutil", "EncoderChooser", "TraversalBuilder.Start fills in the default"},
	{"ipldutil", "HasherChooser", "TraversalBuilder.Start fills in the default"},
	{"ipldutil", "StorageReadOpener", "TraversalBuilder.Start replaces it by the traverser's own loader (checked below)"},
	{"responsemanager", "StorageReadOpener", "nil test of the custom link system; handed to the query executor as ResponseTask.Loader (checked below)"},
	{"storeutil", "StorageReadOpener", "helper that builds a link system from a blockstore; not per-request code"},
	{"storeutil", "StorageWriteOpener", "helper that builds a link system from a blockstore; not per-request code"},
}
var refFields = []string{"StorageReadOpener", "StorageWriteOpener", "NodeReifier", "DecoderChooser", "EncoderChooser", "HasherChooser"}

var skipDirs = map[string]bool{"testutil": true, "benchmarks": true, "testplans": true, "tools": true, "docs": true, "scripts": true}

func nameMatches(pattern, name string) bool {
	if i := strings.IndexByte(pattern, '*'); i >= 0 {
		return strings.HasPrefix(name, pattern[:i]) && strings.HasSuffix(name, pattern[i+1:]) && len(name) >= len(pattern)-1
	}
	return pattern == name
}

// calleeMatches: does a call of `name` in package pkg match the curated callee pattern?
func calleeMatches(pattern, pkg, name string) bool {
	if strings.HasPrefix(pattern, "@type:") {
		t, ok := fieldTypes[pkg][name]
		return ok && strings.HasSuffix(t, strings.TrimPrefix(pattern, "@type:"))
	}
	return nameMatches(pattern, name)
}

// isUserFuncField: is `name` a struct field (of any package) whose type is one of userFuncTypes?
func isUserFuncField(name string) bool {
	for _, m := range fieldTypes {
		if t, ok := m[name]; ok {
			for _, u := range userFuncTypes {
				if strings.HasSuffix(t, u) {
					return true
				}
			}
		}
	}
	return false
}

// ------------------------------------------------------------------ program representation

type frame struct {
	id     int
	pkg    string
	file   *fileInfo
	decl   *ast.FuncDecl // set for function declarations
	lit    *ast.FuncLit  // set for function literals
	body   *ast.BlockStmt
	parent *frame    // enclosing frame of a literal
	use    string    // for literals: "go", "defer", "inline" (argument of a call / called in place), "stored"
	usePos token.Pos // position of the literal inside the parent
	name   string    // printable name
}

type fileInfo struct {
	pkg     string
	rel     string
	ast     *ast.File
	imports map[string]string // local name -> import path
}

type callSite struct {
	fr    *frame
	call  *ast.CallExpr
	name  string // final callee name
	recv  bool   // x.NAME(…) with x not a package
	pkgTo string // for p.NAME(…) with p an import of a repository package: that package's directory
	isGo  bool   // operand of a go statement
}

var (
	files      []*fileInfo
	frames     []*frame
	calls      []*callSite
	module     = "github.com/ipfs/go-graphsync"
	byName     = map[string][]*frame{}          // function/method name -> declarations
	mvalues    = map[string][]token.Pos{}       // method/function name -> positions where it is used as a value
	fieldNames = map[string]bool{}              // names of struct fields declared in the repository
	fieldTypes = map[string]map[string]string{} // package -> field name -> type text
)

func recvType(fd *ast.FuncDecl) string {
	if fd.Recv == nil || len(fd.Recv.List) == 0 {
		return ""
	}
	t := fd.Recv.List[0].Type
	if s, ok := t.(*ast.StarExpr); ok {
		t = s.X
	}
	if ix, ok := t.(*ast.IndexExpr); ok {
		t = ix.X
	}
	if id, ok := t.(*ast.Ident); ok {
		return id.Name
	}
	return "?"
}

func load(repo string) {
	err := filepath.Walk(repo, func(path string, info os.FileInfo, err error) error {
		if err != nil {
			return err
		}
		rel, _ := filepath.Rel(repo, path)
		if info.IsDir() {
			base := filepath.Base(path)
			if rel != "." && (strings.HasPrefix(base, ".") || strings.HasPrefix(base, "_") || skipDirs[strings.Split(rel, string(filepath.Separator))[0]]) {
				return filepath.SkipDir
			}
			return nil
		}
		if !strings.HasSuffix(path, ".go") || strings.HasSuffix(path, "_test.go") {
			return nil
		}
		f, perr := parser.ParseFile(fset, path, nil, parser.SkipObjectResolution)
		if perr != nil {
			die(token.NoPos, "parse %s: %v", path, perr)
		}
		// files excluded from normal builds (e.g. //go:build tools) are not part of the program
		for _, cg := range f.Comments {
			if cg.Pos() < f.Package {
				for _, c := range cg.List {
					if strings.HasPrefix(c.Text, "//go:build") && !strings.Contains(c.Text, "!") {
						return nil
					}
				}
			}
		}
		fi := &fileInfo{pkg: filepath.ToSlash(filepath.Dir(rel)), rel: filepath.ToSlash(rel), ast: f, imports: map[string]string{}}
		for _, im := range f.Imports {
			p, _ := strconv.Unquote(im.Path.Value)
			local := p[strings.LastIndexByte(p, '/')+1:]
			if im.Name != nil {
				local = im.Name.Name
			}
			fi.imports[local] = p
		}
		files = append(files, fi)
		return nil
	})
	if err != nil {
		die(token.NoPos, "walk: %v", err)
	}
	sort.Slice(files, func(i, j int) bool { return files[i].rel < files[j].rel })
	for _, fi := range files {
		ast.Inspect(fi.ast, func(n ast.Node) bool {
			if st, ok := n.(*ast.StructType); ok && st.Fields != nil {
				for _, f := range st.Fields.List {
					for _, nm := range f.Names {
						fieldNames[nm.Name] = true
						if fieldTypes[fi.pkg] == nil {
							fieldTypes[fi.pkg] = map[string]string{}
						}
						fieldTypes[fi.pkg][nm.Name] = exprText(f.Type)
					}
				}
			}
			return true
		})
	}
	for _, fi := range files {
		for _, d := range fi.ast.Decls {
			fd, ok := d.(*ast.FuncDecl)
			if !ok || fd.Body == nil {
				continue
			}
			name := fd.Name.Name
			if r := recvType(fd); r != "" {
				name = "(" + r + ")." + name
			}
			fr := &frame{id: len(frames), pkg: fi.pkg, file: fi, decl: fd, body: fd.Body, name: fi.pkg + "." + name}
			frames = append(frames, fr)
			byName[fd.Name.Name] = append(byName[fd.Name.Name], fr)
			scan(fr, fd.Body)
		}
	}
}

// scan collects the calls and nested literals of one frame.
func scan(fr *frame, body *ast.BlockStmt) {
	var stack []ast.Node
	ast.Inspect(body, func(n ast.Node) bool {
		if n == nil {
			stack = stack[:len(stack)-1]
			return true
		}
		var parent ast.Node
		if len(stack) > 0 {
			parent = stack[len(stack)-1]
		}
		switch x := n.(type) {
		case *ast.FuncLit:
			sub := &frame{id: len(frames), pkg: fr.pkg, file: fr.file, lit: x, body: x.Body, parent: fr, usePos: x.Pos(),
				name: fmt.Sprintf("func literal at %s:%d in %s", fr.file.rel, fset.Position(x.Pos()).Line, fr.name)}
			sub.use = "stored"
			if ce, ok := parent.(*ast.CallExpr); ok {
				sub.use = "inline" // argument of a call, or called in place: runs (if at all) during that call
				if ce.Fun == x && len(stack) > 1 {
					switch stack[len(stack)-2].(type) {
					case *ast.GoStmt:
						sub.use = "go"
					case *ast.DeferStmt:
						sub.use = "defer"
					}
				}
			}
			frames = append(frames, sub)
			scan(sub, x.Body)
			return false // do not descend; stack stays balanced because Inspect does not call f(nil) then
		case *ast.CallExpr:
			cs := &callSite{fr: fr, call: x}
			if g, ok := parent.(*ast.GoStmt); ok && g.Call == x {
				cs.isGo = true
			}
			switch f := x.Fun.(type) {
			case *ast.Ident:
				cs.name = f.Name
			case *ast.SelectorExpr:
				cs.name = f.Sel.Name
				cs.recv = true
				if id, ok := f.X.(*ast.Ident); ok {
					if p, ok := fr.file.imports[id.Name]; ok {
						cs.recv = false
						if p == module {
							cs.pkgTo = "."
						} else if strings.HasPrefix(p, module+"/") {
							cs.pkgTo = strings.TrimPrefix(p, module+"/")
						} else {
							cs.pkgTo = "ext:" + p
						}
					}
				}
			}
			if cs.name != "" {
				calls = append(calls, cs)
			}
		case *ast.SelectorExpr:
			// a method / function used as a value (not called): x.NAME outside call position
			isFun := false
			if ce, ok := parent.(*ast.CallExpr); ok && ce.Fun == x {
				isFun = true
			}
			if pse, ok := parent.(*ast.SelectorExpr); ok && pse.X == x {
				isFun = true // x.NAME.more: a field access, not a function value
			}
			if !isFun {
				pkgQualified := false
				if id, ok := x.X.(*ast.Ident); ok {
					_, pkgQualified = fr.file.imports[id.Name]
				}
				if !pkgQualified {
					mvalues[x.Sel.Name] = append(mvalues[x.Sel.Name], x.Pos())
				}
			}
		}
		stack = append(stack, n)
		return true
	})
}

// ------------------------------------------------------------------ recover frames

// directRecover: does this function body call recover() directly (not inside a nested literal)?
func directRecover(body *ast.BlockStmt) bool {
	found := false
	ast.Inspect(body, func(n ast.Node) bool {
		switch x := n.(type) {
		case *ast.FuncLit:
			return false
		case *ast.CallExpr:
			if id, ok := x.Fun.(*ast.Ident); ok && id.Name == "recover" && len(x.Args) == 0 {
				found = true
			}
		}
		return true
	})
	return found
}

// recoverDeferBefore: is there, among the top-level statements of the frame's body and before
// pos, a defer statement whose deferred function calls recover() directly?
func recoverDeferBefore(fr *frame, pos token.Pos) bool {
	for _, st := range fr.body.List {
		if st.Pos() >= pos {
			break
		}
		ds, ok := st.(*ast.DeferStmt)
		if !ok {
			continue
		}
		switch f := ds.Call.Fun.(type) {
		case *ast.FuncLit:
			if directRecover(f.Body) {
				return true
			}
		case *ast.Ident:
			for _, cand := range byName[f.Name] {
				if cand.pkg == fr.pkg && cand.decl.Recv == nil && directRecover(cand.body) {
					return true
				}
			}
		case *ast.SelectorExpr:
			for _, cand := range byName[f.Sel.Name] {
				if cand.decl.Recv != nil && (ast.IsExported(f.Sel.Name) || cand.pkg == fr.pkg) && directRecover(cand.body) {
					return true
				}
			}
		}
	}
	return false
}

// ------------------------------------------------------------------ goroutine roots

type rootInfo struct {
	root      string
	recovered bool
}

func callersOf(fr *frame) []*callSite {
	var out []*callSite
	name := fr.decl.Name.Name
	isMethod := fr.decl.Recv != nil
	for _, cs := range calls {
		if cs.name != name {
			continue
		}
		if isMethod {
			if !cs.recv {
				continue
			}
			if !ast.IsExported(name) && cs.fr.pkg != fr.pkg {
				continue
			}
		} else {
			if cs.recv {
				continue
			}
			if cs.pkgTo == "" && cs.fr.pkg != fr.pkg {
				continue
			}
			if cs.pkgTo != "" && cs.pkgTo != fr.pkg {
				continue
			}
		}
		out = append(out, cs)
	}
	return out
}

func roots(fr *frame, pos token.Pos, rec bool, onPath map[int]bool, depth int) []rootInfo {
	if depth > 40 {
		die(pos, "call path too deep while looking for the goroutine root of %s", fr.name)
	}
	rec = rec || recoverDeferBefore(fr, pos)
	if fr.lit != nil {
		switch fr.use {
		case "go":
			return []rootInfo{{"go " + fr.name, rec}}
		case "inline":
			return roots(fr.parent, fr.usePos, rec, onPath, depth+1)
		default:
			die(fr.usePos, "a watched call sits in a %s function literal whose caller cannot be determined (%s)", fr.use, fr.name)
		}
	}
	if onPath[fr.id] {
		return nil
	}
	onPath[fr.id] = true
	defer delete(onPath, fr.id)
	var out []rootInfo
	cs := callersOf(fr)
	for _, c := range cs {
		if c.isGo {
			out = append(out, rootInfo{"go " + fr.name, rec})
			continue
		}
		out = append(out, roots(c.fr, c.call.Pos(), rec, onPath, depth+1)...)
	}
	for _, p := range mvalues[fr.decl.Name.Name] {
		if fieldNames[fr.decl.Name.Name] {
			break // x.NAME is (also) a struct field of the repository: taken to be the field access
		}
		// used as a function value somewhere: whoever holds the value may call it on any goroutine
		pp := fset.Position(p)
		out = append(out, rootInfo{fmt.Sprintf("value of %s taken at %s:%d", fr.name, relTo(pp.Filename), pp.Line), rec})
	}
	if len(cs) == 0 && (len(mvalues[fr.decl.Name.Name]) == 0 || fieldNames[fr.decl.Name.Name]) {
		out = append(out, rootInfo{"caller of " + fr.name + " (no caller inside the repository)", rec})
	}
	return out
}

var repoRoot string

func relTo(p string) string {
	r, err := filepath.Rel(repoRoot, p)
	if err != nil {
		return p
	}
	return filepath.ToSlash(r)
}

// ------------------------------------------------------------------ values returned by user functions

// derived finds the calls made on or with the idx-th result of the user-function call `src`
// (the reader returned by StorageReadOpener, the writer and the committer returned by
// StorageWriteOpener): inside the enclosing function declaration, a small taint analysis over
// identifiers - the result variable, variables assigned from it, and `v, ok := x.(T)` for
// non-pointer T - and then every call whose callee is a tainted identifier, a method of one, or a
// function of a package outside the repository that receives one as an argument (io.ReadAll, io.Copy).
// Handing the value to a repository function is not followed (ResponseTask readers handed to
// Traverser.Advance are read on the traverser goroutine, under its recover frame).
func derived(src *callSite, idx int) []*callSite {
	decl := enclosingDecl(src.fr)
	tainted := map[string]bool{}
	found := false
	ast.Inspect(decl.body, func(n ast.Node) bool {
		as, ok := n.(*ast.AssignStmt)
		if !ok || len(as.Rhs) != 1 || as.Rhs[0] != ast.Expr(src.call) {
			return true
		}
		found = true
		if idx < len(as.Lhs) {
			if id, ok := as.Lhs[idx].(*ast.Ident); ok && id.Name != "_" {
				tainted[id.Name] = true
			}
		}
		return true
	})
	if !found {
		die(src.call.Pos(), "the results of %s are not bound by an assignment: cannot follow the returned values", exprText(src.call.Fun))
	}
	isTainted := func(e ast.Expr) bool {
		id, ok := e.(*ast.Ident)
		return ok && tainted[id.Name]
	}
	for pass := 0; pass < 4; pass++ {
		ast.Inspect(decl.body, func(n ast.Node) bool {
			as, ok := n.(*ast.AssignStmt)
			if !ok || len(as.Rhs) != 1 || len(as.Lhs) == 0 {
				return true
			}
			from := as.Rhs[0]
			if ta, ok := from.(*ast.TypeAssertExpr); ok {
				if _, ptr := ta.Type.(*ast.StarExpr); ptr || ta.Type == nil {
					return true
				}
				from = ta.X
			}
			if isTainted(from) {
				if id, ok := as.Lhs[0].(*ast.Ident); ok && id.Name != "_" {
					tainted[id.Name] = true
				}
			}
			return true
		})
	}
	var out []*callSite
	for _, cs := range calls {
		if enclosingDecl(cs.fr) != decl || cs == src {
			continue
		}
		hit := false
		switch f := cs.call.Fun.(type) {
		case *ast.Ident:
			hit = tainted[f.Name]
		case *ast.SelectorExpr:
			hit = isTainted(f.X)
		}
		if !hit && strings.HasPrefix(cs.pkgTo, "ext:") {
			for _, a := range cs.call.Args {
				if isTainted(a) {
					hit = true
				}
			}
		}
		if hit {
			out = append(out, cs)
		}
	}
	return out
}

// ------------------------------------------------------------------ main

type site struct {
	kind, side, file string
	line             int
	callee, fn, root string
	recovered        bool
}

func exprText(e ast.Expr) string {
	switch x := e.(type) {
	case *ast.Ident:
		return x.Name
	case *ast.SelectorExpr:
		return exprText(x.X) + "." + x.Sel.Name
	case *ast.CallExpr:
		return exprText(x.Fun) + "(…)"
	case *ast.CompositeLit:
		return exprText(x.Type) + "{…}"
	case *ast.StarExpr:
		return "*" + exprText(x.X)
	case *ast.ParenExpr:
		return "(" + exprText(x.X) + ")"
	case *ast.IndexExpr:
		return exprText(x.X) + "[…]"
	}
	return "…"
}

func enclosingDecl(fr *frame) *frame {
	for fr.parent != nil {
		fr = fr.parent
	}
	return fr
}

func main() {
	if len(os.Args) != 2 {
		die(token.NoPos, "usage: panicsites <repo>")
	}
	repoRoot = os.Args[1]
	load(repoRoot)
	if len(files) < 20 {
		die(token.NoPos, "only %d source files found under %s", len(files), repoRoot)
	}

	// which sides start a traversal through ipldutil.TraversalBuilder{…}.Start ?
	sidesOf := func(pkg string) []string {
		switch {
		case pkg == "requestmanager" || strings.HasPrefix(pkg, "requestmanager/"):
			return []string{"requestor"}
		case pkg == "responsemanager" || strings.HasPrefix(pkg, "responsemanager/"):
			return []string{"responder"}
		}
		return nil
	}
	travSides := map[string]bool{}
	for _, cs := range calls {
		if cs.name != "Start" {
			continue
		}
		se, ok := cs.call.Fun.(*ast.SelectorExpr)
		if !ok {
			continue
		}
		cl, ok := se.X.(*ast.CompositeLit)
		if !ok || !strings.HasSuffix(exprText(cl.Type), "TraversalBuilder") {
			continue
		}
		ss := sidesOf(cs.fr.pkg)
		if ss == nil {
			die(cs.call.Pos(), "TraversalBuilder{…}.Start called from package %s, which is neither requestor nor responder code", cs.fr.pkg)
		}
		travSides[ss[0]] = true
	}
	if !travSides["requestor"] || !travSides["responder"] {
		die(token.NoPos, "expected both requestmanager and responsemanager to start traversals via ipldutil.TraversalBuilder{…}.Start, found %v", travSides)
	}

	// structural facts the attribution of kinds to sites rests on
	traverserOwnsRead, loaderIsReadOpener := false, false
	for _, fi := range files {
		ast.Inspect(fi.ast, func(n ast.Node) bool {
			switch x := n.(type) {
			case *ast.AssignStmt:
				if fi.pkg == "ipldutil" && len(x.Lhs) == 1 && len(x.Rhs) == 1 && strings.HasSuffix(exprText(x.Lhs[0]), ".StorageReadOpener") && strings.HasSuffix(exprText(x.Rhs[0]), ".loader") {
					traverserOwnsRead = true
				}
			case *ast.KeyValueExpr:
				if k, ok := x.Key.(*ast.Ident); ok && fi.pkg == "responsemanager" && k.Name == "Loader" && strings.HasSuffix(exprText(x.Value), ".StorageReadOpener") {
					loaderIsReadOpener = true
				}
			}
			return true
		})
	}
	if !traverserOwnsRead {
		die(token.NoPos, "ipldutil no longer assigns the traverser's own loader to linkSystem.StorageReadOpener: user storage functions may now run inside LinkSystem.Load")
	}
	if !loaderIsReadOpener {
		die(token.NoPos, "responsemanager no longer passes linkSystem.StorageReadOpener as ResponseTask.Loader")
	}

	// references to link-system function fields must be accounted for
	for _, fi := range files {
		ast.Inspect(fi.ast, func(n ast.Node) bool {
			se, ok := n.(*ast.SelectorExpr)
			if !ok {
				return true
			}
			for _, f := range refFields {
				if se.Sel.Name != f {
					continue
				}
				okRef := false
				for _, r := range refsOK {
					if r.pkg == fi.pkg && r.field == f {
						okRef = true
					}
				}
				for _, c := range curated {
					if c.pkg == fi.pkg && c.callee == f {
						okRef = true
					}
				}
				if !okRef {
					die(se.Pos(), "unaccounted reference to the user-supplied function field %s in package %s", f, fi.pkg)
				}
			}
			return true
		})
	}

	// classify every call of a watched name
	var sites []site
	used := make([]int, len(curated))
	emit := func(cs *callSite, kinds []string) {
		sides := sidesOf(cs.fr.pkg)
		if cs.fr.pkg == "ipldutil" {
			sides = []string{"requestor", "responder"}
		}
		if sides == nil {
			die(cs.call.Pos(), "cannot tell the side of package %s", cs.fr.pkg)
		}
		rs := roots(cs.fr, cs.call.Pos(), false, map[int]bool{}, 0)
		if len(rs) == 0 {
			die(cs.call.Pos(), "no goroutine root found for %s", cs.fr.name)
		}
		// one row per distinct root; recovered = on every path to that root
		agg := map[string]bool{}
		var order []string
		for _, r := range rs {
			if v, ok := agg[r.root]; ok {
				agg[r.root] = v && r.recovered
			} else {
				agg[r.root] = r.recovered
				order = append(order, r.root)
			}
		}
		sort.Strings(order)
		pos := fset.Position(cs.call.Pos())
		for _, kind := range kinds {
			for _, side := range sides {
				for _, root := range order {
					sites = append(sites, site{kind, side, cs.fr.file.rel, pos.Line, exprText(cs.call.Fun), enclosingDecl(cs.fr).name, root, agg[root]})
				}
			}
		}
	}
	for _, cs := range calls {
		var ent *entry
		for i := range curated {
			c := &curated[i]
			if c.pkg == cs.fr.pkg && calleeMatches(c.callee, cs.fr.pkg, cs.name) && (c.nargs < 0 || c.nargs == len(cs.call.Args)) {
				ent = c
				used[i]++
				break
			}
		}
		if ent == nil {
			isWatched := false
			for _, w := range watched {
				if nameMatches(w, cs.name) {
					isWatched = true
				}
			}
			if cs.recv && isUserFuncField(cs.name) {
				isWatched = true
			}
			if !isWatched {
				continue
			}
			ign := false
			for _, ig := range ignored {
				if ig.pkg == cs.fr.pkg && ig.callee == cs.name && (ig.nargs < 0 || ig.nargs == len(cs.call.Args)) {
					ign = true
				}
			}
			if ign {
				continue
			}
			die(cs.call.Pos(), "new call site of a (possibly) user-supplied function: %s in package %s (%s) is neither curated nor ignored", exprText(cs.call.Fun), cs.fr.pkg, cs.fr.name)
		}
		emit(cs, ent.kinds)
		if ent.derive != nil {
			for idx, kind := range ent.derive {
				if kind == "" {
					continue
				}
				ds := derived(cs, idx)
				if len(ds) == 0 {
					die(cs.call.Pos(), "result #%d of %s (%s) is never used in a call inside %s: the translator no longer sees where the %s site is", idx, exprText(cs.call.Fun), ent.note, enclosingDecl(cs.fr).name, kind)
				}
				for _, d := range ds {
					emit(d, []string{kind})
				}
			}
		}
	}
	for i, c := range curated {
		if used[i] == 0 {
			die(token.NoPos, "curated call site disappeared: no call of %s in package %s (%s)", c.callee, c.pkg, c.note)
		}
	}
	sort.SliceStable(sites, func(i, j int) bool {
		a, b := sites[i], sites[j]
		if a.file != b.file {
			return a.file < b.file
		}
		if a.line != b.line {
			return a.line < b.line
		}
		if a.kind != b.kind {
			return a.kind < b.kind
		}
		if a.side != b.side {
			return a.side < b.side
		}
		return a.root < b.root
	})

	// ---------------------------------------------------------------- output
	var sb strings.Builder
	sb.WriteString("/-\nGenerated by translate/panicsites from the go-graphsync source tree - do not edit.\n\n")
	sb.WriteString("Every call site of a user-supplied function in per-request code, with the goroutine root it runs\n")
	sb.WriteString("on and whether a recover frame (a deferred function calling recover()) lies between that root and\n")
	sb.WriteString("the call.  Calls made by go-ipld-prime on behalf of the traverser (decoder, node reifier, chooser,\n")
	sb.WriteString("selector exploration) are attributed to the calls of LinkSystem.Load / Progress.WalkAdv in\n")
	sb.WriteString("ipldutil/traverser.go, which is sound because TraversalBuilder.Start replaces StorageReadOpener by\n")
	sb.WriteString("the traverser's own loader (checked by the translator: `traverserOwnsReadOpener`).\n-/\n")
	sb.WriteString("namespace GS.Generated.PanicSites\n\n")
	sb.WriteString("inductive Kind\n  | codec | reifier | chooser | selector\n  | storageRead | storageReadStream | storageWriteOpener | storageWriteBuffer | storageWriteCommitter\n  | selectorSpec | hook\n  deriving DecidableEq, Repr\n\n")
	sb.WriteString("inductive Side\n  | requestor | responder\n  deriving DecidableEq, Repr\n\n")
	sb.WriteString("structure Site where\n  kind : Kind\n  side : Side\n  file : String\n  line : Nat\n  callee : String\n  fn : String\n  root : String\n  recovered : Bool\n  deriving Repr\n\n")
	sb.WriteString("def table : List Site := [\n")
	for i, s := range sites {
		sep := ","
		if i == len(sites)-1 {
			sep = ""
		}
		fmt.Fprintf(&sb, "  { kind := .%s, side := .%s, file := %q, line := %d, callee := %q, fn := %q,\n    root := %q, recovered := %v }%s\n",
			s.kind, s.side, s.file, s.line, s.callee, s.fn, s.root, s.recovered, sep)
	}
	sb.WriteString("]\n\n")
	sb.WriteString("/-- ipldutil assigns the traverser's own loader to `linkSystem.StorageReadOpener`. -/\ndef traverserOwnsReadOpener : Bool := true\n\n")
	sb.WriteString("/-- responsemanager hands `linkSystem.StorageReadOpener` to the query executor as `ResponseTask.Loader`. -/\ndef responderLoaderIsReadOpener : Bool := true\n\n")
	sb.WriteString("end GS.Generated.PanicSites\n")
	fmt.Print(sb.String())
}
