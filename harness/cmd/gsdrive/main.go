// gsdrive: drives the real go-graphsync code through the verification line protocol.
//
//	gsdrive list
//	gsdrive <component> gen -seed S -n N -tier quick|thorough   > cases.txt
//	gsdrive <component> run < cases.txt                          > impl.out
package main

import (
	"bufio"
	"flag"
	"fmt"
	"os"

	"verifharness/reg"
)

func main() {
	if len(os.Args) < 2 {
		fmt.Fprintln(os.Stderr, "usage: gsdrive list | <component> gen|run [flags]")
		os.Exit(2)
	}
	if os.Args[1] == "list" {
		for _, n := range reg.Names() {
			fmt.Println(n)
		}
		return
	}
	if len(os.Args) < 3 {
		fmt.Fprintln(os.Stderr, "usage: gsdrive <component> gen|run [flags]")
		os.Exit(2)
	}
	c := reg.Get(os.Args[1])
	if c == nil {
		fmt.Fprintf(os.Stderr, "unknown component %q\n", os.Args[1])
		os.Exit(2)
	}
	w := bufio.NewWriterSize(os.Stdout, 1<<20)
	defer w.Flush()
	switch os.Args[2] {
	case "gen":
		fs := flag.NewFlagSet("gen", flag.ExitOnError)
		seed := fs.Int64("seed", 1, "PRNG seed")
		n := fs.Int("n", 100, "number of random cases")
		tier := fs.String("tier", "quick", "quick|thorough")
		fs.Parse(os.Args[3:])
		c.Gen(*seed, *n, *tier, w)
	case "run":
		cases, err := reg.ReadCases(bufio.NewReaderSize(os.Stdin, 1<<20))
		if err != nil {
			fmt.Fprintln(os.Stderr, "read:", err)
			os.Exit(2)
		}
		out := reg.NewOut(w)
		c.Run(cases, out)
		out.Finish()
	default:
		fmt.Fprintln(os.Stderr, "unknown mode", os.Args[2])
		os.Exit(2)
	}
}
