import GSProofs.C10
/-!
Definitions and general lemmas for GSProofs/C10Own.lean: the reuse-free condition, the strengthened
invariant `Inv`, and how `Inv` behaves under the primitive state changes (overwriting an object,
shrinking the task queue, terminating a response).
-/
namespace GS.C10
open GS.RespMgr GS.Generated

/-! ## the reuse-free condition -/

/-- request ID `id` is *live for peer `q`* in `s`: the table has an entry under `id` whose response
    object is served to `q`, or an executor for the task `(q, id)` still exists. -/
def liveFor (s : State) (q : Peer) (id : ReqId) : Bool :=
  (match s.lookup id with
    | some (_, o) => o.peer == q
    | none => false)
  || (findExec s.execs (q, id)).isSome

/-- the dispatch loop for a message from `q` never reaches a `new` request whose ID is live for `q`
    itself *at the moment the loop reaches it* (so `new 1; cancel 1; new 1` in one message is fine
    when the cancel really removes the response, and `new 1; new 1` is not). -/
def reqsReuseFree (q : Peer) : State → List Request → Bool
  | _, [] => true
  | s, x :: xs =>
    !(x.typ == .new && liveFor s q x.id)
    && reqsReuseFree q (handleOne RespDispatch.dispatch q s x).1 xs

/-- the state in which the message injected into the notification `neterrInj p j …` is processed
    (mirrors `notifyAt` / `notify` / `notifyErr`) -/
def injPoint (s : State) (p : Peer) (j : Nat) : Option State :=
  match (streamsOf s p)[j]? with
  | none => none
  | some k =>
    match s.obj k with
    | none => none
    | some o =>
      let s0 := s.setObj k { o with finCode := none }
      let term := match o.finCode with | some c => StatusCodes.isTerminal c | none => false
      let a := closeNetErr RespDispatch.closerKey s0 k o.id
      if cleared a.2.1 then some a.1 else some (closeTerm RespDispatch.closerKey a.1 k o.id term).1

/-- **The reuse-free guard.**  `ReuseFree s op` restricts only steps that process a message: a
    message from `q` must not carry a `new` request whose ID is live for `q` itself (`liveFor`: table
    entry served to `q`, or executor for `(q, id)`) at the point the dispatch loop reaches that
    request.  It excludes exactly a peer re-using one of its *own* live request IDs; it says nothing
    about IDs live for *other* peers (those requests are dropped by the peer guard), nothing about
    cancel / update requests, worker steps, the local API or notifications. -/
def ReuseFree (s : State) : Op → Bool
  | .msg q reqs => reqsReuseFree q s reqs
  | .neterrInj p j q reqs =>
    match injPoint s p j with
    | some si => reqsReuseFree q si reqs
    | none => true
  | _ => true

/-- `NoOwnReuse s ops`: every step of the history `ops`, run from `s`, satisfies `ReuseFree` in the
    state it is applied to. -/
def NoOwnReuse : State → List Op → Bool
  | _, [] => true
  | s, op :: ops => ReuseFree s op && NoOwnReuse (step s op).1 ops

/-! ## the strengthened invariant -/

/-- Inductive invariant of reuse-free histories.  `ex` is the task whose executor is in the middle
    of its last step (between setting the final status and FinishTask); `none` between steps.
    * `ids`: the table entry under `id` points to an object created for request `id`;
    * `pend`: a queued task `(p, id)` has its response in the table, served to `p`, in state queued;
    * `pnodup`: no task is queued twice;
    * `fin`: only a completing (or still running) response in the table has an un-notified status;
    * `exec`: an executor for `(p, id)` works on the object the table holds under `id`, which is
      served to `p`, running, with no un-notified status;
    * `enodup`: at most one executor per task. -/
structure Inv (ex : Option (Peer × ReqId)) (s : State) : Prop where
  ids : ∀ id k o, s.lookup id = some (k, o) → o.id = id
  pend : ∀ t ∈ s.pending, ∃ k o, s.lookup t.2 = some (k, o) ∧ o.peer = t.1 ∧ o.state = .queued
  pnodup : s.pending.Nodup
  fin : ∀ id k o, s.lookup id = some (k, o) → o.finCode ≠ none → o.state = .completing ∨ o.state = .running
  exec : ∀ e ∈ s.execs, ∃ o, s.lookup e.task.2 = some (e.k, o) ∧ o.peer = e.task.1
           ∧ o.state = .running ∧ (some e.task ≠ ex → o.finCode = none)
  enodup : (s.execs.map (·.task)).Nodup

/-- nothing is queued or executing under request ID `id` -/
def Quiet (s : State) (id : ReqId) : Prop :=
  (∀ t ∈ s.pending, t.2 ≠ id) ∧ (∀ e ∈ s.execs, e.task.2 ≠ id)

theorem inv_init : Inv none {} where
  ids := by intro id k o h; simp [State.lookup, Table.get] at h
  pend := by intro t h; cases h
  pnodup := List.nodup_nil
  fin := by intro id k o h; simp [State.lookup, Table.get] at h
  exec := by intro e h; cases h
  enodup := List.nodup_nil

theorem findExec_mem {l : List Exec} {t : Peer × ReqId} {e : Exec} (h : findExec l t = some e) : e ∈ l := by
  unfold findExec at h
  exact List.mem_of_find?_eq_some h

/-! ### lookups after primitive changes -/

theorem obj_setObj_self (s : State) (k : Serial) (o o' : Obj) (hk : s.obj k = some o) :
    (s.setObj k o').obj k = some o' := by
  have hlt : k < s.objs.length := (List.getElem?_eq_some_iff.mp (by simpa [State.obj] using hk)).1
  simp [State.setObj, State.obj, hlt]

theorem lookup_setObj (s : State) (k : Serial) (o o' : Obj) (hk : s.obj k = some o) (id : ReqId) :
    (s.setObj k o').lookup id =
      match s.lookup id with
      | some (k1, o1) => if k1 = k then some (k, o') else some (k1, o1)
      | none => none := by
  have htab : (s.setObj k o').table = s.table := rfl
  unfold State.lookup
  rw [htab]
  cases ht : s.table.get id with
  | none => rfl
  | some k1 =>
    by_cases h : k1 = k
    · subst h
      simp [obj_setObj_self s k1 o o' hk, hk]
    · simp only [obj_setObj_ne s k k1 o' (Ne.symm h)]
      cases s.obj k1 <;> simp [h]

/-- forward: what a lookup becomes after overwriting object `k` -/
theorem lookup_setObj_fwd (s : State) (k : Serial) (o o' : Obj) (hk : s.obj k = some o) {id : ReqId} {k1 : Serial} {o1 : Obj}
    (h : s.lookup id = some (k1, o1)) :
    (k1 = k ∧ o1 = o ∧ (s.setObj k o').lookup id = some (k, o')) ∨ (k1 ≠ k ∧ (s.setObj k o').lookup id = some (k1, o1)) := by
  rw [lookup_setObj s k o o' hk id, h]
  by_cases hk1 : k1 = k
  · left
    subst hk1
    have := (lookup_some h).2
    rw [hk] at this; cases this
    exact ⟨rfl, rfl, by simp⟩
  · right; exact ⟨hk1, by simp [hk1]⟩

/-- backward: where a lookup after overwriting object `k` comes from -/
theorem lookup_setObj_bwd (s : State) (k : Serial) (o o' : Obj) (hk : s.obj k = some o) {id : ReqId} {k1 : Serial} {o1 : Obj}
    (h : (s.setObj k o').lookup id = some (k1, o1)) :
    (k1 = k ∧ o1 = o' ∧ s.lookup id = some (k, o)) ∨ (k1 ≠ k ∧ s.lookup id = some (k1, o1)) := by
  rw [lookup_setObj s k o o' hk id] at h
  cases hl : s.lookup id with
  | none => rw [hl] at h; cases h
  | some r =>
    obtain ⟨k2, o2⟩ := r
    rw [hl] at h
    by_cases hk2 : k2 = k
    · subst hk2
      simp at h
      have := (lookup_some hl).2
      rw [hk] at this; cases this
      left; exact ⟨h.1.symm, h.2.symm, rfl⟩
    · simp [hk2] at h
      right
      obtain ⟨h1, h2⟩ := h
      subst h1; subst h2
      exact ⟨hk2, rfl⟩

/-- in a state satisfying `ids`, object `k` is the value of at most one lookup -/
theorem lookup_inj {ex : Option (Peer × ReqId)} {s : State} (hi : Inv ex s) {id id' : ReqId} {k : Serial} {o o' : Obj}
    (h : s.lookup id = some (k, o)) (h' : s.lookup id' = some (k, o')) : id = id' ∧ o = o' := by
  have h1 := (lookup_some h).2
  have h2 := (lookup_some h').2
  rw [h1] at h2; cases h2
  exact ⟨(hi.ids id k o h).symm.trans (hi.ids id' k o h'), rfl⟩

theorem no_pending_of_state {ex : Option (Peer × ReqId)} {s : State} (hi : Inv ex s) {id : ReqId} {k : Serial} {o : Obj}
    (h : s.lookup id = some (k, o)) (hs : o.state ≠ .queued) : ∀ t ∈ s.pending, t.2 ≠ id := by
  intro t ht he
  obtain ⟨k', o', hl, _, hq⟩ := hi.pend t ht
  rw [he, h] at hl; cases hl
  exact hs hq

theorem no_exec_of_state {ex : Option (Peer × ReqId)} {s : State} (hi : Inv ex s) {id : ReqId} {k : Serial} {o : Obj}
    (h : s.lookup id = some (k, o)) (hs : o.state ≠ .running) : ∀ e ∈ s.execs, e.task.2 ≠ id := by
  intro e he heq
  obtain ⟨o', hl, _, hr, _⟩ := hi.exec e he
  rw [heq, h] at hl; cases hl
  exact hs hr

theorem no_pending_of_none {ex : Option (Peer × ReqId)} {s : State} (hi : Inv ex s) {id : ReqId}
    (h : s.lookup id = none) : Quiet s id := by
  refine ⟨?_, ?_⟩
  · intro t ht he
    obtain ⟨k', o', hl, _, _⟩ := hi.pend t ht
    rw [he, h] at hl; cases hl
  · intro e he heq
    obtain ⟨o', hl, _, _, _⟩ := hi.exec e he
    rw [heq, h] at hl; cases hl

/-! ### `Inv` under primitive changes -/

/-- overwriting any object (in the table or not) without touching its peer, ID, state; the
    un-notified status is kept or cleared -/
theorem inv_setObj {ex : Option (Peer × ReqId)} {s : State} (hi : Inv ex s) (k : Serial) (o o' : Obj)
    (hk : s.obj k = some o) (hp : o'.peer = o.peer) (hid : o'.id = o.id) (hs : o'.state = o.state)
    (hf : o'.finCode = o.finCode ∨ o'.finCode = none) : Inv ex (s.setObj k o') where
  ids := by
    intro id k1 o1 h
    rcases lookup_setObj_bwd s k o o' hk h with ⟨_, h2, h3⟩ | ⟨_, h3⟩
    · rw [h2, hid]; exact hi.ids id k o h3
    · exact hi.ids id k1 o1 h3
  pend := by
    intro t ht
    obtain ⟨k1, o1, hl, hp1, hq1⟩ := hi.pend t ht
    rcases lookup_setObj_fwd s k o o' hk hl with ⟨_, h2, h3⟩ | ⟨_, h3⟩
    · subst h2; exact ⟨k, o', h3, hp.trans hp1, hs.trans hq1⟩
    · exact ⟨k1, o1, h3, hp1, hq1⟩
  pnodup := hi.pnodup
  fin := by
    intro id k1 o1 h hne
    rcases lookup_setObj_bwd s k o o' hk h with ⟨_, h2, h3⟩ | ⟨_, h3⟩
    · subst h2
      rw [hs]
      apply hi.fin id k o h3
      rcases hf with hf | hf
      · rw [← hf]; exact hne
      · exact absurd hf hne
    · exact hi.fin id k1 o1 h3 hne
  exec := by
    intro e he
    obtain ⟨o1, hl, hp1, hr1, hf1⟩ := hi.exec e he
    rcases lookup_setObj_fwd s k o o' hk hl with ⟨h1, h2, h3⟩ | ⟨_, h3⟩
    · subst h2
      refine ⟨o', by rw [h1]; exact h3, hp.trans hp1, hs.trans hr1, ?_⟩
      intro hx
      rcases hf with hf | hf
      · rw [hf]; exact hf1 hx
      · exact hf
    · exact ⟨o1, h3, hp1, hr1, hf1⟩
  enodup := hi.enodup

theorem lookup_setObj_other {ex : Option (Peer × ReqId)} {s : State} (hi : Inv ex s) {id : ReqId} {k : Serial} {o : Obj} (o' : Obj)
    (hl : s.lookup id = some (k, o)) {id' : ReqId} (hne : id' ≠ id) : (s.setObj k o').lookup id' = s.lookup id' := by
  have hk := (lookup_some hl).2
  rw [lookup_setObj s k o o' hk id']
  cases h' : s.lookup id' with
  | none => rfl
  | some r =>
    obtain ⟨k1, o1⟩ := r
    by_cases hk1 : k1 = k
    · subst hk1
      exact absurd (lookup_inj hi h' hl).1 hne
    · simp [hk1]

theorem lookup_setObj_same {s : State} {id : ReqId} {k : Serial} {o : Obj} (o' : Obj)
    (hl : s.lookup id = some (k, o)) : (s.setObj k o').lookup id = some (k, o') := by
  have hk := (lookup_some hl).2
  rw [lookup_setObj s k o o' hk id, hl]
  simp

/-- overwriting the object in the table under a quiet ID: peer and ID kept, an un-notified status
    only with state completing / running -/
theorem inv_setObj_quiet {ex : Option (Peer × ReqId)} {s : State} (hi : Inv ex s) (id : ReqId) (k : Serial) (o o' : Obj)
    (hl : s.lookup id = some (k, o)) (hq : Quiet s id) (hp : o'.peer = o.peer) (hid : o'.id = o.id)
    (hf : o'.finCode ≠ none → o'.state = .completing ∨ o'.state = .running) : Inv ex (s.setObj k o') where
  ids := by
    intro id' k1 o1 h
    by_cases hne : id' = id
    · subst hne
      rw [lookup_setObj_same o' hl] at h; cases h
      rw [hid]; exact hi.ids _ _ _ hl
    · rw [lookup_setObj_other hi o' hl hne] at h
      exact hi.ids _ _ _ h
  pend := by
    intro t ht
    have hne : t.2 ≠ id := hq.1 t ht
    obtain ⟨k1, o1, h1, h2, h3⟩ := hi.pend t ht
    exact ⟨k1, o1, by rw [lookup_setObj_other hi o' hl hne]; exact h1, h2, h3⟩
  pnodup := hi.pnodup
  fin := by
    intro id' k1 o1 h hne'
    by_cases hne : id' = id
    · subst hne
      rw [lookup_setObj_same o' hl] at h; cases h
      exact hf hne'
    · rw [lookup_setObj_other hi o' hl hne] at h
      exact hi.fin _ _ _ h hne'
  exec := by
    intro e he
    have hne : e.task.2 ≠ id := hq.2 e he
    obtain ⟨o1, h1, h2, h3, h4⟩ := hi.exec e he
    exact ⟨o1, by rw [lookup_setObj_other hi o' hl hne]; exact h1, h2, h3, h4⟩
  enodup := hi.enodup

/-- the executor of task `t` sets the final status on its object (state stays running) -/
theorem inv_setObj_fin {s : State} (hi : Inv none s) (e : Exec) (he : e ∈ s.execs) (o : Obj)
    (hk : s.obj e.k = some o) (c : Option Nat) : Inv (some e.task) (s.setObj e.k { o with finCode := c }) := by
  obtain ⟨o0, hl0, hp0, hr0, _⟩ := hi.exec e he
  have : o0 = o := by
    have := (lookup_some hl0).2
    rw [hk] at this; cases this; rfl
  subst this
  refine ⟨?_, ?_, hi.pnodup, ?_, ?_, hi.enodup⟩
  · intro id' k1 o1 h
    by_cases hne : id' = e.task.2
    · subst hne
      rw [lookup_setObj_same _ hl0] at h; cases h
      exact hi.ids _ _ o0 hl0
    · rw [lookup_setObj_other hi _ hl0 hne] at h
      exact hi.ids _ _ _ h
  · intro t ht
    have hne : t.2 ≠ e.task.2 := no_pending_of_state hi hl0 (by rw [hr0]; decide) t ht
    obtain ⟨k1, o1, h1, h2, h3⟩ := hi.pend t ht
    exact ⟨k1, o1, by rw [lookup_setObj_other hi _ hl0 hne]; exact h1, h2, h3⟩
  · intro id' k1 o1 h hne'
    by_cases hne : id' = e.task.2
    · subst hne
      rw [lookup_setObj_same _ hl0] at h; cases h
      right; exact hr0
    · rw [lookup_setObj_other hi _ hl0 hne] at h
      exact hi.fin _ _ _ h hne'
  · intro e' he'
    obtain ⟨o1, h1, h2, h3, h4⟩ := hi.exec e' he'
    by_cases hne : e'.task.2 = e.task.2
    · rw [hne, hl0] at h1
      have hko : e.k = e'.k ∧ o0 = o1 := by simpa using h1
      obtain ⟨hkk, ho⟩ := hko
      subst ho
      have ht : e'.task = e.task := Prod.ext (h2.symm.trans hp0) hne
      refine ⟨{ o0 with finCode := c }, ?_, h2, h3, ?_⟩
      · rw [hne, ← hkk]; exact lookup_setObj_same _ hl0
      · intro hx; exact absurd (by rw [ht]) hx
    · exact ⟨o1, by rw [lookup_setObj_other hi _ hl0 hne]; exact h1, h2, h3, fun _ => h4 (by simp)⟩

/-- removing queued tasks -/
theorem inv_pending_sub {ex : Option (Peer × ReqId)} {s : State} (hi : Inv ex s) (l : List (Peer × ReqId))
    (hl : l.Sublist s.pending) : Inv ex { s with pending := l } where
  ids := hi.ids
  pend := fun t ht => hi.pend t (hl.subset ht)
  pnodup := hi.pnodup.sublist hl
  fin := hi.fin
  exec := hi.exec
  enodup := hi.enodup

theorem eraseFirst_sublist (l : List (Peer × ReqId)) (x : Peer × ReqId) : (eraseFirst l x).Sublist l := by
  induction l with
  | nil => exact List.Sublist.slnil
  | cons y rest ih =>
    unfold eraseFirst
    split
    · exact List.sublist_cons_self y rest
    · exact List.Sublist.cons_cons y ih

/-- after `eraseFirst`, a duplicate-free queue no longer contains the task -/
theorem not_mem_eraseFirst {l : List (Peer × ReqId)} (h : l.Nodup) (x : Peer × ReqId) : x ∉ eraseFirst l x := by
  induction l with
  | nil => simp [eraseFirst]
  | cons y rest ih =>
    have hy : y ∉ rest := (List.nodup_cons.mp h).1
    have hr : rest.Nodup := (List.nodup_cons.mp h).2
    unfold eraseFirst
    split
    · rename_i heq; rw [← heq]; exact hy
    · rename_i hne
      intro hm
      rcases List.mem_cons.mp hm with h1 | h1
      · exact hne h1.symm
      · exact ih hr h1

theorem Table.get_del_self (t : Table) (id : ReqId) : (t.del id).get id = none := by
  induction t with
  | nil => rfl
  | cons a rest ih =>
    obtain ⟨k', v⟩ := a
    rw [Table.del_cons]
    by_cases h : k' = id
    · simp [h, ih]
    · simp [h, Table.get_cons, ih]

theorem lookup_delTable (s : State) (id id' : ReqId) :
    ({ s with table := s.table.del id } : State).lookup id' = if id' = id then none else s.lookup id' := by
  unfold State.lookup
  by_cases h : id' = id
  · subst h
    simp [Table.get_del_self]
  · simp only [h, if_false]
    rw [Table.get_del_ne s.table (Ne.symm h)]
    rfl

theorem inv_delTable {ex : Option (Peer × ReqId)} {s : State} (hi : Inv ex s) (id : ReqId) (hq : Quiet s id) :
    Inv ex { s with table := s.table.del id } where
  ids := by
    intro id' k o h
    rw [lookup_delTable] at h
    by_cases hne : id' = id
    · simp [hne] at h
    · simp [hne] at h; exact hi.ids _ _ _ h
  pend := by
    intro t ht
    have hne : t.2 ≠ id := hq.1 t ht
    obtain ⟨k1, o1, h1, h2, h3⟩ := hi.pend t ht
    exact ⟨k1, o1, by rw [lookup_delTable]; simp [hne, h1], h2, h3⟩
  pnodup := hi.pnodup
  fin := by
    intro id' k o h
    rw [lookup_delTable] at h
    by_cases hne : id' = id
    · simp [hne] at h
    · simp [hne] at h; exact hi.fin _ _ _ h
  exec := by
    intro e he
    have hne : e.task.2 ≠ id := hq.2 e he
    obtain ⟨o1, h1, h2, h3, h4⟩ := hi.exec e he
    exact ⟨o1, by rw [lookup_delTable]; simp [hne, h1], h2, h3, h4⟩
  enodup := hi.enodup

/-- terminating the response under a quiet ID -/
theorem inv_terminate {ex : Option (Peer × ReqId)} {s : State} (hi : Inv ex s) (id : ReqId) (hq : Quiet s id) :
    Inv ex (terminate s id).1 := by
  unfold terminate
  split
  · exact hi
  · rename_i k o hl
    have hk := (lookup_some hl).2
    have h1 : Inv ex (s.setObj k { o with ctxCancelled := true }) :=
      inv_setObj hi k o _ hk rfl rfl rfl (Or.inl rfl)
    exact inv_delTable h1 id hq

/-- weaken the exception: once no executor for `t` is left, `Inv (some t)` is `Inv none` -/
theorem inv_drop_ex {t : Peer × ReqId} {s : State} (hi : Inv (some t) s) (h : ∀ e ∈ s.execs, e.task ≠ t) : Inv none s where
  ids := hi.ids
  pend := hi.pend
  pnodup := hi.pnodup
  fin := hi.fin
  exec := by
    intro e he
    obtain ⟨o1, h1, h2, h3, h4⟩ := hi.exec e he
    exact ⟨o1, h1, h2, h3, fun _ => h4 (by intro hx; cases hx; exact h e he rfl)⟩
  enodup := hi.enodup

theorem inv_weaken {ex : Option (Peer × ReqId)} {s : State} (hi : Inv none s) : Inv ex s where
  ids := hi.ids
  pend := hi.pend
  pnodup := hi.pnodup
  fin := hi.fin
  exec := by
    intro e he
    obtain ⟨o1, h1, h2, h3, h4⟩ := hi.exec e he
    exact ⟨o1, h1, h2, h3, fun _ => h4 (by simp)⟩
  enodup := hi.enodup

end GS.C10
