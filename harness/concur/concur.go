// Package concur: component "concur" (property C20 — concurrent requests between two peers each
// retrieve completely).
//
// 2–3 requests in flight at once from one real requestor node to one real responder node (package
// twonode) over overlapping DAGs: every request is a (root block, selector) pair over ONE generated
// DAG, so sub-DAGs are shared, one request's DAG can be contained in another's, and the same root
// can be asked for with different selectors.  The relative speed of the requests is controlled by
// gates: the requestor's block hook per request, the responder's store read per request, and the
// requestor's store-write commit of one chosen block.  The scheduler (seeded, weighted) picks one
// enabled action at every globally quiescent point.
//
//	case <id> dag=<seed>:<maxblocks> q=<root>:<sel>,<root>:<sel>[,<root>:<sel>] start=<step>,<step>[,<step>]
//	          sched=<seed> w=<dq>,<dr>,<ww> wr=<r0>,<r1>[,<r2>] ws=<s0>,<s1>[,<s2>] qg=<bits> sg=<bits>
//	          wg=<block|-> dedup=none|same|distinct [peers=<bits>]   (bit i = 1: request i is issued by a SECOND requestor peer)
//	remote <cids|->      responder's store
//	put <cid> …          requestor's store
//	run                  -> one summary line
//
// Oracle (from the property text): every request delivers the same nodes, reports the same
// missing-block errors and the requestor ends up storing the same blocks as when each request is run
// alone between two fresh nodes with the same stores (the solo runs happen in the same process).
package concur

import (
	"bufio"
	"fmt"
	"math/rand"
	"os"
	"runtime"
	"sort"
	"strconv"
	"strings"
	"time"

	"github.com/ipfs/go-graphsync"
	"github.com/ipfs/go-graphsync/dedupkey"

	"verifharness/reg"
	tn "verifharness/twonode"
)

func init() {
	reg.Register(&reg.Component{Name: "concur", Gen: Gen, Run: Run})
}

type QSpec struct {
	Root int
	Sel  string
}

type Params struct {
	Seed   int64
	MB     int
	Q      []QSpec
	Start  []int
	Sched  int64
	W      [3]int // dq, dr, write-gate release
	WR, WS []int
	QG, SG []bool
	WG     int // block whose first store write parks (-1 none)
	Dedup  string
	Peers  []int // issuing requestor of each request: 0 = node A, 1 = node B (a second requestor peer)
}

func bits(s string, n int) ([]bool, bool) {
	if len(s) != n {
		return nil, false
	}
	out := make([]bool, n)
	for i, c := range s {
		if c != '0' && c != '1' {
			return nil, false
		}
		out[i] = c == '1'
	}
	return out, true
}

func parseHeader(h string) (Params, bool) {
	p := Params{W: [3]int{1, 1, 1}, WG: -1, Dedup: "none"}
	okDag := false
	f := strings.Fields(h)
	if len(f) < 3 {
		return p, false
	}
	kvs := map[string]string{}
	for _, t := range f[2:] {
		kv := strings.SplitN(t, "=", 2)
		if len(kv) != 2 {
			return p, false
		}
		kvs[kv[0]] = kv[1]
	}
	if v, ok := kvs["dag"]; ok {
		g := strings.Split(v, ":")
		if len(g) == 2 {
			s, e1 := strconv.ParseInt(g[0], 10, 64)
			m, e2 := strconv.Atoi(g[1])
			if e1 == nil && e2 == nil && m >= 1 && m <= 30 {
				p.Seed, p.MB, okDag = s, m, true
			}
		}
	}
	for _, t := range strings.Split(kvs["q"], ",") {
		g := strings.SplitN(t, ":", 2)
		if len(g) != 2 {
			return p, false
		}
		r, err := strconv.Atoi(g[0])
		if err != nil || r < 0 {
			return p, false
		}
		p.Q = append(p.Q, QSpec{r, g[1]})
	}
	n := len(p.Q)
	if n < 1 || n > 3 {
		return p, false
	}
	ints := func(key string, def int) ([]int, bool) {
		v, ok := kvs[key]
		if !ok {
			out := make([]int, n)
			for i := range out {
				out[i] = def
			}
			return out, true
		}
		l, ok := tn.ParseInts(v)
		return l, ok && len(l) == n
	}
	var ok bool
	if p.Start, ok = ints("start", 0); !ok {
		return p, false
	}
	if p.WR, ok = ints("wr", 1); !ok {
		return p, false
	}
	if p.WS, ok = ints("ws", 1); !ok {
		return p, false
	}
	if v, has := kvs["w"]; has {
		l, ok := tn.ParseInts(v)
		if !ok || len(l) != 3 {
			return p, false
		}
		copy(p.W[:], l)
	}
	z := strings.Repeat("0", n)
	get := func(k string) string {
		if v, has := kvs[k]; has {
			return v
		}
		return z
	}
	if p.QG, ok = bits(get("qg"), n); !ok {
		return p, false
	}
	if p.SG, ok = bits(get("sg"), n); !ok {
		return p, false
	}
	if v, has := kvs["wg"]; has && v != "-" {
		x, err := strconv.Atoi(v)
		if err != nil || x < 0 {
			return p, false
		}
		p.WG = x
	}
	if v, has := kvs["sched"]; has {
		x, err := strconv.ParseInt(v, 10, 64)
		if err != nil {
			return p, false
		}
		p.Sched = x
	}
	p.Peers = make([]int, n)
	if v, has := kvs["peers"]; has {
		b, ok := bits(v, n)
		if !ok {
			return p, false
		}
		for i, x := range b {
			if x {
				p.Peers[i] = 1
			}
		}
	}
	if v, has := kvs["dedup"]; has {
		if v != "none" && v != "same" && v != "distinct" {
			return p, false
		}
		p.Dedup = v
	}
	return p, okDag
}

// ---------------------------------------------------------------- runs

type runOut struct {
	res   []tn.Result
	store []int // requestor A's store afterwards
	storeB []int // requestor B's store afterwards
	hang  string
	sim   *tn.Sim
	steps int
}

func dedupExt(key string) graphsync.ExtensionData {
	d, err := dedupkey.EncodeDedupKey(key)
	if err != nil {
		panic(err)
	}
	return graphsync.ExtensionData{Name: graphsync.ExtensionDeDupByKey, Data: d}
}

// run the requests `which` (indices into qs) concurrently under the case's schedule (solo = free run)
func runSet(w *tn.World, qs []*tn.Query, which []int, loc, rem []int, p Params, solo bool) *runOut {
	withB := false
	for _, qi := range which {
		if p.Peers[qi] == 1 {
			withB = true
		}
	}
	s := tn.NewSimB(w, loc, rem, loc, withB, len(which))
	ro := &runOut{sim: s}
	var rr []*tn.ReqRun
	for k, qi := range which {
		var exts []graphsync.ExtensionData
		switch p.Dedup {
		case "same":
			exts = append(exts, dedupExt("shared"))
		case "distinct":
			exts = append(exts, dedupExt(fmt.Sprintf("key-%d", qi)))
		}
		node := tn.NodeA
		if p.Peers[qi] == 1 {
			node = tn.NodeB
		}
		r := s.AddRequestAt(node, qs[qi], exts...)
		rr = append(rr, r)
		if !solo {
			s.ReqHookGate[k].Enable(p.QG[qi])
			s.RespReadGate[k].Enable(p.SG[qi])
		}
	}
	if !solo && p.WG >= 0 {
		g := &tn.Gate{Name: "w"}
		g.Enable(true)
		s.WriteGate[p.WG] = g
	}
	rng := rand.New(rand.NewSource(p.Sched))
	for step := 0; ; step++ {
		for k, r := range rr {
			if !r.Started && (solo || step >= p.Start[which[k]]) {
				s.Start(r)
			}
		}
		s.Quiesce()
		ro.steps = step
		allDone, allStarted := true, true
		s.Locked(func() {
			for _, r := range rr {
				if !r.Started {
					allStarted = false
				}
				if !r.Closed() {
					allDone = false
				}
			}
		})
		type act struct {
			w int
			f func()
		}
		var en []act
		for _, d := range []int{0, 2} {
			d := d
			if s.InFlight(d) > 0 {
				en = append(en, act{p.W[0], func() { s.Deliver(d) }})
			}
		}
		for _, d := range []int{1, 3} {
			d := d
			if s.InFlight(d) > 0 {
				en = append(en, act{p.W[1], func() { s.Deliver(d) }})
			}
		}
		for k := range rr {
			k := k
			if s.ReqHookGate[k].Waiting() > 0 {
				en = append(en, act{p.WR[which[k]], func() { s.ReqHookGate[k].Release() }})
			}
			if s.RespReadGate[k].Waiting() > 0 {
				en = append(en, act{p.WS[which[k]], func() { s.RespReadGate[k].Release() }})
			}
		}
		for _, g := range s.WriteGate {
			g := g
			if g.Waiting() > 0 {
				// the gate holds the FIRST write of the block only
				en = append(en, act{p.W[2], func() { g.Enable(false) }})
			}
		}
		if len(en) == 0 {
			if !allStarted {
				continue
			}
			if !allDone {
				var open []string
				s.Locked(func() {
					for _, r := range rr {
						if !r.Closed() {
							open = append(open, fmt.Sprintf("r%d(state %d)", which[r.Idx], s.RequestorState(r)))
						}
					}
				})
				ro.hang = fmt.Sprintf("nothing left to do at step %d but the channels of %s are still open", step, strings.Join(open, ","))
			}
			break
		}
		if allDone && allStarted && s.InFlight(0)+s.InFlight(1)+s.InFlight(2)+s.InFlight(3) == 0 {
			break
		}
		total := 0
		for _, a := range en {
			total += a.w
		}
		var pick act
		if total == 0 {
			pick = en[rng.Intn(len(en))]
		} else {
			x := rng.Intn(total)
			for _, a := range en {
				if x < a.w {
					pick = a
					break
				}
				x -= a.w
			}
		}
		pick.f()
		if step > 20000 {
			ro.hang = "more than 20000 scheduler steps"
			break
		}
	}
	for _, r := range rr {
		ro.res = append(ro.res, s.ResultOf(r))
	}
	ro.store = s.StoreKeys(tn.NodeA)
	ro.storeB = s.StoreKeys(tn.NodeB)
	s.Close()
	return ro
}

// ---------------------------------------------------------------- oracle

// sharedRace: the known-finding input class of C20, decided from the harness's own event log:
// some block X was transmitted by the responder under request A (outgoing-block hook of A for X with
// bytes on the wire), afterwards reported to another request B as present WITHOUT bytes (outgoing-block
// hook of B for X, nothing on the wire: cross-request deduplication), and after that a load of X on
// the requestor was answered from the local store — which did not hold X — before the first store
// write of X was committed (A had not stored its copy yet).  Returns a description or "".
func sharedRace(s *tn.Sim, nodeOf func(req int) int) string {
	var log []tn.Event
	s.Locked(func() { log = append(log, s.Log...) })
	type hk struct{ req, seq int }
	wire := map[int][]hk{}   // block -> (request, seq) of hooks with bytes on the wire
	nowire := map[int][]hk{} // block -> (request, seq) of hooks without
	firstWrite := map[[2]int]int{} // (node, block) -> seq of the first committed write
	for _, e := range log {
		switch e.Kind {
		case tn.EvRespHook:
			if e.OnWire {
				wire[e.Cid] = append(wire[e.Cid], hk{e.Req, e.Seq})
			} else {
				nowire[e.Cid] = append(nowire[e.Cid], hk{e.Req, e.Seq})
			}
		case tn.EvWrite:
			if e.Side != tn.NodeResp {
				if _, ok := firstWrite[[2]int{e.Side, e.Cid}]; !ok {
					firstWrite[[2]int{e.Side, e.Cid}] = e.Seq
				}
			}
		}
	}
	for _, e := range log {
		if e.Kind != tn.EvRead || e.Side == tn.NodeResp || e.OK {
			continue
		}
		x := e.Cid
		if fw, ok := firstWrite[[2]int{e.Side, x}]; ok && fw < e.Seq {
			continue
		}
		for _, b := range nowire[x] {
			if b.seq > e.Seq {
				continue
			}
			for _, a := range wire[x] {
				if a.req != b.req && a.seq < b.seq && nodeOf(a.req) == e.Side && nodeOf(b.req) == e.Side {
					return fmt.Sprintf("block %d went on the wire under r%d (seq %d), r%d was then told present-without-bytes (seq %d) and a load of it hit the local store (seq %d) before r%d's copy was stored", x, a.req, a.seq, b.req, b.seq, e.Seq, a.req)
				}
			}
		}
	}
	return ""
}

func c02Class(q *tn.Query, locS, remS map[int]bool) string {
	ref := q.RefTrav(locS, remS)
	pos, n := -1, 0
	for i, st := range ref {
		if !locS[q.LT[st.Node].Block] {
			pos = i
			break
		}
		n++
	}
	if pos < 0 || n == 0 {
		return ""
	}
	if !remS[q.LT[0].Block] {
		return "concurrent-root-not-found-abort"
	}
	lacks := false
	for i := 0; i < pos; i++ {
		if !remS[q.LT[ref[i].Node].Block] {
			lacks = true
		}
	}
	if !lacks {
		return ""
	}
	nodes, _ := q.ResponderStream(remS)
	for i, nd := range nodes {
		if i >= n {
			break
		}
		if nd >= ref[pos].Node {
			return "concurrent-skip-prefix-mismatch"
		}
	}
	return ""
}

func union(a, b []int) []int {
	m := map[int]bool{}
	for _, x := range a {
		m[x] = true
	}
	for _, x := range b {
		m[x] = true
	}
	var out []int
	for x := range m {
		out = append(out, x)
	}
	sort.Ints(out)
	return out
}

// ---------------------------------------------------------------- run

func Run(cases []reg.Case, out *reg.Out) {
	runtime.GOMAXPROCS(1)
	tn.QuietLogs()
	for _, c := range cases {
		out.BeginCase(c)
		wd := time.AfterFunc(180*time.Second, func() {
			fmt.Fprintf(os.Stdout, "\n#oracle case=%s FAIL class=hang watchdog: the case did not finish within 180 s\n", c.ID)
			os.Exit(3)
		})
		runCase(c, out)
		wd.Stop()
		out.W.Flush()
	}
}

func runCase(c reg.Case, out *reg.Out) {
	p, ok := parseHeader(c.Header)
	var w *tn.World
	var qs []*tn.Query
	if ok {
		w, _ = tn.NewWorld(p.Seed, p.MB)
		for _, qsx := range p.Q {
			sel, sok := tn.SelectorByName(qsx.Sel)
			if !sok || qsx.Root >= len(w.D.Cids) {
				ok = false
				break
			}
			q, err := w.NewQuery(qsx.Root, qsx.Sel, sel)
			if err != nil {
				ok = false
				break
			}
			qs = append(qs, q)
		}
		if p.WG >= len(w.D.Cids) {
			ok = false
		}
	}
	if !ok {
		for range c.Ops {
			out.Line("bad-case")
		}
		return
	}
	var loc, rem []int
	ran := false
	for _, op := range c.Ops {
		switch op[0] {
		case "put", "remote":
			var l []int
			good := !ran
			if op[0] == "put" {
				for _, t := range op[1:] {
					n, err := strconv.Atoi(t)
					if err != nil {
						good = false
					}
					l = append(l, n)
				}
			} else if len(op) == 2 {
				var g bool
				l, g = tn.ParseInts(op[1])
				good = good && g
			} else {
				good = false
			}
			for _, n := range l {
				if n < 0 || n >= len(w.D.Cids) {
					good = false
				}
			}
			if !good {
				out.Line("bad-op")
				continue
			}
			if op[0] == "put" {
				loc = append(loc, l...)
			} else {
				rem = append(rem, l...)
			}
			out.Line("ok")
		case "run":
			if ran || len(op) != 1 {
				out.Line("bad-op")
				continue
			}
			ran = true
			judgeCase(out, w, qs, loc, rem, p)
		default:
			out.Line("bad-op")
		}
	}
}

func judgeCase(out *reg.Out, w *tn.World, qs []*tn.Query, loc, rem []int, p Params) {
	n := len(qs)
	all := make([]int, n)
	for i := range all {
		all[i] = i
	}
	conc := runSet(w, qs, all, loc, rem, p, false)
	var solo []*runOut
	soloStore := append([]int{}, loc...)
	sort.Ints(soloStore)
	soloStoreB := append([]int{}, soloStore...)
	anyB := false
	for i := 0; i < n; i++ {
		so := runSet(w, qs, []int{i}, loc, rem, p, true)
		solo = append(solo, so)
		if p.Peers[i] == 1 {
			anyB = true
			soloStoreB = union(soloStoreB, so.storeB)
		} else {
			soloStore = union(soloStore, so.store)
		}
	}
	if anyB {
		out.Cov("two-requestors")
	}
	if os.Getenv("GS_TRACE") != "" {
		for _, l := range conc.sim.Dump() {
			fmt.Fprintln(out.W, "#trace conc", l)
		}
	}
	locS, remS := tn.SetOf(loc), tn.SetOf(rem)
	sub := true
	for k := range locS {
		if !remS[k] {
			sub = false
		}
	}
	out.Cov("dedup." + p.Dedup)
	out.Cov(fmt.Sprintf("requests.%d", n))
	race := sharedRace(conc.sim, func(req int) int {
		if req >= 0 && req < n && p.Peers[req] == 1 {
			return tn.NodeB
		}
		return tn.NodeA
	})
	if race != "" {
		out.Cov("shared-race")
		out.Cov("shared-race." + p.Dedup)
	}
	known := ""
	for _, q := range qs {
		if c := c02Class(q, locS, remS); c != "" && known == "" {
			known = c
		}
	}
	cls := func(c string) string {
		if known != "" {
			return known
		}
		if race != "" {
			return "shared-block-not-yet-stored"
		}
		return c
	}
	summary := func() {
		var parts []string
		for i := 0; i < n; i++ {
			parts = append(parts, fmt.Sprintf("r%d nodes=%d/%d miss=%d/%d", i, len(conc.res[i].Nodes), len(solo[i].res[0].Nodes), len(conc.res[i].Missing), len(solo[i].res[0].Missing)))
		}
		out.Line("%s store=%s solo-store=%s steps=%d", strings.Join(parts, " "), tn.FmtInts(conc.store), tn.FmtInts(soloStore), conc.steps)
	}
	for i, so := range solo {
		if so.hang != "" {
			out.Fail(cls("baseline-hang"), "request %d alone: %s", i, so.hang)
			summary()
			return
		}
	}
	for i, so := range solo {
		if len(so.res[0].Hard) > 0 && qs[i].RefTrav(locS, remS)[0].Avail {
			out.Fail(cls("baseline-rejected"), "request %d alone failed verification: %s", i, strings.Join(so.res[0].Hard, " "))
			summary()
			return
		}
	}
	if conc.hang != "" {
		out.Fail(cls("hang"), "concurrent run: %s", conc.hang)
		summary()
		return
	}
	if !sub {
		// the requestor holds blocks the responder lacks: what a request retrieves may then
		// legitimately depend on what the other requests have stored meanwhile; a verdict is
		// given only if the solo result does not depend on it
		final := union(loc, soloStore)
		for i := 0; i < n; i++ {
			so2 := runSet(w, qs, []int{i}, final, rem, p, true)
			if so2.res[0].Diff(solo[i].res[0]) != "" || so2.hang != "" {
				out.Cov("verdict.store-sensitive")
				summary()
				return
			}
		}
	}
	out.Cov("verdict.given")
	for i := 0; i < n; i++ {
		a, b := solo[i].res[0], conc.res[i]
		if !qs[i].RefTrav(locS, remS)[0].Avail {
			a.Missing, b.Missing, a.Hard, b.Hard = nil, nil, nil, nil
		}
		if d := a.Diff(b); d != "" {
			out.Fail(cls("result-differs"), "request %d (root %d, %s) alone vs concurrently: %s%s", i, qs[i].Root, qs[i].SelName, d, ifs(race != "", " ["+race+"]"))
			summary()
			return
		}
	}
	if tn.FmtInts(conc.store) != tn.FmtInts(soloStore) {
		out.Fail(cls("store-differs"), "requestor store after the concurrent run [%s], union of the solo runs' stores [%s]", tn.FmtInts(conc.store), tn.FmtInts(soloStore))
	} else if anyB && tn.FmtInts(conc.storeB) != tn.FmtInts(soloStoreB) {
		out.Fail(cls("store-differs"), "second requestor's store after the concurrent run [%s], union of its solo runs' stores [%s]", tn.FmtInts(conc.storeB), tn.FmtInts(soloStoreB))
	}
	summary()
}

func ifs(b bool, s string) string {
	if b {
		return s
	}
	return ""
}

// ---------------------------------------------------------------- generator

func fmtBits(b []bool) string {
	var sb strings.Builder
	for _, x := range b {
		if x {
			sb.WriteByte('1')
		} else {
			sb.WriteByte('0')
		}
	}
	return sb.String()
}

func emit(wr *bufio.Writer, id string, p Params, loc, rem []int) {
	var qs []string
	for _, q := range p.Q {
		qs = append(qs, fmt.Sprintf("%d:%s", q.Root, q.Sel))
	}
	wg := "-"
	if p.WG >= 0 {
		wg = strconv.Itoa(p.WG)
	}
	pb := make([]bool, len(p.Q))
	for i := range pb {
		pb[i] = i < len(p.Peers) && p.Peers[i] == 1
	}
	fmt.Fprintf(wr, "case %s dag=%d:%d q=%s start=%s sched=%d w=%d,%d,%d wr=%s ws=%s qg=%s sg=%s wg=%s dedup=%s peers=%s\n",
		id, p.Seed, p.MB, strings.Join(qs, ","), tn.FmtInts(p.Start), p.Sched, p.W[0], p.W[1], p.W[2], tn.FmtInts(p.WR), tn.FmtInts(p.WS), fmtBits(p.QG), fmtBits(p.SG), wg, p.Dedup, fmtBits(pb))
	fmt.Fprintln(wr, "remote", tn.FmtInts(rem))
	if len(loc) > 0 {
		ss := make([]string, len(loc))
		for i, x := range loc {
			ss[i] = strconv.Itoa(x)
		}
		fmt.Fprintln(wr, "put", strings.Join(ss, " "))
	}
	fmt.Fprintln(wr, "run")
}

// genCase: an overlapping set of queries over one DAG + a schedule profile.
func genCase(r *rand.Rand, i int) (Params, []int, []int) {
	for {
		seed := r.Int63n(1 << 40)
		mb := 3 + r.Intn(7)
		w, _ := tn.NewWorld(seed, mb)
		nb := len(w.D.Cids)
		if nb < 3 {
			continue
		}
		n := 2
		if r.Intn(4) == 0 {
			n = 3
		}
		p := Params{Seed: seed, MB: mb, W: [3]int{1, 1, 1}, WG: -1, Dedup: "none"}
		rootBlk := nb - 1
		var qs []*tn.Query
		okq := true
		for k := 0; k < n; k++ {
			var q QSpec
			switch r.Intn(4) {
			case 0, 1: // same root, (possibly) another selector
				q = QSpec{rootBlk, tn.SelNames[r.Intn(len(tn.SelNames))]}
			case 2: // a sub-DAG: some other block as root
				q = QSpec{r.Intn(nb), "all"}
			default:
				q = QSpec{r.Intn(nb), tn.SelNames[r.Intn(len(tn.SelNames))]}
			}
			if k == 0 {
				q = QSpec{rootBlk, "all"}
			}
			sel, _ := tn.SelectorByName(q.Sel)
			qq, err := w.NewQuery(q.Root, q.Sel, sel)
			if err != nil || len(qq.LT) > 30 {
				okq = false
				break
			}
			p.Q = append(p.Q, q)
			qs = append(qs, qq)
		}
		if !okq {
			continue
		}
		// blocks reached by more than one request
		cnt := map[int]int{}
		for _, q := range qs {
			seen := map[int]bool{}
			for _, l := range q.LT {
				if !seen[l.Block] {
					seen[l.Block] = true
					cnt[l.Block]++
				}
			}
		}
		var shared []int
		for b, c := range cnt {
			if c > 1 {
				shared = append(shared, b)
			}
		}
		sort.Ints(shared)
		if len(shared) == 0 && r.Intn(10) != 0 {
			continue
		}
		// stores
		var loc, rem []int
		switch r.Intn(6) {
		case 0, 1, 2: // requestor empty, responder complete
			for k := 0; k < nb; k++ {
				rem = append(rem, k)
			}
		case 3: // responder misses a block
			drop := r.Intn(nb)
			for k := 0; k < nb; k++ {
				if k != drop {
					rem = append(rem, k)
				}
			}
		case 4: // requestor holds part of what the responder holds
			for k := 0; k < nb; k++ {
				if r.Intn(8) != 0 {
					rem = append(rem, k)
					if r.Intn(3) == 0 {
						loc = append(loc, k)
					}
				}
			}
		default: // arbitrary split
			for k := 0; k < nb; k++ {
				if r.Intn(3) == 0 {
					loc = append(loc, k)
				}
				if r.Intn(5) != 0 {
					rem = append(rem, k)
				}
			}
		}
		// schedule profile
		p.Sched = r.Int63n(1 << 30)
		p.Start = make([]int, n)
		p.WR, p.WS = make([]int, n), make([]int, n)
		p.QG, p.SG = make([]bool, n), make([]bool, n)
		for k := 0; k < n; k++ {
			p.WR[k], p.WS[k] = 1, 1
			p.QG[k], p.SG[k] = true, r.Intn(2) == 0
		}
		switch i % 6 {
		case 0: // lock-step
		case 1: // request 0 far ahead on the requestor
			p.WR[0] = 8
		case 2: // request 1 far ahead on the requestor
			p.WR[1] = 8
		case 3: // request 0's first shared block is held before it is stored while the others run on
			if len(shared) > 0 {
				p.WG = shared[r.Intn(len(shared))]
				p.W[2] = 0
			}
		case 4: // staggered start
			for k := 1; k < n; k++ {
				p.Start[k] = r.Intn(12)
			}
		default: // free run (no gates)
			for k := 0; k < n; k++ {
				p.QG[k], p.SG[k] = false, false
			}
		}
		if r.Intn(3) == 0 {
			p.W = [3]int{1 + r.Intn(4), 1 + r.Intn(4), p.W[2]}
		}
		switch r.Intn(5) {
		case 0:
			p.Dedup = "distinct"
		case 1:
			p.Dedup = "same"
		}
		p.Peers = make([]int, n)
		if i%7 == 6 { // one of the requests comes from a second requestor peer
			p.Peers[1+r.Intn(n-1)] = 1
		}
		return p, loc, rem
	}
}

func Gen(seed int64, n int, tier string, wr *bufio.Writer) {
	runtime.GOMAXPROCS(1)
	r := rand.New(rand.NewSource(seed))
	for i := 0; i < n; i++ {
		p, loc, rem := genCase(r, i)
		emit(wr, fmt.Sprintf("c%d", i), p, loc, rem)
	}
}
