import GSProofs.Lemmas.LinkTrackHistory
/-!
# C19 — Responder sends each block at most once per peer while it is in use

> For one requesting peer and one deduplication scope, a block is transmitted at most once while any
> request that traversed it is still in progress, and once all such requests have finished the
> responder keeps no tracking state and will send the block again to later requests.  A request is
> reported complete-full exactly when it encountered no missing block.

Model: `GS/Model/LinkTracker.lean` (`linktracker.LinkTracker`, `responseassembler.peerLinkTracker`),
tied to the Go code by the correspondence stream `linktrack`.

Vocabulary (all defined by scanning the history `h : List Op`, `Lemmas/LinkTrackHistory.lean`):
`since r h` = the operations request `r` issued since it last finished / failed / was cleared;
`inProgress r h`, `scopeOf r h` (last dedup key in `since r h`), `withBlock r h` (links reported with
data or listed in an ignore list), `metMissing r h`, `travCount r h`, `skipOf r h`.
`run h` = final model state and outputs of the model on `h` from a fresh peer tracker.

A request belongs to one dedup scope at a time, `scopeOf r h`; assigning a key moves the request —
with everything it recorded so far — into that scope (this is what `peerLinkTracker.DedupKey` does
since /repo a69c5a5).

**History.**  Before that repair `DedupKey` on a request that had already recorded something switched
the request to another tracker and left its old records behind, and the property was false of the
real code (fixed finding, `corpus/C19/fixed.cases`).  The theorems below were then `…_partial` under a
well-formedness hypothesis; they now hold for ALL histories.  Section C keeps the old behaviour as
`…_counterexample`s about the locally defined old step `oldStep`.
-/
set_option linter.unusedSimpArgs false
namespace GS.C19
open GS.LinkTrack

/-! ## A. `linktracker.LinkTracker` used directly — all histories -/

/-- **refcount_inv (bare tracker, every history).**  `BlockRefCount(l)` equals the number of
with-block traversals of `l` recorded by requests that have not finished (`lwb h` is that ledger:
`record r l true` appends `(r,l)`, `finish r` drops the entries of `r`). -/
theorem lt_refcount_inv (h : List LOp) (l : Link) : (lrun h).blockRefCount l = cntOf (lwb h) l :=
  (lsim h).blockRefCount l

/-- the same count, request by request: for any duplicate-free list `rs` of requests covering the
ledger, `BlockRefCount(l) = Σ_{r ∈ rs} (occurrences of l in r's with-block traversal list)`. -/
theorem lt_refcount_sum (h : List LOp) (l : Link) (rs : List Req) (hnd : rs.Nodup)
    (hcov : ∀ e ∈ lwb h, e.1 ∈ rs) :
    (lrun h).blockRefCount l = (rs.map (fun r => (linksOf (lwb h) r).count l)).sum := by
  rw [lt_refcount_inv]; exact cntOf_eq_sum _ rs hnd hcov l

/-- `FinishRequest(r)` returns true exactly when `r` recorded no missing link since it last finished. -/
theorem lt_finish_iff (h : List LOp) (r : Req) :
    ((lrun h).finishRequest r).2 = true ↔ ∀ l, (r, l) ∉ lms h := by
  rw [(sim_finish (lsim h) r).2]
  simp only [Bool.not_eq_true', List.any_eq_false, beq_iff_eq]
  constructor
  · intro h1 l hl; exact h1 (r, l) hl rfl
  · intro h1 e he her; obtain ⟨a, b⟩ := e; simp at her; subst her; exact h1 b he

/-- `Empty()` is true exactly when no unfinished request has recorded anything. -/
theorem lt_empty_iff (h : List LOp) : (lrun h).isEmpty = true ↔ lwb h = [] ∧ lms h = [] :=
  (lsim h).isEmpty

/-- non-vacuity: two requests hold link 0, one finishes, the count drops to 1; request 1 met a
missing link, so its `FinishRequest` is false.  (test by evaluation) -/
example :
    let h := [LOp.record 1 0 true, .record 2 0 true, .record 1 0 true, .record 1 3 false, .finish 2]
    (lrun h).blockRefCount 0 = 2 ∧ ((lrun h).finishRequest 1).2 = false ∧
      (lrun (h ++ [.finish 1])).isEmpty = true := by decide

/-! ## B. the per-peer tracker behind `ResponseAssembler` -/

/-- **Refinement (every history).**  Every output of the model — each send decision with its block
index, each completeness flag — equals the output of the naive set-based specification `Spec`
(no reference counts, no per-scope trackers). -/
theorem refines (h : List Op) : (run h).2 = (Spec.runFrom {} h).2 :=
  (run_refines h).2

/-- `getLinkTracker` never dereferences a missing alt tracker — **every history**, no hypothesis. -/
theorem alt_present (h : List Op) (r : Req) (k : Key) (hk : aget (run h).1.dedupKeys r = some k) :
    (aget (run h).1.alts k).isSome = true := by
  have hR := (run_refines h).1
  exact (hR.al k).2 ⟨r, by rw [← hR.dk r, hk]⟩

/-- **refcount_inv.**  After any history the reference count of link `l` in the tracker of
scope `s` equals the number of occurrences of `l` in the with-block traversal lists of the
in-progress requests of that scope (`rs` is any duplicate-free list containing them). -/
theorem refcount_inv (h : List Op) (s : Option Key) (l : Link)
    (rs : List Req) (hnd : rs.Nodup) (hcov : ∀ r, inProgress r h = true → r ∈ rs) :
    ((run h).1.scopeTracker s).blockRefCount l =
      (rs.map (fun r => if scopeOf r h = s then (withBlock r h).count l else 0)).sum := by
  have hR := (run_refines h).1
  rw [(hR.tr s).blockRefCount l]
  have hc : ∀ e ∈ proj (specRun h).wb s, e.1 ∈ rs := by
    intro e he
    apply hcov
    have hmem := ((char_specRun h e.1).wb e.2).1 ⟨s, mem_proj.1 he⟩
    unfold inProgress
    cases hsn : since e.1 h with
    | nil => rw [hsn] at hmem; simp at hmem
    | cons _ _ => rfl
  rw [cntOf_eq_sum _ rs hnd hc l]
  congr 1
  apply List.map_congr_left
  intro r _
  rw [linksOf_proj (specRun h).wb (specRun h).scope hR.jw s r, reqLinks_specRun]
  have : (specRun h).scope r = scopeOf r h := (char_specRun h r).scope
  rw [this]
  split <;> simp

/-- the with-block traversal list the tracker of `r`'s scope stores for `r` is `withBlock r h`. -/
theorem links_inv (h : List Op) (r : Req) :
    (aget ((run h).1.scopeTracker (scopeOf r h)).linksByReq r).getD [] = withBlock r h := by
  have hR := (run_refines h).1
  rw [(hR.tr _).links r, encL_getD, linksOf_proj (specRun h).wb (specRun h).scope hR.jw, reqLinks_specRun]
  simp [(char_specRun h r).scope, scopeOf]

/-- **The send decision, exactly.**  After any history, reporting link `l` for request `r`
is answered with "send the block" iff the block is present, `r` is past its
do-not-send-first-blocks window, and no in-progress request of `r`'s scope (including `r`) has
traversed `l` with its block.  The block index is the number of links `r` reported so far. -/
theorem send_iff (h : List Op) (r : Req) (l : Link) (b : Bool) :
    ∃ s, (step (run h).1 (.trav r l b)).2 = .sent s (travCount r h + 1) ∧
      (s = true ↔ (b = true ∧ skipOf r h < ((travCount r h + 1 : Nat) : Int) ∧
                   ∀ r', scopeOf r' h = scopeOf r h → l ∉ withBlock r' h)) := by
  have hR := (run_refines h).1
  have hch := char_specRun h r
  have hcnt : ((specRun h).cnt r).getD 0 = travCount r h := hch.cnt
  have hskp : ((specRun h).skp r).getD 0 = skipOf r h := hch.skp
  have hsr : (specRun h).scope r = scopeOf r h := hch.scope
  refine ⟨_, by rw [(R_trav hR r l b).2]; simp only [Spec.step]; rw [hcnt], ?_⟩
  rw [hskp]
  simp only [Bool.and_eq_true, decide_eq_true_eq, Bool.not_eq_true', Spec.inUse, List.any_eq_false,
    beq_iff_eq, not_and, and_assoc]
  refine and_congr_right (fun _ => and_congr_right (fun _ => ?_))
  constructor
  · intro h1 r' hsc hl
    obtain ⟨s', hs'⟩ := ((char_specRun h r').wb l).2 hl
    have hj := hR.jw _ hs'
    simp only at hj
    rw [(char_specRun h r').scope] at hj
    refine h1 _ hs' ?_ rfl
    simp only
    rw [hj, hsr]; exact hsc
  · intro h1 e he hsc hl
    have hj := hR.jw e he
    have h2 : (specRun h).scope e.2.1 = scopeOf e.2.1 h := (char_specRun h e.2.1).scope
    refine h1 e.2.1 (by rw [← h2, ← hsr, ← hj, hsc]) ?_
    apply ((char_specRun h e.2.1).wb l).1
    refine ⟨e.1, ?_⟩
    obtain ⟨a, b', c⟩ := e
    simp only at hl; subst hl; exact he

/-- **at_most_once.**  After any history `traverse` returns `send = true` for link `l` and
a request of scope `k` only if no in-progress request of scope `k` has traversed `l` with a block —
whether that block was sent, suppressed, skipped (do-not-send-first-blocks) or listed in an ignore
list. -/
theorem at_most_once (h : List Op) (r : Req) (l : Link) (b : Bool) (i : Nat)
    (hs : (step (run h).1 (.trav r l b)).2 = .sent true i) :
    b = true ∧ ∀ r', scopeOf r' h = scopeOf r h → l ∉ withBlock r' h := by
  obtain ⟨s, h1, h2⟩ := send_iff h r l b
  rw [h1] at hs
  simp only [Out.sent.injEq] at hs
  have := h2.1 hs.1
  exact ⟨this.1, this.2.2⟩

/-- **…hence between two sends of `l` in one scope every request that traversed it has ended.**
If after `g` request `r'` has traversed `l` with a block (for instance it was just sent `l`), and
after the continuation `g'` the block `l` is sent to a request of the scope `r'` is then in, then
`g'` contains a finish / finish-with-error / clear of `r'`. -/
theorem between_sends (g g' : List Op) (r' r2 : Req) (l : Link) (b2 : Bool) (i2 : Nat)
    (htrav : l ∈ withBlock r' g)
    (hs2 : (step (run (g ++ g')).1 (.trav r2 l b2)).2 = .sent true i2)
    (hsc : scopeOf r' (g ++ g') = scopeOf r2 (g ++ g')) :
    ∃ o ∈ g', o.req = r' ∧ o.isEnd = true := by
  apply Classical.byContradiction
  intro hno
  have hne : ∀ o ∈ g', ¬ (o.req = r' ∧ o.isEnd = true) := fun o ho hc => hno ⟨o, ho, hc⟩
  have hp := persist g g' r' l htrav hne
  exact (at_most_once (g ++ g') r2 l b2 i2 hs2).2 r' hsc hp

/-- **no_residue.**  When every request that was started has finished, failed or been cleared, the
peer tracker is literally the fresh tracker: `dedupKeys`, `altTrackers`, `blockSentCount`,
`skipFirstBlocks` are empty and the default tracker's three maps are empty. -/
theorem no_residue (h : List Op) (hfin : allFinished h) : (run h).1 = init := by
  have hR := (run_refines h).1
  have hnil : ∀ r, since r h = [] := by
    intro r
    have := hfin r
    unfold inProgress at this
    cases hs : since r h with
    | nil => rfl
    | cons _ _ => rw [hs] at this; simp at this
  have hidle := fun r => (char_specRun h r).idle (hnil r)
  have hwb : (specRun h).wb = [] := by
    cases hw : (specRun h).wb with
    | nil => rfl
    | cons e t =>
      have := ((char_specRun h e.2.1).wb e.2.2).1 ⟨e.1, by rw [hw]; exact List.mem_cons_self⟩
      rw [hnil] at this; simp at this
  have hms : (specRun h).ms = [] := by
    cases hm : (specRun h).ms with
    | nil => rfl
    | cons e t =>
      exact absurd (hnil e.2.1) ((char_specRun h e.2.1).ms e.2.2 ⟨e.1, by rw [hm]; exact List.mem_cons_self⟩)
  have h1 : (run h).1.dedupKeys = [] := eq_nil_of_aget_none _ (fun r => by rw [hR.dk r, (hidle r).1])
  have h2 : (run h).1.sentCount = [] := eq_nil_of_aget_none _ (fun r => by rw [hR.sc r, (hidle r).2.1])
  have h3 : (run h).1.skipFirst = [] := eq_nil_of_aget_none _ (fun r => by rw [hR.sk r, (hidle r).2.2])
  have h4 : (run h).1.alts = [] := by
    apply eq_nil_of_aget_isSome_false
    intro k
    cases hk : (aget (run h).1.alts k).isSome
    · rfl
    · obtain ⟨r, hr⟩ := (hR.al k).1 hk
      rw [(hidle r).1] at hr; simp at hr
  have h5 : (run h).1.main = {} := by
    have := hR.tr none
    rw [hwb, hms] at this
    exact Sim.eq_empty this
  generalize (run h).1 = p at *
  cases p
  simp_all [init]

/-- **resend.**  After that (every started request ended), a request — in the default scope or after
choosing any dedup key — that reports a present link `l` not in its ignore list and outside its skip
window is sent the block again.  (The general form, for states where other requests are still in
progress, is the `←` direction of `send_iff`.) -/
theorem resend (h : List Op) (hfin : allFinished h) (r : Req) (l : Link) (k : Key) :
    (step (run h).1 (.trav r l true)).2 = .sent true 1 ∧
    (runFrom (run h).1 [.dedup r k, .trav r l true]).2 = [.ok, .sent true 1] := by
  rw [no_residue h hfin]
  constructor
  · rfl
  · have hset : (init.setDedupKey r k) =
        { main := {}, alts := [(k, {})], dedupKeys := [(r, k)], sentCount := [], skipFirst := [] } := by
      simp [init, PeerTracker.setDedupKey, PeerTracker.dedupKey, LinkTracker.moveRequest,
        LinkTracker.finishRequest, PeerTracker.scopeTracker, PeerTracker.setScopeTracker, aget, aset, aerase]
    simp [runFrom, step, hset, PeerTracker.traverse, PeerTracker.trackerOf,
      PeerTracker.scopeTracker, PeerTracker.setTracker, PeerTracker.setScopeTracker, aget_aset, aget_cons,
      LinkTracker.blockRefCount]

/-- **complete_iff.**  After any history `FinishTracking(r)` returns true — the response
status is `RequestCompletedFull` rather than `RequestCompletedPartial` — exactly when `r` reported no
link without data since it began. -/
theorem complete_iff (h : List Op) (r : Req) :
    (step (run h).1 (.finish r)).2 = .done (!metMissing r h) := by
  have hR := (run_refines h).1
  simp only [step]
  rw [(R_finish hR r).2, (char_specRun h r).miss]
  rfl

/-! ## C. the behaviour before the repair (/repo a69c5a5), kept as counterexamples

`oldStep` is the model of the code before the repair: `DedupKey` only assigned the key and created
the bucket (`PeerTracker.dedupKey`); every other operation is unchanged. -/

def oldStep (p : PeerTracker) : Op → PeerTracker × Out
  | .dedup r k => (p.dedupKey r k, .ok)
  | o => step p o

def oldRunFrom (p : PeerTracker) : List Op → PeerTracker × List Out
  | [] => (p, [])
  | o :: os =>
    let (p1, out) := oldStep p o
    let (p2, outs) := oldRunFrom p1 os
    (p2, out :: outs)

def oldRun (h : List Op) : PeerTracker × List Out := oldRunFrom init h

/-- OLD code: request 1 is sent block 0 in the default scope, is then given a dedup key, and
finishes: every started request has finished, yet the default tracker still holds request 1's record
(a reference count of 1 for block 0); the repaired model ends in the fresh state. -/
theorem no_residue_counterexample :
    let h := [Op.trav 1 0 true, .dedup 1 7, .finish 1]
    allFinished h ∧ (oldRun h).1 ≠ init ∧ (oldRun h).1.main.blockRefCount 0 = 1 ∧ (run h).1 = init := by
  refine ⟨?_, by decide, by decide, by decide⟩
  intro r
  by_cases hr : r = 1
  · subst hr; decide
  · have : ¬ 1 = r := fun h2 => hr h2.symm
    simp [inProgress, since, sinceStep, Op.req, this]

/-- OLD code: … so a later request was never sent block 0 again; now it is. -/
theorem resend_counterexample :
    let h := [Op.trav 1 0 true, .dedup 1 7, .finish 1]
    (oldStep (oldRun h).1 (.trav 2 0 true)).2 = .sent false 1 ∧
    (step (run h).1 (.trav 2 0 true)).2 = .sent true 1 := by
  decide

/-- OLD code: request 1 meets a missing block, is then given a dedup key, and was reported
complete-full; now it is reported partial. -/
theorem complete_iff_counterexample :
    let h := [Op.trav 1 0 false, .dedup 1 7]
    (oldStep (oldRun h).1 (.finish 1)).2 = .done true ∧ metMissing 1 h = true ∧
    (step (run h).1 (.finish 1)).2 = .done false := by decide

/-- OLD code: request 1 is sent block 0 in the default scope and moves to scope 7 leaving its record
behind; request 2 of scope 7 is then sent block 0 although request 1 — now of scope 7, in progress —
has traversed it.  The repaired model suppresses that second transmission. -/
theorem at_most_once_counterexample :
    let h := [Op.trav 1 0 true, .dedup 1 7, .dedup 2 7]
    (oldStep (oldRun h).1 (.trav 2 0 true)).2 = .sent true 1 ∧
    scopeOf 1 h = scopeOf 2 h ∧ 0 ∈ withBlock 1 h ∧ inProgress 1 h = true ∧
    (step (run h).1 (.trav 2 0 true)).2 = .sent false 1 := by
  decide

/-! ## D. non-vacuity (tests by evaluation of concrete histories) -/

/-- a history with three requests, two scopes, an ignore list, a skip window, a missing block and a
dedup key assigned in mid-request (request 3 joins scope 7 after it traversed blocks 0 and 1). -/
def sample : List Op :=
  [.dedup 1 7, .dedup 2 7, .ignore 2 [4], .skip 3 1,
   .trav 1 0 true, .trav 2 0 true, .trav 3 0 true, .trav 3 1 true, .trav 1 4 true, .trav 2 5 false,
   .dedup 3 7]

/-- outputs: 1 gets block 0; 2 (same scope) does not; 3 (default scope) skips its first block, gets
its second; block 4 is on 2's ignore list so 1 is not sent it. -/
example : (run sample).2 =
    [.ok, .ok, .ok, .ok, .sent true 1, .sent false 1, .sent false 1, .sent true 2, .sent false 2, .sent false 2,
     .ok] := by
  decide
/-- `refcount_inv` is about non-trivial counts: block 0 has three holders in scope 7 once request 3
has moved there, and the default tracker is empty again. -/
example : ((run sample).1.scopeTracker (some 7)).blockRefCount 0 = 3 ∧
    ((run sample).1.scopeTracker none).blockRefCount 0 = 0 ∧ (run sample).1.main = {} ∧
    scopeOf 1 sample = some 7 ∧ scopeOf 2 sample = some 7 ∧ scopeOf 3 sample = some 7 ∧
    withBlock 2 sample = [4, 0] ∧ withBlock 3 sample = [0, 1] ∧ inProgress 3 sample = true := by decide
/-- `at_most_once` / `send_iff`: the hypothesis "send = true" is met (request 3, new block 2) and so is
"send = false because in use" (request 2, block 1, which only request 3 brought into scope 7). -/
example : (step (run sample).1 (.trav 3 2 true)).2 = .sent true 3 ∧
    (step (run sample).1 (.trav 2 1 true)).2 = .sent false 3 := by decide
/-- `complete_iff`: both values occur. -/
example : (step (run sample).1 (.finish 2)).2 = .done false ∧ (step (run sample).1 (.finish 1)).2 = .done true := by
  decide
/-- `between_sends`: block 0 is sent to 1; 1, 2 and 3 (its holders in scope 7) end; then it is sent to
request 4 of scope 7. -/
example :
    let g := sample
    let g' := [Op.finish 1, .clear 2, .finishErr 3, .dedup 4 7]
    0 ∈ withBlock 1 g ∧ (step (run (g ++ g')).1 (.trav 4 0 true)).2 = .sent true 1 := by decide
/-- `no_residue` / `resend`: a non-trivial history after which everything has ended. -/
example :
    let h := sample ++ [.finish 1, .clear 2, .finishErr 3]
    (run h).1 = init ∧ inProgress 1 h = false ∧ inProgress 2 h = false ∧ inProgress 3 h = false := by
  decide

/-! ## E. compatibility names for files written before the repair -/

/-- `send_iff` under its former name and signature (`WF` is now the trivial predicate). -/
theorem send_iff_partial (h : List Op) (_hwf : WF h) (r : Req) (l : Link) (b : Bool) :
    ∃ s, (step (run h).1 (.trav r l b)).2 = .sent s (travCount r h + 1) ∧
      (s = true ↔ (b = true ∧ skipOf r h < ((travCount r h + 1 : Nat) : Int) ∧
                   ∀ r', scopeOf r' h = scopeOf r h → l ∉ withBlock r' h)) :=
  send_iff h r l b

end GS.C19
