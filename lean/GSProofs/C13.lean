import GSProofs.Lemmas.AllocatorChoice
/-!
# C13 — Allocator never exceeds its limits and accounts memory exactly

Property theorems only (helper lemmas live in `GSProofs/Lemmas/Allocator*.lean`).

Setting.  `GS.Alloc` (lean/GS/Model/Allocator.lean) mirrors `/repo/allocator/allocator.go`.
All theorems quantify over
* every configuration `mt mp < 2^64` (`W = 2^64`; the Go fields are `uint64`),
* every history `ops : List Op` (any length, any peers, any amounts, any tickets) — phrased through
  `Reachable pick mt mp s  :=  ∃ ops, s = (run pick (init mt mp) ops).1`, so a statement about all
  reachable states is a statement about the state after *every prefix* of every history,
* every `pick : Pick` that is `Admissible`: the only thing assumed of the priority queue's `Peek`
  is that it returns *some* comparator-minimal element (`pickMin_admissible` shows that the
  executable instance used by the correspondence check is one of them).

Property text: "Under any sequence of allocations and releases from any peers, (S1) memory granted
for queued response data never exceeds the configured total or per-peer limits, and (S2) reported
totals always equal what was granted minus what was released (a release never takes a peer below
zero). (S3) Releasing a peer returns all of its memory, and (S4) once everything is released
nothing is reported allocated or pending."
-/
namespace GS.C13
open GS.Alloc

/-- `fits` (Go: `fits(current, amount, max)`) is exactly the overflow-free `current + amount ≤ max`. -/
theorem fits_iff (c a m : Nat) : fits c a m = true ↔ c + a ≤ m := GS.Alloc.fits_iff c a m

section
variable {pick : Pick} (hp : Admissible pick) {mt mp : Nat} (ht : mt < W) (hm : mp < W)
include hp ht hm

/-- **(S1) limits.**  In every reachable state the global total is within `maxTotal` and every
    peer's total is within `maxPeer` — both for the internal fields and for the public
    observables `Stats().TotalAllocatedAllPeers` and `AllocatedForPeer(p)`. -/
theorem limits {s : State} (h : Reachable pick mt mp s) :
    s.total ≤ mt ∧ (∀ st ∈ s.peers, st.total ≤ mp) ∧
    (stats s).totalAllocated ≤ mt ∧ (∀ p, allocatedFor s p ≤ mp) := by
  obtain ⟨hi, hT, hP⟩ := h.inv hp ht hm
  have h1 : s.total ≤ mt := hT ▸ hi.wf.limT
  have h2 : ∀ st ∈ s.peers, st.total ≤ mp := fun st hst => hP ▸ hi.wf.limP st hst
  refine ⟨h1, h2, h1, ?_⟩
  intro p
  unfold allocatedFor
  cases hf : findPeer s.peers p with
  | none => exact Nat.zero_le _
  | some st => exact h2 st (findPeer_some hf).1

/-- **(S2, first half) sum invariant.**  The global counter is exactly the sum of the per-peer
    counters, peer entries are unique, and the reported total is the sum of `AllocatedForPeer`
    over the peers that have an entry (all other peers report 0). -/
theorem sum_invariant {s : State} (h : Reachable pick mt mp s) :
    s.total = (s.peers.map (·.total)).sum ∧ (s.peers.map (·.id)).Nodup ∧
    (stats s).totalAllocated = ((s.peers.map (·.id)).map (allocatedFor s)).sum ∧
    (∀ p, p ∉ s.peers.map (·.id) → allocatedFor s p = 0) := by
  obtain ⟨hi, _, _⟩ := h.inv hp ht hm
  refine ⟨hi.wf.sum, hi.wf.nodup, ?_, ?_⟩
  · show s.total = _
    rw [hi.wf.sum, map_total_eq hi.wf]
  · intro p hp'
    unfold allocatedFor
    cases hf : findPeer s.peers p with
    | none => rfl
    | some st =>
      have := findPeer_some hf
      exact absurd (List.mem_map.mpr ⟨st, this.1, this.2⟩) hp'

/-- **No `uint64` addition ever wraps.**  Every `add64` of the model (there are four: two in
    `alloc`, two in `loopStep`) is evaluated under the guard `fits current amount max` with
    `max ∈ {maxTotal, maxPeer}`; in every reachable state and in every state inside the wake-up
    loop such a guarded `add64` is the exact sum.  (`alloc_spec`, `loopStep_cases` then describe
    the successor states with plain `+`; the `ledger` theorem below is the semantic consequence.) -/
theorem no_wrap {s : State} (h : Reachable pick mt mp s ∨ LoopState pick mt mp s) (c a : Nat) :
    (fits c a s.maxTotal = true → add64 c a = c + a) ∧
    (fits c a s.maxPeer = true → add64 c a = c + a) := by
  have hc : s.maxTotal = mt ∧ s.maxPeer = mp := by
    rcases h with h | h
    · exact (h.inv hp ht hm).2
    · exact (h.wf hp ht hm).2
  rw [hc.1, hc.2]
  constructor
  · intro hf; exact add64_eq_add (Nat.lt_of_le_of_lt ((GS.Alloc.fits_iff _ _ _).mp hf) ht)
  · intro hf; exact add64_eq_add (Nat.lt_of_le_of_lt ((GS.Alloc.fits_iff _ _ _).mp hf) hm)

/-- **No `uint64` addition ever wraps, as an equality of models.**  `allocPlain` / `loopStepPlain`
    (GSProofs/Lemmas/AllocatorReach.lean) are verbatim copies of the only two model functions that
    contain `add64`, with `add64` replaced by `+`.  In every reachable state and every state inside
    the wake-up loop they coincide with the originals. -/
theorem add64_is_plus {s : State} (h : Reachable pick mt mp s ∨ LoopState pick mt mp s) :
    (∀ p a t, alloc s p a t = allocPlain s p a t) ∧ loopStep pick s = loopStepPlain pick s := by
  have hc : s.maxTotal = mt ∧ s.maxPeer = mp := by
    rcases h with h | h
    · exact (h.inv hp ht hm).2
    · exact (h.wf hp ht hm).2
  exact ⟨fun p a t => alloc_eq_plain (hc.1 ▸ ht) (hc.2 ▸ hm) p a t,
    loopStep_eq_plain (hc.1 ▸ ht) (hc.2 ▸ hm) pick⟩

/-- **(S2) ledger / conservation, general form.**  Start in any reachable state `s`, run any
    further history `ops`.  Replaying the emitted events of peer `p` on an exact natural-number
    ledger that starts at `AllocatedForPeer(p)` — `granted p _ a` adds `a`, `released p a`
    subtracts `a` and the replay *fails* if that would go below zero — succeeds (so **no release
    ever takes a peer below zero**) and ends exactly at the new `AllocatedForPeer(p)`. -/
theorem ledger_from {s : State} (h : Reachable pick mt mp s) (ops : List Op) (p : Nat) :
    replayFrom p (allocatedFor s p) (run pick s ops).2 = some (allocatedFor (run pick s ops).1 p) :=
  run_ledger hp (h.inv hp ht hm).1 ops p

/-- **(S2) ledger / conservation over a whole history** (from `NewAllocator`, ledger starts at 0). -/
theorem ledger (ops : List Op) (p : Nat) :
    replayFrom p 0 (run pick (init mt mp) ops).2 = some (allocatedFor (run pick (init mt mp) ops).1 p) :=
  run_ledger hp (Inv.init ht hm) ops p

/-- **(S2) as sums:** reported = granted − released, with the released amounts being the clamped
    amounts actually subtracted (see `release_clamped`). -/
theorem ledger_sums (ops : List Op) (p : Nat) :
    allocatedFor (run pick (init mt mp) ops).1 p + releasedSum p (run pick (init mt mp) ops).2
      = grantedSum p (run pick (init mt mp) ops).2 := by
  have := replayFrom_sums (ledger hp ht hm ops p)
  omega

/-- **(S2) the clamp.**  `ReleaseBlockMemory(p, a)` on a peer with an entry gives back exactly
    `min a AllocatedForPeer(p)` (this is the amount carried by the `released` event), never more
    than the peer holds; all other events of that step are grants made by the wake-up loop.
    On a peer without entry it is an error and changes nothing. -/
theorem release_clamped {s : State} (h : Reachable pick mt mp s) (p a : Nat) :
    (findPeer s.peers p = none ∧ release pick s p a = (s, [Event.errNoPeer])) ∨
    (∃ evs, (release pick s p a).2 = Event.released p (min a (allocatedFor s p)) :: evs ∧
      min a (allocatedFor s p) ≤ allocatedFor s p ∧
      ∀ e ∈ evs, ∃ q t b, e = Event.granted q t b) := by
  obtain ⟨hi, _, _⟩ := h.inv hp ht hm
  rcases release_spec pick hi.wf p a with h | ⟨st, s1, hf, hw1, hr, _⟩
  · exact Or.inl h
  · right
    refine ⟨_, by rw [hr]; rfl, Nat.min_le_right _ _, processPending_events hp hw1⟩

/-- **(S3) releasing a peer returns all of its memory.**  After `ReleasePeerMemory(p)`:
    `AllocatedForPeer(p) = 0`, `p` has no entry and hence no pending allocation; if `p` had an
    entry, the step gave back exactly `AllocatedForPeer(p)` (event `released`), every waiting
    ticket of `p` got `failed` *in that step*, and nothing is granted to `p` in that step. -/
theorem releasePeer_zero {s : State} (h : Reachable pick mt mp s) (p : Nat) :
    allocatedFor (releasePeer pick s p).1 p = 0 ∧
    pendingOf (releasePeer pick s p).1 p = [] ∧
    findPeer (releasePeer pick s p).1.peers p = none ∧
    (findPeer s.peers p ≠ none → Event.released p (allocatedFor s p) ∈ (releasePeer pick s p).2) ∧
    (∀ pa ∈ pendingOf s p, Event.failed p pa.ticket ∈ (releasePeer pick s p).2) ∧
    (∀ t a, Event.granted p t a ∉ (releasePeer pick s p).2) := by
  obtain ⟨hi, _, _⟩ := h.inv hp ht hm
  rcases releasePeer_spec pick hi.wf p with ⟨hf, hr⟩ | ⟨st, s1, hf, hw1, hr, _, _, hnone, _⟩
  · rw [hr]
    refine ⟨?_, ?_, hf, fun hne => absurd hf hne, ?_, ?_⟩
    · unfold allocatedFor; rw [hf]
    · unfold pendingOf; rw [hf]
    · intro pa hpa; unfold pendingOf at hpa; rw [hf] at hpa; cases hpa
    · intro t a hmem; simp at hmem
  · have habs := processPending_absent hp hw1 hnone
    rw [hr]
    refine ⟨?_, ?_, habs.1, ?_, ?_, ?_⟩
    · unfold allocatedFor; rw [habs.1]
    · unfold pendingOf; rw [habs.1]
    · intro _; simp [allocatedFor_eq]
    · intro pa hpa
      rw [pendingOf_eq] at hpa
      apply List.mem_append_left
      apply List.mem_cons_of_mem
      exact List.mem_map.mpr ⟨pa, hpa, rfl⟩
    · intro t a hmem
      rcases List.mem_append.mp hmem with hm' | hm'
      · rcases List.mem_cons.mp hm' with hm' | hm'
        · cases hm'
        · obtain ⟨pa, _, hpa⟩ := List.mem_map.mp hm'; cases hpa
      · exact habs.2 t a hm'

/-- **(S4) drained.**  In a reachable state, if every peer's allocation is 0 and nothing is
    waiting — which is what "everything is released" means for the observables — then `Stats()`
    reports nothing allocated and nothing pending. -/
theorem drained {s : State} (h : Reachable pick mt mp s)
    (hz : ∀ p, allocatedFor s p = 0) (hn : ∀ p, pendingOf s p = []) :
    stats s = ⟨0, 0, 0⟩ := by
  obtain ⟨hi, _, _⟩ := h.inv hp ht hm
  have htot : s.total = 0 := by
    rw [hi.wf.sum]
    apply sum_eq_zero_of_forall
    intro st hst
    have := hz st.id
    rw [allocatedFor_eq, totalIn_of_mem hi.wf.nodup hst] at this
    exact this
  have hpend : ∀ st ∈ s.peers, st.pending = [] := by
    intro st hst
    have := hn st.id
    rw [pendingOf_eq, pendingIn_of_mem hi.wf.nodup hst] at this
    exact this
  have hfil : s.peers.filter (fun st => decide (peerPendingBytes st > 0)) = [] := by
    apply List.filter_eq_nil_iff.mpr
    intro st hst
    simp [peerPendingBytes, hpend st hst]
  unfold stats
  simp only [hfil, htot]
  rfl

/-- **(S4), operational form: "once everything is released".**  From any reachable state, calling
    `ReleasePeerMemory` for a list `L` of peers that covers every peer with an entry (in any order,
    with repetitions or unknown peers allowed) leaves no entry at all, and `Stats()` reports
    nothing allocated and nothing pending. -/
theorem drained_after_releasing_all {s : State} (h : Reachable pick mt mp s) (L : List Nat)
    (hL : ∀ st ∈ s.peers, st.id ∈ L) :
    (run pick s (L.map Op.releasePeer)).1.peers = [] ∧
    stats (run pick s (L.map Op.releasePeer)).1 = ⟨0, 0, 0⟩ := by
  have key : ∀ (L : List Nat) (s : State), Reachable pick mt mp s →
      (∀ q, q ∈ L ∨ findPeer s.peers q = none) →
      (run pick s (L.map Op.releasePeer)).1.peers = [] := by
    intro L
    induction L with
    | nil =>
      intro s _ hq
      exact peers_nil_of_all_absent (fun q => (hq q).resolve_left (by simp))
    | cons p L ih =>
      intro s hr hq
      show (run pick (releasePeer pick s p).1 (L.map Op.releasePeer)).1.peers = []
      apply ih _ (hr.next (Op.releasePeer p))
      intro q
      rcases hq q with hq | hq
      · rcases List.mem_cons.mp hq with hq | hq
        · exact Or.inr (releasePeer_absent hp (hr.inv hp ht hm).1.wf p q (Or.inl hq))
        · exact Or.inl hq
      · exact Or.inr (releasePeer_absent hp (hr.inv hp ht hm).1.wf p q (Or.inr hq))
  have he := key L s h (by
    intro q
    cases hf : findPeer s.peers q with
    | none => exact Or.inr rfl
    | some st => have := findPeer_some hf; exact Or.inl (this.2 ▸ hL st this.1))
  refine ⟨he, ?_⟩
  apply drained hp ht hm (h.run _)
  · intro p; simp [allocatedFor, he]
  · intro p; simp [pendingOf, he]

end

/-! ## Documentation of the repaired defect (`known_findings.json`, class `uint64-overflow`)

Before the `fix:` commit the admission test was `current + amount <= max` in `uint64` arithmetic.
`admitsOld` is that old test.  The witness shows that it admitted an allocation of `2^64 - 1`
bytes on top of 5 allocated bytes under a limit of 10 (the wrapped sum is 4), whereas the exact
sum is far beyond the limit and the repaired test `fits` rejects it.  This is a *test of two
concrete values* documenting the fixed defect, not a property theorem. -/

/-- the pre-fix admission test (wrapping `uint64` addition) -/
def admitsOld (current amount max : Nat) : Bool := decide (add64 current amount ≤ max)

theorem overflow_defect_fixed_witness :
    admitsOld 5 (2 ^ 64 - 1) 10 = true ∧ ¬ (5 + (2 ^ 64 - 1) ≤ 10) ∧ fits 5 (2 ^ 64 - 1) 10 = false := by
  decide

/-! ## Non-vacuity: concrete reachable states (tests, by evaluation) -/

/-- history used in the examples: limits (6, 4); peers 0 and 1 each get 3 bytes, then each asks
    for one more byte, which must wait because the total limit is reached. -/
def exOps : List Op := [.alloc 0 3 100, .alloc 1 3 101, .alloc 0 1 102, .alloc 1 1 103]

example : Reachable pickMin 6 4 (run pickMin (init 6 4) exOps).1 := ⟨exOps, rfl⟩

-- the state is non-trivial: both peers hold memory and both have a waiting allocation
example : (run pickMin (init 6 4) exOps).1.peers =
    [⟨0, 3, [⟨1, 0, 102⟩]⟩, ⟨1, 3, [⟨1, 1, 103⟩]⟩] := by decide
example : (run pickMin (init 6 4) exOps).1.total = 6 := by decide
example : (run pickMin (init 6 4) exOps).2 = [.granted 0 100 3, .granted 1 101 3] := by decide

-- a clamped release (peer 0 holds 3, releases 5): gives back 3, and both waiting tickets are woken
example : (run pickMin (init 6 4) (exOps ++ [.release 0 5])).2 =
    [.granted 0 100 3, .granted 1 101 3, .released 0 3, .granted 0 102 1, .granted 1 103 1] := by decide
example : replayFrom 0 0 (run pickMin (init 6 4) (exOps ++ [.release 0 5])).2 = some 1 := by decide

-- releasePeer with a waiting ticket: hypotheses of `releasePeer_zero` are met non-trivially
example : (run pickMin (init 6 4) (exOps ++ [.releasePeer 0])).2 =
    [.granted 0 100 3, .granted 1 101 3, .released 0 3, .failed 0 102, .granted 1 103 1] := by decide

-- a drained state that still went through waiting allocations: hypotheses of `drained`
example : stats (run pickMin (init 6 4) (exOps ++ [.releasePeer 0, .releasePeer 1])).1 = ⟨0, 0, 0⟩ := by
  decide
example : (run pickMin (init 6 4) (exOps ++ [.releasePeer 0, .releasePeer 1])).1.peers = [] := by decide

/-! ## History-dependent heap tie-breaks (audit item: `pick` is a function of the peer list only)

`RunR` (GSProofs/Lemmas/AllocatorChoice.lean) is the nondeterministic semantics in which **every
single `Peek` call** (each loop iteration of each operation) may return *any* comparator-minimal
element — different answers at different calls, even on identical lists, as a real binary heap
may give depending on its history.  All such runs coincide with the functional model. -/

/-- **Every theorem above is independent of the heap's tie-breaking history:** any
    nondeterministic run from `NewAllocator(mt, mp)` ends in literally the same state with the same
    event list as `run pick` for every admissible `pick`; in particular its final state is
    `Reachable pickMin`, and (`run_isRunR`) the functional model is itself such a run. -/
theorem any_heap_choice {pick : Pick} (hp : Admissible pick) {mt mp : Nat} (ht : mt < W) (hm : mp < W)
    {ops : List Op} {r : State × List Event} (h : RunR (init mt mp) ops r) :
    r = run pick (init mt mp) ops ∧ Reachable pick mt mp r.1 ∧
    RunR (init mt mp) ops (run pick (init mt mp) ops) := by
  have e := runR_unique hp (Inv.init ht hm) h
  exact ⟨e, ⟨ops, by rw [e]⟩, run_isRunR hp (Inv.init ht hm) ops⟩

/-- C13 restated directly for nondeterministic runs (limits, exact ledger without underflow). -/
theorem limits_ledger_any_heap_choice {mt mp : Nat} (ht : mt < W) (hm : mp < W)
    {ops : List Op} {r : State × List Event} (h : RunR (init mt mp) ops r) (p : Nat) :
    r.1.total ≤ mt ∧ allocatedFor r.1 p ≤ mp ∧ replayFrom p 0 r.2 = some (allocatedFor r.1 p) := by
  obtain ⟨e, hr, _⟩ := any_heap_choice pickMin_admissible ht hm h
  have hl := limits pickMin_admissible ht hm hr
  refine ⟨hl.1, hl.2.2.2 p, ?_⟩
  rw [e]; exact ledger pickMin_admissible ht hm ops p

end GS.C13
