/-
Model of /repo/peermanager/peermanager.go (core Lean only), as it is after the fix that makes a
process's shutdown callback remove only its own table entry.

  PeerManager.peerProcesses           -> State.table   (peer ↦ (refcnt, queue id))
  Connected / getOrCreate             -> connected
  Disconnected                        -> disconnected (the part under peerProcessesLk) followed,
                                         outside the lock, by the call of `Shutdown()` = shutdownCall
  GetProcess                          -> getProcess (creates with refcnt 0)
  onQueueShutdown(p, instance)        -> queueExit (the process's goroutine has ended and runs its
                                         callback: deletes the entry only if it is still this instance)
  MessageQueue.Shutdown() by itself   -> selfShutdown (after a connection failure)

Every method body under `peerProcessesLk` is one atomic step; `Disconnected` is two steps because it
unlocks before calling `Shutdown()`.  A schedule is a list of `Act`s.
-/
namespace GS.PM

structure Entry where
  peer : Nat
  refcnt : Int
  qid : Nat
deriving Repr, DecidableEq

/-- every process ever created by the factory -/
structure Queue where
  id : Nat
  peer : Nat
  pending : Bool := false     -- removed from the table by Disconnected, `Shutdown()` not yet called
  shutdown : Bool := false    -- `Shutdown()` has been called (by the manager or by the queue itself)
  exited : Bool := false      -- its goroutine ended and ran the callback
deriving Repr, DecidableEq

structure State where
  table : List Entry := []
  queues : List Queue := []
  nextId : Nat := 0
deriving Repr

def lookup (t : List Entry) (p : Nat) : Option Entry := t.find? (·.peer == p)

def setQueue (qs : List Queue) (id : Nat) (f : Queue → Queue) : List Queue :=
  qs.map fun q => if q.id == id then f q else q

/-- `getOrCreate`: returns (state, entry) -/
def getOrCreate (s : State) (p : Nat) : State × Entry :=
  match lookup s.table p with
  | some e => (s, e)
  | none =>
    let e : Entry := { peer := p, refcnt := 0, qid := s.nextId }
    ({ table := s.table ++ [e], queues := s.queues ++ [{ id := s.nextId, peer := p }], nextId := s.nextId + 1 }, e)

def connected (s : State) (p : Nat) : State :=
  let s := (getOrCreate s p).1
  { s with table := s.table.map fun x => if x.peer == p then { x with refcnt := x.refcnt + 1 } else x }

/-- `GetProcess`: (state, id of the returned process) -/
def getProcess (s : State) (p : Nat) : State × Nat :=
  let (s, e) := getOrCreate s p
  (s, e.qid)

/-- the locked part of `Disconnected`; the queue to shut down becomes `pending` -/
def disconnected (s : State) (p : Nat) : State :=
  match lookup s.table p with
  | none => s
  | some e =>
    if e.refcnt - 1 > 0 then
      { s with table := s.table.map fun x => if x.peer == p then { x with refcnt := x.refcnt - 1 } else x }
    else
      { s with table := s.table.filter (·.peer != p), queues := setQueue s.queues e.qid ({ · with pending := true }) }

/-- `pprocess.Shutdown()` called by `Disconnected` after unlocking -/
def shutdownCall (s : State) (q : Nat) : State :=
  { s with queues := setQueue s.queues q fun x => if x.pending then { x with pending := false, shutdown := true } else x }

def selfShutdown (s : State) (q : Nat) : State :=
  { s with queues := setQueue s.queues q fun x => if x.exited then x else { x with shutdown := true } }

/-- the process ends: `onQueueShutdown(p, instance)` -/
def queueExit (s : State) (q : Nat) : State :=
  match s.queues.find? (·.id == q) with
  | none => s
  | some x =>
    if x.exited then s
    else
      { s with table := s.table.filter fun e => !(e.peer == x.peer && e.qid == q),
               queues := setQueue s.queues q ({ · with exited := true, shutdown := true }) }

inductive Act where
  | connected (p : Nat)
  | disconnected (p : Nat)
  | shutdownCall (q : Nat)
  | getProcess (p : Nat)
  | selfShutdown (q : Nat)
  | queueExit (q : Nat)
deriving Repr, DecidableEq

def step (s : State) : Act → State
  | .connected p => connected s p
  | .disconnected p => disconnected s p
  | .shutdownCall q => shutdownCall s q
  | .getProcess p => (getProcess s p).1
  | .selfShutdown q => selfShutdown s q
  | .queueExit q => queueExit s q

def run (s : State) (acts : List Act) : State := acts.foldl step s

/-- created, not yet exited -/
def live (s : State) (p : Nat) : List Queue := s.queues.filter fun q => q.peer == p && !q.exited

/-- live and not asked (or about to be asked) to shut down -/
def active (s : State) (p : Nat) : List Queue :=
  s.queues.filter fun q => q.peer == p && !q.exited && !q.shutdown && !q.pending

end GS.PM
