import GSProofs.Lemmas.RespLifeOutcomeRPub
/-!
Outcome accounting, part 3: `Core3` when the manager answers a publisher's call, at the registration of `r`,
and the invariant over every step.
-/
namespace GS.RespLife

theorem pendT_cons (r : Id) (p : Peer) (m : Msg) (mb : List Msg) :
    pendT r p (m :: mb) = (termFrom r p m || pendT r p mb) := by simp [pendT]

/-- the manager answers the call `m` of publisher `pub` -/
theorem core3_answer {r : Id} {s X s' : State} {m : Msg} {rest : List Msg} {pub : Peer} {q' : List PStep}
    (hi : Core3 r s) (h2 : Inv2 r s) (hm : s.mailbox = m :: rest) (hany : anyFrom pub m = true)
    (hoth : ∀ p, p ≠ pub → anyFrom p m = false)
    (hXpub : ∀ p, (getMQ X p).pubQ = (getMQ s p).pubQ)
    (hXq : QS0 r { s with mailbox := rest, handled := s.handled + 1 } X) (hXm : X.mailbox = rest)
    (hXlive : live r X = true → live r s = true)
    (hmq : ∀ p, getMQ s' p = if p = pub then { (getMQ X pub) with pubQ := q', pubWait := false } else getMQ X p)
    (hmail : s'.mailbox = X.mailbox) (ht : s'.table = X.table) (hpk : s'.park = X.park)
    (hev : s'.events = X.events) (hcl : s'.closed = X.closed)
    (hq' : (∀ t, kOK r t q' = kOK r t (getMQ s pub).pubQ) ∧ (∀ t, wf3 r t q' = wf3 r t (getMQ s pub).pubQ) ∧
      hasClose r q' = hasClose r (getMQ s pub).pubQ ∧ tokQ r q' = tokQ r (getMQ s pub).pubQ)
    (hk : termFrom r pub m = true → live r s = true → live r X = false)
    (hd2 : NF r s' → doneC r s = 0 ∧ isClosed s r = true ∧ ∀ p, tokQ r (getMQ s p).pubQ = 0) : Core3 r s' := by
  have hfr : fromN pub rest = 0 := by
    have := (h2.sinv pub).2
    rw [hm, fromN_cons, hany] at this
    simp only [if_true] at this
    split at this <;> omega
  have hlive' : live r s' = live r X := by
    unfold live; rw [lookup_of_table ht, hpk]
  have hclosed : isClosed s' r = isClosed s r := by
    have : isClosed s' r = isClosed X r := by unfold isClosed; rw [hcl]
    rw [this, hXq.cls]; rfl
  have hdone : doneC r s' = doneC r s := by
    have : doneC r s' = doneC r X := by unfold doneC; rw [hev]
    rw [this, hXq.done]; rfl
  have hpend' : ∀ p, pend r p s'.mailbox = pend r p rest ∧ pendT r p s'.mailbox = pendT r p rest := by
    intro p; rw [hmail, hXm]; exact ⟨rfl, rfl⟩
  have hpendS : ∀ p, pend r p s.mailbox = (closeFrom r p m || pend r p rest) ∧
      pendT r p s.mailbox = (termFrom r p m || pendT r p rest) := by
    intro p; rw [hm, pend_cons, pendT_cons]; exact ⟨rfl, rfl⟩
  have hothc : ∀ p, p ≠ pub → closeFrom r p m = false ∧ termFrom r p m = false := by
    intro p hne
    have h0 := hoth p hne
    constructor
    · cases hc : closeFrom r p m with
      | false => rfl
      | true => rw [anyFrom_of_closeFrom hc] at h0; cases h0
    · cases hc : termFrom r p m with
      | false => rfl
      | true => rw [anyFrom_of_termFrom hc] at h0; cases h0
  have hpubq : ∀ p, p ≠ pub → (getMQ s' p).pubQ = (getMQ s p).pubQ := by
    intro p hne; rw [hmq, if_neg hne]; exact hXpub p
  have hself : (getMQ s' pub).pubQ = q' := by rw [hmq]; simp
  have hliveS : live r s' = true → live r s = true := fun h => hXlive (by rw [← hlive']; exact h)
  obtain ⟨hqk, hqw, hqc, hqt⟩ := hq'
  refine ⟨?_, ?_, ?_, ?_, ?_, ?_⟩
  · intro p hp
    rw [hclosed]
    by_cases hpp : p = pub
    · subst hpp
      rw [(hpend' p).1, pend_false_of_fromN hfr, hself, hqc] at hp
      exact hi.h1 p (Or.inr (by simpa using hp))
    · rw [(hpend' p).1, hpubq p hpp] at hp
      apply hi.h1 p
      rw [(hpendS p).1, (hothc p hpp).1]
      simpa using hp
  · intro hc
    rw [hclosed] at hc
    have hn : noR r X := hXq.bld hc (hi.j2 hc)
    intro p e he
    rw [hmq] at he
    split at he
    · rename_i hpp; subst hpp; exact hn p e he
    · exact hn p e he
  · intro p
    by_cases hpp : p = pub
    · subst hpp
      rw [(hpend' p).1, pend_false_of_fromN hfr, hself, hqw]
      have := hi.j3 p
      cases hc : pend r p s.mailbox with
      | false => rw [hc] at this; exact this
      | true => rw [hc] at this; exact wf3_anti r _ false this
    · rw [(hpend' p).1, hpubq p hpp]
      have := hi.j3 p
      rw [(hpendS p).1, (hothc p hpp).1, Bool.false_or] at this
      exact this
  · intro p
    by_cases hpp : p = pub
    · subst hpp
      rw [(hpend' p).2, pendT_false_of_fromN hfr, hself, hqk, Bool.false_or]
      have := hi.k p
      rw [(hpendS p).2, pendT_false_of_fromN hfr, Bool.or_false] at this
      refine kOK_le r _ ?_ this
      intro hflag
      simp only [Bool.or_eq_true, Bool.not_eq_true'] at hflag ⊢
      rcases hflag with hflag | hflag
      · cases hl : live r s with
        | false =>
          cases hl' : live r s' with
          | false => rfl
          | true => rw [hliveS hl'] at hl; cases hl
        | true => rw [hlive']; exact hk hflag hl
      · cases hl' : live r s' with
        | false => rfl
        | true => rw [hliveS hl'] at hflag; cases hflag
    · rw [(hpend' p).2, hpubq p hpp]
      have := hi.k p
      rw [(hpendS p).2, (hothc p hpp).2, Bool.false_or] at this
      refine kOK_le r _ ?_ this
      intro hflag
      simp only [Bool.or_eq_true, Bool.not_eq_true'] at hflag ⊢
      rcases hflag with hflag | hflag
      · exact Or.inl hflag
      · right
        cases hl' : live r s' with
        | false => rfl
        | true => rw [hliveS hl'] at hflag; cases hflag
  · intro hd
    rw [hdone] at hd
    have := hi.d1 hd
    cases hl' : live r s' with
    | false => rfl
    | true => rw [hliveS hl'] at this; cases this
  · intro hn
    obtain ⟨a, c, d⟩ := hd2 hn
    refine ⟨by rw [hdone]; exact a, by rw [hclosed]; exact c, ?_⟩
    intro p
    by_cases hpp : p = pub
    · subst hpp; rw [hself, hqt]; exact d p
    · rw [hpubq p hpp]; exact d p

theorem live_terminate_self (r : Id) (s : State) (hp : s.park = none) : live r (terminate s r) = false := by
  unfold live
  have h1 : lookup (terminate s r) r = none := by
    unfold terminate
    split
    · rename_i hl; exact hl
    · rw [lookup_delResp]; simp
  rw [h1, park_terminate, hp]
  rfl

theorem sameQ (r : Id) (q : List PStep) :
    (∀ t, kOK r t q = kOK r t q) ∧ (∀ t, wf3 r t q = wf3 r t q) ∧ hasClose r q = hasClose r q ∧ tokQ r q = tokQ r q :=
  ⟨fun _ => rfl, fun _ => rfl, rfl, rfl⟩

theorem eraseQ (r : Id) (q : List PStep) (id : Id) :
    (∀ t, kOK r t (q.erase (.emitNerr id)) = kOK r t q) ∧ (∀ t, wf3 r t (q.erase (.emitNerr id)) = wf3 r t q) ∧
      hasClose r (q.erase (.emitNerr id)) = hasClose r q ∧ tokQ r (q.erase (.emitNerr id)) = tokQ r q :=
  ⟨kOK_erase_nerr r id q, wf3_erase_nerr r id q, hasClose_erase_nerr r id q, tokQ_erase_nerr r q id⟩

theorem core3_handle_terminate {r : Id} {s : State} {rest : List Msg} {id : Id} {inc : Nat} {pub : Peer}
    {p0 : Peer} {i0 : Nat} (hi : Core3 r s) (h2 : Inv2 r s) (hpi : Places r (· = p0) (· = i0) s)
    (hp : s.park = none) (hm : s.mailbox = .terminate id inc pub :: rest) :
    Core3 r (handle { s with mailbox := rest, handled := s.handled + 1 } (.terminate id inc pub)) := by
  rw [handle_terminate]
  have hany : anyFrom pub (.terminate id inc pub) = true := by simp [anyFrom]
  have hoth : ∀ p, p ≠ pub → anyFrom p (.terminate id inc pub) = false := by
    intro p hne; simpa [anyFrom] using fun e => hne e.symm
  generalize hs0 : ({ s with mailbox := rest, handled := s.handled + 1 } : State) = s0
  have hp0 : s0.park = none := by rw [← hs0]; exact hp
  have hl0 : ∀ i, lookup s0 i = lookup s i := by intro i; rw [← hs0]; rfl
  have hlive0 : live r s0 = live r s := by rw [← hs0]; rfl
  generalize hX0 : (if isInc s0 id inc = true then terminate s0 id else s0) = X
  have hX : MStep r s0 X := by
    rw [← hX0]; split
    · exact mstep_terminate r _ id hp0
    · exact MStep.refl r _
  have hXq : QS0 r s0 X := by
    rw [← hX0]; split
    · exact qs0_terminate r _ id
    · exact QS0.refl r _
  have hXm : X.mailbox = rest := by
    rw [← hX0, ← hs0]; split
    · exact congrArg Prod.fst (mbk_terminate _ id)
    · rfl
  have hXkp : KP (pi s0) (pi X) := by
    rw [← hX0]; split
    · exact kp_of_tos (tos_terminate s0 id)
    · exact KP.refl _
  have hXlive : live r X = true → live r s = true := fun h => by rw [← hlive0]; exact live_of_kp hXkp h
  have hqX : (getMQ X pub).pubQ = (getMQ s pub).pubQ := by
    rw [(hX.pub pub).1, ← hs0]; rfl
  have hps : PStepR r pub s (clearPubWait X pub) := by
    refine pstep_answer r s X (clearPubWait X pub) _ rest pub (getMQ X pub).pubQ h2 hm hany hoth (by rw [hs0]; exact hX)
      (getMQ_clearPubWait X pub) rfl rfl rfl rfl ?_ ?_
    · intro h; rw [hqX]; exact h
    · rw [hqX]; rfl
  refine core3_answer hi h2 hm hany hoth (fun p => by rw [(hX.pub p).1, ← hs0]; rfl) (by rw [hs0]; exact hXq) hXm hXlive
    (getMQ_clearPubWait X pub) rfl rfl rfl rfl rfl (by rw [hqX]; exact sameQ r _) ?_
    (fun hn => hi.d2 ((NF_of_pstep hps).1 hn))
  intro htf hl
  have hid : id = r := by
    simp only [termFrom, Bool.and_eq_true, beq_iff_eq] at htf; exact htf.1
  subst hid
  -- the response is in the table, with the identity the call carries
  have hls : (lookup s id).isSome = true := by
    unfold live at hl
    rw [hp] at hl
    simpa [PN] using hl
  cases hlx : lookup s id with
  | none => rw [hlx] at hls; cases hls
  | some x =>
    have e1 := (hpi.tbl x hlx).2
    have e2 := ((hpi.mail _ (by rw [hm]; exact List.mem_cons_self)).2 inc pub rfl).2
    have hinc : isInc s0 id inc = true := by
      unfold isInc; rw [hl0, hlx]; simp [e1, e2]
    rw [← hX0, if_pos hinc]
    exact live_terminate_self id s0 hp0

theorem exists_step_of_tokQ {r : Id} {q : List PStep} (h : tokQ r q ≠ 0) : ∃ st ∈ q, stepId st = r := by
  unfold tokQ at h
  have : 0 < q.countP (doneStep r) := Nat.pos_of_ne_zero h
  rw [List.countP_pos_iff] at this
  obtain ⟨st, hst, hd⟩ := this
  refine ⟨st, hst, ?_⟩
  cases st <;> simp_all [doneStep, stepId]

theorem core3_handle_closeNetErr {r : Id} {s : State} {rest : List Msg} {id : Id} {inc : Nat} {pub : Peer}
    {p0 : Peer} {i0 : Nat} (hi : Core3 r s) (h2 : Inv2 r s) (hpi : Places r (· = p0) (· = i0) s)
    (hp : s.park = none) (hm : s.mailbox = .closeNetErr id inc pub :: rest) :
    Core3 r (handle { s with mailbox := rest, handled := s.handled + 1 } (.closeNetErr id inc pub)) := by
  rw [handle_closeNetErr]
  have hany : anyFrom pub (.closeNetErr id inc pub) = true := by simp [anyFrom]
  have hoth : ∀ p, p ≠ pub → anyFrom p (.closeNetErr id inc pub) = false := by
    intro p hne; simpa [anyFrom] using fun e => hne e.symm
  have htf : termFrom r pub (.closeNetErr id inc pub) = false := rfl
  generalize hs0 : ({ s with mailbox := rest, handled := s.handled + 1 } : State) = s0
  have hp0 : s0.park = none := by rw [← hs0]; exact hp
  have hq0 : ∀ p, getMQ s0 p = getMQ s p := by intro p; rw [← hs0]; rfl
  have hl0 : ∀ i, lookup s0 i = lookup s i := by intro i; rw [← hs0]; rfl
  have hlive0 : live r s0 = live r s := by rw [← hs0]; rfl
  have hm0 : s0.mailbox = rest := by rw [← hs0]
  have hrefl : MStep r { s with mailbox := rest, handled := s.handled + 1 } s0 := by rw [hs0]; exact MStep.refl r _
  have hreflq : QS0 r { s with mailbox := rest, handled := s.handled + 1 } s0 := by rw [hs0]; exact QS0.refl r _
  by_cases hid : id = r
  · subst hid
    have hcf : closeFrom id pub (.closeNetErr id inc pub) = true := by simp [closeFrom]
    have hpm : pend id pub s.mailbox = true := by rw [hm, pend_cons, hcf]; rfl
    have hwf := (h2.sinv pub).1
    rw [hpm] at hwf
    split
    · -- confirmation
      rename_i hinc
      obtain ⟨x, hl⟩ := isInc_lookup hinc
      obtain ⟨hok, _, _, _, _, _, hq, hmb⟩ := abort_network_ok id s0 hl hp0
      rw [hok]
      simp only [beq_self_eq_true, if_true]
      have hXq := qs0_abortRequest id s0 id .network
      have hXkp := kp_of_tos (tos_abortRequest s0 id .network)
      generalize (abortRequest s0 id .network).1 = X at hq hmb hXq hXkp
      refine core3_answer hi h2 hm hany hoth (fun p => by rw [hq, hq0]) (by rw [hs0]; exact hXq) (by rw [hmb, hm0])
        (fun h => by rw [← hlive0]; exact live_of_kp hXkp h) (getMQ_clearPubWait X pub) rfl rfl rfl rfl rfl
        (by rw [hq, hq0]; exact sameQ id _) (fun h => by rw [htf] at h; cases h) ?_
      intro _
      have hlive : live id s = true := by
        unfold live; rw [← hl0, hl]; rfl
      refine ⟨?_, hi.h1 pub (Or.inl hpm), ?_⟩
      · cases hd : doneC id s with
        | zero => rfl
        | succ n =>
          have := hi.d1 (by omega)
          rw [hlive] at this; cases this
      · intro p
        by_cases hpp : p = pub
        · subst hpp
          have := hi.j3 p
          rw [hpm] at this
          exact tokQ_of_wf3 id _ this
        · apply Classical.byContradiction
          intro hne
          obtain ⟨st, hst, hsid⟩ := exists_step_of_tokQ hne
          have e1 := (hpi.pub p st hst hsid).1
          have e2 := ((hpi.mail _ (by rw [hm]; exact List.mem_cons_self)).1 inc pub rfl).1
          exact hpp (e1.trans e2.symm)
    · -- no such response
      have hps : PStepR id pub s (dropNerr (clearPubWait s0 pub) pub id) := by
        refine pstep_answer id s s0 (dropNerr (clearPubWait s0 pub) pub id) _ rest pub
          ((getMQ s0 pub).pubQ.erase (.emitNerr id)) h2 hm hany hoth hrefl (getMQ_drop_clear s0 pub id) rfl rfl rfl rfl ?_ ?_
        · intro h
          rw [hq0]; exact (wfQ_erase_open id _ hwf).1
        · rw [hcf, hq0]; exact (wfQ_erase_open id _ hwf).2
      exact core3_answer hi h2 hm hany hoth (fun p => by rw [hq0]) hreflq hm0 (fun h => by rw [← hlive0]; exact h)
        (getMQ_drop_clear s0 pub id) rfl rfl rfl rfl rfl (by rw [hq0]; exact eraseQ id _ id)
        (fun h => by rw [htf] at h; cases h) (fun hn => hi.d2 ((NF_of_pstep hps).1 hn))
  · -- a call about another request
    have hcf : closeFrom r pub (.closeNetErr id inc pub) = false := by simp [closeFrom, hid]
    have hab : MStep r s0 (abortRequest s0 id .network).1 := mstep_abortRequest r s0 id .network hp0 (fun _ => hid)
    have habq := qs0_abortRequest r s0 id .network
    have habm : (abortRequest s0 id .network).1.mailbox = rest := by
      rw [← hm0]; exact congrArg Prod.fst (mbk_abortRequest s0 id .network)
    have habkp := kp_of_tos (tos_abortRequest s0 id .network)
    split
    · generalize (abortRequest s0 id .network).1 = X at hab habq habm habkp
      have hXpub : ∀ p, (getMQ X p).pubQ = (getMQ s p).pubQ := fun p => by rw [(hab.pub p).1, hq0]
      have hXlive : live r X = true → live r s = true := fun h => by rw [← hlive0]; exact live_of_kp habkp h
      split
      · have hps : PStepR r pub s (clearPubWait X pub) := by
          refine pstep_answer r s X (clearPubWait X pub) _ rest pub (getMQ X pub).pubQ h2 hm hany hoth
            (hrefl.trans hab) (getMQ_clearPubWait X pub) rfl rfl rfl rfl ?_ ?_
          · intro h; rw [hcf] at h; rw [hXpub]; exact h
          · rw [hcf, hXpub]
        exact core3_answer hi h2 hm hany hoth hXpub (by rw [hs0]; exact habq) habm hXlive
          (getMQ_clearPubWait X pub) rfl rfl rfl rfl rfl (by rw [hXpub]; exact sameQ r _)
          (fun h => by rw [htf] at h; cases h) (fun hn => hi.d2 ((NF_of_pstep hps).1 hn))
      · have hps : PStepR r pub s (dropNerr (clearPubWait X pub) pub id) := by
          refine pstep_answer r s X (dropNerr (clearPubWait X pub) pub id) _ rest pub
            ((getMQ X pub).pubQ.erase (.emitNerr id)) h2 hm hany hoth (hrefl.trans hab) (getMQ_drop_clear X pub id)
            rfl rfl rfl rfl ?_ ?_
          · intro h; rw [hcf] at h; rw [hXpub, (wfQ_erase_other r hid _ _).1]; exact h
          · rw [hcf, hXpub, (wfQ_erase_other r hid _ _).2]
        exact core3_answer hi h2 hm hany hoth hXpub (by rw [hs0]; exact habq) habm hXlive
          (getMQ_drop_clear X pub id) rfl rfl rfl rfl rfl (by rw [hXpub]; exact eraseQ r _ id)
          (fun h => by rw [htf] at h; cases h) (fun hn => hi.d2 ((NF_of_pstep hps).1 hn))
    · have hps : PStepR r pub s (dropNerr (clearPubWait s0 pub) pub id) := by
        refine pstep_answer r s s0 (dropNerr (clearPubWait s0 pub) pub id) _ rest pub
          ((getMQ s0 pub).pubQ.erase (.emitNerr id)) h2 hm hany hoth hrefl (getMQ_drop_clear s0 pub id)
          rfl rfl rfl rfl ?_ ?_
        · intro h; rw [hcf] at h; rw [hq0, (wfQ_erase_other r hid _ _).1]; exact h
        · rw [hcf, hq0, (wfQ_erase_other r hid _ _).2]
      exact core3_answer hi h2 hm hany hoth (fun p => by rw [hq0]) hreflq hm0 (fun h => by rw [← hlive0]; exact h)
        (getMQ_drop_clear s0 pub id) rfl rfl rfl rfl rfl (by rw [hq0]; exact eraseQ r _ id)
        (fun h => by rw [htf] at h; cases h) (fun hn => hi.d2 ((NF_of_pstep hps).1 hn))

end GS.RespLife
