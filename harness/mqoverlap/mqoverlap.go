// Package mqoverlap replays, on the REAL peermanager.PeerMessageManager + real
// messagequeue.MessageQueue + real allocator.Allocator (component "mqoverlap", property C15, oracle
// only), what happens to a peer's memory accounting while a stopping queue and its successor are both
// alive (C17 finding `overlap-shutting-down`).  Nothing of the three is faked: only the network is
// (ConnectTo succeeds, SendMsg blocks until the script answers it), exactly as GraphSync wires them
// in impl/graphsync.go.
//
// ops:  conn | disc | tx <bytes> | ack <sender> | settle
//
//	tx n     pm.AllocateAndBuildMessage(peer, n, …): one response with one block of n bytes
//	ack k    the SendMsg the k-th sender (= k-th queue that connected) is blocked in returns nil
//
// Oracle (the harness's own ledger): at every quiescent point AllocatedForPeer(peer) must equal the
// bytes of the transactions that were built and whose message has not been reported Sent or Error.
package mqoverlap

import (
	"bufio"
	"context"
	"fmt"
	"math/rand"
	"runtime"
	"strconv"
	"sync"
	"time"

	blocks "github.com/ipfs/go-block-format"
	"github.com/ipfs/go-graphsync"
	"github.com/ipfs/go-graphsync/allocator"
	gsmsg "github.com/ipfs/go-graphsync/message"
	"github.com/ipfs/go-graphsync/messagequeue"
	gsnet "github.com/ipfs/go-graphsync/network"
	"github.com/ipfs/go-graphsync/notifications"
	"github.com/ipfs/go-graphsync/peermanager"
	cidlink "github.com/ipld/go-ipld-prime/linking/cid"
	"github.com/libp2p/go-libp2p/core/peer"

	"verifharness/quiesce"
	"verifharness/reg"
)

func init() {
	reg.Register(&reg.Component{Name: "mqoverlap", Gen: Gen, Run: Run})
}

// Gen: the overlap scenario with varying sizes and orders, and scenarios without overlap (the old
// queue exits before the successor is created) that must pass.
func Gen(seed int64, n int, tier string, w *bufio.Writer) {
	r := rand.New(rand.NewSource(seed))
	for i := 0; i < n; i++ {
		a, b := 100+r.Intn(5000), 100+r.Intn(5000)
		fmt.Fprintf(w, "case g%d\nconn\ntx %d\n", i, a)
		switch r.Intn(4) {
		case 0: // overlap: successor reserves while the old queue is blocked in SendMsg
			fmt.Fprintf(w, "disc\ntx %d\nack 0\nsettle\nack 1\nsettle\n", b)
		case 1: // overlap, the successor's message leaves first
			fmt.Fprintf(w, "disc\ntx %d\nack 1\nsettle\nack 0\nsettle\n", b)
		case 2: // no overlap: the old queue has exited before the next message
			fmt.Fprintf(w, "disc\nack 0\nsettle\ntx %d\nack 1\nsettle\n", b)
		default: // one queue, two messages
			fmt.Fprintf(w, "ack 0\nsettle\ntx %d\nack 0\nsettle\ndisc\nsettle\n", b)
		}
	}
}

type sender struct {
	e   *env
	idx int
}

type env struct {
	mu      sync.Mutex
	senders []*sender
	blocked map[int]chan struct{} // sender index -> release of the SendMsg it is blocked in
	created int
	exited  int
}

func (s *sender) SendMsg(ctx context.Context, m gsmsg.GraphSyncMessage) error {
	ch := make(chan struct{})
	s.e.mu.Lock()
	s.e.blocked[s.idx] = ch
	s.e.mu.Unlock()
	<-ch
	return nil
}
func (s *sender) Close() error { return nil }
func (s *sender) Reset() error { return nil }

func (e *env) NewMessageSender(context.Context, peer.ID, gsnet.MessageSenderOpts) (gsnet.MessageSender, error) {
	e.mu.Lock()
	defer e.mu.Unlock()
	s := &sender{e: e, idx: len(e.senders)}
	e.senders = append(e.senders, s)
	return s, nil
}
func (e *env) ConnectTo(context.Context, peer.ID) error { return nil }

type txRec struct {
	size     uint64
	built    bool
	resolved bool
}

type sub struct {
	mu sync.Mutex
	tx *txRec
}

func (s *sub) OnNext(_ notifications.Topic, ev notifications.Event) {
	if e, ok := ev.(messagequeue.Event); ok && (e.Name == messagequeue.Sent || e.Name == messagequeue.Error) {
		s.mu.Lock()
		s.tx.resolved = true
		s.mu.Unlock()
	}
}
func (s *sub) OnClose(notifications.Topic) {}

func mkReqID(i int) graphsync.RequestID {
	b := make([]byte, 16)
	copy(b, []byte("verif-request"))
	b[14] = byte(i >> 8)
	b[15] = byte(i)
	id, err := graphsync.ParseRequestID(b)
	if err != nil {
		panic(err)
	}
	return id
}

var peer0 = peer.ID("verif-peer-0")

func Run(cases []reg.Case, out *reg.Out) {
	runtime.GOMAXPROCS(1)
	for _, c := range cases {
		out.BeginCase(c)
		runCase(c, out)
	}
}

func runCase(c reg.Case, out *reg.Out) {
	e := &env{blocked: map[int]chan struct{}{}}
	alloc := allocator.NewAllocator(1<<30, 1<<30)
	ctx, cancel := context.WithCancel(context.Background())
	defer cancel()
	pm := peermanager.NewMessageManager(ctx, func(ctx context.Context, p peer.ID, onShutdown func(peer.ID)) peermanager.PeerQueue {
		e.mu.Lock()
		e.created++
		e.mu.Unlock()
		return messagequeue.New(ctx, p, e, alloc, 2, time.Minute, func(p peer.ID) {
			e.mu.Lock()
			e.exited++
			e.mu.Unlock()
			onShutdown(p)
		})
	})
	var txs []*txRec
	var subs []*sub
	overlapSeen := false
	reported := false
	for _, op := range c.Ops {
		out.Cov("op." + op[0])
		switch {
		case op[0] == "conn" && len(op) == 1:
			pm.Connected(peer0)
		case op[0] == "disc" && len(op) == 1:
			pm.Disconnected(peer0)
		case op[0] == "tx" && len(op) == 2:
			n, err := strconv.Atoi(op[1])
			if err != nil || n <= 0 || n > 1<<20 {
				out.Line("bad-op")
				continue
			}
			tx := &txRec{size: uint64(n)}
			txs = append(txs, tx)
			s := &sub{tx: tx}
			subs = append(subs, s)
			id := mkReqID(len(txs))
			data := make([]byte, n)
			data[0] = byte(len(txs))
			blk := blocks.NewBlock(data)
			pm.AllocateAndBuildMessage(peer0, uint64(n), func(b *messagequeue.Builder) {
				b.AddBlock(blk)
				b.AddLink(id, cidlink.Link{Cid: blk.Cid()}, graphsync.LinkActionPresent)
				b.SetSubscriber(id, s)
				tx.built = true
			})
		case op[0] == "ack" && len(op) == 2:
			k, err := strconv.Atoi(op[1])
			if err != nil {
				out.Line("bad-op")
				continue
			}
			quiesce.Wait(nil)
			e.mu.Lock()
			ch := e.blocked[k]
			delete(e.blocked, k)
			e.mu.Unlock()
			if ch != nil {
				close(ch)
				out.Cov("ack.released")
			} else {
				out.Cov("ack.nothing-blocked")
			}
		case op[0] == "settle" && len(op) == 1:
		default:
			out.Line("bad-op")
			continue
		}
		quiesce.Wait(nil)
		e.mu.Lock()
		live := e.created - e.exited
		nblocked := len(e.blocked)
		e.mu.Unlock()
		if live > 1 {
			overlapSeen = true
			out.Cov("state.two-live-queues")
		}
		var unsent uint64
		for i, t := range txs {
			subs[i].mu.Lock()
			if t.built && !t.resolved {
				unsent += t.size
			}
			subs[i].mu.Unlock()
		}
		got := alloc.AllocatedForPeer(peer0)
		out.Line("live=%d blocked=%d allocated=%d unsent=%d", live, nblocked, got, unsent)
		if got != unsent && !reported {
			reported = true
			if overlapSeen && got < unsent {
				out.Fail("overlap-release-wipes-successor", "real peermanager+messagequeue+allocator: AllocatedForPeer = %d while %d reserved bytes are still unsent; a stopping queue and its successor overlapped and the old queue's exit (ReleasePeerMemory) removed the successor's reservation", got, unsent)
			} else {
				out.Fail("ledger", "AllocatedForPeer = %d but unsent reserved data = %d bytes", got, unsent)
			}
		}
	}
	// let everything end
	for k := 0; k < 4; k++ {
		e.mu.Lock()
		for i, ch := range e.blocked {
			close(ch)
			delete(e.blocked, i)
		}
		e.mu.Unlock()
		quiesce.Wait(nil)
	}
}
