// Command preparequery regenerates lean/GS/Generated/PrepareQuery.lean (property C03) from
//
//	responsemanager/preparequery.go            prepareQuery: the status chain of its first transaction
//	                                           (hook error / not validated / paused), the order of the
//	                                           process* calls; per process* function the extension it
//	                                           reads, the status it fails with, the ResponseStream
//	                                           method it calls
//	responsemanager/queryexecutor/queryexecutor.go   executeQuery: the switch from the error returned by
//	                                           runTraversal to FinishRequest / FinishWithError(status);
//	                                           runTraversal: the ErrFirstBlockLoad condition
//	responsecode.go                            numeric values of the status constants
//
// usage: go run ./preparequery <repo>    (prints the Lean file; exits non-zero on syntax it does not know)
package main

import (
	"fmt"
	"go/ast"
	"go/parser"
	"go/token"
	"os"
	"path/filepath"
	"strconv"
	"strings"
)

var fset = token.NewFileSet()

func die(pos token.Pos, format string, a ...interface{}) {
	where := ""
	if pos.IsValid() {
		where = fset.Position(pos).String() + ": "
	}
	fmt.Fprintf(os.Stderr, "preparequery: %s%s\n", where, fmt.Sprintf(format, a...))
	os.Exit(1)
}

func parseFile(path string) *ast.File {
	f, err := parser.ParseFile(fset, path, nil, parser.SkipObjectResolution)
	if err != nil {
		die(token.NoPos, "parse %s: %v", path, err)
	}
	return f
}

func findFunc(f *ast.File, name string, method bool) *ast.FuncDecl {
	for _, d := range f.Decls {
		if fd, ok := d.(*ast.FuncDecl); ok && (fd.Recv != nil) == method && fd.Name.Name == name {
			return fd
		}
	}
	die(f.Pos(), "function %s not found", name)
	return nil
}

var constVal = map[string]int{}

func loadConsts(repo string) {
	f := parseFile(filepath.Join(repo, "responsecode.go"))
	for _, d := range f.Decls {
		gd, ok := d.(*ast.GenDecl)
		if !ok || gd.Tok != token.CONST {
			continue
		}
		for _, sp := range gd.Specs {
			vs := sp.(*ast.ValueSpec)
			if len(vs.Names) != 1 || len(vs.Values) != 1 {
				continue
			}
			c, ok := vs.Values[0].(*ast.CallExpr)
			if !ok || len(c.Args) != 1 {
				continue
			}
			if id, ok := c.Fun.(*ast.Ident); !ok || id.Name != "ResponseStatusCode" {
				continue
			}
			lit, ok := c.Args[0].(*ast.BasicLit)
			if !ok || lit.Kind != token.INT {
				die(vs.Pos(), "status constant %s is not an integer literal", vs.Names[0].Name)
			}
			v, _ := strconv.Atoi(lit.Value)
			constVal[vs.Names[0].Name] = v
		}
	}
	if len(constVal) == 0 {
		die(f.Pos(), "no ResponseStatusCode constants found")
	}
}

// graphsync.<Const> -> numeric value
func statusOf(e ast.Expr) int {
	s, ok := e.(*ast.SelectorExpr)
	if !ok {
		die(e.Pos(), "expected graphsync.<StatusConstant>")
	}
	if x, ok := s.X.(*ast.Ident); !ok || x.Name != "graphsync" {
		die(e.Pos(), "expected graphsync.<StatusConstant>")
	}
	v, ok := constVal[s.Sel.Name]
	if !ok {
		die(e.Pos(), "unknown status constant %s", s.Sel.Name)
	}
	return v
}

// x.Method(args) as an expression statement -> (x, Method, args)
func methodCall(st ast.Stmt) (string, string, []ast.Expr, bool) {
	es, ok := st.(*ast.ExprStmt)
	if !ok {
		return "", "", nil, false
	}
	return methodCallExpr(es.X)
}

func methodCallExpr(e ast.Expr) (string, string, []ast.Expr, bool) {
	c, ok := e.(*ast.CallExpr)
	if !ok {
		return "", "", nil, false
	}
	s, ok := c.Fun.(*ast.SelectorExpr)
	if !ok {
		return "", "", nil, false
	}
	x, ok := s.X.(*ast.Ident)
	if !ok {
		return "", "", nil, false
	}
	return x.Name, s.Sel.Name, c.Args, true
}

// the single `rb.FinishWithError(graphsync.X)` of a block (searching nested function literals)
func finishWithErrorIn(n ast.Node) (int, bool) {
	found, val := 0, 0
	ast.Inspect(n, func(m ast.Node) bool {
		if c, ok := m.(*ast.CallExpr); ok {
			if x, meth, args, ok := methodCallExpr(c); ok && x == "rb" && meth == "FinishWithError" && len(args) == 1 {
				found++
				val = statusOf(args[0])
			}
		}
		return true
	})
	return val, found == 1
}

func hasCall(n ast.Node, recv, meth string) bool {
	found := false
	ast.Inspect(n, func(m ast.Node) bool {
		if c, ok := m.(*ast.CallExpr); ok {
			if x, mm, _, ok := methodCallExpr(c); ok && x == recv && mm == meth {
				found = true
			}
		}
		return true
	})
	return found
}

func exprString(e ast.Expr) string {
	switch v := e.(type) {
	case *ast.Ident:
		return v.Name
	case *ast.SelectorExpr:
		return exprString(v.X) + "." + v.Sel.Name
	case *ast.UnaryExpr:
		return v.Op.String() + exprString(v.X)
	case *ast.BinaryExpr:
		return exprString(v.X) + " " + v.Op.String() + " " + exprString(v.Y)
	case *ast.BasicLit:
		return v.Value
	case *ast.CompositeLit:
		return exprString(v.Type) + "{}"
	case *ast.ParenExpr:
		return "(" + exprString(v.X) + ")"
	case *ast.CallExpr:
		return exprString(v.Fun) + "()"
	}
	die(e.Pos(), "expression shape not understood")
	return ""
}

type stage struct {
	fn, ext, method string
	errCode         int
}

var streamMethods = map[string]string{"DedupKey": "dedupByKey", "IgnoreBlocks": "doNotSendCids", "SkipFirstBlocks": "doNotSendFirstBlocks"}

// one process* function: `data, has := request.Extension(graphsync.X); if !has {return nil}; v, err := Decode(data);
// if err != nil { _ = responseStream.Transaction(func(rb){ rb.FinishWithError(S); return nil }); return err } ...; responseStream.M(..); return nil`
func readStage(f *ast.File, name string) stage {
	fd := findFunc(f, name, false)
	st := stage{fn: name}
	body := fd.Body.List
	if len(body) < 4 {
		die(fd.Pos(), "%s: body shape not understood", name)
	}
	// request.Extension(graphsync.X)
	as, ok := body[0].(*ast.AssignStmt)
	if !ok || len(as.Rhs) != 1 {
		die(body[0].Pos(), "%s: expected `data, has := request.Extension(...)`", name)
	}
	x, meth, args, ok := methodCallExpr(as.Rhs[0])
	if !ok || x != "request" || meth != "Extension" || len(args) != 1 {
		die(body[0].Pos(), "%s: expected `request.Extension(graphsync.<Name>)`", name)
	}
	st.ext = exprString(args[0])
	// if !has { return nil }
	ifs, ok := body[1].(*ast.IfStmt)
	if !ok || len(ifs.Body.List) != 1 || ifs.Else != nil {
		die(body[1].Pos(), "%s: expected `if !has { return nil }`", name)
	}
	if u, ok := ifs.Cond.(*ast.UnaryExpr); !ok || u.Op != token.NOT {
		die(body[1].Pos(), "%s: expected `if !has { return nil }`", name)
	}
	// the first `if err != nil` after the decode: the decode-error path
	decodeErr := false
	nStream := 0
	for _, s := range body[2:] {
		if ifs, ok := s.(*ast.IfStmt); ok && !decodeErr {
			if exprString(ifs.Cond) != "err != nil" {
				die(ifs.Pos(), "%s: expected `if err != nil`", name)
			}
			code, ok := finishWithErrorIn(ifs.Body)
			if !ok {
				die(ifs.Pos(), "%s: the decode-error path must call rb.FinishWithError exactly once", name)
			}
			if !hasCall(ifs.Body, "responseStream", "Transaction") {
				die(ifs.Pos(), "%s: the decode-error path must open a transaction", name)
			}
			st.errCode = code
			decodeErr = true
			continue
		}
		if x, meth, _, ok := methodCall(s); ok && x == "responseStream" {
			if _, known := streamMethods[meth]; !known {
				die(s.Pos(), "%s: unknown ResponseStream method %s", name, meth)
			}
			if !decodeErr {
				die(s.Pos(), "%s: ResponseStream.%s called before the decode-error check", name, meth)
			}
			st.method = meth
			nStream++
		}
	}
	if !decodeErr || nStream != 1 {
		die(fd.Pos(), "%s: expected one decode-error path and one ResponseStream call", name)
	}
	return st
}

func main() {
	if len(os.Args) < 2 {
		die(token.NoPos, "usage: preparequery <repo>")
	}
	repo := os.Args[1]
	loadConsts(repo)

	// ---------------------------------------------------------------- prepareQuery
	pq := parseFile(filepath.Join(repo, "responsemanager", "preparequery.go"))
	fd := findFunc(pq, "prepareQuery", false)
	body := fd.Body.List
	if len(body) < 3 {
		die(fd.Pos(), "prepareQuery: body shape not understood")
	}
	// err := responseStream.Transaction(func(rb ...) error { for ext {rb.SendExtensionData}; if ... else if ... else if ...; return nil })
	as, ok := body[0].(*ast.AssignStmt)
	if !ok || len(as.Rhs) != 1 {
		die(body[0].Pos(), "prepareQuery: expected `err := responseStream.Transaction(func ...)`")
	}
	x, meth, args, ok := methodCallExpr(as.Rhs[0])
	if !ok || x != "responseStream" || meth != "Transaction" || len(args) != 1 {
		die(body[0].Pos(), "prepareQuery: expected `err := responseStream.Transaction(func ...)`")
	}
	fl, ok := args[0].(*ast.FuncLit)
	if !ok {
		die(args[0].Pos(), "prepareQuery: expected a function literal")
	}
	type check struct {
		cond   string
		code   int // -1: no status
		action string
	}
	var checks []check
	sawChain := false
	for _, s := range fl.Body.List {
		switch v := s.(type) {
		case *ast.RangeStmt:
			if !hasCall(v.Body, "rb", "SendExtensionData") || sawChain {
				die(v.Pos(), "prepareQuery: unexpected loop in the first transaction")
			}
		case *ast.IfStmt:
			if sawChain {
				die(v.Pos(), "prepareQuery: more than one if-chain in the first transaction")
			}
			sawChain = true
			var cur ast.Stmt = v
			for cur != nil {
				ifs, ok := cur.(*ast.IfStmt)
				if !ok {
					die(cur.Pos(), "prepareQuery: final else without condition not understood")
				}
				c := check{cond: exprString(ifs.Cond), code: -1}
				if code, ok := finishWithErrorIn(ifs.Body); ok {
					c.code = code
					c.action = "finishWithError"
					if _, isRet := ifs.Body.List[len(ifs.Body.List)-1].(*ast.ReturnStmt); !isRet {
						die(ifs.Body.Pos(), "prepareQuery: an error branch must return the error")
					}
				} else if hasCall(ifs.Body, "rb", "PauseRequest") {
					c.action = "pause"
				} else {
					die(ifs.Body.Pos(), "prepareQuery: branch of the first transaction not understood")
				}
				checks = append(checks, c)
				cur = ifs.Else
			}
		case *ast.ReturnStmt:
		default:
			die(s.Pos(), "prepareQuery: statement in the first transaction not understood")
		}
	}
	wantConds := []string{"result.Err != nil", "!result.IsValidated", "result.IsPaused"}
	wantActs := []string{"finishWithError", "finishWithError", "pause"}
	if len(checks) != 3 {
		die(fl.Pos(), "prepareQuery: expected the chain Err / !IsValidated / IsPaused, found %d branches", len(checks))
	}
	for i, c := range checks {
		if c.cond != wantConds[i] || c.action != wantActs[i] {
			die(fl.Pos(), "prepareQuery: branch %d is `%s` (%s); expected `%s` (%s)", i, c.cond, c.action, wantConds[i], wantActs[i])
		}
	}
	// if err != nil { return err }
	if ifs, ok := body[1].(*ast.IfStmt); !ok || exprString(ifs.Cond) != "err != nil" {
		die(body[1].Pos(), "prepareQuery: expected `if err != nil { return err }` after the first transaction")
	}
	// if err := processX(request, responseStream); err != nil { return err } ...
	var stages []stage
	for _, s := range body[2:] {
		switch v := s.(type) {
		case *ast.IfStmt:
			as, ok := v.Init.(*ast.AssignStmt)
			if !ok || len(as.Rhs) != 1 || exprString(v.Cond) != "err != nil" {
				die(v.Pos(), "prepareQuery: expected `if err := process...(request, responseStream); err != nil { return err }`")
			}
			c, ok := as.Rhs[0].(*ast.CallExpr)
			if !ok {
				die(v.Pos(), "prepareQuery: expected a call to a process* function")
			}
			id, ok := c.Fun.(*ast.Ident)
			if !ok || !strings.HasPrefix(id.Name, "process") {
				die(v.Pos(), "prepareQuery: expected a call to a process* function")
			}
			if _, isRet := v.Body.List[len(v.Body.List)-1].(*ast.ReturnStmt); !isRet {
				die(v.Pos(), "prepareQuery: a failing process* call must return its error")
			}
			stages = append(stages, readStage(pq, id.Name))
		case *ast.RangeStmt:
			// for _, process := range []func(...) error{processA, processB, ...} { if err := process(request, responseStream); err != nil { return err } }
			cl, ok := v.X.(*ast.CompositeLit)
			val, ok2 := v.Value.(*ast.Ident)
			if !ok || !ok2 || len(v.Body.List) != 1 {
				die(v.Pos(), "prepareQuery: loop over the process* functions not understood")
			}
			ifs, ok := v.Body.List[0].(*ast.IfStmt)
			if !ok || exprString(ifs.Cond) != "err != nil" {
				die(v.Pos(), "prepareQuery: loop over the process* functions not understood")
			}
			as, ok := ifs.Init.(*ast.AssignStmt)
			if !ok || len(as.Rhs) != 1 {
				die(v.Pos(), "prepareQuery: loop over the process* functions not understood")
			}
			c, ok := as.Rhs[0].(*ast.CallExpr)
			if !ok {
				die(v.Pos(), "prepareQuery: loop over the process* functions not understood")
			}
			if id, ok := c.Fun.(*ast.Ident); !ok || id.Name != val.Name {
				die(v.Pos(), "prepareQuery: loop over the process* functions not understood")
			}
			if _, isRet := ifs.Body.List[len(ifs.Body.List)-1].(*ast.ReturnStmt); !isRet {
				die(v.Pos(), "prepareQuery: a failing process* call must return its error")
			}
			for _, el := range cl.Elts {
				id, ok := el.(*ast.Ident)
				if !ok || !strings.HasPrefix(id.Name, "process") {
					die(el.Pos(), "prepareQuery: expected a process* function")
				}
				stages = append(stages, readStage(pq, id.Name))
			}
		case *ast.ReturnStmt:
		default:
			die(s.Pos(), "prepareQuery: statement after the first transaction not understood")
		}
	}
	seen := map[string]bool{}
	for _, st := range stages {
		if seen[st.method] {
			die(fd.Pos(), "prepareQuery: ResponseStream.%s is set by two stages", st.method)
		}
		seen[st.method] = true
	}
	if len(stages) != len(streamMethods) {
		die(fd.Pos(), "prepareQuery: expected %d extension stages, found %d", len(streamMethods), len(stages))
	}

	// ---------------------------------------------------------------- executeQuery / runTraversal
	qe := parseFile(filepath.Join(repo, "responsemanager", "queryexecutor", "queryexecutor.go"))
	eq := findFunc(qe, "executeQuery", true)
	var sw *ast.SwitchStmt
	ast.Inspect(eq, func(n ast.Node) bool {
		if s, ok := n.(*ast.SwitchStmt); ok && sw == nil {
			sw = s
		}
		return true
	})
	if sw == nil || exprString(sw.Tag) != "err" {
		die(eq.Pos(), "executeQuery: expected `switch err { ... }`")
	}
	type fin struct {
		errName string
		code    int // -1: FinishRequest
	}
	var fins []fin
	for _, cc := range sw.Body.List {
		cl := cc.(*ast.CaseClause)
		name := "default"
		if len(cl.List) == 1 {
			name = exprString(cl.List[0])
		} else if len(cl.List) > 1 {
			die(cl.Pos(), "executeQuery: multi-value case not understood")
		}
		if len(cl.Body) != 1 {
			die(cl.Pos(), "executeQuery: case body not understood")
		}
		x, meth, args, ok := methodCall(cl.Body[0])
		if !ok || x != "rb" {
			die(cl.Pos(), "executeQuery: case body not understood")
		}
		switch meth {
		case "FinishRequest":
			fins = append(fins, fin{name, -1})
		case "FinishWithError":
			fins = append(fins, fin{name, statusOf(args[0])})
		default:
			die(cl.Pos(), "executeQuery: unexpected rb.%s", meth)
		}
	}
	finOf := map[string]int{}
	for _, f := range fins {
		finOf[f.errName] = f.code
	}
	for _, need := range []string{"nil", "ErrFirstBlockLoad", "ErrCancelledByCommand", "default"} {
		if _, ok := finOf[need]; !ok {
			die(sw.Pos(), "executeQuery: no case for %s", need)
		}
	}
	if len(fins) != 4 {
		die(sw.Pos(), "executeQuery: expected the cases nil / ErrFirstBlockLoad / ErrCancelledByCommand / default")
	}
	if finOf["nil"] != -1 {
		die(sw.Pos(), "executeQuery: a traversal without error must end with rb.FinishRequest()")
	}
	// runTraversal: `if (traverser.NBlocksTraversed() == 0 && err == traversal.SkipMe{}) { return ErrFirstBlockLoad }`
	rt := findFunc(qe, "runTraversal", true)
	firstBlockCond := ""
	ast.Inspect(rt, func(n ast.Node) bool {
		if ifs, ok := n.(*ast.IfStmt); ok && len(ifs.Body.List) == 1 {
			if r, ok := ifs.Body.List[0].(*ast.ReturnStmt); ok && len(r.Results) == 1 {
				if id, ok := r.Results[0].(*ast.Ident); ok && id.Name == "ErrFirstBlockLoad" {
					firstBlockCond = exprString(ifs.Cond)
				}
			}
		}
		return true
	})
	wantFB := "(traverser.NBlocksTraversed() == 0 && err == traversal.SkipMe{})"
	if firstBlockCond != wantFB {
		die(rt.Pos(), "runTraversal: the ErrFirstBlockLoad condition is `%s`; expected `%s`", firstBlockCond, wantFB)
	}

	// ---------------------------------------------------------------- output
	var sb strings.Builder
	p := func(format string, a ...interface{}) { fmt.Fprintf(&sb, format+"\n", a...) }
	p("/-")
	p("GENERATED by translate/preparequery from responsemanager/preparequery.go,")
	p("responsemanager/queryexecutor/queryexecutor.go and responsecode.go -- do not edit.")
	p("-/")
	p("namespace GS.Generated.PrepareQuery")
	p("")
	p("/-- the extension stages of `prepareQuery`, named after the extension they serve -/")
	p("inductive Stage where")
	p("  | dedupByKey | doNotSendCids | doNotSendFirstBlocks")
	p("deriving Repr, DecidableEq")
	p("")
	p("/-- the order of the `process*` calls in `prepareQuery` -/")
	var names []string
	for _, st := range stages {
		names = append(names, "."+streamMethods[st.method])
	}
	p("def stages : List Stage := [%s]", strings.Join(names, ", "))
	p("")
	p("/-- status code sent when the extension of a stage does not decode -/")
	p("def stageErrCode : Stage → Nat")
	for _, st := range stages {
		p("  | .%s => %d", streamMethods[st.method], st.errCode)
	}
	p("")
	p("/-- source facts per stage: (function, extension constant, ResponseStream method) -/")
	p("def stageSource : Stage → String × String × String")
	for _, st := range stages {
		p("  | .%s => (%q, %q, %q)", streamMethods[st.method], st.fn, st.ext, st.method)
	}
	p("")
	p("/-- first transaction of `prepareQuery`: `if result.Err != nil` / `else if !result.IsValidated` /")
	p("`else if result.IsPaused` (checked in this order by the translator) -/")
	p("def hookErrCode : Nat := %d", checks[0].code)
	p("def notValidatedCode : Nat := %d", checks[1].code)
	p("")
	p("/-- `executeQuery`: status of `FinishWithError` per error returned by `runTraversal`")
	p("(`nil` ends with `FinishRequest`, checked by the translator) -/")
	p("def firstBlockLoadCode : Nat := %d", finOf["ErrFirstBlockLoad"])
	p("def cancelledByCommandCode : Nat := %d", finOf["ErrCancelledByCommand"])
	p("def otherErrorCode : Nat := %d", finOf["default"])
	p("")
	p("/-- `runTraversal` reports ErrFirstBlockLoad iff the traversal ended with SkipMe before any block")
	p("was traversed: `%s` -/", wantFB)
	p("def firstBlockLoadCondition : String := %q", firstBlockCond)
	p("")
	p("end GS.Generated.PrepareQuery")
	fmt.Print(sb.String())
}
