module veriftranslate

go 1.25.7
