package main

import (
	_ "verifharness/requestor"
	"verifharness/reg"
)

func main() { reg.Main("requestor") }
