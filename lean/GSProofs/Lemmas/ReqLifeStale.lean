import GSProofs.Lemmas.ReqLifeQueue
/-!
Step lemmas for the history characterisation of the stale task (C23, requestor side):
which steps delete the request (`reg` becomes `gone`) and what they / later steps do to the task queue.
-/
namespace GS.ReqLife
open GS.Generated

theorem finishTerminate_pending (s : State) (b : Bool) : (finishTerminate s b).tqPending = s.tqPending := rfl
theorem finishTerminate_reg (s : State) (b : Bool) : (finishTerminate s b).reg = .gone := rfl

theorem terminate_pending (s : State) (b : Bool) : (terminate s b).tqPending = s.tqPending := by
  unfold terminate; split <;> rfl

theorem terminate_reg (s : State) (b : Bool) : (terminate s b).reg = .gone ∨ (terminate s b).reg = s.reg := by
  unfold terminate; split
  · right; rfl
  · left; rfl

theorem cancelOnError_pending (s : State) (e : Option Err) : (cancelOnError s e).tqPending = s.tqPending := by
  unfold cancelOnError
  simp only
  split <;> split <;> simp [terminate_pending]

theorem cancelOnError_reg (s : State) (e : Option Err) :
    (cancelOnError s e).reg = .gone ∨ (cancelOnError s e).reg = s.reg := by
  unfold cancelOnError
  simp only
  split <;> split
  · rcases terminate_reg { s with termErr := e } false with h | h
    · left; exact h
    · right; rw [h]
  · right; rfl
  · exact terminate_reg s false
  · right; rfl

theorem cancelLive_pending (s : State) (api : Bool) : (cancelLive s api).tqPending = s.tqPending := by
  unfold cancelLive
  simp only [cancelOnError_pending]
  split <;> rfl

theorem hookCancel_pending (s : State) : (hookCancel s).tqPending = s.tqPending := by
  unfold hookCancel
  simp only [cancelOnError_pending]

theorem ingest_pending (s : State) (n : Nat) : (ingest s n).tqPending = s.tqPending := by
  unfold ingest; split <;> rfl

theorem procTerminations_pending (s : State) (st : Nat) : (procTerminations s st).tqPending = s.tqPending := by
  unfold procTerminations
  simp only
  split
  · split <;> split <;> simp [cancelOnError_pending]
  · rfl

/-- a manager step either leaves the number of pending tasks alone or leaves the request tracked -/
theorem handle_pending (s : State) (m : Msg) :
    (handle s m).tqPending = s.tqPending ∨ (handle s m).reg = .live := by
  cases m
  case newReq => unfold handle; simp only; split; left; rfl; right; rfl
  case cancel api =>
    left; unfold handle; simp only; split
    · split <;> rfl
    · exact cancelLive_pending s api
  case responses p st items hk =>
    left; unfold handle; simp only; split
    · split
      · rfl
      · exact hookCancel_pending s
    · split
      · rfl
      · rw [procTerminations_pending, ingest_pending]
  case pause => left; unfold handle; simp only; split; rfl; split <;> rfl
  case unpause =>
    unfold handle; simp only; split
    · left; rfl
    · rename_i h
      split
      · left; rfl
      · right; simpa using h
  case getTask =>
    unfold handle; simp only; split
    · left; rfl
    · left; split <;> rfl
  case release e =>
    left; unfold handle; simp only; split
    · rfl
    · split
      · rfl
      · rw [terminate_pending]

/-- an untracked request id that was never created is not deleted by a manager step -/
theorem handle_none (s : State) (m : Msg) (hn : s.reg = .none) : (handle s m).reg ≠ .gone := by
  have hl2 : (s.reg != .live) = true := by simp [hn]
  cases m <;> simp only [handle, hl2, if_true]
  case newReq => split <;> simp_all
  case cancel api => split <;> simp [hn]
  case responses p st items hk =>
    simp [hn]
  all_goals simp [hn]

theorem errSender_pending {s s1 : State} {e : Err} (hs : errSender s = some (e, s1)) :
    s1.tqPending = s.tqPending ∧ (s1.reg = s.reg ∨ s1.reg = .gone) := by
  simp only [errSender] at hs
  (repeat' split at hs) <;> (cases hs) <;> simp [finishTerminate, sendRelease, pushMsg]

/-- every step other than `PopTasks` leaves the number of pending tasks alone or leaves the request
    tracked; and `PopTasks` does not touch `reg` -/
theorem step_pending {s s' : State} {a : Action} (hs : step s a = some s') :
    (a = .wPop ∧ s'.reg = s.reg) ∨ s'.tqPending = s.tqPending ∨ s'.reg = .live := by
  cases a
  case mgr =>
    simp only [step] at hs
    split at hs
    next m rest hm hb =>
      cases hs
      right
      exact handle_pending { s with mbox := rest } m
    next => cases hs
  case ceRecv =>
    simp only [step] at hs
    split at hs
    next buf e s1 hce hsnd => cases hs; have := errSender_pending hsnd; grind
    next => cases hs
  case cpDrainE =>
    simp only [step] at hs
    split at hs
    next sent pO e s1 hcp hsnd => cases hs; have := errSender_pending hsnd; grind
    next => cases hs
  case wPop =>
    simp only [step] at hs
    split at hs
    · cases hs; left; exact ⟨rfl, rfl⟩
    · cases hs
  all_goals
    right; left
    simp only [step, env, pushMsg, sendRelease, pauseCheck, dataLoaded, loadFailed, afterVisit,
      Option.map_eq_some_iff] at hs
    (repeat' split at hs) <;> (first | (cases hs; done) | (obtain ⟨_, hs1, hs2⟩ := hs; simp at hs1; subst hs2; grind) | (cases hs; grind))

end GS.ReqLife
