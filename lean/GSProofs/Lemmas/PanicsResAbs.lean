import GS.Model.PanicsRes
/-!
Helper lemmas for C22 (resource layer), part 5: ABSOLUTE release.  For a clean-up path and traverser
frame that pass the decidable check `releasesAll` (frame hands the panic to writeDone; for each error
class a traversal can end with, TaskDone exactly once and the tracker records dropped), the
invariant `Abs` holds in every reachable state under every schedule; it says for every request what
it may still hold in which phase, so that a request in phase `done` holds nothing at all.
-/
namespace GS.Panics.Res
open GS.Generated.PanicSites GS.Generated.PanicCleanup GS.Panics

/-- a request as it is submitted -/
structure Fresh (r : RReq) : Prop where
  phase : r.phase = .queued
  lock : r.lock = false
  released : r.released = 0
  cls : r.cls = .none

/-- may request `r` still have a table entry? only while a TaskDone-carrying call is still to come -/
def needsSlot (r : RReq) : Prop :=
  match r.phase with
  | .queued => True
  | .running => True
  | .cleaning todo => todo.any isSlotRelease = true
  | .done => False

/-- may it still have tracker records? -/
def needsTracker (r : RReq) : Prop :=
  match r.phase with
  | .running => True
  | .cleaning todo => todo.any dropsTrackerAct = true
  | _ => False

/-- TaskDone bookkeeping -/
def relCount (r : RReq) : Prop :=
  match r.phase with
  | .queued => r.released = 0
  | .running => r.released = 0
  | .cleaning todo => r.released + todo.countP isSlotRelease = 1
  | .done => r.released = 1

structure Per (s : RSys) (i : Nat) (r : RReq) : Prop where
  lock : r.lock = false
  cls : r.cls ≠ .paused
  table : i ∈ s.table → needsSlot r
  tracker : i ∈ s.tracker → needsTracker r
  count : relCount r

structure Abs (s : RSys) : Prop where
  nodupT : s.table.Nodup
  nodupK : s.tracker.Nodup
  validT : ∀ x ∈ s.table, x < s.reqs.length
  validK : ∀ x ∈ s.tracker, x < s.reqs.length
  per : ∀ (i : Nat) (r : RReq), s.reqs[i]? = some r → Per s i r

/-- the facts `releasesAll` packs, per class -/
structure RelOK (cfg : Cfg) : Prop where
  unlock : cfg.trav.contains .writeDoneOnPanic = true
  one : ∀ c ∈ relClasses, (cleanupActs cfg.levels c).countP isSlotRelease = 1
  drops : ∀ c ∈ relClasses, (cleanupActs cfg.levels c).any dropsTrackerAct = true

theorem relOK_of_check {cfg : Cfg} (h : releasesAll cfg.levels cfg.trav = true) : RelOK cfg := by
  simp only [releasesAll, Bool.and_eq_true, List.all_eq_true, decide_eq_true_eq] at h
  exact ⟨h.1, fun c hc => (h.2 c hc).1, fun c hc => (h.2 c hc).2⟩

theorem any_of_countP_one {l : List Act} (h : l.countP isSlotRelease = 1) : l.any isSlotRelease = true := by
  have : 0 < l.countP isSlotRelease := by omega
  obtain ⟨a, ha, hp⟩ := List.countP_pos_iff.mp this
  exact List.any_eq_true.mpr ⟨a, ha, hp⟩

/-- replacing request `i`, with table / tracker only shrinking (tracker may gain `i`) -/
theorem abs_update {s s' : RSys} (h : Abs s) {i : Nat} {r r' : RReq} (hri : s.reqs[i]? = some r)
    (hreqs : s'.reqs = s.reqs.set i r')
    (hT : ∀ x, x ∈ s'.table → x ∈ s.table) (hTn : s'.table.Nodup)
    (hK : ∀ x, x ∈ s'.tracker → x ∈ s.tracker ∨ x = i) (hKn : s'.tracker.Nodup)
    (hper : Per s' i r') : Abs s' := by
  have hlt : i < s.reqs.length := (List.getElem?_eq_some_iff.mp hri).1
  have hlen : s'.reqs.length = s.reqs.length := by rw [hreqs, List.length_set]
  refine ⟨hTn, hKn, ?_, ?_, ?_⟩
  · intro x hx; rw [hlen]; exact h.validT x (hT x hx)
  · intro x hx; rw [hlen]
    rcases hK x hx with h' | h'
    · exact h.validK x h'
    · rw [h']; exact hlt
  · intro j q hq
    rw [hreqs, List.getElem?_set] at hq
    by_cases hij : i = j
    · subst hij
      simp [hlt] at hq
      rw [← hq]; exact hper
    · simp [hij] at hq
      have hp := h.per j q hq
      refine ⟨hp.lock, hp.cls, fun hx => hp.table (hT j hx), fun hx => ?_, hp.count⟩
      rcases hK j hx with h' | h'
      · exact hp.tracker h'
      · exact absurd h'.symm hij

theorem stepRunning_per {cfg : Cfg} (ok : RelOK cfg) (r : RReq) (hph : r.phase = .running)
    (hrel : r.released = 0) (hcls : r.cls ≠ .paused) (hlock : r.lock = false) :
    let r' := (stepRunning cfg r).1
    r'.lock = false ∧ r'.cls ≠ .paused ∧ needsSlot r' ∧ needsTracker r' ∧ relCount r' := by
  rcases r with ⟨peer, script, phase, out, cls, delivered, lock, released⟩
  simp only at hph hrel hcls hlock
  subst hph; subst hrel; subst hlock
  have hn : ErrClass.none ∈ relClasses := by simp [relClasses]
  have ho : ErrClass.ordinary ∈ relClasses := by simp [relClasses]
  have hp : ErrClass.panicked ∈ relClasses := by simp [relClasses]
  cases script with
  | nil =>
    simp [stepRunning, failWith, needsSlot, needsTracker, relCount, ok.one _ hn,
      any_of_countP_one (ok.one _ hn), ok.drops _ hn]
  | cons c rest =>
    rcases c with ⟨sd, kd, res⟩
    cases res with
    | ok => simp [stepRunning, needsSlot, needsTracker, relCount, hcls]
    | err =>
      simp [stepRunning, failWith, needsSlot, needsTracker, relCount, ok.one _ ho,
        any_of_countP_one (ok.one _ ho), ok.drops _ ho]
    | panic =>
      by_cases hf : cfg.fr sd kd = true
      · have hu : TravAct.writeDoneOnPanic ∈ cfg.trav := by simpa using ok.unlock
        simp [stepRunning, failWith, needsSlot, needsTracker, relCount, hf, ok.one _ hp,
          any_of_countP_one (ok.one _ hp), ok.drops _ hp, hu]
      · simp [stepRunning, needsSlot, needsTracker, relCount, hf, hcls]

theorem step_abs {cfg : Cfg} (ok : RelOK cfg) {s : RSys} (h : Abs s) (i : Nat) : Abs (step cfg s i) := by
  unfold step
  by_cases hc : s.crashed = true
  · simpa [hc] using h
  · simp only [hc, Bool.false_eq_true, if_false]
    cases hri : s.reqs[i]? with
    | none => simpa using h
    | some r =>
      have hp := h.per i r hri
      simp only
      cases hph : r.phase with
      | queued =>
        by_cases hpop : canPop cfg s r = true
        · simp only [hpop, if_true]
          have hnotin : i ∉ s.tracker := fun hx => by simpa [needsTracker, hph] using hp.tracker hx
          refine abs_update h hri rfl (fun x hx => hx) h.nodupT
            (fun x hx => by
              simp only [List.mem_cons] at hx
              rcases hx with hx | hx
              · exact Or.inr hx
              · exact Or.inl hx)
            (List.nodup_cons.mpr ⟨hnotin, h.nodupK⟩)
            ⟨hp.lock, hp.cls, fun _ => by simp [needsSlot], fun _ => by simp [needsTracker], ?_⟩
          have := hp.count
          simpa [relCount, hph] using this
        · simpa [hpop] using h
      | running =>
        have hrel : r.released = 0 := by simpa [relCount, hph] using hp.count
        obtain ⟨h1, h2, h3, h4, h5⟩ := stepRunning_per ok r hph hrel hp.cls hp.lock
        rcases hst : stepRunning cfg r with ⟨r', e⟩
        rw [hst] at h1 h2 h3 h4 h5
        simp only at h1 h2 h3 h4 h5
        cases e with
        | crash =>
          have hcr : Abs { s with crashed := true } :=
            ⟨h.nodupT, h.nodupK, h.validT, h.validK, fun j q hq =>
              let p := h.per j q hq
              ⟨p.lock, p.cls, p.table, p.tracker, p.count⟩⟩
          exact hcr
        | none =>
          exact abs_update h hri rfl (fun x hx => hx) h.nodupT (fun x hx => Or.inl hx) h.nodupK
            ⟨h1, h2, fun _ => h3, fun _ => h4, h5⟩
        | cb sd k =>
          exact abs_update h hri rfl (fun x hx => hx) h.nodupT (fun x hx => Or.inl hx) h.nodupK
            ⟨h1, h2, fun _ => h3, fun _ => h4, h5⟩
      | cleaning todo =>
        cases todo with
        | nil =>
          refine abs_update h hri rfl (fun x hx => hx) h.nodupT (fun x hx => Or.inl hx) h.nodupK
            ⟨hp.lock, hp.cls, fun hx => ?_, fun hx => ?_, ?_⟩
          · have := hp.table hx; simp [needsSlot, hph] at this
          · have := hp.tracker hx; simp [needsTracker, hph] at this
          · have := hp.count; simpa [relCount, hph] using this
        | cons a rest =>
          by_cases hl : r.lock = true
          · simpa [hl] using h
          · simp only [hl, Bool.false_eq_true, if_false]
            have hdt : dropsTable r.cls = true := by simpa [dropsTable] using hp.cls
            have hcount : r.released + (a :: rest).countP isSlotRelease = 1 := by
              simpa [relCount, hph] using hp.count
            have htab : i ∈ s.table → (a :: rest).any isSlotRelease = true := fun hx => by
              simpa [needsSlot, hph] using hp.table hx
            have htrk : i ∈ s.tracker → (a :: rest).any dropsTrackerAct = true := fun hx => by
              simpa [needsTracker, hph] using hp.tracker hx
            rw [List.countP_cons] at hcount
            have eraseT : ∀ x, x ∈ s.table.erase i → x ∈ s.table := fun x hx => List.mem_of_mem_erase hx
            have eraseK : ∀ x, x ∈ s.tracker.erase i → x ∈ s.tracker ∨ x = i :=
              fun x hx => Or.inl (List.mem_of_mem_erase hx)
            have notT : i ∉ s.table.erase i := h.nodupT.not_mem_erase
            have notK : i ∉ s.tracker.erase i := h.nodupK.not_mem_erase
            cases a with
            | sendCancel =>
              refine abs_update (r' := { r with phase := .cleaning rest }) h hri (by simp [applyAct]) (fun x hx => by simpa [applyAct] using hx) (by simpa [applyAct] using h.nodupT)
                (fun x hx => Or.inl (by simpa [applyAct] using hx)) (by simpa [applyAct] using h.nodupK)
                ⟨by simpa [applyAct] using hp.lock, by simpa [applyAct] using hp.cls, fun hx => ?_, fun hx => ?_, ?_⟩
              · have := htab (by simpa [applyAct] using hx); simpa [needsSlot, applyAct, isSlotRelease] using this
              · have := htrk (by simpa [applyAct] using hx); simpa [needsTracker, applyAct, dropsTrackerAct] using this
              · simpa [relCount, applyAct, isSlotRelease] using hcount
            | setOffline =>
              refine abs_update (r' := { r with phase := .cleaning rest }) h hri (by simp [applyAct]) (fun x hx => by simpa [applyAct] using hx) (by simpa [applyAct] using h.nodupT)
                (fun x hx => Or.inl (by simpa [applyAct] using hx)) (by simpa [applyAct] using h.nodupK)
                ⟨by simpa [applyAct] using hp.lock, by simpa [applyAct] using hp.cls, fun hx => ?_, fun hx => ?_, ?_⟩
              · have := htab (by simpa [applyAct] using hx); simpa [needsSlot, applyAct, isSlotRelease] using this
              · have := htrk (by simpa [applyAct] using hx); simpa [needsTracker, applyAct, dropsTrackerAct] using this
              · simpa [relCount, applyAct, isSlotRelease] using hcount
            | ret =>
              refine abs_update (r' := { r with phase := .cleaning rest }) h hri (by simp [applyAct]) (fun x hx => by simpa [applyAct] using hx) (by simpa [applyAct] using h.nodupT)
                (fun x hx => Or.inl (by simpa [applyAct] using hx)) (by simpa [applyAct] using h.nodupK)
                ⟨by simpa [applyAct] using hp.lock, by simpa [applyAct] using hp.cls, fun hx => ?_, fun hx => ?_, ?_⟩
              · have := htab (by simpa [applyAct] using hx); simpa [needsSlot, applyAct, isSlotRelease] using this
              · have := htrk (by simpa [applyAct] using hx); simpa [needsTracker, applyAct, dropsTrackerAct] using this
              · simpa [relCount, applyAct, isSlotRelease] using hcount
            | deliverErr =>
              refine abs_update (r' := { r with delivered := true, phase := .cleaning rest }) h hri (by simp [applyAct]) (fun x hx => by simpa [applyAct] using hx) (by simpa [applyAct] using h.nodupT)
                (fun x hx => Or.inl (by simpa [applyAct] using hx)) (by simpa [applyAct] using h.nodupK)
                ⟨by simpa [applyAct] using hp.lock, by simpa [applyAct] using hp.cls, fun hx => ?_, fun hx => ?_, ?_⟩
              · have := htab (by simpa [applyAct] using hx); simpa [needsSlot, applyAct, isSlotRelease] using this
              · have := htrk (by simpa [applyAct] using hx); simpa [needsTracker, applyAct, dropsTrackerAct] using this
              · simpa [relCount, applyAct, isSlotRelease] using hcount
            | releaseTask =>
              refine abs_update (r' := { r with released := r.released + 1, phase := .cleaning rest }) h hri (by simp [applyAct]) (fun x hx => eraseT x (by simpa [applyAct, hdt] using hx))
                (by simpa [applyAct, hdt] using h.nodupT.erase i)
                (fun x hx => eraseK x (by simpa [applyAct] using hx)) (by simpa [applyAct] using h.nodupK.erase i)
                ⟨by simpa [applyAct] using hp.lock, by simpa [applyAct] using hp.cls, fun hx => ?_, fun hx => ?_, ?_⟩
              · exact absurd (by simpa [applyAct, hdt] using hx) notT
              · exact absurd (by simpa [applyAct] using hx) notK
              · simp [isSlotRelease] at hcount
                simp [relCount]; omega
            | clearRequest =>
              refine abs_update (r' := { r with phase := .cleaning rest }) h hri (by simp [applyAct]) (fun x hx => by simpa [applyAct] using hx) (by simpa [applyAct] using h.nodupT)
                (fun x hx => eraseK x (by simpa [applyAct] using hx)) (by simpa [applyAct] using h.nodupK.erase i)
                ⟨by simpa [applyAct] using hp.lock, by simpa [applyAct] using hp.cls, fun hx => ?_, fun hx => ?_, ?_⟩
              · have := htab (by simpa [applyAct] using hx); simpa [needsSlot, applyAct, isSlotRelease] using this
              · exact absurd (by simpa [applyAct] using hx) notK
              · simpa [relCount, applyAct, isSlotRelease] using hcount
            | closeResponse =>
              refine abs_update (r' := { r with delivered := true, phase := .cleaning rest }) h hri (by simp [applyAct]) (fun x hx => by simpa [applyAct] using hx) (by simpa [applyAct] using h.nodupT)
                (fun x hx => eraseK x (by simpa [applyAct] using hx)) (by simpa [applyAct] using h.nodupK.erase i)
                ⟨by simpa [applyAct] using hp.lock, by simpa [applyAct] using hp.cls, fun hx => ?_, fun hx => ?_, ?_⟩
              · have := htab (by simpa [applyAct] using hx); simpa [needsSlot, applyAct, isSlotRelease] using this
              · exact absurd (by simpa [applyAct] using hx) notK
              · simpa [relCount, applyAct, isSlotRelease] using hcount
            | finishTask =>
              refine abs_update (r' := { r with released := r.released + 1, phase := .cleaning rest }) h hri (by simp [applyAct]) (fun x hx => eraseT x (by simpa [applyAct, hdt] using hx))
                (by simpa [applyAct, hdt] using h.nodupT.erase i)
                (fun x hx => Or.inl (by simpa [applyAct] using hx)) (by simpa [applyAct] using h.nodupK)
                ⟨by simpa [applyAct] using hp.lock, by simpa [applyAct] using hp.cls, fun hx => ?_, fun hx => ?_, ?_⟩
              · exact absurd (by simpa [applyAct, hdt] using hx) notT
              · have := htrk (by simpa [applyAct] using hx); simpa [needsTracker, applyAct, dropsTrackerAct] using this
              · simp [isSlotRelease] at hcount
                simp [relCount]; omega
      | done => simpa using h

theorem init_abs (reqs : List RReq) (hf : ∀ r ∈ reqs, Fresh r) : Abs (init reqs) := by
  refine ⟨List.nodup_range, by simp [init], ?_, by simp [init], ?_⟩
  · intro x hx; simpa [init] using hx
  · intro i r hr
    have hmem : r ∈ reqs := List.mem_iff_getElem?.mpr ⟨i, by simpa [init] using hr⟩
    have f := hf r hmem
    exact ⟨f.lock, by rw [f.cls]; simp, fun _ => by simp [needsSlot, f.phase],
      fun hx => by simp [init] at hx, by simp [relCount, f.phase, f.released]⟩

theorem run_abs {cfg : Cfg} (ok : RelOK cfg) (sched : List Nat) :
    ∀ {s : RSys}, Abs s → Abs (run cfg s sched) := by
  induction sched with
  | nil => intro s h; exact h
  | cons i rest ih => intro s h; simpa [run] using ih (s := step cfg s i) (step_abs ok h i)

/-- a request that has run through its clean-up holds nothing -/
theorem done_holds_nothing {s : RSys} (h : Abs s) {i : Nat} {r : RReq} (hr : s.reqs[i]? = some r)
    (hd : r.phase = .done) :
    i ∉ s.table ∧ i ∉ s.tracker ∧ r.lock = false ∧ r.released = 1 ∧ holds r = false := by
  have hp := h.per i r hr
  refine ⟨fun hx => ?_, fun hx => ?_, hp.lock, ?_, by simp [holds, hd]⟩
  · have := hp.table hx; simp [needsSlot, hd] at this
  · have := hp.tracker hx; simp [needsTracker, hd] at this
  · have := hp.count; simpa [relCount, hd] using this

/-- when every request is done, the tables are empty -/
theorem all_done_tables_empty {s : RSys} (h : Abs s) (hall : ∀ r ∈ s.reqs, r.phase = .done) :
    s.table = [] ∧ s.tracker = [] := by
  constructor
  · rw [List.eq_nil_iff_forall_not_mem]
    intro x hx
    have hlt := h.validT x hx
    have hget : s.reqs[x]? = some s.reqs[x] := List.getElem?_eq_getElem hlt
    exact (done_holds_nothing h hget (hall _ (List.getElem_mem hlt))).1 hx
  · rw [List.eq_nil_iff_forall_not_mem]
    intro x hx
    have hlt := h.validK x hx
    have hget : s.reqs[x]? = some s.reqs[x] := List.getElem?_eq_getElem hlt
    exact (done_holds_nothing h hget (hall _ (List.getElem_mem hlt))).2.1 hx

end GS.Panics.Res
