import GSProofs.Lemmas.RespLifeOutcomePDef
/-!
Outcome accounting, part 3: `Places` is preserved by the allocator, by transactions, by worker segments, by
the message queue / publisher and by the environment.
-/
namespace GS.RespLife

variable {r : Id} {okP : Peer → Prop} {okI : Nat → Prop}

-- ------------------------------------------------------------------ identity of the builder of a transaction
/-- what transactions see of worker `w`: request id, peer, identity of its response -/
def wsg (s : State) (w : Nat) : Option (Id × Peer × Nat) := (s.workers[w]?).map fun x => (x.id, x.peer, x.inc)

theorem wsg_setWorker_same (s : State) (w' : Nat) (f : Worker → Worker)
    (hf : ∀ x, (f x).id = x.id ∧ (f x).peer = x.peer ∧ (f x).inc = x.inc) (w : Nat) :
    wsg (setWorker s w' f) w = wsg s w := by
  unfold wsg setWorker
  simp only [List.getElem?_mapIdx]
  cases s.workers[w]? with
  | none => rfl
  | some x =>
    simp only [Option.map_some]
    split
    · rw [(hf x).1, (hf x).2.1, (hf x).2.2]
    · rfl

theorem grantFn_same (x : Worker) :
    (match x.phase with
      | .blockedTx ops k _ => { x with phase := WPhase.blockedTx ops k true }
      | _ => x).id = x.id ∧
    (match x.phase with
      | .blockedTx ops k _ => { x with phase := WPhase.blockedTx ops k true }
      | _ => x).peer = x.peer ∧
    (match x.phase with
      | .blockedTx ops k _ => { x with phase := WPhase.blockedTx ops k true }
      | _ => x).inc = x.inc := by
  split <;> exact ⟨rfl, rfl, rfl⟩

theorem wsg_grantTo (s : State) (party : Party) (w : Nat) : wsg (grantTo s party) w = wsg s w := by
  cases party with
  | mgr => rfl
  | worker w' => exact wsg_setWorker_same s w' _ grantFn_same w

theorem wsg_grantLoop (fuel : Nat) (s : State) (p : Peer) (w : Nat) : wsg (grantLoop fuel s p) w = wsg s w := by
  induction fuel generalizing s with
  | zero => rfl
  | succ n ih =>
    unfold grantLoop
    split
    · rfl
    · split
      · rw [ih, wsg_grantTo]; rfl
      · rfl

theorem wsg_release (s : State) (p : Peer) (n : Nat) (w : Nat) : wsg (release s p n) w = wsg s w := by
  unfold release
  simp only
  rw [wsg_grantLoop]
  rfl

theorem wsg_buildNow (s : State) (party : Party) (p : Peer) (id : Id) (ops : List TxOp) (w : Nat) :
    wsg (buildNow s party p id ops) w = wsg s w := by
  unfold buildNow
  simp only
  split
  · split
    · exact wsg_release s p _ w
    · rfl
  · rfl

theorem wsg_execTx (s : State) (party : Party) (p : Peer) (id : Id) (ops : List TxOp) (w : Nat) :
    wsg (execTx s party p id ops).1 w = wsg s w := by
  unfold execTx
  split
  · rfl
  · simp only
    split
    · exact wsg_buildNow s party p id ops w
    · unfold tryAlloc
      split
      · simp only [if_true]; rw [wsg_buildNow]; rfl
      · rfl

theorem incOf_worker (s : State) (w : Nat) (id : Id) {i : Id} {p : Peer} {n : Nat} (h : wsg s w = some (i, p, n)) :
    incOf s (.worker w) id = n := by
  unfold wsg at h
  unfold incOf
  cases hx : s.workers[w]? with
  | none => rw [hx] at h; cases h
  | some x =>
    rw [hx] at h
    simp only [Option.map_some, Option.some.injEq, Prod.mk.injEq] at h
    simp [hx, h.2.2]

theorem incOf_mgr_some {s : State} {id : Id} {x : Resp} (h : lookup s id = some x) : incOf s .mgr id = x.inc := by
  unfold lookup at h
  simp [incOf, h]

theorem incOf_mgr_none {s : State} {id : Id} (h : lookup s id = none) : incOf s .mgr id = s.nextInc := by
  unfold lookup at h
  simp [incOf, h]

-- ------------------------------------------------------------------ allocator
theorem Places.addAlloc {s : State} (h : Places r okP okI s) (p : Peer) (n : Nat) : Places r okP okI (addAlloc s p n) :=
  h.updMQ_same p (fun q => { q with allocated := q.allocated + n }) (fun _ => rfl) (fun _ => rfl) (fun _ => rfl)
    (fun _ => rfl)

theorem Places.grantTo {s : State} (h : Places r okP okI s) (party : Party) : Places r okP okI (grantTo s party) := by
  cases party with
  | mgr =>
    refine ⟨h.tbl, h.wk, h.qs, h.bld, h.pub, h.mail, ?_⟩
    intro pk hpk
    have hpk' : s.park.map (fun k => { k with granted := true }) = some pk := hpk
    cases hp : s.park with
    | none => rw [hp] at hpk'; cases hpk'
    | some k =>
      rw [hp] at hpk'
      simp only [Option.map_some, Option.some.injEq] at hpk'
      subst hpk'
      exact h.park k hp
  | worker w =>
    apply h.onSetWorker_phase w _ grantFn_same
    intro x hx hid h1 h2
    cases hph : x.phase <;> simp_all

theorem Places.grantLoop {s : State} (h : Places r okP okI s) (fuel : Nat) (p : Peer) :
    Places r okP okI (grantLoop fuel s p) := by
  induction fuel generalizing s with
  | zero => exact h
  | succ n ih =>
    unfold GS.RespLife.grantLoop
    split
    · exact h
    · rename_i w _
      split
      · have h1 : Places r okP okI { s with waiting := s.waiting.erase w } := h.of_same rfl rfl rfl rfl rfl rfl
        exact ih ((h1.addAlloc p w.size).grantTo w.party)
      · exact h

theorem Places.release {s : State} (h : Places r okP okI s) (p : Peer) (n : Nat) : Places r okP okI (release s p n) := by
  unfold GS.RespLife.release
  simp only
  have h1 : Places r okP okI { s with underflow := s.underflow || decide ((getMQ s p).allocated < n) } :=
    h.of_same rfl rfl rfl rfl rfl rfl
  have h2 := h1.updMQ_same p (fun q => { q with allocated := q.allocated - n }) (fun _ => rfl) (fun _ => rfl)
    (fun _ => rfl) (fun _ => rfl)
  exact h2.grantLoop _ p

theorem Places.tryAlloc {s : State} (h : Places r okP okI s) (party : Party) (p : Peer) (n : Nat) :
    Places r okP okI (tryAlloc s party p n).1 := by
  unfold GS.RespLife.tryAlloc
  split
  · exact h.addAlloc p n
  · exact h.of_same rfl rfl rfl rfl rfl rfl

theorem incOf_tryAlloc (s : State) (party party' : Party) (p : Peer) (n : Nat) (id : Id) :
    incOf (tryAlloc s party' p n).1 party id = incOf s party id := by
  unfold tryAlloc
  split <;> rfl

-- ------------------------------------------------------------------ transactions
theorem bents_getD (o : Option Builder) : bents (some (o.getD {})) = bents o := by
  cases o <;> rfl

theorem Places.buildNow {s : State} (h : Places r okP okI s) (party : Party) (p : Peer) (id : Id) (ops : List TxOp)
    (hb : id = r → okP p ∧ okI (incOf s party id)) : Places r okP okI (buildNow s party p id ops) := by
  unfold GS.RespLife.buildNow
  simp only
  split
  · split
    · exact h.release p _
    · exact h
  · apply h.onSetMQ
    · intro e he hid
      show okP (getMQ s p).peer ∧ _
      rw [getMQ_peer]
      rcases he with he | he
      · exact h.bld p e (Or.inl he) hid
      · have he' : e ∈ putEntry ((getMQ s p).next.getD {}).entries
            { (ops.foldl (applyOp s.extLen) (getEntry ((getMQ s p).next.getD {}).entries id)) with
              sub := true, inc := incOf s party id } := he
        rcases mem_putEntry he' with he1 | he1
        · have hid' : id = r := by
            rw [← hid, he1]
            show id = (ops.foldl (applyOp s.extLen) (getEntry ((getMQ s p).next.getD {}).entries id)).id
            rw [foldl_applyOp_id, getEntry_id]
          rw [he1]
          exact hb hid'
        · refine h.bld p e (Or.inr ?_) hid
          rw [← bents_getD]; exact he1
    · intro st hst hid
      show okP (getMQ s p).peer ∧ _
      rw [getMQ_peer]
      exact h.pub p st hst hid

theorem Places.execTx {s : State} (h : Places r okP okI s) (party : Party) (p : Peer) (id : Id) (ops : List TxOp)
    (hb : id = r → okP p ∧ okI (incOf s party id)) : Places r okP okI (execTx s party p id ops).1 := by
  unfold GS.RespLife.execTx
  split
  · exact h
  · simp only
    split
    · exact h.buildNow party p id ops hb
    · have h1 := h.tryAlloc party p (txSize s.extLen ops)
      have h2 := incOf_tryAlloc s party party p (txSize s.extLen ops) id
      generalize GS.RespLife.tryAlloc s party p (txSize s.extLen ops) = pr at h1 h2
      obtain ⟨s1, ok⟩ := pr
      simp only at h1 h2 ⊢
      split
      · exact h1.buildNow party p id ops (by rw [h2]; exact hb)
      · exact h1

end GS.RespLife
