import GSProofs.Lemmas.TaskQueueBasic
/-!
Helper lemmas for C21, part 2: what PopTasks / PushTasks / TasksDone / Remove / ThawRound do to the
trackers.
-/
namespace GS.TQ

theorem bestPending_mem : ∀ {l : List Task} {t : Task}, bestPending l = some t → t ∈ l
  | [], _, h => by simp [bestPending] at h
  | x :: xs, t, h => by
    simp only [bestPending] at h
    split at h
    · cases h; simp
    · rename_i b hb
      split at h
      · cases h; exact List.mem_cons_of_mem _ (bestPending_mem hb)
      · cases h; simp

theorem bestPending_isSome : ∀ {l : List Task}, l ≠ [] → ∃ t, bestPending l = some t
  | [], h => absurd rfl h
  | x :: xs, _ => by
    simp only [bestPending]
    split
    · exact ⟨_, rfl⟩
    · split <;> exact ⟨_, rfl⟩

theorem filter_uid_length {l : List Task} {t : Task} (h : t ∈ l) :
    (l.filter (fun x => x.uid != t.uid)).length + 1 ≤ l.length := by
  induction l with
  | nil => cases h
  | cons x xs ih =>
    simp only [List.filter]
    rcases List.mem_cons.mp h with rfl | h'
    · simp
      exact List.length_filter_le _ _
    · have := ih h'
      split <;> simp <;> omega

/-- what one run of peertracker.PopTasks does to a tracker -/
structure PopSpec (tr : Tracker) (out : List Task) (r : Tracker × List Task) : Prop where
  id : r.1.id = tr.id
  freeze : r.1.freeze = tr.freeze
  ex : ∃ new, r.2 = out ++ new ∧ r.1.active = tr.active ++ new ∧
        r.1.pending.length + new.length ≤ tr.pending.length ∧
        (∀ t ∈ r.1.pending, t ∈ tr.pending) ∧ (∀ t ∈ new, t ∈ tr.pending)

theorem popLoop_spec (cap target : Nat) : ∀ (f : Nat) (tr : Tracker) (out : List Task) (w : Nat),
    PopSpec tr out (popLoop cap target f tr out w) := by
  intro f
  induction f with
  | zero => intro tr out w; exact ⟨rfl, rfl, [], by simp [popLoop]⟩
  | succ f ih =>
    intro tr out w
    have triv : PopSpec tr out (tr, out) := ⟨rfl, rfl, [], by simp⟩
    simp only [popLoop]
    split
    · exact triv
    · split
      · exact triv
      · split
        · exact triv
        · rename_i t ht
          have hm := bestPending_mem ht
          have := ih (startTask tr t) (out ++ [t]) (w + t.work)
          obtain ⟨h1, h2, new, h3, h4, h5, h6, h7⟩ := this
          refine ⟨h1, h2, t :: new, ?_, ?_, ?_, ?_, ?_⟩
          · simp [h3]
          · rw [h4]; simp [startTask]
          · have := filter_uid_length hm
            have e : (startTask tr t).pending = tr.pending.filter (fun x => x.uid != t.uid) := rfl
            rw [e] at h5
            simp only [List.length_cons]; omega
          · intro x hx
            have := h6 x hx
            simp only [startTask] at this
            exact (List.mem_filter.mp this).1
          · intro x hx
            rcases List.mem_cons.mp hx with rfl | hx'
            · exact hm
            · have := h7 x hx'
              simp only [startTask] at this
              exact (List.mem_filter.mp this).1

/-- an unfrozen tracker with pending tasks that is below the cap yields at least one task -/
theorem popLoop_nonempty (cap target f : Nat) (tr : Tracker) (ht : 1 ≤ target) (hf : tr.freeze = 0)
    (hp : tr.pending ≠ []) (hc : cap = 0 ∨ tr.activeWork < cap) :
    (popLoop cap target (f + 1) tr [] 0).2 ≠ [] := by
  simp only [popLoop]
  have h1 : ¬ ((tr.freeze != 0 || decide (0 ≥ target)) = true) := by
    simp [hf]; omega
  have h2 : ¬ ((decide (cap > 0) && decide (tr.activeWork ≥ cap)) = true) := by
    simp; intro; omega
  rw [if_neg h1, if_neg h2]
  obtain ⟨t, ht⟩ := bestPending_isSome hp
  simp only [ht]
  obtain ⟨new, h3, _⟩ := (popLoop_spec cap target f (startTask tr t) ([] ++ [t]) (0 + t.work)).ex
  rw [h3]; simp

/-- the shape of every PopTasks result -/
theorem pop_cases (q : PTQ) (target : Nat) :
    (peek q = none ∧ pop q target = (q, {})) ∨
    (∃ tr, peek q = some tr ∧
      let r := popLoop q.cap target (tr.pending.length + 1) tr [] 0
      (pop q target).2.peer = some tr.id ∧ (pop q target).2.tasks = r.2 ∧
      (pop q target).1.cap = q.cap ∧ (pop q target).1.ignoreFreeze = q.ignoreFreeze ∧
      (((pop q target).1.peers = eraseT q.peers tr.id ∧ r.1.pending = [] ∧ r.1.active = [] ∧
          (pop q target).1.frozen = q.frozen.filter (· != tr.id)) ∨
       ((pop q target).1.peers = setT q.peers r.1 ∧ (pop q target).1.frozen = q.frozen))) := by
  cases hp : peek q with
  | none => left; simp [pop, hp]
  | some tr =>
    right
    refine ⟨tr, rfl, ?_⟩
    simp only [pop, hp]
    split
    · rename_i hidle
      simp at hidle
      refine ⟨rfl, rfl, rfl, rfl, Or.inl ⟨rfl, hidle.1, hidle.2, rfl⟩⟩
    · exact ⟨rfl, rfl, rfl, rfl, Or.inr ⟨rfl, rfl⟩⟩

/-! ### push -/

theorem mergePending_id (tr : Tracker) (t : Task) : (mergePending tr t).id = tr.id := by
  unfold mergePending; split <;> try rfl
  split <;> try rfl
  split <;> rfl

theorem mergePending_active (tr : Tracker) (t : Task) : (mergePending tr t).active = tr.active := by
  unfold mergePending; split <;> try rfl
  split <;> try rfl
  split <;> rfl

theorem mergePending_freeze (tr : Tracker) (t : Task) : (mergePending tr t).freeze = tr.freeze := by
  unfold mergePending; split <;> try rfl
  split <;> try rfl
  split <;> rfl

theorem mergePending_len (tr : Tracker) (t : Task) :
    (mergePending tr t).pending.length ≤ tr.pending.length + 1 := by
  unfold mergePending; split
  · omega
  · split
    · split <;> simp
    · simp

theorem mergePending_mem (tr : Tracker) (t : Task) {x : Task} (h : x ∈ (mergePending tr t).pending) :
    x.work = t.work ∧ x = t ∨ ∃ y ∈ tr.pending, x.uid = y.uid ∧ x.topic = y.topic ∧ x.work = y.work := by
  unfold mergePending at h
  split at h
  · exact Or.inr ⟨x, h, rfl, rfl, rfl⟩
  · split at h
    · split at h
      · simp only [List.mem_map] at h
        obtain ⟨y, hy, rfl⟩ := h
        refine Or.inr ⟨y, hy, ?_⟩
        split <;> simp
      · exact Or.inr ⟨x, h, rfl, rfl, rfl⟩
    · simp only [List.mem_append, List.mem_singleton] at h
      rcases h with h | rfl
      · exact Or.inr ⟨x, h, rfl, rfl, rfl⟩
      · exact Or.inl ⟨rfl, rfl⟩

/-- the tracker list after a push -/
theorem push_peers (q : PTQ) (p : Nat) (t : Task) :
    ∃ base, (base = q.peers ∨ base = q.peers ++ [{ id := p }]) ∧
      (push q p t).peers = modifyT base p (mergePending · t) ∧
      (push q p t).frozen = q.frozen ∧ (push q p t).cap = q.cap ∧
      (push q p t).ignoreFreeze = q.ignoreFreeze := by
  unfold push
  split
  · exact ⟨q.peers, Or.inl rfl, rfl, rfl, rfl, rfl⟩
  · exact ⟨_, Or.inr rfl, rfl, rfl, rfl, rfl⟩

theorem done_peers (q : PTQ) (p uid : Nat) :
    (((∀ t ∈ q.peers, t.id ≠ p) ∧ (done q p uid).peers = q.peers) ∨
      (done q p uid).peers = modifyT q.peers p (doneT uid)) ∧
    (done q p uid).frozen = q.frozen ∧ (done q p uid).cap = q.cap ∧
    (done q p uid).ignoreFreeze = q.ignoreFreeze := by
  unfold done
  split
  · rename_i h
    exact ⟨Or.inl ⟨findT_none h, rfl⟩, rfl, rfl, rfl⟩
  · exact ⟨Or.inr rfl, rfl, rfl, rfl⟩

theorem remove_peers (q : PTQ) (p topic : Nat) :
    ((remove q p topic).peers = q.peers ∧ (remove q p topic).frozen = q.frozen ∨
     (remove q p topic).peers = modifyT q.peers p (removeT topic false) ∧
       (remove q p topic).frozen = q.frozen ∨
     (remove q p topic).peers = modifyT q.peers p (removeT topic true) ∧
       p ∈ (remove q p topic).frozen ∧ (∀ x ∈ q.frozen, x ∈ (remove q p topic).frozen)) ∧
    (remove q p topic).cap = q.cap ∧ (remove q p topic).ignoreFreeze = q.ignoreFreeze := by
  unfold remove
  split
  · exact ⟨Or.inl ⟨rfl, rfl⟩, rfl, rfl⟩
  · split
    · split
      · exact ⟨Or.inr (Or.inl ⟨rfl, rfl⟩), rfl, rfl⟩
      · refine ⟨Or.inr (Or.inr ⟨rfl, ?_, ?_⟩), rfl, rfl⟩
        · simp only [refix_frozen]
          split
          · rename_i h; simpa using h
          · simp
        · intro x hx
          simp only [refix_frozen]
          split
          · exact hx
          · simp [hx]
    · exact ⟨Or.inl ⟨rfl, rfl⟩, rfl, rfl⟩

/-! ### ThawRound -/

theorem thawT_le (tr : Tracker) : (thawT tr).freeze ≤ tr.freeze := by
  simp only [thawT]; omega

theorem thawT_lt (tr : Tracker) (h : 0 < tr.freeze) : (thawT tr).freeze < tr.freeze := by
  simp only [thawT]; omega

theorem thawOne_peers (q : PTQ) (p : Nat) :
    ((thawOne q p).peers = q.peers ∧ (thawOne q p).frozen = q.frozen ∧ (∀ t ∈ q.peers, t.id ≠ p) ∨
     (thawOne q p).peers = modifyT q.peers p thawT ∧
       (∀ x ∈ q.frozen, x ≠ p → x ∈ (thawOne q p).frozen) ∧
       (∀ x ∈ (thawOne q p).frozen, x ∈ q.frozen)) ∧
    (thawOne q p).cap = q.cap ∧ (thawOne q p).ignoreFreeze = q.ignoreFreeze := by
  unfold thawOne
  split
  · rename_i h
    exact ⟨Or.inl ⟨rfl, rfl, findT_none h⟩, rfl, rfl⟩
  · refine ⟨Or.inr ⟨rfl, ?_, ?_⟩, rfl, rfl⟩
    · intro x hx hne
      simp only [refix_frozen]
      split
      · exact List.mem_filter.mpr ⟨hx, by simpa using hne⟩
      · exact hx
    · intro x hx
      simp only [refix_frozen] at hx
      split at hx
      · exact (List.mem_filter.mp hx).1
      · exact hx

end GS.TQ
