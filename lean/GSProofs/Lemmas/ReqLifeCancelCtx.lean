import GSProofs.Lemmas.ReqLifeCancel2
import GSProofs.Lemmas.ReqLifeQueue
/-!
Context cancel, state level (C04): while the collector's cancel message has been sent (`cpCancelSent`), either it
is still in the mailbox, or the request is gone, or the cancel message to the peer is in the outbox.
-/
namespace GS.ReqLife

theorem terminate_cp (s : State) (r : Bool) : (terminate s r).cp = s.cp := by
  unfold terminate; split <;> simp [finishTerminate]

theorem cancelOnError_cp (s : State) (e : Option Err) : (cancelOnError s e).cp = s.cp := by
  unfold cancelOnError
  simp only
  split <;> split <;> simp [terminate_cp]

theorem handle_cpSent (s : State) (m : Msg) :
    cpCancelSent (handle s m).cp = true → cpCancelSent s.cp = true := by
  cases m <;> simp only [handle, cancelLive, hookCancel, ingest, procTerminations]
  · split <;> simp [cpCancelSent]
  · (repeat' split) <;> simp [cancelOnError_cp]
  · (repeat' split) <;> simp [cancelOnError_cp]
  · (repeat' split) <;> simp
  · (repeat' split) <;> simp
  · (repeat' split) <;> simp
  · (repeat' split) <;> simp [terminate_cp]

/-- steps other than the manager's never remove a mailbox message; `cpCancelSent` becomes true only by
    `cpSendCancel`, which puts the message into the mailbox. -/
theorem step_ctx_nonmgr {s s' : State} {a : Action} (hs : step s a = some s') (ha : a ≠ .mgr) :
    (cpCancelSent s'.cp = true → cpCancelSent s.cp = true ∨ Msg.cancel false ∈ s'.mbox) ∧
    (Msg.cancel false ∈ s.mbox → Msg.cancel false ∈ s'.mbox) := by
  cases a
  case mgr => exact absurd rfl ha
  case ceRecv =>
    simp only [step] at hs
    split at hs
    next buf e s1 hce hsnd =>
      cases hs
      rcases errSender_cases hsnd with ⟨rw, _, rfl⟩ | ⟨_, fatal, _, _, rfl⟩ | ⟨_, _, rfl⟩ <;>
        (simp [finishTerminate, sendRelease, pushMsg] <;> grind)
    next => cases hs
  case cpDrainE =>
    simp only [step] at hs
    split at hs
    next sent pO e s1 hcp hsnd =>
      cases hs
      rcases errSender_cases hsnd with ⟨rw, _, rfl⟩ | ⟨_, fatal, _, _, rfl⟩ | ⟨_, _, rfl⟩ <;>
        (simp [finishTerminate, sendRelease, pushMsg, hcp, cpCancelSent] <;> grind)
    next => cases hs
  all_goals
    simp only [step, env, pushMsg, sendRelease, pauseCheck, dataLoaded, loadFailed, afterVisit,
      Option.map_eq_some_iff] at hs
    (repeat' split at hs) <;>
      (first
        | (cases hs; done)
        | (obtain ⟨_, hs1, hs2⟩ := hs; simp at hs1; done)
        | (obtain ⟨_, hs1, hs2⟩ := hs; simp at hs1; subst hs2; simp [cpCancelSent] <;> grind)
        | (cases hs; simp_all [cpCancelSent] <;> grind)
        | (cases hs; simp [cpCancelSent] <;> grind))

def InvCtx (s : State) : Prop :=
  cpCancelSent s.cp = true → Msg.cancel false ∈ s.mbox ∨ s.reg = .gone ∨ cancelTo s.peer ∈ s.outbox

theorem invCtx_init (p e t : Nat) : InvCtx (init p e t) := by simp [InvCtx, init, cpCancelSent]

theorem invCtx_step {s s' : State} {a : Action} (hinv : Inv s) (hi : InvCtx s) (hs : step s a = some s') :
    InvCtx s' := by
  intro hc
  obtain ⟨hp, ho⟩ := step_outbox hs
  by_cases ha : a = .mgr
  · subst ha
    have hs0 := hs
    simp only [step] at hs
    split at hs
    next m rest hm hb =>
      cases hs
      have hc0 : cpCancelSent s.cp = true := handle_cpSent { s with mbox := rest } m hc
      rcases hi hc0 with h | h | h
      · rw [hb] at h
        rcases List.mem_cons.mp h with h | h
        · subst h
          rcases reg_cases s with hr | hr | hr
          · have := (hinv.l hr).2.2.2.2.1; simp [this, cpCancelSent] at hc0
          · right; right
            rw [ho, hp]
            exact List.mem_append_right _ (by simp [emit, cause, hm, hb, msgCause, hr])
          · exact Or.inr (Or.inl (gone_step hinv hr hs0).1)
        · left; rw [handle_mbox]; exact h
      · exact Or.inr (Or.inl (gone_step hinv h hs0).1)
      · right; right; rw [ho, hp]; exact List.mem_append_left _ h
    next => cases hs
  · obtain ⟨h1, h2⟩ := step_ctx_nonmgr hs ha
    rcases h1 hc with hc0 | hm
    · rcases hi hc0 with h | h | h
      · exact Or.inl (h2 h)
      · exact Or.inr (Or.inl (gone_step hinv h hs).1)
      · right; right; rw [ho, hp]; exact List.mem_append_left _ h
    · exact Or.inl hm

end GS.ReqLife
